import Proofs.Real
import Pose.Model.Lie
import Mathlib.Tactic.Ring
import Mathlib.Tactic.LinearCombination
import Mathlib.Tactic.FieldSimp
/-!
# Quaternion / small-matrix algebra over ℝ (shared by C01–C05, C11, C16, C17, C19)
-/
namespace PP
open Vec3 Quat Mat3

@[ext] theorem Vec3.ext' {a b : Vec3 ℝ} (hx : a.x = b.x) (hy : a.y = b.y) (hz : a.z = b.z) : a = b := by
  cases a; cases b; simp_all
@[ext] theorem Quat.ext' {a b : Quat ℝ} (hx : a.x = b.x) (hy : a.y = b.y) (hz : a.z = b.z) (hw : a.w = b.w) :
    a = b := by cases a; cases b; simp_all
@[ext] theorem Mat3.ext' {a b : Mat3 ℝ} (h0 : a.r0 = b.r0) (h1 : a.r1 = b.r1) (h2 : a.r2 = b.r2) : a = b := by
  cases a; cases b; simp_all

/-- simp set that unfolds the small algebra to components -/
macro "lie_unfold" : tactic =>
  `(tactic| simp only [Quat.mul, Quat.act, Quat.conj, Quat.neg, Quat.vec, Quat.mk', Quat.one, Quat.normSq,
      Vec3.add, Vec3.sub, Vec3.neg, Vec3.smul, Vec3.dot, Vec3.cross, Vec3.normSq, Vec3.zero, Vec3.e0, Vec3.e1,
      Vec3.e2, Mat3.mulVec, Mat3.vecMul, Mat3.mul, Mat3.add, Mat3.sub, Mat3.neg, Mat3.smul, Mat3.one, Mat3.zero,
      Mat3.hat, Mat3.outer, Mat3.transpose, Mat3.c0, Mat3.c1, Mat3.c2, Mat3.ofCols, Mat3.ofRows, Mat3.det,
      Mat3.trace, Mat3.adjugate, k_real, q_real, Nat.cast_ofNat, Nat.cast_zero, Nat.cast_one])

theorem Quat.mul_assoc' (p q r : Quat ℝ) : (p.mul q).mul r = p.mul (q.mul r) := by
  ext <;> lie_unfold <;> ring

theorem Quat.normSq_mul (p q : Quat ℝ) : (p.mul q).normSq = p.normSq * q.normSq := by
  lie_unfold; ring

theorem Quat.normSq_conj (p : Quat ℝ) : p.conj.normSq = p.normSq := by lie_unfold; ring

theorem Quat.one_mul' (p : Quat ℝ) : Quat.one.mul p = p := by ext <;> lie_unfold <;> ring
theorem Quat.mul_one' (p : Quat ℝ) : p.mul Quat.one = p := by ext <;> lie_unfold <;> ring

theorem Quat.mul_conj (p : Quat ℝ) : p.mul p.conj = ⟨0, 0, 0, p.normSq⟩ := by
  ext <;> lie_unfold <;> ring
theorem Quat.conj_mul (p : Quat ℝ) : p.conj.mul p = ⟨0, 0, 0, p.normSq⟩ := by
  ext <;> lie_unfold <;> ring
theorem Quat.conj_mul_rev (p q : Quat ℝ) : (p.mul q).conj = q.conj.mul p.conj := by
  ext <;> lie_unfold <;> ring
theorem Quat.conj_conj (p : Quat ℝ) : p.conj.conj = p := by ext <;> lie_unfold <;> ring

/-- vector part of `q (v,0) q*` -/
noncomputable def Quat.sandwich (q : Quat ℝ) (v : Vec3 ℝ) : Vec3 ℝ := ((q.mul ⟨v.x, v.y, v.z, 0⟩).mul q.conj).vec

theorem Quat.sandwich_w (q : Quat ℝ) (v : Vec3 ℝ) : ((q.mul ⟨v.x, v.y, v.z, 0⟩).mul q.conj).w = 0 := by
  lie_unfold; ring

/-- the code's `SO3_Act` formula differs from the sandwich product by `(1 − ‖q‖²) v` — they agree on
unit quaternions. -/
theorem Quat.act_eq_sandwich (q : Quat ℝ) (v : Vec3 ℝ) :
    q.act v = (q.sandwich v).add (v.smul (1 - q.normSq)) := by
  unfold Quat.sandwich; ext <;> lie_unfold <;> ring

theorem Quat.act_unit (q : Quat ℝ) (h : q.normSq = 1) (v : Vec3 ℝ) : q.act v = q.sandwich v := by
  rw [Quat.act_eq_sandwich, h]; ext <;> lie_unfold <;> ring

theorem Quat.sandwich_mul (p q : Quat ℝ) (v : Vec3 ℝ) : (p.mul q).sandwich v = p.sandwich (q.sandwich v) := by
  unfold Quat.sandwich; ext <;> lie_unfold <;> ring

/-- action of a product of unit quaternions is the composition of the actions -/
theorem Quat.act_mul (p q : Quat ℝ) (hp : p.normSq = 1) (hq : q.normSq = 1) (v : Vec3 ℝ) :
    (p.mul q).act v = p.act (q.act v) := by
  rw [Quat.act_unit _ (by rw [Quat.normSq_mul, hp, hq]; ring), Quat.act_unit p hp, Quat.act_unit q hq,
    Quat.sandwich_mul]

theorem Quat.sandwich_normSq (q : Quat ℝ) (v : Vec3 ℝ) : (q.sandwich v).normSq = q.normSq ^ 2 * v.normSq := by
  unfold Quat.sandwich; lie_unfold; ring

theorem Quat.act_add (q : Quat ℝ) (u v : Vec3 ℝ) : q.act (u.add v) = (q.act u).add (q.act v) := by
  ext <;> lie_unfold <;> ring
theorem Quat.act_smul (q : Quat ℝ) (c : ℝ) (v : Vec3 ℝ) : q.act (v.smul c) = (q.act v).smul c := by
  ext <;> lie_unfold <;> ring
theorem Quat.act_neg (q : Quat ℝ) (v : Vec3 ℝ) : q.act v.neg = (q.act v).neg := by
  ext <;> lie_unfold <;> ring
theorem Quat.act_zero (q : Quat ℝ) : q.act Vec3.zero = Vec3.zero := by
  ext <;> lie_unfold <;> ring
theorem Quat.one_act (v : Vec3 ℝ) : Quat.one.act v = v := by ext <;> lie_unfold <;> ring
theorem Quat.neg_act (q : Quat ℝ) (v : Vec3 ℝ) : q.neg.act v = q.act v := by ext <;> lie_unfold <;> ring

theorem Quat.conj_act_act (q : Quat ℝ) (h : q.normSq = 1) (v : Vec3 ℝ) : q.conj.act (q.act v) = v := by
  rw [← Quat.act_mul _ _ (by rw [Quat.normSq_conj, h]) h, Quat.conj_mul, h]
  ext <;> lie_unfold <;> ring
theorem Quat.act_conj_act (q : Quat ℝ) (h : q.normSq = 1) (v : Vec3 ℝ) : q.act (q.conj.act v) = v := by
  rw [← Quat.act_mul _ _ h (by rw [Quat.normSq_conj, h]), Quat.mul_conj, h]
  ext <;> lie_unfold <;> ring

/-- `‖R(q) v‖ = ‖v‖` for unit `q` -/
theorem Quat.act_normSq (q : Quat ℝ) (h : q.normSq = 1) (v : Vec3 ℝ) : (q.act v).normSq = v.normSq := by
  rw [Quat.act_unit q h, Quat.sandwich_normSq, h]; ring

/-- The matrix the code builds from `Act` on basis vectors equals the closed form `SO3_Adj` on unit
quaternions (so `matrix()` and `rotation().matrix()` / `Adj` agree). -/
theorem SO3matrix_eq_SO3Mat (q : Quat ℝ) (h : q.normSq = 1) : SO3matrix q = SO3Mat q := by
  have h' : q.x * q.x + q.y * q.y + q.z * q.z + q.w * q.w = 1 := h
  unfold SO3matrix SO3Mat
  ext <;> lie_unfold <;>
    first | linear_combination (0 : ℝ) * h' | linear_combination (2 : ℝ) * h' | linear_combination (-2 : ℝ) * h'

end PP
