import Pose.Scalar
import Pose.Model.Basic
/-!
# The linear system of one `LevenbergMarquardt.step` trial (dense branch), as far as C08 needs it

`LM.step` builds `J_T = J.T` (no weight), `A = J_T @ J`, clamps the diagonal of `A` to `[min, max]`, multiplies it by
`1 + damping` (`A.diagonal().add_(A.diagonal() * pg['damping'])`) and asks the solver for `D` with `A D = -J_T @ R`.
The matrix it hands over is `JᵀJ + diag Λ` with `Λ_j = clamp(A_jj)·(1 + damping) − A_jj`; `Λ_j > 0` whenever
`A_jj ≤ max`, `min > 0` and `damping > 0` (the construction itself is property C07).

Only what the step-quality denominator needs is modelled: `Jᵀu` for a matrix given by its rows, and the predicate
"`D` solves the damped normal equations".
-/
namespace PP.LMLoop
variable {α : Type} [Scalar α]

/-- `Jᵀ u = Σ_i u_i · row_i` for a matrix given by its rows, all of width `n` (`J_T @ u` in `LM.step`) -/
def tmulVec (n : Nat) : DMat α → DVec α → DVec α
  | r :: J, ui :: u => DVec.add (DVec.smul ui r) (tmulVec n J u)
  | _, _ => DVec.zero n

/-- `(JᵀJ + diag Λ) D = −JᵀR`, written without forming the matrix: `Jᵀ(J D) + Λ ⊙ D = −(Jᵀ R)` -/
def SolvesDamped (J : DMat α) (lam D R : DVec α) : Prop :=
  DVec.add (tmulVec D.length J (DMat.mulVec J D)) (List.zipWith (· * ·) lam D) = DVec.neg (tmulVec D.length J R)

/-- `Dᵀ Λ D = Σ_j Λ_j D_j²` -/
def wsq (lam D : DVec α) : α := DVec.sum (List.zipWith (fun l d => l * d * d) lam D)

/-! ## the diagonal `LM.step` hands to the solver (pass 10)

`A = J_T @ J`; `A.diagonal().clamp_(pg['min'], pg['max'])` once per call; then in EVERY trial of the call
`A.diagonal().add_(A.diagonal() * pg['damping'])` on the same tensor — the damping accumulates over the rejected trials. -/

/-- `torch.clamp(x, min, max) = min(max(x, min), max)` -/
def tclamp (lo hi x : α) : α :=
  let y := if Scalar.lt x lo then lo else x
  if Scalar.lt hi y then hi else y

/-- `diag(JᵀJ)_j = Σ_i J_ij²` for a matrix given by its rows of width `n` -/
def diagJtJ (n : Nat) : DMat α → DVec α
  | r :: J => DVec.add (r.map (fun x => x * x)) (diagJtJ n J)
  | [] => DVec.zero n

/-- one diagonal entry after the clamp and after the trials whose dampings are `damps` (in order): `d ← d + d·λ` each -/
def lmDiag (lo hi a : α) (damps : List α) : α :=
  damps.foldl (fun d lam => d + d * lam) (tclamp lo hi a)

/-- `Λ_j`: what the code has added to `(JᵀJ)_jj` when it calls the solver -/
def lmShift (lo hi : α) (damps : List α) (a : α) : α := lmDiag lo hi a damps - a

/-- the whole shift vector of a trial: `Λ = diag(A) − diag(JᵀJ)` -/
def lmShiftVec (n : Nat) (lo hi : α) (damps : List α) (J : DMat α) : DVec α :=
  (diagJtJ n J).map (lmShift lo hi damps)

end PP.LMLoop
