import Proofs.Lemmas.Kernel
import Proofs.Lemmas.Corrector
import Mathlib.Analysis.Calculus.Deriv.Add
import Mathlib.Analysis.Calculus.Deriv.Mul
import Mathlib.Analysis.Calculus.Deriv.Comp
/-!
# C09 — kernels match closed forms; correctors preserve the robust gradient and Hessian

Property theorems only (helpers: `Proofs/Lemmas/Kernel.lean`, `Proofs/Lemmas/Corrector.lean`).
Model: `Pose/Model/Kernel.lean`, `Pose/Model/Corrector.lean`, instantiated at `α = ℝ`.

Part A  kernels: assertion, element-wise closed form, zero at zero, domains ("finite"), monotone on `[0,∞)`,
        `ρ'`/`ρ''` closed forms are the derivatives, Huber is C¹ at its threshold, concavity.
Part B  correctors, for *every* `ρ'`, `ρ''` (arbitrary functions — user kernels included).
Part C  kernel / corrector plumbing of the optimisers and the link "descent direction = gradient of the
        reported robust loss".
-/
namespace PP.Kernel
open Set

/-! ## Part A — kernels -/

/-- All seven built-in kernels carry the assertion `torch.all(input >= 0)`. -/
theorem builtin_asserts (s : Spec ℝ) (h : s.kind ≠ Kind.poly) : s.asserts = true := by
  unfold Spec.asserts; cases hk : s.kind <;> simp_all

/-- **Negative input is rejected**: if any element of the tensor is negative the whole call fails. -/
theorem kernel_rejects_negative (s : Spec ℝ) (h : s.kind ≠ Kind.poly) (xs : List ℝ)
    (hneg : ∃ x ∈ xs, x < 0) : onTensor s xs = none := by
  unfold onTensor
  rw [builtin_asserts s h]
  obtain ⟨x, hx, hx0⟩ := hneg
  have : xs.all ok = false := by
    rw [List.all_eq_false]
    exact ⟨x, hx, by rw [ok_real]; simp [not_le.mpr hx0]⟩
  simp [this]

/-- **Non-negative input is mapped element-wise**: same length, element `i` depends on `xs[i]` only. -/
theorem kernel_elementwise (s : Spec ℝ) (xs : List ℝ) (hpos : ∀ x ∈ xs, 0 ≤ x) :
    onTensor s xs = some (xs.map s.val) := by
  unfold onTensor
  have : xs.all ok = true := by
    rw [List.all_eq_true]
    intro x hx; rw [ok_real]; simpa using hpos x hx
  simp [this]

/-- per element: `x < 0` ↦ error, for each of the seven kernels -/
theorem kernels_neg_elem {x : ℝ} (hx : x < 0) (δ a b : ℝ) :
    huber δ x = none ∧ pseudoHuber δ x = none ∧ cauchy δ x = none ∧ softLOne δ x = none ∧
    arctan δ x = none ∧ tolerant a b x = none ∧ scale δ x = none :=
  ⟨guarded_neg _ hx, guarded_neg _ hx, guarded_neg _ hx, guarded_neg _ hx, guarded_neg _ hx,
   guarded_neg _ hx, guarded_neg _ hx⟩

/-! ### documented closed forms (the value `forward` computes on one non-negative element) -/

theorem huber_closed_form (δ : ℝ) {x : ℝ} (hx : 0 ≤ x) :
    huber δ x = some (if Real.sqrt x < δ then x else 2 * δ * Real.sqrt x - δ ^ 2) := by
  unfold huber; rw [guarded_nonneg _ hx, huberV_real, pow_two]

theorem pseudoHuber_closed_form (δ : ℝ) {x : ℝ} (hx : 0 ≤ x) :
    pseudoHuber δ x = some (2 * δ ^ 2 * (Real.sqrt (1 + x / δ ^ 2) - 1)) := by
  unfold pseudoHuber; rw [guarded_nonneg _ hx, pseudoHuberV_real, pow_two, add_comm]

theorem cauchy_closed_form (δ : ℝ) {x : ℝ} (hx : 0 ≤ x) :
    cauchy δ x = some (δ ^ 2 * Real.log (1 + x / δ ^ 2)) := by
  unfold cauchy; rw [guarded_nonneg _ hx, cauchyV_real, pow_two, add_comm]

theorem softLOne_closed_form (δ : ℝ) {x : ℝ} (hx : 0 ≤ x) :
    softLOne δ x = some (2 * (δ * Real.sqrt (1 / δ ^ 2 + x) - 1)) := by
  unfold softLOne; rw [guarded_nonneg _ hx, softLOneV_real, pow_two]

/-- (`δ ≠ 0`: the constructor has no check, but the documented formula divides by `δ²`; at `δ = 0` the code returns NaN at `x = 0`
while Lean's `x/0 = 0` would make the equation hold vacuously — hence the guard) -/
theorem arctan_closed_form {δ : ℝ} (_hδ : δ ≠ 0) {x : ℝ} (hx : 0 ≤ x) :
    arctan δ x = some (δ ^ 2 * Real.arctan (x / δ ^ 2)) := by
  unfold arctan; rw [guarded_nonneg _ hx, arctanV_real, pow_two]

theorem tolerant_closed_form (a b : ℝ) {x : ℝ} (hx : 0 ≤ x) :
    tolerant a b x = some (b * Real.log (1 + Real.exp ((x - a) / b)) - b * Real.log (1 + Real.exp (-a / b))) := by
  unfold tolerant; rw [guarded_nonneg _ hx, tolerantV_real]

theorem scale_closed_form (δ : ℝ) {x : ℝ} (hx : 0 ≤ x) : scale δ x = some (δ * x) := by
  unfold scale; rw [guarded_nonneg _ hx]; rfl

/-- **Tolerant as the driver runs it.** `Spec.val` dispatches Tolerant to the code-level `tolerantC`
(`b·softplus((x−a)/b, threshold=50) − offset`); on the property's domain (`b < 0`, `a ≤ 50|b|`, `x ≥ 0`) this *is* the documented
formula — value, `ρ'` and `ρ''` — so every statement about `tolerantV/D1/D2` in this file is a statement about what the
correspondence check executes. -/
theorem spec_tolerant_closed_form {a b x : ℝ} (hb : b < 0) (hdom : a ≤ 50 * (-b)) (hx : 0 ≤ x) (p3 : ℝ) :
    (⟨Kind.tolerant, a, b, p3⟩ : Spec ℝ).val x
      = b * Real.log (1 + Real.exp ((x - a) / b)) - b * Real.log (1 + Real.exp (-a / b)) ∧
    (⟨Kind.tolerant, a, b, p3⟩ : Spec ℝ).d1 x = tolerantD1 a b x ∧ (⟨Kind.tolerant, a, b, p3⟩ : Spec ℝ).d2 x = tolerantD2 a b x ∧
    tolerantCode a b x = tolerant a b x := by
  obtain ⟨h0, h1, h2⟩ := tolerantC_eq hb hx hdom
  refine ⟨?_, h1, h2, ?_⟩
  · show tolerantC a b x = _
    rw [h0, tolerantV_real]
  · unfold tolerantCode tolerant; rw [guarded_nonneg _ hx, guarded_nonneg _ hx, h0]

/-- the code-level Tolerant is non-decreasing on `[0,∞)` on the property's domain (bridge for `tolerant_monotone`) -/
theorem tolerant_code_monotone {a b : ℝ} (hb : b < 0) (hdom : a ≤ 50 * (-b)) : MonotoneOn (tolerantC a b) (Ici 0) := by
  intro x hx y hy hxy
  rw [(tolerantC_eq hb (mem_Ici.mp hx) hdom).1, (tolerantC_eq hb (mem_Ici.mp hy) hdom).1]
  exact tolerantV_mono hb hxy

/-- **"finite"** over ℝ: on non-negative input every kernel returns a value (no assertion fires) — that is all the model can
say; that the *float* result is finite (no overflow / NaN from the intermediates) is decided by the harness on the real code
(`kernel-finite`, `corrector-finite`), see META. The facts that every radicand / log argument / denominator of the documented
formulas is in its domain are `kernels_domains` in `Proofs/Lemmas/Kernel.lean`. -/
theorem kernels_return_value (δ a b : ℝ) {x : ℝ} (hx : 0 ≤ x) :
    huber δ x = some (huberV δ x) ∧ pseudoHuber δ x = some (pseudoHuberV δ x) ∧ cauchy δ x = some (cauchyV δ x) ∧
    softLOne δ x = some (softLOneV δ x) ∧ arctan δ x = some (arctanV δ x) ∧ tolerant a b x = some (tolerantV a b x) ∧
    tolerantCode a b x = some (tolerantC a b x) ∧ scale δ x = some (scaleV δ x) :=
  ⟨guarded_nonneg _ hx, guarded_nonneg _ hx, guarded_nonneg _ hx, guarded_nonneg _ hx, guarded_nonneg _ hx,
   guarded_nonneg _ hx, guarded_nonneg _ hx, guarded_nonneg _ hx⟩

/-! ### zero at zero -/

theorem kernels_zero_at_zero {δ : ℝ} (hδ : 0 < δ) (a b : ℝ) :
    huber δ 0 = some 0 ∧ pseudoHuber δ 0 = some 0 ∧ cauchy δ 0 = some 0 ∧ softLOne δ 0 = some 0 ∧
    arctan δ 0 = some 0 ∧ tolerant a b 0 = some 0 ∧ scale δ 0 = some 0 := by
  refine ⟨?_, ?_, ?_, ?_, ?_, ?_, ?_⟩
  · unfold huber; rw [guarded_nonneg _ le_rfl, huberV_zero hδ]
  · unfold pseudoHuber; rw [guarded_nonneg _ le_rfl, pseudoHuberV_zero]
  · unfold cauchy; rw [guarded_nonneg _ le_rfl, cauchyV_zero]
  · unfold softLOne; rw [guarded_nonneg _ le_rfl, softLOneV_zero hδ]
  · unfold arctan; rw [guarded_nonneg _ le_rfl, arctanV_zero]
  · unfold tolerant; rw [guarded_nonneg _ le_rfl, tolerantV_zero]
  · unfold scale; rw [guarded_nonneg _ le_rfl, scaleV_real, mul_zero]

/-! ### non-decreasing on `[0, ∞)` -/

theorem huber_monotone {δ : ℝ} (hδ : 0 < δ) : MonotoneOn (huberV δ) (Ici 0) :=
  fun _ _ _ _ hxy => huberV_mono hδ hxy
theorem pseudoHuber_monotone {δ : ℝ} (hδ : 0 < δ) : MonotoneOn (pseudoHuberV δ) (Ici 0) :=
  fun _ _ _ _ hxy => pseudoHuberV_mono hδ hxy
theorem cauchy_monotone {δ : ℝ} (hδ : 0 < δ) : MonotoneOn (cauchyV δ) (Ici 0) :=
  fun _ hx _ _ hxy => cauchyV_mono hδ (mem_Ici.mp hx) hxy
theorem softLOne_monotone {δ : ℝ} (hδ : 0 < δ) : MonotoneOn (softLOneV δ) (Ici 0) :=
  fun _ _ _ _ hxy => softLOneV_mono hδ hxy
theorem arctan_monotone {δ : ℝ} (hδ : δ ≠ 0) : MonotoneOn (arctanV δ) (Ici 0) :=
  fun _ _ _ _ hxy => arctanV_mono hδ hxy
theorem tolerant_monotone {a b : ℝ} (hb : b < 0) : MonotoneOn (tolerantV a b) (Ici 0) :=
  fun _ _ _ _ hxy => tolerantV_mono hb hxy
theorem scale_monotone {δ : ℝ} (hδ : 0 < δ) : MonotoneOn (scaleV δ) (Ici 0) :=
  fun _ _ _ _ hxy => by rw [scaleV_real, scaleV_real]; exact mul_le_mul_of_nonneg_left hxy hδ.le

/-- consequently every kernel value is non-negative on `[0,∞)` -/
theorem kernels_nonneg {δ : ℝ} (hδ : 0 < δ) {a b : ℝ} (hb : b < 0) {x : ℝ} (hx : 0 ≤ x) :
    0 ≤ huberV δ x ∧ 0 ≤ pseudoHuberV δ x ∧ 0 ≤ cauchyV δ x ∧ 0 ≤ softLOneV δ x ∧ 0 ≤ arctanV δ x ∧
    0 ≤ tolerantV a b x ∧ 0 ≤ scaleV δ x := by
  refine ⟨?_, ?_, ?_, ?_, ?_, ?_, ?_⟩
  · rw [← huberV_zero hδ]; exact huberV_mono hδ hx
  · rw [← pseudoHuberV_zero δ]; exact pseudoHuberV_mono hδ hx
  · rw [← cauchyV_zero δ]; exact cauchyV_mono hδ le_rfl hx
  · rw [← softLOneV_zero hδ]; exact softLOneV_mono hδ hx
  · rw [← arctanV_zero δ]; exact arctanV_mono hδ.ne' hx
  · rw [← tolerantV_zero a b]; exact tolerantV_mono hb hx
  · rw [scaleV_real]; positivity

/-! ### Huber: continuous value and slope at the threshold `x = δ²` -/

/-- both branch formulas give `δ²` at the threshold -/
theorem huber_value_at_threshold {δ : ℝ} (hδ : 0 < δ) :
    huberV δ (δ * δ) = δ * δ ∧ 2 * δ * Real.sqrt (δ * δ) - δ * δ = δ * δ := by
  refine ⟨huberV_threshold hδ, ?_⟩
  rw [Real.sqrt_mul_self hδ.le]; ring

theorem huber_value_continuous {δ : ℝ} (hδ : 0 < δ) : Continuous (huberV δ) := huberV_continuous hδ

/-- the slope `ρ'` (1 below the threshold, `δ/√x` above) is continuous everywhere, in particular at `δ²` -/
theorem huber_slope_continuous {δ : ℝ} (hδ : 0 < δ) : Continuous (huberD1 δ) := huberD1_continuous hδ

/-- Huber is differentiable at *every* `x`, including the threshold `δ²`, with derivative `huberD1` -/
theorem huber_hasDerivAt {δ : ℝ} (hδ : 0 < δ) (x : ℝ) : HasDerivAt (huberV δ) (huberD1 δ x) x := by
  rcases lt_trichotomy x (δ * δ) with h | h | h
  · exact huber_hasDerivAt_lower hδ h
  · rw [h]; exact huber_hasDerivAt_threshold hδ
  · exact huber_hasDerivAt_upper hδ h

/-! ### the closed forms of `ρ'` (what the correctors obtain from autograd) are the derivatives -/

theorem kernels_hasDerivAt {δ : ℝ} (hδ : 0 < δ) {a b : ℝ} (hb : b < 0) {x : ℝ} (hx : 0 ≤ x) :
    HasDerivAt (huberV δ) (huberD1 δ x) x ∧ HasDerivAt (pseudoHuberV δ) (pseudoHuberD1 δ x) x ∧
    HasDerivAt (cauchyV δ) (cauchyD1 δ x) x ∧ HasDerivAt (softLOneV δ) (softLOneD1 δ x) x ∧
    HasDerivAt (arctanV δ) (arctanD1 δ x) x ∧ HasDerivAt (tolerantV a b) (tolerantD1 a b x) x ∧
    HasDerivAt (scaleV δ) (scaleD1 δ x) x ∧
    ∀ c1 c2 c3 : ℝ, HasDerivAt (polyV c1 c2 c3) (polyD1 c1 c2 c3 x) x :=
  ⟨huber_hasDerivAt hδ x, pseudoHuber_hasDerivAt hδ hx, cauchy_hasDerivAt hδ hx,
   softLOne_hasDerivAt hδ hx, arctan_hasDerivAt hδ.ne' x, tolerant_hasDerivAt hb.ne x,
   scale_hasDerivAt δ x, fun c1 c2 c3 => poly_hasDerivAt c1 c2 c3 x⟩

/-- … and the closed forms of `ρ''` are the derivatives of `ρ'` (Huber: away from the kink of `ρ'`). -/
theorem kernels_hasDerivAt2 {δ : ℝ} (hδ : 0 < δ) {a b : ℝ} (hb : b < 0) {x : ℝ} (hx : 0 ≤ x) :
    (x ≠ δ * δ → HasDerivAt (huberD1 δ) (huberD2 δ x) x) ∧
    HasDerivAt (pseudoHuberD1 δ) (pseudoHuberD2 δ x) x ∧
    HasDerivAt (cauchyD1 δ) (cauchyD2 δ x) x ∧ HasDerivAt (softLOneD1 δ) (softLOneD2 δ x) x ∧
    HasDerivAt (arctanD1 δ) (arctanD2 δ x) x ∧ HasDerivAt (tolerantD1 a b) (tolerantD2 a b x) x ∧
    HasDerivAt (scaleD1 δ) (scaleD2 δ x) x ∧
    ∀ c1 c2 c3 : ℝ, HasDerivAt (polyD1 c1 c2 c3) (polyD2 c1 c2 c3 x) x := by
  refine ⟨?_, pseudoHuber_hasDerivAt2 hδ hx, cauchy_hasDerivAt2 hδ hx, softLOne_hasDerivAt2 hδ hx,
    arctan_hasDerivAt2 hδ.ne' x, tolerant_hasDerivAt2 hb.ne x, ?_, fun c1 c2 c3 => poly_hasDerivAt2 c1 c2 c3 x⟩
  · intro hne
    rcases lt_or_gt_of_ne hne with h | h
    · exact huber_hasDerivAt2_lower hδ h
    · exact huber_hasDerivAt2_upper hδ h
  · rw [scaleD2_real]; exact hasDerivAt_const x δ

/-- every built-in kernel has `ρ' > 0` and `ρ'' ≤ 0` on `[0,∞)` — so the `ρ'' > 0` branch of `Triggs` is
unreachable with them (`builtin_triggs_eq_fastTriggs` below). -/
theorem builtin_slope_pos_curvature_nonpos {δ : ℝ} (hδ : 0 < δ) {a b : ℝ} (hb : b < 0) {x : ℝ} (hx : 0 ≤ x) :
    (0 < huberD1 δ x ∧ huberD2 δ x ≤ 0) ∧ (0 < pseudoHuberD1 δ x ∧ pseudoHuberD2 δ x ≤ 0) ∧
    (0 < cauchyD1 δ x ∧ cauchyD2 δ x ≤ 0) ∧ (0 < softLOneD1 δ x ∧ softLOneD2 δ x ≤ 0) ∧
    (0 < arctanD1 δ x ∧ arctanD2 δ x ≤ 0) ∧ (0 < tolerantD1 a b x ∧ tolerantD2 a b x ≤ 0) ∧
    (0 < scaleD1 δ x ∧ scaleD2 δ x ≤ 0) :=
  ⟨⟨huberD1_pos hδ x, huberD2_nonpos hδ hx⟩, ⟨pseudoHuberD1_pos hδ hx, pseudoHuberD2_nonpos hδ hx⟩,
   ⟨cauchyD1_pos hδ hx, cauchyD2_nonpos hδ hx⟩, ⟨softLOneD1_pos hδ hx, softLOneD2_nonpos hδ hx⟩,
   ⟨arctanD1_pos δ x, arctanD2_nonpos hx⟩, ⟨tolerantD1_pos a b x, tolerantD2_nonpos hb x⟩,
   ⟨hδ, by rw [scaleD2_real]⟩⟩

/-! non-vacuity of the hypotheses used above (`δ = 1/2`, `a = 1`, `b = -1`, `x = 3`) -/
example : (0:ℝ) < 1/2 ∧ (-1:ℝ) < 0 ∧ (0:ℝ) < 3 ∧ (3:ℝ) ≠ (1/2) * (1/2) := by norm_num
example : huber (1/2 : ℝ) 3 = some (2 * (1/2) * Real.sqrt 3 - (1/2)^2) := by
  rw [huber_closed_form _ (by norm_num)]
  have : ¬ Real.sqrt 3 < 1/2 := by
    rw [not_lt]; exact Real.le_sqrt_of_sq_le (by norm_num)
  rw [if_neg this]
example : onTensor (⟨Kind.huber, 1, 0, 0⟩ : Spec ℝ) [1, -1] = none :=
  kernel_rejects_negative _ (by decide) _ ⟨-1, by simp, by norm_num⟩

/-! ### hardening pass: element-wise = batched -/

/-- **Element-wise = batched** (kernels): on a tensor that passes the assertion, output element `i` is the
kernel value of input element `i` alone — no other element of the batch influences it. -/
theorem onTensor_getElem (s : Spec ℝ) (xs ys : List ℝ) (h : onTensor s xs = some ys) (i : Nat) :
    ys[i]? = (xs[i]?).map s.val := by
  unfold onTensor at h
  split at h
  · cases h
  · cases h; simp

/-- **The assertion is the only batch-level decision**: a concatenated tensor is accepted iff both parts are,
and then the result is the concatenation of the results (so splitting / merging batches changes nothing). -/
theorem onTensor_append (s : Spec ℝ) (xs ys : List ℝ) :
    onTensor s (xs ++ ys) = (match onTensor s xs, onTensor s ys with
      | some a, some b => some (a ++ b)
      | _, _ => none) := by
  unfold onTensor
  by_cases ha : s.asserts = true
  · by_cases hx : xs.all ok = true <;> by_cases hy : ys.all ok = true <;>
      simp [ha, hx, hy, List.all_append, List.map_append]
  · simp [ha, List.map_append]


/-! ## pass 3 — kernels as the code computes them: constructor checks, softplus threshold, all seven at once -/

/-- **Every clause of the kernel part, for all seven kernels at once** (as the code computes them, Tolerant through
softplus): for every accepted parameter set of the domain, `ρ(0)=0`, `ρ` non-decreasing and non-negative on `[0,∞)`,
`ρ'` (the closed form autograd returns) is the derivative at every `x ≥ 0` (zero residuals included; only exception: the code-level
Tolerant at `x = 0` when `a = 50|b|` exactly, where softplus' threshold sits at the evaluation point), `ρ' > 0` and `ρ'' ≤ 0` on `[0,∞)`. -/
theorem builtin_spec_laws (s : Spec ℝ) (h : s.inDomain) :
    s.val 0 = 0 ∧ MonotoneOn s.val (Ici 0) ∧ (∀ x, 0 ≤ x → 0 ≤ s.val x ∧ 0 < s.d1 x ∧ s.d2 x ≤ 0) ∧
    (∀ x, 0 ≤ x → (s.kind = Kind.tolerant → x = 0 → s.p1 < 50 * (-s.p2)) → HasDerivAt s.val (s.d1 x) x) := by
  obtain ⟨hk, hc, ha, ht⟩ := h
  rw [ctorOk_real] at hc
  unfold Spec.val Spec.d1 Spec.d2
  cases hkind : s.kind with
  | huber =>
    simp only [hkind] at hc ⊢
    exact ⟨huberV_zero hc, huber_monotone hc, fun x hx => ⟨(kernels_nonneg hc (a := 1) (b := -1) (by norm_num) hx).1,
      huberD1_pos hc x, huberD2_nonpos hc hx⟩, fun x _ _ => huber_hasDerivAt hc x⟩
  | pseudoHuber =>
    simp only [hkind] at hc ⊢
    exact ⟨pseudoHuberV_zero _, pseudoHuber_monotone hc, fun x hx => ⟨(kernels_nonneg hc (a := 1) (b := -1) (by norm_num) hx).2.1,
      pseudoHuberD1_pos hc hx, pseudoHuberD2_nonpos hc hx⟩, fun x hx _ => pseudoHuber_hasDerivAt hc hx⟩
  | cauchy =>
    simp only [hkind] at hc ⊢
    exact ⟨cauchyV_zero _, cauchy_monotone hc, fun x hx => ⟨(kernels_nonneg hc (a := 1) (b := -1) (by norm_num) hx).2.2.1,
      cauchyD1_pos hc hx, cauchyD2_nonpos hc hx⟩, fun x hx _ => cauchy_hasDerivAt hc hx⟩
  | softLOne =>
    simp only [hkind] at hc ⊢
    exact ⟨softLOneV_zero hc, softLOne_monotone hc, fun x hx => ⟨(kernels_nonneg hc (a := 1) (b := -1) (by norm_num) hx).2.2.2.1,
      softLOneD1_pos hc hx, softLOneD2_nonpos hc hx⟩, fun x hx _ => softLOne_hasDerivAt hc hx⟩
  | arctan =>
    have hd := ha hkind
    simp only []
    refine ⟨arctanV_zero _, arctan_monotone hd, fun x hx => ⟨?_, arctanD1_pos _ x, arctanD2_nonpos hx⟩, fun x _ _ => arctan_hasDerivAt hd x⟩
    rw [← arctanV_zero s.p1]; exact arctanV_mono hd hx
  | tolerant =>
    simp only [hkind] at hc ⊢
    obtain ⟨hapos, hb⟩ := hc
    have hdom := ht hkind
    have heq : ∀ x, 0 ≤ x → tolerantC s.p1 s.p2 x = tolerantV s.p1 s.p2 x := fun x hx => (tolerantC_eq hb hx hdom).1
    refine ⟨by rw [heq 0 le_rfl, tolerantV_zero], ?_, fun x hx => ⟨?_, ?_, ?_⟩, fun x hx hstrict => ?_⟩
    · intro x hx y hy hxy
      show tolerantC s.p1 s.p2 x ≤ tolerantC s.p1 s.p2 y
      rw [heq x (mem_Ici.mp hx), heq y (mem_Ici.mp hy)]; exact tolerantV_mono hb hxy
    · rw [heq x hx, ← tolerantV_zero s.p1 s.p2]; exact tolerantV_mono hb hx
    · rw [(tolerantC_eq hb hx hdom).2.1]; exact tolerantD1_pos _ _ _
    · rw [(tolerantC_eq hb hx hdom).2.2]; exact tolerantD2_nonpos hb x
    · rw [(tolerantC_eq hb hx hdom).2.1]
      refine (tolerant_hasDerivAt hb.ne x).congr_of_eventuallyEq ?_
      -- near x the softplus argument stays ≤ 50: for x > 0 because y ≥ 0 nearby, at x = 0 because a < 50|b| strictly
      have hnear : s.p1 + 50 * s.p2 < x := by
        rcases lt_or_eq_of_le hx with h | h
        · linarith
        · have := hstrict trivial h.symm; linarith
      filter_upwards [Ioi_mem_nhds hnear] with y hy
      have hy' : (y - s.p1) / s.p2 ≤ 50 := by rw [div_le_iff_of_neg hb]; nlinarith [mem_Ioi.mp hy]
      unfold tolerantC; rw [softplus50_real, if_neg (not_lt.mpr hy'), tolerantV_real]
      simp only [log_real, exp_real, k_real, Nat.cast_one]
  | scale =>
    simp only [hkind] at hc ⊢
    obtain ⟨hpos, _⟩ := hc
    refine ⟨by rw [scaleV_real, mul_zero], scale_monotone hpos, fun x hx => ⟨?_, hpos, by rw [scaleD2_real]⟩, fun x _ _ => scale_hasDerivAt _ x⟩
    rw [scaleV_real]; positivity
  | poly => exact absurd hkind hk

/-- non-vacuity: the default parameters of all seven kernels are in the domain -/
example : ∀ kd ∈ [Kind.huber, Kind.pseudoHuber, Kind.cauchy, Kind.softLOne, Kind.arctan, Kind.tolerant, Kind.scale],
    (⟨kd, 1, -1, 0⟩ : Spec ℝ).inDomain := by
  intro kd hkd
  simp only [List.mem_cons, List.not_mem_nil, or_false] at hkd
  unfold Spec.inDomain
  rcases hkd with rfl | rfl | rfl | rfl | rfl | rfl | rfl <;>
    refine ⟨by decide, by rw [ctorOk_real]; norm_num, fun _ => by norm_num, fun _ => by norm_num⟩

/-- **The constructor rejects exactly the parameters outside its documented range** and a rejected construction yields no
kernel call at all -/
theorem construct_rejects (s : Spec ℝ) (xs : List ℝ) (h : s.ctorOk = false) : s.construct xs = none := by
  unfold Spec.construct; simp [h]

theorem construct_accepts (s : Spec ℝ) (xs : List ℝ) (h : s.ctorOk = true) (_harctan : s.kind = Kind.arctan → s.p1 ≠ 0)
    (hx : ∀ x ∈ xs, 0 ≤ x) :
    s.construct xs = some (xs.map s.val) := by
  unfold Spec.construct; simp only [h, if_true]; exact kernel_elementwise s xs hx


end PP.Kernel

namespace PP.Corrector
open Finset Kernel

variable (N d : Nat) (R : Nat → Nat → ℝ) (J : Nat → Nat → Nat → ℝ)

/-! ## Part B — correctors

`R i a` is component `a < d` of residual item `i < N`; `J i a l` is the Jacobian row of that component,
column `l`.  `ρ1 = ρ'`, `ρ2 = ρ''` are arbitrary functions. -/

/-- **FastTriggs, gradient.** For every kernel with `ρ' ≥ 0`:
`(J'ᵀR')_l = Σ_i ρ'(‖R_i‖²) · (J_iᵀR_i)_l`. -/
theorem fastTriggs_grad (ρ1 : ℝ → ℝ) (hρ : ∀ x, 0 ≤ x → 0 ≤ ρ1 x) (l : Nat) :
    JtR N d (fun i => fastOf ρ1 d (R i) (J i)) l
      = ∑ i ∈ range N, ρ1 (normSq d (R i)) * ∑ a ∈ range d, J i a l * R i a := by
  unfold JtR fastOf
  simp only [sumN_eq_sum]
  exact sum_congr rfl fun i _ => fast_item_grad d _ (R i) (J i) (hρ _ (normSq_nonneg d (R i))) l

/-- **FastTriggs, Gauss–Newton matrix**: `(J'ᵀJ')_{lm} = Σ_i ρ' · (J_iᵀJ_i)_{lm}` (no curvature term). -/
theorem fastTriggs_hess (ρ1 : ℝ → ℝ) (hρ : ∀ x, 0 ≤ x → 0 ≤ ρ1 x) (l m : Nat) :
    JtJ N d (fun i => fastOf ρ1 d (R i) (J i)) l m
      = ∑ i ∈ range N, ρ1 (normSq d (R i)) * ∑ a ∈ range d, J i a l * J i a m := by
  unfold JtJ fastOf
  simp only [sumN_eq_sum]
  exact sum_congr rfl fun i _ => fast_item_hess d _ (R i) (J i) (hρ _ (normSq_nonneg d (R i))) l m

/-- **Triggs coincides with FastTriggs elsewhere**: on every item with `ρ'' ≤ 0` or `R_i = 0`
(as a pair of functions, i.e. residual and Jacobian are *identical*). -/
theorem triggs_eq_fastTriggs_elsewhere (ρ1 ρ2 : ℝ → ℝ) (r : Nat → ℝ) (j : Nat → Nat → ℝ)
    (h : ρ2 (normSq d r) ≤ 0 ∨ ∀ a < d, r a = 0) :
    triggsOf ρ1 ρ2 d r j = fastOf ρ1 d r j := by
  unfold triggsOf fastOf
  apply triggs_unmasked
  rw [mask_real]
  rcases h with h | h
  · simp [not_lt.mpr h]
  · simp [(normSq_eq_zero_iff d r).mpr h]

/-- On the masked items the corrected residual is the documented `√ρ' / (1-α) · R_i` (this is the
statement that failed before repair D5) and `α` is the root `1 - √(1 + 2‖R‖²ρ''/ρ')` of
`½α² − α − (ρ''/ρ')‖R_i‖² = 0`. -/
theorem triggs_residual_documented (ρ1 ρ2 : ℝ → ℝ) (hρ : ∀ x, 0 ≤ x → 0 < ρ1 x) (r : Nat → ℝ)
    (j : Nat → Nat → ℝ) (hpos : 0 < ρ2 (normSq d r)) (hr : ∃ a < d, r a ≠ 0) :
    let x := normSq d r
    let α := alpha x (ρ1 x) (ρ2 x)
    (∀ a, (triggsOf ρ1 ρ2 d r j).R a = Real.sqrt (ρ1 x) / (1 - α) * r a) ∧
    (1/2) * α ^ 2 - α - ρ2 x / ρ1 x * x = 0 ∧ α < 0 := by
  intro x α
  have hx0 := normSq_nonneg d r
  have hx : 0 < x := by
    refine lt_of_le_of_ne hx0 (Ne.symm ?_)
    intro h0
    obtain ⟨a, ha, hra⟩ := hr
    exact hra ((normSq_eq_zero_iff d r).mp h0 a ha)
  have hm : mask x (ρ2 x) = true := by rw [mask_real]; exact decide_eq_true ⟨hx.ne', hpos⟩
  obtain ⟨he, hs⟩ := one_sub_alpha x (ρ1 x) (ρ2 x) hx (hρ _ hx0) hpos
  refine ⟨fun a => ?_, alpha_root x (ρ1 x) (ρ2 x) hx (hρ _ hx0) hpos, by linarith⟩
  show (triggs d x (ρ1 x) (ρ2 x) r j).R a = _
  rw [triggs_R_masked d x _ _ r j hm]; ring

/-- gradient identity of one item, any sign of `ρ''` -/
theorem triggs_item_grad (ρ1 ρ2 : ℝ → ℝ) (hρ : ∀ x, 0 ≤ x → 0 < ρ1 x) (r : Nat → ℝ) (j : Nat → Nat → ℝ)
    (l : Nat) :
    ∑ a ∈ range d, (triggsOf ρ1 ρ2 d r j).J a l * (triggsOf ρ1 ρ2 d r j).R a
      = ρ1 (normSq d r) * ∑ a ∈ range d, j a l * r a := by
  have hx0 := normSq_nonneg d r
  have h1 := hρ _ hx0
  by_cases hm : normSq d r ≠ 0 ∧ 0 < ρ2 (normSq d r)
  · unfold triggsOf
    exact triggs_item_grad_masked d _ _ _ r j (normSq_eq_sum d r) (lt_of_le_of_ne hx0 (Ne.symm hm.1)) h1 hm.2 l
  · have : triggsOf ρ1 ρ2 d r j = fastOf ρ1 d r j := by
      unfold triggsOf fastOf
      apply triggs_unmasked
      rw [mask_real]; simpa using hm
    rw [this]
    exact fast_item_grad d _ r j h1.le l

/-- **Triggs, gradient.** For every kernel with `ρ' > 0` and *any* sign of `ρ''` (user kernels with
positive curvature included): `(J'ᵀR')_l = Σ_i ρ'(‖R_i‖²) · (J_iᵀR_i)_l`. -/
theorem triggs_grad (ρ1 ρ2 : ℝ → ℝ) (hρ : ∀ x, 0 ≤ x → 0 < ρ1 x) (l : Nat) :
    JtR N d (fun i => triggsOf ρ1 ρ2 d (R i) (J i)) l
      = ∑ i ∈ range N, ρ1 (normSq d (R i)) * ∑ a ∈ range d, J i a l * R i a := by
  unfold JtR
  simp only [sumN_eq_sum]
  exact sum_congr rfl fun i _ => triggs_item_grad d ρ1 ρ2 hρ (R i) (J i) l

/-- **Triggs, Hessian of one item** where `ρ'' > 0` and `R_i ≠ 0`:
`J'ᵀJ' = ρ' JᵀJ + 2ρ'' JᵀR RᵀJ`. -/
theorem triggs_item_hess (ρ1 ρ2 : ℝ → ℝ) (hρ : ∀ x, 0 ≤ x → 0 < ρ1 x) (r : Nat → ℝ) (j : Nat → Nat → ℝ)
    (hpos : 0 < ρ2 (normSq d r)) (hr : ∃ a < d, r a ≠ 0) (l m : Nat) :
    ∑ a ∈ range d, (triggsOf ρ1 ρ2 d r j).J a l * (triggsOf ρ1 ρ2 d r j).J a m
      = ρ1 (normSq d r) * ∑ a ∈ range d, j a l * j a m
        + 2 * ρ2 (normSq d r) * ((∑ a ∈ range d, j a l * r a) * (∑ a ∈ range d, r a * j a m)) := by
  have hx0 := normSq_nonneg d r
  have hx : normSq d r ≠ 0 := by
    intro h0
    obtain ⟨a, ha, hra⟩ := hr
    exact hra ((normSq_eq_zero_iff d r).mp h0 a ha)
  unfold triggsOf
  exact triggs_item_hess_masked d _ _ _ r j (normSq_eq_sum d r) (lt_of_le_of_ne hx0 (Ne.symm hx)) (hρ _ hx0) hpos l m

/-- **Triggs, Hessian over the batch**:
`(J'ᵀJ')_{lm} = Σ_i ρ' (J_iᵀJ_i)_{lm} + [ρ''>0 ∧ R_i≠0] · 2ρ'' (J_iᵀR_i)_l (R_iᵀJ_i)_m`. -/
theorem triggs_hess (ρ1 ρ2 : ℝ → ℝ) (hρ : ∀ x, 0 ≤ x → 0 < ρ1 x) (l m : Nat) :
    JtJ N d (fun i => triggsOf ρ1 ρ2 d (R i) (J i)) l m
      = ∑ i ∈ range N, (ρ1 (normSq d (R i)) * ∑ a ∈ range d, J i a l * J i a m
          + if 0 < ρ2 (normSq d (R i)) ∧ ∃ a < d, R i a ≠ 0 then
              2 * ρ2 (normSq d (R i)) * ((∑ a ∈ range d, J i a l * R i a) * (∑ a ∈ range d, R i a * J i a m))
            else 0) := by
  unfold JtJ
  simp only [sumN_eq_sum]
  refine sum_congr rfl fun i _ => ?_
  by_cases h : 0 < ρ2 (normSq d (R i)) ∧ ∃ a < d, R i a ≠ 0
  · rw [if_pos h]
    exact triggs_item_hess d ρ1 ρ2 hρ (R i) (J i) h.1 h.2 l m
  · rw [if_neg h, add_zero]
    have h' : ρ2 (normSq d (R i)) ≤ 0 ∨ ∀ a < d, R i a = 0 := by
      by_cases h2 : 0 < ρ2 (normSq d (R i))
      · right
        intro a ha
        by_contra hne
        exact h ⟨h2, a, ha, hne⟩
      · left; exact not_lt.mp h2
    rw [triggs_eq_fastTriggs_elsewhere d ρ1 ρ2 (R i) (J i) h']
    exact fast_item_hess d _ (R i) (J i) (hρ _ (normSq_nonneg d (R i))).le l m

/-- With any of the seven built-in kernels (`ρ'' ≤ 0` on `[0,∞)`) `Triggs` *is* `FastTriggs`. -/
theorem builtin_triggs_eq_fastTriggs {δ : ℝ} (hδ : 0 < δ) {a b : ℝ} (hb : b < 0)
    (r : Nat → ℝ) (j : Nat → Nat → ℝ) :
    triggsOf (huberD1 δ) (huberD2 δ) d r j = fastOf (huberD1 δ) d r j ∧
    triggsOf (pseudoHuberD1 δ) (pseudoHuberD2 δ) d r j = fastOf (pseudoHuberD1 δ) d r j ∧
    triggsOf (cauchyD1 δ) (cauchyD2 δ) d r j = fastOf (cauchyD1 δ) d r j ∧
    triggsOf (softLOneD1 δ) (softLOneD2 δ) d r j = fastOf (softLOneD1 δ) d r j ∧
    triggsOf (arctanD1 δ) (arctanD2 δ) d r j = fastOf (arctanD1 δ) d r j ∧
    triggsOf (tolerantD1 a b) (tolerantD2 a b) d r j = fastOf (tolerantD1 a b) d r j ∧
    triggsOf (scaleD1 δ) (scaleD2 δ) d r j = fastOf (scaleD1 δ) d r j := by
  have hx := normSq_nonneg d r
  obtain ⟨h1, h2, h3, h4, h5, h6, h7⟩ := builtin_slope_pos_curvature_nonpos hδ hb (a := a) hx
  exact ⟨triggs_eq_fastTriggs_elsewhere d _ _ r j (Or.inl h1.2),
    triggs_eq_fastTriggs_elsewhere d _ _ r j (Or.inl h2.2),
    triggs_eq_fastTriggs_elsewhere d _ _ r j (Or.inl h3.2),
    triggs_eq_fastTriggs_elsewhere d _ _ r j (Or.inl h4.2),
    triggs_eq_fastTriggs_elsewhere d _ _ r j (Or.inl h5.2),
    triggs_eq_fastTriggs_elsewhere d _ _ r j (Or.inl h6.2),
    triggs_eq_fastTriggs_elsewhere d _ _ r j (Or.inl h7.2)⟩

/-! non-vacuity: a user kernel with positive curvature, `ρ(x) = x + x²/2` (`ρ' = 1 + x > 0`, `ρ'' = 1 > 0`) -/
example : (∀ x : ℝ, 0 ≤ x → 0 < polyD1 1 (1/2) 0 x) ∧ (∀ x : ℝ, 0 < polyD2 1 (1/2) 0 x) := by
  constructor
  · intro x hx; rw [polyD1_real]; nlinarith
  · intro x; rw [polyD2_real]; norm_num
example : ∃ a < 2, (fun a : Nat => if a = 0 then (1:ℝ) else 2) a ≠ 0 := ⟨0, by norm_num, by norm_num⟩

/-! ## Part C — the optimiser reports a loss whose gradient is its descent direction -/

/-- **Chain rule for the reported robust loss** `L(t) = Σ_i ρ(‖R_i(t)‖²)` along one parameter coordinate
`t`, for any differentiable residuals with Jacobian column `j` and any kernel differentiable at the
evaluation points: `L'(t) = 2 Σ_i ρ'(‖R_i‖²) (J_iᵀR_i)`. -/
theorem robust_loss_hasDerivAt (ρ ρ1 : ℝ → ℝ) (r j : Nat → Nat → ℝ → ℝ) (t : ℝ)
    (hr : ∀ i < N, ∀ a < d, HasDerivAt (r i a) (j i a t) t)
    (hρ : ∀ i < N, HasDerivAt ρ (ρ1 (normSq d fun a => r i a t)) (normSq d fun a => r i a t)) :
    HasDerivAt (fun s => lossOne ρ N d (fun i a => r i a s))
      (2 * ∑ i ∈ range N, ρ1 (normSq d fun a => r i a t) * ∑ a ∈ range d, j i a t * r i a t) t := by
  unfold lossOne
  simp only [sumN_eq_sum]
  rw [mul_sum]
  apply HasDerivAt.fun_sum
  intro i hi
  have hi' := mem_range.mp hi
  have hn : HasDerivAt (fun s => normSq d fun a => r i a s) (2 * ∑ a ∈ range d, j i a t * r i a t) t := by
    simp only [normSq_eq_sum]
    rw [mul_sum]
    apply HasDerivAt.fun_sum
    intro a ha
    have h := hr i hi' a (mem_range.mp ha)
    exact (h.mul h).congr_deriv (by ring)
  exact ((hρ i hi').comp t hn).congr_deriv (by ring)

/-- **Descent direction = gradient of the reported loss.** With either corrector the quantity `J'ᵀR'`
handed to the linear solver is exactly half the derivative of the robust loss, coordinate by
coordinate (`l`-th coordinate: residuals `r i a` as functions of that coordinate, `j i a` their
derivatives, which are column `l` of the model Jacobian). -/
theorem descent_direction_is_loss_gradient (ρ ρ1 ρ2 : ℝ → ℝ) (hpos : ∀ x, 0 ≤ x → 0 < ρ1 x)
    (r j : Nat → Nat → ℝ → ℝ) (t : ℝ)
    (hr : ∀ i < N, ∀ a < d, HasDerivAt (r i a) (j i a t) t)
    (hρ : ∀ i < N, HasDerivAt ρ (ρ1 (normSq d fun a => r i a t)) (normSq d fun a => r i a t)) :
    HasDerivAt (fun s => lossOne ρ N d (fun i a => r i a s))
      (2 * JtR N d (fun i => fastOf ρ1 d (fun a => r i a t) (fun a _ => j i a t)) 0) t ∧
    HasDerivAt (fun s => lossOne ρ N d (fun i a => r i a s))
      (2 * JtR N d (fun i => triggsOf ρ1 ρ2 d (fun a => r i a t) (fun a _ => j i a t)) 0) t := by
  have h := robust_loss_hasDerivAt N d ρ ρ1 r j t hr hρ
  constructor
  · rw [fastTriggs_grad N d (fun i a => r i a t) (fun i a _ => j i a t) ρ1 (fun x hx => (hpos x hx).le) 0]
    exact h
  · rw [triggs_grad N d (fun i a => r i a t) (fun i a _ => j i a t) ρ1 ρ2 hpos 0]
    exact h


/-- **Several residual tensors, one kernel each** (`RobustModel.loss` as a whole): the derivative of the
reported loss along a parameter coordinate is twice the sum over the residual tensors `j` that enter the loss of
`Σ_i ρ_j'(‖R_ji‖²) (J_jiᵀ R_ji)` — i.e. twice the stacked `J'ᵀR'` the optimiser hands to the solver when residual
`j` is corrected with (Fast)Triggs of *its own* loss kernel (`auto_corrector_matches_loss_kernel`). -/
theorem total_loss_hasDerivAt {κ : Type} (ρ ρ1 : KSel κ → ℝ → ℝ) (ks : List (KSel κ)) (nres : Nat)
    (dims : Nat → Nat × Nat) (r j : Nat → Nat → Nat → ℝ → ℝ) (t : ℝ)
    (hr : ∀ k < nres, ∀ i < (dims k).1, ∀ a < (dims k).2, HasDerivAt (r k i a) (j k i a t) t)
    (hρ : ∀ k < nres, ∀ c, lossKernel ks nres k = some c → ∀ i < (dims k).1,
      HasDerivAt (ρ c) (ρ1 c (normSq (dims k).2 fun a => r k i a t)) (normSq (dims k).2 fun a => r k i a t)) :
    HasDerivAt (fun s => lossTotal ρ ks nres (fun k => ((dims k).1, (dims k).2, fun i a => r k i a s)))
      (2 * ∑ k ∈ range nres, match lossKernel ks nres k with
        | some c => ∑ i ∈ range (dims k).1, ρ1 c (normSq (dims k).2 fun a => r k i a t) *
            ∑ a ∈ range (dims k).2, j k i a t * r k i a t
        | none => 0) t := by
  unfold lossTotal
  simp only [sumN_eq_sum]
  rw [mul_sum]
  apply HasDerivAt.fun_sum
  intro k hk
  have hk' := mem_range.mp hk
  cases hc : lossKernel ks nres k with
  | none => simpa using hasDerivAt_const t (0:ℝ)
  | some c =>
    simp only []
    exact robust_loss_hasDerivAt (dims k).1 (dims k).2 (ρ c) (ρ1 c) (r k) (j k) t (hr k hk') (hρ k hk' c hc)


section plumbing
variable {κ γ : Type}

/-- **Auto-correction uses the kernel the loss uses.** When `kernel` is given (one module, or a list with
one entry or one entry per residual, `None` entries allowed) and no corrector is given, then for every
residual index `i` the corrector applied in `step` is `FastTriggs(k)` for exactly the kernel `k` that
`RobustModel.loss` applies to residual `i` — in GN and LM alike (same `__init__` code). -/
theorem auto_corrector_matches_loss_kernel (ka : Arg κ) (ks : List (KSel κ)) (hk : kernelList ka = some ks)
    (nres i : Nat) (hi : i < nres) (hlen : ks.length = 1 ∨ nres ≤ ks.length) :
    ∃ c, lossKernel (robustKernels ka) nres i = some c ∧
      stepCorrector (correctors ka (Arg.none : Arg γ)) i = some (CSel.auto c) := by
  have hr : robustKernels ka = ks := by unfold robustKernels; rw [hk]
  have hc : correctors ka (Arg.none : Arg γ) = ks.map CSel.auto := by
    unfold correctors userCorrectors; rw [hk]
  rw [hr, hc]
  unfold lossKernel stepCorrector
  by_cases h1 : ks.length = 1
  · obtain ⟨c, rfl⟩ := List.length_eq_one_iff.mp h1
    exact ⟨c, by simp [hi], by simp⟩
  · have hn : nres ≤ ks.length := hlen.resolve_left h1
    have hi' : i < ks.length := by omega
    refine ⟨ks[i], ?_, ?_⟩
    · have : ks.length > 1 := by omega
      simp [hi, this, hi']
    · simp [h1, hi']

/-- Without a kernel and without a corrector nothing is corrected and the loss is the plain sum of squares. -/
theorem no_kernel_no_correction (nres i : Nat) (hi : i < nres) :
    lossKernel (robustKernels (Arg.none : Arg κ)) nres i = some KSel.trivial ∧
    stepCorrector (correctors (Arg.none : Arg κ) (Arg.none : Arg γ)) i = some CSel.trivial := by
  unfold lossKernel stepCorrector robustKernels correctors userCorrectors kernelList
  simp [hi]

/-- A kernel list that is longer than one but shorter than the number of residuals does not silently
optimise a different loss: `step` fails (index error) on the first residual without a kernel. -/
theorem short_kernel_list_fails (ka : Arg κ) (ks : List (KSel κ)) (hk : kernelList ka = some ks)
    (i : Nat) (h1 : 1 < ks.length) (hi : ks.length ≤ i) :
    stepCorrector (correctors ka (Arg.none : Arg γ)) i = none := by
  have hc : correctors ka (Arg.none : Arg γ) = ks.map CSel.auto := by
    unfold correctors userCorrectors; rw [hk]
  rw [hc]
  unfold stepCorrector
  have : ¬ ks.length = 1 := by omega
  simp [this, hi]

/-- An **empty** kernel list (`kernel=[]`) raises in the code (`self.kernel[0]` in `loss`, `self.corrector[i]` in `step`): the model
marks it (`emptyKernelList`), selects nothing for any residual, and `lossTotal` is not meaningful there. -/
theorem empty_kernel_list_fails (ka : Arg κ) (hk : kernelList ka = some []) (nres i : Nat) :
    emptyKernelList (robustKernels ka) = true ∧ lossKernel (robustKernels ka) nres i = none ∧
    stepCorrector (correctors ka (Arg.none : Arg γ)) i = none := by
  have hr : robustKernels ka = [] := by unfold robustKernels; rw [hk]
  have hc : correctors ka (Arg.none : Arg γ) = [] := by unfold correctors userCorrectors; rw [hk]; rfl
  rw [hr, hc]
  unfold emptyKernelList lossKernel stepCorrector
  simp

/-- non-vacuity: three residuals, kernels `[k₁, None, k₂]` -/
example : (List.range 3).map (fun i => (lossKernel (robustKernels (Arg.many [some 1, none, some 2])) 3 i,
      stepCorrector (correctors (Arg.many [some 1, none, some 2]) (Arg.none : Arg Nat)) i))
    = [(some (KSel.ker 1), some (CSel.auto (KSel.ker 1))), (some KSel.trivial, some (CSel.auto KSel.trivial)),
       (some (KSel.ker 2), some (CSel.auto (KSel.ker 2)))] := by decide

end plumbing

/-! ## hardening pass: item-wise = batched, batch splitting, statelessness of a call history -/

/-! ## hardening pass 2: atomic failing calls, independent objects / copies, grad-mode independence -/

/-! ## pass 3 — Triggs for every α, root choice, flat memory layout, one optimiser step end to end -/

section item
variable (d : Nat) (x g1 g2 al : ℝ) (R : Nat → ℝ) (J : Nat → Nat → ℝ)

/-- the masked branch of the code *is* `triggsAlpha` at the code's `alpha` -/
theorem triggs_masked_eq_triggsAlpha (hm : mask x g2 = true) :
    triggs d x g1 g2 R J = triggsAlpha d x g1 (alpha x g1 g2) R J := by
  unfold triggs triggsAlpha; simp only [hm, if_true]

/-- **Gradient identity for every `α ≠ 1`** (no root condition at all): `Σ_a J'_{al} R'_a = ρ' Σ_a J_{al} R_a`. -/
theorem triggsAlpha_grad (hxR : x = ∑ a ∈ range d, R a * R a) (hx : x ≠ 0) (h1 : 0 ≤ g1) (hal : al ≠ 1) (l : Nat) :
    ∑ a ∈ range d, (triggsAlpha d x g1 al R J).J a l * (triggsAlpha d x g1 al R J).R a
      = g1 * ∑ a ∈ range d, J a l * R a := by
  have hg := Real.mul_self_sqrt h1
  have h1a : 1 - al ≠ 0 := sub_ne_zero.mpr (Ne.symm hal)
  simp only [triggsAlpha_R, triggsAlpha_J]
  set c := ∑ b ∈ range d, R b * J b l with hc
  have e1 : ∀ a, Real.sqrt g1 * (J a l - al / x * R a * c) * (Real.sqrt g1 * R a / (1 - al))
      = (g1 / (1 - al)) * (R a * J a l) - (g1 / (1 - al) * (al / x) * c) * (R a * R a) := by
    intro a
    calc _ = (Real.sqrt g1 * Real.sqrt g1) / (1 - al) * (R a * J a l)
              - ((Real.sqrt g1 * Real.sqrt g1) / (1 - al) * (al / x) * c) * (R a * R a) := by ring
      _ = _ := by rw [hg]
  simp only [e1]
  rw [sum_sub_distrib, ← mul_sum, ← mul_sum, ← hc, ← hxR]
  have hc' : ∑ a ∈ range d, J a l * R a = c := by rw [hc]; exact sum_congr rfl fun a _ => by ring
  rw [hc']
  field_simp

/-- **Second-order identity for every `α`**: `J'ᵀJ' = ρ' JᵀJ + ρ'(α² − 2α)/‖R‖² · JᵀR RᵀJ`. -/
theorem triggsAlpha_hess (hxR : x = ∑ a ∈ range d, R a * R a) (hx : x ≠ 0) (h1 : 0 ≤ g1) (l m : Nat) :
    ∑ a ∈ range d, (triggsAlpha d x g1 al R J).J a l * (triggsAlpha d x g1 al R J).J a m
      = g1 * ∑ a ∈ range d, J a l * J a m
        + g1 * (al ^ 2 - 2 * al) / x * ((∑ a ∈ range d, J a l * R a) * (∑ a ∈ range d, R a * J a m)) := by
  have hg := Real.mul_self_sqrt h1
  simp only [triggsAlpha_J]
  set cl := ∑ b ∈ range d, R b * J b l with hcl
  set cm := ∑ b ∈ range d, R b * J b m with hcm
  have e1 : ∀ a, Real.sqrt g1 * (J a l - al / x * R a * cl) * (Real.sqrt g1 * (J a m - al / x * R a * cm))
      = g1 * (J a l * J a m) - (g1 * (al / x) * cm) * (R a * J a l) - (g1 * (al / x) * cl) * (R a * J a m)
        + (g1 * (al / x)^2 * cl * cm) * (R a * R a) := by
    intro a
    calc _ = (Real.sqrt g1 * Real.sqrt g1) * ((J a l - al / x * R a * cl) * (J a m - al / x * R a * cm)) := by ring
      _ = g1 * ((J a l - al / x * R a * cl) * (J a m - al / x * R a * cm)) := by rw [hg]
      _ = _ := by ring
  simp only [e1]
  rw [sum_add_distrib, sum_sub_distrib, sum_sub_distrib, ← mul_sum, ← mul_sum, ← mul_sum, ← mul_sum, ← hcl, ← hcm, ← hxR]
  have hc' : ∑ a ∈ range d, J a l * R a = cl := by rw [hcl]; exact sum_congr rfl fun a _ => by ring
  rw [hc']
  field_simp
  ring

/-- … hence for **either root** of `½α² − α − (ρ''/ρ')‖R‖² = 0` the documented form `ρ' JᵀJ + 2ρ'' JᵀRRᵀJ`. -/
theorem triggsAlpha_hess_root (hxR : x = ∑ a ∈ range d, R a * R a) (hx : x ≠ 0) (h1 : 0 < g1)
    (hroot : (1/2) * al ^ 2 - al - g2 / g1 * x = 0) (l m : Nat) :
    ∑ a ∈ range d, (triggsAlpha d x g1 al R J).J a l * (triggsAlpha d x g1 al R J).J a m
      = g1 * ∑ a ∈ range d, J a l * J a m
        + 2 * g2 * ((∑ a ∈ range d, J a l * R a) * (∑ a ∈ range d, R a * J a m)) := by
  rw [triggsAlpha_hess d x g1 al R J hxR hx h1.le l m]
  have : g1 * (al ^ 2 - 2 * al) / x = 2 * g2 := by
    have hg0 := h1.ne'
    field_simp
    field_simp at hroot
    nlinarith [hroot]
  rw [this]

end item

/-- **The two roots.** For `c ≥ -½` the equation `½α² − α − c = 0` has exactly the roots `1 ∓ √(1+2c)`. -/
theorem alpha_quadratic_roots {c al : ℝ} (hc : 0 ≤ 1 + 2 * c) :
    (1/2) * al ^ 2 - al - c = 0 ↔ al = 1 - Real.sqrt (1 + 2 * c) ∨ al = 1 + Real.sqrt (1 + 2 * c) := by
  have hs := Real.mul_self_sqrt hc
  constructor
  · intro h
    have : (al - 1 - Real.sqrt (1 + 2 * c)) * (al - 1 + Real.sqrt (1 + 2 * c)) = 0 := by nlinarith
    rcases mul_eq_zero.mp this with h' | h'
    · right; linarith
    · left; linarith
  · rintro (h | h) <;> rw [h] <;> nlinarith

/-- **Root choice of the code.** On the mask (`ρ'>0, ρ''>0, R≠0`) the clamp is inactive, the code's `alpha` is the root
`1 − √(1 + 2‖R‖²ρ''/ρ')`, it is the *only* root below 1 (so `1−α > 0`: the corrected residual keeps the direction of `R`),
and it is negative. -/
theorem alpha_code_root {x g1 g2 : ℝ} (hx : 0 < x) (h1 : 0 < g1) (h2 : 0 < g2) :
    smax (k 0 : ℝ) (k 1 + k 2 * x * g2 / g1) = 1 + 2 * x * g2 / g1 ∧
    alpha x g1 g2 = 1 - Real.sqrt (1 + 2 * (g2 / g1 * x)) ∧
    (∀ al, (1/2) * al ^ 2 - al - g2 / g1 * x = 0 → al < 1 → al = alpha x g1 g2) ∧ alpha x g1 g2 < 0 := by
  have ht : 0 < 2 * x * g2 / g1 := by positivity
  have hc : 0 ≤ 1 + 2 * (g2 / g1 * x) := by positivity
  have e : 1 + 2 * (g2 / g1 * x) = 1 + 2 * x * g2 / g1 := by ring
  obtain ⟨he, hs⟩ := one_sub_alpha x g1 g2 hx h1 h2
  have ha : alpha x g1 g2 = 1 - Real.sqrt (1 + 2 * (g2 / g1 * x)) := by rw [e]; linarith
  refine ⟨?_, ha, ?_, by linarith⟩
  · simp only [smax_real, k_real, Nat.cast_zero, Nat.cast_one, Nat.cast_ofNat]
    exact max_eq_right (by linarith)
  · intro al hroot hlt
    rcases (alpha_quadratic_roots hc).mp hroot with h | h
    · rw [ha, h]
    · have := Real.sqrt_nonneg (1 + 2 * (g2 / g1 * x)); linarith


/-- **Flat layout = item model.** NB: these three statements hold by the *definition* of `fastFlat` / `triggsFlat` through
`itemOf` / `compOf` (row-major `(N, d)`); that the code's `sj = s.expand_as(R).reshape(-1,1)` / `J.reshape(R.shape + (p,))`
really is this layout is tied by the harness (streams fast / triggs / large; mutation M8 "tiled instead of interleaved").
(the code's `sj = s.expand_as(R).reshape(-1,1)`): row `i*d + a` of the flat outputs of
`FastTriggs` / `Triggs` is component `a` of the corrected item `i`; for FastTriggs that is `√ρ'(‖R_i‖²)` times the input row. -/
theorem flat_rows (ρ1 ρ2 : ℝ → ℝ) (d : Nat) (Rf : Nat → ℝ) (Jf : Nat → Nat → ℝ) (i a l : Nat) (ha : a < d) :
    (fastFlat ρ1 d Rf Jf).1 (i * d + a) = Real.sqrt (ρ1 (normSq d (unflatR d Rf i))) * Rf (i * d + a) ∧
    (fastFlat ρ1 d Rf Jf).2 (i * d + a) l = Real.sqrt (ρ1 (normSq d (unflatR d Rf i))) * Jf (i * d + a) l ∧
    (triggsFlat ρ1 ρ2 d Rf Jf).1 (i * d + a) = (triggsOf ρ1 ρ2 d (unflatR d Rf i) (unflatJ d Jf i)).R a ∧
    (triggsFlat ρ1 ρ2 d Rf Jf).2 (i * d + a) l = (triggsOf ρ1 ρ2 d (unflatR d Rf i) (unflatJ d Jf i)).J a l := by
  obtain ⟨hi, hc⟩ := flat_index d i a ha
  refine ⟨?_, ?_, ?_, ?_⟩ <;> simp only [fastFlat, triggsFlat, hi, hc] <;> try rfl

/-- **What the solver sees**: `J'ᵀR'` summed over the flat rows equals the item-level `JtR`, hence (with the corrector
identities) `Σ_i ρ'(‖R_i‖²) J_iᵀR_i` — for every batch size `N` and residual dimension `d`. -/
theorem flat_JtR (ρ1 ρ2 : ℝ → ℝ) (N d : Nat) (Rf : Nat → ℝ) (Jf : Nat → Nat → ℝ) (l : Nat) :
    flatJtR (N * d) (fastFlat ρ1 d Rf Jf) l = JtR N d (fun i => fastOf ρ1 d (unflatR d Rf i) (unflatJ d Jf i)) l ∧
    flatJtR (N * d) (triggsFlat ρ1 ρ2 d Rf Jf) l = JtR N d (fun i => triggsOf ρ1 ρ2 d (unflatR d Rf i) (unflatJ d Jf i)) l := by
  unfold flatJtR JtR
  rw [sumN_flat, sumN_flat]
  simp only [sumN_eq_sum]
  constructor <;>
  · refine sum_congr rfl fun i _ => sum_congr rfl fun a ha => ?_
    obtain ⟨h1, h2, h3, h4⟩ := flat_rows ρ1 ρ2 d Rf Jf i a l (mem_range.mp ha)
    first
      | (rw [h3, h4])
      | (obtain ⟨hi, hc⟩ := flat_index d i a (mem_range.mp ha); unfold fastFlat; simp only [hi, hc])

theorem flat_JtR_law (ρ1 ρ2 : ℝ → ℝ) (hρ : ∀ x, 0 ≤ x → 0 < ρ1 x) (N d : Nat) (Rf : Nat → ℝ) (Jf : Nat → Nat → ℝ) (l : Nat) :
    flatJtR (N * d) (fastFlat ρ1 d Rf Jf) l
      = ∑ i ∈ range N, ρ1 (normSq d (unflatR d Rf i)) * ∑ a ∈ range d, Jf (i * d + a) l * Rf (i * d + a) ∧
    flatJtR (N * d) (triggsFlat ρ1 ρ2 d Rf Jf) l
      = ∑ i ∈ range N, ρ1 (normSq d (unflatR d Rf i)) * ∑ a ∈ range d, Jf (i * d + a) l * Rf (i * d + a) := by
  obtain ⟨h1, h2⟩ := flat_JtR ρ1 ρ2 N d Rf Jf l
  rw [h1, h2, fastTriggs_grad N d _ _ ρ1 (fun x hx => (hρ x hx).le) l, triggs_grad N d _ _ ρ1 ρ2 hρ l]
  exact ⟨rfl, rfl⟩


/-- **Both correctors with every built-in kernel** (as the code computes it), every batch size `N`, residual dimension `d`,
residual `R`, Jacobian `J`: the gradient identity for FastTriggs and Triggs, `Triggs = FastTriggs` item by item (no built-in
kernel has positive curvature), and `J'ᵀJ' = Σρ'JᵀJ` for both. -/
theorem builtin_spec_correctors (s : Spec ℝ) (h : s.inDomain) (N d : Nat) (R : Nat → Nat → ℝ) (J : Nat → Nat → Nat → ℝ) (l m : Nat) :
    JtR N d (fun i => fastOf s.d1 d (R i) (J i)) l = ∑ i ∈ range N, s.d1 (normSq d (R i)) * ∑ a ∈ range d, J i a l * R i a ∧
    JtR N d (fun i => triggsOf s.d1 s.d2 d (R i) (J i)) l = ∑ i ∈ range N, s.d1 (normSq d (R i)) * ∑ a ∈ range d, J i a l * R i a ∧
    (∀ i, triggsOf s.d1 s.d2 d (R i) (J i) = fastOf s.d1 d (R i) (J i)) ∧
    JtJ N d (fun i => triggsOf s.d1 s.d2 d (R i) (J i)) l m = ∑ i ∈ range N, s.d1 (normSq d (R i)) * ∑ a ∈ range d, J i a l * J i a m := by
  obtain ⟨_, _, hsig, _⟩ := builtin_spec_laws s h
  have hpos : ∀ x, 0 ≤ x → 0 < s.d1 x := fun x hx => (hsig x hx).2.1
  have heq : ∀ i, triggsOf s.d1 s.d2 d (R i) (J i) = fastOf s.d1 d (R i) (J i) := fun i =>
    triggs_eq_fastTriggs_elsewhere d s.d1 s.d2 (R i) (J i) (Or.inl (hsig _ (normSq_nonneg d (R i))).2.2)
  refine ⟨fastTriggs_grad N d R J s.d1 (fun x hx => (hpos x hx).le) l, triggs_grad N d R J s.d1 s.d2 hpos l, heq, ?_⟩
  simp only [heq]
  exact fastTriggs_hess N d R J s.d1 (fun x hx => (hpos x hx).le) l m



/-- **One optimiser step — scope: DENSE path, UNWEIGHTED, `kernel=` given, `corrector=None`** (the configuration C09 quantifies
over: kernels, residuals, Jacobians). For GN and LM alike (same `__init__` / corrector loop), any number of residual tensors, batch
sizes and residual dimensions, kernel list of length 1 or ≥ the number of residuals (`None` entries allowed; extra entries are
ignored as in the code): the `J'ᵀR'` of the stacked system handed to the linear solver is exactly half the derivative of the loss
`RobustModel.loss` reports, along every parameter coordinate.
NOT covered by this theorem (and outside C09's quantifier): `weight=` (optimizer.py: GN `A, b = W@J, -W@R`, LM `J_T = J.T @ W`;
`RobustModel.loss` ignores the weight, so direction and reported loss differ unless `W = I` — see `fastTriggs_weighted_grad`,
`scalar_weight_direction` below), LM's `sparse=True` branch (correctors are never applied there), and user-supplied correctors
(covered item-wise by `triggs_grad` / `fastTriggs_grad`, and by the harness' `select-index` oracle). -/
theorem step_direction_is_total_loss_gradient {κ γ : Type} (ρ ρ1 ρ2 : KSel κ → ℝ → ℝ) (ka : Arg κ) (ks : List (KSel κ))
    (hk : kernelList ka = some ks) (nres : Nat) (hlen : ks.length = 1 ∨ nres ≤ ks.length)
    (hpos : ∀ c x, 0 ≤ x → 0 ≤ ρ1 c x)
    (dims : Nat → Nat × Nat) (r j : Nat → Nat → Nat → ℝ → ℝ) (t : ℝ)
    (hr : ∀ k < nres, ∀ i < (dims k).1, ∀ a < (dims k).2, HasDerivAt (r k i a) (j k i a t) t)
    (hρ : ∀ k < nres, ∀ c, ∀ i < (dims k).1,
      HasDerivAt (ρ c) (ρ1 c (normSq (dims k).2 fun a => r k i a t)) (normSq (dims k).2 fun a => r k i a t)) :
    HasDerivAt (fun s => lossTotal ρ (robustKernels ka) nres (fun k => ((dims k).1, (dims k).2, fun i a => r k i a s)))
      (2 * stepJtR (autoSem (γ := γ) ρ1 ρ2) (correctors ka (Arg.none : Arg γ)) nres
        (fun k => ((dims k).1, (dims k).2, (fun i a => r k i a t), fun i a _ => j k i a t)) 0) t := by
  have h := total_loss_hasDerivAt ρ ρ1 (robustKernels ka) nres dims r j t hr (fun k hk' c _ i hi => hρ k hk' c i hi)
  refine h.congr_deriv ?_
  congr 1
  unfold stepJtR
  simp only [sumN_eq_sum]
  refine sum_congr rfl fun k hk' => ?_
  obtain ⟨c, hl, hs⟩ := auto_corrector_matches_loss_kernel (γ := γ) ka ks hk nres k (mem_range.mp hk') hlen
  rw [hl, hs]
  simp only [autoSem, applyCorr]
  rw [fastTriggs_grad (dims k).1 (dims k).2 (fun i a => r k i a t) (fun i a _ => j k i a t) (ρ1 c) (hpos c) 0]

/-- the theorem instantiated (all hypotheses discharged): `kernel=[Cauchy(1), None]`, two residual tensors with one
1-dimensional item each, `R₀(t) = t` — a **zero residual** at the evaluation point `t = 0` — and `R₁(t) = 2t + 1` -/
example : True := by
  have _h :=
   step_direction_is_total_loss_gradient (γ := Unit)
    (fun c : KSel Unit => match c with | .ker _ => cauchyV 1 | .trivial => fun x => x)
    (fun c : KSel Unit => match c with | .ker _ => cauchyD1 1 | .trivial => fun _ => 1)
    (fun c : KSel Unit => match c with | .ker _ => cauchyD2 1 | .trivial => fun _ => 0)
    (Arg.many [some (), none]) [KSel.ker (), KSel.trivial] rfl 2 (Or.inr (by simp))
    (by intro c x hx; cases c with
        | trivial => simp
        | ker u => exact (cauchyD1_pos one_pos hx).le)
    (fun _ => (1, 1)) (fun k _ _ s => if k = 0 then s else 2 * s + 1) (fun k _ _ _ => if k = 0 then 1 else 2) 0
    (by intro k _ i _ a _
        by_cases hk : k = 0
        · simp only [hk, if_true]; exact hasDerivAt_id 0
        · simp only [hk, if_false]
          simpa using ((hasDerivAt_id (0:ℝ)).const_mul 2).add_const 1)
    (by intro k _ c i _
        cases c with
        | trivial => exact hasDerivAt_id _
        | ker u => exact cauchy_hasDerivAt one_pos (normSq_nonneg _ _))
  trivial

/-- **One optimiser step with ANY consistent corrector choice** (pass 7; generalises `step_direction_is_total_loss_gradient` from the
optimiser's own FastTriggs to user-supplied correctors, FastTriggs *or Triggs*, and to the kernel-free case): dense, unweighted path.
If for every residual tensor `k` the corrector that `step` applies (`corrector[0] if len == 1 else corrector[k]`) is
FastTriggs or Triggs **of the kernel that `RobustModel.loss` applies to that tensor** — or is `Trivial` while that kernel has slope 1
(the no-kernel case) — then the stacked `J'ᵀR'` handed to the linear solver is exactly half the derivative of the reported loss,
for any number of residual tensors, batch sizes and residual dimensions, any sign of the kernels' curvature. -/
theorem step_direction_consistent {κ γ : Type} (sem : CSel κ γ → CorrSem ℝ) (ρ ρ1 ρ2 : KSel κ → ℝ → ℝ)
    (ks : List (KSel κ)) (cs : List (CSel κ γ)) (nres : Nat)
    (hsel : ∀ k < nres, ∃ c cc, lossKernel ks nres k = some c ∧ stepCorrector cs k = some cc ∧
      ((∃ tr, sem cc = some (tr, ρ1 c, ρ2 c)) ∨ (sem cc = none ∧ ∀ x, ρ1 c x = 1)))
    (hpos : ∀ c x, 0 ≤ x → 0 < ρ1 c x)
    (dims : Nat → Nat × Nat) (r j : Nat → Nat → Nat → ℝ → ℝ) (t : ℝ)
    (hr : ∀ k < nres, ∀ i < (dims k).1, ∀ a < (dims k).2, HasDerivAt (r k i a) (j k i a t) t)
    (hρ : ∀ k < nres, ∀ c, ∀ i < (dims k).1,
      HasDerivAt (ρ c) (ρ1 c (normSq (dims k).2 fun a => r k i a t)) (normSq (dims k).2 fun a => r k i a t)) :
    HasDerivAt (fun s => lossTotal ρ ks nres (fun k => ((dims k).1, (dims k).2, fun i a => r k i a s)))
      (2 * stepJtR sem cs nres (fun k => ((dims k).1, (dims k).2, (fun i a => r k i a t), fun i a _ => j k i a t)) 0) t := by
  have h := total_loss_hasDerivAt ρ ρ1 ks nres dims r j t hr (fun k hk' c _ i hi => hρ k hk' c i hi)
  refine h.congr_deriv ?_
  congr 1
  unfold stepJtR
  simp only [sumN_eq_sum]
  refine sum_congr rfl fun k hk' => ?_
  obtain ⟨c, cc, hl, hs, hsem⟩ := hsel k (mem_range.mp hk')
  rw [hl, hs]
  simp only []
  rcases hsem with ⟨tr, hsm⟩ | ⟨hsm, hone⟩
  · rw [hsm]
    cases tr with
    | false =>
      simp only [applyCorr]
      rw [fastTriggs_grad (dims k).1 (dims k).2 (fun i a => r k i a t) (fun i a _ => j k i a t) (ρ1 c) (fun x hx => (hpos c x hx).le) 0]
    | true =>
      simp only [applyCorr]
      rw [triggs_grad (dims k).1 (dims k).2 (fun i a => r k i a t) (fun i a _ => j k i a t) (ρ1 c) (ρ2 c) (hpos c) 0]
  · rw [hsm]
    simp only [applyCorr]
    unfold JtR
    simp only [sumN_eq_sum, hone, one_mul]

/-- the selection hypothesis is what the optimisers produce when the user passes `corrector=Triggs(k)` together with `kernel=k`
(one kernel, one corrector, any number of residual tensors): non-vacuity of `hsel` for a user-supplied Triggs -/
example (nres k : Nat) (hk : k < nres) :
    ∃ c cc, lossKernel (robustKernels (Arg.one (7 : Nat))) nres k = some c ∧
      stepCorrector (correctors (Arg.one (7 : Nat)) (Arg.one (3 : Nat))) k = some cc ∧
      ((∃ tr, (fun (x : CSel Nat Nat) => match x with
          | .user _ => (some (true, cauchyD1 1, cauchyD2 1) : CorrSem ℝ)
          | _ => none) cc = some (tr, cauchyD1 1, cauchyD2 1)) ∨ False) := by
  refine ⟨KSel.ker 7, CSel.user 3, ?_, ?_, Or.inl ⟨true, rfl⟩⟩
  · unfold lossKernel robustKernels kernelList; simp [hk]
  · unfold stepCorrector correctors userCorrectors; simp

/-- **The second-order clause at the level of one optimiser step** (pass 10; dense, unweighted): for any selection in which the
corrector applied to residual tensor `k` is FastTriggs or Triggs of a kernel with slope `ρ' > 0` (or `Trivial`), the matrix
`J'ᵀJ'` of the stacked system — what LM forms as `J.T @ J` before clamping / damping and what GN's solver sees as normal matrix —
is `Σ_k Σ_i ρ'_k(‖R_ki‖²) J_kiᵀJ_ki`, plus `2ρ''_k J_kiᵀR_ki R_kiᵀJ_ki` exactly on the items of the tensors corrected by **Triggs**
where `ρ''_k > 0` and `R_ki ≠ 0`; tensors without a kernel contribute `J_kᵀJ_k`. Any number of tensors, batch sizes, dimensions. -/
theorem step_hessian_consistent {κ γ : Type} (sem : CSel κ γ → CorrSem ℝ) (cs : List (CSel κ γ)) (nres : Nat)
    (hpos : ∀ cc tr ρ1 ρ2, sem cc = some (tr, ρ1, ρ2) → ∀ x, 0 ≤ x → 0 < ρ1 x)
    (res : Nat → Nat × Nat × (Nat → Nat → ℝ) × (Nat → Nat → Nat → ℝ)) (l m : Nat) :
    stepJtJ sem cs nres res l m = ∑ k ∈ range nres,
      match stepCorrector cs k with
      | none => 0
      | some cc =>
        match sem cc with
        | none => ∑ i ∈ range (res k).1, ∑ a ∈ range (res k).2.1, (res k).2.2.2 i a l * (res k).2.2.2 i a m
        | some (tr, ρ1, ρ2) =>
          ∑ i ∈ range (res k).1, (ρ1 (normSq (res k).2.1 ((res k).2.2.1 i)) *
              ∑ a ∈ range (res k).2.1, (res k).2.2.2 i a l * (res k).2.2.2 i a m
            + if tr = true ∧ 0 < ρ2 (normSq (res k).2.1 ((res k).2.2.1 i)) ∧ ∃ a < (res k).2.1, (res k).2.2.1 i a ≠ 0 then
                2 * ρ2 (normSq (res k).2.1 ((res k).2.2.1 i)) *
                  ((∑ a ∈ range (res k).2.1, (res k).2.2.2 i a l * (res k).2.2.1 i a) *
                   (∑ a ∈ range (res k).2.1, (res k).2.2.1 i a * (res k).2.2.2 i a m))
              else 0) := by
  unfold stepJtJ
  simp only [sumN_eq_sum]
  refine sum_congr rfl fun k _ => ?_
  cases hs : stepCorrector cs k with
  | none => simp
  | some cc =>
    simp only []
    cases hsem : sem cc with
    | none =>
      simp only [applyCorr]
      unfold JtJ; simp only [sumN_eq_sum]
    | some v =>
      obtain ⟨tr, ρ1, ρ2⟩ := v
      have hp := hpos cc tr ρ1 ρ2 hsem
      cases tr with
      | false =>
        simp only [applyCorr]
        rw [fastTriggs_hess (res k).1 (res k).2.1 (res k).2.2.1 (res k).2.2.2 ρ1 (fun x hx => (hp x hx).le) l m]
        refine sum_congr rfl fun i _ => ?_
        simp
      | true =>
        simp only [applyCorr]
        rw [triggs_hess (res k).1 (res k).2.1 (res k).2.2.1 (res k).2.2.2 ρ1 ρ2 hp l m]
        refine sum_congr rfl fun i _ => ?_
        simp

/-- non-vacuity of `hpos`: the optimiser's own correctors for a Cauchy kernel -/
example : ∀ (cc : CSel Unit Unit) tr (ρ1 ρ2 : ℝ → ℝ),
    autoSem (fun _ : KSel Unit => cauchyD1 (1:ℝ)) (fun _ => cauchyD2 (1:ℝ)) cc = some (tr, ρ1, ρ2) → ∀ x : ℝ, 0 ≤ x → 0 < ρ1 x := by
  intro cc tr ρ1 ρ2 h x hx
  cases cc with
  | auto c =>
    simp only [autoSem, Option.some.injEq, Prod.mk.injEq] at h
    rw [← h.2.1]; exact cauchyD1_pos one_pos hx
  | trivial => simp [autoSem] at h
  | user c => simp [autoSem] at h

/-- **The Hessian the correctors preserve** (pass 10). For residuals affine in a parameter coordinate, `R_i(s) = R⁰_i + s·J_i`, the
first derivative of the reported loss is `g(s) = 2 Σ_i ρ'(‖R_i(s)‖²) J_iᵀR_i(s)` (`robust_loss_hasDerivAt`); its derivative — the
second derivative of the robust loss — is `2 Σ_i [ρ' J_iᵀJ_i + 2ρ'' (J_iᵀR_i)²]`, for any kernel with `ρ'' = (ρ')'`. -/
theorem robust_loss_second_derivative (ρ1 ρ2 : ℝ → ℝ) (N d : Nat) (r0 j : Nat → Nat → ℝ) (t : ℝ)
    (hρ : ∀ i < N, HasDerivAt ρ1 (ρ2 (normSq d fun a => r0 i a + j i a * t)) (normSq d fun a => r0 i a + j i a * t)) :
    HasDerivAt (fun s => 2 * ∑ i ∈ range N, ρ1 (normSq d fun a => r0 i a + j i a * s) * ∑ a ∈ range d, j i a * (r0 i a + j i a * s))
      (2 * ∑ i ∈ range N, (ρ1 (normSq d fun a => r0 i a + j i a * t) * ∑ a ∈ range d, j i a * j i a
        + 2 * ρ2 (normSq d fun a => r0 i a + j i a * t) *
          ((∑ a ∈ range d, j i a * (r0 i a + j i a * t)) * (∑ a ∈ range d, (r0 i a + j i a * t) * j i a)))) t := by
  apply HasDerivAt.const_mul
  apply HasDerivAt.fun_sum
  intro i hi
  have hr : ∀ a, HasDerivAt (fun s => r0 i a + j i a * s) (j i a) t := by
    intro a; simpa using ((hasDerivAt_id t).const_mul (j i a)).const_add (r0 i a)
  have hn : HasDerivAt (fun s => normSq d fun a => r0 i a + j i a * s) (2 * ∑ a ∈ range d, j i a * (r0 i a + j i a * t)) t := by
    simp only [normSq_eq_sum]
    rw [mul_sum]
    apply HasDerivAt.fun_sum
    intro a _
    exact ((hr a).mul (hr a)).congr_deriv (by ring)
  have hm : HasDerivAt (fun s => ∑ a ∈ range d, j i a * (r0 i a + j i a * s)) (∑ a ∈ range d, j i a * j i a) t := by
    apply HasDerivAt.fun_sum
    intro a _
    exact (hr a).const_mul (j i a)
  have hc := (hρ i (mem_range.mp hi)).comp t hn
  refine (hc.mul hm).congr_deriv ?_
  have : ∑ a ∈ range d, (r0 i a + j i a * t) * j i a = ∑ a ∈ range d, j i a * (r0 i a + j i a * t) :=
    sum_congr rfl fun a _ => by ring
  rw [this]
  simp only [Function.comp_apply]
  generalize (normSq d fun a => r0 i a + j i a * t) = x0
  generalize (∑ a ∈ range d, j i a * (r0 i a + j i a * t)) = m
  ring

/-- … and that is exactly **twice Triggs' `J'ᵀJ'`** on a batch whose items are all in the curvature branch (`ρ'' > 0`, `R_i ≠ 0`): with Triggs
the matrix `J'ᵀJ'` handed on is half the true second derivative of the reported loss for a model that is linear in the parameter —
FastTriggs keeps only its first (Gauss–Newton) part `Σρ'JᵀJ` (`fastTriggs_hess`). -/
theorem triggs_hess_is_half_second_derivative (ρ1 ρ2 : ℝ → ℝ) (hpos : ∀ x, 0 ≤ x → 0 < ρ1 x) (N d : Nat) (r0 j : Nat → Nat → ℝ) (t : ℝ)
    (hρ : ∀ i < N, HasDerivAt ρ1 (ρ2 (normSq d fun a => r0 i a + j i a * t)) (normSq d fun a => r0 i a + j i a * t))
    (hcurv : ∀ i < N, 0 < ρ2 (normSq d fun a => r0 i a + j i a * t) ∧ ∃ a < d, r0 i a + j i a * t ≠ 0) :
    HasDerivAt (fun s => 2 * ∑ i ∈ range N, ρ1 (normSq d fun a => r0 i a + j i a * s) * ∑ a ∈ range d, j i a * (r0 i a + j i a * s))
      (2 * JtJ N d (fun i => triggsOf ρ1 ρ2 d (fun a => r0 i a + j i a * t) (fun a _ => j i a)) 0 0) t := by
  refine (robust_loss_second_derivative ρ1 ρ2 N d r0 j t hρ).congr_deriv ?_
  congr 1
  rw [triggs_hess N d (fun i a => r0 i a + j i a * t) (fun i a _ => j i a) ρ1 ρ2 hpos 0 0]
  refine sum_congr rfl fun i hi => ?_
  rw [if_pos (hcurv i (mem_range.mp hi))]

/-- non-vacuity: the user kernel `ρ(x) = x + x²/2` (`ρ' = 1 + x`, `ρ'' = 1`), one item `R(s) = (1 + 2s, 0)` at `t = 0` -/
example : (∀ x : ℝ, 0 ≤ x → 0 < polyD1 1 (1/2) 0 x) ∧
    (∀ x : ℝ, HasDerivAt (polyD1 1 (1/2) 0) (polyD2 1 (1/2) 0 x) x) ∧
    (0 < polyD2 1 (1/2) 0 (normSq 2 fun a => (if a = 0 then (1:ℝ) else 0) + (if a = 0 then 2 else 0) * 0) ∧
      ∃ a < 2, (if a = 0 then (1:ℝ) else 0) + (if a = 0 then 2 else 0) * 0 ≠ 0) := by
  refine ⟨fun x hx => by rw [polyD1_real]; nlinarith, fun x => poly_hasDerivAt2 _ _ _ x, by rw [polyD2_real]; norm_num, 0, by norm_num, by norm_num⟩

/-- **FastTriggs over-estimates the curvature of a concave kernel** (pass 11; corollary of `robust_loss_second_derivative` and
`fastTriggs_hess`). For residuals affine in a parameter coordinate and a kernel with `ρ' ≥ 0`, `ρ'' = (ρ')'` and `ρ'' ≤ 0` at the
evaluated items (every built-in kernel: `builtin_slope_pos_curvature_nonpos`), the second derivative `S` of the reported loss exists
and `S ≤ 2·(J'ᵀJ')` for FastTriggs' Gauss–Newton matrix: the dropped term `4Σρ''(J_iᵀR_i)²` is non-positive, so the quadratic model the
optimiser minimises majorises the loss' curvature (why the docstring calls FastTriggs the *stable* version). -/
theorem fastTriggs_hess_majorizes_second_derivative (ρ1 ρ2 : ℝ → ℝ) (hpos : ∀ x, 0 ≤ x → 0 ≤ ρ1 x) (N d : Nat)
    (r0 j : Nat → Nat → ℝ) (t : ℝ)
    (hρ : ∀ i < N, HasDerivAt ρ1 (ρ2 (normSq d fun a => r0 i a + j i a * t)) (normSq d fun a => r0 i a + j i a * t))
    (hconc : ∀ i < N, ρ2 (normSq d fun a => r0 i a + j i a * t) ≤ 0) :
    ∃ S, HasDerivAt (fun s => 2 * ∑ i ∈ range N, ρ1 (normSq d fun a => r0 i a + j i a * s) *
            ∑ a ∈ range d, j i a * (r0 i a + j i a * s)) S t ∧
      S ≤ 2 * JtJ N d (fun i => fastOf ρ1 d (fun a => r0 i a + j i a * t) (fun a _ => j i a)) 0 0 := by
  refine ⟨_, robust_loss_second_derivative ρ1 ρ2 N d r0 j t hρ, ?_⟩
  rw [fastTriggs_hess N d (fun i a => r0 i a + j i a * t) (fun i a _ => j i a) ρ1 hpos 0 0]
  apply mul_le_mul_of_nonneg_left _ (by norm_num : (0:ℝ) ≤ 2)
  apply sum_le_sum
  intro i hi
  have hsym : ∑ a ∈ range d, (r0 i a + j i a * t) * j i a = ∑ a ∈ range d, j i a * (r0 i a + j i a * t) :=
    sum_congr rfl fun a _ => by ring
  rw [hsym]
  have hc := hconc i (mem_range.mp hi)
  have hsq := mul_self_nonneg (∑ a ∈ range d, j i a * (r0 i a + j i a * t))
  nlinarith

/-- non-vacuity: Cauchy(δ = 1) satisfies the three kernel hypotheses at every `x ≥ 0` -/
example {x : ℝ} (hx : 0 ≤ x) : 0 ≤ cauchyD1 1 x ∧ HasDerivAt (cauchyD1 1) (cauchyD2 1 x) x ∧ cauchyD2 1 x ≤ 0 :=
  ⟨(cauchyD1_pos one_pos hx).le, cauchy_hasDerivAt2 one_pos hx, cauchyD2_nonpos one_pos hx⟩

/-! ### the `weight=` branch (outside C09's quantifier; modelled for honesty about the scope of the theorem above) -/
/-- **The `weight=` branch (outside C09's quantifier), FastTriggs**: `J'ᵀ W R' = Σ_i ρ'(‖R_i‖²) · J_iᵀ W_i R_i` for every per-item
weight matrix. Note what this is the gradient of: *not* of the reported loss `Σρ(‖R_i‖²)` (which ignores `W`) and not of
`Σρ(R_iᵀW_iR_i)`, but of the re-weighted quadratic `½ Σ_i ρ'(‖R_i‖²)|_{frozen} R_iᵀW_iR_i` (symmetric `W_i`) — the reported loss and
the descent direction agree only for `W = I`. -/
theorem fastTriggs_weighted_grad (N d : Nat) (R : Nat → Nat → ℝ) (J : Nat → Nat → Nat → ℝ) (W : Nat → Nat → Nat → ℝ)
    (ρ1 : ℝ → ℝ) (hρ : ∀ x, 0 ≤ x → 0 ≤ ρ1 x) (l : Nat) :
    JtWR N d W (fun i => fastOf ρ1 d (R i) (J i)) l
      = ∑ i ∈ range N, ρ1 (normSq d (R i)) * ∑ a ∈ range d, ∑ b ∈ range d, J i a l * W i a b * R i b := by
  unfold JtWR fastOf
  simp only [sumN_eq_sum, fast_R, fast_J]
  refine sum_congr rfl fun i _ => ?_
  have hg := Real.mul_self_sqrt (hρ _ (normSq_nonneg d (R i)))
  rw [mul_sum]
  refine sum_congr rfl fun a _ => ?_
  rw [mul_sum]
  refine sum_congr rfl fun b _ => ?_
  calc Real.sqrt (ρ1 (normSq d (R i))) * J i a l * W i a b * (Real.sqrt (ρ1 (normSq d (R i))) * R i b)
      = (Real.sqrt (ρ1 (normSq d (R i))) * Real.sqrt (ρ1 (normSq d (R i)))) * (J i a l * W i a b * R i b) := by ring
    _ = _ := by rw [hg]

/-- **Scalar weights** `W_i = w_i·I` (what the check exercises): for either corrector the weighted direction is the item-wise
`w_i`-multiple of the unweighted one, `Σ_i w_i ρ'(‖R_i‖²) J_iᵀR_i`. -/
theorem scalar_weight_direction (N d : Nat) (R : Nat → Nat → ℝ) (J : Nat → Nat → Nat → ℝ) (w : Nat → ℝ)
    (ρ1 ρ2 : ℝ → ℝ) (hρ : ∀ x, 0 ≤ x → 0 < ρ1 x) (l : Nat) :
    JtWR N d (fun i a b => if a = b then w i else 0) (fun i => fastOf ρ1 d (R i) (J i)) l
      = ∑ i ∈ range N, w i * (ρ1 (normSq d (R i)) * ∑ a ∈ range d, J i a l * R i a) ∧
    JtWR N d (fun i a b => if a = b then w i else 0) (fun i => triggsOf ρ1 ρ2 d (R i) (J i)) l
      = ∑ i ∈ range N, w i * (ρ1 (normSq d (R i)) * ∑ a ∈ range d, J i a l * R i a) := by
  have key : ∀ out : Nat → Out ℝ, JtWR N d (fun i a b => if a = b then w i else 0) out l
      = ∑ i ∈ range N, w i * ∑ a ∈ range d, (out i).J a l * (out i).R a := by
    intro out
    unfold JtWR
    simp only [sumN_eq_sum]
    refine sum_congr rfl fun i _ => ?_
    rw [mul_sum]
    refine sum_congr rfl fun a ha => ?_
    rw [sum_eq_single a]
    · simp; ring
    · intro b _ hb; simp [Ne.symm hb]
    · intro h; exact absurd ha h
  constructor
  · rw [key]
    refine sum_congr rfl fun i _ => ?_
    have := fast_item_grad d (ρ1 (normSq d (R i))) (R i) (J i) (hρ _ (normSq_nonneg d (R i))).le l
    unfold fastOf; rw [this]
  · rw [key]
    exact sum_congr rfl fun i _ => by rw [triggs_item_grad d ρ1 ρ2 hρ (R i) (J i) l]

/-- **Triggs gradient identity under the exact guard**: only the items actually evaluated need `ρ' ≥ 0`
(the square root), and only the *masked* ones (`ρ''>0 ∧ R_i≠0`, where the code divides by `ρ'`) need `ρ' > 0`. -/
theorem triggs_grad_exact_guard (N d : Nat) (R : Nat → Nat → ℝ) (J : Nat → Nat → Nat → ℝ) (ρ1 ρ2 : ℝ → ℝ)
    (h0 : ∀ i < N, 0 ≤ ρ1 (normSq d (R i)))
    (hm : ∀ i < N, normSq d (R i) ≠ 0 → 0 < ρ2 (normSq d (R i)) → 0 < ρ1 (normSq d (R i))) (l : Nat) :
    JtR N d (fun i => triggsOf ρ1 ρ2 d (R i) (J i)) l
      = ∑ i ∈ range N, ρ1 (normSq d (R i)) * ∑ a ∈ range d, J i a l * R i a := by
  unfold JtR
  simp only [sumN_eq_sum]
  refine sum_congr rfl fun i hi => ?_
  have hi' := mem_range.mp hi
  have hx0 := normSq_nonneg d (R i)
  by_cases hmask : normSq d (R i) ≠ 0 ∧ 0 < ρ2 (normSq d (R i))
  · unfold triggsOf
    exact triggs_item_grad_masked d _ _ _ (R i) (J i) (normSq_eq_sum d (R i)) (lt_of_le_of_ne hx0 (Ne.symm hmask.1))
      (hm i hi' hmask.1 hmask.2) hmask.2 l
  · have : triggsOf ρ1 ρ2 d (R i) (J i) = fastOf ρ1 d (R i) (J i) := by
      unfold triggsOf fastOf
      apply triggs_unmasked
      rw [mask_real]; simpa using hmask
    rw [this]
    exact fast_item_grad d _ (R i) (J i) (h0 i hi') l

/-- non-vacuity: a kernel whose slope vanishes at one point only (`ρ' = (x-1)²`, `ρ'' = 2(x-1)`), residual items with
`‖R‖² = 1` (slope 0, unmasked since `ρ''=0`) are admitted by the exact guard but not by `triggs_grad` -/
example : (0:ℝ) ≤ (fun x : ℝ => (x - 1) ^ 2) 1 ∧ ¬ (0:ℝ) < (fun x : ℝ => (x - 1) ^ 2) 1 ∧ ¬ (0:ℝ) < (fun x : ℝ => 2 * (x - 1)) 1 := by
  norm_num


end PP.Corrector
