import Pose.Wire
import Pose.Driver.Lie
/-! Driver ops for C19. -/
namespace PP.Driver
open PP Wire

def opsC19 : List (String × Handler) := []

end PP.Driver
