"""C11 — matrix and Euler conversions are exact inverses of matrix() / of each other.

Model: lean/Pose/Model/Convert.lean (mat2SO3 candidates + mask regions, batch-level check, layouts, scale
extraction, from_matrix dispatch, euler2SO3, LieTensor.euler); theorems: lean/Proofs/Props/C11.lean.

Streams (model in 192 bits next to the real code; every stream also evaluates the property's own statement
on the real code = oracle):
  roundtrip : X (structured: the four mask regions and their boundaries, angle pi±{0..1e-3}, coordinate axes,
              both hemispheres) -> X.matrix() -> {from_matrix, mat2*} in layouts 3x3/3x4/4x4, check on/off,
              several (rtol, atol), batch shapes incl. (2,3), (2,3,4), (0,), both dtypes.
              correspondence: result vs model on the very same float matrix (q sign-free 16 eps, s 16 eps, t exact);
              oracle: same matrix, unit quaternion (8 eps), same scale, same translation, ltype/shape/dtype,
              never raises, argument not modified.
  reject    : perturbed / scaled / reflected / rank-deficient matrices, one bad item anywhere in a batch,
              deviations on a ladder around the tolerance: raise / no raise and the ValueError message kind
              vs the model (evaluated at tol·(1±band) too); oracle: independent float64 evaluation of
              "|R Rᵀ − 1| ≤ atol (+rtol on the diagonal), |det − 1| ≤ atol + rtol" with a guard band.
  euler     : euler2SO3 vs model and vs Rz·Ry·Rx (independent float64), euler() vs model (regular branch:
              16 eps / cos(pitch); singular branch: yaw 16 eps·pi, pitch min(4 sqrt eps, 16 eps/cos));
              oracles: euler2SO3(X.euler()) ≅ X for |sin pitch| < 1 − eps, principal ranges,
              euler(euler2SO3(e)) = e on the principal ranges; inside the gimbal-lock band Rz(yaw)Ry(pitch)Rx(0)
              reproduces X to 1.5·acos|t2| + 4 sqrt(eps); batched call = per-item call (also for euler2SO3 and the
              matrix converters); a deterministic corpus of batches mixing locked / in-band / edge / ordinary items.
  kernel    : torch.det against the cofactor formula the model uses for the `detK` contract (64 eps·scale).
  warn      : the 4x4 last-row warning of mat2SE3/mat2Sim3 vs the model's `lastRowWarn`.
  dispatch  : unsupported shapes / ltypes raise ValueError.
"""
from __future__ import annotations

import math
import warnings

import torch

from . import common, util_lie as U
from .common import Ctx

META = {
    "rule": "unit quaternions from a structured generator: uniform on S^3, U.gen_unit_quat (angle ladder, |w|~eps, |v|~eps), "
            "angle pi±{0,1e-12..1e-3} about random / coordinate / diagonal axes, rotations about coordinate axes, and "
            "quaternions placed in each of the four mat2SO3 mask regions and on the three mask boundaries (R22=atol, R00=R11, "
            "R00=-R11) to 0/±1ulp/±1e-9; translations 0..1e3, scales log-uniform in [1e-3,1e3] plus the end points; layouts "
            "3x3/3x4/4x4; batch shapes (),(1),(2),(3),(5),(2,3),(3,2),(2,2),(1,3),(2,3,4),(0,),(2,0); float32 and float64; "
            "check on/off; (rtol,atol) from a list; perturbed matrices with deviation/tolerance on a ladder 1e-3..1e5; "
            "Euler angles on the ladder {0,±tiny,±pi/2±d,±pi∓d, up to ±10}; a fixed corpus of 60 batches mixing exactly gimbal-locked, "
            "in-band, band-edge (±0.1 %) and ordinary orientations in three orders and shapes (n,), (2,n/2), (4,4), both dtypes, eps 2e-4 and 1e-2. Non-trivial = not the identity rotation; distinct by "
            "(stream, type, dtype, layout, check, tolerances, shape, generator tags, mask regions hit).",
    "trusted": ["float rounding of the conversions is measured against the exact model (16 eps), not proved",
                "torch.det is a contract parameter of the model (checked against the cofactor formula in the `kernel` stream)",
                "torch.pow(d, 1/3) uses the double nearest to 1/3; the model uses exp(log d / 3) (difference < 2 ulp for d in [1e-9,1e9])"],
    "observations": ["RANK TEST IS BATCH-LEVEL (outside the property's quantifier: scales ≥ 1e-3 with the default atol 1e-5): a VALID Sim3 / RxSO3 "
                     "element with 0 < s ≤ atol raises 'Rotation matrix not full rank' when converted alone but is accepted in a batch that also "
                     "contains a scale above atol (allclose(s, 0) over the whole batch, convert.py mat2Sim3 / mat2RxSO3) — for such inputs neither "
                     "'valid inputs never raise' nor 'batch = item-wise' holds; theorem rank_test_is_batch_level proves it of the model, the reject "
                     "stream (kind tinyscale) confirms it on the code; the batch-vs-item oracle exempts exactly the items with cbrt(det) ≤ atol",
                     "the round trip mat2SO3∘matrix multiplies a norm defect by up to 3 per application (theorem roundtrip_norm_amplification, Lemmas): "
                     "iterated conversions drift geometrically (1.4e14 eps after 40 round trips on the clean tree); each single conversion of a "
                     "1-ulp-valid element meets every bound",
                     "the last-row warning exists only in mat2SE3 / mat2Sim3 (model lastRowWarnBatch; mat2SO3 / mat2RxSO3 never inspect the last row)"],
    "assumptions": ["OBSERVATION (outside the stated scale range): the rank test of mat2Sim3 / mat2RxSO3 is decided over the whole batch — a valid "
                    "element with 0 < s ≤ atol raises alone and is accepted next to a larger scale (theorem rank_test_is_batch_level); the round-trip "
                    "theorems therefore carry 'not every scale of the batch is ≤ atol'",
                    "inputs of the round-trip clause are valid elements (unit quaternion to 1 ulp, scale in [1e-3,1e3])",
                    "tolerances of check=True for the 'valid inputs never raise' clause are at least 1e-5/1e-5 (float32) — a user "
                    "tolerance below the dtype's rounding level would reject float-rounded valid matrices by design",
                    "Euler round trip: tolerance 16·eps/cos(pitch) — asin/atan2 amplify rounding by 1/cos(pitch) ≤ 50 at the edge "
                    "of the regular region (measured worst case 1.7 eps·(1/cos pitch))"],
    "partial": ["rounding: the theorems are over exact real arithmetic; agreement of the float code with the model to 16 eps "
                "(rotation, scale), exact (translation) is measured on the generated inputs",
                "rejection clause near the tolerance: theorems guard_band_accept / guard_band_reject prove that a float evaluation within δ of "
                "the exact R Rᵀ has the exact verdict outside [tol−δ, tol+δ]; the size of δ (16·eps_dtype, relative band 16·eps/atol) is measured, "
                "inside the band either verdict is accepted (exactly representable coincidences with the tolerance are decided: reject corpus `exact-tolerance`); "
                "check_accepts_near_rotation proves that every matrix within δ of an exact rotation is accepted once 6δ+3δ² ≤ atol and "
                "6(3δ+3δ²+δ³) ≤ atol+rtol (valid up to rounding ⇒ accepted) — only the value of δ for the float code is measured",
                "non-mutation of the argument is monitored on every generated call (bit-for-bit, incl. the storage around views), not proved — "
                "the model consists of pure functions, it has no notion of aliasing",
                "inside the gimbal band the rebuilt matrix is proved within 48·sqrt(eps) of X.matrix() in all nine entries for 0 ≤ eps ≤ 1/25, and for every eps ≥ 0 and every regime by euler_rebuild_near_always "
                "(euler_band_full; first column and third row within 2·sqrt(1−t2²) for any eps ≥ 0, euler_band_column_row; 2×2 block within "
                "48·sqrt(1−|t2|), euler_band_block; exact lock exact, euler_gimbal_lock_exact) — over the reals; the constant 48 is not tight, the "
                "float code's distance is measured (oracle `gimbal`, worst 1.12·acos|t2|)",
                "the round trip mat2SO3∘matrix multiplies a norm defect by up to 3 (theorem roundtrip_norm_amplification): the property is "
                "claimed for elements unit to 1 ulp, not for iterated conversions"],
}

LAYOUTS = ["33", "34", "44"]
SHAPES = [(), (1,), (2,), (3,), (5,), (2, 3), (3, 2), (2, 2), (1, 3), (2, 3, 4), (0,), (2, 0),
          (4,), (3, 3), (4, 4), (3, 4), (4, 3), (7,), (1, 1), (3, 1), (13,)]   # incl. sizes equal to the matrix / quaternion dimensions
TOLS = [(1e-5, 1e-5), (1e-5, 1e-5), (1e-3, 1e-3), (0.0, 1e-4), (1e-2, 1e-5)]
K_ROT = 16.0
MSG = (("not all orthogonal", "notOrthogonal"), ("determinant are not all equal", "detNotOne"), ("not full rank", "notFullRank"),
       ("at least 2 dimensions", "badShape"), ("Input size must be", "badShape"), ("Input ltype must be", "badLtype"))


def P():
    return U.pp()


def fn_of(name):
    p = P()
    return {"SO3": p.mat2SO3, "SE3": p.mat2SE3, "Sim3": p.mat2Sim3, "RxSO3": p.mat2RxSO3}[name]


# ----------------------------------------------------------------------------- generators

def _norm(q):
    n = math.sqrt(sum(v * v for v in q)) or 1.0
    return [v / n for v in q]


def gen_quat(rng, eps, atol=1e-5):
    """structured unit quaternion (x,y,z,w) + tag"""
    c = rng.random()
    if c < 0.12:
        q, tag = _norm([rng.gauss(0, 1) for _ in range(4)]), "uniform"
    elif c < 0.30:
        q, tag = U.gen_unit_quat(rng, eps)
        tag = "U:" + tag
    elif c < 0.52:  # angle pi ± delta
        dl = rng.choice([0.0, 1e-15, 1e-12, 1e-9, 1e-6, 1e-3]) * rng.choice([-1, 1])
        th = math.pi + dl
        a = rng.random()
        if a < 0.35:
            d = [0.0, 0.0, 0.0]
            d[rng.randrange(3)] = rng.choice([-1.0, 1.0])
            at = "axis"
        elif a < 0.55:  # two or three equal components: mask ties R00 = R11 etc.
            d = rng.choice([[1, 1, 0], [1, 0, 1], [0, 1, 1], [1, 1, 1], [1, -1, 0], [1, -1, 1]])
            d = _norm([float(v) for v in d])
            at = "diag"
        elif a < 0.7:
            d = common.rand_dir(rng, 3)
            d[rng.randrange(3)] *= rng.choice([1e-9, 1e-5, 1e-3])
            d = _norm(d)
            at = "nearplane"
        else:
            d, at = common.rand_dir(rng, 3), "rand"
        s, w = math.sin(th / 2), math.cos(th / 2)
        q, tag = [d[0] * s, d[1] * s, d[2] * s, w], f"pi{common.sig_mag(dl)}:{at}"
    elif c < 0.62:  # rotation about a coordinate axis, any angle
        th = U.gen_angle(rng, eps, big=True)
        i = rng.randrange(3)
        q = [0.0, 0.0, 0.0, math.cos(th / 2)]
        q[i] = math.sin(th / 2)
        tag = f"coord{i}:th{common.sig_mag(th)}"
    else:  # prescribed squared components: regions and their boundaries
        kind = rng.choice(["d2", "d2", "x=y", "z=w", "deep", "equal", "x=y&d2", "z=w&d2"])
        tiny = rng.choice([0.0, 0.0, 1e-16, -1e-16, 1e-12, -1e-12, 1e-9, -1e-9, 1e-8, -1e-8, 1e-7, -1e-7, 1e-6, -1e-6, 1e-3, -1e-3])
        if kind in ("d2", "x=y&d2", "z=w&d2"):
            r22 = atol + tiny * (1.0 if abs(tiny) > 1e-12 else atol)   # R22 = 1 − 2(x²+y²) at / next to the mask threshold
            sxy = (1 - r22) / 2
        else:
            sxy = rng.uniform(0, 1)
        szw = 1 - sxy
        if kind in ("x=y", "x=y&d2"):
            fx = 0.5 + (tiny if kind == "x=y" else 0.0)
            if kind == "x=y":
                sxy = rng.uniform(0.5, 1.0); szw = 1 - sxy
        else:
            fx = rng.random()
        if kind in ("z=w", "z=w&d2"):
            fz = 0.5 + (tiny if kind == "z=w" else 0.0)
            if kind == "z=w":
                sxy = rng.uniform(0.0, 0.5); szw = 1 - sxy
        else:
            fz = rng.random()
        if kind == "deep":
            v = [rng.choice([1e-30, 1e-12, 1e-6, 1e-3, 0.0]) for _ in range(4)]
            v[rng.randrange(4)] = 1.0
            x2, y2, z2, w2 = v
        elif kind == "equal":
            x2 = y2 = z2 = w2 = 0.25
        else:
            x2, y2, z2, w2 = sxy * fx, sxy * (1 - fx), szw * fz, szw * (1 - fz)
        q = [math.sqrt(max(v, 0.0)) * rng.choice([-1, 1]) for v in (x2, y2, z2, w2)]
        q, tag = _norm(q), f"reg:{kind}:{common.sig_mag(tiny)}"
    if rng.random() < 0.3:
        q = [-v for v in q]
    return q, tag


def gen_scale(rng, atol=1e-5):
    """scale in the property's range [1e-3, 1e3]; a user tolerance atol ≥ 1e-4 moves the lower end to 10·atol
    (scales ≤ atol are 'rank deficient' for the code by definition of its test)"""
    lo = max(1e-3, 10 * atol)
    c = rng.random()
    if c < 0.08:    # beyond the documented range: the statement says "every element"
        return max(10 * atol, rng.choice([1e-4, 3e-4, 1e4, 1e5, 1e6]))
    if c < 0.16:    # nearly (not exactly) the special value 1: between round-off and any "isclose" heuristic
        return 1.0 + rng.choice([1e-12, 1e-9, 1e-7, 1e-6, 1e-5, 1e-4]) * rng.choice([-1, 1])
    if c < 0.3:
        return max(lo, rng.choice([1e-3, 1e3, 1.0, 2.0, 0.5, 1e-2, 1e2]))
    return 10 ** rng.uniform(math.log10(lo), 3)


def gen_elem(rng, eps, atol):
    """(t, q, s, tag) — a Sim3-like parameter set from which an element of any of the four types is cut"""
    q, tag = gen_quat(rng, eps, atol)
    t = U.vec(rng, U.gen_mag(rng, eps, 1e3) if rng.random() < 0.92 else rng.choice([1e6, 1e9, 1e-30]))
    return t, q, gen_scale(rng, atol), tag


def rows_of(name, t, q, s):
    return {"SO3": q, "SE3": t + q, "RxSO3": q + [s], "Sim3": t + q + [s]}[name]


def slice_layout(M, lay):
    if lay == "33":
        return M[..., :3, :3]
    if lay == "34":
        return M[..., :3, :]
    return M


DEFAULTS = {"check": True, "rtol": 1e-5, "atol": 1e-5}
APIS = ["from_matrix", "direct", "from_matrix_pos", "direct_pos", "from_matrix_pos1", "partial_fm", "partial_direct"]


def choose_call(rng, check, rtol, atol, allow_defaults=True):
    """how the optional arguments (check, rtol, atol) travel: all by keyword, all positional, first positional + keywords
    in another order, or only a SUBSET given (the others then take their defaults — returned values are the effective ones)"""
    api = rng.choice(APIS)
    given = ["check", "rtol", "atol"]
    if api in ("partial_fm", "partial_direct"):
        given = rng.choice([[], ["check"], ["rtol"], ["atol"], ["check", "rtol"], ["check", "atol"], ["rtol", "atol"]])
        vals = {"check": check, "rtol": rtol, "atol": atol}
        for k_ in DEFAULTS:
            if k_ not in given:
                vals[k_] = DEFAULTS[k_]
        check, rtol, atol = vals["check"], vals["rtol"], vals["atol"]
    return api, given, check, rtol, atol


def call_conv(case, M):
    """call the implementation as the case says; returns the LieTensor (or raises)"""
    p = P()
    name, api = case["type"], case["api"]
    kw = dict(check=case["check"], rtol=case["rtol"], atol=case["atol"])
    arg = M
    if api == "list":
        arg = M.tolist()
    if api in ("from_matrix", "list"):
        return p.from_matrix(arg, U.ltype(name), **kw)
    if api == "from_matrix_pos":
        return p.from_matrix(arg, U.ltype(name), case["check"], case["rtol"], case["atol"])
    if api == "direct_pos":
        return fn_of(name)(arg, case["check"], case["rtol"], case["atol"])
    if api == "from_matrix_pos1":   # first optional positional, the others by keyword in the other order
        return p.from_matrix(arg, U.ltype(name), case["check"], atol=case["atol"], rtol=case["rtol"])
    if api in ("partial_fm", "partial_direct"):   # only a subset of the keywords is given; the case holds the effective values
        kw2 = {k_: case[k_] for k_ in case.get("given", [])}
        assert all(case[k_] == DEFAULTS[k_] for k_ in DEFAULTS if k_ not in kw2), "harness: non-given argument must be the default"
        return p.from_matrix(arg, ltype=U.ltype(name), **kw2) if api == "partial_fm" else fn_of(name)(mat=arg, **kw2)
    if api == "defaults":  # only generated when check/rtol/atol are the defaults
        return p.from_matrix(arg, U.ltype(name)) if case.get("ci", 0) % 2 else fn_of(name)(arg)
    return fn_of(name)(arg, **kw)


def classify_exc(e):
    if isinstance(e, ValueError):
        for frag, kind in MSG:
            if frag in str(e):
                return kind
        return "ValueError:other"
    return type(e).__name__


def call_glue(case):
    """(entry, given) of the call as the MODEL sees it: which public function, which optional arguments were passed"""
    api = case.get("api", "direct")
    entry = "from_matrix" if api in ("from_matrix", "list", "from_matrix_pos", "from_matrix_pos1", "partial_fm") else "direct"
    given = ["check", "rtol", "atol"]
    if api == "defaults":
        entry, given = ("from_matrix" if case.get("ci", 0) % 2 else "direct"), []
    elif api in ("partial_fm", "partial_direct"):
        given = list(case.get("given", []))
    return entry, given


def model_line(case, M64, n, explicit=False):
    """`c11.call` line: the calling glue (shape validation, dispatch, defaulting of the arguments the caller left out:
    sent as `-`) and the conversion, on the float matrix the implementation saw (M64: (n, r, c) float64 tensor).
    `explicit=True` passes all three arguments (used for the tolerance-neighbourhood evaluations)."""
    entry, given = call_glue(case)
    if explicit:
        given = ["check", "rtol", "atol"]
    rows, cols = {"33": (3, 3), "34": (3, 4), "44": (4, 4)}[case["lay"]]
    rank = len(case.get("shape", [n])) + 2 if "shape" in case else 3
    chk = ("1" if case["check"] else "0") if "check" in given else "-"
    rt = common.to_wire(case["rtol"]) if "rtol" in given else "-"
    at = common.to_wire(case["atol"]) if "atol" in given else "-"
    flat = M64.reshape(-1).tolist()
    return f"c11.call {entry} {case['type']} {rank} {rows} {cols} {n} {chk} {rt} {at} " + common.wire_list(flat)


def in_mat(case, dtype):
    """rebuild the input matrix of a round-trip case: (M in dtype, lshape)"""
    name, src = case["type"], case["src"]
    D = U.dt(dtype)
    shape = tuple(case["shape"])
    rows = torch.tensor(case["rows"], dtype=torch.float64).reshape(shape + (U.GDIM[src],)).to(D)
    Xsrc = P().LieTensor(rows, ltype=U.ltype(src))
    M = Xsrc.matrix()
    if src == "SO3":
        lay = "33"
    else:
        lay = case["lay"]
    return slice_layout(M, lay), Xsrc


# ----------------------------------------------------------------------------- roundtrip stream

def gen_roundtrip(rng, ci):
    name = rng.choice(U.GROUPS)
    dtype = rng.choice(["float64", "float64", "float32"])
    eps = common.EPS[dtype]
    shape = rng.choice(SHAPES) if rng.random() < 0.8 else ()
    rtol, atol = rng.choice(TOLS)
    if dtype == "float64" and rng.random() < 0.15:
        rtol, atol = 1e-9, 1e-9
    check = rng.random() < 0.8
    api, given, check, rtol, atol = choose_call(rng, check, rtol, atol)
    lay = rng.choice(LAYOUTS)
    # source element: own type, or a richer one whose extra blocks must be ignored
    src = name
    if name == "SO3":
        src = rng.choice(["SO3", "SE3", "SE3"]) if lay != "33" else rng.choice(["SO3", "SO3", "SE3"])
        if src == "SO3":
            lay = "33"
    elif name == "RxSO3":
        src = rng.choice(["RxSO3", "Sim3"])
    n = int(math.prod(shape))
    rows, tags = [], []
    for _ in range(n):
        t, q, s, tag = gen_elem(rng, eps, atol)
        rows.append(rows_of(src, t, q, s))
        tags.append(tag)
    rows64 = U.to_dtype_exact(rows, dtype)[1].tolist() if n else []
    if (rtol, atol) == (1e-5, 1e-5) and check and rng.random() < 0.2:
        api = "defaults"
    if dtype == "float32" and rng.random() < 0.1 and n > 0:
        api = "list"
    return {"stream": "roundtrip", "type": name, "src": src, "dtype": dtype, "lay": lay, "shape": list(shape),
            "check": check, "rtol": rtol, "atol": atol, "api": api, "given": given, "rows": rows64, "tags": tags, "ci": ci}


def prep_roundtrip(ctx: Ctx, case):
    """run the implementation + oracles; return (model lines, finish)"""
    name, src, dtype = case["type"], case["src"], case["dtype"]
    eps = common.EPS[dtype]
    shape = tuple(case["shape"])
    n = int(math.prod(shape))
    M, Xsrc = in_mat(case, dtype)
    if not bool(torch.isfinite(M).all()):     # matrix() is code under test too: its value is checked before it is sent anywhere
        i = int((~torch.isfinite(M.reshape((max(n, 1),) + tuple(M.shape[-2:]))).all(dim=-1).all(dim=-1)).nonzero()[0]) if n else -1
        ctx.fail(case | {"item": i}, f"non-finite result: {src}.matrix() of a valid element is not finite (item {i}, {dtype}, row {case['rows'][i] if i >= 0 else None})")
        return [], None
    mon = common.PurityMonitor()
    try:
        with warnings.catch_warnings(record=True) as wrn:
            warnings.simplefilter("always")
            Y = mon.call("from_matrix", lambda m: call_conv(case, m), M.clone())   # M itself stays pristine
    except Exception as e:
        ctx.fail(case, f"raises: {case['api']}({name}, layout {case['lay']}, lshape {shape}, check={case['check']}, {dtype}) on X.matrix() "
                       f"raised {type(e).__name__}: {str(e)[:120]}")
        return [], None
    if mon.mutations:
        ctx.fail(case, f"mutates: {name} conversion modified its argument: {mon.mutations[0]}")
    if any("last rows" in str(w.message) for w in wrn):
        ctx.fail(case, f"warns: last-row warning on an exact {src}.matrix() ({name}, {dtype})")
    p = P()
    if not isinstance(Y, p.LieTensor) or Y.ltype != U.ltype(name) or tuple(Y.shape) != shape + (U.GDIM[name],) \
            or Y.dtype != M.dtype:
        ctx.fail(case, f"type: {case['api']} -> {type(Y).__name__} ltype={getattr(Y, 'ltype', None)} shape={tuple(Y.shape)} "
                       f"dtype={Y.dtype}, expected {name} {shape + (U.GDIM[name],)} {M.dtype}")
        return [], None
    if n == 0:
        return [], None
    Yt = Y.tensor().double().reshape(n, U.GDIM[name])
    M64 = M.double().reshape((n,) + tuple(M.shape[-2:]))
    Xr = torch.tensor(case["rows"], dtype=torch.float64).reshape(n, U.GDIM[src])
    # ---- oracle: the property's statement on the real code
    bad = None
    if not bool(torch.isfinite(Yt).all()):
        bad = "finite: result has NaN/inf"
    else:
        qY = Yt[:, U.QSL[name]]
        nrm = (qY.norm(dim=-1) - 1).abs().max().item()
        if not nrm <= 8 * eps:
            bad = f"unit: |‖q‖−1| = {nrm:.3e} > 8 eps"
        qX = Xr[:, U.QSL[src]]
        dq = torch.minimum((qY - qX).norm(dim=-1), (qY + qX).norm(dim=-1)).max().item()
        if bad is None and not dq <= K_ROT * eps:
            bad = f"rotation: quaternion differs from X by {dq:.3e} > 16 eps (as a rotation)"
        if bad is None and U.SIDX[name] is not None:
            sY, sX = Yt[:, U.SIDX[name]], Xr[:, U.SIDX[src]]
            ds = ((sY - sX).abs() / sX).max().item()
            if not ds <= K_ROT * eps:
                bad = f"scale: relative scale error {ds:.3e} > 16 eps"
        if bad is None and U.TSL[name] is not None:
            tY = Yt[:, U.TSL[name]]
            tX = M64[:, :3, 3] if M64.shape[-1] == 4 else torch.zeros(n, 3, dtype=torch.float64)
            if not torch.equal(tY, tX):
                bad = "translation: not the last column of the input (zeros for 3x3)"
        if bad is None:
            M2 = Y.matrix().double().reshape((n,) + tuple(Y.matrix().shape[-2:]))
            r, c = min(M2.shape[-2], M64.shape[-2]), min(M2.shape[-1], M64.shape[-1])
            if name in ("SO3", "RxSO3"):
                c = min(c, 3)
            sc = M64[:, :3, :3].abs().amax(dim=(-1, -2)).clamp_min(1e-300)
            dmv = (M2[:, :3, :3] - M64[:, :3, :3]).abs().amax(dim=(-1, -2)) / sc
            # the block is s·R: inside the property's scale range [1e-3, 1e3] it must agree to the 16 eps of the property
            # (measured worst case 8 eps); for the extreme scales added by the hardening pass (outside the stated quantifier)
            # the two blocks' own allowances add up (rotation 16 eps + scale 16 eps) — each block is still held to 16 eps above
            lim = torch.full_like(dmv, K_ROT * eps)
            if U.SIDX[name] is not None and U.SIDX[src] is not None:
                sX_ = Xr[:, U.SIDX[src]]
                lim = torch.where((sX_ >= 1e-3) & (sX_ <= 1e3), lim, 2 * lim)
            dm = float((dmv / lim).max()) * K_ROT * eps
            if not bool((dmv <= lim).all()):
                bad = f"matrix: rotation/scale block of result.matrix() differs from the input by {float(dmv.max()):.3e} > 16 eps (relative; 32 eps for scales outside [1e-3,1e3])"
            elif c == 4 and name in ("SE3", "Sim3") and not torch.equal(M2[:, :3, 3], M64[:, :3, 3]):
                bad = "matrix: translation column of result.matrix() differs from the input"
    if bad:
        ctx.fail(case, f"{bad} [{name} from {src}.matrix(), layout {case['lay']}, {dtype}, tags {case['tags'][:3]}]")
    if n > 1 and not bad:
        # a batched call must equal the per-item call
        Mi = M.reshape((n,) + tuple(M.shape[-2:]))
        try:
            with warnings.catch_warnings():
                warnings.simplefilter("ignore")
                cap = 24 if "corpus" in case.get("tags", []) else 8     # every item in the corpus, a spread sample in generated batches
                h_ = cap // 3
                idx = list(range(n)) if n <= cap else sorted(set(list(range(h_)) + list(range(n - h_, n)) + list(range(h_, n - h_, max(1, (n - 2 * h_) // h_)))))[:cap + 2]
                singles = torch.stack([call_conv(dict(case, api="direct"), Mi[i].clone()).tensor().double() for i in idx])
                Ysub = Yt[idx]
            dbq = float((singles[:, U.QSL[name]] - Ysub[:, U.QSL[name]]).abs().max())       # unit quaternion: absolute
            dbs = float(((singles[:, U.SIDX[name]] - Ysub[:, U.SIDX[name]]).abs() / Ysub[:, U.SIDX[name]].abs()).max()) \
                if U.SIDX[name] is not None else 0.0                                           # scale: relative
            tsame = U.TSL[name] is None or torch.equal(singles[:, U.TSL[name]], Ysub[:, U.TSL[name]])  # translation: a copy
            if not (dbq <= 4 * eps and dbs <= 4 * eps and tsame):
                ctx.fail(case, f"batch: {name} conversion of a batch (lshape {shape}) differs from the per-item calls: q {dbq:.3e}, s {dbs:.3e} (rel), "
                               f"t equal={tsame} [{dtype}, layout {case['lay']}, tags {case['tags'][:3]}]")
        except Exception as e:
            ctx.fail(case, f"batch: per-item {name} conversion raised {type(e).__name__} where the batched call returned: {str(e)[:100]}")
    # ---- correspondence with the model on the same float matrix
    lines = [model_line(case, M64, n)]
    for i in range(n):
        lines.append("c11.region " + common.wire_list([case["atol"]] + (M64[i, :3, :3] / (Xr[i, U.SIDX[src]] if U.SIDX[name] is not None and U.SIDX[src] is not None else 1.0)).reshape(-1).tolist()))

    def finish(reps):
        st, toks = common.parse_reply(reps[0])
        if st != "ok":
            ctx.disagree("roundtrip", case, f"model rejects ({toks}) a matrix the code accepts: {name} {dtype} lay {case['lay']} check={case['check']}")
            return
        want = torch.tensor([float(common.from_wire(t)) for t in toks], dtype=torch.float64).reshape(n, U.GDIM[name])
        qW, qG = want[:, U.QSL[name]], Yt[:, U.QSL[name]]
        dq = torch.minimum((qG - qW).norm(dim=-1), (qG + qW).norm(dim=-1)).max().item()
        errs = {}
        if not dq <= K_ROT * eps:
            errs["q"] = dq
        if U.SIDX[name] is not None:
            ds = ((Yt[:, U.SIDX[name]] - want[:, U.SIDX[name]]).abs() / want[:, U.SIDX[name]].abs()).max().item()
            if not ds <= K_ROT * eps:
                errs["s"] = ds
        if U.TSL[name] is not None and not torch.equal(Yt[:, U.TSL[name]], want[:, U.TSL[name]]):
            errs["t"] = (Yt[:, U.TSL[name]] - want[:, U.TSL[name]]).abs().max().item()
        if errs:
            ctx.disagree("roundtrip", case, f"{name} {dtype} lay {case['lay']} tags {case['tags'][:3]}: block errors {errs} > {K_ROT * eps:.2e}")
        regs = set()
        for r in reps[1:]:
            k = int(float(common.reply_nums(r)[0]))
            regs.add(k)
            ctx.count(f"region.c{k}")
        ctx.note_case(("rt", name, src, dtype, case["lay"], case["check"], case["rtol"], case["atol"], tuple(shape),
                       tuple(sorted(set(case["tags"])))[:4], tuple(sorted(regs))), True)
    return lines, finish


def run_stream(ctx: Ctx, cases, prep):
    lines, fins = [], []
    for case in cases:
        try:
            res = prep(ctx, case)
        except common.InfraError:
            raise
        except Exception as e:   # the implementation's own result blew up while being used (wrong shape / dtype / type)
            import traceback
            tb = traceback.format_exc()
            if "/pypose/" not in tb and "harness/c11.py" in tb and not isinstance(e, (RuntimeError, TypeError, IndexError, ValueError)):
                raise
            ctx.fail(case, f"crash: using the result of the implementation raised {type(e).__name__}: {str(e)[:120]} "
                           f"[{case.get('stream')} {case.get('type', case.get('mode'))} {case.get('dtype')} lshape {case.get('shape')}]")
            continue
        if res is None:
            continue
        ls, fin = res
        if fin is None:
            ctx.note_case((case.get("stream"), case.get("type"), case.get("dtype"), str(case.get("shape")), case.get("ci")), True)
            continue
        fins.append((len(lines), len(ls), fin))
        lines += ls
    reps = ctx.driver.run(lines)
    for a, k, fin in fins:
        fin(reps[a:a + k])


def run_roundtrip(ctx: Ctx, n):
    cases = []
    for ci in range(n):
        case = gen_roundtrip(ctx.rng, ci)
        ctx.count(f"roundtrip.{case['type']}.{case['dtype']}.lay{case['lay']}")
        ctx.count(f"roundtrip.shape{tuple(case['shape'])}")
        ctx.count(f"roundtrip.check={case['check']}")
        cases.append(case)
    run_stream(ctx, cases, prep_roundtrip)
    ctx.sample({k: cases[-1][k] for k in ("type", "src", "dtype", "lay", "shape", "check", "rtol", "atol", "api", "tags")}, cap=6)


# ----------------------------------------------------------------------------- reject stream

PERT = ["entry", "entry", "rowscale", "uniform", "reflect", "rank", "shear", "zero", "nonuniform", "none"]
FACT = [1e-7, 1e-5, 1e-3, 1e-3, 0.1, 0.3, 0.7, 0.95, 1.05, 1.5, 3.0, 10.0, 1e3, 1e5]   # from round-off level up to far beyond the tolerance


def perturb(rng, R, kind, mag):
    """R: 3x3 float64 tensor (a scaled rotation block); returns a perturbed copy"""
    R = R.clone()
    sc = float(R.abs().max()) or 1.0
    i, j = rng.randrange(3), rng.randrange(3)
    if kind == "entry":
        R[i, j] += mag * sc * rng.choice([-1, 1])
    elif kind == "rowscale":
        R[i, :] *= (1 + mag * rng.choice([-1, 1]))
    elif kind == "uniform":
        R *= (1 + mag * rng.choice([-1, 1]))
    elif kind == "reflect":
        R[:, j] = -R[:, j]
    elif kind == "rank":
        R[i, :] = R[(i + 1) % 3, :] * rng.choice([0.0, 1.0, -2.0])
    elif kind == "shear":
        R[i, :] += mag * R[(i + 1) % 3, :]
    elif kind == "zero":
        R[:, :] = 0.0
    elif kind == "nonuniform":
        R = torch.diag(torch.tensor([1 + mag, 1.0, 1 / (1 + mag)], dtype=R.dtype)) @ R
    return R


def gen_reject(rng, ci):
    name = rng.choice(U.GROUPS)
    dtype = rng.choice(["float64", "float64", "float32"])
    eps = common.EPS[dtype]
    rtol, atol = rng.choice(TOLS + [(1e-6, 1e-3), (1e-3, 1e-6)])
    check = rng.random() < 0.85
    api, given, check, rtol, atol = choose_call(rng, check, rtol, atol)
    lay = rng.choice(LAYOUTS)
    n = rng.choice([1, 1, 2, 3, 3, 4, 5, 7])
    src = "Sim3" if name in ("Sim3", "RxSO3") else "SE3"
    kind = rng.choice(PERT + (["tinyscale", "tinyscale"] if src == "Sim3" else []))
    tol = atol + rtol * rng.choice([0.0, 1.0])
    mag = tol * rng.choice(FACT) * rng.choice([1.0, 1.0, 0.5])
    if kind == "tinyscale":     # spacing of the scale relative to the rank-test threshold atol, both sides
        tol, mag = atol, atol * rng.choice([0.3, 0.7, 0.95, 1.05, 1.5, 3.0])
    bad_items = sorted(set(rng.randrange(n) for _ in range(rng.choice([1, 1, 2])))) if kind != "none" else []
    if rng.random() < 0.15:
        bad_items = list(range(n))
    mats = []
    for i in range(n):
        t, q, s, tag = gen_elem(rng, eps, atol)
        if name in ("SO3", "SE3"):
            s = 1.0
        if kind == "tinyscale" and i in bad_items:
            s = mag
        X = P().LieTensor(torch.tensor(rows_of(src, t, q, s), dtype=torch.float64), ltype=U.ltype(src))
        M = X.matrix().clone()
        if i in bad_items and kind != "tinyscale":
            M[:3, :3] = perturb(rng, M[:3, :3], kind, mag)
        mats.append(slice_layout(M, lay).to(U.dt(dtype)).double().tolist())
    return {"stream": "reject", "type": name, "dtype": dtype, "lay": lay, "check": check, "rtol": rtol, "atol": atol,
            "api": ("defaults" if ((rtol, atol) == (1e-5, 1e-5) and check and rng.random() < 0.4) else api), "given": given,
            "kind": kind, "factor": mag / tol if tol else 0.0, "bad_items": bad_items,
            "mats": mats, "ci": ci}


def exact_det(R):
    from fractions import Fraction as F
    a = [[F(v) for v in row] for row in R]
    return (a[0][0] * (a[1][1] * a[2][2] - a[1][2] * a[2][1]) - a[0][1] * (a[1][0] * a[2][2] - a[1][2] * a[2][0])
            + a[0][2] * (a[1][0] * a[2][1] - a[1][1] * a[2][0]))


def band_of(case):
    eps = common.EPS[case["dtype"]]
    return min(0.5, 16 * eps / max(case["atol"], 1e-300))


def py_verdict(case, M64):
    """independent float64 evaluation of the stated acceptance condition:
    'ok' (must return) | 'raise' (must raise ValueError) | 'band' / 'any' (too close to call / not specified)"""
    import numpy as np
    rtol, atol, b = case["rtol"], case["atol"], 2 * band_of(case) + 1e-9
    scaled = case["type"] in ("Sim3", "RxSO3")
    A = [R for R in M64[:, :3, :3].numpy()]
    if scaled:
        dets = [float(np.linalg.det(R)) for R in A]
        eps = common.EPS[case["dtype"]]
        if any(abs(d) <= 1e3 * eps * float(np.prod(np.linalg.norm(R, axis=1))) for R, d in zip(A, dets)):
            # determinant 0 up to the kernel's rounding: its float cube root is tiny, 0 or NaN — some ValueError must
            # come with check=True; with check=False the outcome is not specified
            return "raise" if case["check"] else "any"
        if A and all(d >= 0 for d in dets):
            tiny = [d ** (1 / 3) / atol if atol > 0 else math.inf for d in dets]
            if all(v < 1 - b for v in tiny):
                return "raise"                     # every scale ≈ 0: the rank test, whatever `check`
            if all(v <= 1 + b for v in tiny):
                return "band"
        if any(not d > 0 for d in dets):
            return "raise" if case["check"] else "any"
        A = [R / d ** (1 / 3) for R, d in zip(A, dets)]
    if not case["check"]:
        return "ok"
    worst = 0.0
    for R in A:
        E = R @ R.T - np.eye(3)
        for i in range(3):
            for j in range(3):
                lim = atol + (rtol if i == j else 0.0)
                worst = max(worst, abs(E[i, j]) / lim if lim > 0 else (math.inf if E[i, j] != 0 else 0.0))
        lim = atol + rtol
        worst = max(worst, abs(float(np.linalg.det(R)) - 1) / lim if lim > 0 else math.inf)
    if worst > 1 + b:
        return "raise"
    if worst < 1 - b:
        return "ok"
    return "band"


def prep_reject(ctx: Ctx, case):
    name, dtype = case["type"], case["dtype"]
    D = U.dt(dtype)
    M64 = torch.tensor(case["mats"], dtype=torch.float64)
    n = M64.shape[0]
    M = M64.to(D).clone()
    Min = M.clone()
    got, exc, Yv = None, None, None
    try:
        with warnings.catch_warnings():
            warnings.simplefilter("ignore")
            Y = call_conv(case, Min)
        got = "ok" if bool(torch.isfinite(Y.tensor()).all()) else "nonFinite"
        Yv = Y.tensor().double().reshape(n, -1)
    except Exception as e:
        got, exc = classify_exc(e), e
    if not torch.equal(torch.nan_to_num(Min), torch.nan_to_num(M)):
        ctx.fail(case, f"mutates: {name} conversion modified its argument (reject stream, check={case['check']})")
    ctx.count(f"reject.{case['kind']}.{'raise' if exc is not None else 'return'}")
    # ---- oracle (independent float64 evaluation of the stated acceptance condition)
    pv = py_verdict(case, M64)
    desc = f"[{name} {dtype} lay {case['lay']} check={case['check']} rtol={case['rtol']} atol={case['atol']} {case['kind']}×{case['factor']:.3g} bad={case['bad_items']}/{n}]"
    if exc is not None and not isinstance(exc, ValueError):
        ctx.fail(case, f"exctype: invalid/valid matrix input raised {type(exc).__name__} instead of ValueError: {str(exc)[:100]} {desc}")
    elif pv == "raise" and exc is None:
        ctx.fail(case, f"accepts: a matrix beyond the tolerances did not raise {desc}")
    elif pv == "ok" and exc is not None:
        ctx.fail(case, f"rejects: a matrix within the tolerances raised {got} {desc}")
    # ---- a batch must raise iff one of its items raises when converted alone (check=True)
    # OBSERVATION (theorem rank_test_is_batch_level): a VALID scaled rotation with 0 < s ≤ atol raises "not full rank" alone but is
    # accepted in a batch that also holds a scale above atol. The exemption is exactly that predicate: an item is `tiny` when its
    # scale cbrt(det) is ≤ atol (within the guard band); such an item's verdict ALONE says nothing about the batch. Everything
    # else is still held to "the batch raises iff one of its items raises alone":
    #   expected = (every item tiny)  or  (some non-tiny item raises alone)
    # and the case is skipped only when a tiny item is itself one of the perturbed items (its own validity is then undecidable
    # from the single call, which stops at the rank test).
    tiny = [False] * n
    if name in ("Sim3", "RxSO3") and case["atol"] > 0:
        for i, R in enumerate(M64[:, :3, :3]):
            d_ = float(torch.det(R))
            tiny[i] = d_ >= 0 and d_ ** (1 / 3) <= case["atol"] * (1 + 2 * band_of(case) + 1e-9)
    undecidable = any(tiny[i] for i in case.get("bad_items", [])) if case.get("kind") != "tinyscale" else False
    if any(tiny):
        ctx.count("reject.batch-oracle.tiny-items")
    if n > 1 and case["check"] and pv in ("ok", "raise") and not undecidable:
        single_raises = []
        for i in range(n):
            try:
                with warnings.catch_warnings():
                    warnings.simplefilter("ignore")
                    call_conv(dict(case, api="direct"), M[i:i + 1].clone())
                single_raises.append(False)
            except ValueError:
                single_raises.append(True)
            except Exception as e:
                single_raises.append(True)
                ctx.fail(case, f"exctype: item {i} alone raised {type(e).__name__} instead of ValueError {desc}")
        expected = all(tiny) or any(r_ for r_, t_ in zip(single_raises, tiny) if not t_)
        if expected != (exc is not None):
            ctx.fail(case, f"batch: the batch {'raised' if exc is not None else 'returned'} but converting its items one by one "
                           f"{'raises for items ' + str([i for i, r in enumerate(single_raises) if r]) if any(single_raises) else 'raises for none'} "
                           f"(items with scale ≤ atol: {[i for i, t_ in enumerate(tiny) if t_]}) {desc}")
    # ---- correspondence (verdict and message kind), model evaluated at tol·(1±band) too
    b = band_of(case)
    lines = []
    for f in ((1.0,) if case.get("exact") else (1.0, 1 + b, 1 - b) if pv in ("band", "any") or b > 1e-3 else (1.0,)):
        c2 = dict(case, rtol=case["rtol"] * f, atol=case["atol"] * f)
        lines.append(model_line(c2, M64, n, explicit=(f != 1.0)))

    # a determinant within the kernel's contract error of 0 has an unpredictable float cube root (tiny, 0 or NaN):
    # which ValueError is raised (or, with check=False, what garbage is returned) is then not determined by the model
    illdet = False
    if name in ("Sim3", "RxSO3"):
        fdet = torch.det(M[..., :3, :3]).double().reshape(-1).tolist()      # what the code's kernel returns
        for R, fd in zip(M64[:, :3, :3], fdet):
            if abs(float(torch.det(R))) <= 1e3 * common.EPS[dtype] * float(R.norm(dim=-1).prod()):
                if not (fd == 0.0 and exact_det(R.tolist()) == 0):          # exactly singular on both sides: determined
                    illdet = True
    if illdet:
        ctx.count("reject.illconditioned-det")

    def finish(reps):
        verdicts = []
        for r in reps:
            st, toks = common.parse_reply(r)
            verdicts.append("ok" if st == "ok" else toks)
        if illdet and verdicts[0] != "ok":
            verdicts += ["notOrthogonal", "detNotOne", "notFullRank"] + (["nonFinite", "ok"] if not case["check"] else [])
        # VALUES too when both sides return: a matrix that is a rotation only up to 1e-12 … 1e-3 must still be converted by the
        # documented formula (a hidden "already a rotation → shortcut" heuristic with a loose tolerance shows here); the conversion
        # is well conditioned on any matrix (selected t_i > 0), so the property's 16 eps applies relative to the result's size
        st0, toks0 = common.parse_reply(reps[0])
        def robust_items():
            """items that are near-rotations (deviation ≤ 1e-2) and whose three mask comparisons have a margin well above rounding —
            on a non-rotation the four candidates differ by the order of the deviation, so values are comparable only when code
            and model provably select the same candidate"""
            import numpy as np
            okm = []
            for R in M64[:, :3, :3].numpy():
                d_ = float(np.linalg.det(R))
                if name in ("Sim3", "RxSO3"):
                    if not d_ > 0:
                        okm.append(False)
                        continue
                    R = R / d_ ** (1 / 3)
                dev = float(np.abs(R @ R.T - np.eye(3)).max())
                # the VALUE of the R22 threshold is free (any candidate with t_i ≳ 1 is legitimate, `mat2SO3_any_branch`): values are
                # compared only when |R22| ≥ 0.1, where every reasonable threshold selects the same pair of candidates, and the
                # comparison that picks within the pair has a margin well above rounding and above the deviation
                marg = abs(R[0, 0] - R[1, 1]) if R[2, 2] < 0 else abs(R[0, 0] + R[1, 1])
                okm.append(dev <= 1e-2 and abs(R[2, 2]) >= 0.1 and marg > 1e4 * common.EPS[dtype] + 4 * dev)
            return okm
        if got == "ok" and st0 == "ok" and not illdet and all(robust_items()):
            want = torch.tensor([float(common.from_wire(t)) for t in toks0], dtype=torch.float64).reshape(n, U.GDIM[name])
            gotv = Yv
            eps_ = common.EPS[dtype]
            qW, qG = want[:, U.QSL[name]], gotv[:, U.QSL[name]]
            scq = qW.norm(dim=-1).clamp_min(1.0)
            dq = (torch.minimum((qG - qW).norm(dim=-1), (qG + qW).norm(dim=-1)) / scq).max().item()
            okv = dq <= K_ROT * eps_
            if U.SIDX[name] is not None:
                okv = okv and bool((((gotv[:, U.SIDX[name]] - want[:, U.SIDX[name]]).abs() / want[:, U.SIDX[name]].abs()) <= K_ROT * eps_).all())
            if U.TSL[name] is not None:
                okv = okv and torch.equal(gotv[:, U.TSL[name]], want[:, U.TSL[name]])
            ctx.count("reject.values-compared")
            if not okv:
                ctx.disagree("reject", case, f"accepted matrices are converted to different values: q {dq:.3e} (relative) {desc}")
        if got not in verdicts:
            ctx.disagree("reject", case, f"code: {got}, model: {verdicts} {desc}")
        ctx.note_case(("rej", name, dtype, case["lay"], case["check"], case["rtol"], case["atol"], case["kind"],
                       common.sig_mag(case["factor"]), len(case["bad_items"]), n, verdicts[0]), True)
        ctx.count(f"reject.model.{verdicts[0]}")
    return lines, finish


def run_reject(ctx: Ctx, n):
    cases = [gen_reject(ctx.rng, ci) for ci in range(n)]
    run_stream(ctx, cases, prep_reject)
    ctx.sample({k: cases[-1][k] for k in ("type", "dtype", "lay", "check", "rtol", "atol", "kind", "factor", "bad_items")}, cap=9)


# ----------------------------------------------------------------------------- euler stream

def gen_euler_angles(rng, eps, eeps=2e-4):
    edge = math.acos(1 - eeps)          # distance from gimbal lock at which the band of THIS call's eps begins
    def ang(kind):
        c = rng.random()
        if kind == "pitch":
            if c < 0.45:
                d = rng.choice([0.0, 1e-12, 1e-9, 1e-6, 1e-4, 0.5 * edge, 0.9 * edge, 0.999 * edge, 1.001 * edge, 1.1 * edge, 2 * edge, 0.05, 0.3])
                return rng.choice([-1, 1]) * (math.pi / 2 - d)
            if c < 0.6:
                return rng.choice([0.0, 1e-30, eps, 1e-9, 1e-3]) * rng.choice([-1, 1])
            return rng.uniform(-math.pi / 2, math.pi / 2)
        if c < 0.3:
            d = rng.choice([0.0, 1e-12, 1e-9, 1e-6, 1e-3])
            return rng.choice([-1, 1]) * (math.pi - d)
        if c < 0.45:
            return rng.choice([0.0, 1e-30, eps, 1e-9, 1e-3, math.pi / 2]) * rng.choice([-1, 1])
        return rng.uniform(-math.pi, math.pi)
    return [ang("roll"), ang("pitch"), ang("yaw")]


def gen_euler(rng, ci):
    dtype = rng.choice(["float64", "float64", "float32"])
    eps = common.EPS[dtype]
    shape = rng.choice([(), (1,), (2,), (3,), (2, 3), (0,), (4,), (3, 3), (4, 4), (3, 4), (4, 3), (7,)])
    n = int(math.prod(shape))
    mode = rng.choice(["e2q", "e2q", "q2e", "q2e", "q2e", "big"])
    eeps = rng.choice([2e-4, 2e-4, 2e-4, 1e-2, 1e-6])
    data, tags = [], []
    for _ in range(n):
        if mode == "e2q":
            data.append(gen_euler_angles(rng, eps, eeps))
        elif mode == "big":  # euler2SO3 accepts any real angles
            hi = rng.choice([10.0, 10.0, 1e3, 1e5 if dtype == "float64" else 1e3])
            data.append([rng.uniform(-hi, hi) for _ in range(3)])
        else:
            c = rng.random()
            if c < 0.5:   # quaternion built from angles near the gimbal-lock boundary / principal range ends
                r, p, y = gen_euler_angles(rng, eps, eeps)
                cr, sr, cp, sp, cy, sy = math.cos(r / 2), math.sin(r / 2), math.cos(p / 2), math.sin(p / 2), math.cos(y / 2), math.sin(y / 2)
                q = [sr * cp * cy - cr * sp * sy, cr * sp * cy + sr * cp * sy, cr * cp * sy - sr * sp * cy, cr * cp * cy + sr * sp * sy]
                if rng.random() < 0.4:
                    q = [-v for v in q]
                tags.append("fromangles")
            else:
                q, tg = gen_quat(rng, eps)
                tags.append(tg)
            data.append(q)
    d64 = U.to_dtype_exact(data, dtype)[1].tolist() if n else []
    return {"stream": "euler", "mode": mode, "dtype": dtype, "shape": list(shape), "eeps": eeps, "data": d64, "tags": tags[:4], "ci": ci}


def rzyx(r, p, y):
    cr, sr, cp, sp, cy, sy = math.cos(r), math.sin(r), math.cos(p), math.sin(p), math.cos(y), math.sin(y)
    return [[cy * cp, cy * sp * sr - sy * cr, cy * sp * cr + sy * sr],
            [sy * cp, sy * sp * sr + cy * cr, sy * sp * cr - cy * sr],
            [-sp, cp * sr, cp * cr]]


def prep_euler(ctx: Ctx, case):
    dtype, mode = case["dtype"], case["mode"]
    eps = common.EPS[dtype]
    D = U.dt(dtype)
    shape = tuple(case["shape"])
    n = int(math.prod(shape))
    p = P()
    lines = []
    if mode in ("e2q", "big"):
        E = torch.tensor(case["data"], dtype=torch.float64).reshape(shape + (3,)).to(D)
        mon = common.PurityMonitor()
        try:
            Q = mon.call("euler2SO3", p.euler2SO3, E)
        except Exception as e:
            ctx.fail(case, f"raises: euler2SO3 on shape {shape} {dtype} raised {type(e).__name__}: {str(e)[:100]}")
            return [], None
        if mon.mutations:
            ctx.fail(case, "mutates: euler2SO3 modified its argument")
        if not isinstance(Q, p.LieTensor) or Q.ltype != p.SO3_type or tuple(Q.shape) != shape + (4,) or Q.dtype != E.dtype:
            ctx.fail(case, f"type: euler2SO3 -> {type(Q).__name__} {tuple(Q.shape)} {Q.dtype}")
            return [], None
        if n == 0:
            return [], None
        Qf = Q.tensor().double().reshape(n, 4)
        Ef = E.double().reshape(n, 3)
        if not bool(torch.isfinite(Qf).all()):
            i = int((~torch.isfinite(Qf).all(dim=-1)).nonzero()[0])
            ctx.fail(case | {"item": i}, f"non-finite result: euler2SO3 returns {Qf[i].tolist()} for the angles {Ef[i].tolist()} ({dtype})")
            return [], None
        Mq = Q.matrix().double().reshape(n, 3, 3)
        back = Q.euler(eps=case["eeps"]).double().reshape(n, 3)
        for i in range(n):
            r, pt, y = Ef[i].tolist()
            ref = torch.tensor(rzyx(r, pt, y), dtype=torch.float64)
            dm = float((Mq[i] - ref).abs().max())
            if not dm <= K_ROT * eps:
                ctx.fail(case, f"rzyx: matrix of euler2SO3({r!r},{pt!r},{y!r}) differs from Rz·Ry·Rx by {dm:.3e} > 16 eps ({dtype})")
            if not abs(float(Qf[i].norm()) - 1) <= 8 * eps:
                ctx.fail(case, f"unit: euler2SO3 result not a unit quaternion ({dtype})")
            # euler ∘ euler2SO3 = id on the principal ranges, regular region
            cp = math.cos(pt)
            if mode == "e2q" and abs(math.sin(pt)) < 1 - case["eeps"] - 64 * eps and abs(r) < math.pi - 1e-6 and abs(y) < math.pi - 1e-6 \
                    and abs(pt) <= math.pi / 2:
                tolb = K_ROT * eps / max(cp, 1e-3) * math.pi
                dd = (back[i] - Ef[i]).abs().tolist()
                d = max(min(dd[0], abs(dd[0] - 2 * math.pi)), dd[1], min(dd[2], abs(dd[2] - 2 * math.pi)))  # roll/yaw: same angle
                if not all(math.isfinite(v) for v in dd):
                    d = math.nan          # python's max() silently drops a NaN that is not its first argument
                if not d <= tolb:
                    ctx.fail(case, f"inverse: euler(euler2SO3(e)) differs from e by {d:.3e} > {tolb:.3e} at e=({r!r},{pt!r},{y!r}) ({dtype})")
            if n > 1:
                one = p.euler2SO3(E.reshape(n, 3)[i].clone()).tensor().double()
                if not float((one - Qf[i]).abs().max()) <= 4 * eps:
                    ctx.fail(case, f"batch: euler2SO3 of a batch (lshape {shape}) differs from the per-item call at item {i} ({dtype})")
            lines.append("c11.euler2SO3 " + common.wire_list(Ef[i].tolist()))

        def finish(reps):
            for i, rep in enumerate(reps):
                want = U.fl(common.reply_nums(rep))
                d = U.quat_dist(Qf[i].tolist(), want)
                # the code fixes the sign by its formula: compare signed as well
                ds = math.sqrt(sum((a - b) ** 2 for a, b in zip(Qf[i].tolist(), want)))
                if not ds <= K_ROT * eps:
                    ctx.disagree("euler", case, f"euler2SO3 {dtype} e={Ef[i].tolist()}: |q−model| = {ds:.3e} (sign-free {d:.3e}) > 16 eps")
            ctx.note_case(("e2q", mode, dtype, tuple(shape), tuple(common.sig_mag(abs(v) - math.pi / 2) for v in Ef[:, 1].tolist())[:3]), True)
            ctx.count(f"euler.{mode}.{dtype}")
        return lines, finish

    # ---- q2e: LieTensor.euler
    Qt = torch.tensor(case["data"], dtype=torch.float64).reshape(shape + (4,)).to(D)
    X = p.SO3(Qt)
    mon = common.PurityMonitor()
    form_used = "method_kw"
    try:
        form = case.get("form", ["method_kw", "method_pos", "fn_kw", "fn_pos", "default"][case["ci"] % 5])
        if form == "default" and case["eeps"] != 2e-4:
            form = "fn_pos"
        call = {"method_kw": lambda x: x.euler(eps=case["eeps"]), "method_pos": lambda x: x.euler(case["eeps"]),
                "fn_kw": lambda x: p.euler(x, eps=case["eeps"]), "fn_pos": lambda x: p.euler(x, case["eeps"]),
                "default": lambda x: p.euler(x) if case["ci"] % 2 else x.euler()}[form]
        ctx.count(f"euler.form.{form}")
        form_used = form
        A = mon.call("euler", call, X)
    except Exception as e:
        ctx.fail(case, f"raises: euler() on shape {shape} {dtype} raised {type(e).__name__}: {str(e)[:100]}")
        return [], None
    if mon.mutations:
        ctx.fail(case, "mutates: euler() modified its argument")
    if isinstance(A, p.LieTensor) or tuple(A.shape) != shape + (3,) or A.dtype != Qt.dtype:
        ctx.fail(case, f"type: euler() -> {type(A).__name__} {tuple(A.shape)} {A.dtype}")
        return [], None
    if n == 0:
        return [], None
    Af = A.double().reshape(n, 3)
    Qf = Qt.double().reshape(n, 4)
    if not bool(torch.isfinite(Af).all()):
        i = int((~torch.isfinite(Af).all(dim=-1)).nonzero()[0])
        ctx.fail(case | {"item": i}, f"non-finite result: euler() returns {Af[i].tolist()} for the unit quaternion q={Qf[i].tolist()} ({dtype}, eps={case['eeps']})")
        return [], None
    Back = p.euler2SO3(A).tensor().double().reshape(n, 4)
    pi_d = float(torch.tensor(math.pi, dtype=D))
    nvar = []
    for i in range(n):
        x, y, z, w = Qf[i].tolist()
        t2 = 2 * (w * y - z * x) / (x * x + y * y + z * z + w * w)
        r_, p_, y_ = Af[i].tolist()
        if not (abs(p_) <= pi_d / 2 * (1 + 2 * eps)):
            ctx.fail(case, f"range: pitch {p_!r} outside [−pi/2, pi/2] for q={Qf[i].tolist()} ({dtype})")
        if abs(t2) < 1 - case["eeps"] - 64 * eps:
            if not (abs(r_) <= pi_d * (1 + 2 * eps) and abs(y_) <= pi_d * (1 + 2 * eps)):
                ctx.fail(case, f"range: roll/yaw ({r_!r},{y_!r}) outside (−pi, pi] for q={Qf[i].tolist()} ({dtype})")
            cosp = math.sqrt(max(1 - t2 * t2, 0.0))
            d = U.quat_dist(Back[i].tolist(), Qf[i].tolist())
            tolb = K_ROT * eps / max(cosp, 1e-3)
            if not d <= tolb:
                ctx.fail(case, f"converse: euler2SO3(X.euler()) differs from X by {d:.3e} > {tolb:.3e} (16 eps / cos pitch) for q={Qf[i].tolist()} ({dtype}, eps={case['eeps']})")
        elif abs(t2) >= 1 - case["eeps"] + 64 * eps:
            # inside the gimbal-lock band the code sets roll = 0 and folds it into yaw: Rz(yaw)·Ry(pitch)·Rx(0) must still
            # reproduce the rotation up to the distance delta = acos|t2| ≤ sqrt(2·eps_band) from exact lock (measured
            # worst case 1.12·delta), exactly at lock up to the conditioning of asin at ±1 (sqrt(ulp))
            delta = math.acos(min(1.0, abs(t2)))
            d = U.quat_dist(Back[i].tolist(), Qf[i].tolist())
            tols_ = 1.5 * delta + 4 * math.sqrt(eps) + K_ROT * eps
            ctx.count("euler.oracle.singular-band")
            if not d <= tols_:
                ctx.fail(case, f"gimbal: inside the band |sin pitch| ≥ 1−eps, Rz(yaw)Ry(pitch)Rx(roll) of X.euler() differs from X by {d:.3e} > {tols_:.3e} "
                               f"(1.5·acos|t2| + 4 sqrt(eps)) for q={Qf[i].tolist()}, angles {Af[i].tolist()} ({dtype}, eps={case['eeps']}, lshape {shape})")
        # a batched call must equal the per-item call (the regular/singular decision is per item)
        if n > 1:
            one = p.SO3(Qt.reshape(n, 4)[i].clone()).euler(eps=case["eeps"]).double().tolist()
            cosp_ = math.sqrt(max(1 - t2 * t2, 0.0))
            tb = 4 * eps * math.pi / max(cosp_, math.sqrt(eps))
            db = max(abs(a - b) for a, b in zip(one, Af[i].tolist()))
            if not all(math.isfinite(v) for v in one + Af[i].tolist()):
                db = math.nan
            if not db <= tb:
                ctx.fail(case, f"batch: euler() of a batch (lshape {shape}) differs from the per-item call by {db:.3e} at item {i}: batched {Af[i].tolist()} vs single {one} "
                               f"for q={Qf[i].tolist()} ({dtype}, eps={case['eeps']})")
        near = abs(abs(t2) - (1 - case["eeps"])) <= 1e-5        # regular/singular decision within rounding of the threshold?
        nvar.append(3 if near else 1)
        for f in ((1.0, 1 + 2.0 ** -20, 1 - 2.0 ** -20) if near else (1.0,)):
            if f == 1.0:    # the call as made: `-` = eps left out by the caller (the model fills in the default)
                lines.append("c11.eulercall " + ("-" if form_used == "default" else common.to_wire(case["eeps"])) + " " + common.wire_list(Qf[i].tolist()))
            else:
                lines.append("c11.euler " + common.wire_list([1 - (1 - case["eeps"]) * f] + Qf[i].tolist()))

    def finish(reps):
        off = 0
        for i in range(n):
            ok, details = False, []
            mine, off = reps[off:off + nvar[i]], off + nvar[i]
            for rep in mine:
                v = U.fl(common.reply_nums(rep))
                want, flag, t2 = v[:3], v[3], v[4]
                cosp = math.sqrt(max(1 - t2 * t2, 0.0))
                if flag == 1.0:
                    tl = K_ROT * eps * math.pi / max(cosp, 1e-6)
                    tols = [tl, tl, tl]
                else:
                    tp = min(4 * math.sqrt(eps), K_ROT * eps / max(cosp, 1e-300)) + K_ROT * eps
                    tols = [0.0, tp, 2 * K_ROT * eps * math.pi]
                errs = [abs(a - b) for a, b in zip(Af[i].tolist(), want)]
                # roll / yaw are angles: ±pi are the same angle when the sine underflows to ±0
                errs = [min(e % (2 * math.pi), 2 * math.pi - e % (2 * math.pi)) if k != 1 else e for k, e in enumerate(errs)]
                if all(e <= t for e, t in zip(errs, tols)):
                    ok = True
                    break
                details.append((flag, errs, tols))
            if not ok:
                ctx.disagree("euler", case, f"euler() {dtype} eps={case['eeps']} q={Qf[i].tolist()}: code {Af[i].tolist()} vs model (flag, errs, tols) {details[:1]}")
            ctx.count(f"euler.q2e.flag{int(v[3])}")
        ctx.note_case(("q2e", dtype, tuple(shape), case["eeps"], tuple(case["tags"])), True)
        ctx.count(f"euler.q2e.{dtype}")
    return lines, finish


def euler_corpus():
    """deterministic corner corpus: batches MIXING exact gimbal lock, the inside of the band |sin pitch| ≥ 1−eps, both
    sides of its edge, and ordinary orientations (the regular/singular decision must be taken per item)"""
    def q_of(r, p, y, neg=False):
        cr, sr, cp, sp, cy, sy = math.cos(r / 2), math.sin(r / 2), math.cos(p / 2), math.sin(p / 2), math.cos(y / 2), math.sin(y / 2)
        q = [sr * cp * cy - cr * sp * sy, cr * sp * cy + sr * cp * sy, cr * cp * sy - sr * sp * cy, cr * cp * cy + sr * sp * sy]
        return [-v for v in q] if neg else q
    out = []
    h = math.pi / 2
    for eeps in (2e-4, 1e-2):
        edge = math.acos(1 - eeps)          # distance from lock at which the band begins
        pitches = [h, -h, h - 1e-9, -(h - 1e-6), h - 0.3 * edge, -(h - 0.9 * edge), h - 0.999 * edge, h - 1.001 * edge,
                   -(h - 1.5 * edge), 0.3, -1.0, 0.0]
        items = [q_of(0.7 * ((-1) ** k) * (1 + 0.37 * k), pt, 2.1 - 0.45 * k, neg=(k % 3 == 0)) for k, pt in enumerate(pitches)]
        items += [[0.0, math.sqrt(0.5), 0.0, math.sqrt(0.5)], [0.5, 0.5, -0.5, 0.5], [0.5, -0.5, 0.5, 0.5], [0.0, 0.0, 0.0, 1.0]]
        n = len(items)
        orders = [list(range(n)), list(reversed(range(n))), [0, 9, 1, 10, 2, 11, 3, 12, 4, 13, 5, 14, 6, 15, 7, 8]]
        for dtype in ("float64", "float32"):
            for oi, order in enumerate(orders):
                data = [items[i] for i in order]
                for shape in ([n], [2, n // 2], [4, 4]):
                    out.append({"stream": "euler", "mode": "q2e", "dtype": dtype, "shape": shape, "eeps": eeps,
                                "data": U.to_dtype_exact(data, dtype)[1].tolist(), "tags": ["corpus", f"order{oi}"], "ci": 1})
            # two-item batches: one locked, one ordinary, both orders
            for a, b in ((0, 9), (9, 0), (1, 11), (4, 10), (10, 4), (12, 15)):
                out.append({"stream": "euler", "mode": "q2e", "dtype": dtype, "shape": [2], "eeps": eeps,
                            "data": U.to_dtype_exact([items[a], items[b]], dtype)[1].tolist(), "tags": ["corpus", "pair"], "ci": 1})
    return out


def euler_edge_ties():
    """quaternions (0, y, 0, w) whose FLOAT `t2 = 2wy/(y²+w²)` equals the band edge `1 − eps` bit for bit (found by scanning the
    neighbouring floats; validated again at run time): the exact tie of `flag = |t2| < 1 − eps`, reachable with representable data.
    The result must be finite, in range, and equal to one of the two branches (the model is evaluated on both sides of the edge)."""
    out = []
    for dtype, eeps, y, w in (("float64", 2e-4, 0.700000357151695, 0.7141424927754256), ("float64", 1e-2, 0.6553367989832941, 0.7553367989832943),
                              ("float32", 2e-4, 0.7000002861022949, 0.7141424927754256), ("float32", 1e-2, 0.6553367972373962, 0.7553367989832943)):
        D = U.dt(dtype)
        yw = torch.tensor([y, w], dtype=torch.float64).to(D)
        t2 = 2 * (yw[1] * yw[0]) / (yw[0] * yw[0] + yw[1] * yw[1])
        tie = bool(t2.abs() == torch.tensor(1. - eeps, dtype=D))
        data = [[0.0, float(yw[0]), 0.0, float(yw[1])], [0.0, -float(yw[0]), 0.0, float(yw[1])], [0.0, float(yw[0]), 0.0, -float(yw[1])],
                U.to_dtype_exact([_norm([0.1, 0.2, 0.3, 0.9])], dtype)[1][0].tolist()]      # + an ordinary unit quaternion in the same batch
        for form in ("method_kw", "fn_pos"):
            out.append({"stream": "euler", "mode": "q2e", "dtype": dtype, "shape": [4], "eeps": eeps, "data": data, "tags": ["corpus", "edge-tie" if tie else "edge"],
                        "ci": 1, "form": form})
    return out


def run_euler(ctx: Ctx, n):
    corpus = euler_corpus() + euler_edge_ties()
    ctx.count("euler.corpus.exact-edge-ties", sum(1 for c in corpus if "edge-tie" in c["tags"]))
    ctx.count("euler.corpus.mixed-regime-batches", len(corpus))
    cases = corpus + [gen_euler(ctx.rng, ci) for ci in range(n)]
    run_stream(ctx, cases, prep_euler)
    ctx.sample({k: cases[-1][k] for k in ("mode", "dtype", "shape", "eeps")} | {"first": cases[-1]["data"][:1]}, cap=12)


# ----------------------------------------------------------------------------- kernel / warn / dispatch streams

def run_kernel(ctx: Ctx, n):
    rng = ctx.rng
    lines, metas = [], []
    for ci in range(n):
        dtype = rng.choice(["float64", "float32"])
        eps = common.EPS[dtype]
        t, q, s, tag = gen_elem(rng, eps, 1e-5)
        X = P().LieTensor(torch.tensor(rows_of("Sim3", t, q, s), dtype=torch.float64), ltype=U.ltype("Sim3"))
        R = X.matrix()[:3, :3].clone()
        if rng.random() < 0.5:
            R = perturb(rng, R, rng.choice(PERT), rng.choice([1e-6, 1e-3, 0.1, 1.0]))
        R = R.to(U.dt(dtype))
        if not bool(torch.isfinite(R).all()):
            ctx.fail({"stream": "kernel", "row": rows_of("Sim3", t, q, s)}, f"non-finite result: Sim3.matrix() is not finite ({dtype})")
            continue
        d = float(torch.det(R))
        sc = float(R.double().norm(dim=-1).prod()) + 1e-300
        lines.append("c11.det " + common.wire_list(R.double().reshape(-1).tolist()))
        metas.append((d, sc, dtype, R.double().tolist()))
    reps = ctx.driver.run(lines)
    for rep, (d, sc, dtype, R) in zip(reps, metas):
        want = float(common.reply_nums(rep)[0])
        if not abs(d - want) <= 64 * common.EPS[dtype] * sc:
            raise common.InfraError(f"contract of the determinant kernel violated: torch.det={d!r}, exact={want!r}, R={R}")
        ctx.note_case(("det", dtype, common.sig_mag(want)), True)
    ctx.count("kernel.det", n)


def run_warn(ctx: Ctx, n):
    """the 4x4 last-row WARNING against the model's `lastRowWarnBatch`: only mat2SE3 / mat2Sim3 (and from_matrix for those
    types) inspect the last row, with check=True, over the whole batch (one bad row anywhere warns); mat2SO3 / mat2RxSO3 and the
    3x3 / 3x4 layouts never warn. A deterministic part (every type x layout x check x position of the bad row) runs first."""
    rng = ctx.rng
    lines, metas = [], []
    qs = corner_quats()

    def one(ci, name, dtype, rtol, atol, check, lay, nb, bad, j, f, via_fm):
        src = "Sim3" if name in ("Sim3", "RxSO3") else "SE3"
        mats = []
        for i in range(nb):
            X = P().LieTensor(torch.tensor(rows_of(src, [0.5 * i, -1.0, 2.0], qs[(13 * i + ci) % len(qs)][0], [1.0, 0.5, 3.0][i % 3] if src == "Sim3" else 1.0),
                                           dtype=torch.float64), ltype=U.ltype(src))
            M = X.matrix().clone()
            if i in bad:
                tol = atol + (rtol if j == 3 else 0.0)
                M[3, j] += tol * f * (1 if (ci + i) % 2 else -1)
            mats.append(M)
        M = slice_layout(torch.stack(mats), lay).to(U.dt(dtype))
        if not bool(torch.isfinite(M).all()):
            ctx.fail({"stream": "warn", "type": name, "dtype": dtype, "ci": ci}, f"non-finite result: {src}.matrix() is not finite ({dtype})")
            return
        case = {"stream": "warn", "type": name, "dtype": dtype, "check": check, "rtol": rtol, "atol": atol, "lay": lay, "bad": sorted(bad),
                "col": j, "factor": f, "M": M.double().tolist(), "ci": ci, "via_from_matrix": via_fm}
        with warnings.catch_warnings(record=True) as wrn:
            warnings.simplefilter("always")
            try:
                if via_fm:
                    P().from_matrix(M.clone(), U.ltype(name), check=check, rtol=rtol, atol=atol)
                else:
                    fn_of(name)(M.clone(), check=check, rtol=rtol, atol=atol)
            except Exception as e:
                ctx.fail(case | {"M": None}, f"raises: {name} conversion (layout {lay}) raised {type(e).__name__} because of the last row: {str(e)[:80]}")
                return
        got = any("last rows" in str(w.message) for w in wrn)
        if got and (name in ("SO3", "RxSO3") or lay != "44" or not check or not bad or f == 0.0):
            ctx.count("warn.unexpected")
        b = band_of(case)
        for ff in (1.0, 1 + b, 1 - b):
            lines.append(f"c11.warn {name} {lay} {1 if check else 0} {nb} " + common.wire_list([rtol * ff, atol * ff] + M.double().reshape(-1).tolist()))
        metas.append((case, got, f))
    ci = 0
    for name in U.GROUPS:                              # deterministic part
        for lay in LAYOUTS:
            for check in (True, False):
                for pos in (0, 1, 2):
                    for (j, f) in ((0, 3.0), (3, 3.0), (2, 0.3), (3, 0.0)):
                        one(ci, name, ["float64", "float32"][ci % 2], 1e-5, 1e-5, check, lay, 3, {pos} if f else set(), j, f, ci % 3 == 0)
                        ci += 1
    for k in range(n):                                 # generated part
        name = rng.choice(U.GROUPS)
        rtol, atol = rng.choice(TOLS)
        nb = rng.choice([1, 1, 2, 3, 5])
        bad = {rng.randrange(nb)} if rng.random() < 0.7 else set()
        one(ci + k, name, rng.choice(["float64", "float32"]), rtol, atol, rng.random() < 0.8, rng.choice(["44", "44", "34", "33"]), nb, bad,
            rng.randrange(4), rng.choice([0.0, 0.3, 0.7, 1.5, 3.0, 100.0]), rng.random() < 0.5)
    reps = ctx.driver.run(lines)
    for i, (case, got, f) in enumerate(metas):
        vs = [float(common.reply_nums(r)[0]) == 1.0 for r in reps[3 * i:3 * i + 3]]
        if got not in vs:
            ctx.disagree("warn", case | {"M": None}, f"last-row warning of {case['type']} (layout {case['lay']}, check={case['check']}, bad rows {case['bad']}, "
                                                     f"deviation/tol {f}, {case['dtype']}): code {got}, model {vs}")
        ctx.note_case(("warn", case["type"], case["dtype"], case["check"], case["lay"], case["rtol"], f, len(case["bad"])), True)
        ctx.count(f"warn.{case['type']}.{got}")


def run_dispatch(ctx: Ctx):
    """the argument checks of the calling glue against the model (`c11.call`): unsupported shapes / ranks raise the shape
    error before anything else, an ltype that is not one of the four group types raises the ltype error"""
    p = P()
    bad_shapes = [(3,), (2, 2), (4, 3), (5, 5), (2, 3, 2), (3, 5), (4,), (1, 3), (3, 1), (2, 4, 3), (0, 3), (3, 0)]
    lines, metas = [], []

    def probe(case, api, f, mline):
        try:
            f()
            got = "ok"
        except Exception as e:
            got = classify_exc(e)
            if not isinstance(e, ValueError):
                ctx.fail(case, f"exctype: {api} raised {type(e).__name__} (not ValueError) for {case}: {str(e)[:80]}")
        lines.append(mline)
        metas.append((case, api, got))
    for name in U.GROUPS:
        for sh in bad_shapes:
            case = {"stream": "dispatch", "type": name, "shape": list(sh)}
            rank, rows, cols = len(sh), (sh[-2] if len(sh) >= 2 else 0), sh[-1]
            m = torch.zeros(sh, dtype=torch.float64)
            probe(case, "from_matrix", lambda: p.from_matrix(m, U.ltype(name)), f"c11.call from_matrix {name} {rank} {rows} {cols} 0 - - -")
            probe(case, "direct", lambda: fn_of(name)(m), f"c11.call direct {name} {rank} {rows} {cols} 0 - - -")
            # a bad shape together with a bad ltype: the shape test comes first
            probe(case | {"ltype": "None"}, "from_matrix", lambda: p.from_matrix(m, None), f"c11.call from_matrix other {rank} {rows} {cols} 0 - - -")
            ctx.note_case(("dispatch", name, sh), True)
    for lt in (p.so3_type, p.se3_type, p.sim3_type, p.rxso3_type, None, "SO3", 0):
        for (r_, c_) in ((3, 3), (3, 4), (4, 4)):
            case = {"stream": "dispatch", "ltype": str(lt), "shape": [r_, c_]}
            eye = torch.eye(4, dtype=torch.float64)[:r_, :c_]
            probe(case, "from_matrix", lambda: p.from_matrix(eye, lt), f"c11.call from_matrix other 2 {r_} {c_} 1 - - - " + common.wire_list(eye.reshape(-1).tolist()))
        ctx.note_case(("dispatch-ltype", str(lt)), True)
    reps = ctx.driver.run(lines)
    for rep, (case, api, got) in zip(reps, metas):
        st, toks = common.parse_reply(rep)
        want = "ok" if st == "ok" else toks
        if got != want:
            if want in ("badShape", "badLtype") and got == "ok":
                ctx.fail(case, f"accepts: {api} accepted an unsupported {'shape ' + str(case.get('shape')) if want == 'badShape' else 'ltype ' + str(case.get('ltype'))} ({case.get('type', '')})")
            else:
                ctx.disagree("dispatch", case, f"{api}: code {got}, model {want} for {case}")
    ctx.count("dispatch.cases", len(lines))


# ----------------------------------------------------------------------------- deterministic corner corpus (runs first)

def octahedral_quats():
    """the 48 unit quaternions of the binary octahedral group = the 24 rotations of the cube, both signs: exact angle
    pi about axes and edge diagonals, 90 / 120 degrees, R00 == R11 and R00 == -R11 ties, every mask region"""
    import itertools
    out = []
    for i in range(4):
        for sg in (1.0, -1.0):
            q = [0.0] * 4
            q[i] = sg
            out.append(q)
    for sg in itertools.product((0.5, -0.5), repeat=4):
        out.append(list(sg))
    r = math.sqrt(0.5)
    for i, j in itertools.combinations(range(4), 2):
        for a, b in itertools.product((r, -r), repeat=2):
            q = [0.0] * 4
            q[i], q[j] = a, b
            out.append(q)
    return out


def corner_quats(atol=1e-5):
    qs = [(q, "oct") for q in octahedral_quats()]
    # mask thresholds: R22 = 1 - 2(x²+y²) = atol exactly / ±1e-9, with x = y and z = w ties
    for d in (0.0, 1e-9, -1e-9):
        sxy = (1 - (atol + d)) / 2
        szw = 1 - sxy
        qs.append(([math.sqrt(sxy / 2), math.sqrt(sxy / 2), math.sqrt(szw / 2), math.sqrt(szw / 2)], "R22=atol&ties"))
        qs.append(([math.sqrt(sxy * 0.9), -math.sqrt(sxy * 0.1), math.sqrt(szw * 0.2), -math.sqrt(szw * 0.8)], "R22=atol"))
    for th in (0.0, 1e-30, 1e-12, 1e-9, 1e-8, 1e-7, 1e-6, 1e-5, 1e-4, math.pi / 2 - 1e-7, math.pi / 2 + 1e-7, math.pi - 1e-5, math.pi - 1e-7,
               math.pi - 1e-9, math.pi, math.pi + 1e-9, math.pi + 1e-7, 2 * math.pi - 1e-9, 2 * math.pi - 1e-6):
        d = _norm([1.0, -2.0, 0.5])
        qs.append(([d[0] * math.sin(th / 2), d[1] * math.sin(th / 2), d[2] * math.sin(th / 2), math.cos(th / 2)], f"th={th:.3g}"))
    return [(_norm(q), t) for q, t in qs]


def roundtrip_corpus():
    """mixed batches: every corner quaternion in ONE batch, item i with its own scale / translation (incl. values beyond
    the documented ranges), each type x dtype x layout; plus the same items as a (7, 8) grid and one big batch"""
    qs = corner_quats()
    scales = [1.0, 1e-3, 1e3, 2.0, 1e-4, 1e4, 0.5, 1e6, 3e-4, 1e-2, 1 + 1e-7, 1 - 1e-9, 1 + 1e-5, 1 - 1e-12]
    trans = [[0.0, 0.0, 0.0], [1.0, 2.0, 3.0], [1e6, -1e6, 1e6], [1e-30, 0.0, -1e-30], [-7.5, 1e3, 1e-3], [1e9, 1.0, -1e-9]]
    out = []
    ci = 0
    for name in U.GROUPS:
        for dtype in ("float64", "float32"):
            for lay in LAYOUTS:
                src = {"SO3": "SE3" if lay != "33" else "SO3", "SE3": "SE3", "RxSO3": "Sim3" if lay != "33" else "RxSO3", "Sim3": "Sim3"}[name]
                rows, tags = [], []
                for i, (q, tg) in enumerate(qs):
                    rows.append(rows_of(src, trans[i % len(trans)], q, scales[(i + ci) % len(scales)]))
                    tags.append(tg)
                n = len(rows)
                for shape in ([n], [7, n // 7]) if n % 7 == 0 else ([n],):
                    out.append({"stream": "roundtrip", "type": name, "src": src, "dtype": dtype, "lay": lay, "shape": shape,
                                "check": True, "rtol": 1e-5, "atol": 1e-5, "api": ["from_matrix", "direct", "defaults"][ci % 3],
                                "rows": U.to_dtype_exact(rows, dtype)[1].tolist(), "tags": ["corpus"] + sorted(set(tags))[:2], "ci": ci})
                ci += 1
    # one large batch (vectorised kernels switch code paths with the size)
    big = [rows_of("Sim3", trans[i % 6], qs[i % len(qs)][0], scales[i % len(scales)]) for i in range(1031)]
    out.append({"stream": "roundtrip", "type": "Sim3", "src": "Sim3", "dtype": "float64", "lay": "44", "shape": [1031], "check": True,
                "rtol": 1e-5, "atol": 1e-5, "api": "from_matrix", "rows": big, "tags": ["corpus", "big"], "ci": 999})
    return out


def reject_corpus():
    """fixed rejection cases: every perturbation kind at half / twice the tolerance (and far beyond), the bad item at every
    position of a batch of three good ones, every type and dtype, default tolerances (half through the all-default call)"""
    import random as _r
    rng = _r.Random(11)
    base = [[0.3, -1.2, 2.5], _norm([0.1, -0.4, 0.7, 0.58]), 1.0]
    others = [([1.0, 0.0, -1.0], [0.5, 0.5, -0.5, 0.5], 2.0), ([0.0, 3.0, 0.0], [0.0, math.sqrt(0.5), 0.0, -math.sqrt(0.5)], 0.01)]
    out = []
    ci = 0
    for name in U.GROUPS:
        src = "Sim3" if name in ("Sim3", "RxSO3") else "SE3"
        for dtype in ("float64", "float32"):
            for kind in ["entry", "rowscale", "uniform", "reflect", "rank", "shear", "zero", "nonuniform", "none"]:
                for fac, check in ((0.5, True), (2.0, True), (1e3, True), (2.0, False)):
                    if kind in ("reflect", "rank", "zero", "none") and fac not in (2.0,):
                        continue
                    pos = ci % 3
                    els = list(others)
                    els.insert(pos, tuple(base))
                    mats = []
                    tol = 1e-5 + (1e-5 if kind in ("rowscale", "uniform", "nonuniform") else 0.0)
                    for i, (t, q, sc) in enumerate(els):
                        sc = sc if src == "Sim3" else 1.0
                        X = P().LieTensor(torch.tensor(rows_of(src, list(t), list(q), sc), dtype=torch.float64), ltype=U.ltype(src))
                        M = X.matrix().clone()
                        if i == pos and kind != "none":
                            M[:3, :3] = perturb(rng, M[:3, :3], kind, tol * fac)
                        mats.append(slice_layout(M, LAYOUTS[ci % 3]).to(U.dt(dtype)).double().tolist())
                    out.append({"stream": "reject", "type": name, "dtype": dtype, "lay": LAYOUTS[ci % 3], "check": check, "rtol": 1e-5,
                                "atol": 1e-5, "api": ["defaults", "direct", "from_matrix"][ci % 3] if check else "direct", "kind": kind,
                                "factor": fac, "bad_items": [pos] if kind != "none" else [], "mats": mats, "ci": ci, "corpus": True})
                    ci += 1
    # user tolerances: consecutive calls alternate between tolerance pairs, the deviation sits at half / twice the tolerance
    # of THAT call (a tolerance remembered from an earlier call gives the wrong verdict here)
    pairs = [(1e-5, 1e-5), (1e-3, 1e-3), (0.0, 1e-4), (1e-2, 1e-5), (1e-5, 1e-5), (1e-3, 1e-3)]
    for name in ("SO3", "Sim3", "SE3", "RxSO3"):
        src = "Sim3" if name in ("Sim3", "RxSO3") else "SE3"
        for kind in ("entry", "uniform"):
            for fac in (0.5, 2.0):
                for rtol, atol in pairs:
                    tol = atol + (rtol if kind == "uniform" else 0.0)
                    t, q, sc = base
                    X = P().LieTensor(torch.tensor(rows_of(src, list(t), list(q), 2.0 if src == "Sim3" else 1.0), dtype=torch.float64), ltype=U.ltype(src))
                    M = X.matrix().clone()
                    M[:3, :3] = perturb(rng, M[:3, :3], kind, tol * fac * (0.5 if kind == "uniform" else 1.0))
                    out.append({"stream": "reject", "type": name, "dtype": "float64", "lay": "44", "check": True, "rtol": rtol, "atol": atol,
                                "api": ["direct", "from_matrix", "from_matrix_pos"][ci % 3], "kind": kind, "factor": fac, "bad_items": [0],
                                "mats": [M.tolist()], "ci": ci, "corpus": True})
                    ci += 1
    # exact coincidences with the tolerance itself: an off-diagonal entry of R Rᵀ EQUAL to atol is accepted (allclose is `<=`),
    # one ulp above is refused; all float operations involved are exact, so the verdict is determined (no guard band)
    for name in ("SO3", "SE3"):
        for atol_ in (1e-5, 2.0 ** -17, 1e-3):
            for up in (False, True):
                for (i_, j_) in ((0, 1), (2, 0), (1, 2)):
                    M = torch.eye(4, dtype=torch.float64)
                    M[i_, j_] = float(torch.nextafter(torch.tensor(atol_, dtype=torch.float64), torch.tensor(1.0, dtype=torch.float64))) if up else atol_
                    out.append({"stream": "reject", "type": name, "dtype": "float64", "lay": "44", "check": True, "rtol": 0.0, "atol": atol_,
                                "api": ["direct", "from_matrix", "direct_pos"][ci % 3], "given": ["check", "rtol", "atol"], "kind": "exact-tolerance",
                                "factor": 1.0, "bad_items": [0] if up else [], "mats": [M.tolist()], "ci": ci, "corpus": True, "exact": True})
                    ci += 1
    # scale EQUAL to atol (and one ulp either side), identity rotation: the rank test's own coincidence
    for name in ("Sim3", "RxSO3"):
        for atol_ in (1e-5, 2.0 ** -10):
            for f_ in (1.0, 1 - 2.0 ** -40, 1 + 2.0 ** -40, 0.5, 2.0):
                M = torch.eye(4, dtype=torch.float64)
                M[:3, :3] *= atol_ * f_
                out.append({"stream": "reject", "type": name, "dtype": "float64", "lay": "44", "check": True, "rtol": 1e-5, "atol": atol_,
                            "api": "direct", "given": ["check", "rtol", "atol"], "kind": "tinyscale", "factor": f_, "bad_items": [0],
                            "mats": [M.tolist()], "ci": ci, "corpus": True})
                ci += 1
    return out


def run_corpus(ctx: Ctx):
    rc = roundtrip_corpus()
    ctx.count("corpus.roundtrip.batches", len(rc))
    run_stream(ctx, rc, prep_roundtrip)
    jc = reject_corpus()
    ctx.count("corpus.reject.cases", len(jc))
    run_stream(ctx, jc, prep_reject)
    pc = perm_corpus()
    ctx.count("corpus.perm.batches", len(pc))
    run_stream(ctx, pc, prep_perm)
    tc = tie_corpus()
    ctx.count("corpus.tie.batches", len(tc))
    run_stream(ctx, tc, prep_tie)
    crt, crj = callform_corpus()
    ctx.count("corpus.callforms.roundtrip", len(crt))
    ctx.count("corpus.callforms.reject", len(crj))
    run_stream(ctx, crt, prep_roundtrip)
    run_stream(ctx, crj, prep_reject)



# ----------------------------------------------------------------------------- exact coincidences: which candidate wins on a tie

def tie_corpus():
    """matrices with EXACT coincidences of the quantities the mask comparisons look at: R00 == R11, R00 == -R11, R22 == atol
    (bit for bit, each alone and combined, on either side of the other masks), the 24 cube rotations, exact quarter turns
    about coordinate and generic axes. Unscaled types only (the comparisons act on the caller's floats); check=False for
    the matrices whose entries were overwritten. The SIGN of the returned quaternion shows which candidate the code chose."""
    out = []
    r = math.sqrt(0.5)
    bases = {"d2": _norm([0.62, -0.58, 0.33, 0.41]), "d2b": _norm([-0.5, 0.66, -0.4, 0.39]), "nd2": _norm([0.21, -0.33, 0.61, -0.68]),
             "nd2b": _norm([-0.3, 0.12, -0.7, 0.64]), "edge": _norm([0.5, 0.5, 0.5, -0.5])}
    quarter = [[r, 0, 0, r], [0, -r, 0, r], [0, 0, r, -r], [-r, 0, 0, -r]] + \
              [[d * r for d in _norm(v)] + [sg * r] for v in ([1, 2, -2], [-3, 1, 0.5], [0.2, -0.1, 0.97]) for sg in (1, -1)]
    for dtype, atol in (("float64", 1e-5), ("float64", 2.0 ** -17), ("float32", 2.0 ** -17)):
        D = U.dt(dtype)
        mats, tags = [], []
        for bn, q in bases.items():
            M0 = P().SO3(torch.tensor(q, dtype=torch.float64).to(D)).matrix().clone()
            for kind in ("R00=R11", "R00=-R11", "R22=atol", "R22=atol&R00=R11", "R22=atol&R00=-R11", "R00=R11=0", "R22=atol,R11=R00+ulp"):
                # (no item strictly between 0 and atol: the VALUE of the mask threshold is free — any candidate with t_i ≳ 1 is
                #  fine, `mat2SO3_any_branch` — only the comparison operators at exact coincidences are pinned here)
                M = M0.clone()
                a = torch.tensor(atol, dtype=D)
                if "R22=atol" in kind:
                    M[2, 2] = a
                if "R00=R11" in kind and "=0" not in kind:
                    M[1, 1] = M[0, 0]
                if "R00=-R11" in kind:
                    M[1, 1] = -M[0, 0]
                if kind == "R00=R11=0":
                    M[0, 0] = 0.0
                    M[1, 1] = 0.0
                if kind == "R22=atol,R11=R00+ulp":
                    M[1, 1] = torch.nextafter(M[0, 0], torch.tensor(2.0, dtype=D))
                mats.append(M)
                tags.append(f"{bn}:{kind}")
        for q in octahedral_quats() + quarter:
            mats.append(P().SO3(torch.tensor(q, dtype=torch.float64).to(D)).matrix().clone())
            tags.append("oct/quarter")
        M3 = torch.stack(mats)
        for name in ("SO3", "SE3"):
            for lay in LAYOUTS:
                n = M3.shape[0]
                M4 = torch.zeros(n, 4, 4, dtype=D)
                M4[:, :3, :3] = M3
                M4[:, :3, 3] = torch.tensor([1.5, -2.0, 0.25], dtype=D)
                M4[:, 3, 3] = 1.0
                out.append({"stream": "tie", "type": name, "dtype": dtype, "lay": lay, "atol": atol, "rtol": atol,
                            "mats": slice_layout(M4, lay).double().tolist(), "tags": tags})
    return out


def prep_tie(ctx: Ctx, case):
    name, dtype = case["type"], case["dtype"]
    eps = common.EPS[dtype]
    M64 = torch.tensor(case["mats"], dtype=torch.float64)
    n = M64.shape[0]
    M = M64.to(U.dt(dtype))
    if not bool(torch.isfinite(M64).all()):
        ctx.fail(case | {"mats": None}, f"non-finite result: matrix() produced a non-finite entry while building the tie corpus ({dtype})")
        return [], None
    c2 = dict(case, check=False, api="direct", shape=[n])
    try:
        Y = call_conv(c2, M.clone()).tensor().double()
        singles = torch.stack([call_conv(c2, M[i].clone()).tensor().double() for i in range(n)])
    except Exception as e:
        ctx.fail(case | {"mats": None}, f"raises: {name} conversion (check=False) of the tie corpus raised {type(e).__name__}: {str(e)[:100]} ({dtype})")
        return [], None
    if Y.shape != (n, U.GDIM[name]) or not bool(torch.isfinite(Y).all()):
        i = int((~torch.isfinite(Y).all(dim=-1)).nonzero()[0]) if Y.shape == (n, U.GDIM[name]) else -1
        ctx.fail(case | {"mats": [case["mats"][i]] if i >= 0 else None, "item": i},
                 f"finite: {name} conversion of a matrix with an exact coincidence ({case['tags'][i] if i >= 0 else '?'}) is not finite / has the wrong shape ({dtype}, atol={case['atol']})")
        return [], None
    if not torch.equal(singles, Y):
        i = int((singles != Y).any(dim=-1).nonzero()[0])
        ctx.fail(case | {"mats": [case["mats"][i]], "item": i}, f"batch: {name} conversion of the tie corpus differs between the batched and the per-item call at item {i} "
                                                                 f"({case['tags'][i]}, {dtype})")
    lines = [model_line(c2, M64, n)]

    def finish(reps):
        st, toks = common.parse_reply(reps[0])
        if st != "ok":
            ctx.disagree("tie", case | {"mats": None}, f"model error {toks} on the tie corpus ({name} {dtype})")
            return
        want = torch.tensor([float(common.from_wire(t)) for t in toks], dtype=torch.float64).reshape(n, U.GDIM[name])
        qs = U.QSL[name]
        for i in range(n):
            sc = max(1.0, float(want[i, qs].norm()))
            d_signed = float((Y[i, qs] - want[i, qs]).abs().max())
            d_flip = float((Y[i, qs] + want[i, qs]).abs().max())
            ctx.count("tie.items")
            # the sign is pinned where the choice of candidate is decided by a comparison OPERATOR at an exact coincidence or far from
            # the R22 threshold; for R22 in the neighbourhood of 0 (other than R22 == atol itself) the threshold VALUE decides and any
            # value is legitimate (`mat2SO3_any_branch`): sign-free there
            r22 = float(M64[i, 2, 2])
            pinned = (r22 == case["atol"]) or abs(r22) >= 0.1
            if not pinned:
                ctx.count("tie.items.sign-free")
                if not min(d_signed, d_flip) <= K_ROT * eps * sc:
                    ctx.disagree("tie", case | {"mats": [case["mats"][i]], "item": i}, f"{name} {dtype} item {i} [{case['tags'][i]}]: code differs from the model by {min(d_signed, d_flip):.3e} (sign-free)")
                continue
            if not d_signed <= K_ROT * eps * sc:
                what = "the OTHER sign (another candidate won the tie)" if d_flip <= K_ROT * eps * sc else f"a different value ({d_signed:.3e})"
                ctx.disagree("tie", case | {"mats": [case["mats"][i]], "item": i},
                             f"{name} {dtype} atol={case['atol']} lay {case['lay']} item {i} [{case['tags'][i]}]: code returns {what}: code {Y[i, qs].tolist()} model {want[i, qs].tolist()}")
        ctx.note_case(("tie", name, dtype, case["lay"], case["atol"]), True)
    return lines, finish



# ----------------------------------------------------------------------------- exact ties through the public entry point, valid data

def signed_perms():
    """the 24 proper signed permutation matrices (entries 0, ±1: exactly representable in every dtype)"""
    import itertools
    out = []
    for perm in itertools.permutations(range(3)):
        for sg in itertools.product((1.0, -1.0), repeat=3):
            Mx = [[0.0] * 3 for _ in range(3)]
            for i in range(3):
                Mx[i][perm[i]] = sg[i]
            det = (Mx[0][0] * (Mx[1][1] * Mx[2][2] - Mx[1][2] * Mx[2][1]) - Mx[0][1] * (Mx[1][0] * Mx[2][2] - Mx[1][2] * Mx[2][0])
                   + Mx[0][2] * (Mx[1][0] * Mx[2][1] - Mx[1][1] * Mx[2][0]))
            if det == 1.0:
                out.append(Mx)
    return out


def perm_corpus():
    """VALID inputs with exact coincidences, given as matrices (not through matrix()): every proper signed permutation matrix —
    R00 == R11 (= 0, ±1), R00 == −R11, R22 ∈ {0, ±1} — times an exactly representable scale (1, 0.5, 4), exact translation, all
    four converters, three layouts, check=True with the default tolerances AND with rtol = atol = 0 (R Rᵀ = 1 holds exactly, and
    R22 == atol becomes an exact tie of the first mask for the twelve matrices with R22 = 0)."""
    out = []
    Ps = torch.tensor(signed_perms(), dtype=torch.float64)       # (24, 3, 3)
    n = Ps.shape[0]
    k = 0
    for name in U.GROUPS:
        for dtype in ("float64", "float32"):
            for (rtol, atol) in ((1e-5, 1e-5), (0.0, 0.0)):
                for sc in ((1.0,) if name in ("SO3", "SE3") else (1.0, 0.5, 4.0)):
                    lay = LAYOUTS[k % 3]
                    k += 1
                    M4 = torch.zeros(n, 4, 4, dtype=torch.float64)
                    M4[:, :3, :3] = Ps * sc
                    M4[:, :3, 3] = torch.tensor([1.5, -2.0, 0.25], dtype=torch.float64)
                    M4[:, 3, 3] = 1.0
                    out.append({"stream": "perm", "type": name, "dtype": dtype, "lay": lay, "rtol": rtol, "atol": atol, "scale": sc,
                                "check": True, "api": ["direct", "from_matrix", "from_matrix_pos"][k % 3], "given": ["check", "rtol", "atol"],
                                "mats": slice_layout(M4, lay).tolist(), "shape": [n]})
    return out


def prep_perm(ctx: Ctx, case):
    name, dtype = case["type"], case["dtype"]
    eps = common.EPS[dtype]
    M64 = torch.tensor(case["mats"], dtype=torch.float64)
    n = M64.shape[0]
    M = M64.to(U.dt(dtype))
    desc = f"[{name} {dtype} layout {case['lay']} scale {case['scale']} rtol=atol={case['atol']}]"
    try:
        with warnings.catch_warnings():
            warnings.simplefilter("ignore")
            Yb = call_conv(case, M.clone())
            Y = Yb.tensor().double()
            back = Yb.matrix().double()
    except Exception as e:
        # exact (scaled) signed permutations are valid for ANY tolerance ≥ 0: for the scaled types the float cube root of det = s³
        # is exact for s ∈ {1, 0.5, 4} only up to rounding, so with rtol = atol = 0 a refusal there is the documented test, not a defect
        if name in ("Sim3", "RxSO3") and case["atol"] == 0.0 and isinstance(e, ValueError):
            ctx.count("perm.scaled-zero-tolerance-refused")
            return [], None
        ctx.fail(case | {"mats": None}, f"raises: conversion of the exact signed permutation matrices raised {type(e).__name__}: {str(e)[:100]} {desc}")
        return [], None
    if Y.shape != (n, U.GDIM[name]) or not bool(torch.isfinite(Y).all()):
        i = int((~torch.isfinite(Y).all(dim=-1)).nonzero()[0]) if Y.shape == (n, U.GDIM[name]) else -1
        ctx.fail(case | {"mats": [case["mats"][i]] if i >= 0 else None, "item": i},
                 f"non-finite result: the exact rotation matrix {case['mats'][i] if i >= 0 else '?'} (an exact tie of the mask comparisons) is converted to "
                 f"{Y[i].tolist() if i >= 0 else Y.shape} {desc}")
        return [], None
    un = (Y[:, U.QSL[name]].norm(dim=-1) - 1).abs()
    dm = (back[:, :3, :3] - M64[:, :3, :3]).abs().amax(dim=(-1, -2)) / case["scale"]
    badm = ~(un <= 8 * eps) | ~(dm <= K_ROT * eps)
    if U.SIDX[name] is not None:
        badm |= ~(((Y[:, U.SIDX[name]] - case["scale"]).abs() / case["scale"]) <= K_ROT * eps)
    if U.TSL[name] is not None and M64.shape[-1] == 4:
        badm |= (Y[:, U.TSL[name]] != M64[:, :3, 3]).any(dim=-1)
    if bool(badm.any()):
        i = int(badm.nonzero()[0])
        ctx.fail(case | {"mats": [case["mats"][i]], "item": i}, f"perm: the exact rotation matrix {case['mats'][i]} is converted to {Y[i].tolist()} — unit {float(un[i]):.3e}, "
                                                                 f"matrix of the result differs by {float(dm[i]):.3e} {desc}")
    lines = [model_line(case, M64, n)]

    def finish(reps):
        st, toks = common.parse_reply(reps[0])
        if st != "ok":
            ctx.disagree("perm", case | {"mats": None}, f"model refuses ({toks}) the exact signed permutation matrices {desc}")
            return
        want = torch.tensor([float(common.from_wire(t)) for t in toks], dtype=torch.float64).reshape(n, U.GDIM[name])
        qs_ = U.QSL[name]
        signed_ok = name in ("SO3", "SE3") and (dtype == "float64" or case["atol"] == 0.0)     # comparisons act on the caller's exact entries
        for i in range(n):
            d1 = float((Y[i, qs_] - want[i, qs_]).abs().max())
            d2 = float((Y[i, qs_] + want[i, qs_]).abs().max())
            r22 = float(M64[i, 2, 2])
            pinned = signed_ok and ((r22 == case["atol"]) or abs(r22) >= 0.1)
            if not (d1 if pinned else min(d1, d2)) <= K_ROT * eps:
                ctx.disagree("perm", case | {"mats": [case["mats"][i]], "item": i},
                             f"{name} item {i}: code {Y[i, qs_].tolist()} vs model {want[i, qs_].tolist()} ({'signed' if pinned else 'sign-free'}) {desc}")
            ctx.count("perm.items")
        ctx.note_case(("perm", name, dtype, case["lay"], case["atol"], case["scale"]), True)
    return lines, finish


# ----------------------------------------------------------------------------- call histories, stale reads, views and aliases

def blocks_close(name, a, b, eps, k=4.0):
    """per-block comparison of two storage tensors (n, dim): quaternion absolute, scale relative, translation exact"""
    a, b = a.double().reshape(-1, U.GDIM[name]), b.double().reshape(-1, U.GDIM[name])
    if a.shape != b.shape:
        return False
    if a.numel() == 0:
        return True
    ok = float((a[:, U.QSL[name]] - b[:, U.QSL[name]]).abs().max()) <= k * eps
    if U.SIDX[name] is not None:
        ok &= float(((a[:, U.SIDX[name]] - b[:, U.SIDX[name]]).abs() / b[:, U.SIDX[name]].abs()).max()) <= k * eps
    if U.TSL[name] is not None:
        ok &= torch.equal(a[:, U.TSL[name]], b[:, U.TSL[name]])
    return bool(ok)


def run_history(ctx: Ctx):
    """deterministic. (a) one long history of calls in which EVERY per-call argument changes from call to call (type,
    dtype, batch shape, layout, check, rtol, atol, api, eps of euler) — each call is repeated later in the history and must
    return the same bits (a cache keyed by too little / state leaking between calls shows here); the signature defaults of
    the public functions must be unchanged afterwards; (b) the caller's tensors are overwritten in place between calls
    (copy_, item assignment, mul_) and converted again: the result must describe the current contents; (c) arguments that
    are views: slices of a larger buffer, column-major, expanded, strided, permuted batch axes — same result as on a
    contiguous clone, argument and the storage around the view bit-for-bit untouched."""
    import random as _r
    p = P()
    rng = _r.Random(2611)
    fns = {"mat2SO3": p.mat2SO3, "mat2SE3": p.mat2SE3, "mat2Sim3": p.mat2Sim3, "mat2RxSO3": p.mat2RxSO3,
           "from_matrix": p.from_matrix, "euler2SO3": p.euler2SO3, "euler": p.LieTensor.euler}
    defaults0 = {k: (getattr(f, "__defaults__", None), getattr(f, "__kwdefaults__", None)) for k, f in fns.items()}

    def elem(name, dtype, shape):
        n = int(math.prod(shape))
        rows = [rows_of(name, *gen_elem(rng, common.EPS[dtype], 1e-5)[:3]) for _ in range(n)]
        return p.LieTensor(torch.tensor(rows, dtype=torch.float64).reshape(tuple(shape) + (U.GDIM[name],)).to(U.dt(dtype)),
                           ltype=U.ltype(name))

    # ---- (a) history with every argument varied, each call repeated
    calls = []
    shapes = [(), (3,), (2, 3), (1,), (4,), (0,), (2, 2)]
    k = 0
    for rep in range(2):
        for name in U.GROUPS:
            for dtype in ("float64", "float32"):
                shape = shapes[k % len(shapes)]
                rtol, atol = TOLS[k % len(TOLS)]
                src = {"SO3": "SE3", "SE3": "SE3", "RxSO3": "Sim3", "Sim3": "Sim3"}[name]
                case = {"stream": "history", "type": name, "src": src, "dtype": dtype, "lay": LAYOUTS[k % 3], "shape": list(shape),
                        "check": k % 4 != 3, "rtol": rtol, "atol": atol, "api": ["direct", "from_matrix", "from_matrix_pos"][k % 3], "ci": k}
                M = slice_layout(elem(src, dtype, shape).matrix(), case["lay"])
                calls.append(("conv", case, M))
                calls.append(("euler2SO3", {"stream": "history", "fn": "euler2SO3", "dtype": dtype, "shape": list(shape), "ci": k},
                              torch.tensor([gen_euler_angles(rng, common.EPS[dtype]) for _ in range(int(math.prod(shape)))],
                                           dtype=torch.float64).reshape(tuple(shape) + (3,)).to(U.dt(dtype))))
                calls.append(("euler", {"stream": "history", "fn": "euler", "dtype": dtype, "shape": list(shape),
                                        "eeps": [2e-4, 1e-2, 1e-6][k % 3], "ci": k}, elem("SO3", dtype, shape)))
                k += 1

    def do(kind, case, arg):
        if kind == "conv":
            with warnings.catch_warnings():
                warnings.simplefilter("ignore")
                return call_conv(case, arg).tensor()
        if kind == "euler2SO3":
            return p.euler2SO3(arg).tensor()
        return arg.euler(eps=case["eeps"])
    first = []
    order = list(range(len(calls)))
    for i in order:
        kind, case, arg = calls[i]
        try:
            first.append(do(kind, case, arg.clone()))
            if not bool(torch.isfinite(first[-1]).all()):
                ctx.fail(case | {"call_index": i}, f"non-finite result: call #{i} of the history ({kind} {case.get('type', '')} {case['dtype']} lshape {case['shape']}) on valid input")
        except Exception as e:
            first.append(None)
            ctx.fail(case | {"call_index": i}, f"raises: call #{i} of the history ({kind} {case.get('type', '')} {case['dtype']} lshape {case['shape']}) raised "
                                               f"{type(e).__name__}: {str(e)[:100]}")
    rng.shuffle(order)
    for i in order:     # the same calls again, in another order: same bits
        kind, case, arg = calls[i]
        if first[i] is None:
            continue
        try:
            again = do(kind, case, arg.clone())
            ok = again.shape == first[i].shape and again.dtype == first[i].dtype and torch.equal(torch.nan_to_num(again), torch.nan_to_num(first[i]))
        except Exception as e:
            ok, again = False, f"{type(e).__name__}: {str(e)[:80]}"
        ctx.note_case(("history", kind, case.get("type"), case["dtype"], tuple(case["shape"]), case["ci"]), True)
        if not ok:
            ctx.fail(case | {"call_index": i}, f"history: repeating call #{i} ({kind} {case.get('type', '')} {case['dtype']} lshape {case['shape']}, check={case.get('check')}, "
                                               f"tol=({case.get('rtol')},{case.get('atol')})) later in a history of {len(calls)} differently-parameterised calls gives a different result")
    ctx.count("history.calls", 2 * len(calls))
    for kname, f in fns.items():
        if (getattr(f, "__defaults__", None), getattr(f, "__kwdefaults__", None)) != defaults0[kname]:
            ctx.fail({"stream": "history", "fn": kname}, f"history: signature defaults of {kname} changed during the call history")

    # ---- (b) stale reads: the caller's tensor is overwritten in place between calls
    for name in U.GROUPS:
        for dtype in ("float64", "float32"):
            src = {"SO3": "SE3", "SE3": "SE3", "RxSO3": "Sim3", "Sim3": "Sim3"}[name]
            case = {"stream": "stale", "type": name, "src": src, "dtype": dtype, "lay": "44", "shape": [3], "check": True, "rtol": 1e-5,
                    "atol": 1e-5, "api": "from_matrix", "ci": 0}
            M = elem(src, dtype, (3,)).matrix().clone()
            try:
                with warnings.catch_warnings():
                    warnings.simplefilter("ignore")
                    call_conv(case, M)
                    for u, upd in enumerate(["copy_", "setitem", "copy_", "swap"]):
                        if upd == "copy_":
                            M.copy_(elem(src, dtype, (3,)).matrix())
                        elif upd == "setitem":
                            M[1] = elem(src, dtype, ()).matrix()
                        else:
                            M.copy_(M.flip(0).clone())
                        a = call_conv(case, M).tensor()
                        b = call_conv(case, M.clone()).tensor()
                        ctx.note_case(("stale", name, dtype, u), True)
                        if not torch.equal(a, b):
                            ctx.fail(case | {"update": upd, "update_index": u}, f"stale: {name} conversion of a matrix tensor after in-place update #{u} ({upd}) differs from the "
                                                                                 f"conversion of a fresh clone ({dtype})")
                            break
            except Exception as e:
                ctx.fail(case, f"raises: stale-read probe of the {name} conversion raised {type(e).__name__}: {str(e)[:100]}")
    for dtype in ("float64", "float32"):
        case = {"stream": "stale", "fn": "euler2SO3", "dtype": dtype}
        E = torch.tensor([[0.1, -0.2, 0.3], [1.0, 0.5, -2.0]], dtype=U.dt(dtype))
        try:
            p.euler2SO3(E)
            for u, upd in enumerate(["mul_", "setitem", "copy_"]):
                if upd == "mul_":
                    E.mul_(-1.5)
                elif upd == "setitem":
                    E[0, 1] = 1.2
                else:
                    E.copy_(torch.tensor([[3.0, -1.5, 0.25], [-0.75, 0.125, 2.5]], dtype=U.dt(dtype)))
                ctx.note_case(("stale", "euler2SO3", dtype, u), True)
                if not torch.equal(p.euler2SO3(E).tensor(), p.euler2SO3(E.clone()).tensor()):
                    ctx.fail(case | {"update": upd}, f"stale: euler2SO3 of an angle tensor after in-place update ({upd}) differs from the call on a fresh clone ({dtype})")
                    break
        except Exception as e:
            ctx.fail(case, f"raises: stale-read probe of euler2SO3 raised {type(e).__name__}: {str(e)[:100]}")

    # ---- (c) views and aliases
    def check_view(case, fn, view, whole, out_name=None):
        """fn(view) must equal fn(view.contiguous().clone()); `view` and the buffer `whole` around it stay bit-identical"""
        eps = common.EPS[case["dtype"]]
        ctx.note_case(("views", case.get("fn"), case.get("type"), case["dtype"], case["view"]), True)
        ctx.count(f"views.{case['view']}")
        is_lt = hasattr(view, "ltype")
        vt = view.tensor() if is_lt else view
        v0, w0 = vt.clone(), whole.clone()
        fresh = p.LieTensor(v0.contiguous().clone(), ltype=view.ltype) if is_lt else v0.contiguous().clone()
        try:
            with warnings.catch_warnings():
                warnings.simplefilter("ignore")
                a = fn(view)
                b = fn(fresh)
        except Exception as e:
            ctx.fail(case, f"raises: {case.get('fn')} {case.get('type', '')} on a non-contiguous view ({case['view']}, shape {tuple(vt.shape)}, strides {tuple(vt.stride())}, "
                           f"{case['dtype']}) raised {type(e).__name__}: {str(e)[:100]}")
            return
        a = a.tensor() if hasattr(a, "ltype") else a
        b = b.tensor() if hasattr(b, "ltype") else b
        if out_name is not None:
            same = blocks_close(out_name, a, b, eps)
        else:
            same = a.shape == b.shape and (a.numel() == 0 or float((a.double() - b.double()).abs().max()) <= 64 * eps)
        if a.shape != b.shape or a.dtype != b.dtype or not same:
            ctx.fail(case, f"views: {case.get('fn')} {case.get('type', '')} on a view ({case['view']}) differs from the call on a contiguous clone ({case['dtype']})")
        if not torch.equal(vt, v0) or not torch.equal(whole, w0):
            ctx.fail(case, f"mutates: {case.get('fn')} {case.get('type', '')} modified its argument or the storage around the view ({case['view']}, {case['dtype']})")

    for name in U.GROUPS:
        for dtype in ("float64", "float32"):
            D = U.dt(dtype)
            src = {"SO3": "SE3", "SE3": "SE3", "RxSO3": "Sim3", "Sim3": "Sim3"}[name]
            Mc = elem(src, dtype, (2, 3)).matrix().clone()
            f = lambda m, name=name: p.from_matrix(m, U.ltype(name))
            base = {"stream": "views", "fn": "from_matrix", "type": name, "dtype": dtype}
            buf = torch.full((2, 3, 6, 7), 7.25, dtype=D)
            buf[..., 1:5, 2:6] = Mc
            check_view(base | {"view": "slice-of-buffer"}, f, buf[..., 1:5, 2:6], buf, name)
            check_view(base | {"view": "slice-3x4-of-buffer"}, f, buf[..., 1:4, 2:6], buf, name)
            cm = Mc.mT.contiguous().mT
            check_view(base | {"view": "column-major"}, f, cm, cm, name)
            ex = Mc[0, 0].expand(4, 4, 4)
            check_view(base | {"view": "expanded"}, f, ex, Mc, name)
            big = torch.stack([Mc, Mc.flip(0), Mc], 0)            # (3,2,3,4,4)
            check_view(base | {"view": "strided-batch"}, f, big[::2], big, name)
            pb = Mc.transpose(0, 1)                                  # (3,2,4,4) permuted batch axes
            check_view(base | {"view": "permuted-batch"}, f, pb, Mc, name)
            # LieTensor views for matrix() / euler()
            X = elem(name, dtype, (4, 5))
            for vn, V in (("slice", X[::2, 1:4]), ("permuted-batch", p.LieTensor(X.tensor().transpose(0, 1), ltype=X.ltype)),
                          ("expanded", p.LieTensor(X.tensor()[0, 0].expand(3, 2, U.GDIM[name]), ltype=X.ltype))):
                check_view({"stream": "views", "fn": "euler", "type": name, "dtype": dtype, "view": vn}, lambda v: v.euler(), V, X.tensor())
                check_view({"stream": "views", "fn": "matrix+from_matrix", "type": name, "dtype": dtype, "view": vn},
                           lambda v, name=name: p.from_matrix(v.matrix(), U.ltype(name)), V, X.tensor(), name)
    for dtype in ("float64", "float32"):
        D = U.dt(dtype)
        ang = torch.tensor([gen_euler_angles(rng, common.EPS[dtype]) for _ in range(12)], dtype=torch.float64).to(D)
        base = {"stream": "views", "fn": "euler2SO3", "dtype": dtype}
        wide = torch.full((12, 6), 0.5, dtype=D)
        wide[:, ::2] = ang
        check_view(base | {"view": "strided-last-axis"}, p.euler2SO3, wide[:, ::2], wide, "SO3")
        check_view(base | {"view": "expanded"}, p.euler2SO3, ang[0].expand(5, 3), ang, "SO3")
        g = ang.reshape(3, 4, 3)
        check_view(base | {"view": "slice"}, p.euler2SO3, g[1:, ::2], g, "SO3")
        check_view(base | {"view": "permuted-batch"}, p.euler2SO3, g.transpose(0, 1), g, "SO3")



# ----------------------------------------------------------------------------- pass 2: call forms, modes, duck types, copies, memory

SPECIAL_SHAPES = [(1,), (3,), (4,), (7,), (13,), (3, 3), (4, 4), (3, 4), (4, 3), (1, 1), (3, 1), (1, 4)]
FORMS = ([("from_matrix", None), ("direct", None), ("from_matrix_pos", None), ("direct_pos", None), ("from_matrix_pos1", None)]
         + [(a, g) for a in ("partial_fm", "partial_direct")
            for g in ([], ["check"], ["rtol"], ["atol"], ["check", "rtol"], ["check", "atol"], ["rtol", "atol"])])


def effective(form, check, rtol, atol):
    api, given = form
    if given is None:
        return api, ["check", "rtol", "atol"], check, rtol, atol
    v = {"check": check, "rtol": rtol, "atol": atol}
    for k_ in DEFAULTS:
        if k_ not in given:
            v[k_] = DEFAULTS[k_]
    return api, given, v["check"], v["rtol"], v["atol"]


def callform_corpus():
    """every public entry point x every way of passing (check, rtol, atol) — all keywords, all positional, mixed, each
    SUBSET of the keywords — x rtol != atol pairs whose two values straddle the deviation of the bad item (so a swapped or
    dropped argument flips the verdict) x check on/off, on a mixed batch of three; plus the same forms on valid batches
    with special sizes"""
    import random as _r
    rng = _r.Random(1311)
    out_rej, out_rt = [], []
    pairs = [(1e-2, 1e-5), (1e-6, 1e-3)]
    good = [([0.3, -1.2, 2.5], _norm([0.1, -0.4, 0.7, 0.58]), 2.0), ([1.0, 0.0, -1.0], [0.5, 0.5, -0.5, 0.5], 0.5),
            ([0.0, 3.0, 0.0], [0.0, math.sqrt(0.5), 0.0, -math.sqrt(0.5)], 30.0)]
    ci = 0
    for name in U.GROUPS:
        src = "Sim3" if name in ("Sim3", "RxSO3") else "SE3"
        for form in FORMS:
            for (rt, at) in pairs:
                for check in ((True, False) if ci % 3 == 0 else (True,)):
                    api, given, c_, r_, a_ = effective(form, check, rt, at)
                    lo, hi = sorted([max(a_, 1e-9), max(r_, 1e-9)])
                    mag = math.sqrt(lo * hi) if hi > lo * 10 else 3.0 * a_       # between the two tolerances
                    dtype = "float64" if ci % 4 else "float32"
                    if dtype == "float32" and min(a_, r_ + a_) < 1e-5:
                        dtype = "float64"
                    mats = []
                    pos = ci % 3
                    for i, (t, q, sc) in enumerate(good):
                        X = P().LieTensor(torch.tensor(rows_of(src, list(t), list(q), sc if src == "Sim3" else 1.0), dtype=torch.float64), ltype=U.ltype(src))
                        M = X.matrix().clone()
                        if i == pos:
                            M[:3, :3] = perturb(rng, M[:3, :3], "shear", mag)
                        mats.append(slice_layout(M, LAYOUTS[ci % 3]).to(U.dt(dtype)).double().tolist())
                    out_rej.append({"stream": "reject", "type": name, "dtype": dtype, "lay": LAYOUTS[ci % 3], "check": c_, "rtol": r_, "atol": a_,
                                    "api": api, "given": given, "kind": "shear", "factor": mag / max(a_, 1e-300), "bad_items": [pos], "mats": mats,
                                    "ci": ci, "corpus": True})
                    ci += 1
            # every argument the form leaves to its default: deviations at 0.3x / 3x of the EFFECTIVE tolerance, of a kind only
            # that argument's tolerance sees (diagonal: atol + rtol; off-diagonal: atol) — a changed default flips one of them
            if form[1] is not None:
                for kind_, fac_ in (("rowscale", 0.3), ("rowscale", 3.0), ("shear", 0.3), ("shear", 3.0)):
                    api, given, c_, r_, a_ = effective(form, True, 1e-5, 1e-5)
                    tol_ = (a_ + r_) / 2 if kind_ == "rowscale" else a_
                    t, q, sc = good[ci % 3]
                    X = P().LieTensor(torch.tensor(rows_of(src, list(t), list(q), sc if src == "Sim3" else 1.0), dtype=torch.float64), ltype=U.ltype(src))
                    M = X.matrix().clone()
                    M[:3, :3] = perturb(rng, M[:3, :3], kind_, tol_ * fac_)
                    out_rej.append({"stream": "reject", "type": name, "dtype": "float64", "lay": "44", "check": c_, "rtol": r_, "atol": a_,
                                    "api": api, "given": given, "kind": kind_, "factor": fac_, "bad_items": [0], "mats": [M.tolist()],
                                    "ci": ci, "corpus": True})
                    ci += 1
            # the same call form on valid input, special batch sizes
            api, given, c_, r_, a_ = effective(form, True, 1e-2, 1e-5)
            shape = SPECIAL_SHAPES[ci % len(SPECIAL_SHAPES)]
            dtype = ["float64", "float32"][ci % 2]
            n = int(math.prod(shape))
            qs = corner_quats()
            rows = [rows_of(src, good[i % 3][0], qs[(7 * i + ci) % len(qs)][0], [1.0, 1e-3, 1e3, 2.0][i % 4]) for i in range(n)]
            out_rt.append({"stream": "roundtrip", "type": name, "src": src, "dtype": dtype, "lay": LAYOUTS[ci % 3] if src != "SO3" else "33",
                           "shape": list(shape), "check": c_, "rtol": r_, "atol": a_, "api": api, "given": given,
                           "rows": U.to_dtype_exact(rows, dtype)[1].tolist(), "tags": ["corpus", "callform"], "ci": ci})
    # every special size for every type (both dtypes alternate), default call
    for name in U.GROUPS:
        src = {"SO3": "SO3", "SE3": "SE3", "RxSO3": "RxSO3", "Sim3": "Sim3"}[name]
        for k, shape in enumerate(SPECIAL_SHAPES):
            n = int(math.prod(shape))
            qs = corner_quats()
            rows = [rows_of(src, good[i % 3][0], qs[(5 * i + k) % len(qs)][0], [1.0, 0.01, 100.0][i % 3]) for i in range(n)]
            dtype = ["float64", "float32"][k % 2]
            out_rt.append({"stream": "roundtrip", "type": name, "src": src, "dtype": dtype, "lay": "33" if src == "SO3" else LAYOUTS[k % 3],
                           "shape": list(shape), "check": True, "rtol": 1e-5, "atol": 1e-5, "api": "defaults", "given": [],
                           "rows": U.to_dtype_exact(rows, dtype)[1].tolist(), "tags": ["corpus", "size"], "ci": k})
    return out_rt, out_rej


def run_modes(ctx: Ctx):
    """deterministic probes of pass 2: grad modes (12), duck-typed inputs (13), copies (14), outputs own their memory (15),
    atomic error paths (11) — each compared with the plain call on plain tensors"""
    import copy as _copy
    import pickle as _pickle
    import numpy as _np
    p = P()
    qs = corner_quats()
    for name in U.GROUPS:
        for dtype in ("float64", "float32"):
            D = U.dt(dtype)
            eps = common.EPS[dtype]
            rows = [rows_of(name, [0.5 * i, -1.0, 2.0 + i], qs[(11 * i + 3) % len(qs)][0], [1.0, 0.02, 50.0, 3.0][i % 4]) for i in range(4)]
            X = p.LieTensor(torch.tensor(rows, dtype=torch.float64).to(D), ltype=U.ltype(name))
            base = {"stream": "modes", "type": name, "dtype": dtype}
            f = lambda m, **kw: p.from_matrix(m, U.ltype(name), **kw)
            try:
                M = X.matrix().clone()
                ref = f(M).tensor()
                Mbad = M.clone()
                Mbad[1, :3, 0] = -Mbad[1, :3, 0]          # reflection in item 1
            except Exception as e:
                ctx.fail(base, f"raises: plain conversion of a valid {name} batch raised {type(e).__name__}: {str(e)[:100]}")
                continue

            def same(tag, fn, want=ref, exact=True, case_extra=None, km=None):
                case = base | {"variant": tag} | (case_extra or {})
                ctx.note_case(("modes", name, dtype, tag), True)
                ctx.count(f"modes.{tag.split(':')[0]}")
                try:
                    with warnings.catch_warnings():
                        warnings.simplefilter("ignore")
                        got = fn()
                except Exception as e:
                    ctx.fail(case, f"raises: {name} {tag} raised {type(e).__name__}: {str(e)[:110]} ({dtype})", known_matcher=km)
                    return None
                g = got.tensor() if hasattr(got, "ltype") else got
                g = g.detach()
                okv = g.shape == want.shape and g.dtype == want.dtype and (torch.equal(g, want) if exact else blocks_close(name, g, want, eps))
                if not okv:
                    ctx.fail(case, f"modes: {name} {tag} returns different values / shape / dtype than the plain call on plain tensors ({dtype})")
                return got

            def must_raise(tag, fn):
                case = base | {"variant": tag}
                ctx.note_case(("modes-raise", name, dtype, tag), True)
                try:
                    with warnings.catch_warnings():
                        warnings.simplefilter("ignore")
                        fn()
                    ctx.fail(case, f"accepts: a reflected matrix did not raise with check=True under {tag} ({name}, {dtype})")
                except ValueError:
                    pass
                except Exception as e:
                    ctx.fail(case, f"exctype: a reflected matrix raised {type(e).__name__} instead of ValueError under {tag} ({name}, {dtype})")

            # (12) grad modes
            same("grad:requires_grad-leaf", lambda: f(M.clone().requires_grad_(True)))
            same("grad:requires_grad-leaf-check-off", lambda: f(M.clone().requires_grad_(True), check=False))

            def _ng():
                with torch.no_grad():
                    return f(M.clone())
            same("grad:no_grad", _ng)

            def _inf():
                with torch.inference_mode():
                    return f(M.clone())
            same("grad:inference_mode", _inf)

            def _graph():
                Xg = X.clone().requires_grad_(True)
                return f(Xg.matrix())
            same("grad:in-graph", _graph)

            def _graph2():
                Mg = (M.clone().requires_grad_(True) * 1.0)
                return f(Mg)
            same("grad:non-leaf", _graph2)
            must_raise("grad:requires_grad", lambda: f(Mbad.clone().requires_grad_(True)))

            def _ngb():
                with torch.no_grad():
                    return f(Mbad.clone())
            must_raise("grad:no_grad", _ngb)
            must_raise("plain", lambda: f(Mbad.clone()))
            try:
                Eref = X.euler()
                same("grad:euler-requires_grad", lambda: X.clone().requires_grad_(True).euler(), want=Eref)

                def _eng():
                    with torch.no_grad():
                        return X.clone().euler()
                same("grad:euler-no_grad", _eng, want=Eref)

                def _einf():
                    with torch.inference_mode():
                        return p.LieTensor(X.tensor().clone(), ltype=X.ltype).euler()
                same("grad:euler-inference_mode", _einf, want=Eref)
                Qref = p.euler2SO3(Eref).tensor()
                same("grad:euler2SO3-requires_grad", lambda: p.euler2SO3(Eref.clone().requires_grad_(True)), want=Qref)

                def _e2ng():
                    with torch.no_grad():
                        return p.euler2SO3(Eref.clone())
                same("grad:euler2SO3-no_grad", _e2ng, want=Qref)
                # (13) duck-typed inputs
                same("duck:Parameter", lambda: f(torch.nn.Parameter(M.clone())))
                same("duck:numpy", lambda: f(M.numpy().copy()))
                f32 = f(M.float()).tensor() if dtype == "float32" else None
                if f32 is not None:     # python lists become float32 (torch.tensor default): same as the float32 tensor
                    same("duck:list", lambda: f(M.tolist()), want=f32)
                    same("duck:tuple", lambda: f(tuple(M.tolist())), want=f32)
                same("duck:direct-Parameter", lambda: fn_of(name)(torch.nn.Parameter(M.clone())))
                same("duck:ltype-attribute", lambda: p.from_matrix(M, X.ltype))
                same("duck:ltype-from-other-object", lambda: p.from_matrix(M, getattr(p, "identity_" + name)(1, dtype=D).ltype))
                same("duck:lie-Parameter.matrix", lambda: f(p.Parameter(X.clone()).matrix().detach()))
                same("duck:lie-Parameter.euler", lambda: p.Parameter(X.clone()).euler(), want=Eref)
                same("duck:functional-matrix", lambda: f(p.matrix(X)))
                same("duck:functional-euler", lambda: p.euler(X), want=Eref)
                same("duck:euler2SO3-numpy", lambda: p.euler2SO3(Eref.numpy().copy()), want=Qref)
                same("duck:euler2SO3-Parameter", lambda: p.euler2SO3(torch.nn.Parameter(Eref.clone())), want=Qref)
                if dtype == "float32":
                    same("duck:euler2SO3-list", lambda: p.euler2SO3(Eref.tolist()), want=Qref)
                    same("duck:euler2SO3-tuple", lambda: p.euler2SO3(tuple(Eref[0].tolist())), want=Qref[0])
                # (14) copies of the element: each copy follows the same law, also as the source of the ltype argument
                for how, mk in (("copy", lambda: _copy.copy(X)), ("deepcopy", lambda: _copy.deepcopy(X)),
                                ("pickle", lambda: _pickle.loads(_pickle.dumps(X)))):
                    try:
                        Y = mk()
                    except Exception as e:
                        ctx.fail(base | {"stream": "copies", "how": how}, f"raises: {how} of a {name} element raised {type(e).__name__}: {str(e)[:80]}")
                        continue
                    same(f"copies:{how}-euler", lambda: Y.euler(), want=Eref)
                    same(f"copies:{how}-matrix-roundtrip", lambda: f(Y.matrix()))
                    same(f"copies:{how}-ltype", lambda: p.from_matrix(M, Y.ltype), case_extra={"stream": "copies", "how": how, "fn": "from_matrix"})
                    Y.tensor().mul_(1.0)        # the copy is used, the original must be untouched
                    same(f"copies:{how}-original-after", lambda: f(X.matrix()))
            except Exception as e:
                ctx.fail(base, f"crash: pass-2 probe on {name} raised {type(e).__name__}: {str(e)[:120]} ({dtype})")

            # (15) outputs own their memory
            def owns(tag, out, args):
                case = base | {"variant": "memory:" + tag}
                ctx.note_case(("memory", name, dtype, tag), True)
                t = out.tensor() if hasattr(out, "ltype") else out
                bad = None
                if t.numel() > 1 and (torch._debug_has_internal_overlap(t) == 1 or any(st == 0 and sz > 1 for st, sz in zip(t.stride(), t.shape))):
                    bad = "overlaps internally (stride 0 / expanded)"
                for a in args:
                    if t.numel() and a.numel() and t.untyped_storage().data_ptr() == a.untyped_storage().data_ptr():
                        bad = "shares storage with its argument"
                if bad:
                    ctx.fail(case, f"memory: the result of {tag} ({name}, {dtype}) {bad}")
            try:
                for tag, mk, args in (("from_matrix", lambda: f(M), [M]), ("from_matrix(expanded)", lambda: f(M[0].expand(3, 4, 4) if M.shape[-1] == 4 else M[0].expand(3, 3, 3)), [M]),
                                      ("matrix", lambda: X.matrix(), [X.tensor()]), ("euler", lambda: X.euler(), [X.tensor()]),
                                      ("euler2SO3", lambda: p.euler2SO3(Eref), [Eref]),
                                      ("euler2SO3(expanded)", lambda: p.euler2SO3(Eref[0].expand(5, 3)), [Eref])):
                    a0 = [a.clone() for a in args]
                    out = mk()
                    owns(tag, out, args)
                    t = out.tensor() if hasattr(out, "ltype") else out
                    before = t.clone()
                    t[0].mul_(0.0).add_(7.0)                       # overwrite item 0 of the result in place
                    if t.shape[0] > 1 and not torch.equal(t[1:], before[1:]):
                        ctx.fail(base | {"variant": "memory:" + tag}, f"memory: writing item 0 of the result of {tag} changed other items ({name}, {dtype})")
                    if any(not torch.equal(a, b) for a, b in zip(args, a0)):
                        ctx.fail(base | {"variant": "memory:" + tag}, f"memory: writing into the result of {tag} changed the argument ({name}, {dtype})")
                    again = mk()
                    ta = again.tensor() if hasattr(again, "ltype") else again
                    if not torch.equal(ta, before):
                        ctx.fail(base | {"variant": "memory:" + tag}, f"memory: writing into the result of {tag} changed a later call ({name}, {dtype})")
            except Exception as e:
                ctx.fail(base, f"crash: memory probe on {name} raised {type(e).__name__}: {str(e)[:120]} ({dtype})")

            # (11) a failing call leaves nothing behind: valid call, failing calls of every kind, the valid call again
            try:
                r1 = f(M.clone(), rtol=1e-3, atol=1e-4).tensor()
                for bad_call in (lambda: f(Mbad.clone()), lambda: f(torch.zeros(2, 2, dtype=D)), lambda: p.from_matrix(M.clone(), None),
                                 lambda: f(M.clone() * float("nan")), lambda: f(torch.zeros_like(M)), lambda: p.euler2SO3(torch.zeros(2, 4, dtype=D))):
                    m_before = M.clone()
                    try:
                        with warnings.catch_warnings():
                            warnings.simplefilter("ignore")
                            bad_call()
                    except Exception:
                        pass
                    if not torch.equal(M, m_before):
                        ctx.fail(base | {"variant": "atomic"}, f"mutates: a failing call modified a tensor of the caller ({name}, {dtype})")
                    r2 = f(M.clone(), rtol=1e-3, atol=1e-4).tensor()
                    ctx.note_case(("atomic", name, dtype), True)
                    if not torch.equal(r1, r2):
                        ctx.fail(base | {"variant": "atomic"}, f"atomic: after a call that raised, the same valid {name} conversion returns a different result ({dtype})")
                        break
            except Exception as e:
                ctx.fail(base | {"variant": "atomic"}, f"raises: a valid {name} conversion around failing calls raised {type(e).__name__}: {str(e)[:100]} ({dtype})")




def run_mode_orders(ctx: Ctx):
    """(23) a module-level cache filled under one grad mode and read under another: for keys (entry point, dtype, batch
    length) that are fresh in the process, the same call under inference_mode / no_grad / autograd (with backward) in all six
    orders; every result must equal the per-item plain calls and the autograd call must back-propagate.
    (24) round-off of a single step inside a long history: X -> from_matrix(X.matrix()) repeated 40 times, every step held to
    the one-step bounds against the previous state (not to an n·eps drift allowance)."""
    import itertools
    p = P()
    qs = corner_quats()
    fresh = itertools.count(71)
    for name in U.GROUPS + ["euler2SO3", "euler"]:
        for dtype in ("float64", "float32"):
            D = U.dt(dtype)
            eps = common.EPS[dtype]
            for order in itertools.permutations(["inference", "no_grad", "autograd"]):
                n = next(fresh)                       # a batch length no other stream uses: the key is fresh for the first mode
                case = {"stream": "modes", "fn": name, "dtype": dtype, "order": list(order), "n": n}
                ctx.note_case(("mode-order", name, dtype, order), True)
                try:
                    if name in U.GROUPS:
                        rows = [rows_of(name, [0.1 * i, -1.0, 2.0], qs[(3 * i + n) % len(qs)][0], [1.0, 0.05, 20.0][i % 3]) for i in range(n)]
                        base = p.LieTensor(torch.tensor(rows, dtype=torch.float64).to(D), ltype=U.ltype(name)).matrix().clone()
                        f = lambda m: p.from_matrix(m, U.ltype(name)).tensor()
                    elif name == "euler2SO3":
                        base = torch.tensor([[0.01 * i - 1.0, 0.02 * i - 0.7, 2.0 - 0.03 * i] for i in range(n)], dtype=torch.float64).to(D)
                        f = lambda m: p.euler2SO3(m).tensor()
                    else:
                        base = torch.tensor([qs[(5 * i + n) % len(qs)][0] for i in range(n)], dtype=torch.float64).to(D)
                        f = lambda m: p.SO3(m).euler()
                    outs = {}
                    for mode in order:
                        with warnings.catch_warnings():
                            warnings.simplefilter("ignore")
                            if mode == "inference":
                                with torch.inference_mode():
                                    outs[mode] = f(base.clone()).clone()
                            elif mode == "no_grad":
                                with torch.no_grad():
                                    outs[mode] = f(base.clone())
                            else:
                                x = base.clone().requires_grad_(True)
                                o = f(x)
                                o.sum().backward()
                                if x.grad is None or not bool(torch.isfinite(x.grad).all()):
                                    ctx.fail(case, f"modes: {name} ({dtype}) after {order[:order.index(mode)]}: the autograd call has no finite gradient")
                                outs[mode] = o.detach()
                    samp = sorted({0, 1, n // 3, n // 2, n - 2, n - 1})
                    ref = torch.cat([f(base[i:i + 1].clone()) for i in samp], 0)
                    for mode, o in outs.items():
                        if tuple(o.shape[:1]) != (n,) or not bool(((o[samp].double() - ref.double()).abs().amax(-1) <= 4 * eps * max(1.0, float(ref.abs().max()))).all()):
                            ctx.fail(case, f"modes: {name} ({dtype}, {n} items) under {mode} in the order {list(order)} differs from the per-item plain calls")
                except Exception as e:
                    ctx.fail(case, f"raises: {name} ({dtype}, {n} items) in the mode order {list(order)} raised {type(e).__name__}: {str(e)[:120]}")
    # (24) every step of a conversion chain X -> from_matrix(X.matrix()) against the EXACT result of that step computed by the
    # model from the code's own previous state (16 eps per step — not an n·eps drift allowance). The round trip multiplies the
    # norm defect by (1 − c² + e)/(c² − e) ≤ ~3 per step (theorem `roundtrip_norm_amplification`), so the states stop being
    # valid elements after a few steps: the property's unit-norm oracle applies only while the input is unit to 1 ulp.
    for name in U.GROUPS:
        for dtype in ("float64", "float32"):
            D = U.dt(dtype)
            eps = common.EPS[dtype]
            rows = [rows_of(name, [0.3, -1.2, 2.5], qs[(7 * i + 2) % len(qs)][0], [1.0, 0.003, 700.0, 2.0][i % 4]) for i in range(8)]
            X = p.LieTensor(torch.tensor(rows, dtype=torch.float64).to(D), ltype=U.ltype(name))
            case = {"stream": "chain", "type": name, "dtype": dtype}
            try:
                for step in range(10):
                    with warnings.catch_warnings():
                        warnings.simplefilter("ignore")
                        M = X.matrix()
                        Y = p.from_matrix(M, U.ltype(name), check=False)
                    a, b = Y.tensor().double(), X.tensor().double()
                    c2 = {"type": name, "lay": "33" if name == "SO3" else "44", "check": False, "rtol": 1e-5, "atol": 1e-5, "api": "direct", "shape": [8]}
                    rep = ctx.driver.run([model_line(c2, M.double(), 8)])[0]
                    st, toks = common.parse_reply(rep)
                    if st != "ok":
                        ctx.disagree("chain", case | {"step": step}, f"model error {toks} at step {step}")
                        break
                    want = torch.tensor([float(common.from_wire(t)) for t in toks], dtype=torch.float64).reshape(8, U.GDIM[name])
                    dq = torch.minimum((a[:, U.QSL[name]] - want[:, U.QSL[name]]).norm(dim=-1), (a[:, U.QSL[name]] + want[:, U.QSL[name]]).norm(dim=-1)).max().item()
                    ds = ((a[:, U.SIDX[name]] - want[:, U.SIDX[name]]).abs() / want[:, U.SIDX[name]].abs()).max().item() if U.SIDX[name] is not None else 0.0
                    ts = U.TSL[name] is None or torch.equal(a[:, U.TSL[name]], want[:, U.TSL[name]])
                    valid_in = float((b[:, U.QSL[name]].norm(dim=-1) - 1).abs().max()) <= eps
                    un = (a[:, U.QSL[name]].norm(dim=-1) - 1).abs().max().item()
                    if valid_in and not un <= 8 * eps:
                        ctx.fail(case | {"step": step, "state": b.tolist()}, f"unit: step {step} of a conversion chain ({name}, {dtype}): input unit to 1 ulp, output |‖q‖−1| = {un:.3e} > 8 eps")
                    # on a state that is no longer unit the four candidates stop agreeing with each other (they agree only on exact rotation
                    # matrices): a legitimate other mask threshold may then differ from the model by the order of the input's norm defect
                    defect = float((b[:, U.QSL[name]].norm(dim=-1) - 1).abs().max())
                    lim_q = K_ROT * eps + 4 * max(0.0, defect - eps)
                    if not (dq <= lim_q and ds <= K_ROT * eps and ts):
                        ctx.disagree("chain", case | {"step": step, "state": b.tolist()},
                                     f"step {step} of a chain X -> from_matrix(X.matrix()) ({name}, {dtype}) differs from the exact result of that step: rotation {dq:.3e}, scale {ds:.3e}, translation equal={ts}")
                        break
                    X = Y
                ctx.note_case(("chain", name, dtype), True)
            except Exception as e:
                ctx.fail(case, f"raises: conversion chain ({name}, {dtype}) raised {type(e).__name__}: {str(e)[:100]}")


# ----------------------------------------------------------------------------- (32) interleaved histories with every other operation

def run_interleave(ctx: Ctx):
    """module-level constants written in place by ANOTHER operation: between two identical calls of the operations under test
    (matrix(), from_matrix, euler, euler2SO3 — unbatched, lshape (1,), (1,1) and batched, each dtype) run every other public
    LieTensor operation (Exp, Log, Inv, Mul, Act on 3- and 4-vectors, Adj, AdjT, Jinvp, Retr, Jr, rotation / translation / scale,
    identity constructors — forward AND backward, on single items and on batches). After EACH other operation the operations
    under test are repeated: bit-identical results, and the round trip from_matrix(X.matrix()) still reproduces X."""
    p = P()
    qs = corner_quats()
    for dtype in ("float64", "float32"):
        D = U.dt(dtype)
        eps = common.EPS[dtype]

        def elem(name, shape, k0=0):
            n = max(1, int(math.prod(shape)))
            rows = [rows_of(name, [0.4 * i + 0.1, -1.0, 2.0], qs[(7 * i + 5 + k0) % len(qs)][0], [1.5, 0.25, 3.0][i % 3]) for i in range(n)]
            return p.LieTensor(torch.tensor(rows, dtype=torch.float64).to(D).reshape(tuple(shape) + (U.GDIM[name],)), ltype=U.ltype(name))
        tests = []
        for name in U.GROUPS:
            for shape in ((), (1,), (1, 1), (3,)):
                X = elem(name, shape)
                tests.append((f"{name}{shape}.matrix", X, lambda X=X: X.matrix()))
                tests.append((f"{name}{shape}.roundtrip", X, lambda X=X, name=name: p.from_matrix(X.matrix(), U.ltype(name)).tensor()))
                tests.append((f"{name}{shape}.euler", X, lambda X=X: X.euler()))
                tests.append((f"{name}{shape}.Log.matrix", X, lambda X=X: X.Log().matrix()))
        ang = torch.tensor([[0.3, -0.7, 1.9]], dtype=D)
        tests.append(("euler2SO3", None, lambda: p.euler2SO3(ang).tensor()))
        try:
            with warnings.catch_warnings():
                warnings.simplefilter("ignore")
                ref = [f() for _, _, f in tests]
        except Exception as e:
            ctx.fail({"stream": "interleave", "dtype": dtype}, f"raises: an operation under test raised {type(e).__name__} before any interleaving: {str(e)[:100]}")
            continue
        for (tname, _, _), r0 in zip(tests, ref):
            if not bool(torch.isfinite(r0).all()):
                ctx.fail({"stream": "interleave", "dtype": dtype, "test": tname}, f"non-finite result: {tname} on a valid element ({dtype})")
        # the round-trip reference itself must be right (property oracle), so that "unchanged" means "still right"
        others = []
        for name in U.GROUPS:
            for shape in ((), (1,), (1, 1), (2,)):
                def ops(name=name, shape=shape):
                    X = elem(name, shape, 3)
                    Y = elem(name, shape, 11)
                    a = X.Log()
                    p3 = torch.tensor([0.3, -0.2, 0.9], dtype=D).expand(tuple(shape) + (3,)).clone()
                    p4 = torch.tensor([0.3, -0.2, 0.9, 1.0], dtype=D).expand(tuple(shape) + (4,)).clone()
                    yield "Adj", lambda: X.Adj(a)
                    yield "AdjT", lambda: X.AdjT(a)
                    yield "Act3", lambda: X.Act(p3)
                    yield "Act4", lambda: X.Act(p4)
                    yield "Mul", lambda: X @ Y
                    yield "Inv", lambda: X.Inv()
                    yield "Log", lambda: X.Log()
                    yield "Exp", lambda: a.Exp()
                    yield "Jinvp", lambda: X.Jinvp(a)
                    yield "Retr", lambda: X.Retr(a)
                    yield "rotation", lambda: X.rotation().tensor()
                    yield "identity_like", lambda: p.identity_like(X).tensor()
                    if name == "SO3":
                        yield "Jr", lambda: a.Jr()
                    for nm, fn in (("Adj", lambda Z: Z.Adj(a)), ("AdjT", lambda Z: Z.AdjT(a)), ("Act3", lambda Z: Z.Act(p3)), ("Act4", lambda Z: Z.Act(p4)),
                                   ("Mul", lambda Z: Z @ Y), ("Inv", lambda Z: Z.Inv()), ("Log", lambda Z: Z.Log()), ("matrix", lambda Z: Z.matrix()),
                                   ("Jinvp", lambda Z: Z.Jinvp(a))):
                        def bw(fn=fn):
                            Z = X.clone().requires_grad_(True)
                            o = fn(Z)
                            o = o.tensor() if hasattr(o, "ltype") else o
                            o.sum().backward()
                            return Z.grad
                        yield nm + ".backward", bw
                    def bwexp():
                        z = a.clone().requires_grad_(True)
                        z.Exp().tensor().sum().backward()
                        return z.grad
                    yield "Exp.backward", bwexp
                others.append((name, shape, ops))
        poisoned = False
        for name, shape, ops in others:
            if poisoned:
                break
            for opname, fn in ops():
                try:
                    with warnings.catch_warnings():
                        warnings.simplefilter("ignore")
                        fn()
                except Exception:
                    ctx.count("interleave.other-op-raised")      # not this property's business (C03–C05 decide it)
                    continue
                ctx.count("interleave.other-ops")
                last_of_block = opname == "Exp.backward"
                for (tname, X, f), r0 in zip(tests, ref):
                    # after every single operation: the unbatched round trips (they go through matrix()) and one algebra matrix; after
                    # the last operation of each (type, shape) block: every operation under test
                    if not last_of_block and not (tname.endswith("().roundtrip") or tname == "Sim3().Log.matrix"):
                        continue
                    case = {"stream": "interleave", "dtype": dtype, "after": f"{name}{tuple(shape)}.{opname}", "test": tname}
                    try:
                        with warnings.catch_warnings():
                            warnings.simplefilter("ignore")
                            r1 = f()
                    except Exception as e:
                        ctx.fail(case, f"raises: {tname} raised {type(e).__name__} after {case['after']} ({dtype}): {str(e)[:90]}")
                        poisoned = True
                        break
                    if r1.shape != r0.shape or not torch.equal(torch.nan_to_num(r1), torch.nan_to_num(r0)):
                        err = float((r1.double() - r0.double()).abs().max()) if r1.shape == r0.shape else float("nan")
                        extra = ""
                        if tname.endswith(".roundtrip") and X is not None:
                            tn = tname.split("(")[0].split("[")[0]
                            extra = " — and the round trip no longer reproduces X"
                        ctx.fail(case, f"state: {tname} ({dtype}) returns a different result (max abs diff {err:.3e}) after the unrelated operation {case['after']} "
                                       f"than before it{extra}")
                        poisoned = True
                        break
                ctx.note_case(("interleave", dtype, name, tuple(shape), opname), True)
                if poisoned:
                    break
        # independent of "unchanged": the round trips computed LAST must still reproduce X (property oracle)
        for (tname, X, f), r0 in zip(tests, ref):
            if tname.endswith(".roundtrip"):
                name = [g for g in U.GROUPS if tname.startswith(g + "(")][-1] if any(tname.startswith(g + "(") for g in U.GROUPS) else None
                if name is None:
                    continue
                try:
                    with warnings.catch_warnings():
                        warnings.simplefilter("ignore")
                        y = f().double().reshape(-1, U.GDIM[name])
                except Exception:
                    continue
                x = X.tensor().double().reshape(-1, U.GDIM[name])
                dq = torch.minimum((y[:, U.QSL[name]] - x[:, U.QSL[name]]).norm(dim=-1), (y[:, U.QSL[name]] + x[:, U.QSL[name]]).norm(dim=-1)).max().item()
                if not dq <= K_ROT * eps:
                    ctx.fail({"stream": "interleave", "dtype": dtype, "test": tname, "X": x.tolist()},
                             f"rotation: after the interleaved history from_matrix(X.matrix()) differs from X by {dq:.3e} > 16 eps ({tname}, {dtype})")


# ----------------------------------------------------------------------------- (30) every dtype the entry points accept

def run_dtypes(ctx: Ctx):
    """beyond float32 / float64: float16, bfloat16 (matrices of exactly representable rotations and rounded generic ones), integer /
    bool / complex inputs. Scope rule: what the clean tree refuses (narrow integers for the matrix converters, check=True in half
    precision: LAPACK kernels missing) is only COUNTED; whatever is accepted must have the right VALUE (the property's bounds at the
    eps of that dtype) and DTYPE (floating inputs keep their dtype; integer angles give the default float dtype)."""
    p = P()
    qs = [q for q, _ in corner_quats()]
    exact = octahedral_quats()[:24:3] + [[0.5, -0.5, 0.5, 0.5]]
    for dtname, D, eps in (("float16", torch.float16, 2.0 ** -10), ("bfloat16", torch.bfloat16, 2.0 ** -7)):
        import random as _r
        g_ = _r.Random(30)
        generic = [_norm([g_.gauss(0, 1) for _ in range(4)]) for _ in range(150)]
        for label, quats in (("exact", exact), ("rounded", qs[48:] + generic)):
            q64 = torch.tensor(quats, dtype=torch.float64)
            qd = q64.to(D)
            case = {"stream": "dtypes", "dtype": dtname, "set": label}
            for fname, call, check in (("matrix", lambda: p.SO3(qd).matrix(), None),
                                       ("mat2SO3", lambda: p.mat2SO3(p.SO3(qd).matrix(), check=False), "q"),
                                       ("from_matrix SE3", lambda: p.from_matrix(p.SE3(torch.cat([torch.ones(len(quats), 3, dtype=D), qd], -1)).matrix(), p.SE3_type, check=False), "se3"),
                                       ("euler", lambda: p.SO3(qd).euler(), "euler"), ("euler2SO3", lambda: p.euler2SO3(p.SO3(qd).euler()), "e2q")):
                ctx.note_case(("dtypes", dtname, label, fname), True)
                try:
                    with warnings.catch_warnings():
                        warnings.simplefilter("ignore")
                        out = call()
                except Exception as e:
                    ctx.count(f"dtypes.{dtname}.{fname}.refused")
                    continue
                ctx.count(f"dtypes.{dtname}.{fname}.accepted")
                t = out.tensor() if hasattr(out, "ltype") else out
                if t.dtype != D:
                    ctx.fail(case | {"fn": fname}, f"dtype: {fname} on {dtname} input returned {t.dtype}")
                    continue
                t64 = t.double()
                x = qd.double()
                if not bool(torch.isfinite(t64).all()):
                    ctx.fail(case | {"fn": fname}, f"finite: {fname} on {dtname} input returned non-finite values ({label})")
                    continue
                if fname == "matrix":
                    refm = p.SO3(x).matrix()
                    dm = float((t64 - refm).abs().max())
                    if not dm <= (0.0 if label == "exact" else 8 * eps):
                        ctx.fail(case | {"fn": fname}, f"matrix: matrix() in {dtname} differs from the float64 matrix of the same quaternions by {dm:.3e} ({label} inputs)")
                if check in ("q", "se3"):
                    qq = t64[:, -4:] if check == "se3" else t64
                    dq = torch.minimum((qq - x).norm(dim=-1), (qq + x).norm(dim=-1)).max().item()
                    tol_ = 0.0 if label == "exact" else K_ROT * eps
                    if not dq <= tol_ + (4 * eps if label == "exact" else 0.0):
                        ctx.fail(case | {"fn": fname}, f"rotation: {fname} on {dtname} matrices differs from X by {dq:.3e} > {tol_ + (4 * eps if label == 'exact' else 0.0):.3e} ({label} inputs)")
                    un = float((qq.norm(dim=-1) - 1).abs().max())
                    if not un <= 8 * eps:
                        ctx.fail(case | {"fn": fname}, f"unit: {fname} on {dtname} matrices returns |‖q‖−1| = {un:.3e} > 8 eps")
                    if check == "se3" and not torch.equal(t64[:, :3], torch.ones(len(quats), 3, dtype=torch.float64)):
                        ctx.fail(case | {"fn": fname}, f"translation: {fname} on {dtname} matrices does not copy the translation")
                elif check == "e2q":
                    t2 = 2 * (x[:, 3] * x[:, 1] - x[:, 2] * x[:, 0]) / (x * x).sum(-1)
                    reg = t2.abs() < 1 - 2e-4 - 64 * eps
                    dq = torch.minimum((t64 - x).norm(dim=-1), (t64 + x).norm(dim=-1))
                    lim = K_ROT * eps / (1 - t2 * t2).clamp_min(1e-4).sqrt()      # measured worst case on the clean tree: 1.5 eps / cos pitch
                    if bool((reg & ~(dq <= lim)).any()):
                        i = int((reg & ~(dq <= lim)).nonzero()[0])
                        ctx.fail(case | {"fn": fname, "q": x[i].tolist()}, f"converse: euler2SO3(X.euler()) in {dtname} differs from X by {float(dq[i]):.3e} > {float(lim[i]):.3e}")
    # integer / bool angle tensors: same values as the default float dtype, result in the default float dtype
    for D in (torch.int64, torch.int32, torch.int16, torch.int8, torch.uint8):
        a = torch.tensor([[1, 0, 2], [0, 1, 1], [3, 1, 0]], dtype=D)
        case = {"stream": "dtypes", "dtype": str(D), "fn": "euler2SO3"}
        ctx.note_case(("dtypes", str(D), "euler2SO3"), True)
        try:
            with warnings.catch_warnings():
                warnings.simplefilter("ignore")
                out = p.euler2SO3(a).tensor()
                ref = p.euler2SO3(a.to(torch.get_default_dtype())).tensor()
        except Exception:
            ctx.count(f"dtypes.{D}.euler2SO3.refused")
            continue
        ctx.count(f"dtypes.{D}.euler2SO3.accepted")
        if out.dtype != ref.dtype or not bool(((out - ref).abs() <= 4 * common.EPS["float32"]).all()):
            ctx.fail(case, f"dtype: euler2SO3 of an integer angle tensor ({D}) returns {out.dtype} / values different from the float call")


# ----------------------------------------------------------------------------- large batches (block / chunk boundaries)

def run_large(ctx: Ctx):
    """batches of 2^k, 2^k±1 items (one > 2^14 and one > 2^16 per entry point in quick, more in thorough), several shapes
    with that count. Oracles that do not need the model on 10^5 items: split consistency f(x) == cat(f(x[:a]), f(x[a:])) bit
    for bit, f(x)[i] == f(x[i:i+1]) for first / last / random items (per block to 4 eps: 1-ulp kernel differences between
    the SIMD body and the scalar tail are not defects), the property's vectorised statement on every item,
    and the model on a sample that includes the LAST item."""
    p = P()
    sizes = ([4095, 4096, 16385, 65537, 2 ** 17 + 1] if ctx.quick else
             [1023, 4095, 4096, 4097, 8193, 16384, 16385, 32769, 65535, 65536, 65537, 131073, 2 ** 18 + 1, 2 ** 18 + 37, 2 ** 20 + 1])
    rs = ctx.rng.choice([2 ** 12 + 1, 2 ** 13 - 1, 2 ** 15, 2 ** 15 + 1])       # one more, seed dependent
    lines, metas = [], []
    for n in sizes + [rs]:
        g = torch.Generator().manual_seed(1000003 + n)
        for name in U.GROUPS + ["euler2SO3", "euler"]:
            dtype = "float64" if (n + len(name)) % 3 else "float32"
            D = U.dt(dtype)
            eps = common.EPS[dtype]
            shape = (n,)
            for a_ in (256, 17, 4):
                if n % a_ == 0 and (n // a_) % 2 == 0:
                    shape = (a_, n // a_)
                    break
            case = {"stream": "large", "fn": name, "n": n, "shape": list(shape), "dtype": dtype}
            ctx.note_case(("large", name, n, dtype), True)
            ctx.count(f"large.n={n}")
            try:
                q = torch.randn(n, 4, generator=g, dtype=torch.float64)
                q[-1] = torch.tensor([0.0, 1.0, 0.0, 1e-9])                    # the LAST item: angle pi (w ~ 0)
                q[0] = torch.tensor([0.5, 0.5, -0.5, 0.5])
                q[n // 2] = torch.tensor([0.0, math.sqrt(0.5), 0.0, math.sqrt(0.5)])   # gimbal lock in the middle
                q = q / q.norm(dim=-1, keepdim=True)
                t = torch.randn(n, 3, generator=g, dtype=torch.float64) * 10
                sc = torch.exp(torch.rand(n, 1, generator=g, dtype=torch.float64) * 13.8 - 6.9)    # 1e-3 .. 1e3
                if name in U.GROUPS:
                    rows = {"SO3": q, "SE3": torch.cat([t, q], -1), "RxSO3": torch.cat([q, sc], -1), "Sim3": torch.cat([t, q, sc], -1)}[name].to(D)
                    X = p.LieTensor(rows.reshape(shape + (U.GDIM[name],)), ltype=U.ltype(name))
                    arg = X.matrix().clone()
                    item_shape = tuple(arg.shape[-2:])
                    f = lambda m: p.from_matrix(m, U.ltype(name)).tensor()
                    flat = lambda m: m.reshape((-1,) + item_shape)
                elif name == "euler2SO3":
                    ang = (torch.rand(n, 3, generator=g, dtype=torch.float64) * 2 - 1) * torch.tensor([math.pi, math.pi / 2, math.pi])
                    ang[-1] = torch.tensor([math.pi, -math.pi / 2, -math.pi])
                    arg = ang.to(D).reshape(shape + (3,))
                    item_shape = (3,)
                    f = lambda m: p.euler2SO3(m).tensor()
                    flat = lambda m: m.reshape(-1, 3)
                else:
                    arg = q.to(D).reshape(shape + (4,))
                    item_shape = (4,)
                    f = lambda m: p.SO3(m).euler()
                    flat = lambda m: m.reshape(-1, 4)
                with warnings.catch_warnings():
                    warnings.simplefilter("ignore")
                    out = f(arg)
                    od = out.shape[-1]
                    if tuple(out.shape[:-1]) != shape or out.dtype != arg.dtype:
                        ctx.fail(case, f"type: {name} on a batch of {n} items (lshape {shape}) returned shape {tuple(out.shape)} dtype {out.dtype}")
                        continue
                    of = out.reshape(-1, od)
                    af = flat(arg)
                    # split consistency (on the flat batch) for several cut points
                    def differs(a_, b_):
                        """items where two evaluations of the same inputs differ by more than kernel rounding (vectorised det / pow /
                        sin / atan2 round differently in the SIMD body and the scalar tail: 1 ulp is not a defect): per block, 4 eps"""
                        a_, b_ = a_.double(), b_.double()
                        if name in U.GROUPS:
                            bad_ = ~((a_[:, U.QSL[name]] - b_[:, U.QSL[name]]).abs().amax(-1) <= 4 * eps)        # NaN-safe: not (err <= tol)
                            if U.SIDX[name] is not None:
                                bad_ |= ~(((a_[:, U.SIDX[name]] - b_[:, U.SIDX[name]]).abs() / b_[:, U.SIDX[name]].abs()) <= 4 * eps)
                            if U.TSL[name] is not None:
                                bad_ |= (a_[:, U.TSL[name]] != b_[:, U.TSL[name]]).any(-1)
                            return bad_ | ~torch.isfinite(a_).all(-1)
                        return ~((a_ - b_).abs().amax(-1) <= 4 * eps * math.pi)
                    for cut in sorted({1, n // 2, n - 1, 2 ** int(math.log2(n)), 4096} & set(range(1, n))):
                        parts = torch.cat([f(af[:cut].clone()), f(af[cut:].clone())], 0)
                        if parts.shape != of.shape or bool(differs(parts, of).any()):
                            i = int(differs(parts, of).nonzero()[0]) if parts.shape == of.shape else -1
                            ctx.fail(case | {"cut": cut, "item": i}, f"split: {name} of {n} items ({dtype}) differs from cat(f(x[:{cut}]), f(x[{cut}:])) at item {i}: "
                                                                       f"whole {of[i].tolist()} vs parts {parts[i].tolist()}")
                            break
                    # first / last / random items and the LAST n % 2^k items for several k (a block loop that drops its remainder)
                    idx = sorted({0, 1, n // 2, n - 2, n - 1} | {ctx.rng.randrange(n) for _ in range(3)}
                                 | {n - 1 - ((n % 2 ** k_) // 2) for k_ in (6, 10, 12, 14, 16, 18) if n % 2 ** k_}
                                 | {n - (n % 2 ** k_) for k_ in (6, 10, 12, 14, 16, 18) if 0 < n % 2 ** k_ < n})
                    for i in idx:
                        one = f(af[i:i + 1].clone())[0]
                        if bool(differs(one[None], of[i][None]).any()):
                            ctx.fail(case | {"item": i}, f"item: {name} of {n} items ({dtype}): item {i} of the batched result {of[i].tolist()} differs from the call on that item alone {one.tolist()}")
                            break
                    # the property's statement on every item, vectorised
                    o64 = of.double()
                    if not bool(torch.isfinite(o64).all()):
                        i = int((~torch.isfinite(o64).all(dim=-1)).nonzero()[0])
                        ctx.fail(case | {"item": i}, f"finite: {name} of {n} items ({dtype}): item {i} of the result is not finite")
                        continue
                    if name in U.GROUPS:
                        r64 = rows.double()
                        qY, qX = o64[:, U.QSL[name]], r64[:, U.QSL[name]]
                        dq = torch.minimum((qY - qX).norm(dim=-1), (qY + qX).norm(dim=-1))
                        un = (qY.norm(dim=-1) - 1).abs()
                        bad_i = None
                        if not bool((dq <= K_ROT * eps).all()):
                            bad_i, what = int(dq.argmax()), f"quaternion differs from X by {float(dq.max()):.3e} > 16 eps"
                        elif not bool((un <= 8 * eps).all()):
                            bad_i, what = int(un.argmax()), f"|‖q‖−1| = {float(un.max()):.3e} > 8 eps"
                        elif U.SIDX[name] is not None and not bool((((o64[:, U.SIDX[name]] - r64[:, U.SIDX[name]]).abs() / r64[:, U.SIDX[name]]) <= K_ROT * eps).all()):
                            ds = (o64[:, U.SIDX[name]] - r64[:, U.SIDX[name]]).abs() / r64[:, U.SIDX[name]]
                            bad_i, what = int(ds.argmax()), f"relative scale error {float(ds.max()):.3e} > 16 eps"
                        elif U.TSL[name] is not None and not torch.equal(o64[:, U.TSL[name]], af[:, :3, 3].double()):
                            bad_i, what = int((o64[:, U.TSL[name]] != af[:, :3, 3].double()).any(dim=-1).nonzero()[0]), "translation is not the last column of the input"
                        if bad_i is not None:
                            ctx.fail(case | {"item": bad_i, "row": r64[bad_i].tolist()}, f"large: {name} of {n} items ({dtype}), item {bad_i}: {what}")
                        samp = sorted({0, n // 2, n - 1, ctx.rng.randrange(n)})
                        c2 = {"type": name, "lay": "33" if name == "SO3" else "44", "check": True, "rtol": 1e-5, "atol": 1e-5, "api": "defaults", "ci": 1, "shape": [len(samp)]}
                        lines.append(model_line(c2, af[samp].double(), len(samp)))
                        metas.append((case, name, dtype, o64[samp], samp))
                    elif name == "euler2SO3":
                        back = p.SO3(of).matrix().double()
                        a64 = af.double()
                        cr, sr, cp, sp, cy, sy = a64[:, 0].cos(), a64[:, 0].sin(), a64[:, 1].cos(), a64[:, 1].sin(), a64[:, 2].cos(), a64[:, 2].sin()
                        ref = torch.stack([torch.stack([cy * cp, cy * sp * sr - sy * cr, cy * sp * cr + sy * sr], -1),
                                           torch.stack([sy * cp, sy * sp * sr + cy * cr, sy * sp * cr - cy * sr], -1),
                                           torch.stack([-sp, cp * sr, cp * cr], -1)], -2)
                        dm = (back - ref).abs().amax(dim=(-1, -2))
                        if not bool((dm <= K_ROT * eps).all()):
                            i = int(dm.argmax())
                            ctx.fail(case | {"item": i, "angles": a64[i].tolist()}, f"large: euler2SO3 of {n} items ({dtype}), item {i}: matrix differs from Rz·Ry·Rx by {float(dm.max()):.3e} > 16 eps")
                    else:
                        q64 = af.double()
                        t2 = 2 * (q64[:, 3] * q64[:, 1] - q64[:, 2] * q64[:, 0]) / (q64 * q64).sum(-1)
                        reg = t2.abs() < 1 - 2e-4 - 64 * eps
                        back = p.euler2SO3(of).tensor().double()
                        dq = torch.minimum((back - q64).norm(dim=-1), (back + q64).norm(dim=-1))
                        lim = K_ROT * eps / (1 - t2 * t2).clamp_min(1e-6).sqrt()
                        badm = reg & ~(dq <= lim)
                        if bool(badm.any()):
                            i = int(badm.nonzero()[0])
                            ctx.fail(case | {"item": i, "q": q64[i].tolist()}, f"large: euler() of {n} items ({dtype}), item {i}: euler2SO3(X.euler()) differs from X by {float(dq[i]):.3e} > 16 eps / cos pitch")
            except Exception as e:
                ctx.fail(case, f"raises: {name} on a batch of {n} items (lshape {shape}, {dtype}) raised {type(e).__name__}: {str(e)[:120]}")
    reps = ctx.driver.run(lines)
    for rep, (case, name, dtype, got, samp) in zip(reps, metas):
        eps = common.EPS[dtype]
        st, toks = common.parse_reply(rep)
        if st != "ok":
            ctx.disagree("large", case, f"model rejects ({toks}) sampled items {samp} of a valid batch")
            continue
        want = torch.tensor([float(common.from_wire(t)) for t in toks], dtype=torch.float64).reshape(len(samp), U.GDIM[name])
        dq = torch.minimum((got[:, U.QSL[name]] - want[:, U.QSL[name]]).norm(dim=-1), (got[:, U.QSL[name]] + want[:, U.QSL[name]]).norm(dim=-1))
        okk = bool((dq <= K_ROT * eps).all())
        if U.SIDX[name] is not None:
            okk &= bool((((got[:, U.SIDX[name]] - want[:, U.SIDX[name]]).abs() / want[:, U.SIDX[name]].abs()) <= K_ROT * eps).all())
        if U.TSL[name] is not None:
            okk &= torch.equal(got[:, U.TSL[name]], want[:, U.TSL[name]])
        if not okk:
            ctx.disagree("large", case | {"items": samp}, f"{name} of {case['n']} items ({dtype}): sampled items {samp} (incl. the last) differ from the model: q {float(dq.max()):.3e}")


# ----------------------------------------------------------------------------- entry points

def guarded(ctx: Ctx, name, fn, *a):
    """a stream must never die on a value of the implementation (exit 2 would hide a violation): a non-finite value reaching the
    wire, or an exception raised inside pypose outside the per-case handlers, becomes a failure of that stream"""
    import traceback
    try:
        fn(ctx, *a)
    except common.InfraError:
        raise
    except Exception as e:
        tb = traceback.format_exc()
        if "non-finite on the wire" in str(e) or "/pypose/" in tb:
            ctx.fail({"stream": name, "exception": repr(e)[:200]}, f"non-finite result / crash: stream `{name}` met a non-finite value or an exception of the implementation "
                                                                   f"outside a per-case handler: {type(e).__name__}: {str(e)[:120]}")
        else:
            raise


def run(ctx: Ctx):
    torch.set_num_threads(1)     # tiny tensors everywhere; on the shared box OpenMP spin-waits cost minutes (LU of 65537 3x3 blocks)
    from . import util_lie as _UL
    def _reads(name):
        return {"euler": lambda o: o.euler(), "matrix": lambda o: o.matrix(),
                "from_matrix": lambda o: _UL.pp().from_matrix(o.matrix(), o.ltype, check=False).matrix()}
    _UL.persistent_probe(ctx, _reads)
    guarded(ctx, "run_corpus", run_corpus)          # deterministic corner corpus first: detection never depends on the seed
    guarded(ctx, "run_history", run_history)
    guarded(ctx, "run_modes", run_modes)
    guarded(ctx, "run_mode_orders", run_mode_orders)
    guarded(ctx, "run_interleave", run_interleave)
    guarded(ctx, "run_dtypes", run_dtypes)
    guarded(ctx, "run_large", run_large)
    guarded(ctx, "run_dispatch", run_dispatch)
    guarded(ctx, "run_kernel", run_kernel, ctx.pick(150, 1500))
    guarded(ctx, "run_roundtrip", run_roundtrip, ctx.pick(350, 9000))
    guarded(ctx, "run_reject", run_reject, ctx.pick(320, 6000))
    guarded(ctx, "run_euler", run_euler, ctx.pick(300, 7000))
    guarded(ctx, "run_warn", run_warn, ctx.pick(80, 800))


def search(ctx: Ctx):
    """only after a proof / the correspondence broke: hunt harder for an input on which the property's own
    statement fails on the real code (the oracles inside the prep_* functions do that)"""
    n0 = len(ctx.disagreements)
    run_roundtrip(ctx, 1500)
    run_reject(ctx, 1000)
    run_euler(ctx, 1500)
    del ctx.disagreements[n0:]      # the search reports failing inputs only


def replay(ctx: Ctx, case) -> bool:
    c = dict(case["case"])
    n0 = len(ctx.failures)
    prep = {"roundtrip": prep_roundtrip, "reject": prep_reject, "euler": prep_euler}.get(c.get("stream"))
    if c.get("stream") in ("history", "stale", "views"):
        print("  (the deterministic history / stale-read / view probes are re-run as a whole)")
        run_history(ctx)
    elif c.get("stream") == "persistent":
        from . import util_lie as _UL
        _UL.persistent_probe(ctx, lambda name: {"euler": lambda o: o.euler(), "matrix": lambda o: o.matrix(),
                                                "from_matrix": lambda o: _UL.pp().from_matrix(o.matrix(), o.ltype, check=False).matrix()})
    elif prep is None:
        print("  (streams warn/dispatch/kernel are re-run as a whole)")
        run_dispatch(ctx)
        run_warn(ctx, 80)
    else:
        res = prep(ctx, c)
        if res and res[1] is not None:
            res[1](ctx.driver.run(res[0]))
    for f in ctx.failures[n0:]:
        print("  fails:", f["what"])
    for d in ctx.disagreements:
        print("  model/implementation disagreement:", d["detail"][:400])
    return len(ctx.failures) == n0 and not ctx.disagreements
