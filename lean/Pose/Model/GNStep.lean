import Pose.Model.Lie
/-!
# Model of one `GaussNewton.step` / `LevenbergMarquardt.step` (dense path) of `pypose/optim/optimizer.py`

What is modelled, with the same order of operations as the code:

* `RobustModel.flatten_row_jacobian` : `torch.cat([j.reshape(-1, p.numel()) for j, p in zip(J, params) if
  p.requires_grad], 1)` — `flattenRowJac` (`hcat` of the kept blocks);
* the corrector dispatch of `step` (`corrector[0] if len(corrector) == 1 else corrector[i]`) — `pickCorrector`,
  `correctAll`; the corrector itself is a *parameter* (property C09 is about its formulas);
* `RobustModel.normalize_RWJ` : the shape arithmetic that turns a weight tensor into a list of blocks
  (`ni`, the `d = 1` special case, `view(-1, h, w)`, `ws * int(ni)`), `torch.block_diag`, `torch.cat(R)`,
  `torch.cat(J)` — `wblocks`, `blockDiag`, `catR`, `catJ`;
* `GaussNewton.step` : `A, b = (J, -R) if weight is None else (weight @ J, -weight @ R)` — `gnA`, `gnb`;
* `LevenbergMarquardt.step` : `J_T = J.T @ weight`, `A = J_T @ J`, `A.diagonal().clamp_(min, max)`, and in trial
  `k` `A.diagonal().add_(A.diagonal() * damping_k)`, `b = -J_T @ R` — `lmJT`, `lmA0`, `dampDiag`, `lmAk`, `lmb`;
* `_Optimizer.update_parameter` : `step.split([p.numel() for p in params if p.requires_grad])`, then
  `p.add_(d.view(p.shape))` for the parameters that require grad, with `LieType.add_` per kind
  (Euclidean tensor / Lie algebra: `+`; Lie group: `Exp(d[..., :m]) * X` item-wise) — `updateParams`, `stepUpdate`.

Parameters with contracts (never re-implemented): the Jacobian blocks returned by `modjac` (property C04),
the correctors (C09), the linear solver (C10), the strategy and the accept/reject loop (C08).

A vector is an index function `Nat → α`, a matrix `Nat → Nat → α` (only in-range indices matter); sizes travel
separately.  Errors of the real code (`IndexError`, failed `assert`, shape mismatch in `@`, `split` with sizes
that do not add up) are `none`.
-/
namespace PP.GNStep
open PP
variable {α : Type} [Scalar α]

abbrev Vec (α : Type) := Nat → α
abbrev Mat (α : Type) := Nat → Nat → α

/-- `Σ_{i<n} f i`, accumulated left to right -/
def sumN : Nat → (Nat → α) → α
  | 0, _ => k 0
  | n+1, f => sumN n f + f n

def total : List Nat → Nat
  | [] => 0
  | n :: ns => n + total ns

def prod : List Nat → Nat
  | [] => 1
  | n :: ns => n * prod ns

/-- position of the flat index `c` inside consecutive segments of lengths `ns`: `(segment, offset)` -/
def locate : List Nat → Nat → Option (Nat × Nat)
  | [], _ => none
  | n :: ns, c =>
    if c < n then some (0, c)
    else match locate ns (c - n) with
      | some (j, o) => some (j + 1, o)
      | none => none

/-- start of segment `j` -/
def offset : List Nat → Nat → Nat
  | [], _ => 0
  | _ :: _, 0 => 0
  | n :: ns, j+1 => n + offset ns j

/-! ## `flatten_row_jacobian`, `torch.cat` -/

/-- `torch.cat(blocks, 1)`: `blk j r o` is entry `(r, o)` of block `j`, `ns` the list of block widths. -/
def hcat (ns : List Nat) (blk : Nat → Nat → Nat → α) : Mat α :=
  fun r c => match locate ns c with
    | some (j, o) => blk j r o
    | none => k 0

/-- widths of the blocks that are kept: `p.numel()` of the parameters with `requires_grad=True` -/
def keepNumels : List (Nat × Bool) → List Nat
  | [] => []
  | (n, b) :: ps => if b then n :: keepNumels ps else keepNumels ps

/-- `RobustModel.flatten_row_jacobian`:
`torch.cat([j.reshape(-1, p.numel()) for j, p in zip(J, params_values) if p.requires_grad], 1)`.
`ps` = `(p.numel(), p.requires_grad)` of every named parameter, `blk j` the reshaped block of parameter `j`
(`modjac` returns a block for *every* parameter; the frozen ones are dropped here). -/
def flattenRowJac : List (Nat × Bool) → (Nat → Nat → Nat → α) → Mat α
  | [], _ => fun _ _ => k 0
  | (n, true) :: ps, blk => fun r c =>
      if c < n then blk 0 r c else flattenRowJac ps (fun j => blk (j + 1)) r (c - n)
  | (_, false) :: ps, blk => flattenRowJac ps (fun j => blk (j + 1))

/-- `torch.cat` of vectors of lengths `ms` -/
def vcatV (ms : List Nat) (vs : Nat → Vec α) : Vec α :=
  fun r => match locate ms r with
    | some (i, o) => vs i o
    | none => k 0

/-- `torch.cat` (dim 0) of matrices with row counts `ms` -/
def vcatM (ms : List Nat) (Ms : Nat → Mat α) : Mat α :=
  fun r c => match locate ms r with
    | some (i, o) => Ms i o c
    | none => k 0

/-! ## residuals and the corrector dispatch -/

/-- one residual tensor after `flatten_row_jacobian`: `rows = R.numel()`, `R` flattened row-major, `J` of shape
`rows × n` -/
structure Res (α : Type) where
  rows : Nat
  R : Vec α
  J : Mat α

instance : Inhabited (Res α) := ⟨⟨0, fun _ => k 0, fun _ _ => k 0⟩⟩

/-- `self.corrector[0] if len(self.corrector) == 1 else self.corrector[i]`  (`none` = `IndexError`) -/
def pickCorrector {γ : Type} (cs : List γ) (i : Nat) : Option γ :=
  if cs.length = 1 then cs[0]? else cs[i]?

/-- the loop `for i in range(len(R)): R[i], J[i] = corrector…(R = R[i], J = J[i])` -/
def correctFrom (cs : List (Res α → Res α)) : Nat → List (Res α) → Option (List (Res α))
  | _, [] => some []
  | i, r :: rs =>
    match pickCorrector cs i, correctFrom cs (i + 1) rs with
    | some c, some out => some (c r :: out)
    | _, _ => none

def correctAll (cs : List (Res α → Res α)) (rs : List (Res α)) : Option (List (Res α)) := correctFrom cs 0 rs

/-- `torch.cat([r.reshape(-1) for r in R])` -/
def catR (rs : List (Res α)) : Vec α := vcatV (rs.map (·.rows)) fun i => (rs.getD i default).R
/-- `torch.cat(J)` -/
def catJ (rs : List (Res α)) : Mat α := vcatM (rs.map (·.rows)) fun i => (rs.getD i default).J
def totalRows (rs : List (Res α)) : Nat := total (rs.map (·.rows))

/-! ## `normalize_RWJ`: weight tensor → diagonal blocks -/

/-- the blocks one `(w, r)` pair contributes to `torch.block_diag`: `cnt = len(ws) * int(ni)` blocks of shape
`h × w`, the `u`-th one being `ws[u % nb]` (that is what `ws * int(ni)` builds), `blk t a b = ws[t][a, b]`. -/
structure WBlocks (α : Type) where
  cnt : Nat
  h : Nat
  w : Nat
  nb : Nat
  blk : Nat → Nat → Nat → α

instance : Inhabited (WBlocks α) := ⟨⟨0, 0, 0, 0, fun _ _ _ => k 0⟩⟩

/-- The shape arithmetic of `normalize_RWJ` for one weight `w` (shape `wshape`, flat row-major data `wdata`) and
one residual `r` (shape `rshape`):

    ni = r.numel() * w.shape[-1] / w.numel()
    w  = w.view(*w.shape, 1, 1) if r.shape[-1] == 1 else w
    ws = w.view(-1, w.shape[-2], w.shape[-1]).split(1, 0)
    weight_diag += ws * int(ni)

`none` = the code raises (`IndexError` for a 0-dim residual / weight, `ZeroDivisionError`, impossible `view`). -/
def wblocks (rshape wshape : List Nat) (wdata : Vec α) : Option (WBlocks α) :=
  match rshape.getLast?, wshape.getLast? with
  | some d, some wl =>
    let wnumel := prod wshape
    if wnumel = 0 then none else
    let reps := (prod rshape * wl) / wnumel
    let ws' := if d = 1 then wshape ++ [1, 1] else wshape
    if ws'.length < 2 then none else
    let h := ws'.getD (ws'.length - 2) 0
    let w := ws'.getD (ws'.length - 1) 0
    let nb := wnumel / (h * w)
    some { cnt := nb * reps, h := h, w := w, nb := nb,
           blk := fun t a b => wdata ((t * h + a) * w + b) }
  | _, _ => none

def WBlocks.rows (B : WBlocks α) : Nat := B.cnt * B.h
def WBlocks.cols (B : WBlocks α) : Nat := B.cnt * B.w

/-- `torch.block_diag(*weight_diag)` for the concatenation of the per-residual block lists -/
def blockDiag (bs : List (WBlocks α)) : Mat α :=
  fun r c =>
    match locate (bs.map (·.rows)) r, locate (bs.map (·.cols)) c with
    | some (i, ro), some (j, co) =>
      let B := bs.getD i default
      if i = j ∧ ro / B.h = co / B.w then B.blk ((ro / B.h) % B.nb) (ro % B.h) (co % B.w) else k 0
    | _, _ => k 0

def wRows (bs : List (WBlocks α)) : Nat := total (bs.map (·.rows))
def wCols (bs : List (WBlocks α)) : Nat := total (bs.map (·.cols))

/-- all weights of one call: `assert len(R) == len(weight)`, one `wblocks` per pair -/
def allBlocks : List (List Nat) → List (List Nat × Vec α) → Option (List (WBlocks α))
  | [], [] => some []
  | rs :: rss, (ws, wd) :: wss =>
    match wblocks rs ws wd, allBlocks rss wss with
    | some B, some Bs => some (B :: Bs)
    | _, _ => none
  | _, _ => none

/-! ## Gauss–Newton system -/

/-- `A = J if weight is None else weight @ J` (`m` = number of rows of `J`) -/
def gnA (m : Nat) (W : Option (Mat α)) (J : Mat α) : Mat α :=
  match W with
  | none => J
  | some W => fun r c => sumN m fun s => W r s * J s c

/-- `b = -R if weight is None else -weight @ R`  (Python parses the latter as `(-weight) @ R`) -/
def gnb (m : Nat) (W : Option (Mat α)) (R : Vec α) : Vec α :=
  match W with
  | none => fun r => -R r
  | some W => fun r => sumN m fun s => (-(W r s)) * R s

/-! ## Levenberg–Marquardt system -/

/-- `J_T = J.T @ weight if weight is not None else J.T`  (`n × m`) -/
def lmJT (m : Nat) (W : Option (Mat α)) (J : Mat α) : Mat α :=
  match W with
  | none => fun i s => J s i
  | some W => fun i s => sumN m fun r => J r i * W r s

/-- `A = J_T @ J` -/
def lmNormal (m : Nat) (JT J : Mat α) : Mat α := fun i j => sumN m fun s => JT i s * J s j

/-- `A.diagonal().clamp_(lo, hi)` -/
def clampDiag (lo hi : α) (A : Mat α) : Mat α := fun i j => if i = j then sclamp lo hi (A i j) else A i j

/-- `A.diagonal().add_(A.diagonal() * damping)` -/
def dampDiag (lam : α) (A : Mat α) : Mat α := fun i j => if i = j then A i j + A i j * lam else A i j

/-- `A_0`: the normal matrix with its diagonal clamped -/
def lmA0 (m : Nat) (lo hi : α) (W : Option (Mat α)) (J : Mat α) : Mat α :=
  clampDiag lo hi (lmNormal m (lmJT m W J) J)

/-- the matrix handed to the solver in trial `k = lams.length` of one call: `A` is damped *in place* once per
trial with the damping current at that trial -/
def lmAk (A0 : Mat α) (lams : List α) : Mat α := lams.foldl (fun A lam => dampDiag lam A) A0

/-- `b = -J_T @ R.view(-1, 1)`  (parsed as `(-J_T) @ R`), recomputed in every trial from the same `J_T`, `R` -/
def lmb (m : Nat) (JT : Mat α) (R : Vec α) : Vec α := fun i => sumN m fun s => (-(JT i s)) * R s

/-! ## the complete linear systems of one call -/

structure Sys (α : Type) where
  /-- rows of `A` -/
  m : Nat
  /-- columns of `A` = length of the step -/
  n : Nat
  A : Mat α
  b : Vec α

/-- weight handling shared by GN and LM: `none` = raise, `some none` = no weight -/
def weightMat (rshapes : List (List Nat)) (weights : Option (List (List Nat × Vec α))) (m : Nat) :
    Option (Option (Mat α)) :=
  match weights with
  | none => some none
  | some ws =>
    match allBlocks rshapes ws with
    | none => none
    | some bs => if wRows bs = m ∧ wCols bs = m then some (some (blockDiag bs)) else none

/-- `GaussNewton.step` up to the solver call. `n` = number of columns of the Jacobian. -/
def gnSystem (n : Nat) (cs : List (Res α → Res α)) (rs : List (Res α)) (rshapes : List (List Nat))
    (weights : Option (List (List Nat × Vec α))) : Option (Sys α) :=
  match correctAll cs rs with
  | none => none
  | some rs' =>
    let m := totalRows rs'
    match weightMat rshapes weights m with
    | none => none
    | some W => some ⟨m, n, gnA m W (catJ rs'), gnb m W (catR rs')⟩

/-- `LevenbergMarquardt.step` up to the solver call of trial `lams.length` (`lams` = the dampings
`pg['damping']` current at trials `1 … k`). -/
def lmSystem (n : Nat) (lo hi : α) (cs : List (Res α → Res α)) (rs : List (Res α)) (rshapes : List (List Nat))
    (weights : Option (List (List Nat × Vec α))) (lams : List α) : Option (Sys α) :=
  match correctAll cs rs with
  | none => none
  | some rs' =>
    let m := totalRows rs'
    match weightMat rshapes weights m with
    | none => none
    | some W =>
      let J := catJ rs'
      some ⟨n, n, lmAk (lmA0 m lo hi W J) lams, lmb m (lmJT m W J) (catR rs')⟩

/-! ## `update_parameter` -/

inductive Grp | SO3 | SE3 | RxSO3 | Sim3
deriving DecidableEq, Repr, Inhabited

/-- storage dimension of a group element -/
def Grp.gdim : Grp → Nat | .SO3 => 4 | .SE3 => 7 | .RxSO3 => 5 | .Sim3 => 8
/-- tangent dimension (`ltype.manifold[0]`) -/
def Grp.adim : Grp → Nat | .SO3 => 3 | .SE3 => 6 | .RxSO3 => 4 | .Sim3 => 7

inductive Kind
  | euclid          -- plain tensor (`torch.Tensor.add_`)
  | alg (g : Grp)   -- Lie-algebra LieTensor (`LieType.add_`, on_manifold branch)
  | grp (g : Grp)   -- Lie-group LieTensor (`SO3Type.add_`, …)
deriving DecidableEq, Repr, Inhabited

structure Param (α : Type) where
  kind : Kind
  /-- `p.numel()` (storage elements) -/
  numel : Nat
  /-- `p.requires_grad` -/
  rg : Bool
  /-- flat row-major storage -/
  data : Vec α

instance : Inhabited (Param α) := ⟨⟨.euclid, 0, false, fun _ => k 0⟩⟩

/-- `Exp(d[:m]) * X` for one item (flat storage in, flat storage out) -/
def retrItem (eps : α) (g : Grp) (X d : Vec α) : Vec α :=
  let v3 (f : Vec α) (o : Nat) : Vec3 α := ⟨f o, f (o+1), f (o+2)⟩
  let qt (f : Vec α) (o : Nat) : Quat α := ⟨f o, f (o+1), f (o+2), f (o+3)⟩
  match g with
  | .SO3 => fun i => (SO3Retr eps (qt X 0) (v3 d 0)).toList.getD i (k 0)
  | .SE3 => fun i => (SE3Retr eps ⟨v3 X 0, qt X 3⟩ ⟨v3 d 0, v3 d 3⟩).toList.getD i (k 0)
  | .RxSO3 => fun i => (RxSO3Retr eps ⟨qt X 0, X 4⟩ ⟨v3 d 0, d 3⟩).toList.getD i (k 0)
  | .Sim3 => fun i => (Sim3Retr eps ⟨v3 X 0, qt X 3, X 7⟩ ⟨v3 d 0, v3 d 3, d 6⟩).toList.getD i (k 0)

/-- `p.add_(d.view(p.shape))` -/
def addParam (eps : α) (p : Param α) (d : Vec α) : Param α :=
  match p.kind with
  | .euclid => { p with data := fun i => p.data i + d i }
  | .alg _ => { p with data := fun i => p.data i + d i }
  | .grp g =>
    let s := g.gdim
    { p with data := fun i =>
        let base := (i / s) * s
        retrItem eps g (fun a => p.data (base + a)) (fun a => d (base + a)) (i % s) }

/-- `[p.add_(d.view(p.shape)) for p, d in zip(params, steps) if p.requires_grad]`: `off` is the start of the next
slice of the step; only parameters that require grad consume a slice. -/
def updateParams (eps : α) : List (Param α) → Vec α → Nat → List (Param α)
  | [], _, _ => []
  | p :: ps, D, off =>
    if p.rg then addParam eps p (fun i => D (off + i)) :: updateParams eps ps D (off + p.numel)
    else p :: updateParams eps ps D off

/-- total size of the slices: `sum(p.numel() for p in params if p.requires_grad)` -/
def trainTotal : List (Param α) → Nat
  | [] => 0
  | p :: ps => (if p.rg then p.numel else 0) + trainTotal ps

/-- `update_parameter(params, step)`: `step.split(sizes)` raises unless the sizes add up to `len(step)` -/
def stepUpdate (eps : α) (ps : List (Param α)) (lenD : Nat) (D : Vec α) : Option (List (Param α)) :=
  if trainTotal ps = lenD then some (updateParams eps ps D 0) else none

/-- `(p.numel(), p.requires_grad)` of every parameter: the argument of `flattenRowJac` -/
def jacSpec (ps : List (Param α)) : List (Nat × Bool) := ps.map fun p => (p.numel, p.rg)

/-- start of the slice of the step that parameter `j` receives -/
def trainOffset : List (Param α) → Nat → Nat
  | [], _ => 0
  | _ :: _, 0 => 0
  | p :: ps, j+1 => (if p.rg then p.numel else 0) + trainOffset ps j

/-! ## constructor and call glue: argument defaulting, option handling

`GaussNewton.__init__` / `LevenbergMarquardt.__init__` (identical code for kernels and correctors), the weight
selection and the residual computation of `step`, and LM's defaults. -/

/-- the `kernel=` / `corrector=` argument: `None`, one module, or a list / tuple with optional `None` entries -/
inductive Arg (β : Type)
  | none
  | one (b : β)
  | many (bs : List (Option β))

/-- an entry of `optimizer.corrector` after `__init__` -/
inductive CorrSel (κ γ : Type)
  | trivial                  -- `Trivial()`
  | auto (k : Option κ)      -- `FastTriggs(k)` built by the optimizer (`k = none`: `FastTriggs(Trivial())`)
  | user (c : γ)             -- the user's corrector object
deriving DecidableEq, Repr

/-- `kernel = [kernel] if not isinstance(kernel, (tuple, list)) else kernel` (only when `kernel is not None`) -/
def kernelList {κ : Type} : Arg κ → Option (List (Option κ))
  | .none => Option.none
  | .one c => some [some c]
  | .many cs => some cs

/-- `optimizer.corrector`:

    if kernel is not None: corrector = [FastTriggs(k) for k in kernel] if corrector is None else corrector
    else:                  corrector = [Trivial()] if corrector is None else corrector
    corrector = [corrector] if not isinstance(corrector, (tuple, list)) else corrector
    corrector = [c if c is not None else Trivial() for c in corrector]                                      -/
def configCorrectors {κ γ : Type} (ka : Arg κ) (ca : Arg γ) : List (CorrSel κ γ) :=
  match ca with
  | .one c => [CorrSel.user c]
  | .many cs => cs.map fun o => match o with | some c => CorrSel.user c | Option.none => CorrSel.trivial
  | .none =>
    match kernelList ka with
    | Option.none => [CorrSel.trivial]
    | some ks => ks.map CorrSel.auto

/-- the corrector that serves residual `i` of a step, from the constructor arguments -/
def servedBy {κ γ : Type} (ka : Arg κ) (ca : Arg γ) (i : Nat) : Option (CorrSel κ γ) :=
  pickCorrector (configCorrectors ka ca) i

/-- `weight = self.weight if weight is None else weight` -/
def selectWeight {ω : Type} (ctor step : Option ω) : Option ω :=
  match step with
  | some w => some w
  | Option.none => ctor

/-- `RobustModel.residual`: `output if target is None else output - target` -/
def residualOf (out : Vec α) (target : Option (Vec α)) : Vec α :=
  match target with
  | Option.none => out
  | some t => fun i => out i - t i

/-- `RobustModel.residuals` for a tuple of outputs: `targets = [None]*len(outputs) if targets is None else targets`, then
`residual(out_i, targets[i])` (`none` = `IndexError` for a target list that is too short) -/
def residualsOf (outs : List (Vec α)) (targets : Option (List (Option (Vec α)))) : Option (List (Vec α)) :=
  match targets with
  | Option.none => some outs
  | some ts =>
    if ts.length < outs.length then Option.none
    else some ((outs.zip ts).map fun p => residualOf p.1 p.2)

/-- the clamps and the rejection budget of `LevenbergMarquardt(min=1e-6, max=1e32, reject=16)` with the arguments
that were not passed replaced by the defaults -/
structure LMConfig (α : Type) where
  lo : α
  hi : α
  reject : Nat

def lmConfig (lo hi : Option α) (reject : Option Nat) : LMConfig α :=
  { lo := match lo with | some x => x | Option.none => q 1 1000000
    hi := match hi with | some x => x | Option.none => k (10 ^ 32)
    reject := match reject with | some r => r | Option.none => 16 }

/-! ## calls as state transformers (failing calls, call histories, copies) -/

/-- One `GaussNewton.step` as a partial map on the parameter list: building the system (`none` = an argument check or the
user's corrector raised), the solver (`none` = it raised; otherwise the length and entries of `D`), `update_parameter`
(`none` = `split` raised).  Nothing is written before all three succeeded. -/
def gnCall (eps : α) (sys : List (Param α) → Option (Sys α)) (solve : Sys α → Option (Nat × Vec α))
    (ps : List (Param α)) : Option (List (Param α)) :=
  match sys ps with
  | none => none
  | some S =>
    match solve S with
    | none => none
    | some (len, D) => stepUpdate eps ps len D

/-- the caller catches the exception of a failed call and goes on with the parameters as they are -/
def callOrKeep {σ : Type} (c : σ → Option σ) (s : σ) : σ := (c s).getD s

/-- a history of calls on one optimizer -/
def runCalls {σ : Type} (cs : List (σ → Option σ)) (s : σ) : σ := cs.foldl (fun s c => callOrKeep c s) s

/-- two optimizers (an original and its copy), calls tagged by the one they are made on (`true` = the first) -/
def runTwins {σ : Type} (cs : List (Bool × (σ → Option σ))) (s : σ × σ) : σ × σ :=
  cs.foldl (fun s c => if c.1 then (callOrKeep c.2 s.1, s.2) else (s.1, callOrKeep c.2 s.2)) s

/-! ## a whole step from ONE parameter list

In the code the number of columns, the column blocks of `J`, the residual shapes and the parameters that are updated
all come from the same tensors (`optimizer.py`: `R = list(self.model(input, target))`, `J = modjac(...)`,
`params = dict(self.model.named_parameters())`, `pg['params']`).  `RawRes` is what the user's model and `modjac`
(property C04) deliver for one residual tensor at the current parameters. -/

structure RawRes (α : Type) where
  /-- `r.numel()` -/
  rows : Nat
  /-- the residual, flattened row-major -/
  R : Vec α
  /-- `blk j r o`: entry `(r, o)` of the Jacobian block of named parameter `j`, reshaped to `rows × p_j.numel()` -/
  blk : Nat → Nat → Nat → α
  /-- `r.shape` -/
  rshape : List Nat

/-- `J = [self.model.flatten_row_jacobian(Jr, params_values) for Jr in J]` -/
def assemble (ps : List (Param α)) (raw : List (RawRes α)) : List (Res α) :=
  raw.map fun r => ⟨r.rows, r.R, flattenRowJac (jacSpec ps) r.blk⟩

/-- the GN system of a step on the parameter list `ps`: `n = Σ numel of the trainable parameters` -/
def gnSystemOf (ps : List (Param α)) (raw : List (RawRes α)) (cs : List (Res α → Res α))
    (weights : Option (List (List Nat × Vec α))) : Option (Sys α) :=
  gnSystem (trainTotal ps) cs (assemble ps raw) (raw.map (·.rshape)) weights

/-- the LM system of trial `lams.length` of a step on the parameter list `ps` -/
def lmSystemOf (ps : List (Param α)) (raw : List (RawRes α)) (lo hi : α) (cs : List (Res α → Res α))
    (weights : Option (List (List Nat × Vec α))) (lams : List α) : Option (Sys α) :=
  lmSystem (trainTotal ps) lo hi cs (assemble ps raw) (raw.map (·.rshape)) weights lams

/-- `GaussNewton.step`: residuals and Jacobian blocks at the current parameters, system, solver, update -/
def gnStep (eps : α) (model : List (Param α) → List (RawRes α)) (cs : List (Res α → Res α))
    (weights : Option (List (List Nat × Vec α))) (solve : Sys α → Option (Nat × Vec α))
    (ps : List (Param α)) : Option (List (Param α)) :=
  gnCall eps (fun ps => gnSystemOf ps (model ps) cs weights) solve ps

/-- One LM trial.  `raw` was computed once at the entry of `step` (parameter list `ps0`); the trial solves the system of
the current damping history and calls `update_parameter(params, D)` on the current parameters `ps` (`ps0` itself in the
first trial, `ps0` restored by `-D` after a rejection).  A solver that raises gives `none`: LM prints the message and
breaks, the parameters stay. -/
def lmTrial (eps : α) (ps0 : List (Param α)) (raw : List (RawRes α)) (lo hi : α) (cs : List (Res α → Res α))
    (weights : Option (List (List Nat × Vec α))) (lams : List α) (solve : Sys α → Option (Nat × Vec α))
    (ps : List (Param α)) : Option (List (Param α)) :=
  gnCall eps (fun _ => lmSystemOf ps0 raw lo hi cs weights lams) solve ps

/-- the rejection of a trial: `update_parameter(params, -D)` -/
def lmReject (eps : α) (ps : List (Param α)) (len : Nat) (D : Vec α) : Option (List (Param α)) :=
  stepUpdate eps ps len fun i => -D i

end PP.GNStep
