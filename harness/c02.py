"""C02 — Log is the principal inverse of Exp on all four groups.

Model: lean/Pose/Model/Lie.lean (SO3Log, so3JlInv, SE3Log, RxSO3Log, rxso3Ws, Sim3Log, the Exp maps) and
lean/Pose/Model/LogExp.lean (compositions, regime classifiers); theorems: lean/Proofs/Props/C02.lean.

Correspondence streams (real batched code vs the model in 192-bit arithmetic, property tolerances)
  log     : X.Log()                         vs  <T>.Log
  explog  : X.Log().Exp()                   vs  <T>.ExpLog      (compared as transformation: quaternion sign-free)
  logneg  : (element with -q).Log()         vs  <T>.LogNeg
  loginv  : X.Inv().Log()                   vs  <T>.LogInv
  logexp  : x.Exp().Log()                   vs  <t>.LogExp
  dispatch: LieTensor(data, ltype).Log()/.Exp()/.Inv() for all eight ltypes × batch shapes (incl. empty batch, wrong last extent):
            returned ltype / shape / values or the kind of refusal vs lie.Log / lie.Exp / lie.Inv of Pose/Model/LieDispatch.lean;
            the LieType table vs ltype.table; torch.finfo(dtype).eps vs dtype.eps (exact)
Near a branch threshold the model is also evaluated with eps·(1±δ) and either result is accepted.

Oracles on the real code (the property's own clauses; a hit is a failing input)
  explog  : Exp(Log X) is the same transformation as X
  normpi  : ‖rotation part of Log X‖ ≤ π
  logneg  : Log(X with -q) = Log X                      (|w| > 2·eps : away from angle π)
  loginv  : Log(Inv X) = -Log X
  logexp  : Log(Exp x) = x                              (rotation angle of x below π)
  again   : Log / Exp return bit-identical results when called again on the same object, arguments untouched
Search oracle (after a break): mpmath 50-digit matrix exponential of the generator of Log X against matrix(X).
"""
from __future__ import annotations

import math
import os

import torch

from . import common, util_lie as U
from .common import Ctx

META = {
    "rule": "group elements: structured unit quaternions (fixed anchor list: w = 0, ±eps/2, ±eps(1±2^-10), ±2eps, ±1e-12, ±1e-8, "
            "‖v‖ = 0, 1e-30, eps/2, eps(1±2^-10), 2eps, 1e-9, angles π±{1e-3,1e-6,1e-9,1e-12}, 2π-small, both hemispheres, "
            "axis-aligned and generic axes) plus the random structured generator of DESIGN §4 (angle ladder 0..10, uniform S^3), "
            "crossed with translations 0..1e3 and scales e^±8 incl. log-scale 0, ±eps/2, ±eps(1±2^-10), ±1e-12, ±1e-9; "
            "algebra elements from the same ladders (independent blocks); random batch shapes of rank 0..3 fed to the real "
            "batched code; float64 and float32 interleaved. Non-trivial = not the identity in every block; "
            "distinct by (stream kind, type, dtype, regime tags, shape).",
    "trusted": ["IEEE rounding of the float code is measured against the exact model at the property's tolerances "
                "(rotation/scale 16·eps relative, translation 4·sqrt(eps) relative to the translation scale), not proved",
                "torch.inverse (3x3) is a contract parameter: the model uses the adjugate formula, guarded by det ≠ 0 "
                "(theorem Ws_det_ne_zero); the driver's value is compared with the code's on every case"],
    "assumptions": ["inputs are valid group elements: unit quaternion to 1 ulp of the dtype, positive scale in [e^-8, e^8]"],
    "partial": [
        "rounding: every clause 'with the accuracy stated in C01' is theorem (exact identity / explicit bound over the reals) + "
        "measured agreement of the float code with the 192-bit model at the property's tolerances",
        "Exp(Log X): proved for every valid element at the quaternion level (within sqrt(2)·eps of ±q: SO3_exp_log_all, *_exp_log_all, "
        "*_exp_log_blocks; regime 3 in full: SO3_exp_log_regime3) and at the action level (‖Exp(Log X)·p − X·p‖ ≤ 2·sqrt(2)·eps·s·‖p‖: "
        "*_exp_log_act_all) whenever the recovered angle exceeds eps; SE3 rotations below eps: exact for pure translations / identity "
        "(SE3_exp_log_pure_translation), otherwise ‖t'−t‖ ≤ θ^4·‖t‖/223 (SE3_exp_log_small_bound); an action-level bound for rotations "
        "below eps (Taylor branch of so3_Exp, not exactly unit) is not proved",
        "Log(Inv X) = -Log X: SO3 every quaternion, RxSO3 every valid element; SE3/Sim3 exact in regime 1 (…_partial), for elements "
        "without rotation (SE3_log_inv_pure_translation), and in backward form with ‖t̃−t‖² ≤ 8·eps²·‖t‖² for every recovered angle "
        "above eps (SE3_log_inv_backward, Sim3_log_inv_backward[_unit_scale], log_inv_backward_bound). NOT proved (measured by "
        "the loginv stream): SE3/Sim3 with 0 < rotation < eps, Sim3 with 0 < |log s| ≤ eps (series regime of rxso3_Ws: C = 1 "
        "although the scale is not exactly 1 — the identity holds to O(eps) only)",
        "Log(Exp x) = x below π: SO3 on all of [0, π] with the STATED DEVIATION that for cos(θ/2) ≤ eps (θ within π·eps of π) "
        "model and code return x·π/θ ≠ x, off by π−θ ≤ π·eps (so3_log_exp_near_pi); rotation and log-scale blocks of "
        "se3/rxso3/sim3 are those of so3 (log_exp_rot_blocks); the translation block is proved for zero rotation, on the band "
        "π·eps<θ<π(1−eps), on se3 for every θ ≤ eps (se3_log_exp_small: ‖τ'−τ‖ ≤ θ^4‖τ‖/26) and on sim3 for every θ ≤ eps and every σ "
        "(sim3_log_exp_small: ‖τ'−τ‖ ≤ θ^5‖τ‖/17, log-scale exact); near π (se3, sim3) it is measured by the logexp stream only. Uniqueness in the principal ball: on the open shell "
        "eps<‖x‖<π only (x = 0 and the Taylor branch excluded), SO3_log_unique in regime 1 only",
        "within 8 ulp (of the dtype) of an odd multiple of π the sign of w = cos(θ/2) is decided by rounding: there Log(Exp x) is "
        "checked as a transformation (Exp(Log(Exp x)) = Exp(x)), and the clause 'angle below π' is applied 4 ulp away from π",
    ],
}

DIAG = bool(os.environ.get("C02_DIAG"))
_diag: dict = {}


def diag(key, ratio, info=None):
    if DIAG and (key not in _diag or ratio > _diag[key][0]):
        _diag[key] = (ratio, info)


# ----------------------------------------------------------------------------- tolerances (from the property)

K_ROT = 16.0      # rotation / scale blocks: 16·eps relative
K_TR = 4.0        # translation block: 4·sqrt(eps) relative to the translation scale


def tol_rot(dtype):
    return K_ROT * common.EPS[dtype]


def tol_tr(dtype):
    return K_TR * math.sqrt(common.EPS[dtype])


def norm(v):
    return math.sqrt(math.fsum(x * x for x in v))


def alg_blocks(name, a):
    phi = a[U.PHISL[name]]
    tau = a[U.TAUSL[name]] if U.TAUSL[name] is not None else None
    sig = a[U.SIGIDX[name]] if U.SIGIDX[name] is not None else None
    return phi, tau, sig


def grp_blocks(name, g):
    q = g[U.QSL[name]]
    t = g[U.TSL[name]] if U.TSL[name] is not None else None
    s = g[U.SIDX[name]] if U.SIDX[name] is not None else None
    return q, t, s


def alg_err(name, got, want, dtype, tscale, sign=1.0, phisc=0.0):
    """block-wise error ratios (error / tolerance) of algebra element `got` against `sign·want`;
    `phisc`: additional scale of the rotation block (the input angle, for Log∘Exp beyond π where the result is the
    wrapped vector x·(θ-2π)/θ whose absolute accuracy is eps·θ)"""
    pg, tg, sg = alg_blocks(name, got)
    pw, tw, sw = alg_blocks(name, want)
    out = {}
    pw = [sign * x for x in pw]
    e = max(abs(a - b) for a, b in zip(pg, pw))
    out["phi"] = e / (tol_rot(dtype) * max(norm(pw), phisc, 1e-300))
    if tg is not None:
        tw = [sign * x for x in tw]
        e = max(abs(a - b) for a, b in zip(tg, tw))
        out["tau"] = e / (tol_tr(dtype) * max(tscale, norm(tw), 1e-300))
    if sg is not None:
        out["sigma"] = abs(sg - sign * sw) / (tol_rot(dtype) * max(1.0, abs(sw)))
    return out


def grp_err(name, got, want, dtype, tscale):
    """block-wise error ratios of group element `got` against `want`, quaternion sign-free"""
    qg, tg, sg = grp_blocks(name, got)
    qw, tw, sw = grp_blocks(name, want)
    out = {"q": U.quat_dist(qg, qw) / tol_rot(dtype)}
    if tg is not None:
        e = max(abs(a - b) for a, b in zip(tg, tw))
        out["t"] = e / (tol_tr(dtype) * max(tscale, 1e-300))
    if sg is not None:
        out["s"] = abs(sg - sw) / (tol_rot(dtype) * abs(sw))
    return out


def finite(xs):
    return all(math.isfinite(x) for x in xs)


# ----------------------------------------------------------------------------- generators

def thr_nbrs(eps):
    """the threshold itself and its two floating-point neighbours in the dtype whose epsilon `eps` is"""
    if eps == common.EPS["float32"]:
        import numpy as np
        e = np.float32(eps)
        return [float(np.nextafter(e, np.float32(0))), float(e), float(np.nextafter(e, np.float32(1)))]
    return [math.nextafter(eps, 0.0), eps, math.nextafter(eps, 1.0)]


def anchor_quats(eps):
    """deterministic list of (quaternion, tag): the thin regions of SO3_Log's three-way split and the angle-π seam"""
    out = []
    # exactly at / one ulp below / one ulp above each threshold, both signs (axis-aligned so that ‖v‖ is exact)
    for j, t in enumerate(thr_nbrs(eps)):
        for sgn in (1.0, -1.0):
            out.append(([math.sqrt(1 - t * t), 0.0, 0.0, sgn * t], f"w=eps{'-0+'[j]}ulp{'+' if sgn > 0 else '-'}"))
            out.append(([0.0, sgn * t, 0.0, sgn * math.sqrt(1 - t * t)], f"v=eps{'-0+'[j]}ulp{'+' if sgn > 0 else '-'}"))
    axes = [[1.0, 0.0, 0.0], [0.0, -1.0, 0.0], [0.6, 0.0, 0.8], [0.36, 0.48, -0.8], [-2 / 7, 3 / 7, 6 / 7]]
    ws = [0.0, eps / 2, eps * (1 - 2 ** -10), eps * (1 + 2 ** -10), 2 * eps, 1e-12, 1e-8, 1e-4]
    for i, w in enumerate(ws):
        for sgn in (1.0, -1.0):
            if w == 0.0 and sgn < 0:
                continue
            d = axes[i % len(axes)]
            s = math.sqrt(max(0.0, 1 - w * w))
            out.append(([d[0] * s, d[1] * s, d[2] * s, sgn * w], f"w{common.sig_mag(w)}{'-' if sgn < 0 else '+'}"))
    vns = [0.0, 1e-30, eps / 2, eps * (1 - 2 ** -10), eps * (1 + 2 ** -10), 2 * eps, 1e-9, 1e-5]
    for i, vn in enumerate(vns):
        for sgn in (1.0, -1.0):
            d = axes[(i + 2) % len(axes)]
            w = sgn * math.sqrt(max(0.0, 1 - vn * vn))
            out.append(([d[0] * vn, d[1] * vn, d[2] * vn, w], f"v{common.sig_mag(vn)}{'-' if sgn < 0 else '+'}"))
    for i, dl in enumerate([1e-3, 1e-6, 1e-9, 1e-12]):
        for th in (math.pi - dl, math.pi + dl, 2 * math.pi - dl):
            d = axes[(i + 1) % len(axes)]
            s, w = math.sin(th / 2), math.cos(th / 2)
            out.append(([d[0] * s, d[1] * s, d[2] * s, w], f"ang{th:.3f}"))
    for th in (0.3, 1.0, 2.0, 3.0, 4.0, 5.0, 6.0):
        d = axes[int(th) % len(axes)]
        s, w = math.sin(th / 2), math.cos(th / 2)
        out.append(([d[0] * s, d[1] * s, d[2] * s, w], f"ang{th:.1f}"))
    out += tie_quats(eps)
    out.append(([0.0, 1.0, 0.0, -0.0], "w=-0"))          # negative zero: pm(-0.0) must still be +1 (sign tie)
    out.append(([-0.0, 0.0, -0.0, 1.0], "v=-0"))
    return out


def tie_quats(eps):
    """class 20 — EXACT COINCIDENCES of two data-dependent quantities. For the quaternion logarithm the two quantities are ‖v‖
    and |w|: exact quarter turns, built (a) as documented, (a·s, ±s) with s = sqrt(1/2), axis-aligned and generic axes, and
    (b) with w := ±‖v‖ as the dtype computes it, so that the tie holds bit for bit whatever the axis; also exact multiples of
    π/6 and π/4 (both hemispheres), equal components, and the small-angle band 0.02..0.3 where a series/closed-form switch
    moved too far would show at the 10²·eps level (class 24)."""
    D = torch.float32 if eps == common.EPS["float32"] else torch.float64
    out = []
    s = math.sqrt(0.5)
    axes = [[1.0, 0.0, 0.0], [0.0, 1.0, 0.0], [0.0, 0.0, -1.0], [0.6, 0.0, 0.8], [0.36, 0.48, -0.8], [-2 / 7, 3 / 7, 6 / 7],
            [1 / math.sqrt(3)] * 3, [s, -s, 0.0], [2 / 3, -1 / 3, 2 / 3]]
    for i, a in enumerate(axes):
        for sgn in (1.0, -1.0):
            out.append(([a[0] * s, a[1] * s, a[2] * s, sgn * s], f"quarter{'+' if sgn > 0 else '-'}"))
            v = torch.tensor([a[0] * s, a[1] * s, a[2] * s], dtype=torch.float64).to(D)
            wn = float(torch.norm(v, 2, dim=-1).double())
            out.append((v.double().tolist() + [sgn * wn], f"tie|v|=|w|{'+' if sgn > 0 else '-'}"))
    for k in range(1, 12):
        for base, nm in ((math.pi / 6, "pi/6"), (math.pi / 4, "pi/4")):
            th = k * base
            a = axes[k % len(axes)]
            out.append(([a[0] * math.sin(th / 2), a[1] * math.sin(th / 2), a[2] * math.sin(th / 2), math.cos(th / 2)], f"{k}{nm}"))
    for c in (0.5, 1e-3, 1e-9):
        w = math.sqrt(max(0.0, 1 - 3 * c * c))
        out.append(([c, c, c, w], "equal-components"))
        out.append(([c, -c, c, -w], "equal-components"))
    # class 36 — NEAR ties, between round-off and 1e-5: a hidden isclose/allclose (rtol 1e-5, atol 1e-8) deciding the branch would
    # treat them as ties. Quarter turns ± δ and half turns ± δ, both hemispheres
    for i, dl in enumerate([1e-5, 1e-6, 1e-7, 1e-9, 1e-12]):
        for th in (math.pi / 2 - dl, math.pi / 2 + dl, 3 * math.pi / 2 - dl, 3 * math.pi / 2 + dl, math.pi - 3 * dl, math.pi + 3 * dl):
            a = axes[(i + 3) % len(axes)]
            out.append(([a[0] * math.sin(th / 2), a[1] * math.sin(th / 2), a[2] * math.sin(th / 2), math.cos(th / 2)], f"near-tie{dl:g}"))
    for th in (0.02, 0.03, 0.05, 0.07, 0.1, 0.2):
        for sgn in (1.0, -1.0):
            a = axes[3]
            out.append(([a[0] * math.sin(th / 2), a[1] * math.sin(th / 2), a[2] * math.sin(th / 2), sgn * math.cos(th / 2)], f"small{th}"))
    return out


def anchor_sigmas(eps):
    return [sg * t for t in thr_nbrs(eps) for sg in (1.0, -1.0)] + [eps * (1 + 2 ** -10), -eps * (1 - 2 ** -10)] + [0.0, eps / 2, -eps / 2, eps * (1 - 2 ** -10), -eps * (1 + 2 ** -10), 2 * eps, -1e-12, 1e-9, -1e-6, 1e-3, 0.5, -0.7, 2.0, -3.0,
            8.0, -8.0]


def gen_group_item(rng, name, eps, anchors, k):
    """k-th group element of a case: anchors first (cycled with offsets), then the random structured generator"""
    if rng.random() < 0.45:
        q, tag = anchors[rng.randrange(len(anchors))]
        q = list(q)
        if rng.random() < 0.3:   # re-orient: a random axis with the same (‖v‖, w)
            vn = norm(q[:3])
            d = common.rand_dir(rng, 3)
            q = [d[0] * vn, d[1] * vn, d[2] * vn, q[3]]
        out, tags = [], [tag]
        if name in ("SE3", "Sim3"):
            m = U.gen_mag(rng, eps, 1e3)
            out += U.vec(rng, m)
            tags.append(f"t{common.sig_mag(m)}")
        out += q
        if name in ("RxSO3", "Sim3"):
            s = rng.choice(anchor_sigmas(eps)) if rng.random() < 0.6 else U.gen_sigma(rng, eps, 8.0)
            out.append(math.exp(s))
            tags.append(f"s{common.sig_mag(s)}")
        return out, "/".join(tags)
    return U.gen_group(rng, name, eps, thi=1e3, shi=8.0)


def gen_alg_item(rng, name, eps):
    a, tag = U.gen_algebra(rng, name, eps, big=True, thi=1e3, shi=8.0)
    if name in ("RxSO3", "Sim3") and rng.random() < 0.3:
        a[U.SIGIDX[name]] = rng.choice(anchor_sigmas(eps))
    return a, tag


def rand_batch_shape(rng):
    r = rng.random()
    if r < 0.15:
        return ()
    if r < 0.5:
        return (rng.choice([1, 2, 3, 5, 8]),)
    if r < 0.85:
        return (rng.choice([1, 2, 3]), rng.choice([1, 2, 4]))
    return (rng.choice([1, 2]), rng.choice([1, 3]), rng.choice([1, 2]))


def make_group_case(rng, name, dtype, ci):
    eps = common.EPS[dtype]
    shape = rand_batch_shape(rng)
    n = int(math.prod(shape))
    anchors = anchor_quats(eps)
    rows, tags = [], []
    for k in range(n):
        g, tg = gen_group_item(rng, name, eps, anchors, k)
        rows.append(g)
        tags.append(tg)
    _, X64 = U.to_dtype_exact(rows, dtype)
    return {"kind": "group", "type": name, "dtype": dtype, "shape": list(shape), "X": X64.tolist(), "tags": tags, "id": ci}


def make_alg_case(rng, name, dtype, ci):
    eps = common.EPS[dtype]
    shape = rand_batch_shape(rng)
    n = int(math.prod(shape))
    rows, tags = [], []
    for _ in range(n):
        a, tg = gen_alg_item(rng, name, eps)
        rows.append(a)
        tags.append(tg)
    _, x64 = U.to_dtype_exact(rows, dtype)
    return {"kind": "alg", "type": name, "dtype": dtype, "shape": list(shape), "x": x64.tolist(), "tags": tags, "id": ci}


def guarded(fn):
    """kind 8: if the implementation returns something that is not what the API documents (a plain Tensor instead of a LieTensor,
    a wrong rank, None …) the analysis code below trips over it — that is a misbehaviour of the implementation on this case, to
    be reported with the case, never a crash of the harness (exit 2 would hide it). The clean tree never reaches this."""
    import functools

    @functools.wraps(fn)
    def wrapper(ctx, case, *a, **kw):
        try:
            return fn(ctx, case, *a, **kw)
        except (AttributeError, TypeError, IndexError, ValueError) as ex:
            ctx.fail({k: v for k, v in case.items() if k != "tags"},
                     f"type {case.get('type')}: the result of Log/Exp/Inv is not the documented LieTensor ({type(ex).__name__}: {str(ex)[:120]})")
    return wrapper


# ----------------------------------------------------------------------------- one case on the real code

def small(case, i, **kw):
    """single-item replayable case"""
    key = "X" if case["kind"] == "group" else "x"
    c = {"kind": case["kind"], "type": case["type"], "dtype": case["dtype"], "shape": [1], key: [case[key][i]],
         "tags": [case["tags"][i]] if case.get("tags") else [], "id": case.get("id"), "from_shape": case["shape"]}
    c.update(kw)
    return c


def negq(name, Xt):
    Y = Xt.clone()
    Y[..., U.QSL[name]] = -Y[..., U.QSL[name]]
    return Y


@guarded
def eval_group_case(ctx: Ctx, case, pend):
    P = U.pp()
    name, dtype = case["type"], case["dtype"]
    D, eps = U.dt(dtype), common.EPS[dtype]
    gd, ad = U.GDIM[name], U.ADIM[name]
    shape = tuple(case["shape"])
    X64 = torch.tensor(case["X"], dtype=torch.float64).reshape(-1, gd)
    Xt = X64.to(D).reshape(shape + (gd,))
    X = P.LieTensor(Xt.clone(), ltype=U.ltype(name))
    try:
        L = X.Log()
        if not torch.equal(X.tensor(), Xt):
            ctx.fail(case, f"again {name}: Log modified its argument ({dtype})")
            X = P.LieTensor(Xt.clone(), ltype=U.ltype(name))
        L2 = X.Log()
        EL = L.Exp()
        LN = P.LieTensor(negq(name, Xt), ltype=U.ltype(name)).Log()
        LI = X.Inv().Log()
        LA = L.Inv()             # the API's own negation on the algebra
        if not torch.equal(torch.nan_to_num(LA.tensor(), nan=1e33), torch.nan_to_num(-L.tensor(), nan=1e33)):
            ctx.fail(case, f"alginv {name}: Inv() of the algebra element Log(X) is not -Log(X) ({dtype})")
    except Exception as e:
        ctx.fail(case, f"raises {name}: Log/Exp/Inv raised {type(e).__name__}: {str(e)[:150]}")
        return
    if L.ltype != getattr(P, U.ALG[name] + "_type") or tuple(L.shape) != shape + (ad,) or L.dtype != D \
            or EL.ltype != X.ltype or tuple(EL.shape) != shape + (gd,):
        ctx.fail(case, f"type {name}: Log/Exp returned ltype/shape/dtype {L.ltype} {tuple(L.shape)} {L.dtype}")
        return
    if not torch.equal(torch.nan_to_num(L.tensor(), nan=1e33), torch.nan_to_num(L2.tensor(), nan=1e33)):
        ctx.fail(case, f"again {name}: second Log() on the same object differs from the first ({dtype})")
    Lf = L.tensor().double().reshape(-1, ad).tolist()
    ELf = EL.tensor().double().reshape(-1, gd).tolist()
    LNf = LN.tensor().double().reshape(-1, ad).tolist()
    LIf = LI.tensor().double().reshape(-1, ad).tolist()
    Xf = X64.tolist()
    for i, x in enumerate(Xf):
        q, t, s = grp_blocks(name, x)
        tsc = norm(t) if t is not None else 0.0
        lg, el, ln, li = Lf[i], ELf[i], LNf[i], LIf[i]
        ctx.count(f"group.{name}.{dtype}")
        vn = norm(q[:3])
        ctx.count(f"regime.SO3_Log.{1 if (vn > eps and abs(q[3]) > eps) else 2 if vn > eps else 3}.{dtype}")
        ctx.count("hemisphere." + ("w>0" if q[3] > 0 else "w<0" if q[3] < 0 else "w=0"))
        if name == "Sim3" and s is not None and finite(lg):
            sl, tl = abs(math.log(s)) > eps, norm(lg[3:6]) > eps
            ctx.count(f"regime.rxso3_Ws(Log).{(4 if tl else 3) if sl else (2 if tl else 1)}.{dtype}")
        if not (finite(lg) and finite(el) and finite(ln) and finite(li)):
            ctx.fail(small(case, i), f"nonfinite {name}: Log/Exp produced nan/inf on a valid element ({dtype})")
            continue
        # ---- oracles: the property's own clauses on the real code
        e = grp_err(name, el, x, dtype, tsc)
        # tiny rotations: the absolute quaternion distance cannot see a wrong direction of a 1e-30 rotation; compare
        # the vector parts relative to ‖v‖ (sign chosen by the real parts)
        qe = el[U.QSL[name]]
        sg = 1.0 if qe[3] * q[3] >= 0 else -1.0
        vn_x = norm(q[:3])
        if vn_x > 0 and abs(q[3]) > 0.5:
            e["v_rel"] = max(abs(a - sg * b) for a, b in zip(qe[:3], q[:3])) / (tol_rot(dtype) * vn_x)
        diag(f"oracle.explog.{name}.{dtype}", max(e.values()), (x, e))
        bad = {k: round(v, 2) for k, v in e.items() if not v <= 1.0}
        if bad:
            ctx.fail(small(case, i), f"explog {name}: Exp(Log(X)) is not the same transformation as X ({dtype}); error/tolerance per block {bad}")
        phi, tau, sig = alg_blocks(name, lg)
        if not (norm(phi) <= math.pi * (1 + 4 * eps)):
            ctx.fail(small(case, i), f"normpi {name}: rotation part of Log(X) has norm {norm(phi):.17g} > pi ({dtype})")
        tausc = max(tsc, norm(tau)) if tau is not None else 0.0
        if abs(q[3]) > 2 * eps:
            e = alg_err(name, ln, lg, dtype, tausc)
            diag(f"oracle.logneg.{name}.{dtype}", max(e.values()), (x, e))
            bad = {k: round(v, 2) for k, v in e.items() if not v <= 1.0}
            if bad:
                ctx.fail(small(case, i), f"logneg {name}: Log of the element with the negated quaternion differs from Log(X) ({dtype}); {bad}")
        e = alg_err(name, li, lg, dtype, tausc, sign=-1.0)
        diag(f"oracle.loginv.{name}.{dtype}", max(e.values()), (x, e))
        bad = {k: round(v, 2) for k, v in e.items() if not v <= 1.0}
        if bad:
            ctx.fail(small(case, i), f"loginv {name}: Log(Inv(X)) != -Log(X) ({dtype}); {bad}")
        # ---- correspondence
        for stream, op, got, kind in (("log", f"{name}.Log", lg, "alg"), ("explog", f"{name}.ExpLog", el, "grp"),
                                      ("logneg", f"{name}.LogNeg", ln, "alg"), ("loginv", f"{name}.LogInv", li, "alg")):
            pend.append({"stream": stream, "op": op, "args": x, "got": got, "kind": kind, "name": name, "dtype": dtype,
                         "tscale": tsc if kind == "grp" else tausc, "case": case, "i": i})
    ctx.note_case(("group", name, dtype, tuple(sorted(set(case.get("tags", []))))[:4], shape), True)


@guarded
def eval_alg_case(ctx: Ctx, case, pend):
    P = U.pp()
    name, dtype = case["type"], case["dtype"]
    D, eps = U.dt(dtype), common.EPS[dtype]
    gd, ad = U.GDIM[name], U.ADIM[name]
    shape = tuple(case["shape"])
    x64 = torch.tensor(case["x"], dtype=torch.float64).reshape(-1, ad)
    xt = x64.to(D).reshape(shape + (ad,))
    x = P.LieTensor(xt.clone(), ltype=getattr(P, U.ALG[name] + "_type"))
    try:
        E = x.Exp()
        E2 = x.Exp()
        if not torch.equal(x.tensor(), xt):
            ctx.fail(case, f"again {name}: Exp modified its argument ({dtype})")
        LE = E.Log()
    except Exception as e:
        ctx.fail(case, f"raises {name}: Exp/Log raised {type(e).__name__}: {str(e)[:150]}")
        return
    if E.ltype != U.ltype(name) or tuple(LE.shape) != shape + (ad,) or LE.dtype != D:
        ctx.fail(case, f"type {name}: Exp/Log returned ltype/shape/dtype {E.ltype} {tuple(LE.shape)} {LE.dtype}")
        return
    if not torch.equal(torch.nan_to_num(E.tensor(), nan=1e33), torch.nan_to_num(E2.tensor(), nan=1e33)):
        ctx.fail(case, f"again {name}: second Exp() on the same object differs from the first ({dtype})")
    LEf = LE.tensor().double().reshape(-1, ad).tolist()
    Ef = E.tensor().double().reshape(-1, gd).tolist()
    for i, a in enumerate(x64.tolist()):
        phi, tau, sig = alg_blocks(name, a)
        th = norm(phi)
        le = LEf[i]
        ctx.count(f"alg.{name}.{dtype}")
        ctx.count(f"regime.so3_Exp.{'closed' if th > eps else 'taylor'}.{dtype}")
        if name == "Sim3":
            sl, tl = abs(sig) > eps, th > eps
            ctx.count(f"regime.rxso3_Ws(Exp).{(4 if tl else 3) if sl else (2 if tl else 1)}.{dtype}")
        ctx.count("alg.angle." + ("below-pi" if th < math.pi else "pi-or-above"))
        if not finite(Ef[i]):
            ctx.fail(small(case, i), f"nonfinite {name}: Exp(x) produced nan/inf for a finite algebra element ({dtype})")
            continue
        if not finite(le):
            ctx.fail(small(case, i), f"nonfinite {name}: Log(Exp(x)) produced nan/inf ({dtype})")
            continue
        tausc = norm(tau) if tau is not None else 0.0
        # the seam: θ within a few ulp (of the dtype) of an odd multiple of π — there w = cos(θ/2) of Exp(x) is below
        # the resolution of the arithmetic, its sign (hence which of the two logarithms ±π·axis is returned) is
        # decided by rounding. The clause "angle below π" is applied 4 ulp away from π; inside the seam the round
        # trip is checked as a transformation: Exp(Log(Exp x)) must be Exp(x).
        seam = abs(math.cos(th / 2)) <= 8 * eps * max(1.0, th)
        if seam:
            ctx.count("alg.seam")
            e1 = E.tensor().double().reshape(-1, gd)[i].tolist()
            try:
                e2 = LE.Exp().tensor().double().reshape(-1, gd)[i].tolist()
            except Exception as ex:
                ctx.fail(small(case, i), f"raises {name}: Exp(Log(Exp x)) raised {type(ex).__name__}: {str(ex)[:120]}")
                continue
            _, t1, _ = grp_blocks(name, e1)
            e = grp_err(name, e2, e1, dtype, norm(t1) if t1 is not None else 0.0)
            bad = {k: round(v, 2) for k, v in e.items() if not v <= 2.0}
            if bad:
                ctx.fail(small(case, i), f"logexp-seam {name}: at angle {th:.17g} (within 8 ulp of an odd multiple of pi) Exp(Log(Exp x)) is not Exp(x) ({dtype}); {bad}")
            continue
        if th < math.pi * (1 - 4 * eps):
            e = alg_err(name, le, a, dtype, tausc)
            diag(f"oracle.logexp.{name}.{dtype}", max(e.values()), (a, e))
            bad = {k: round(v, 2) for k, v in e.items() if not v <= 1.0}
            if bad:
                ctx.fail(small(case, i), f"logexp {name}: Log(Exp(x)) != x although the rotation angle {th:.17g} is below pi ({dtype}); {bad}")
        pend.append({"stream": "logexp", "op": f"{U.ALG[name]}.LogExp", "args": a, "got": le, "kind": "alg", "name": name,
                     "dtype": dtype, "tscale": tausc, "phisc": th, "case": case, "i": i})
    ctx.note_case(("alg", name, dtype, tuple(sorted(set(case.get("tags", []))))[:4], shape), True)


# ----------------------------------------------------------------------------- model side

def margin(dtype):
    """relative width of the band around a threshold in which either branch is accepted: the float code's own
    ‖v‖, |w|, θ carry a relative error of a few eps_dtype"""
    return max(2.0 ** -48, 16 * common.EPS[dtype])


def ratios(p, want):
    if p["kind"] == "alg":
        return alg_err(p["name"], p["got"], want, p["dtype"], p["tscale"], phisc=p.get("phisc", 0.0))
    return grp_err(p["name"], p["got"], want, p["dtype"], p["tscale"])


def flush(ctx: Ctx, pend):
    """run the model on all pending items, compare; items that disagree are re-evaluated with eps·(1±δ)"""
    if not pend:
        return
    lines = [U.model_call(p["op"], common.EPS[p["dtype"]], p["args"]) for p in pend]
    reps = ctx.driver.run(lines)
    retry = []
    for p, rep in zip(pend, reps):
        want = U.fl(common.reply_nums(rep))
        r = ratios(p, want)
        diag(f"corr.{p['stream']}.{p['name']}.{p['dtype']}", max(r.values()), (p["args"], r))
        if any(not v <= 1.0 for v in r.values()):
            retry.append((p, r))
    if retry:
        lines2 = []
        for p, _ in retry:
            e, m = common.EPS[p["dtype"]], margin(p["dtype"])
            lines2.append(U.model_call(p["op"], e * (1 + m), p["args"]))
            lines2.append(U.model_call(p["op"], e * (1 - m), p["args"]))
        reps2 = ctx.driver.run(lines2)
        for k, (p, r0) in enumerate(retry):
            ok = False
            for rep in reps2[2 * k:2 * k + 2]:
                r = ratios(p, U.fl(common.reply_nums(rep)))
                if all(v <= 1.0 for v in r.values()):
                    ok = True
            if ok:
                ctx.count(f"threshold-either.{p['stream']}")
                continue
            bad = {k2: round(v, 2) for k2, v in r0.items() if not v <= 1.0}
            ctx.disagree(p["stream"], small(p["case"], p["i"], stream=p["stream"]),
                         f"{p['op']} {p['dtype']}: implementation vs model, error/tolerance per block {bad}; input {p['args']}")
    pend.clear()


# ----------------------------------------------------------------------------- search oracle (mpmath)

def mp_generator(name, a):
    import mpmath as mp
    phi, tau, sig = alg_blocks(name, a)
    n = U.MATN[name]
    M = mp.zeros(n, n)
    K = [[0, -phi[2], phi[1]], [phi[2], 0, -phi[0]], [-phi[1], phi[0], 0]]
    for i in range(3):
        for j in range(3):
            M[i, j] = mp.mpf(K[i][j])
        if sig is not None:
            M[i, i] += mp.mpf(sig)
        if tau is not None:
            M[i, 3] = mp.mpf(tau[i])
    return M


def mp_check_log(ctx: Ctx, case):
    """expm(generator(Log X)) must be matrix(X): 50-digit truth for the logarithm, independent of the model"""
    import mpmath as mp
    mp.mp.dps = 50
    P = U.pp()
    name, dtype = case["type"], case["dtype"]
    D = U.dt(dtype)
    X = P.LieTensor(torch.tensor(case["X"], dtype=torch.float64).to(D), ltype=U.ltype(name))
    try:
        L = X.Log().tensor().double().reshape(-1, U.ADIM[name]).tolist()
        M = X.matrix().double().reshape(-1, U.MATN[name], U.MATN[name]).tolist()
    except Exception as ex:
        ctx.fail(case, f"raises {name}: Log/matrix raised {type(ex).__name__}: {str(ex)[:120]}")
        return
    Xf = X.tensor().double().reshape(-1, U.GDIM[name]).tolist()
    for i, (a, m, x) in enumerate(zip(L, M, Xf)):
        if not finite(a):
            ctx.fail(small(case, i), f"nonfinite {name}: Log produced nan/inf on a valid element ({dtype})")
            continue
        E = mp.expm(mp_generator(name, a))
        n = U.MATN[name]
        q, t, s = grp_blocks(name, x)
        sc = s if s is not None else 1.0
        for r in range(3):
            for c in range(n):
                err = abs(float(E[r, c] - mp.mpf(m[r][c])))
                if c < 3:
                    lim = 4 * tol_rot(dtype) * sc
                else:
                    lim = tol_tr(dtype) * max(norm(t) if t is not None else 0.0, 1e-300)
                if n == 3 or c < 3 or t is not None:
                    if not (err <= lim) and not (c == 3 and t is None):
                        ctx.fail(small(case, i), f"mplog {name}: expm(generator(Log X)) differs from matrix(X) at [{r},{c}] by {err:.3e} > {lim:.3e} ({dtype})")
                        break
            else:
                continue
            break


def mp_check_exp_log(ctx: Ctx, case):
    """algebra case through the 50-digit oracle: matrix(Exp x) = expm(generator x) and, with L = Log(Exp x),
    expm(generator L) = matrix(Exp x)"""
    P = U.pp()
    name, dtype = case["type"], case["dtype"]
    try:
        x = P.LieTensor(torch.tensor(case["x"], dtype=torch.float64).to(U.dt(dtype)), ltype=getattr(P, U.ALG[name] + "_type"))
        E = x.Exp()
    except Exception as ex:
        ctx.fail(case, f"raises {name}: Exp raised {type(ex).__name__}: {str(ex)[:120]}")
        return
    import mpmath as mp
    mp.mp.dps = 50
    M = E.matrix().double().reshape(-1, U.MATN[name], U.MATN[name]).tolist()
    for i, (a, m) in enumerate(zip(x.tensor().double().reshape(-1, U.ADIM[name]).tolist(), M)):
        T = mp.expm(mp_generator(name, a))
        phi, tau, sig = alg_blocks(name, a)
        sc = math.exp(sig) if sig is not None else 1.0
        tsc = max((abs(float(T[r, 3])) for r in range(3)), default=0.0) if tau is not None else 0.0
        for r in range(3):
            for c in range(U.MATN[name]):
                if c == 3 and tau is None:
                    continue
                err = abs(float(T[r, c] - mp.mpf(m[r][c])))
                lim = 4 * tol_rot(dtype) * sc if c < 3 else tol_tr(dtype) * max(tsc, 1e-300)
                if not (err <= lim):
                    ctx.fail(small(case, i), f"mpexp {name}: matrix(Exp x) differs from expm(generator x) at [{r},{c}] by {err:.3e} > {lim:.3e} ({dtype})")
                    break
            else:
                continue
            break
    mp_check_log(ctx, {"kind": "group", "type": name, "dtype": dtype, "shape": [len(M)], "X": E.tensor().double().reshape(-1, U.GDIM[name]).tolist(),
                       "tags": [], "id": case.get("id")})


# ----------------------------------------------------------------------------- driver self-consistency (contract of inverse)

def check_inverse_contract(ctx: Ctx, n):
    """the adjugate stand-in for torch.inverse: W·W⁻¹ = 1 on the model side (exit 2 if not: infrastructure)"""
    rng = ctx.rng
    lines, args = [], []
    for _ in range(n):
        a, _ = U.gen_algebra(rng, "RxSO3", common.EPS["float64"], big=False)
        args.append(a)
        lines.append(U.model_call("rxso3.Ws", common.EPS["float64"], a))
        lines.append(U.model_call("rxso3.WsInv", common.EPS["float64"], a))
    reps = ctx.driver.run(lines)
    for k, a in enumerate(args):
        W = U.fl(common.reply_nums(reps[2 * k]))
        Wi = U.fl(common.reply_nums(reps[2 * k + 1]))
        for r in range(3):
            for c in range(3):
                v = sum(W[3 * r + j] * Wi[3 * j + c] for j in range(3))
                if abs(v - (1.0 if r == c else 0.0)) > 1e-9:
                    raise common.InfraError(f"inverse stand-in violates its contract at {a}: (W·W⁻¹)[{r},{c}] = {v}")


# ----------------------------------------------------------------------------- history independence

ORDER_PROBE = r"""
import sys, json, struct
sys.path.insert(0, sys.argv[1])
import torch, pypose as pp
torch.set_num_threads(1)
spec = json.load(sys.stdin)
out = {}
# the opposite order of the main process: float32 first, algebra before group, Sim3 before SO3
for dtype in ("float32", "float64"):
    D = getattr(torch, dtype)
    for name in ("Sim3", "RxSO3", "SE3", "SO3"):
        a = torch.tensor(spec[dtype][name]["x"], dtype=torch.float64).to(D)
        x = pp.LieTensor(a, ltype=getattr(pp, spec["alg"][name] + "_type"))
        E = x.Exp(); LE = E.Log()
        g = torch.tensor(spec[dtype][name]["X"], dtype=torch.float64).to(D)
        X = pp.LieTensor(g, ltype=getattr(pp, name + "_type"))
        L = X.Log(); EL = L.Exp()
        out[dtype + name] = [t.tensor().double().flatten().tolist() for t in (E, LE, L, EL)]
json.dump(out, sys.stdout)
"""


def order_probe_spec(ctx: Ctx):
    """fixed inputs (anchors + a few ladder elements) evaluated by a fresh interpreter in the opposite call order"""
    rng = ctx.rng
    spec = {"alg": U.ALG}
    for dtype in ("float64", "float32"):
        eps = common.EPS[dtype]
        anchors = anchor_quats(eps)
        sig = anchor_sigmas(eps)
        spec[dtype] = {}
        for name in U.GROUPS:
            rows = []
            for k, (q, _) in enumerate(anchors):
                out = []
                if name in ("SE3", "Sim3"):
                    out += U.vec(rng, TR_ANCHORS[(k + 2) % len(TR_ANCHORS)])
                out += q
                if name in ("RxSO3", "Sim3"):
                    out.append(math.exp(sig[(k * 7 + 1) % len(sig)]))
                rows.append(out)
            xs = [gen_alg_item(rng, name, eps)[0] for _ in range(40)]
            spec[dtype][name] = {"X": U.to_dtype_exact(rows, dtype)[1].tolist(), "x": U.to_dtype_exact(xs, dtype)[1].tolist()}
    return spec


def order_probe_start(ctx: Ctx):
    import json
    import subprocess
    import sys
    spec = order_probe_spec(ctx)
    env = dict(os.environ, OMP_NUM_THREADS="1")
    p = subprocess.Popen([sys.executable, "-W", "ignore", "-c", ORDER_PROBE, str(common.REPO)], stdin=subprocess.PIPE,
                         stdout=subprocess.PIPE, stderr=subprocess.PIPE, text=True, env=env)
    p.stdin.write(json.dumps(spec))
    p.stdin.close()
    return spec, p


def order_probe_finish(ctx: Ctx, spec, p):
    """same inputs in this process (which by now has a long call history, float64 first): results must be bit-identical"""
    import json
    P = U.pp()
    try:
        out = p.stdout.read()
        err = p.stderr.read()
        rc = p.wait(timeout=300)
    except Exception as e:
        raise common.InfraError(f"order probe did not finish: {e}")
    if rc != 0:
        if rc < 0 or "ModuleNotFoundError" in err or "MemoryError" in err or "ImportError" in err:
            raise common.InfraError(f"order probe crashed: {err[-400:]}")
        # the probe script itself only calls Exp / Log and reads .tensor(): anything else that trips it is the implementation
        ctx.fail({"kind": "order", "stream": "order"}, f"order raises: a fresh interpreter calling float32 first failed: {err.strip().splitlines()[-1][:200] if err.strip() else rc}")
        return
    other = json.loads(out)
    for dtype in ("float64", "float32"):
        D = U.dt(dtype)
        for name in U.GROUPS:
            a = torch.tensor(spec[dtype][name]["x"], dtype=torch.float64).to(D)
            x = P.LieTensor(a, ltype=getattr(P, U.ALG[name] + "_type"))
            g = torch.tensor(spec[dtype][name]["X"], dtype=torch.float64).to(D)
            X = P.LieTensor(g, ltype=U.ltype(name))
            try:
                E = x.Exp()
                L = X.Log()
                mine = [t.tensor().double().flatten() for t in (E, E.Log(), L, L.Exp())]
            except Exception as ex:
                ctx.fail({"kind": "order", "type": name, "dtype": dtype}, f"raises {name}: Exp/Log on the fixed corpus raised "
                         f"{type(ex).__name__}: {str(ex)[:120]}")
                continue
            ctx.count(f"order.{name}.{dtype}")
            ctx.note_case(("order", name, dtype), True)
            if any(not bool(torch.isfinite(m).all()) for m in mine):
                ctx.fail({"kind": "order", "type": name, "dtype": dtype}, f"nonfinite {name}: Exp / Log of the fixed corpus contains nan/inf ({dtype})")
                continue
            for nm, m, o in zip(("Exp(x)", "Log(Exp(x))", "Log(X)", "Exp(Log(X))"), mine, other[dtype + name]):
                o = torch.tensor(o, dtype=torch.float64)
                same = m.shape == o.shape and bool(torch.equal(torch.nan_to_num(m, nan=1e33), torch.nan_to_num(o, nan=1e33)))
                if not same and m.shape == o.shape:
                    width0 = (U.ADIM if nm.startswith("Log") else U.GDIM)[name]
                    rs = o.reshape(-1, width0).abs().amax(-1, keepdim=True).clamp(min=1.0).expand(-1, width0).flatten()
                    if bool(((m - o).abs() <= 8 * common.EPS[dtype] * rs).all()):
                        ctx.count("order.roundoff-only-difference")   # e.g. another BLAS thread count: not a history effect
                        same = True
                if not same:
                    k = int((torch.nan_to_num(m - o, nan=1e33).abs() > 0).nonzero()[0]) if m.shape == o.shape else 0
                    width = (U.ADIM if nm.startswith("Log") else U.GDIM)[name]
                    item = k // width
                    src = spec[dtype][name]["X" if nm.endswith("(X)") or nm.endswith("(X))") else "x"][item]
                    ctx.fail({"kind": "order", "type": name, "dtype": dtype, "item": src, "which": nm},
                             f"order {name}: {nm} depends on the call history — a fresh interpreter that used float32 first returns a "
                             f"different value on the same input ({dtype}, item {item}: {float(m[k])!r} here vs {float(o[k])!r} there)")
                    break


# ----------------------------------------------------------------------------- entry points

def run_cases(ctx: Ctx, n_group, n_alg):
    rng = ctx.rng
    pend = []
    kinds = ["group"] * n_group + ["alg"] * n_alg
    rng.shuffle(kinds)
    for ci, kind in enumerate(kinds):
        name = U.GROUPS[ci % 4] if ci < 16 else rng.choice(U.GROUPS)
        dtype = rng.choice(["float64", "float64", "float32"])
        if kind == "group":
            case = make_group_case(rng, name, dtype, ci)
            eval_group_case(ctx, case, pend)
        else:
            case = make_alg_case(rng, name, dtype, ci)
            eval_alg_case(ctx, case, pend)
        if ci % (10 if ctx.quick else 30) == 3 and int(math.prod(case["shape"])) >= 2:
            check_views_and_batch(ctx, case)
        if ci % 40 == 0:
            ctx.sample({k: case[k] for k in ("kind", "type", "dtype", "shape")} | {"regimes": case["tags"][:4],
                       "first_item": (case.get("X") or case.get("x"))[0] if (case.get("X") or case.get("x")) else None}, cap=10)
        if len(pend) > 6000:
            flush(ctx, pend)
    flush(ctx, pend)


# ----------------------------------------------------------------------------- views, aliases, item-wise = batched

K_SAME = 64.0    # two evaluations of the same item by the same code: 64 ulp per block, relative to the block


def same_err(a, b, width, dtype):
    """max over rows of blockless relative difference |a-b| / (64·eps·max|row|) of two (n,width) float64 tensors"""
    if a.shape != b.shape:
        return float("inf"), 0
    a, b = torch.nan_to_num(a, nan=1e33), torch.nan_to_num(b, nan=1e33)
    sc = b.abs().amax(-1, keepdim=True).clamp(min=1e-300)
    r = ((a - b).abs() / (K_SAME * common.EPS[dtype] * sc)).amax(-1)
    k = int(r.argmax()) if r.numel() else 0
    return (float(r.max()) if r.numel() else 0.0), k


def nonfinite_fail(ctx, case, name, label, t, dtype, rows=None, key=None):
    """lesson 38: in the probes that compare two evaluations of the same item (where nan_to_num makes NaN equal NaN) a non-finite
    result for a finite valid input is reported on its own, with the offending item as replay. Log / Exp / Inv have no input in the
    property's domain for which a non-finite value is the specified result."""
    tt = t.detach().double().reshape(-1, t.shape[-1]) if t.dim() > 0 else t.detach().double().reshape(1, 1)
    ok = torch.isfinite(tt).all(-1)
    if bool(ok.all()):
        return False
    k = int((~ok).nonzero()[0])
    c = dict(case)
    if rows is not None and key is not None:
        r2 = rows.double().reshape(-1, rows.shape[-1])
        c = small({**case, key: r2.tolist(), "shape": [r2.shape[0]], "tags": []}, min(k, r2.shape[0] - 1))
    ctx.fail(c, f"nonfinite {name}: {label} returns nan/inf for item {k} of a finite valid input ({dtype}): {tt[k].tolist()}")
    return True


def tin_of(in_kind, name, rows):
    """natural scale of the translation block of a result: the input translation magnitude times the norm of the coupling matrix
    it is multiplied by (W or W⁻¹: at most max(s, 1/s) = e^|σ|). Two evaluations of the same item by different kernels (batched
    vs single matmul) legitimately differ by an ulp of THAT scale when W·τ cancels (θ near 2π), not by an ulp of the result."""
    rows = rows.double().reshape(-1, rows.shape[-1])
    if in_kind == "group":
        if U.TSL[name] is None:
            return None
        t = rows[:, U.TSL[name]].abs().amax(-1, keepdim=True)
        if U.SIDX[name] is not None:
            sc = rows[:, U.SIDX[name]:U.SIDX[name] + 1].abs().clamp(min=1e-300)
            t = t * torch.maximum(sc, 1.0 / sc)
        return t
    if U.TAUSL[name] is None:
        return None
    t = rows[:, U.TAUSL[name]].abs().amax(-1, keepdim=True)
    if U.SIGIDX[name] is not None:
        t = t * rows[:, U.SIGIDX[name]:U.SIGIDX[name] + 1].abs().clamp(max=50.0).exp()
    return t


def block_same(name, kind, a, b, dtype, tin=None):
    """per-block version: rotation / translation / scale blocks each relative to their own magnitude (`tin`: per-row natural
    scale of the translation block, see tin_of)"""
    worst, wk = 0.0, 0
    if kind == "alg":
        sls = [U.PHISL[name]] + ([U.TAUSL[name]] if U.TAUSL[name] is not None else []) + \
              ([slice(U.SIGIDX[name], U.SIGIDX[name] + 1)] if U.SIGIDX[name] is not None else [])
    else:
        sls = [U.QSL[name]] + ([U.TSL[name]] if U.TSL[name] is not None else []) + \
              ([slice(U.SIDX[name], U.SIDX[name] + 1)] if U.SIDX[name] is not None else [])
    if a.shape != b.shape:
        return float("inf"), 0
    tsl = U.TAUSL[name] if kind == "alg" else U.TSL[name]
    for sl in sls:
        if tin is not None and sl == tsl and tin.shape[0] == a.shape[0]:
            aa, bb = torch.nan_to_num(a[:, sl], nan=1e33), torch.nan_to_num(b[:, sl], nan=1e33)
            sc = torch.maximum(bb.abs().amax(-1, keepdim=True), tin).clamp(min=1e-300)
            rr = ((aa - bb).abs() / (K_SAME * common.EPS[dtype] * sc)).amax(-1)
            r, k = (float(rr.max()), int(rr.argmax())) if rr.numel() else (0.0, 0)
        else:
            r, k = same_err(a[:, sl], b[:, sl], 0, dtype)
        if r > worst:
            worst, wk = r, k
    return worst, wk


def ops_of(kind, name):
    P = U.pp()
    if kind == "group":
        return {"Log": (lambda o: o.Log(), "alg"), "Exp(Log)": (lambda o: o.Log().Exp(), "grp"), "Log(Inv)": (lambda o: o.Inv().Log(), "alg")}
    return {"Exp": (lambda o: o.Exp(), "grp"), "Log(Exp)": (lambda o: o.Exp().Log(), "alg")}


@guarded
def check_views_and_batch(ctx: Ctx, case):
    """(a) item-wise = batched: every op on the (mixed-regime) batch equals the same op on each item alone;
    (b) views: the same batch presented as a strided slice of a larger buffer, as a permuted (non-contiguous) tensor, as an
    expanded (stride-0) tensor and as the caller's own tensor re-used after the call gives the same values, leaves the
    argument bit-identical and the storage around the view untouched; (c) the same object passed twice (X.Log() while X is
    also referenced by a second LieTensor sharing storage)."""
    P = U.pp()
    kind, name, dtype = case["kind"], case["type"], case["dtype"]
    D = U.dt(dtype)
    width = U.GDIM[name] if kind == "group" else U.ADIM[name]
    lt_ = U.ltype(name) if kind == "group" else getattr(P, U.ALG[name] + "_type")
    rows = torch.tensor(case["X" if kind == "group" else "x"], dtype=torch.float64).reshape(-1, width).to(D)
    n = rows.shape[0]
    key = "X" if kind == "group" else "x"

    def item_case(i, **kw):
        return small({**case, "shape": [n]}, i, **kw)

    for label, (fn, okind) in ops_of(kind, name).items():
        ow = (U.ADIM if okind == "alg" else U.GDIM)[name]
        try:
            ref = fn(P.LieTensor(rows.clone(), ltype=lt_)).tensor().double().reshape(-1, ow)
        except Exception as ex:
            ctx.fail(case, f"raises {name}: {label} raised {type(ex).__name__}: {str(ex)[:120]}")
            continue
        if nonfinite_fail(ctx, case, name, label, ref, dtype, rows, key):
            continue
        # (a) each item alone
        sel = list(range(n)) if n <= 48 else sorted(set(range(len(label) % max(1, n // 40), n, max(1, n // 40))) | {0, n - 1})   # cost cap: ~40 items alone, another residue class per op
        try:
            single = torch.cat([fn(P.LieTensor(rows[i:i + 1].clone(), ltype=lt_)).tensor().double().reshape(-1, ow) for i in sel])
        except Exception as ex:
            ctx.fail(case, f"raises {name}: {label} on a single item raised {type(ex).__name__}: {str(ex)[:120]}")
            continue
        r, k = block_same(name, okind, ref[sel], single, dtype, tin_of(kind, name, rows[sel]))
        k = sel[k] if r > 0 else 0
        ctx.count(f"batch-vs-item.{label}.{name}")
        ctx.note_case(("batch-vs-item", label, name, dtype, n), True)
        if not r <= 1.0:
            ctx.fail(item_case(k, batch=case[key], which=label),
                     f"batch {name}: {label} of item {k} inside a mixed batch of {n} differs from {label} of the item alone by "
                     f"{r:.3g}×64 ulp ({dtype}): batched {ref[k].tolist()} vs alone {single[sel.index(k)].tolist()}")
        # (b) views
        variants = {}
        buf = torch.full((2 * n + 1, width + 3), 7.25, dtype=D)
        buf[1::2, 2:2 + width] = rows
        variants["strided-slice"] = (buf[1::2, 2:2 + width], buf, rows)
        if n >= 2 and n % 2 == 0:
            base = rows.reshape(2, n // 2, width).permute(1, 0, 2).contiguous()      # (n/2, 2, w) contiguous
            variants["permuted"] = (base.permute(1, 0, 2), base, rows.reshape(2, n // 2, width))
        one = rows[:1].clone()
        variants["expanded"] = (one.expand(3, width), one, rows[:1].repeat(3, 1))
        for vname, (view, backing, plain) in variants.items():
            before = backing.clone()
            try:
                got = fn(P.LieTensor(view, ltype=lt_)).tensor().double().reshape(-1, ow)
                want = fn(P.LieTensor(plain.clone().reshape(view.shape), ltype=lt_)).tensor().double().reshape(-1, ow)
            except Exception as ex:
                ctx.fail(case | {"view": vname}, f"view {name}: {label} on a {vname} view raised {type(ex).__name__}: {str(ex)[:120]} ({dtype})")
                continue
            ctx.count(f"view.{vname}.{name}")
            ctx.note_case(("view", vname, label, name, dtype), True)
            if not torch.equal(torch.nan_to_num(backing, nan=1e33), torch.nan_to_num(before, nan=1e33)):
                ctx.fail(case | {"view": vname}, f"view {name}: {label} wrote into the caller's buffer ({vname} view, {dtype})")
            r, k = block_same(name, okind, got, want, dtype, tin_of(kind, name, plain))
            if not r <= 1.0:
                ctx.fail(case | {"view": vname}, f"view {name}: {label} on a {vname} view differs from the contiguous copy by {r:.3g}×64 ulp "
                         f"(row {k}: {got[k].tolist()} vs {want[k].tolist()}, {dtype})")
        # (c) the caller's tensor wrapped twice (aliases) and used again after the call
        try:
            shared = rows.clone()
            A, B = P.LieTensor(shared, ltype=lt_), P.LieTensor(shared, ltype=lt_)
            r1 = fn(A).tensor().double().reshape(-1, ow)
            r2 = fn(B).tensor().double().reshape(-1, ow)
            if not torch.equal(shared, rows):
                ctx.fail(case, f"view {name}: {label} modified the caller's tensor ({dtype})")
            rr, k = block_same(name, okind, r2, r1, dtype, tin_of(kind, name, rows))
            if not rr <= 1.0:
                ctx.fail(item_case(k), f"view {name}: {label} through a second LieTensor sharing the storage differs ({dtype})")
        except Exception as ex:
            ctx.fail(case, f"raises {name}: {label} on aliased LieTensors raised {type(ex).__name__}: {str(ex)[:120]}")


# ----------------------------------------------------------------------------- glue: dispatch, shapes, dtype threshold

LTYPES = ["SO3", "so3", "SE3", "se3", "Sim3", "sim3", "RxSO3", "rxso3"]
GROUP_OF = {"so3": "SO3", "se3": "SE3", "sim3": "Sim3", "rxso3": "RxSO3"}


def run_dispatch(ctx: Ctx):
    """the wrappers between the user's call and the modelled cores (lean/Pose/Model/LieDispatch.lean):
    (a) the LieType table (dimension, embedding, manifold, on_manifold) of the eight singletons;
    (b) torch.finfo(dtype).eps for the four floating dtypes — exact equality with the model's DType.eps;
    (c) LieTensor(data, ltype=t).Log() / .Exp() / .Inv() for all eight types × batch shapes (rank 1..3, empty batch, wrong last
        extent): returned ltype, shape and values, or the kind of the refusal (AssertionError of the constructor, AttributeError
        of LieType.Log/Exp), against the model's lieLog / lieExp / lieInv evaluated with the model's own dtype threshold."""
    P = U.pp()
    rng = ctx.rng
    # (a)
    reps = ctx.driver.run([f"ltype.table {t}" for t in LTYPES])
    for t, rep in zip(LTYPES, reps):
        lt = getattr(P, t + "_type")
        got = [int(lt.dimension[0]), int(lt.embedding[0]), int(lt.manifold[0]), 1 if lt.on_manifold else 0]
        st, toks = common.parse_reply(rep)
        ctx.count("dispatch.table")
        ctx.note_case(("dispatch.table", t), True)
        if st != "ok" or [int(x) for x in toks] != got:
            ctx.fail({"kind": "dispatch", "type": t}, f"table {t}: (dimension, embedding, manifold, on_manifold) of {t}_type is {got}, documented/model {rep}")
    # (b)
    dts = ["float64", "float32", "float16", "bfloat16"]
    reps = ctx.driver.run([f"dtype.eps {d}" for d in dts])
    for d, rep in zip(dts, reps):
        got = torch.finfo(getattr(torch, d)).eps
        ctx.count("dispatch.eps")
        ctx.note_case(("dispatch.eps", d), True)
        if common.reply_nums(rep)[0] != common.fr(got):
            ctx.disagree("dispatch", {"kind": "dispatch", "dtype": d}, f"torch.finfo({d}).eps = {got!r} differs from the model's DType.eps")
    # (c)
    lines, metas = [], []
    for t in LTYPES:
        grp = t not in GROUP_OF
        gname = t if grp else GROUP_OF[t]
        lt = getattr(P, t + "_type")
        d0 = U.GDIM[gname] if grp else U.ADIM[gname]
        for dtype in ("float64", "float32"):
            eps = common.EPS[dtype]
            D = U.dt(dtype)
            anchors = anchor_quats(eps)
            for si, shape in enumerate([(d0,), (2, d0), (3, d0), (1, 3, d0), (2, 1, 2, d0), (0, d0), (3, d0 + 1), (d0 - 1,), (2, d0 + 2)]):
                n = int(math.prod(shape[:-1]))
                rows = []
                for kk in range(n):
                    if shape[-1] != d0:
                        rows.append([0.25 * (j + 1) for j in range(shape[-1])])
                    elif grp:
                        rows.append(gen_group_item(rng, gname, eps, anchors, kk)[0])
                    else:
                        rows.append(gen_alg_item(rng, gname, eps)[0])
                T = torch.tensor(rows, dtype=torch.float64).reshape(shape).to(D) if n else torch.zeros(shape, dtype=D)
                for op in ("Log", "Exp", "Inv"):
                    case = {"kind": "dispatch", "type": t, "dtype": dtype, "shape": list(shape), "op": op, "data": T.double().reshape(-1).tolist()}
                    ctx.count(f"dispatch.{op}.{t}")
                    ctx.note_case(("dispatch", op, t, dtype, shape), True)
                    try:
                        X = P.LieTensor(T.clone(), ltype=lt)
                        Y = getattr(X, op)()
                        got = ("ok", [k2 for k2 in LTYPES if getattr(P, k2 + "_type") is Y.ltype or getattr(P, k2 + "_type") == Y.ltype][:1],
                               list(Y.shape), Y.tensor().double().reshape(-1).tolist())
                    except (AssertionError, AttributeError, NotImplementedError) as ex:
                        got = ("err", type(ex).__name__)
                    except Exception as ex:
                        if n == 0:       # an empty batch reaching a LAPACK kernel: outside the documented usage — observation only
                            ctx.count(f"dispatch-observation.empty-batch {op} {t} raises {type(ex).__name__}")
                            continue
                        ctx.fail(case, f"raises {t}: {op} on shape {shape} raised {type(ex).__name__}: {str(ex)[:120]} ({dtype})")
                        continue
                    lines.append(f"lie.{op} {t} {dtype} {len(shape)} " + " ".join(map(str, shape)) + (" " + common.wire_list(case["data"]) if case["data"] else ""))
                    metas.append((case, got, gname))
    reps = ctx.driver.run(lines)
    for rep, (case, got, gname) in zip(reps, metas):
        st, toks = common.parse_reply(rep)
        t, op, dtype, shape = case["type"], case["op"], case["dtype"], tuple(case["shape"])
        if st == "err":
            want = ("err", toks)
            if got[0] != "err" or got[1] != toks:
                ctx.fail(case, f"dispatch {t}: {op} on shape {shape} ({dtype}) — the code {'returns a result' if got[0] == 'ok' else 'raises ' + got[1]}, "
                         f"the documented behaviour (model) is {toks}")
            continue
        tname, rk = toks[0], int(toks[1])
        wshape = [int(x) for x in toks[2:2 + rk]]
        wvals = U.fl([common.from_wire(x) for x in toks[2 + rk:]])
        if got[0] != "ok":
            ctx.fail(case, f"dispatch {t}: {op} on shape {shape} ({dtype}) raises {got[1]} although the input is valid (model: {tname} of shape {wshape})")
            continue
        if got[1] != [tname] or got[2] != wshape:
            ctx.fail(case, f"dispatch {t}: {op} on shape {shape} ({dtype}) returns ltype {got[1]} shape {got[2]}, expected {tname} {wshape}")
            continue
        w = wshape[-1]
        out_grp = tname not in GROUP_OF
        for i in range(len(wvals) // w if w else 0):
            g_i, w_i = got[3][i * w:(i + 1) * w], wvals[i * w:(i + 1) * w]
            if not finite(g_i):
                ctx.fail(case, f"nonfinite {t}: {op} produced nan/inf in item {i} of shape {shape} ({dtype})")
                break
            src = case["data"][i * shape[-1]:(i + 1) * shape[-1]]
            tsl = U.TSL[gname] if (t not in GROUP_OF) else U.TAUSL[gname]
            tsc = norm(src[tsl]) if tsl is not None else 0.0
            if out_grp:
                r = grp_err(gname, g_i, w_i, dtype, max(tsc, norm(w_i[U.TSL[gname]]) if U.TSL[gname] is not None else 0.0))
            else:
                r = alg_err(gname, g_i, w_i, dtype, tsc, phisc=(norm(src[U.PHISL[gname]]) if t in GROUP_OF else 0.0))
            if op == "Inv" and t in GROUP_OF and g_i != [-v for v in src]:
                ctx.fail(case | {"item": i}, f"alginv {t}: Inv() of an algebra element is not its negation ({dtype}): {g_i} for {src}")
                break
            if any(not v <= 1.0 for v in r.values()):
                # threshold ambiguity is handled by the item streams; here only gross differences matter
                if any(not v <= 64.0 for v in r.values()):
                    ctx.disagree("dispatch", case | {"item": i}, f"lie.{op} {t} {dtype} shape {shape}: item {i} implementation vs model, error/tolerance {r}")
                    break


# ----------------------------------------------------------------------------- API forms, grad modes, copies, memory, sizes

def teq(a, b):
    return a.shape == b.shape and a.dtype == b.dtype and bool(torch.equal(torch.nan_to_num(a, nan=1e33), torch.nan_to_num(b, nan=1e33)))


def raw(t):
    t = t.tensor() if hasattr(t, "ltype") else t
    return t.detach().clone()


@guarded
def check_api_forms(ctx: Ctx, case, forms=True):
    """kinds 10/12/13/14/15 on one batch: every accepted way of making the same call must return the same VALUES
    (function vs method vs ltype method, LieTensor vs plain Tensor vs Parameter, named constructor; plain vs requires_grad leaf
    vs inside a graph vs no_grad vs inference_mode); copies (deepcopy / copy / pickle) follow their own law; results own
    their memory (no overlap with the argument, no internal overlap, writing one returned item changes nothing else)."""
    import copy
    import pickle
    P = U.pp()
    kind, name, dtype = case["kind"], case["type"], case["dtype"]
    D = U.dt(dtype)
    grp = kind == "group"
    width = U.GDIM[name] if grp else U.ADIM[name]
    tname = name if grp else U.ALG[name]
    lt_ = getattr(P, tname + "_type")
    shape = tuple(case["shape"])
    rows = torch.tensor(case["X" if grp else "x"], dtype=torch.float64).reshape(shape + (width,)).to(D)
    ctor = getattr(P, tname)
    if grp:
        ops = {"Log": (lambda o: o.Log(), P.Log, lambda t: lt_.Log(t)),
               "Inv": (lambda o: o.Inv(), P.Inv, lambda t: lt_.Inv(t)),
               "Exp(Log)": (lambda o: o.Log().Exp(), lambda o: P.Exp(P.Log(o)), lambda t: lt_.Log(t).Exp())}
    else:
        ops = {"Exp": (lambda o: o.Exp(), P.Exp, lambda t: lt_.Exp(t)),
               "Log(Exp)": (lambda o: o.Exp().Log(), lambda o: P.Log(P.Exp(o)), lambda t: lt_.Exp(t).Log())}

    def mk():
        return P.LieTensor(rows.clone(), ltype=lt_)

    for label, (meth, func, on_tensor) in ops.items():
        try:
            ref = raw(meth(mk()))
        except Exception as ex:
            ctx.fail(case, f"raises {name}: {label} raised {type(ex).__name__}: {str(ex)[:120]}")
            continue
        if nonfinite_fail(ctx, case, name, label, ref, dtype, rows, "X" if grp else "x"):
            continue
        forms_d = {
            "function form pp.*": lambda: func(mk()),
            "ltype method on a LieTensor": lambda: on_tensor(mk()),
            "ltype method on a plain Tensor": lambda: on_tensor(rows.clone()),
            "named constructor": lambda: meth(ctor(rows.clone())),
            "pp.Parameter": lambda: meth(P.Parameter(mk())),
            "requires_grad leaf": lambda: meth(P.LieTensor(rows.clone().requires_grad_(True), ltype=lt_)),
            "inside an autograd graph": lambda: meth(P.LieTensor(rows.clone().requires_grad_(True) + 0.0, ltype=lt_)),
            "torch.no_grad()": lambda: _with(torch.no_grad(), lambda: meth(mk())),
            "torch.inference_mode()": lambda: _with(torch.inference_mode(), lambda: meth(mk())),
            "no_grad on a requires_grad leaf": lambda: _with(torch.no_grad(), lambda: meth(P.LieTensor(rows.clone().requires_grad_(True), ltype=lt_))),
            "copy.deepcopy": lambda: meth(copy.deepcopy(mk())),
            "copy.copy": lambda: meth(copy.copy(mk())),
            "pickle round trip": lambda: meth(pickle.loads(pickle.dumps(mk()))),
            "user subclass of LieTensor": lambda: meth(_UserLT(P)(rows.clone(), ltype=lt_)),
        }
        for fname, f in (forms_d.items() if forms else ()):
            ctx.count(f"form.{fname}")
            ctx.note_case(("form", fname, label, tname, dtype, shape), True)
            try:
                got = raw(f())
            except Exception as ex:
                if fname in EXOTIC_FORMS:      # scope rule: not documented usage — an observation, not a failure
                    ctx.count(f"form-observation.{fname} raises {type(ex).__name__}")
                else:
                    ctx.fail(case | {"form": fname}, f"form {name}: {label} via {fname} raised {type(ex).__name__}: {str(ex)[:120]} ({dtype})")
                continue
            okind = "alg" if (label in ("Log", "Log(Exp)")) else "grp"
            ow = (U.ADIM if okind == "alg" else U.GDIM)[name]
            same = got.shape == ref.shape and got.dtype == ref.dtype and \
                block_same(name, okind, got.double().reshape(-1, ow), ref.double().reshape(-1, ow), dtype, tin_of(kind, name, rows))[0] <= 1.0
            if not same:
                d = float((got.double() - ref.double()).abs().max()) if got.shape == ref.shape else float("nan")
                ctx.fail(case | {"form": fname}, f"form {name}: {label} via {fname} returns other values than the plain method call "
                         f"(max difference {d:.3e}, shapes {tuple(got.shape)} vs {tuple(ref.shape)}, {got.dtype} vs {ref.dtype})")
        # copies follow their own law
        try:
            A = mk()
            B = copy.deepcopy(A)
            B.tensor().mul_(1.0)
            if grp:
                B.copy_(B.Inv())
            else:
                B.tensor().mul_(0.5)
            if not teq(raw(meth(A)), ref):
                ctx.fail(case, f"copy {name}: updating a deepcopy in place changed {label} of the original ({dtype})")
            if not teq(raw(meth(B)), raw(meth(P.LieTensor(B.tensor().clone(), ltype=lt_)))):
                ctx.fail(case, f"copy {name}: {label} of an updated deepcopy does not describe its current state ({dtype})")
        except Exception as ex:
            ctx.fail(case, f"raises {name}: deepcopy / in-place update raised {type(ex).__name__}: {str(ex)[:120]}")
        # outputs own their memory
        try:
            Xo = mk()
            arg_before = Xo.tensor().clone()
            out = meth(Xo)
            ot = out.tensor() if hasattr(out, "ltype") else out
            a0, a1 = Xo.tensor().untyped_storage().data_ptr(), Xo.tensor().untyped_storage().data_ptr() + Xo.tensor().untyped_storage().nbytes()
            o0 = ot.untyped_storage().data_ptr()
            if a0 <= o0 < a1 and ot.numel() > 0:
                ctx.fail(case, f"memory {name}: the result of {label} shares storage with its argument ({dtype})")
            if ot.numel() > 0 and torch._debug_has_internal_overlap(ot) == 1:
                ctx.fail(case, f"memory {name}: the result of {label} overlaps itself (stride-0 / expanded) — items are not independent ({dtype})")
            flat = ot.detach().reshape(-1, ot.shape[-1]) if ot.dim() > 1 else ot.detach().reshape(1, -1)
            if flat.shape[0] >= 2:
                keep = flat.clone()
                with torch.no_grad():
                    flat[0] += 1.0
                    changed_others = not teq(flat[1:], keep[1:])
                if changed_others:
                    ctx.fail(case, f"memory {name}: writing item 0 of the result of {label} changed other returned items ({dtype})")
            if not teq(Xo.tensor().detach(), arg_before):
                ctx.fail(case, f"memory {name}: writing into the result of {label} changed the argument ({dtype})")
            if not teq(raw(meth(mk())), ref):
                ctx.fail(case, f"memory {name}: writing into the result of {label} changed a later call ({dtype})")
        except Exception as ex:
            ctx.fail(case, f"raises {name}: memory-ownership probe of {label} raised {type(ex).__name__}: {str(ex)[:120]}")


EXOTIC_FORMS = {"pp.Parameter", "torch.inference_mode()", "copy.copy", "pickle round trip", "user subclass of LieTensor"}
_USER_LT = {}


def _UserLT(P):
    """class 21: a user class DERIVED from the shipped LieTensor (adds a method, overrides nothing the property is about) must
    be dispatched like a LieTensor"""
    if "cls" not in _USER_LT:
        class MyPose(P.LieTensor):
            def describe(self):
                return f"MyPose{tuple(self.shape)}"
        _USER_LT["cls"] = MyPose
    return _USER_LT["cls"]


def _with(cm, f):
    with cm:
        return f()


SHAPES = [(1,), (3,), (4,), (7,), (11,), (1, 3), (3, 1), (3, 3), (3, 4), (4, 3), (8, 3), (1, 1, 3), (3, 1, 1),
          (3, 3, 3), (2, 3, 5), (1, 1)]
SHAPES_THOROUGH = [(8,), (3, 7), (6, 3), (5, 3, 2)]


def run_shape_sweep(ctx: Ctx):
    """kind 16: batch extents equal to small special numbers (1, exactly 3, the feature dimensions 3/4/6/7/8, primes) in every
    batch position, for every op of the property (Log, Exp, Inv and their compositions): the batched result must have the batch
    shape and equal, item by item, the same op on the item alone passed WITHOUT batch dimensions."""
    P = U.pp()
    rng = ctx.rng
    for dtype in ("float64", "float32"):
        eps = common.EPS[dtype]
        D = U.dt(dtype)
        anchors = anchor_quats(eps)
        sig = anchor_sigmas(eps)
        shapes = (SHAPES + ([] if ctx.quick else SHAPES_THOROUGH)) if dtype == "float64" else [(3,), (1, 3), (3, 1), (3, 3)]
        for name in U.GROUPS:
            for kind in ("group", "alg"):
                grp = kind == "group"
                width = U.GDIM[name] if grp else U.ADIM[name]
                tname = name if grp else U.ALG[name]
                lt_ = getattr(P, tname + "_type")
                for si, shape in enumerate(shapes):
                    n = int(math.prod(shape))
                    rows = []
                    for k in range(n):
                        if grp:
                            q = anchors[(7 * k + 3 * si + 1) % len(anchors)][0]
                            out = (U.vec(rng, TR_ANCHORS[(k + si) % 5]) if name in ("SE3", "Sim3") else []) + list(q)
                            if name in ("RxSO3", "Sim3"):
                                out.append(math.exp(sig[(k * 5 + si) % len(sig)]))
                        else:
                            out, _ = gen_alg_item(rng, name, eps)
                        rows.append(out)
                    T = torch.tensor(rows, dtype=torch.float64).to(D).reshape(shape + (width,))
                    case = {"kind": kind, "type": name, "dtype": dtype, "shape": list(shape), ("X" if grp else "x"): T.double().reshape(-1, width).tolist(),
                            "tags": [], "id": f"shape-{shape}"}
                    for label, (fn, okind) in ops_of(kind, name).items():
                        ow = (U.ADIM if okind == "alg" else U.GDIM)[name]
                        ctx.count(f"shape.{'x'.join(map(str, shape))}")
                        ctx.note_case(("shape", shape, label, tname, dtype), True)
                        try:
                            got = fn(P.LieTensor(T.clone(), ltype=lt_))
                            gt = got.tensor()
                            alone = torch.stack([fn(P.LieTensor(T.reshape(-1, width)[i].clone(), ltype=lt_)).tensor() for i in range(n)])
                        except Exception as ex:
                            ctx.fail(case, f"size {name}: {label} on batch shape {shape} raised {type(ex).__name__}: {str(ex)[:120]} ({dtype})")
                            continue
                        if nonfinite_fail(ctx, case, name, label, gt, dtype, T, "X" if grp else "x"):
                            continue
                        if tuple(gt.shape) != shape + (ow,) or gt.dtype != D:
                            ctx.fail(case, f"size {name}: {label} on batch shape {shape} returned shape {tuple(gt.shape)} dtype {gt.dtype} ({dtype})")
                            continue
                        r, k = block_same(name, okind, gt.double().reshape(-1, ow), alone.double().reshape(-1, ow), dtype, tin_of(kind, name, T))
                        if not r <= 1.0:
                            ctx.fail(small({**case, "shape": [n]}, k, batch_shape=list(shape), which=label),
                                     f"size {name}: {label} of item {k} in a batch of shape {shape} differs from {label} of the item alone by "
                                     f"{r:.3g}×64 ulp ({dtype}): {gt.reshape(-1, ow)[k].tolist()} vs {alone.reshape(-1, ow)[k].tolist()}")


def error_atomic_probe(ctx: Ctx, spec):
    """kind 11: calls that raise through a documented check (Log of an algebra element, Exp of a group element: AttributeError)
    must leave no trace — the fixed corpus evaluates to bit-identical values before and after them."""
    P = U.pp()

    def corpus():
        out = []
        for dtype in ("float64", "float32"):
            for name in U.GROUPS:
                g = torch.tensor(spec[dtype][name]["X"], dtype=torch.float64).to(U.dt(dtype))
                a = torch.tensor(spec[dtype][name]["x"], dtype=torch.float64).to(U.dt(dtype))
                X = P.LieTensor(g, ltype=U.ltype(name))
                x = P.LieTensor(a, ltype=getattr(P, U.ALG[name] + "_type"))
                out += [raw(X.Log()), raw(X.Inv()), raw(x.Exp()), raw(x.Exp().Log())]
        return out
    try:
        before = corpus()
    except Exception as ex:
        ctx.fail({"kind": "error-atomic"}, f"raises: corpus evaluation raised {type(ex).__name__}: {str(ex)[:120]}")
        return
    bad_calls = []
    for name in U.GROUPS:
        alg_t, grp_t = getattr(P, U.ALG[name] + "_type"), U.ltype(name)
        gd, ad = U.GDIM[name], U.ADIM[name]
        bad_calls += [
            (f"{U.ALG[name]}.Log()", lambda ad=ad, alg_t=alg_t: P.LieTensor(torch.zeros(2, ad, dtype=torch.float64), ltype=alg_t).Log()),
            (f"{name}.Exp()", lambda gd=gd, grp_t=grp_t: P.LieTensor(torch.ones(2, gd, dtype=torch.float64), ltype=grp_t).Exp()),
        ]
    raised = 0
    for label, f in bad_calls:
        try:
            f()
        except Exception:
            raised += 1
        ctx.count("error-atomic.bad-call")
    ctx.count("error-atomic.bad-call.raised", raised)
    try:
        after = corpus()
    except Exception as ex:
        ctx.fail({"kind": "error-atomic"}, f"atomic: after {raised} failing calls the corpus evaluation raises {type(ex).__name__}: {str(ex)[:120]}")
        return
    ctx.note_case(("error-atomic",), True)
    for k, b in enumerate(before):
        if not bool(torch.isfinite(b).all()):
            ctx.fail({"kind": "error-atomic", "index": k}, f"nonfinite: result #{k} of the fixed corpus [Log, Inv, Exp, Log(Exp) per type/dtype] contains nan/inf")
            return
    for k, (b, a) in enumerate(zip(before, after)):
        if not teq(a, b):
            d = float((a.double() - b.double()).abs().max()) if a.shape == b.shape else float("nan")
            ctx.fail({"kind": "error-atomic", "index": k},
                     f"atomic: after calls refused by the documented checks (Log of an algebra element, Exp of a group element) result #{k} of the fixed corpus "
                     f"[Log, Inv, Exp, Log(Exp) per type/dtype] changed by {d:.3e}")
            break


def interleave_probe(ctx: Ctx, spec):
    """kind 17: the fixed corpus evaluated in several call orders inside this process (types reversed, dtypes alternating, all
    Exp before all Log, group/algebra interleaved): every result must be bit-identical to the first evaluation."""
    P = U.pp()
    jobs = []
    for dtype in ("float64", "float32"):
        for name in U.GROUPS:
            g = torch.tensor(spec[dtype][name]["X"], dtype=torch.float64).to(U.dt(dtype))
            a = torch.tensor(spec[dtype][name]["x"], dtype=torch.float64).to(U.dt(dtype))
            for op in ("Log", "Inv", "Exp", "LogExp", "ExpLog", "LogInv"):
                jobs.append((dtype, name, op, g, a))

    def run_job(j):
        dtype, name, op, g, a = j
        X = P.LieTensor(g.clone(), ltype=U.ltype(name))
        x = P.LieTensor(a.clone(), ltype=getattr(P, U.ALG[name] + "_type"))
        return raw({"Log": lambda: X.Log(), "Inv": lambda: X.Inv(), "Exp": lambda: x.Exp(), "LogExp": lambda: x.Exp().Log(),
                    "ExpLog": lambda: X.Log().Exp(), "LogInv": lambda: X.Inv().Log()}[op]())
    orders = {
        "as listed": list(range(len(jobs))),
        "dtypes alternating": [i for pair in zip(range(len(jobs) // 2), range(len(jobs) // 2, len(jobs))) for i in pair],
        "Sim3 first, float32 first": sorted(range(len(jobs)), key=lambda i: (-U.GROUPS.index(jobs[i][1]), jobs[i][0] != "float32")),
    }
    first = None
    for oname, order in orders.items():
        res = {}
        for i in order:
            try:
                res[i] = run_job(jobs[i])
            except Exception as ex:
                ctx.fail({"kind": "interleave", "order": oname}, f"raises: {jobs[i][2]} on {jobs[i][1]} ({jobs[i][0]}) raised {type(ex).__name__}: {str(ex)[:120]}")
                return
        ctx.count(f"interleave.{oname}")
        ctx.note_case(("interleave", oname), True)
        if first is None:
            first = res
            continue
        for i in range(len(jobs)):
            if not teq(res[i], first[i]):
                dtype, name, op, _, _ = jobs[i]
                d = float((res[i].double() - first[i].double()).abs().max()) if res[i].shape == first[i].shape else float("nan")
                ctx.fail({"kind": "interleave", "order": oname, "type": name, "dtype": dtype, "op": op},
                         f"interleave {name}: {op} ({dtype}) returns other values (max difference {d:.3e}, dtype {res[i].dtype}) when the calls of "
                         f"this process are made in the order '{oname}' — state shared between types / dtypes")
                return


# ----------------------------------------------------------------------------- large batches (class 19), mode orders (class 23)

def run_large_batches(ctx: Ctx):
    """class 19 — internal chunk / block boundaries: batches of 2^k, 2^k ± 1 items (one above 2^14 and one above 2^16 per type
    and entry point), in several shapes with that element count. Oracles that do not need the model on 10^5 items:
    split-consistency f(x) = cat(f(x[:a]), f(x[a:])) for several cut points, f(x)[i] = f(x[i:i+1]) for the first / last / random
    items (64 ulp per block: the same code on the same item), the property's own law Exp(Log X) ≅ X on every item, and the
    model on a sample that includes the LAST item."""
    P = U.pp()
    rng = ctx.rng
    pend = []
    # one torch thread here: OpenMP parallel regions over 10^5-row tensors stall for seconds per barrier when the machine is
    # oversubscribed (measured: 5 s idle → 280 s at load 70 with 4 threads); single-threaded the cost is ~8 s whatever the load
    nthreads = torch.get_num_threads()
    torch.set_num_threads(1)
    try:
        _run_large_batches(ctx, P, rng, pend)
    finally:
        torch.set_num_threads(nthreads)
    flush(ctx, pend)


def _run_large_batches(ctx, P, rng, pend):
    sizes = [(2 ** 14 + 1, [(1, 2 ** 14 + 1)]), (2 ** 16 + 1, [(2 ** 16 + 1,)]), (2 ** 10 - 1, [(3, 341)])]
    if not ctx.quick:
        sizes[0] = (2 ** 14 + 1, [(2 ** 14 + 1,), (1, 2 ** 14 + 1)])
    if not ctx.quick:
        sizes += [(2 ** 17 + 1, [(2 ** 17 + 1,)]), (2 ** 15, [(2 ** 15,), (128, 256)]), (2 ** 13 - 1, [(2 ** 13 - 1,)]),
                  (2 ** 12, [(64, 64), (2 ** 12,)]), (2 ** 10 - 1, [(2 ** 10 - 1,)])]
    for dtype in ("float64", "float32"):
        eps = common.EPS[dtype]
        D = U.dt(dtype)
        anchors = anchor_quats(eps)
        for name in U.GROUPS:
            for kind in ("group", "alg"):
                grp = kind == "group"
                width = U.GDIM[name] if grp else U.ADIM[name]
                lt_ = getattr(P, (name if grp else U.ALG[name]) + "_type")
                base = []
                for kk in range(97):          # 97 distinct items (prime: the tiling is not aligned with any power of two)
                    base.append(gen_group_item(rng, name, eps, anchors, kk)[0] if grp else gen_alg_item(rng, name, eps)[0])
                B = torch.tensor(base, dtype=torch.float64).to(D)
                for n, shapes in (sizes if dtype == "float64" else sizes[:1]):
                    flat = B.repeat((n + 96) // 97, 1)[:n].clone()
                    flat[-1] = B[(n * 7) % 97]            # the last item is not a tiling artefact
                    for shape in shapes:
                        T = flat.reshape(shape + (width,))
                        case = {"kind": kind, "type": name, "dtype": dtype, "shape": list(shape), "id": f"large-{n}", "large": True,
                                "n": n, "tags": []}
                        for label, (fn, okind) in ops_of(kind, name).items():
                            if n > 2 ** 16 and label in ("Exp(Log)", "Log(Exp)"):
                                continue          # compositions are exercised at 2^14+1; the entry points themselves above 2^16
                            ow = (U.ADIM if okind == "alg" else U.GDIM)[name]
                            ctx.count(f"large.{n}")
                            ctx.note_case(("large", n, shape, label, name, kind, dtype), True)
                            try:
                                full = fn(P.LieTensor(T.clone(), ltype=lt_)).tensor()
                                if tuple(full.shape) != shape + (ow,):
                                    ctx.fail(case, f"large {name}: {label} on {n} items (shape {shape}) returned shape {tuple(full.shape)} ({dtype})")
                                    continue
                                fullf = full.double().reshape(-1, ow)
                                if nonfinite_fail(ctx, case, name, label, fullf, dtype, flat, "X" if grp else "x"):
                                    continue
                                bad = None
                                for a in ((2 ** 14, n - 1) if n > 2 ** 16 else (n // 2, 2 ** 14 if n > 2 ** 14 else n // 3, n - 1)):
                                    parts = torch.cat([fn(P.LieTensor(flat[:a].clone(), ltype=lt_)).tensor(),
                                                       fn(P.LieTensor(flat[a:].clone(), ltype=lt_)).tensor()]).double().reshape(-1, ow)
                                    r, k = block_same(name, okind, fullf, parts, dtype, tin_of(kind, name, flat))
                                    if not r <= 1.0:
                                        bad = (f"cut at {a}", k, parts[k].tolist())
                                        break
                                if bad is None:
                                    for i in (0, n - 1, n - 2, rng.randrange(n), rng.randrange(n)):
                                        one = fn(P.LieTensor(flat[i:i + 1].clone(), ltype=lt_)).tensor().double().reshape(-1, ow)
                                        r, _ = block_same(name, okind, fullf[i:i + 1], one, dtype, tin_of(kind, name, flat[i:i + 1]))
                                        if not r <= 1.0:
                                            bad = (f"item {i} alone", i, one[0].tolist())
                                            break
                            except Exception as ex:
                                ctx.fail(case, f"large {name}: {label} on {n} items (shape {shape}) raised {type(ex).__name__}: {str(ex)[:120]} ({dtype})")
                                continue
                            if bad is not None:
                                how, k, other = bad
                                ctx.fail(small({**case, ("X" if grp else "x"): flat.double().tolist(), "shape": [n]}, k, batch_items=n, which=label),
                                         f"large {name}: {label} of item {k} inside a batch of {n} items (shape {shape}) differs from the same item "
                                         f"evaluated in a split batch ({how}): {fullf[k].tolist()} vs {other} ({dtype})")
                # the model and the law oracles on a sample that includes the last items of the largest batch
                n = sizes[1][0]
                idx = [0, 1, n - 2, n - 1] + [rng.randrange(n) for _ in range(4)]
                flat = B.repeat((n + 96) // 97, 1)[:n].clone()
                flat[-1] = B[(n * 7) % 97]
                # evaluate the whole big batch once, then hand the sampled rows (with the batched results) to the item streams
                try:
                    sample_case = {"kind": kind, "type": name, "dtype": dtype, "shape": [len(idx)], ("X" if grp else "x"): flat[idx].double().tolist(),
                                   "tags": ["large-sample"] * len(idx), "id": f"large-sample-{n}"}
                    (eval_group_case if grp else eval_alg_case)(ctx, sample_case, pend)
                    big = P.LieTensor(flat.clone(), ltype=lt_)
                    if grp:
                        L = big.Log().tensor().double()
                        ref = P.LieTensor(flat[idx].clone(), ltype=lt_).Log().tensor().double()
                        what = "Log"
                    else:
                        L = big.Exp().tensor().double()
                        ref = P.LieTensor(flat[idx].clone(), ltype=lt_).Exp().tensor().double()
                        what = "Exp"
                    r, k = block_same(name, "alg" if grp else "grp", L[idx], ref, dtype, tin_of(kind, name, flat[idx]))
                    if not r <= 1.0:
                        ctx.fail(small(sample_case, k, batch_items=n), f"large {name}: {what} of item {idx[k]} of {n} differs between the big batch and a batch of "
                                 f"{len(idx)}: {L[idx][k].tolist()} vs {ref[k].tolist()} ({dtype})")
                except Exception as ex:
                    ctx.fail({"kind": kind, "type": name, "dtype": dtype, "n": n}, f"large {name}: sample evaluation raised {type(ex).__name__}: {str(ex)[:120]}")


def mode_order_probe(ctx: Ctx):
    """class 23 — a module-level cache filled during a call in one grad mode and reused by a later call of the same key
    (shape, dtype, ltype) in another mode. For keys that are FRESH in this process (batch shapes used nowhere else) the same op is
    called on DIFFERENT data in the orders inference_mode→autograd(+backward), no_grad→autograd(+backward), autograd→inference_mode,
    no_grad→inference_mode→autograd; every result must equal the item-wise evaluation of its own data."""
    P = U.pp()
    rng = ctx.rng
    fresh_shapes = iter([(5,), (7,), (11,), (13,), (2, 5), (2, 7), (3, 5), (5, 2), (7, 2), (3, 7), (17,), (19,), (2, 11), (23,), (3, 11), (5, 5)] * 8)
    orders = [("inference", "grad"), ("no_grad", "grad"), ("grad", "inference"), ("no_grad", "inference", "grad")]

    def call(mode, fn, T, lt_):
        if mode == "inference":
            with torch.inference_mode():
                return fn(P.LieTensor(T.clone(), ltype=lt_)).tensor().clone()
        if mode == "no_grad":
            with torch.no_grad():
                return fn(P.LieTensor(T.clone(), ltype=lt_)).tensor().clone()
        X = P.LieTensor(T.clone().requires_grad_(True), ltype=lt_)
        Y = fn(X)
        Y.tensor().sum().backward()           # the autograd call really runs its backward
        return Y.tensor().detach().clone()
    for dtype in ("float64", "float32"):
        eps = common.EPS[dtype]
        D = U.dt(dtype)
        anchors = anchor_quats(eps)
        for name in U.GROUPS:
            for kind in ("group", "alg"):
                grp = kind == "group"
                width = U.GDIM[name] if grp else U.ADIM[name]
                lt_ = getattr(P, (name if grp else U.ALG[name]) + "_type")
                for label, (fn, okind) in ops_of(kind, name).items():
                    ow = (U.ADIM if okind == "alg" else U.GDIM)[name]
                    for order in (orders if dtype == "float64" else orders[:1]):
                        shape = next(fresh_shapes)
                        n = int(math.prod(shape))
                        for step, mode in enumerate(order):
                            rows = [(gen_group_item(rng, name, eps, anchors, kk)[0] if grp else gen_alg_item(rng, name, eps)[0]) for kk in range(n)]
                            T = torch.tensor(rows, dtype=torch.float64).to(D).reshape(shape + (width,))
                            case = {"kind": kind, "type": name, "dtype": dtype, "shape": list(shape), ("X" if grp else "x"): T.double().reshape(-1, width).tolist(),
                                    "tags": [], "id": f"mode-order {'→'.join(order)} step {step}", "modes": list(order)}
                            ctx.count(f"mode-order.{'>'.join(order)}")
                            ctx.note_case(("mode-order", order, step, label, name, kind, dtype), True)
                            try:
                                got = call(mode, fn, T, lt_).double().reshape(-1, ow)
                                if nonfinite_fail(ctx, case, name, label + f" in mode '{mode}'", got, dtype, T, "X" if grp else "x"):
                                    continue
                                pick = sorted(set([0, n - 1] + [rng.randrange(n) for _ in range(3)]))
                                got = got[pick]
                                with torch.no_grad():
                                    alone = torch.stack([fn(P.LieTensor(T.reshape(-1, width)[i].clone(), ltype=lt_)).tensor() for i in pick]).double().reshape(-1, ow)
                            except Exception as ex:
                                if mode == "inference":
                                    ctx.count(f"mode-observation.inference raises {type(ex).__name__}")
                                    continue
                                ctx.fail(case, f"mode {name}: {label} in mode '{mode}' after {list(order[:step])} on a fresh key {shape} raised "
                                         f"{type(ex).__name__}: {str(ex)[:120]} ({dtype})")
                                continue
                            r, k = block_same(name, okind, got, alone, dtype, tin_of(kind, name, T.reshape(-1, width)[pick]))
                            if not r <= 1.0:
                                ctx.fail(small({**case, "shape": [n]}, pick[k], which=label, mode=mode, after=list(order[:step])),
                                         f"mode {name}: {label} in mode '{mode}' after calls in modes {list(order[:step])} with the same (shape, dtype) key "
                                         f"{shape} returns {got[k].tolist()} for an item whose value is {alone[k].tolist()} ({dtype}) — state shared between grad modes")


# ----------------------------------------------------------------------------- round 5: huge batches (34), other ops (32), dtypes (30)

def run_huge(ctx: Ctx):
    """class 34 — sizes beyond the largest block: 2^18+37 (quick) / 2^18+1, 2^18+37, 2^20+1 (thorough) items for the entry points
    Log / Exp / Inv of every type (one call each, single-threaded: ≈ 0.2 s per 2^18 items). Checked: the LAST n % 2^k items for
    k = 5…18 (re-evaluated alone), the items around every 2^k boundary and 64 random items (re-evaluated as a small batch); in
    thorough also split-consistency at 2^18."""
    P = U.pp()
    rng = ctx.rng
    nthreads = torch.get_num_threads()
    torch.set_num_threads(1)
    try:
        sizes = [2 ** 18 + 37, 2 ** 18 + 1] if ctx.quick else [2 ** 18 + 1, 2 ** 18 + 37, 2 ** 19 + 5, 2 ** 20 + 1]
        for dtype in ("float64", "float32"):
            eps = common.EPS[dtype]
            D = U.dt(dtype)
            anchors = anchor_quats(eps)
            for name in U.GROUPS:
                for kind, label, fn, okind in (("group", "Log", lambda o: o.Log(), "alg"), ("group", "Inv", lambda o: o.Inv(), "grp"),
                                               ("alg", "Exp", lambda o: o.Exp(), "grp")):
                    if dtype == "float32" and ctx.quick and label == "Inv":
                        continue
                    grp = kind == "group"
                    width = U.GDIM[name] if grp else U.ADIM[name]
                    ow = (U.ADIM if okind == "alg" else U.GDIM)[name]
                    lt_ = getattr(P, (name if grp else U.ALG[name]) + "_type")
                    base = [(gen_group_item(rng, name, eps, anchors, kk)[0] if grp else gen_alg_item(rng, name, eps)[0]) for kk in range(101)]
                    B = torch.tensor(base, dtype=torch.float64).to(D)
                    for n in sizes:
                        flat = B.repeat((n + 100) // 101, 1)[:n].clone()
                        flat[-1] = B[(n * 7) % 101]
                        case = {"kind": kind, "type": name, "dtype": dtype, "shape": [n], "id": f"huge-{n}", "n": n, "tags": []}
                        ctx.count(f"huge.{n}.{label}")
                        ctx.note_case(("huge", n, label, name, dtype), True)
                        try:
                            full = fn(P.LieTensor(flat.clone(), ltype=lt_)).tensor()
                            if tuple(full.shape) != (n, ow) or full.dtype != D:
                                ctx.fail(case, f"huge {name}: {label} on {n} items returned shape {tuple(full.shape)} dtype {full.dtype} ({dtype})")
                                continue
                            fullf = full.double()
                            idx = set()
                            for kx in (5, 8, 10, 12, 14, 16, 17, 18, 19, 20):
                                r = n % (2 ** kx)
                                if 0 < r <= 4096:
                                    idx.update(range(n - r, n))
                                b = 2 ** kx
                                while b < n:
                                    idx.update(i for i in (b - 1, b, b + 1) if i < n)
                                    b += 2 ** kx if kx >= 16 else n      # every multiple for the big blocks, the first for the small
                            idx.update(rng.randrange(n) for _ in range(64))
                            idx.update((0, n - 1, n - 2))
                            idx = sorted(idx)
                            small_b = fn(P.LieTensor(flat[idx].clone(), ltype=lt_)).tensor().double()
                            r, k = block_same(name, okind, fullf[idx], small_b, dtype, tin_of(kind, name, flat[idx]))
                            if not (r <= 1.0) or not bool(torch.isfinite(fullf[idx]).all()):
                                if bool(torch.isfinite(fullf[idx]).all()) is False:
                                    k = int((~torch.isfinite(fullf[idx]).all(-1)).nonzero()[0])
                                ctx.fail(small({**case, ("X" if grp else "x"): flat[idx].double().tolist(), "shape": [len(idx)]}, k, batch_items=n,
                                               position=idx[k], which=label),
                                         f"huge {name}: {label} of item {idx[k]} inside a batch of {n} items (n mod 2^18 = {n % 2 ** 18}) is "
                                         f"{fullf[idx][k].tolist()} but {small_b[k].tolist()} when the same item is evaluated in a batch of {len(idx)} ({dtype})")
                                continue
                            if not ctx.quick and n > 2 ** 18:
                                head = fn(P.LieTensor(flat[:2 ** 18].clone(), ltype=lt_)).tensor().double()
                                r, k = block_same(name, okind, fullf[:2 ** 18], head, dtype, tin_of(kind, name, flat[:2 ** 18]))
                                if not r <= 1.0:
                                    ctx.fail(small({**case, ("X" if grp else "x"): [flat[k].double().tolist()], "shape": [1]}, 0, batch_items=n, position=k),
                                             f"huge {name}: {label} of item {k} differs between the batch of {n} and its first 2^18 items ({dtype})")
                        except Exception as ex:
                            ctx.fail(case, f"huge {name}: {label} on {n} items raised {type(ex).__name__}: {str(ex)[:120]} ({dtype})")
    finally:
        torch.set_num_threads(nthreads)


def other_ops_probe(ctx: Ctx, spec):
    """class 32 — module-level constants written in place by ANOTHER operation: between two identical evaluations of the fixed
    corpus (Log, Inv, Exp, Log∘Exp of every type and dtype, plus the degenerate shapes: one item without batch dimension, an
    all-1 batch) every other public operation of the module runs — matrix, rotation, translation, scale, Act (3- and 4-vectors),
    @, Adj, AdjT, Jinvp, Retr, Jr, identity constructors — forward and backward, on single items and on batches, and the results
    they return are overwritten in place. The two evaluations must be bit-identical."""
    P = U.pp()
    rng = ctx.rng

    def corpus():
        out = []
        for dtype in ("float64", "float32"):
            D = U.dt(dtype)
            for name in U.GROUPS:
                g = torch.tensor(spec[dtype][name]["X"], dtype=torch.float64).to(D)
                a = torch.tensor(spec[dtype][name]["x"], dtype=torch.float64).to(D)
                for G, A in ((g, a), (g[7], a[3]), (g[9:10].reshape(1, 1, -1), a[5:6].reshape(1, 1, -1))):
                    X = P.LieTensor(G.clone(), ltype=U.ltype(name))
                    x = P.LieTensor(A.clone(), ltype=getattr(P, U.ALG[name] + "_type"))
                    out += [raw(X.Log()), raw(X.Inv()), raw(x.Exp()), raw(x.Exp().Log()), raw(X.Log().Exp())]
        return out
    try:
        before = corpus()
    except Exception as ex:
        ctx.fail({"kind": "other-ops"}, f"raises: corpus evaluation raised {type(ex).__name__}: {str(ex)[:120]}")
        return
    ran = 0
    for dtype in ("float64", "float32"):
        D = U.dt(dtype)
        eps = common.EPS[dtype]
        for name in U.GROUPS:
            alg_t = getattr(P, U.ALG[name] + "_type")
            for shape in ((), (1,), (1, 1), (3,)):
                n = int(math.prod(shape))
                G = torch.tensor([U.gen_group(rng, name, eps, thi=3.0, shi=1.0)[0] for _ in range(n)], dtype=torch.float64).to(D).reshape(shape + (U.GDIM[name],))
                A = torch.tensor([U.gen_algebra(rng, name, eps, big=False, thi=3.0, shi=1.0)[0] for _ in range(n)], dtype=torch.float64).to(D).reshape(shape + (U.ADIM[name],))
                p3 = torch.tensor([1.0, -2.0, 0.5], dtype=D)
                p4 = torch.tensor([1.0, -2.0, 0.5, 1.0], dtype=D)
                calls = [
                    lambda X, x: X.matrix(), lambda X, x: X.rotation().tensor(), lambda X, x: X.translation(), lambda X, x: X.scale(),
                    lambda X, x: X.Act(p3), lambda X, x: X.Act(p4), lambda X, x: (X @ X).tensor(), lambda X, x: (X * X).tensor(),
                    lambda X, x: X.Adj(x).tensor(), lambda X, x: X.AdjT(x).tensor(), lambda X, x: X.Jinvp(x).tensor(), lambda X, x: X.Retr(x).tensor(),
                    lambda X, x: (X + x.tensor()).tensor(), lambda X, x: x.matrix(), lambda X, x: x.Jr(), lambda X, x: (x * 2.0).tensor(),
                    lambda X, x: P.identity_like(X).tensor(), lambda X, x: getattr(P, "identity_" + name)(*shape, dtype=D).tensor(),
                    lambda X, x: getattr(P, "identity_" + U.ALG[name])(*shape, dtype=D).tensor(), lambda X, x: x.Inv().tensor(),
                ]
                for call in calls:
                    for grad in (False, True):
                        try:
                            Xt = G.clone().requires_grad_(grad)
                            xt = A.clone().requires_grad_(grad)
                            X = P.LieTensor(Xt, ltype=U.ltype(name))
                            x = P.LieTensor(xt, ltype=alg_t)
                            r = call(X, x)
                            if grad and r.requires_grad:
                                r.sum().backward()
                            with torch.no_grad():           # the caller overwrites what it was given
                                rr = r.detach() if isinstance(r, torch.Tensor) else None
                                if rr is not None and rr.numel():
                                    rr.mul_(3.0)
                                    rr.add_(7.0)
                            ran += 1
                        except Exception:
                            ctx.count("other-ops.call-raised")
    ctx.count("other-ops.calls", ran)
    try:
        after = corpus()
    except Exception as ex:
        ctx.fail({"kind": "other-ops"}, f"poison: after {ran} calls of other operations the corpus evaluation raises {type(ex).__name__}: {str(ex)[:120]}")
        return
    ctx.note_case(("other-ops",), True)
    names = ["Log", "Inv", "Exp", "Log(Exp)", "Exp(Log)"]
    for k, (b, a) in enumerate(zip(before, after)):
        if not teq(a, b):
            d = float((a.double() - b.double()).abs().max()) if a.shape == b.shape else float("nan")
            grp_i, what = divmod(k, 5)
            dt_i, rest = divmod(grp_i, 12)
            name_i, var = divmod(rest, 3)
            ctx.fail({"kind": "other-ops", "index": k, "op": names[what], "type": U.GROUPS[name_i], "dtype": ("float64", "float32")[dt_i],
                      "variant": ("batch", "single item without batch dimension", "all-1 batch")[var]},
                     f"poison {U.GROUPS[name_i]}: {names[what]} ({('float64', 'float32')[dt_i]}, {('batch', 'single item', 'all-1 batch')[var]}) changed by {d:.3e} after other "
                     f"operations of the module (matrix / Act / @ / Adj / Jinvp / Retr / identity …, forward and backward, results overwritten in "
                     f"place) were called in between — a module-level constant was written in place")
            break


def lowprec_probe(ctx: Ctx):
    """class 30 — the other floating dtypes torch accepts (float16, bfloat16): the result keeps the dtype and agrees with the float64
    evaluation of the same (exactly representable) input to 64·eps of the narrow dtype per block. Outside the property's quantifier
    (float32/float64): an exception is an observation (e.g. linalg.inv has no half kernel: Sim3.Log); a silent dtype change or a
    wrong value is a failure because it would equally hit a caller who stays inside the documented API with autocast tensors."""
    P = U.pp()
    rng = ctx.rng
    for dname, D in (("float16", torch.float16), ("bfloat16", torch.bfloat16)):
        eps_n = float(torch.finfo(D).eps)
        for name in U.GROUPS:
            rows = [U.gen_group(rng, name, common.EPS["float32"], thi=3.0, shi=1.0)[0] for _ in range(24)]
            G = torch.tensor(rows, dtype=torch.float64)
            q = G[:, U.QSL[name]]
            keep = (q[:, 3].abs() > 0.05) & (q[:, :3].norm(dim=-1) > 0.05)          # stay clear of the thresholds of the narrow dtype
            G = G[keep][:12].to(D)
            A = torch.tensor([U.gen_algebra(rng, name, common.EPS["float32"], big=False, thi=3.0, shi=1.0)[0] for _ in range(12)], dtype=torch.float64)
            A = A[(A[:, U.PHISL[name]].norm(dim=-1) > 0.05) & (A[:, U.PHISL[name]].norm(dim=-1) < 2.8)].to(D)
            for kind, T, lt_ in (("group", G, U.ltype(name)), ("alg", A, getattr(P, U.ALG[name] + "_type"))):
                if T.shape[0] == 0:
                    continue
                for label, (fn, okind) in ops_of(kind, name).items():
                    ow = (U.ADIM if okind == "alg" else U.GDIM)[name]
                    case = {"kind": kind, "type": name, "dtype": dname, "shape": [T.shape[0]], ("X" if kind == "group" else "x"): T.double().tolist(), "tags": []}
                    ctx.count(f"lowprec.{dname}")
                    ctx.note_case(("lowprec", dname, label, name, kind), True)
                    try:
                        got = fn(P.LieTensor(T.clone(), ltype=lt_)).tensor()
                    except Exception as ex:
                        ctx.count(f"lowprec-observation.{dname} {name} {label} raises {type(ex).__name__}")
                        continue
                    ref = fn(P.LieTensor(T.double(), ltype=lt_)).tensor()
                    if got.dtype != D or tuple(got.shape) != tuple(ref.shape):
                        ctx.fail(case, f"dtype {name}: {label} of a {dname} LieTensor returns dtype {got.dtype} shape {tuple(got.shape)} (expected {D}, {tuple(ref.shape)})")
                        continue
                    a, b = got.double().reshape(-1, ow), ref.reshape(-1, ow)
                    sls = ([U.PHISL[name]] + ([U.TAUSL[name]] if U.TAUSL[name] is not None else []) + ([slice(U.SIGIDX[name], U.SIGIDX[name] + 1)] if U.SIGIDX[name] is not None else [])) \
                        if okind == "alg" else ([U.QSL[name]] + ([U.TSL[name]] if U.TSL[name] is not None else []) + ([slice(U.SIDX[name], U.SIDX[name] + 1)] if U.SIDX[name] is not None else []))
                    tin = tin_of(kind, name, T)
                    worst = 0.0
                    sig_sl = slice(U.SIGIDX[name], U.SIGIDX[name] + 1) if (okind == "alg" and U.SIGIDX[name] is not None) else None
                    for sl in sls:
                        sc = b[:, sl].abs().amax(-1, keepdim=True).clamp(min=1e-3)
                        if tin is not None and sl == (U.TAUSL[name] if okind == "alg" else U.TSL[name]):
                            sc = torch.maximum(sc, tin)
                        if sl == sig_sl:        # a log-scale is accurate relative to the SCALE: absolute eps·max(1, |σ|)
                            sc = sc.clamp(min=1.0)
                        worst = max(worst, float(((a[:, sl] - b[:, sl]).abs() / (64 * eps_n * sc)).max()))
                    if not worst <= 1.0:
                        ctx.fail(case, f"dtype {name}: {label} in {dname} differs from the float64 evaluation of the same input by {worst:.3g}×64 eps({dname})")


# ----------------------------------------------------------------------------- round 6: layout × regime-minority × size (39, 41)

def permuted_strides(flat, lshape):
    """tensor of shape lshape+(w,) whose batch dimensions have PERMUTED strides: the storage is laid out in the reversed batch-dim
    order and viewed back (what x.transpose / permute / movedim / a Fortran-ordered array give); item [idx] = flat[ravel(idx)]"""
    w = flat.shape[-1]
    T = flat.reshape(tuple(lshape) + (w,))
    r = len(lshape)
    rev = tuple(reversed(range(r))) + (r,)
    store = T.permute(rev).contiguous()           # storage in reversed dim order
    out = store.permute(rev)                      # viewed back: same values, permuted strides
    assert out.shape == T.shape and (r < 2 or not out.is_contiguous())
    return out


def run_layout_minority(ctx: Ctx):
    """classes 39 / 41 — batches of 16…64 items in 2-D / 3-D lshapes with permuted strides in which ONE / A FEW (≤ 1/8) / MOST items are
    EXACTLY degenerate in one block (rotation = identity, scale = 1, translation = 0, or all) and the rest generic. For every
    entry point (Log, Exp∘Log, Log∘Inv, Exp, Log∘Exp): every degenerate item and a sample of generic items of the batched result
    against the same call on the item alone (contiguous clone), and the property's own clauses on EVERY item of the batched result
    computed from the raw components (Exp(Log X) ≅ X, ‖rot Log X‖ ≤ π, Log(Inv X) = −Log X, Log(Exp x) = x below π) — so a batch-global
    fast path or a lost in-place patch is reported with the concrete batch, not as a mere model disagreement."""
    P = U.pp()
    rng = ctx.rng
    shapes = [(6, 4), (9, 5), (2, 3, 4), (4, 4, 4)]
    for dtype in ("float64", "float32"):
        eps = common.EPS[dtype]
        D = U.dt(dtype)
        anchors = [a for a in anchor_quats(eps) if 0.05 < norm(a[0][:3]) and abs(a[0][3]) > 0.05]
        for name in U.GROUPS:
            for kind in ("group", "alg"):
                grp = kind == "group"
                width = U.GDIM[name] if grp else U.ADIM[name]
                lt_ = getattr(P, (name if grp else U.ALG[name]) + "_type")
                blocks = ["rotation"] + (["translation"] if name in ("SE3", "Sim3") else []) + (["scale"] if name in ("RxSO3", "Sim3") else []) + ["all"]
                combos = [(f, b) for f in ("one", "few", "most") for b in blocks]
                use_shapes = shapes if dtype == "float64" else shapes[1::2]
                for si, lshape in enumerate(use_shapes):
                    n = int(math.prod(lshape))
                    # every (fraction, block) pair once per type / kind / dtype, spread over the shapes
                    for (frac, blk) in [cb for j, cb in enumerate(combos) if j % len(use_shapes) == si]:
                        if True:
                            ndeg = 1 if frac == "one" else (max(2, n // 8) if frac == "few" else n - max(2, n // 8))
                            if frac == "few" and 8 * ndeg > n:
                                ndeg = n // 8
                            deg_idx = set(rng.sample(range(n), ndeg))
                            rows = []
                            for i in range(n):
                                if grp:
                                    q = list(anchors[rng.randrange(len(anchors))][0])
                                    t = U.vec(rng, rng.choice([0.3, 1.0, 7.0]))
                                    sg = rng.choice([0.3, -0.7, 1.2, -2.0])
                                    if i in deg_idx:
                                        if blk in ("rotation", "all"):
                                            q = [0.0, 0.0, 0.0, 1.0]
                                        if blk in ("translation", "all"):
                                            t = [0.0, 0.0, 0.0]
                                        if blk in ("scale", "all"):
                                            sg = 0.0
                                    rows.append((t if name in ("SE3", "Sim3") else []) + q + ([math.exp(sg)] if name in ("RxSO3", "Sim3") else []))
                                else:
                                    phi = U.vec(rng, rng.choice([0.2, 0.9, 1.7, 2.6]))
                                    tau = U.vec(rng, rng.choice([0.3, 1.0, 7.0]))
                                    sg = rng.choice([0.3, -0.7, 1.2, -2.0])
                                    if i in deg_idx:
                                        if blk in ("rotation", "all"):
                                            phi = [0.0, 0.0, 0.0]
                                        if blk in ("translation", "all"):
                                            tau = [0.0, 0.0, 0.0]
                                        if blk in ("scale", "all"):
                                            sg = 0.0
                                    rows.append((tau if name in ("SE3", "Sim3") else []) + phi + ([sg] if name in ("RxSO3", "Sim3") else []))
                            flat = torch.tensor(rows, dtype=torch.float64).to(D)
                            T = permuted_strides(flat, lshape)
                            case = {"kind": kind, "type": name, "dtype": dtype, "shape": list(lshape), ("X" if grp else "x"): flat.double().tolist(),
                                    "tags": [], "id": f"layout {frac} {blk}", "layout": "permuted strides", "degenerate_items": sorted(deg_idx),
                                    "degenerate_block": blk}
                            ctx.count(f"layout.{frac}.{blk}")
                            ctx.note_case(("layout", lshape, frac, blk, name, kind, dtype), True)
                            pick = sorted(deg_idx if len(deg_idx) <= 6 else rng.sample(sorted(deg_idx), 6)) + \
                                [i for i in rng.sample(range(n), min(5, n)) if i not in deg_idx]
                            res = {}
                            for label, (fn, okind) in ops_of(kind, name).items():
                                ow = (U.ADIM if okind == "alg" else U.GDIM)[name]
                                try:
                                    before = T.clone()
                                    got = fn(P.LieTensor(T, ltype=lt_)).tensor()
                                    if tuple(got.shape) != tuple(lshape) + (ow,) or got.dtype != D:
                                        ctx.fail(case, f"layout {name}: {label} on permuted-stride shape {lshape} returned shape {tuple(got.shape)} dtype {got.dtype}")
                                        continue
                                    if not torch.equal(T, before):
                                        ctx.fail(case, f"layout {name}: {label} modified its (permuted-stride) argument ({dtype})")
                                    gf = got.double().reshape(-1, ow)
                                    if nonfinite_fail(ctx, case, name, label + " (permuted strides)", gf, dtype, flat, "X" if grp else "x"):
                                        continue
                                    res[label] = gf
                                    alone = torch.stack([fn(P.LieTensor(flat[i].clone(), ltype=lt_)).tensor() for i in pick]).double().reshape(-1, ow)
                                except Exception as ex:
                                    ctx.fail(case, f"layout {name}: {label} on a permuted-stride batch {lshape} raised {type(ex).__name__}: {str(ex)[:120]} ({dtype})")
                                    continue
                                r, k = block_same(name, okind, gf[pick], alone, dtype, tin_of(kind, name, flat[pick]))
                                if not r <= 1.0:
                                    i = pick[k]
                                    ctx.fail(small({**case, "shape": [n]}, i, batch=flat.double().tolist(), lshape=list(lshape), which=label,
                                                   item_is_degenerate=(i in deg_idx)),
                                             f"layout {name}: {label} of item {i} ({'degenerate ' + blk if i in deg_idx else 'generic'}) inside a batch of shape "
                                             f"{lshape} with permuted strides ({frac} item(s) exactly degenerate in '{blk}') is {gf[i].tolist()} but "
                                             f"{alone[k].tolist()} for the item alone ({dtype})")
                            # the property's own clauses on every item of the batched results, from the raw components
                            fl = flat.double().tolist()
                            for i in range(n):
                                x = fl[i]
                                if grp and "Exp(Log)" in res and "Log" in res and "Log(Inv)" in res:
                                    q, t, sc = grp_blocks(name, x)
                                    tsc = norm(t) if t is not None else 0.0
                                    e = grp_err(name, res["Exp(Log)"][i].tolist(), x, dtype, tsc)
                                    lg = res["Log"][i].tolist()
                                    phi, tau, _ = alg_blocks(name, lg)
                                    tausc = max(tsc, norm(tau)) if tau is not None else 0.0
                                    e2 = alg_err(name, res["Log(Inv)"][i].tolist(), lg, dtype, tausc, sign=-1.0)
                                    bad = {k2: round(v, 2) for k2, v in e.items() if not v <= 1.0}
                                    bad2 = {k2: round(v, 2) for k2, v in e2.items() if not v <= 1.0}
                                    if bad or bad2 or not (norm(phi) <= math.pi * (1 + 4 * eps)):
                                        ctx.fail(small({**case, "shape": [n]}, i, batch=fl, lshape=list(lshape), item_is_degenerate=(i in deg_idx)),
                                                 f"layout-law {name}: in a permuted-stride batch {lshape} ({frac} degenerate in '{blk}') item {i} violates "
                                                 f"{'Exp(Log X)≅X ' + str(bad) if bad else ''}{' Log(Inv X)=-Log X ' + str(bad2) if bad2 else ''} ({dtype})")
                                        break
                                if (not grp) and "Log(Exp)" in res:
                                    phi, tau, _ = alg_blocks(name, x)
                                    e = alg_err(name, res["Log(Exp)"][i].tolist(), x, dtype, norm(tau) if tau is not None else 0.0)
                                    bad = {k2: round(v, 2) for k2, v in e.items() if not v <= 1.0}
                                    if bad:
                                        ctx.fail(small({**case, "shape": [n]}, i, batch=fl, lshape=list(lshape), item_is_degenerate=(i in deg_idx)),
                                                 f"layout-law {name}: in a permuted-stride batch {lshape} ({frac} degenerate in '{blk}') Log(Exp(x)) != x for item {i} "
                                                 f"(angle {norm(phi):.3g} below pi); {bad} ({dtype})")
                                        break


TR_ANCHORS = [0.0, 1.0, 1e-3, 37.0, 1e3, 1e-20, 1e6, 1e-30, 1e12]


def run_anchor_sweep(ctx: Ctx):
    """deterministic corner corpus, seen by every seed: every anchor quaternion × every type × both dtypes, with
    translations 0 / tiny / huge and log-scales 0 / ±eps-neighbourhood / ±8 cycling independently; a 50-digit
    mpmath check of the logarithm on a sub-sample (truth independent of the model)"""
    rng = ctx.rng
    pend = []
    for dtype in ("float64", "float32"):
        eps = common.EPS[dtype]
        anchors = anchor_quats(eps)
        sig = anchor_sigmas(eps)
        for name in U.GROUPS:
            rows, tags = [], []
            for k, (q, tag) in enumerate(anchors):
                out = []
                if name in ("SE3", "Sim3"):
                    out += U.vec(rng, TR_ANCHORS[k % len(TR_ANCHORS)])
                out += q
                if name in ("RxSO3", "Sim3"):
                    out.append(math.exp(sig[(k * 5 + 3) % len(sig)]))
                rows.append(out)
                tags.append(tag)
            _, X64 = U.to_dtype_exact(rows, dtype)
            case = {"kind": "group", "type": name, "dtype": dtype, "shape": [len(rows)], "X": X64.tolist(), "tags": tags, "id": f"anchors-{name}-{dtype}"}
            eval_group_case(ctx, case, pend)
            check_views_and_batch(ctx, case)
            check_api_forms(ctx, {**case, "X": case["X"][::5], "tags": tags[::5], "shape": [len(case["X"][::5])]})
            ident = [0.0] * (3 if name in ("SE3", "Sim3") else 0) + [0.0, 0.0, 0.0, 1.0] + ([1.0] if name in ("RxSO3", "Sim3") else [])
            for hom, tg in ((ident, "identity"), (case["X"][40], "generic")):      # homogeneous batches (all items equal)
                check_api_forms(ctx, {**case, "X": [hom] * 3, "tags": [tg] * 3, "shape": [3], "id": f"homogeneous-{tg}"}, forms=False)
            sub = {**case, "X": case["X"][::6], "tags": tags[::6], "shape": [len(case["X"][::6])]}
            mp_check_log(ctx, sub)
            ctx.count(f"mpmath-log.{name}.{dtype}", len(sub["X"]))
    flush(ctx, pend)


def run_algebra_sweep(ctx: Ctx):
    """deterministic algebra corpus: the whole angle ladder (0, tiny, eps-neighbourhood, sqrt(eps), …, π-δ, π, π+δ, 2π±δ, 10)
    × log-scale anchors × translation anchors, every type, both dtypes"""
    rng = ctx.rng
    pend = []
    axes = [[1.0, 0.0, 0.0], [0.0, 0.0, -1.0], [0.6, 0.0, 0.8], [0.36, 0.48, -0.8], [-2 / 7, 3 / 7, 6 / 7]]
    for dtype in ("float64", "float32"):
        eps = common.EPS[dtype]
        lad = common.ladder(eps) + common.ladder_big() + [math.pi * (1 - 8 * eps), math.pi * (1 - 64 * eps), math.pi - 1e-4] + thr_nbrs(eps) \
            + [k * math.pi / 6 for k in range(1, 12)] + [k * math.pi / 4 for k in (1, 3, 5, 7)] + [0.02, 0.03, 0.05, 0.07, 0.2, 0.3]
        sig = anchor_sigmas(eps)
        for name in U.GROUPS:
            rows, tags = [], []
            for k, th in enumerate(lad):
                d = axes[k % len(axes)]
                out = []
                if name in ("SE3", "Sim3"):
                    out += U.vec(rng, TR_ANCHORS[(k + 1) % len(TR_ANCHORS)])
                out += [th * d[0], th * d[1], th * d[2]]
                if name in ("RxSO3", "Sim3"):
                    out.append(sig[(k * 3 + 1) % len(sig)])
                rows.append(out)
                tags.append(f"th{common.sig_mag(th)}")
            if name in ("RxSO3", "Sim3"):       # lesson 38(c): BOTH thresholds of rxso3_Ws hit at once — θ and |σ| each at eps−ulp / eps / eps+ulp
                for tth in thr_nbrs(eps):
                    for tsg in thr_nbrs(eps):
                        for sgn in (1.0, -1.0):
                            rows.append(([1.0, -2.0, 0.5] if name == "Sim3" else []) + [0.0, 0.0, tth, sgn * tsg])
                            tags.append("joint-threshold")
            if name in ("RxSO3", "Sim3"):       # class 20: |σ| == θ bit for bit (axis-aligned so that θ is exact), both signs
                for th in (0.5, 1e-3, 2.0, float(U.to_dtype_exact([[eps * 3]], dtype)[1][0][0])):
                    for sgn in (1.0, -1.0):
                        rows.append(([1.0, -2.0, 0.5] if name == "Sim3" else []) + [0.0, th, 0.0, sgn * th])
                        tags.append("tie|sigma|=theta")
                        for dl in (1e-6, -1e-9):      # class 36: nearly tied
                            rows.append(([1.0, -2.0, 0.5] if name == "Sim3" else []) + [0.0, th, 0.0, sgn * th * (1 + dl)])
                            tags.append("near-tie|sigma|~theta")
            _, x64 = U.to_dtype_exact(rows, dtype)
            case = {"kind": "alg", "type": name, "dtype": dtype, "shape": [len(rows)], "x": x64.tolist(), "tags": tags, "id": f"ladder-{name}-{dtype}"}
            eval_alg_case(ctx, case, pend)
            check_views_and_batch(ctx, case)
            check_api_forms(ctx, {**case, "x": case["x"][::4], "tags": tags[::4], "shape": [len(case["x"][::4])]})
            for hom, tg in (([0.0] * U.ADIM[name], "zero"), (case["x"][19], "generic")):
                check_api_forms(ctx, {**case, "x": [hom] * 3, "tags": [tg] * 3, "shape": [3], "id": f"homogeneous-{tg}"}, forms=False)
    flush(ctx, pend)


def run(ctx: Ctx):
    from . import util_lie as _UL
    def _reads(name):
        return {"Log": lambda o: o.Log().tensor(), "Exp(Log)": lambda o: o.Log().Exp().tensor(), "Inv.Log": lambda o: o.Inv().Log().tensor()}
    _UL.persistent_probe(ctx, _reads)
    _UL.persistent_probe(ctx, lambda name: {"Exp": lambda o: o.Exp().tensor(), "Log(Exp)": lambda o: o.Exp().Log().tensor()},
                         algebra=True)
    spec, proc = order_probe_start(ctx)      # runs concurrently in a fresh interpreter
    check_inverse_contract(ctx, 12)
    run_anchor_sweep(ctx)
    run_algebra_sweep(ctx)
    run_shape_sweep(ctx)
    run_dispatch(ctx)
    mode_order_probe(ctx)
    run_large_batches(ctx)
    run_huge(ctx)
    run_layout_minority(ctx)
    other_ops_probe(ctx, spec)
    lowprec_probe(ctx)
    interleave_probe(ctx, spec)
    error_atomic_probe(ctx, spec)
    run_cases(ctx, ctx.pick(250, 9000), ctx.pick(170, 6000))
    order_probe_finish(ctx, spec, proc)
    if DIAG:
        for k in sorted(_diag):
            print(f"  diag {k}: max error/tol = {_diag[k][0]:.3g}  at {_diag[k][1]}")


def search(ctx: Ctx):
    """after a broken proof / correspondence: hunt for a failing input on the real code with the law oracles on many
    more cases and the mpmath oracle for the logarithm"""
    rng = ctx.rng
    pend = []
    for ci in range(1500):
        name = rng.choice(U.GROUPS)
        dtype = rng.choice(["float64", "float32"])
        case = make_group_case(rng, name, dtype, f"search-{ci}")
        eval_group_case(ctx, case, pend)
        pend.clear()
        if ci < 150:
            mp_check_log(ctx, case)
        case = make_alg_case(rng, name, dtype, f"search-a{ci}")
        eval_alg_case(ctx, case, pend)
        pend.clear()
        if len(ctx.failures) > 20:
            break
    # the disagreeing cases themselves, through the independent mpmath oracle
    for d in ctx.disagreements[:50]:
        c = d["case"]
        if c.get("kind") == "group":
            mp_check_log(ctx, c)
        elif c.get("kind") == "alg":
            mp_check_exp_log(ctx, c)


def replay(ctx: Ctx, case) -> bool:
    c = case["case"] if "case" in case else case
    if c.get("kind") == "order":
        spec, proc = order_probe_start(ctx)
        n0 = len(ctx.failures)
        order_probe_finish(ctx, spec, proc)
        for f in ctx.failures[n0:]:
            print("  fails:", f["what"])
        return len(ctx.failures) == n0
    if "kind" not in c:
        bc = case.get("broken_correspondence") or []
        if not bc:
            print("  nothing to replay in this file")
            return True
        c = bc[0]["case"]
    pend = []
    n0, d0 = len(ctx.failures), len(ctx.disagreements)
    if c["kind"] == "group":
        eval_group_case(ctx, c, pend)
        P = U.pp()
        X = P.LieTensor(torch.tensor(c["X"], dtype=torch.float64).to(U.dt(c["dtype"])), ltype=U.ltype(c["type"]))
        print("  X            =", X.tensor().tolist())
        print("  Log(X)       =", X.Log().tensor().tolist())
        print("  Exp(Log(X))  =", X.Log().Exp().tensor().tolist())
        print("  Log(Inv(X))  =", X.Inv().Log().tensor().tolist())
    else:
        eval_alg_case(ctx, c, pend)
        P = U.pp()
        x = P.LieTensor(torch.tensor(c["x"], dtype=torch.float64).to(U.dt(c["dtype"])), ltype=getattr(P, U.ALG[c["type"]] + "_type"))
        print("  x            =", x.tensor().tolist())
        print("  Log(Exp(x))  =", x.Exp().Log().tensor().tolist())
    if c["kind"] == "group":
        for x in c["X"]:
            qq = x[U.QSL[c["type"]]]
            rep = ctx.driver.run([U.model_call("SO3.LogRegime", common.EPS[c["dtype"]], qq)])[0]
            print("  model regime of SO3_Log =", int(U.fl(common.reply_nums(rep))[0]))
    for p in pend:
        rep = ctx.driver.run([U.model_call(p["op"], common.EPS[p["dtype"]], p["args"])])[0]
        print(f"  model {p['op']:14s} =", U.fl(common.reply_nums(rep)))
    flush(ctx, pend)
    for f in ctx.failures[n0:]:
        print("  fails:", f["what"])
    for d in ctx.disagreements[d0:]:
        print("  model≠implementation:", d["detail"][:300])
    return len(ctx.failures) == n0 and len(ctx.disagreements) == d0
