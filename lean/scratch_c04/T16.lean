import Proofs.Lemmas.AutogradChain
import Proofs.Lemmas.So3Exp
set_option linter.unusedSimpArgs false
set_option maxRecDepth 10000
namespace PP.AD
open PP

theorem norm_zero3 : (⟨0, 0, 0⟩ : Vec3 ℝ).norm = 0 := by simp [Vec3.norm, Vec3.normSq]

theorem so3Jl_zero (eps : ℝ) (h : 0 ≤ eps) : so3Jl eps ⟨0, 0, 0⟩ = Mat3.one := by
  have : ¬ eps < 0 := not_lt.mpr h
  unfold so3Jl so3JlCoef polyK
  simp only [norm_zero3, lt_real, this, decide_false, Bool.false_eq_true, if_false]
  ext <;> lie_unfold <;> norm_num

theorem so3JlInv_zero (eps : ℝ) (h : 0 ≤ eps) : so3JlInv eps ⟨0, 0, 0⟩ = Mat3.one := by
  have : ¬ eps < 0 := not_lt.mpr h
  unfold so3JlInv so3JlInvCoef polyK
  simp only [norm_zero3, lt_real, this, decide_false, Bool.false_eq_true, if_false]
  ext <;> lie_unfold <;> norm_num

theorem calcQ_zero (eps : ℝ) : calcQ eps ⟨⟨0,0,0⟩, ⟨0,0,0⟩⟩ = Mat3.zero := by
  unfold calcQ
  simp only [norm_zero3]
  ext <;> lie_unfold <;> simp

theorem zero3 : (DVec.zero 3 : DVec ℝ) = [0,0,0] := by simp [DVec.zero]

/-- at the zero vector every `*_Jl` is the identity matrix (Taylor branches, no division): `*_Exp.backward` at the
identity element returns the incoming cotangent unchanged — in particular it is finite -/
theorem JlMat_zero (g : Grp) (eps : ℝ) (h : 0 ≤ eps) : JlMat g eps (DVec.zero g.adim) = DMat.one g.adim := by
  cases g
  · simp only [JlMat, Grp.adim, DVec.zero, List.replicate, v3, nth_cons_zero, nth_cons_succ, k_real, Nat.cast_zero]
    rw [so3Jl_zero eps h]
    simp [Mat3.toRows, Mat3.one, Vec3.toList, Vec3.e0, Vec3.e1, Vec3.e2, DMat.one, DVec.basis, List.range, List.range.loop]
  · simp only [JlMat, Grp.adim, DVec.zero, List.replicate, tose3, v3, nth_cons_zero, nth_cons_succ, k_real, Nat.cast_zero, se3Jl]
    rw [so3Jl_zero eps h, calcQ_zero]
    simp [Mat3.toRows, Mat3.one, Mat3.zero, Vec3.zero, Vec3.toList, Vec3.e0, Vec3.e1, Vec3.e2, DMat.one, DVec.basis, List.range,
      List.range.loop, DMat.block, DMat.hcat, DMat.vcat, DMat.zero, DVec.zero]
  · simp only [JlMat, Grp.adim, DVec.zero, List.replicate, torx, v3, nth_cons_zero, nth_cons_succ, k_real, Nat.cast_zero, rxso3Jl]
    rw [so3Jl_zero eps h]
    simp [Mat3.toRows, Mat3.one, Vec3.toList, Vec3.e0, Vec3.e1, Vec3.e2, DMat.one, DVec.basis, List.range,
      List.range.loop, DMat.block, DMat.hcat, DMat.vcat, DMat.zero, DVec.zero]
  · simp only [JlMat, Grp.adim, DVec.zero, List.replicate, tosim, v3, nth_cons_zero, nth_cons_succ, k_real, Nat.cast_zero]
    simp [sim3Jl, sim3ad, Mat3.hat, Mat3.add, Mat3.smul, Mat3.one, Vec3.add, Vec3.smul, Vec3.neg, Vec3.toList, Vec3.e0, Vec3.e1,
      Vec3.e2, DVec.zero, DMat.mul, DMat.transpose, DMat.ncols, DMat.col, DMat.add, DMat.smul, DMat.one, DVec.basis,
      DVec.dot, DVec.sum, DVec.add, DVec.smul, List.range, List.range.loop]

theorem JlInvMat_zero (g : Grp) (eps : ℝ) (h : 0 ≤ eps) : JlInvMat g eps (DVec.zero g.adim) = DMat.one g.adim := by
  cases g
  · simp only [JlInvMat, Grp.adim, DVec.zero, List.replicate, v3, nth_cons_zero, nth_cons_succ, k_real, Nat.cast_zero]
    rw [so3JlInv_zero eps h]
    simp [Mat3.toRows, Mat3.one, Vec3.toList, Vec3.e0, Vec3.e1, Vec3.e2, DMat.one, DVec.basis, List.range, List.range.loop]
  · simp only [JlInvMat, Grp.adim, DVec.zero, List.replicate, tose3, v3, nth_cons_zero, nth_cons_succ, k_real, Nat.cast_zero,
      se3JlInv]
    rw [so3JlInv_zero eps h, calcQ_zero]
    have : ((Mat3.one.mul Mat3.zero).mul Mat3.one).neg = (Mat3.zero : Mat3 ℝ) := by ext <;> lie_unfold <;> simp
    rw [this]
    simp [Mat3.toRows, Mat3.one, Mat3.zero, Vec3.zero, Vec3.toList, Vec3.e0, Vec3.e1, Vec3.e2, DMat.one, DVec.basis, List.range,
      List.range.loop, DMat.block, DMat.hcat, DMat.vcat, DMat.zero, DVec.zero]
  · simp only [JlInvMat, Grp.adim, DVec.zero, List.replicate, torx, v3, nth_cons_zero, nth_cons_succ, k_real, Nat.cast_zero,
      rxso3JlInv]
    rw [so3JlInv_zero eps h]
    simp [Mat3.toRows, Mat3.one, Vec3.toList, Vec3.e0, Vec3.e1, Vec3.e2, DMat.one, DVec.basis, List.range,
      List.range.loop, DMat.block, DMat.hcat, DMat.vcat, DMat.zero, DVec.zero]
  · simp only [JlInvMat, Grp.adim, DVec.zero, List.replicate, tosim, v3, nth_cons_zero, nth_cons_succ, k_real, Nat.cast_zero]
    simp [sim3JlInv, sim3ad, Mat3.hat, Mat3.add, Mat3.smul, Mat3.one, Vec3.add, Vec3.smul, Vec3.neg, Vec3.toList, Vec3.e0, Vec3.e1,
      Vec3.e2, DVec.zero, DMat.mul, DMat.transpose, DMat.ncols, DMat.col, DMat.add, DMat.sub, DMat.smul, DMat.one, DVec.basis,
      DVec.dot, DVec.sum, DVec.add, DVec.sub, DVec.smul, List.range, List.range.loop]

/-- row vector times the identity -/
theorem vecMul_one (n : Nat) (hn : n = 3 ∨ n = 4 ∨ n = 6 ∨ n = 7) (v : DVec ℝ) (hv : v.length = n) :
    DMat.vecMul v (DMat.one n) = v := by
  rcases hn with rfl | rfl | rfl | rfl
  · obtain ⟨a, b, c, rfl⟩ := len3 v hv
    simp [DMat.vecMul, DMat.transpose, DMat.ncols, DMat.col, DMat.one, DVec.basis, List.range, List.range.loop, ddot_cons]
  · obtain ⟨a, b, c, d, rfl⟩ := len4 v hv
    simp [DMat.vecMul, DMat.transpose, DMat.ncols, DMat.col, DMat.one, DVec.basis, List.range, List.range.loop, ddot_cons]
  · obtain ⟨a, b, c, d, e, f, rfl⟩ := len6 v hv
    simp [DMat.vecMul, DMat.transpose, DMat.ncols, DMat.col, DMat.one, DVec.basis, List.range, List.range.loop, ddot_cons]
  · obtain ⟨a, b, c, d, e, f, g, rfl⟩ := len7 v hv
    simp [DMat.vecMul, DMat.transpose, DMat.ncols, DMat.col, DMat.one, DVec.basis, List.range, List.range.loop, ddot_cons]

theorem adim_cases (g : Grp) : g.adim = 3 ∨ g.adim = 4 ∨ g.adim = 6 ∨ g.adim = 7 := by cases g <;> simp [Grp.adim]

/-- **no NaN at the zero vector**: `*_Exp.backward` at `x = 0` is the total, division-free map `c ↦ c[:-1]` -/
theorem expB_zero (g : Grp) (eps : ℝ) (h : 0 ≤ eps) (go : DVec ℝ) :
    expB g eps (DVec.zero g.adim) go = headN g.adim go := by
  unfold expB
  rw [JlMat_zero g eps h, vecMul_one _ (adim_cases g) _ (length_headN _ _)]

/-- **no NaN at the identity**: `*_Log.backward` with saved output `0` (= `Log` of the identity) is `c ↦ (c, 0)` -/
theorem logB_zero (g : Grp) (eps : ℝ) (h : 0 ≤ eps) (go : DVec ℝ) (hgo : go.length = g.adim) :
    logB g eps (DVec.zero g.adim) go = pad0 go := by
  unfold logB
  rw [JlInvMat_zero g eps h, vecMul_one _ (adim_cases g) _ hgo]
end PP.AD
