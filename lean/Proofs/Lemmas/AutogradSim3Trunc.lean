/-
C04 (pass 4, auditor's item 3): the documented truncation of `sim3_Jl` / `sim3_Jl_inv` as bounds against the exact series
`J_l(a) = Σ aⁿ/(n+1)!`, `a = ad ξ` (the left Jacobian of the matrix exponential: `J_l(a)·a = exp(a) − 1`).  The series lemmas are
C05's (`Proofs/Lemmas/TangentBern.lean`); here they are stated for the matrices that `sim3_Exp.backward` / `Sim3_Log.backward`
multiply by.  NOT proved: that `J_l(ad ξ)` is the derivative of the *coded* `sim3_Exp` in PyPose storage coordinates.
-/
import Proofs.Lemmas.TangentBern
import Proofs.Lemmas.AutogradZero
set_option linter.unusedSimpArgs false
set_option linter.unusedVariables false
namespace PP.AD
open PP PP.Bern
open scoped Matrix.Norms.Operator

/-- the exact series is the left Jacobian of the matrix exponential -/
theorem jlSeries_is_left_jacobian (x : sim3 ℝ) : JlSeries (sim3adM x) * sim3adM x = NormedSpace.exp (sim3adM x) - 1 :=
  JlSeries_mul_self (sim3adM x)

/-- `sim3_Jl ξ` (six terms) is within `‖ad ξ‖⁶/4320` of the exact left Jacobian, for `‖ad ξ‖ ≤ 1` (row-sum operator norm) -/
theorem sim3Jl_near_series (x : sim3 ℝ) (h : ‖sim3adM x‖ ≤ 1) :
    ‖JlSeries (sim3adM x) - DMat.toM 7 (sim3Jl x)‖ ≤ ‖sim3adM x‖ ^ 6 / 4320 := by
  rw [toM_sim3Jl]; exact jl6_sub_JlSeries (sim3adM x) h

/-- `sim3_Jl_inv ξ` is within `‖ad ξ‖⁶/4700` of the exact inverse of the exact left Jacobian -/
theorem sim3JlInv_near_inverse (x : sim3 ℝ) (h : ‖sim3adM x‖ ≤ 1) :
    ∃ J : Matrix (Fin 7) (Fin 7) ℝ, J * JlSeries (sim3adM x) = 1 ∧ JlSeries (sim3adM x) * J = 1 ∧
      ‖DMat.toM 7 (sim3JlInv x) - J‖ ≤ ‖sim3adM x‖ ^ 6 / 4700 := by
  rw [toM_sim3JlInv]; exact bernTrunc_sub_inverse (sim3adM x) h

/-- a checkable bound of the norm: `‖ad ξ‖ ≤ |σ| + ‖φ‖₁ + ‖τ‖₁` -/
theorem norm_sim3adM_le' (x : sim3 ℝ) :
    ‖sim3adM x‖ ≤ |x.sigma| + (|x.phi.x| + |x.phi.y| + |x.phi.z|) + (|x.tau.x| + |x.tau.y| + |x.tau.z|) := norm_sim3ad_le x

end PP.AD
