import Pose.Model.Autograd
/-!
# C04 — the batched / broadcasting layer around the per-item model  (pass 3)

Every public LieTensor operator flattens its arguments to `(B, dim)` after broadcasting the batch shapes
(`operation.py: broadcast_inputs` = `torch.broadcast_shapes` + `expand` + `reshape(-1, dim)`); PyTorch's autograd sums the
gradient of an expanded tensor over the expanded items.  Here, as definitions over the per-item model `eval` / `backprop`:

* `bcast2`, `progShape` — the batch shape of every node of a program (`none` = the code raises);
* `itemIndex bs ls k` — which item of a leaf of batch shape `ls` batch item `k` (row-major in `bs`) reads;
* `envAt` — the leaf values batch item `k` sees; `bevalAt` — item `k` of the batched forward pass;
* `bcontribs` — the batched reverse sweep: the per-item sweeps, each contribution addressed to the leaf *item* it was read from;
* `bgrad` — `.grad` of leaf `l`, item `j`: the accumulated sum (`grad`) of the contributions addressed to it.
-/
namespace PP.AD
open PP

variable {α : Type} [Scalar α]

/-- `torch.broadcast_shapes` of two shapes given innermost dimension first -/
def bcastRev : List Nat → List Nat → Option (List Nat)
  | [], b => some b
  | a, [] => some a
  | x :: a, y :: b =>
    if x = y then (bcastRev a b).map (x :: ·)
    else if x = 1 then (bcastRev a b).map (y :: ·)
    else if y = 1 then (bcastRev a b).map (x :: ·)
    else none

/-- `torch.broadcast_shapes(a, b)` (right-aligned; dimensions must agree or be `1`) -/
def bcast2 (a b : List Nat) : Option (List Nat) := (bcastRev a.reverse b.reverse).map List.reverse

/-- number of items of a batch shape -/
def numel (s : List Nat) : Nat := s.foldl (· * ·) 1

/-- batch shape of the value of every node: unary operators keep it, binary operators broadcast (`broadcast_inputs`) -/
def progShape (lshapes : List (List Nat)) : Prog → Option (List Nat)
  | .leaf i => lshapes[i]?
  | .un _ _ p => progShape lshapes p
  | .bin _ _ p q => (progShape lshapes p).bind fun a => (progShape lshapes q).bind fun b => bcast2 a b

/-- flat (row-major) index into a tensor of batch shape `ls` read by flat index `k` of the broadcast shape `bs`; both shapes
innermost dimension first.  A dimension of size `1` (or missing) is expanded: it is always read at `0`. -/
def itemIndexRev : List Nat → List Nat → Nat → Nat
  | _, [], _ => 0
  | [], _ :: _, _ => 0
  | b :: bs, l :: ls, k => (if l = 1 then 0 else k % b) + l * itemIndexRev bs ls (k / b)

/-- the same for shapes in PyTorch order -/
def itemIndex (bs ls : List Nat) (k : Nat) : Nat := itemIndexRev bs.reverse ls.reverse k

/-- the leaf values batch item `k` sees: leaf `l` is read at item `itemIndex bs lshapes[l] k` -/
def envAt (bs : List Nat) (lshapes : List (List Nat)) (vals : List (List (DVec α))) (k : Nat) : List (DVec α) :=
  (List.range lshapes.length).map fun l => (vals.getD l []).getD (itemIndex bs (lshapes.getD l []) k) []

/-- item `k` of the batched forward pass -/
def bevalAt (eps : α) (p : Prog) (bs : List Nat) (lshapes : List (List Nat)) (vals : List (List (DVec α))) (k : Nat) : DVec α :=
  eval eps (envAt bs lshapes vals k) p

/-- global id of item `j` of leaf `l` in the flattened list of all leaf items -/
def gid (lshapes : List (List Nat)) (l j : Nat) : Nat := ((lshapes.take l).map numel).foldl (· + ·) 0 + j

/-- the batched reverse sweep: for every batch item the per-item sweep with that item's cotangent, every contribution addressed to
the leaf item it was read from (what autograd's reduction of expanded tensors amounts to) -/
def bcontribs (dJ : DJ α) (eps : α) (p : Prog) (bs : List Nat) (lshapes : List (List Nat)) (vals : List (List (DVec α)))
    (cots : List (DVec α)) : List (Nat × DVec α) :=
  (List.range (numel bs)).flatMap fun k =>
    (backprop dJ eps (envAt bs lshapes vals k) p (cots.getD k [])).map fun c =>
      (gid lshapes c.1 (itemIndex bs (lshapes.getD c.1 []) k), c.2)

/-- `.grad` of item `j` of leaf `l` after one batched backward call -/
def bgrad (dJ : DJ α) (eps : α) (p : Prog) (bs : List Nat) (lshapes : List (List Nat)) (vals : List (List (DVec α)))
    (cots : List (DVec α)) (l j : Nat) : DVec α :=
  grad (((vals.getD l []).getD j []).length) (gid lshapes l j) (bcontribs dJ eps p bs lshapes vals cots)

/-- the whole batched call: output batch shape (`none`: the code raises on incompatible shapes), all outputs, all gradients -/
def bcall (dJ : DJ α) (eps : α) (p : Prog) (lshapes : List (List Nat)) (vals : List (List (DVec α))) (cots : List (DVec α)) :
    Option (List Nat × List (DVec α) × List (List (DVec α))) :=
  (progShape lshapes p).map fun bs =>
    (bs, (List.range (numel bs)).map (bevalAt eps p bs lshapes vals),
      (List.range lshapes.length).map fun l =>
        (List.range (numel (lshapes.getD l []))).map fun j => bgrad dJ eps p bs lshapes vals cots l j)

end PP.AD
