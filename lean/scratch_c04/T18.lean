import scratch_c04.T17
