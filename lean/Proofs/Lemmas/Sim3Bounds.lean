import Proofs.Lemmas.WsIntegral
import Proofs.Lemmas.LieExpBounds
/-!
# sim3: exact block form of `exp (ξ^)` for all `θ ≠ 0`, `σ ≠ 0`, and the error of the code's regimes 1–3 (C01)
-/
open Matrix NormedSpace
namespace PP
open Vec3 Quat Mat3 WsInt
noncomputable section

/-- the exact coupling matrix `W(φ,σ) = (exp M − 1) M⁻¹`, `M = σ·1 + φ^` (`θ ≠ 0`, `σ ≠ 0`) -/
def W4mat (phi : Vec3 ℝ) (s : ℝ) : Matrix (Fin 3) (Fin 3) ℝ :=
  WsC s • (1 : Matrix (Fin 3) (Fin 3) ℝ) + WsA4 phi.norm s • hatM phi + WsB4 phi.norm s • (hatM phi ^ 2)

theorem W4mat_mul_gen (phi : Vec3 ℝ) (s : ℝ) (ht : phi.norm ≠ 0) (hs : s ≠ 0) :
    W4mat phi s * (s • (1 : Matrix (Fin 3) (Fin 3) ℝ) + hatM phi)
      = NormedSpace.exp (s • (1 : Matrix (Fin 3) (Fin 3) ℝ) + hatM phi) - 1 := by
  unfold W4mat
  rw [poly_mul_gen, exp_scal_add_hat, MatExp.exp_eq_rod (hatM phi) phi.norm ht (hatM_cube phi), ← Vec3.norm_sq,
    WsC_mul _ hs, Ws4_K _ _ ht hs, Ws4_K2 _ _ ht hs]
  simp only [smul_add, smul_smul, sub_smul, one_smul]
  abel

/-- **exact block form** for every `θ ≠ 0`, `σ ≠ 0` (independent of the code's regimes):
`exp [[σ·1 + K, τ],[0,0]] = [[e^σ exp K, W τ],[0,1]]` -/
theorem sim3_exp_block (x : sim3 ℝ) (ht : x.phi.norm ≠ 0) (hs : x.sigma ≠ 0) :
    NormedSpace.exp (sim3Gen x)
      = blk4 (Real.exp x.sigma • NormedSpace.exp (hatM x.phi)) ((W4mat x.phi x.sigma).mulVec x.tau.toFun) 1 := by
  obtain ⟨u, hu⟩ := exists_solve x.sigma x.phi hs x.tau.toFun
  rw [sim3Gen_blk, exp_blk4_of_solve _ _ u hu (exp_blk4_scal_hat _ _)]
  refine blk4_congr (exp_scal_add_hat _ _) ?_ rfl
  rw [← W4mat_mul_gen x.phi x.sigma ht hs, ← hu, Matrix.mulVec_mulVec]

/-- `φ = 0`, `σ ≠ 0`: `exp [[σ·1, τ],[0,0]] = [[e^σ·1, C τ],[0,1]]` -/
theorem sim3_exp_block_zero_phi (x : sim3 ℝ) (ht : x.phi.norm = 0) (hs : x.sigma ≠ 0) :
    NormedSpace.exp (sim3Gen x)
      = blk4 (Real.exp x.sigma • (1 : Matrix (Fin 3) (Fin 3) ℝ))
          ((WsC x.sigma • (1 : Matrix (Fin 3) (Fin 3) ℝ)).mulVec x.tau.toFun) 1 := by
  obtain ⟨u, hu⟩ := exists_solve x.sigma x.phi hs x.tau.toFun
  have hphi := norm_zero_imp x.phi ht
  rw [sim3Gen_blk, exp_blk4_of_solve _ _ u hu (exp_blk4_scal_hat _ _), exp_scal_add_hat]
  rw [hphi, hatM_zero] at hu ⊢
  rw [NormedSpace.exp_zero]
  refine blk4_congr rfl ?_ rfl
  rw [← hu, Matrix.mulVec_mulVec]
  congr 1
  rw [add_zero, smul_mul_smul_comm, WsC_mul _ hs, one_mul, sub_smul, one_smul]

/-- `σ = 0`, `θ ≠ 0`: the se3 block form -/
theorem sim3_exp_block_zero_sigma (x : sim3 ℝ) (ht : x.phi.norm ≠ 0) (hs : x.sigma = 0) :
    NormedSpace.exp (sim3Gen x)
      = blk4 (NormedSpace.exp (hatM x.phi))
        (((1 : Matrix (Fin 3) (Fin 3) ℝ) + ((1 - Real.cos x.phi.norm) / (x.phi.norm * x.phi.norm)) • hatM x.phi
          + ((x.phi.norm - Real.sin x.phi.norm) / (x.phi.norm * x.phi.norm * x.phi.norm)) • (hatM x.phi ^ 2)).mulVec
            x.tau.toFun) 1 := by
  rw [sim3Gen_sigma_zero x hs, se3Gen_blk]
  exact exp_blk4_hat x.phi _ ht

/-- entrywise distance of two quadratic polynomials in `K = x^` -/
theorem poly_entry_diff3 (a b c a' b' c' : ℝ) (x : Vec3 ℝ) (i j : Fin 3) :
    |(a • (1 : Matrix (Fin 3) (Fin 3) ℝ) + b • hatM x + c • (hatM x ^ 2)) i j
      - (a' • (1 : Matrix (Fin 3) (Fin 3) ℝ) + b' • hatM x + c' • (hatM x ^ 2)) i j|
      ≤ |a - a'| + |x.norm * (b - b')| + |x.norm * x.norm * (c - c')| := by
  have e : (a • (1 : Matrix (Fin 3) (Fin 3) ℝ) + b • hatM x + c • (hatM x ^ 2)) i j
      - (a' • (1 : Matrix (Fin 3) (Fin 3) ℝ) + b' • hatM x + c' • (hatM x ^ 2)) i j
      = (a - a') * (1 : Matrix (Fin 3) (Fin 3) ℝ) i j + (b - b') * hatM x i j + (c - c') * (hatM x ^ 2) i j := by
    simp only [Matrix.add_apply, Matrix.smul_apply, smul_eq_mul]; ring
  have h1 : |(1 : Matrix (Fin 3) (Fin 3) ℝ) i j| ≤ 1 := by
    rw [Matrix.one_apply]; split_ifs <;> simp
  have hn := Vec3.norm_nonneg x
  rw [e]
  calc _ ≤ |(a - a') * (1 : Matrix (Fin 3) (Fin 3) ℝ) i j| + |(b - b') * hatM x i j| + |(c - c') * (hatM x ^ 2) i j| :=
        abs_add_three _ _ _
    _ = |a - a'| * |(1 : Matrix (Fin 3) (Fin 3) ℝ) i j| + |b - b'| * |hatM x i j| + |c - c'| * |(hatM x ^ 2) i j| := by
        simp only [abs_mul]
    _ ≤ |a - a'| * 1 + |b - b'| * x.norm + |c - c'| * x.norm ^ 2 := by
        gcongr
        · exact hatM_entry_le x i j
        · exact hatM_sq_entry_le x i j
    _ = _ := by
        rw [abs_mul, abs_mul, abs_mul, abs_of_nonneg hn]; ring

theorem smul_entry_diff (c : ℝ) (M M' : Matrix (Fin 3) (Fin 3) ℝ) (i j : Fin 3) :
    |(c • M) i j - (c • M') i j| = |c| * |M i j - M' i j| := by
  simp only [Matrix.smul_apply, smul_eq_mul]; rw [← mul_sub, abs_mul]

/-! ### regime 2 : `|σ| ≤ eps < θ`, `σ ≠ 0` -/

theorem Ws_regime2_entry (eps : ℝ) (phi : Vec3 ℝ) (s : ℝ) (h0 : 0 ≤ eps) (ht : eps < phi.norm) (hs : ¬ eps < |s|)
    (hs0 : s ≠ 0) (i j : Fin 3) :
    |(rxso3Ws eps ⟨phi, s⟩).toMatrix i j - W4mat phi s i j| ≤ 4 * (Real.exp |s| - 1) := by
  have htne : phi.norm ≠ 0 := ne_of_gt (lt_of_le_of_lt h0 ht)
  rw [rxso3Ws_toMatrix]
  simp only [WsCoef_regime2 eps _ _ ht hs]
  unfold W4mat
  refine le_trans (poly_entry_diff3 _ _ _ _ _ _ phi i j) ?_
  have hA := A4_sub_A2 phi.norm s htne
  have hB := B4_sub_B2 phi.norm s htne hs0
  have hC := WsC_sub_one s hs0
  rw [abs_sub_comm] at hC
  rw [← neg_sub, mul_neg, abs_neg] at hA hB
  linarith

/-! ### regime 3 : `0 < θ ≤ eps ≤ 1 < ...`, `eps < |σ|` -/

theorem Ws_regime3_entry (eps : ℝ) (phi : Vec3 ℝ) (s : ℝ) (h1 : eps ≤ 1) (ht : ¬ eps < phi.norm) (hpos : 0 < phi.norm)
    (hs : eps < |s|) (hs0 : s ≠ 0) (i j : Fin 3) :
    |(rxso3Ws eps ⟨phi, s⟩).toMatrix i j - W4mat phi s i j| ≤ Real.exp |s| * (phi.norm ^ 3 / 3) := by
  have hle : phi.norm ≤ 1 := le_trans (not_lt.mp ht) h1
  rw [rxso3Ws_toMatrix]
  simp only [WsCoef_regime3 eps _ _ ht hs]
  unfold W4mat
  refine le_trans (poly_entry_diff3 _ _ _ _ _ _ phi i j) ?_
  have hA := A4_sub_A3 phi.norm s hpos hle hs0
  have hB := B4_sub_B3 phi.norm s hpos hle hs0
  rw [← neg_sub, mul_neg, abs_neg] at hA hB
  rw [sub_self, abs_zero, zero_add]
  have he := Real.exp_pos |s|
  have h3 : 0 ≤ phi.norm ^ 3 := by positivity
  have h4 : phi.norm ^ 4 ≤ phi.norm ^ 3 := by nlinarith
  have hsum : phi.norm ^ 3 / 5 + phi.norm ^ 4 * (5 / 96) ≤ phi.norm ^ 3 / 3 := by nlinarith
  have := mul_le_mul_of_nonneg_left hsum (le_of_lt he)
  linarith

/-! ### regime 1 : `θ ≤ eps`, `|σ| ≤ eps ≤ 1` -/

theorem Ws_regime1_entry (eps : ℝ) (phi : Vec3 ℝ) (s : ℝ) (h1 : eps ≤ 1) (ht : ¬ eps < phi.norm) (hpos : 0 < phi.norm)
    (hs : ¬ eps < |s|) (hs0 : s ≠ 0) (i j : Fin 3) :
    |(rxso3Ws eps ⟨phi, s⟩).toMatrix i j - W4mat phi s i j| ≤ 4 * (Real.exp |s| - 1) + phi.norm ^ 3 / 16 := by
  have hle : phi.norm ≤ 1 := le_trans (not_lt.mp ht) h1
  have htne : phi.norm ≠ 0 := ne_of_gt hpos
  rw [rxso3Ws_toMatrix]
  simp only [WsCoef_regime1 eps _ _ ht hs]
  unfold W4mat
  refine le_trans (poly_entry_diff3 _ _ _ _ _ _ phi i j) ?_
  set t := phi.norm with htdef
  have hA := A4_sub_A2 t s htne
  have hB := B4_sub_B2 t s htne hs0
  have hC := WsC_sub_one s hs0
  rw [abs_sub_comm] at hC
  have hc2 := cosc_bound t hpos hle
  have hs2 := sinc3_bound t hpos hle
  have hA' : |t * (1 / 2 - WsA4 t s)| ≤ (Real.exp |s| - 1) + t * (t ^ 2 * (5 / 96)) := by
    have e : t * (1 / 2 - WsA4 t s) = -(t * (WsA4 t s - (1 - Real.cos t) / (t * t))) - t * ((1 - Real.cos t) / (t * t) - 1 / 2) := by
      ring
    rw [e]
    calc _ ≤ |-(t * (WsA4 t s - (1 - Real.cos t) / (t * t)))| + |t * ((1 - Real.cos t) / (t * t) - 1 / 2)| := abs_sub _ _
      _ ≤ _ := by
        have h2 : |t * ((1 - Real.cos t) / (t * t) - 1 / 2)| = t * |(1 - Real.cos t) / (t * t) - 1 / 2| := by
          rw [abs_mul, abs_of_pos hpos]
        have := mul_le_mul_of_nonneg_left hc2 (le_of_lt hpos)
        rw [abs_neg, h2]
        linarith
  have hB' : |t * t * (1 / 6 - WsB4 t s)| ≤ 2 * (Real.exp |s| - 1) + t * t * (t ^ 2 / 100) := by
    have e : t * t * (1 / 6 - WsB4 t s) = -(t * t * (WsB4 t s - (t - Real.sin t) / (t * t * t)))
        - t * t * ((t - Real.sin t) / (t * t * t) - 1 / 6) := by ring
    rw [e]
    calc _ ≤ |-(t * t * (WsB4 t s - (t - Real.sin t) / (t * t * t)))| + |t * t * ((t - Real.sin t) / (t * t * t) - 1 / 6)| :=
          abs_sub _ _
      _ ≤ _ := by
        have h2 : |t * t * ((t - Real.sin t) / (t * t * t) - 1 / 6)| = t * t * |(t - Real.sin t) / (t * t * t) - 1 / 6| := by
          rw [abs_mul, abs_of_pos (mul_pos hpos hpos)]
        have := mul_le_mul_of_nonneg_left hs2 (le_of_lt (mul_pos hpos hpos))
        rw [abs_neg, h2]
        linarith
  have h3 : 0 ≤ t ^ 3 := by positivity
  have h4 : t ^ 4 ≤ t ^ 3 := by nlinarith
  have : t * (t ^ 2 * (5 / 96)) + t * t * (t ^ 2 / 100) ≤ t ^ 3 / 16 := by nlinarith
  linarith

/-! ### from the coupling matrix to the 4×4 matrix -/

theorem sim3_entry_bound (eps : ℝ) (x : sim3 ℝ) (Rex Wex : Matrix (Fin 3) (Fin 3) ℝ) (B1 B2 : ℝ)
    (hexp : NormedSpace.exp (sim3Gen x) = blk4 (Real.exp x.sigma • Rex) (Wex.mulVec x.tau.toFun) 1)
    (hR : ∀ i j, |(SO3matrix (so3Exp eps x.phi)).toMatrix i j - Rex i j| ≤ B1)
    (hW : ∀ i j, |(rxso3Ws eps ⟨x.phi, x.sigma⟩).toMatrix i j - Wex i j| ≤ B2) (hB1 : 0 ≤ B1) (hB2 : 0 ≤ B2)
    (i j : Fin 4) :
    |(Sim3matrix (sim3Exp eps x)).toMatrix4 i j - NormedSpace.exp (sim3Gen x) i j|
      ≤ Real.exp x.sigma * B1 + B2 * (|x.tau.x| + |x.tau.y| + |x.tau.z|) := by
  rw [hexp, Sim3matrix_blk]
  have he := Real.exp_pos x.sigma
  have hs : 0 ≤ |x.tau.x| + |x.tau.y| + |x.tau.z| := by positivity
  have hp1 : 0 ≤ Real.exp x.sigma * B1 := mul_nonneg he.le hB1
  have hp2 : 0 ≤ B2 * (|x.tau.x| + |x.tau.y| + |x.tau.z|) := mul_nonneg hB2 hs
  refine blk4_entry_bound _ _ _ _ _ ?_ ?_ (by linarith) i j
  · intro a b
    show |(Real.exp x.sigma • (SO3matrix (so3Exp eps x.phi)).toMatrix) a b - (Real.exp x.sigma • Rex) a b| ≤ _
    rw [smul_entry_diff, abs_of_pos he]
    have := mul_le_mul_of_nonneg_left (hR a b) he.le
    linarith
  · intro a
    show |((rxso3Ws eps ⟨x.phi, x.sigma⟩).mulVec x.tau).toFun a - _| ≤ _
    rw [← mulVec_toFun]
    refine le_trans (mulVec_entry_diff _ _ _ _ hW a) ?_
    have e : |x.tau.toFun 0| + |x.tau.toFun 1| + |x.tau.toFun 2| = |x.tau.x| + |x.tau.y| + |x.tau.z| := by
      simp [Vec3.toFun]
    rw [e]; linarith

theorem so3Exp_closed_entry (eps : ℝ) (phi : Vec3 ℝ) (h0 : 0 ≤ eps) (h : eps < phi.norm ∨ phi.norm = 0) (i j : Fin 3) :
    |(SO3matrix (so3Exp eps phi)).toMatrix i j - NormedSpace.exp (hatM phi) i j| ≤ 0 := by
  rw [so3Exp_matrix' eps phi h0 h, sub_self, abs_zero]

/-- regime 2 (`|σ| ≤ eps < θ`, `σ ≠ 0`) -/
theorem sim3Exp_regime2_bound (eps : ℝ) (x : sim3 ℝ) (h0 : 0 ≤ eps) (ht : eps < x.phi.norm) (hs : ¬ eps < |x.sigma|)
    (hs0 : x.sigma ≠ 0) (i j : Fin 4) :
    |(Sim3matrix (sim3Exp eps x)).toMatrix4 i j - NormedSpace.exp (sim3Gen x) i j|
      ≤ 4 * (Real.exp |x.sigma| - 1) * (|x.tau.x| + |x.tau.y| + |x.tau.z|) := by
  have htne : x.phi.norm ≠ 0 := ne_of_gt (lt_of_le_of_lt h0 ht)
  have hB2 : 0 ≤ 4 * (Real.exp |x.sigma| - 1) := by
    have := Real.add_one_le_exp |x.sigma|; have := abs_nonneg x.sigma; linarith
  have := sim3_entry_bound eps x _ _ 0 _ (sim3_exp_block x htne hs0) (so3Exp_closed_entry eps x.phi h0 (Or.inl ht))
    (Ws_regime2_entry eps x.phi x.sigma h0 ht hs hs0) le_rfl hB2 i j
  linarith

/-- regime 3 (`0 < θ ≤ eps ≤ 1`, `eps < |σ|`) -/
theorem sim3Exp_regime3_bound (eps : ℝ) (x : sim3 ℝ) (h1 : eps ≤ 1) (ht : ¬ eps < x.phi.norm) (hpos : 0 < x.phi.norm)
    (hs : eps < |x.sigma|) (hs0 : x.sigma ≠ 0) (i j : Fin 4) :
    |(Sim3matrix (sim3Exp eps x)).toMatrix4 i j - NormedSpace.exp (sim3Gen x) i j|
      ≤ Real.exp x.sigma * (x.phi.norm ^ 4 / 8)
        + Real.exp |x.sigma| * (x.phi.norm ^ 3 / 3) * (|x.tau.x| + |x.tau.y| + |x.tau.z|) :=
  sim3_entry_bound eps x _ _ _ _ (sim3_exp_block x (ne_of_gt hpos) hs0) (so3Exp_matrix_taylor_bound eps x.phi ht h1)
    (Ws_regime3_entry eps x.phi x.sigma h1 ht hpos hs hs0) (by positivity) (by positivity) i j

/-- regime 1, both blocks non-zero (`0 < θ ≤ eps`, `0 < |σ| ≤ eps ≤ 1`) -/
theorem sim3Exp_regime1_bound (eps : ℝ) (x : sim3 ℝ) (h1 : eps ≤ 1) (ht : ¬ eps < x.phi.norm) (hpos : 0 < x.phi.norm)
    (hs : ¬ eps < |x.sigma|) (hs0 : x.sigma ≠ 0) (i j : Fin 4) :
    |(Sim3matrix (sim3Exp eps x)).toMatrix4 i j - NormedSpace.exp (sim3Gen x) i j|
      ≤ Real.exp x.sigma * (x.phi.norm ^ 4 / 8)
        + (4 * (Real.exp |x.sigma| - 1) + x.phi.norm ^ 3 / 16) * (|x.tau.x| + |x.tau.y| + |x.tau.z|) := by
  have hB2 : 0 ≤ 4 * (Real.exp |x.sigma| - 1) + x.phi.norm ^ 3 / 16 := by
    have := Real.add_one_le_exp |x.sigma|; have := abs_nonneg x.sigma
    have : 0 ≤ x.phi.norm ^ 3 := by positivity
    linarith
  exact sim3_entry_bound eps x _ _ _ _ (sim3_exp_block x (ne_of_gt hpos) hs0) (so3Exp_matrix_taylor_bound eps x.phi ht h1)
    (Ws_regime1_entry eps x.phi x.sigma h1 ht hpos hs hs0) (by positivity) hB2 i j

/-- regime 1 with `φ = 0`, `0 < |σ| ≤ eps` -/
theorem sim3Exp_regime1_zero_phi_bound (eps : ℝ) (x : sim3 ℝ) (h0 : 0 ≤ eps) (ht : x.phi.norm = 0)
    (hs : ¬ eps < |x.sigma|) (hs0 : x.sigma ≠ 0) (i j : Fin 4) :
    |(Sim3matrix (sim3Exp eps x)).toMatrix4 i j - NormedSpace.exp (sim3Gen x) i j|
      ≤ (Real.exp |x.sigma| - 1) * (|x.tau.x| + |x.tau.y| + |x.tau.z|) := by
  have hphi := norm_zero_imp x.phi ht
  have hB2 : 0 ≤ Real.exp |x.sigma| - 1 := by
    have := Real.add_one_le_exp |x.sigma|; have := abs_nonneg x.sigma; linarith
  have hR : ∀ a b, |(SO3matrix (so3Exp eps x.phi)).toMatrix a b - (1 : Matrix (Fin 3) (Fin 3) ℝ) a b| ≤ 0 := by
    intro a b
    rw [hphi, so3Exp_zero eps h0, SO3matrix_one_toMatrix, sub_self, abs_zero]
  have hW : ∀ a b, |(rxso3Ws eps ⟨x.phi, x.sigma⟩).toMatrix a b - (WsC x.sigma • (1 : Matrix (Fin 3) (Fin 3) ℝ)) a b|
      ≤ Real.exp |x.sigma| - 1 := by
    intro a b
    rw [hphi, rxso3Ws_zero_phi, WsCoef_C_small _ _ _ hs]
    simp only [Matrix.smul_apply, smul_eq_mul, Matrix.one_apply]
    have hC := WsC_sub_one x.sigma hs0
    rw [abs_sub_comm] at hC
    split_ifs
    · rw [mul_one, mul_one]; exact hC
    · simp
  have := sim3_entry_bound eps x _ _ 0 _ (sim3_exp_block_zero_phi x ht hs0) hR hW le_rfl hB2 i j
  linarith

/-- regime 1 with `σ = 0`, `0 < θ ≤ eps ≤ 1` -/
theorem sim3Exp_regime1_zero_sigma_bound (eps : ℝ) (x : sim3 ℝ) (h0 : 0 ≤ eps) (h1 : eps ≤ 1) (ht : ¬ eps < x.phi.norm)
    (hpos : 0 < x.phi.norm) (hs : x.sigma = 0) (i j : Fin 4) :
    |(Sim3matrix (sim3Exp eps x)).toMatrix4 i j - NormedSpace.exp (sim3Gen x) i j|
      ≤ x.phi.norm ^ 4 / 8 + x.phi.norm ^ 3 / 16 * (|x.tau.x| + |x.tau.y| + |x.tau.z|) := by
  have hle : x.phi.norm ≤ 1 := le_trans (not_lt.mp ht) h1
  have hsa : ¬ eps < |x.sigma| := by rw [hs, abs_zero]; exact not_lt.mpr h0
  have hexp := sim3_exp_block_zero_sigma x (ne_of_gt hpos) hs
  have e1 : NormedSpace.exp (hatM x.phi) = Real.exp x.sigma • NormedSpace.exp (hatM x.phi) := by
    rw [hs, Real.exp_zero, one_smul]
  rw [e1] at hexp
  have hW : ∀ a b, |(rxso3Ws eps ⟨x.phi, x.sigma⟩).toMatrix a b
      - ((1 : Matrix (Fin 3) (Fin 3) ℝ) + ((1 - Real.cos x.phi.norm) / (x.phi.norm * x.phi.norm)) • hatM x.phi
          + ((x.phi.norm - Real.sin x.phi.norm) / (x.phi.norm * x.phi.norm * x.phi.norm)) • (hatM x.phi ^ 2)) a b|
      ≤ x.phi.norm ^ 3 / 16 := by
    intro a b
    have hE : ((1 : Matrix (Fin 3) (Fin 3) ℝ) + ((1 - Real.cos x.phi.norm) / (x.phi.norm * x.phi.norm)) • hatM x.phi
          + ((x.phi.norm - Real.sin x.phi.norm) / (x.phi.norm * x.phi.norm * x.phi.norm)) • (hatM x.phi ^ 2))
        = (1 : ℝ) • (1 : Matrix (Fin 3) (Fin 3) ℝ) + ((1 - Real.cos x.phi.norm) / (x.phi.norm * x.phi.norm)) • hatM x.phi
          + ((x.phi.norm - Real.sin x.phi.norm) / (x.phi.norm * x.phi.norm * x.phi.norm)) • (hatM x.phi ^ 2) := by
      rw [one_smul]
    rw [hE, rxso3Ws_toMatrix]
    simp only [WsCoef_regime1 eps _ _ ht hsa]
    refine le_trans (poly_entry_diff 1 (1 / 2) (1 / 6) _ _ x.phi a b) ?_
    set t := x.phi.norm
    have hc2 := cosc_bound t hpos hle
    have hs2 := sinc3_bound t hpos hle
    rw [abs_sub_comm] at hc2 hs2
    have h3 : 0 ≤ t ^ 3 := by positivity
    have h4 : t ^ 4 ≤ t ^ 3 := by nlinarith
    calc _ ≤ t ^ 2 * (5 / 96) * t + t ^ 2 / 100 * t ^ 2 := by gcongr
      _ ≤ t ^ 3 / 16 := by nlinarith
  have := sim3_entry_bound eps x _ _ _ _ hexp (so3Exp_matrix_taylor_bound eps x.phi ht h1) hW (by positivity) (by positivity) i j
  rw [hs, Real.exp_zero, one_mul] at this
  exact this

/-! ### witnesses for the non-vacuity examples of `Props/C01.lean` -/

/-- float64 machine epsilon as a real -/
def eps64 : ℝ := 1 / 4503599627370496
def x0 : Vec3 ℝ := ⟨3 / 10, -(2 / 10), 5 / 10⟩        -- ‖x0‖² = 0.38
def xtiny : Vec3 ℝ := ⟨1 / 10 ^ 17, 0, 0⟩              -- ‖xtiny‖ = 1e-17 ≤ eps64

theorem eps64_pos : 0 < eps64 := by unfold eps64; positivity
theorem eps64_le_one : eps64 ≤ 1 := by unfold eps64; norm_num
theorem x0_norm_large : eps64 < x0.norm := by
  unfold Vec3.norm
  rw [sqrt_real, Real.lt_sqrt (le_of_lt eps64_pos)]
  unfold eps64 x0 Vec3.normSq; norm_num
theorem xtiny_norm : xtiny.norm = 1 / 10 ^ 17 := by
  unfold Vec3.norm Vec3.normSq xtiny
  rw [sqrt_real, show ((1:ℝ) / 10 ^ 17 * (1 / 10 ^ 17) + 0 * 0 + 0 * 0) = (1 / 10 ^ 17) ^ 2 by ring]
  exact Real.sqrt_sq (by positivity)
theorem xtiny_small : ¬ eps64 < xtiny.norm := by rw [xtiny_norm]; unfold eps64; norm_num
theorem xtiny_pos : 0 < xtiny.norm := by rw [xtiny_norm]; positivity
theorem sigma_large : eps64 < |(7 / 10 : ℝ)| := by unfold eps64; rw [abs_of_pos (by norm_num)]; norm_num
theorem sigma_small : ¬ eps64 < |(1 / 10 ^ 17 : ℝ)| := by unfold eps64; rw [abs_of_pos (by positivity)]; norm_num

end
end PP
