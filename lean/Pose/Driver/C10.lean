import Pose.Wire
/-! Driver ops for C10. -/
namespace PP.Driver
open PP Wire

def opsC10 : List (String × Handler) := []

end PP.Driver
