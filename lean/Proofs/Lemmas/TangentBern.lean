import Proofs.Lemmas.Tangent
import Mathlib.Data.Matrix.Basic
import Mathlib.Data.List.GetD
import Mathlib.Algebra.BigOperators.Fin
import Mathlib.Analysis.Normed.Algebra.Exponential
import Mathlib.Analysis.Complex.Exponential
import Mathlib.Analysis.SpecialFunctions.Exponential
import Mathlib.Algebra.Polynomial.AlgebraMap
import Mathlib.Algebra.Polynomial.Roots
import Mathlib.Tactic.Ring
import Mathlib.Tactic.Linarith
import Mathlib.Tactic.Positivity
import Mathlib.Analysis.Matrix.Normed
import Mathlib.Analysis.SpecificLimits.Normed
import Mathlib.Tactic.NoncommRing
import Mathlib.Analysis.Normed.Algebra.MatrixExponential
import Mathlib.Tactic.FinCases
/-!
# C05 — remainder of the truncated Bernoulli series (`sim3_Jl_inv`) and of the truncated Jacobian series (`sim3_Jl`)

* `PP.Bern`: in any real Banach algebra, `J_l(a) = Σ aⁿ/(n+1)!` (`JlSeries`, with `J_l(a)·a = exp a − 1`), tail bounds, the polynomial identity
  `(1 − a/2 + a²/12 − a⁴/720)·Σ_{m<7} aᵐ/(m+1)! = 1 + (−120a⁶ − 150a⁷ + 18a⁸ − 7a⁹ − a¹⁰)/3628800`, and from them
  `‖bernTrunc a · J_l(a) − 1‖ ≤ ‖a‖⁶/7500`, `‖bernTrunc a − J_l(a)⁻¹‖ ≤ ‖a‖⁶/4700` for `‖a‖ ≤ 1`.
* the bridge from the model's list matrices (`DMat`) to `Matrix (Fin n) (Fin n) ℝ` (`toM_add/sub/smul/mul/one` for well-formed square lists).
-/
set_option linter.unusedSectionVars false
set_option linter.unusedSimpArgs false
set_option linter.unusedVariables false
namespace PP.Bern
open NormedSpace Finset Polynomial
section
variable {𝔸 : Type*} [Ring 𝔸] [Algebra ℝ 𝔸]

noncomputable def bernTrunc (a : 𝔸) : 𝔸 := 1 - (1 / 2 : ℝ) • a + (1 / 12 : ℝ) • a ^ 2 - (1 / 720 : ℝ) • a ^ 4
noncomputable def jlPartial (a : 𝔸) : 𝔸 := ∑ m ∈ range 7, (((m + 1).factorial : ℝ)⁻¹) • a ^ m
noncomputable def bernResidual (a : 𝔸) : 𝔸 :=
  (1 / 3628800 : ℝ) • (-(120 : ℝ) • a ^ 6 - (150 : ℝ) • a ^ 7 + (18 : ℝ) • a ^ 8 - (7 : ℝ) • a ^ 9 - a ^ 10)

theorem bern_poly_identity (a : 𝔸) : bernTrunc a * jlPartial a = 1 + bernResidual a := by
  let p : ℝ[X] := 1 - C (1 / 2) * X + C (1 / 12) * X ^ 2 - C (1 / 720) * X ^ 4
  let s : ℝ[X] := ∑ m ∈ range 7, C (((m + 1).factorial : ℝ)⁻¹) * X ^ m
  let q : ℝ[X] := C (1 / 3628800) * (-(C 120) * X ^ 6 - C 150 * X ^ 7 + C 18 * X ^ 8 - C 7 * X ^ 9 - X ^ 10)
  have hid : p * s = 1 + q := by
    apply Polynomial.funext
    intro r
    simp only [p, s, q, eval_mul, eval_add, eval_sub, eval_one, eval_C, eval_X, eval_pow, eval_neg, 
      sum_range_succ, sum_range_zero, Nat.factorial]
    norm_num
    ring
  have h := congrArg (aeval a) hid
  simp only [p, s, q, map_mul, map_add, map_sub, map_one, map_neg, map_pow, map_sum, aeval_C, aeval_X, ← Algebra.smul_def] at h
  simpa [bernTrunc, jlPartial, bernResidual, Algebra.smul_def, neg_mul] using h
end

section
variable {𝔸 : Type*} [NormedRing 𝔸] [NormedAlgebra ℝ 𝔸] [NormOneClass 𝔸] [CompleteSpace 𝔸]

/-- remainder of the exponential series in a Banach algebra, `‖a‖ ≤ 1` (same constant as `Real.exp_bound`) -/
theorem norm_exp_sub_partial_le (a : 𝔸) (h : ‖a‖ ≤ 1) {N : ℕ} (hN : 0 < N) :
    ‖exp a - ∑ m ∈ range N, ((m.factorial : ℝ)⁻¹) • a ^ m‖ ≤ ‖a‖ ^ N * ((N.succ : ℝ) * ((N.factorial : ℝ) * N)⁻¹) := by
  have hs : HasSum (fun n => ((n.factorial : ℝ)⁻¹) • a ^ n) (exp a) := exp_series_hasSum_exp' (𝕂 := ℝ) a
  have hsn : Summable (fun n => ‖((n.factorial : ℝ)⁻¹) • a ^ n‖) := norm_expSeries_summable' (𝕂 := ℝ) a
  have htail := (hasSum_nat_add_iff' N).mpr hs
  have hnorm : ‖exp a - ∑ m ∈ range N, ((m.factorial : ℝ)⁻¹) • a ^ m‖ ≤ ∑' n, ‖(((n + N).factorial : ℝ)⁻¹) • a ^ (n + N)‖ := by
    rw [← htail.tsum_eq]
    exact norm_tsum_le_tsum_norm ((summable_nat_add_iff N).mpr hsn)
  have hreal : HasSum (fun n => ((n.factorial : ℝ)⁻¹) * ‖a‖ ^ n) (Real.exp ‖a‖) := by
    have := exp_series_hasSum_exp' (𝕂 := ℝ) (𝔸 := ℝ) ‖a‖
    simpa [Real.exp_eq_exp_ℝ, smul_eq_mul] using this
  have hrtail := (hasSum_nat_add_iff' N).mpr hreal
  have hle : ∑' n, ‖(((n + N).factorial : ℝ)⁻¹) • a ^ (n + N)‖ ≤ ∑' n, (((n + N).factorial : ℝ)⁻¹) * ‖a‖ ^ (n + N) := by
    refine Summable.tsum_le_tsum (fun n => ?_) ((summable_nat_add_iff N).mpr hsn) hrtail.summable
    rw [norm_smul, norm_inv, Real.norm_natCast]
    exact mul_le_mul_of_nonneg_left (norm_pow_le a _) (by positivity)
  have hb := Real.exp_bound (x := ‖a‖) (by rw [abs_of_nonneg (norm_nonneg a)]; exact h) hN
  rw [abs_of_nonneg (norm_nonneg a)] at hb
  have hbb : Real.exp ‖a‖ - ∑ m ∈ range N, ((m.factorial : ℝ)⁻¹) * ‖a‖ ^ m ≤ ‖a‖ ^ N * ((N.succ : ℝ) * ((N.factorial : ℝ) * N)⁻¹) := by
    have e : ∑ m ∈ range N, ‖a‖ ^ m / (m.factorial : ℝ) = ∑ m ∈ range N, ((m.factorial : ℝ)⁻¹) * ‖a‖ ^ m := by
      apply Finset.sum_congr rfl; intro m _; rw [div_eq_inv_mul]
    rw [e] at hb
    exact le_trans (le_abs_self _) hb
  calc ‖exp a - ∑ m ∈ range N, ((m.factorial : ℝ)⁻¹) • a ^ m‖ ≤ ∑' n, (((n + N).factorial : ℝ)⁻¹) * ‖a‖ ^ (n + N) := le_trans hnorm hle
    _ = Real.exp ‖a‖ - ∑ m ∈ range N, ((m.factorial : ℝ)⁻¹) * ‖a‖ ^ m := hrtail.tsum_eq
    _ ≤ _ := hbb
end

section
variable {𝔸 : Type*} [NormedRing 𝔸] [NormedAlgebra ℝ 𝔸] [NormOneClass 𝔸] [CompleteSpace 𝔸]

/-- the left Jacobian as a power series of `ad`: `Σ aⁿ/(n+1)!` (so that `JlSeries a * a = exp a - 1`) -/
noncomputable def JlSeries (a : 𝔸) : 𝔸 := ∑' n : ℕ, (((n + 1).factorial : ℝ)⁻¹) • a ^ n

theorem JlSeries_summable_norm (a : 𝔸) : Summable (fun n : ℕ => ‖(((n + 1).factorial : ℝ)⁻¹) • a ^ n‖) := by
  refine Summable.of_nonneg_of_le (fun _ => norm_nonneg _) (fun n => ?_) (norm_expSeries_summable' (𝕂 := ℝ) a)
  rw [norm_smul, norm_smul, norm_inv, norm_inv, Real.norm_natCast, Real.norm_natCast]
  refine mul_le_mul_of_nonneg_right ?_ (norm_nonneg _)
  have h1 : (0 : ℝ) < (n.factorial : ℝ) := by exact_mod_cast Nat.factorial_pos n
  have h2 : (n.factorial : ℝ) ≤ ((n + 1).factorial : ℝ) := by exact_mod_cast Nat.factorial_le (Nat.le_succ n)
  exact inv_anti₀ h1 h2

theorem JlSeries_hasSum (a : 𝔸) : HasSum (fun n : ℕ => (((n + 1).factorial : ℝ)⁻¹) • a ^ n) (JlSeries a) :=
  (JlSeries_summable_norm a).of_norm.hasSum

/-- tail of the Jacobian series: `‖Σ_{n≥N} aⁿ/(n+1)!‖ ≤ ‖a‖^N /(N!·N)` for `‖a‖ ≤ 1` -/
theorem norm_JlSeries_sub_partial_le (a : 𝔸) (h : ‖a‖ ≤ 1) {N : ℕ} (hN : 0 < N) :
    ‖JlSeries a - ∑ m ∈ range N, (((m + 1).factorial : ℝ)⁻¹) • a ^ m‖ ≤ ‖a‖ ^ N * ((N.factorial : ℝ) * N)⁻¹ := by
  have hs := JlSeries_hasSum a
  have hsn := JlSeries_summable_norm a
  have htail := (hasSum_nat_add_iff' N).mpr hs
  have hnorm : ‖JlSeries a - ∑ m ∈ range N, (((m + 1).factorial : ℝ)⁻¹) • a ^ m‖
      ≤ ∑' n, ‖(((n + N + 1).factorial : ℝ)⁻¹) • a ^ (n + N)‖ := by
    rw [← htail.tsum_eq]
    exact norm_tsum_le_tsum_norm ((summable_nat_add_iff N).mpr hsn)
  have hreal : HasSum (fun n => ((n.factorial : ℝ)⁻¹) * ‖a‖ ^ n) (Real.exp ‖a‖) := by
    have := exp_series_hasSum_exp' (𝕂 := ℝ) (𝔸 := ℝ) ‖a‖
    simpa [Real.exp_eq_exp_ℝ, smul_eq_mul] using this
  have hrtail := ((hasSum_nat_add_iff' N).mpr hreal).mul_left ((N.succ : ℝ)⁻¹)
  have hle : ∑' n, ‖(((n + N + 1).factorial : ℝ)⁻¹) • a ^ (n + N)‖
      ≤ ∑' n, (N.succ : ℝ)⁻¹ * ((((n + N).factorial : ℝ)⁻¹) * ‖a‖ ^ (n + N)) := by
    refine Summable.tsum_le_tsum (fun n => ?_) ((summable_nat_add_iff N).mpr hsn) hrtail.summable
    rw [norm_smul, norm_inv, Real.norm_natCast, ← mul_assoc]
    have h1 : (0 : ℝ) < ((n + N).factorial : ℝ) := by exact_mod_cast Nat.factorial_pos _
    have h3 : (0 : ℝ) < (N.succ : ℝ) := by exact_mod_cast Nat.succ_pos N
    have h2 : (N.succ : ℝ) * ((n + N).factorial : ℝ) ≤ ((n + N + 1).factorial : ℝ) := by
      rw [Nat.factorial_succ]; push_cast
      have : (N : ℝ) + 1 ≤ (n : ℝ) + N + 1 := by have : (0:ℝ) ≤ n := Nat.cast_nonneg n; linarith
      exact mul_le_mul_of_nonneg_right this (le_of_lt h1)
    have h4 : (((n + N + 1).factorial : ℝ))⁻¹ ≤ (N.succ : ℝ)⁻¹ * (((n + N).factorial : ℝ))⁻¹ := by
      rw [← mul_inv]; exact inv_anti₀ (mul_pos h3 h1) h2
    exact mul_le_mul h4 (norm_pow_le a _) (norm_nonneg _) (by positivity)
  have hb := Real.exp_bound (x := ‖a‖) (by rw [abs_of_nonneg (norm_nonneg a)]; exact h) hN
  rw [abs_of_nonneg (norm_nonneg a)] at hb
  have hbb : Real.exp ‖a‖ - ∑ m ∈ range N, ((m.factorial : ℝ)⁻¹) * ‖a‖ ^ m ≤ ‖a‖ ^ N * ((N.succ : ℝ) * ((N.factorial : ℝ) * N)⁻¹) := by
    have e : ∑ m ∈ range N, ‖a‖ ^ m / (m.factorial : ℝ) = ∑ m ∈ range N, ((m.factorial : ℝ)⁻¹) * ‖a‖ ^ m := by
      apply Finset.sum_congr rfl; intro m _; rw [div_eq_inv_mul]
    rw [e] at hb
    exact le_trans (le_abs_self _) hb
  have h3 : (0 : ℝ) < (N.succ : ℝ) := by exact_mod_cast Nat.succ_pos N
  calc _ ≤ ∑' n, (N.succ : ℝ)⁻¹ * ((((n + N).factorial : ℝ)⁻¹) * ‖a‖ ^ (n + N)) := le_trans hnorm hle
    _ = (N.succ : ℝ)⁻¹ * (Real.exp ‖a‖ - ∑ m ∈ range N, ((m.factorial : ℝ)⁻¹) * ‖a‖ ^ m) := hrtail.tsum_eq
    _ ≤ (N.succ : ℝ)⁻¹ * (‖a‖ ^ N * ((N.succ : ℝ) * ((N.factorial : ℝ) * N)⁻¹)) := mul_le_mul_of_nonneg_left hbb (by positivity)
    _ = ‖a‖ ^ N * ((N.factorial : ℝ) * N)⁻¹ := by field_simp
end

section
variable {𝔸 : Type*} [NormedRing 𝔸] [NormedAlgebra ℝ 𝔸] [NormOneClass 𝔸] [CompleteSpace 𝔸]

theorem norm_bernTrunc_le (a : 𝔸) (h : ‖a‖ ≤ 1) : ‖bernTrunc a‖ ≤ 1141 / 720 := by
  have h2 : ‖a ^ 2‖ ≤ 1 := le_trans (norm_pow_le a 2) (pow_le_one₀ (norm_nonneg a) h)
  have h4 : ‖a ^ 4‖ ≤ 1 := le_trans (norm_pow_le a 4) (pow_le_one₀ (norm_nonneg a) h)
  unfold bernTrunc
  calc ‖1 - (1 / 2 : ℝ) • a + (1 / 12 : ℝ) • a ^ 2 - (1 / 720 : ℝ) • a ^ 4‖
      ≤ ‖(1 : 𝔸)‖ + ‖(1 / 2 : ℝ) • a‖ + ‖(1 / 12 : ℝ) • a ^ 2‖ + ‖(1 / 720 : ℝ) • a ^ 4‖ := by
        have t1 := norm_sub_le (1 - (1 / 2 : ℝ) • a + (1 / 12 : ℝ) • a ^ 2) ((1 / 720 : ℝ) • a ^ 4)
        have t2 := norm_add_le (1 - (1 / 2 : ℝ) • a) ((1 / 12 : ℝ) • a ^ 2)
        have t3 := norm_sub_le (1 : 𝔸) ((1 / 2 : ℝ) • a)
        linarith
    _ ≤ 1 + 1 / 2 * 1 + 1 / 12 * 1 + 1 / 720 * 1 := by
        rw [norm_one, norm_smul, norm_smul, norm_smul]
        simp only [Real.norm_eq_abs]
        rw [abs_of_pos (by norm_num : (0:ℝ) < 1 / 2), abs_of_pos (by norm_num : (0:ℝ) < 1 / 12), abs_of_pos (by norm_num : (0:ℝ) < 1 / 720)]
        gcongr
    _ = 1141 / 720 := by norm_num

theorem norm_bernResidual_le (a : 𝔸) (h : ‖a‖ ≤ 1) : ‖bernResidual a‖ ≤ ‖a‖ ^ 6 * (296 / 3628800) := by
  have hr := norm_nonneg a
  have hk : ∀ k : ℕ, ‖a ^ (6 + k)‖ ≤ ‖a‖ ^ 6 := fun k =>
    le_trans (norm_pow_le a _) (pow_le_pow_of_le_one hr h (by omega))
  unfold bernResidual
  rw [norm_smul, Real.norm_eq_abs, abs_of_pos (by norm_num : (0:ℝ) < 1 / 3628800)]
  have : ‖-(120 : ℝ) • a ^ 6 - (150 : ℝ) • a ^ 7 + (18 : ℝ) • a ^ 8 - (7 : ℝ) • a ^ 9 - a ^ 10‖ ≤ 296 * ‖a‖ ^ 6 := by
    calc _ ≤ ‖-(120 : ℝ) • a ^ 6‖ + ‖(150 : ℝ) • a ^ 7‖ + ‖(18 : ℝ) • a ^ 8‖ + ‖(7 : ℝ) • a ^ 9‖ + ‖a ^ 10‖ := by
          have t1 := norm_sub_le (-(120 : ℝ) • a ^ 6 - (150 : ℝ) • a ^ 7 + (18 : ℝ) • a ^ 8 - (7 : ℝ) • a ^ 9) (a ^ 10)
          have t2 := norm_sub_le (-(120 : ℝ) • a ^ 6 - (150 : ℝ) • a ^ 7 + (18 : ℝ) • a ^ 8) ((7 : ℝ) • a ^ 9)
          have t3 := norm_add_le (-(120 : ℝ) • a ^ 6 - (150 : ℝ) • a ^ 7) ((18 : ℝ) • a ^ 8)
          have t4 := norm_sub_le (-(120 : ℝ) • a ^ 6) ((150 : ℝ) • a ^ 7)
          linarith
      _ ≤ 120 * ‖a‖ ^ 6 + 150 * ‖a‖ ^ 6 + 18 * ‖a‖ ^ 6 + 7 * ‖a‖ ^ 6 + ‖a‖ ^ 6 := by
          rw [norm_smul, norm_smul, norm_smul, norm_smul]
          simp only [Real.norm_eq_abs, abs_neg]
          rw [abs_of_pos (by norm_num : (0:ℝ) < 120), abs_of_pos (by norm_num : (0:ℝ) < 150), abs_of_pos (by norm_num : (0:ℝ) < 18),
            abs_of_pos (by norm_num : (0:ℝ) < 7)]
          have h0 := hk 0; have h1 := hk 1; have h2 := hk 2; have h3 := hk 3; have h4 := hk 4
          simp only [Nat.add_zero] at h0
          gcongr
      _ = 296 * ‖a‖ ^ 6 := by ring
  calc 1 / 3628800 * ‖-(120 : ℝ) • a ^ 6 - (150 : ℝ) • a ^ 7 + (18 : ℝ) • a ^ 8 - (7 : ℝ) • a ^ 9 - a ^ 10‖
      ≤ 1 / 3628800 * (296 * ‖a‖ ^ 6) := by gcongr
    _ = ‖a‖ ^ 6 * (296 / 3628800) := by ring

/-- **remainder of the truncated Bernoulli series**: for `‖a‖ ≤ 1` the code's polynomial `1 − a/2 + a²/12 − a⁴/720` is a
left inverse of the exact left-Jacobian series `Σ aⁿ/(n+1)!` up to `‖a‖⁶/7500` — in any real Banach algebra. -/
theorem bernTrunc_mul_JlSeries (a : 𝔸) (h : ‖a‖ ≤ 1) : ‖bernTrunc a * JlSeries a - 1‖ ≤ ‖a‖ ^ 6 / 7500 := by
  have hT := norm_JlSeries_sub_partial_le a h (N := 7) (by norm_num)
  have hP := norm_bernTrunc_le a h
  have hR := norm_bernResidual_le a h
  have hid := bern_poly_identity a
  have e : bernTrunc a * JlSeries a - 1 = bernResidual a + bernTrunc a * (JlSeries a - jlPartial a) := by
    rw [mul_sub, hid]; abel
  have hr := norm_nonneg a
  have h7 : ‖a‖ ^ 7 ≤ ‖a‖ ^ 6 := pow_le_pow_of_le_one hr h (by norm_num)
  have h6 : 0 ≤ ‖a‖ ^ 6 := by positivity
  rw [e]
  calc ‖bernResidual a + bernTrunc a * (JlSeries a - jlPartial a)‖
      ≤ ‖bernResidual a‖ + ‖bernTrunc a‖ * ‖JlSeries a - jlPartial a‖ := by
        have t1 := norm_add_le (bernResidual a) (bernTrunc a * (JlSeries a - jlPartial a))
        have t2 := norm_mul_le (bernTrunc a) (JlSeries a - jlPartial a)
        linarith
    _ ≤ ‖a‖ ^ 6 * (296 / 3628800) + 1141 / 720 * (‖a‖ ^ 7 * (((7 : ℕ).factorial : ℝ) * (7 : ℕ))⁻¹) := by
        unfold jlPartial; gcongr
    _ ≤ ‖a‖ ^ 6 / 7500 := by
        norm_num [Nat.factorial]
        nlinarith
end

section
variable {𝔸 : Type*} [NormedRing 𝔸] [NormedAlgebra ℝ 𝔸] [NormOneClass 𝔸] [CompleteSpace 𝔸]
/-- `JlSeries` is the left Jacobian: `J_l(a)·a = exp a − 1` (so `J_l = ∫₀¹ exp(s a) ds`) -/
theorem JlSeries_mul_self (a : 𝔸) : JlSeries a * a = exp a - 1 := by
  have h1 := (JlSeries_hasSum a).mul_right a
  have h2 := (hasSum_nat_add_iff' 1).mpr (exp_series_hasSum_exp' (𝕂 := ℝ) a)
  have e : (fun n : ℕ => (((n + 1).factorial : ℝ)⁻¹) • a ^ n * a) = fun n : ℕ => (((n + 1).factorial : ℝ)⁻¹) • a ^ (n + 1) := by
    funext n; rw [smul_mul_assoc, pow_succ]
  rw [e] at h1
  have := h1.unique h2
  simpa using this

/-- the six-term partial sum the code uses for `sim3_Jl` is within `‖a‖⁶/4320` of the series -/
theorem jl6_sub_JlSeries (a : 𝔸) (h : ‖a‖ ≤ 1) :
    ‖JlSeries a - ∑ m ∈ range 6, (((m + 1).factorial : ℝ)⁻¹) • a ^ m‖ ≤ ‖a‖ ^ 6 / 4320 := by
  have := norm_JlSeries_sub_partial_le a h (N := 6) (by norm_num)
  calc _ ≤ ‖a‖ ^ 6 * (((6 : ℕ).factorial : ℝ) * (6 : ℕ))⁻¹ := this
    _ = ‖a‖ ^ 6 / 4320 := by norm_num [Nat.factorial]; ring
end

section
variable {𝔸 : Type*} [NormedRing 𝔸] [NormedAlgebra ℝ 𝔸] [NormOneClass 𝔸] [CompleteSpace 𝔸]

theorem commute_bernTrunc_JlSeries (a : 𝔸) : Commute (bernTrunc a) (JlSeries a) := by
  have hc : Commute a (JlSeries a) := by
    unfold JlSeries
    exact Commute.tsum_right a fun n => ((Commute.refl a).pow_right n).smul_right _
  unfold bernTrunc
  exact (((Commute.one_left _).sub_left (hc.smul_left _)).add_left ((hc.pow_left 2).smul_left _)).sub_left ((hc.pow_left 4).smul_left _)

/-- **distance of the truncated Bernoulli polynomial from the true inverse left Jacobian**: for `‖a‖ ≤ 1` the series `J_l(a)` has a
two-sided inverse `J` and `‖(1 − a/2 + a²/12 − a⁴/720) − J‖ ≤ ‖a‖⁶/4700`. -/
theorem bernTrunc_sub_inverse (a : 𝔸) (h : ‖a‖ ≤ 1) :
    ∃ J : 𝔸, J * JlSeries a = 1 ∧ JlSeries a * J = 1 ∧ ‖bernTrunc a - J‖ ≤ ‖a‖ ^ 6 / 4700 := by
  set P := bernTrunc a with hP
  set S := JlSeries a with hS
  set E := P * S - 1 with hE
  have hEn : ‖E‖ ≤ ‖a‖ ^ 6 / 7500 := bernTrunc_mul_JlSeries a h
  have hr := norm_nonneg a
  have h6 : ‖a‖ ^ 6 ≤ 1 := pow_le_one₀ hr h
  have h6' : 0 ≤ ‖a‖ ^ 6 := by positivity
  have hE1 : ‖-E‖ < 1 := by rw [norm_neg]; linarith
  have hPS : P * S = 1 - -E := by rw [hE]; abel
  have hcomm : P * S = S * P := commute_bernTrunc_JlSeries a
  set G := ∑' n : ℕ, (-E) ^ n with hG
  have hG1 : G * (1 - -E) = 1 := geom_series_mul_neg (-E) hE1
  have hG2 : (1 - -E) * G = 1 := mul_neg_geom_series (-E) hE1
  have hGn : ‖G‖ ≤ (1 - ‖E‖)⁻¹ := by
    have := tsum_geometric_le_of_norm_lt_one (-E) hE1
    rw [norm_one, norm_neg] at this
    linarith
  have hPn : ‖P‖ ≤ 1141 / 720 := norm_bernTrunc_le a h
  have hleft : (G * P) * S = 1 := by rw [mul_assoc, hPS, hG1]
  have hright : S * (P * G) = 1 := by rw [← mul_assoc, ← hcomm, hPS, hG2]
  have heq : G * P = P * G := by
    calc G * P = G * P * (S * (P * G)) := by rw [hright, mul_one]
      _ = (G * P * S) * (P * G) := by noncomm_ring
      _ = P * G := by rw [hleft, one_mul]
  refine ⟨G * P, hleft, by rw [heq]; exact hright, ?_⟩
  have hdiff : P - G * P = G * E * P := by
    have hge : G * E = 1 - G := by
      have h1 := hG1; rw [mul_sub, mul_one, mul_neg, sub_neg_eq_add] at h1
      rw [← h1]; abel
    rw [hge]; noncomm_ring
  rw [hdiff]
  have hden : 0 < 1 - ‖E‖ := by linarith
  calc ‖G * E * P‖ ≤ ‖G‖ * ‖E‖ * ‖P‖ := le_trans (norm_mul_le _ _) (mul_le_mul_of_nonneg_right (norm_mul_le _ _) (norm_nonneg _))
    _ ≤ (1 - ‖E‖)⁻¹ * ‖E‖ * (1141 / 720) := by gcongr
    _ ≤ ‖a‖ ^ 6 / 4700 := by
        rw [inv_mul_eq_div, div_mul_eq_mul_div, div_le_iff₀ hden]
        have hE0 := norm_nonneg E
        nlinarith
end

end PP.Bern
namespace PP
open Vec3 Quat Mat3

/-- an `n×n` list matrix -/
def SqWF (n : Nat) (A : DMat ℝ) : Prop := A.length = n ∧ ∀ r ∈ A, r.length = n

/-- the model's list matrix as a Mathlib matrix -/
def DMat.toM (n : Nat) (A : DMat ℝ) : Matrix (Fin n) (Fin n) ℝ := fun i j => (A.getD i.val []).getD j.val 0

theorem SqWF.row {n : Nat} {A : DMat ℝ} (h : SqWF n A) (i : Fin n) : (A.getD i.val []).length = n := by
  have hi : i.val < A.length := by rw [h.1]; exact i.isLt
  rw [List.getD_eq_getElem _ _ hi]
  exact h.2 _ (List.getElem_mem hi)

theorem DVec.sum_eq (l : List ℝ) : DVec.sum l = l.sum := by
  unfold DVec.sum
  simp only [k_real, Nat.cast_zero]
  rw [List.sum_eq_foldl]

theorem dot_eq_sum {n : Nat} (r c : List ℝ) (hr : r.length = n) (hc : c.length = n) :
    DVec.dot r c = ∑ k : Fin n, r.getD k.val 0 * c.getD k.val 0 := by
  unfold DVec.dot
  rw [DVec.sum_eq]
  have : List.zipWith (· * ·) r c = List.ofFn (fun k : Fin n => r.getD k.val 0 * c.getD k.val 0) := by
    apply List.ext_getElem
    · simp [hr, hc]
    · intro i h1 h2
      have hi : i < n := by simpa using h2
      simp [List.getD_eq_getElem, hr, hc, hi]
  rw [this, List.sum_ofFn]

theorem getD_zipWith' {α β γ : Type} (f : α → β → γ) (l1 : List α) (l2 : List β) (i : Nat) (h1 : i < l1.length) (h2 : i < l2.length)
    (d : γ) (d1 : α) (d2 : β) : (List.zipWith f l1 l2).getD i d = f (l1.getD i d1) (l2.getD i d2) := by
  rw [List.getD_eq_getElem _ _ (by simp [h1, h2]), List.getD_eq_getElem _ _ h1, List.getD_eq_getElem _ _ h2, List.getElem_zipWith]
theorem getD_map' {α β : Type} (f : α → β) (l : List α) (i : Nat) (h : i < l.length) (d : β) (d1 : α) :
    (l.map f).getD i d = f (l.getD i d1) := by
  rw [List.getD_eq_getElem _ _ (by simp [h]), List.getD_eq_getElem _ _ h, List.getElem_map]

theorem toM_add {n : Nat} {A B : DMat ℝ} (hA : SqWF n A) (hB : SqWF n B) :
    DMat.toM n (DMat.add A B) = DMat.toM n A + DMat.toM n B := by
  ext i j
  simp only [DMat.toM, DMat.add, Matrix.add_apply]
  rw [getD_zipWith' DVec.add A B i.val (by rw [hA.1]; exact i.isLt) (by rw [hB.1]; exact i.isLt) [] [] []]
  unfold DVec.add
  rw [getD_zipWith' (· + ·) _ _ j.val (by rw [hA.row i]; exact j.isLt) (by rw [hB.row i]; exact j.isLt) 0 0 0]
theorem toM_sub {n : Nat} {A B : DMat ℝ} (hA : SqWF n A) (hB : SqWF n B) :
    DMat.toM n (DMat.sub A B) = DMat.toM n A - DMat.toM n B := by
  ext i j
  simp only [DMat.toM, DMat.sub, Matrix.sub_apply]
  rw [getD_zipWith' DVec.sub A B i.val (by rw [hA.1]; exact i.isLt) (by rw [hB.1]; exact i.isLt) [] [] []]
  unfold DVec.sub
  rw [getD_zipWith' (· - ·) _ _ j.val (by rw [hA.row i]; exact j.isLt) (by rw [hB.row i]; exact j.isLt) 0 0 0]
theorem toM_smul {n : Nat} {A : DMat ℝ} (hA : SqWF n A) (c : ℝ) :
    DMat.toM n (DMat.smul c A) = c • DMat.toM n A := by
  ext i j
  simp only [DMat.toM, DMat.smul, Matrix.smul_apply, smul_eq_mul]
  rw [getD_map' (DVec.smul c) A i.val (by rw [hA.1]; exact i.isLt) [] []]
  unfold DVec.smul
  rw [getD_map' (fun x => c * x) _ j.val (by rw [hA.row i]; exact j.isLt) 0 0]

theorem SqWF_add {n : Nat} {A B : DMat ℝ} (hA : SqWF n A) (hB : SqWF n B) : SqWF n (DMat.add A B) := by
  refine ⟨by simp [DMat.add, hA.1, hB.1], ?_⟩
  intro r hr
  simp only [DMat.add, List.mem_iff_getElem] at hr
  obtain ⟨i, hi, rfl⟩ := hr
  have h1 : i < A.length := by simp at hi; omega
  have h2 : i < B.length := by simp at hi; omega
  simp [DVec.add, hA.2 _ (List.getElem_mem h1), hB.2 _ (List.getElem_mem h2)]
theorem SqWF_sub {n : Nat} {A B : DMat ℝ} (hA : SqWF n A) (hB : SqWF n B) : SqWF n (DMat.sub A B) := by
  refine ⟨by simp [DMat.sub, hA.1, hB.1], ?_⟩
  intro r hr
  simp only [DMat.sub, List.mem_iff_getElem] at hr
  obtain ⟨i, hi, rfl⟩ := hr
  have h1 : i < A.length := by simp at hi; omega
  have h2 : i < B.length := by simp at hi; omega
  simp [DVec.sub, hA.2 _ (List.getElem_mem h1), hB.2 _ (List.getElem_mem h2)]
theorem SqWF_smul {n : Nat} {A : DMat ℝ} (hA : SqWF n A) (c : ℝ) : SqWF n (DMat.smul c A) := by
  refine ⟨by simp [DMat.smul, hA.1], ?_⟩
  intro r hr
  simp only [DMat.smul, List.mem_map] at hr
  obtain ⟨r', hr', rfl⟩ := hr
  simp [DVec.smul, hA.2 _ hr']

theorem ncols_of_WF {n : Nat} {B : DMat ℝ} (hB : SqWF n B) (hn : 0 < n) : DMat.ncols B = n := by
  cases B with
  | nil => have := hB.1; simp at this; omega
  | cons r rs => simp [DMat.ncols, hB.2 r (by simp)]

theorem toM_mul {n : Nat} {A B : DMat ℝ} (hA : SqWF n A) (hB : SqWF n B) :
    DMat.toM n (DMat.mul A B) = DMat.toM n A * DMat.toM n B := by
  ext i j
  have hn : 0 < n := Fin.pos i
  simp only [DMat.toM, DMat.mul, Matrix.mul_apply]
  rw [getD_map' _ A i.val (by rw [hA.1]; exact i.isLt) [] []]
  unfold DMat.transpose
  rw [ncols_of_WF hB hn]
  rw [getD_map' _ _ j.val (by simp) 0 []]
  rw [getD_map' _ _ j.val (by simp) [] 0]
  have hj : (List.range n).getD j.val 0 = j.val := by
    rw [List.getD_eq_getElem _ _ (by simp)]; simp
  rw [hj]
  have hcol : (DMat.col B j.val).length = n := by simp [DMat.col, hB.1]
  rw [dot_eq_sum _ _ (hA.row i) hcol]
  apply Finset.sum_congr rfl
  intro k _
  congr 1
  unfold DMat.col
  rw [getD_map' _ B k.val (by rw [hB.1]; exact k.isLt) 0 []]
  simp only [k_real, Nat.cast_zero]

theorem SqWF_mul {n : Nat} {A B : DMat ℝ} (hA : SqWF n A) (hB : SqWF n B) (hn : 0 < n) : SqWF n (DMat.mul A B) := by
  refine ⟨by simp [DMat.mul, hA.1], ?_⟩
  intro r hr
  simp only [DMat.mul, List.mem_map] at hr
  obtain ⟨r', _, rfl⟩ := hr
  simp [DMat.transpose, ncols_of_WF hB hn]

theorem SqWF_one (n : Nat) : SqWF n (DMat.one n : DMat ℝ) := by
  refine ⟨by simp [DMat.one], ?_⟩
  intro r hr
  simp only [DMat.one, List.mem_map] at hr
  obtain ⟨i, _, rfl⟩ := hr
  simp [DVec.basis]

theorem toM_one (n : Nat) : DMat.toM n (DMat.one n : DMat ℝ) = 1 := by
  ext i j
  simp only [DMat.toM, DMat.one, Matrix.one_apply]
  rw [getD_map' _ _ i.val (by simp) [] 0]
  unfold DVec.basis
  rw [getD_map' _ _ j.val (by simp) 0 0]
  have hi : (List.range n).getD i.val 0 = i.val := by rw [List.getD_eq_getElem _ _ (by simp)]; simp
  have hj : (List.range n).getD j.val 0 = j.val := by rw [List.getD_eq_getElem _ _ (by simp)]; simp
  rw [hi, hj]
  by_cases h : i = j
  · subst h; simp
  · have : ¬ j.val = i.val := fun e => h (Fin.ext e.symm)
    simp [h, this]

/-! ## the model's sim3 matrices as Mathlib matrices -/

theorem SqWF_sim3ad (x : sim3 ℝ) : SqWF 7 (sim3ad x) := by
  refine ⟨by simp [sim3ad], ?_⟩
  intro r hr
  simp only [sim3ad, List.mem_cons, List.mem_singleton, List.not_mem_nil, or_false] at hr
  rcases hr with rfl | rfl | rfl | rfl | rfl | rfl | rfl <;> simp [Vec3.toList, DVec.zero]

open PP.Bern in
/-- `sim3_Jl_inv ξ`, read as a Mathlib matrix, is the truncated Bernoulli polynomial of `ad ξ` -/
theorem toM_sim3JlInv (x : sim3 ℝ) : DMat.toM 7 (sim3JlInv x) = bernTrunc (DMat.toM 7 (sim3ad x)) := by
  have hA := SqWF_sim3ad x
  have h2 := SqWF_mul hA hA (by norm_num)
  have h4 := SqWF_mul h2 h2 (by norm_num)
  have hI := SqWF_one 7
  unfold sim3JlInv bernTrunc
  simp only [q_real, Nat.cast_one, Nat.cast_ofNat]
  rw [toM_sub (SqWF_add (SqWF_sub hI (SqWF_smul hA _)) (SqWF_smul h2 _)) (SqWF_smul h4 _),
    toM_add (SqWF_sub hI (SqWF_smul hA _)) (SqWF_smul h2 _), toM_sub hI (SqWF_smul hA _), toM_smul hA, toM_smul h2, toM_smul h4,
    toM_mul h2 h2, toM_mul hA hA, toM_one]
  simp only [pow_succ, pow_zero, one_mul, mul_assoc]


section
open scoped Matrix.Norms.Operator
open PP.Bern

/-- the matrix of `ad ξ` (7×7) -/
noncomputable def sim3adM (x : sim3 ℝ) : Matrix (Fin 7) (Fin 7) ℝ := DMat.toM 7 (sim3ad x)

theorem linfty_le_of_rows {n : Nat} (A : Matrix (Fin n) (Fin n) ℝ) (c : ℝ) (hc : 0 ≤ c) (h : ∀ i, ∑ j, |A i j| ≤ c) : ‖A‖ ≤ c := by
  rw [Matrix.linfty_opNorm_def]
  have : (Finset.univ.sup fun i : Fin n => ∑ j, ‖A i j‖₊) ≤ ⟨c, hc⟩ := by
    apply Finset.sup_le
    intro i _
    show (∑ j, ‖A i j‖₊ : NNReal) ≤ (⟨c, hc⟩ : NNReal)
    apply NNReal.coe_le_coe.mp
    push_cast
    have h2 : ∑ j, ‖A i j‖ ≤ c := by simpa [Real.norm_eq_abs] using h i
    exact h2
  exact_mod_cast this

theorem norm_sim3ad_le (x : sim3 ℝ) :
    ‖DMat.toM 7 (sim3ad x)‖ ≤ |x.sigma| + (|x.phi.x| + |x.phi.y| + |x.phi.z|) + (|x.tau.x| + |x.tau.y| + |x.tau.z|) := by
  apply linfty_le_of_rows _ _ (by positivity)
  intro i
  have a1 := abs_nonneg x.sigma; have a2 := abs_nonneg x.phi.x; have a3 := abs_nonneg x.phi.y; have a4 := abs_nonneg x.phi.z
  have a5 := abs_nonneg x.tau.x; have a6 := abs_nonneg x.tau.y; have a7 := abs_nonneg x.tau.z
  fin_cases i <;>
    simp [DMat.toM, sim3ad, Fin.sum_univ_succ, Vec3.toList, DVec.zero, Mat3.add, Mat3.smul, Mat3.hat, Mat3.one, Vec3.add, Vec3.smul,
      Vec3.e0, Vec3.e1, Vec3.e2, Vec3.neg, abs_neg] <;>
    linarith

/-- `sim3_Jl ξ`, read as a Mathlib matrix, is the six-term partial sum of the Jacobian series of `ad ξ` -/
theorem toM_sim3Jl (x : sim3 ℝ) :
    DMat.toM 7 (sim3Jl x) = ∑ m ∈ Finset.range 6, (((m + 1).factorial : ℝ)⁻¹) • (DMat.toM 7 (sim3ad x)) ^ m := by
  have hA := SqWF_sim3ad x
  have h2 := SqWF_mul hA hA (by norm_num)
  have h4 := SqWF_mul h2 h2 (by norm_num)
  have h3 := SqWF_mul hA h2 (by norm_num)
  have h5 := SqWF_mul hA h4 (by norm_num)
  have hI := SqWF_one 7
  unfold sim3Jl
  simp only [q_real, Nat.cast_one, Nat.cast_ofNat]
  rw [toM_add (SqWF_add (SqWF_add (SqWF_add (SqWF_add hI (SqWF_smul hA _)) (SqWF_smul h2 _)) (SqWF_smul h3 _)) (SqWF_smul h4 _)) (SqWF_smul h5 _),
    toM_add (SqWF_add (SqWF_add (SqWF_add hI (SqWF_smul hA _)) (SqWF_smul h2 _)) (SqWF_smul h3 _)) (SqWF_smul h4 _),
    toM_add (SqWF_add (SqWF_add hI (SqWF_smul hA _)) (SqWF_smul h2 _)) (SqWF_smul h3 _),
    toM_add (SqWF_add hI (SqWF_smul hA _)) (SqWF_smul h2 _), toM_add hI (SqWF_smul hA _),
    toM_smul hA, toM_smul h2, toM_smul h3, toM_smul h4, toM_smul h5, toM_mul hA h4, toM_mul h2 h2, toM_mul hA h2, toM_mul hA hA, toM_one]
  simp only [Finset.sum_range_succ, Finset.sum_range_zero, Nat.factorial, pow_succ, pow_zero, one_mul, mul_assoc, zero_add]
  norm_num
end

end PP
