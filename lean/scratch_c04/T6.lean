import Proofs.Lemmas.Autograd
namespace PP.AD
open PP

/-! ## more list algebra -/
theorem ddot_pad0 (v τ : DVec ℝ) (h : τ.length ≤ v.length) : DVec.dot (pad0 v) τ = DVec.dot v τ := by
  induction v generalizing τ with
  | nil => cases τ with
    | nil => simp [pad0]
    | cons y τ => simp at h
  | cons x v ih => cases τ with
    | nil => simp
    | cons y τ =>
      have := ih τ (by simpa using h)
      simp only [pad0, List.cons_append, ddot_cons] at this ⊢
      rw [this]

theorem nth_eq_getD (l : DVec ℝ) (i : Nat) : nth l i = l.getD i 0 := by simp [nth]

theorem headN_eq_take (n : Nat) (l : DVec ℝ) (h : n ≤ l.length) : headN n l = l.take n := by
  apply List.ext_getElem
  · simp [headN, h]
  · intro i h1 h2
    simp [headN] at h1 ⊢
    have : i < l.length := by omega
    simp [nth, this]

theorem ddot_take (n : Nat) (a b : DVec ℝ) (h : b.length ≤ n) : DVec.dot (a.take n) b = DVec.dot a b := by
  induction a generalizing n b with
  | nil => simp
  | cons x a ih => cases b with
    | nil => simp
    | cons y b => cases n with
      | zero => simp at h
      | succ n => simp only [List.take_succ_cons, ddot_cons]; rw [ih n b (by simpa using h)]

theorem ddot_headN (n : Nat) (a b : DVec ℝ) (hb : b.length ≤ n) (ha : n ≤ a.length) :
    DVec.dot (headN n a) b = DVec.dot a b := by
  rw [headN_eq_take n a ha, ddot_take n a b hb]

theorem ddot_neg_left (a b : DVec ℝ) : DVec.dot (DVec.neg a) b = -DVec.dot a b := by
  induction a generalizing b with
  | nil => simp [DVec.neg]
  | cons x a ih => cases b with
    | nil => simp
    | cons y b => simp only [DVec.neg, List.map_cons, ddot_cons] at ih ⊢; rw [ih b]; ring

theorem ddot_neg_right (a b : DVec ℝ) : DVec.dot a (DVec.neg b) = -DVec.dot a b := by
  rw [ddot_comm, ddot_neg_left, ddot_comm]

theorem ddot_add_right (a b c : DVec ℝ) (h : b.length = c.length) :
    DVec.dot a (DVec.add b c) = DVec.dot a b + DVec.dot a c := by
  induction a generalizing b c with
  | nil => simp
  | cons x a ih => cases b with
    | nil => cases c with
      | nil => simp [DVec.add]
      | cons z c => simp at h
    | cons y b => cases c with
      | nil => simp at h
      | cons z c =>
        have := ih b c (by simpa using h)
        simp only [DVec.add, List.zipWith_cons_cons, ddot_cons] at this ⊢
        rw [this]; ring

theorem ddot_add_left (a b c : DVec ℝ) (h : a.length = b.length) :
    DVec.dot (DVec.add a b) c = DVec.dot a c + DVec.dot b c := by
  rw [ddot_comm, ddot_add_right c a b h, ddot_comm c a, ddot_comm c b]

@[simp] theorem length_pad0 (v : DVec ℝ) : (pad0 v).length = v.length + 1 := by simp [pad0]
@[simp] theorem length_headN (n : Nat) (v : DVec ℝ) : (headN n v).length = n := by simp [headN]
@[simp] theorem length_dneg (v : DVec ℝ) : (DVec.neg v).length = v.length := by simp [DVec.neg]
theorem length_dadd (a b : DVec ℝ) (h : a.length = b.length) : (DVec.add a b).length = a.length := by
  simp [DVec.add, h]

/-! ## shapes of the helper matrices -/
theorem Shape_toRows (m : Mat3 ℝ) : Shape 3 3 m.toRows := by
  simp [Shape, Mat3.toRows, Vec3.toList]

theorem Shape_AdjMat (g : Grp) (X : DVec ℝ) : Shape g.adim g.adim (AdjMat g X) := by
  cases g <;>
  simp [Shape, AdjMat, Grp.adim, SE3Adj, RxSO3Adj, Sim3Adj, DMat.block, DMat.hcat, DMat.vcat, DMat.zero, DVec.zero,
    Mat3.toRows, Vec3.toList]

theorem Shape_adMat (g : Grp) (x : DVec ℝ) : Shape g.adim g.adim (adMat g x) := by
  cases g <;>
  simp [Shape, adMat, Grp.adim, se3ad, rxso3ad, sim3ad, DMat.block, DMat.hcat, DMat.vcat, DMat.zero, DVec.zero,
    Mat3.toRows, Vec3.toList]

theorem Shape_ActJac (g : Grp) (o : Vec3 ℝ) : Shape 3 g.adim (ActJac g o) := by
  cases g <;>
  simp [Shape, ActJac, Grp.adim, DMat.hcat, DMat.one, DMat.colVec, DVec.basis, Mat3.toRows, Vec3.toList, List.range,
    List.range.loop]

theorem Shape_Act4Jac (g : Grp) (o : Vec3 ℝ) (w : ℝ) : Shape 4 g.adim (Act4Jac g o w) := by
  cases g <;>
  simp [Shape, Act4Jac, Grp.adim, DMat.hcat, DMat.vcat, DMat.zero, DVec.zero, DMat.colVec, Mat3.toRows, Vec3.toList]

theorem Shape_Mat44 (g : Grp) (X : DVec ℝ) : Shape 4 4 (Mat44 g X) := by
  simp [Shape, Mat44, DMat.block, DMat.hcat, DMat.vcat, DMat.zero, DVec.zero, DMat.colVec, Mat3.toRows, Vec3.toList]

end PP.AD
