#!/usr/bin/env python3
"""Regression sweep over every stored delivery: breaking changes (seeded/<id>-<k>) must make the property's quick check
exit 1; harmless rewrites (seeded/harmless/<id>-H<k>) must leave the property's check and the checks of every property
anchored in a touched file at exit 0.   usage: tools/regress.py [--workers N] [--only C01,C02] [--skip C06] [--kind seeds|harmless|all]
Each worker owns a scratch worktree /tmp/rg_wt<i> of /repo HEAD (created and removed here). Results: /tmp/regress.jsonl"""
import argparse, glob, json, os, re, subprocess, sys, threading, queue, time
V = "/verif"
ap = argparse.ArgumentParser(); ap.add_argument("--workers", type=int, default=4); ap.add_argument("--only", default=""); ap.add_argument("--skip", default="")
ap.add_argument("--kind", default="all"); ap.add_argument("--name", default=""); a = ap.parse_args()
only = set(filter(None, a.only.split(","))); skip = set(filter(None, a.skip.split(",")))
props = {json.loads(l)["id"]: json.loads(l) for l in open(f"{V}/properties.jsonl")}
def touched(patch):
    return set(re.findall(r"^\+\+\+ b/(\S+)", open(patch).read(), flags=re.M))
def anchored(files):
    out = set()
    for pid, p in props.items():
        if set(p["anchors"]["files"]) & files:
            out.add(pid)
    return out
jobs = []
if a.kind in ("all", "seeds"):
    for d in sorted(glob.glob(f"{V}/seeded/C??-?")):
        pid = os.path.basename(d)[:3]
        jobs.append((os.path.basename(d), d + "/patch.diff", pid, 1))
if a.kind in ("all", "harmless"):
    for d in sorted(glob.glob(f"{V}/seeded/harmless/*")):
        pid = os.path.basename(d)[:3]
        own = {pid} if re.match(r"C\d\d$", pid) else set()      # probes named H7-… belong to no single property
        for q in sorted(own | anchored(touched(d + "/patch.diff"))):
            jobs.append((os.path.basename(d), d + "/patch.diff", q, 0))
jobs = [j for j in jobs if (not only or j[2] in only) and j[2] not in skip and (not a.name or j[0].startswith(a.name))]
print(len(jobs), "runs", flush=True)
H = subprocess.run(["git", "-C", "/repo", "rev-parse", "HEAD"], capture_output=True, text=True).stdout.strip()
q = queue.Queue(); [q.put(j) for j in jobs]
lock = threading.Lock(); out = open("/tmp/regress.jsonl", "a")
def worker(i):
    wt = f"/tmp/rg_wt{i}"
    subprocess.run(["git", "-C", "/repo", "worktree", "add", "--detach", wt, "HEAD", "-q"], capture_output=True)
    while True:
        try: name, patch, pid, want = q.get_nowait()
        except queue.Empty: break
        subprocess.run(["git", "-C", wt, "checkout", "-q", "--", "."]); subprocess.run(["git", "-C", wt, "checkout", "-q", "--detach", H])
        r = subprocess.run(["git", "-C", wt, "apply", patch], capture_output=True, text=True)
        if r.returncode != 0:
            rec = {"name": name, "prop": pid, "want": want, "rc": "apply-failed"}
        else:
            t0 = time.time()
            env = dict(os.environ, PYPOSE_REPO=wt, VERIF_SEED="0")
            r = subprocess.run(["/venv/bin/python", "check.py", "--property", pid, "--tier", "quick", "--no-lean"], cwd=V, env=env, capture_output=True, text=True, timeout=3000)
            nf = "no-failing-input-found" in r.stdout
            rec = {"name": name, "prop": pid, "want": want, "rc": r.returncode, "nofail": nf, "s": round(time.time() - t0), "line": (r.stdout.strip().splitlines() or [""])[-1][:200]}
        ok = (rec["rc"] == want) and not (want == 1 and rec.get("nofail"))
        rec["ok"] = ok
        with lock:
            out.write(json.dumps(rec) + "\n"); out.flush()
            print(("ok  " if ok else "BAD ") + f"{name} {pid} rc={rec['rc']} want={want} {'(no failing input) ' if rec.get('nofail') else ''}{rec.get('s','')}s", flush=True)
    subprocess.run(["git", "-C", wt, "checkout", "-q", "--", "."])
    subprocess.run(["git", "-C", "/repo", "worktree", "remove", "--force", wt], capture_output=True)
ts = [threading.Thread(target=worker, args=(i,)) for i in range(a.workers)]
[t.start() for t in ts]; [t.join() for t in ts]
