import Proofs.Real
import Pose.Model.Autograd
import Mathlib.Tactic.Ring
import Mathlib.Tactic.Linarith
open PP PP.AD
namespace PP.AD

theorem foldl_add_start (l : List ℝ) (s : ℝ) : l.foldl (· + ·) s = s + l.foldl (· + ·) 0 := by
  induction l generalizing s with
  | nil => simp
  | cons a l ih => simp only [List.foldl_cons]; rw [ih (s + a), ih (0 + a)]; ring

@[simp] theorem dsum_nil : DVec.sum ([] : DVec ℝ) = 0 := by simp [DVec.sum, k, Scalar.ofNat]
@[simp] theorem dsum_cons (a : ℝ) (l : DVec ℝ) : DVec.sum (a :: l) = a + DVec.sum l := by
  simp only [DVec.sum, List.foldl_cons, k_real, Nat.cast_zero]; rw [foldl_add_start]; ring
@[simp] theorem ddot_nil_left (b : DVec ℝ) : DVec.dot ([] : DVec ℝ) b = 0 := by simp [DVec.dot]
@[simp] theorem ddot_nil_right (a : DVec ℝ) : DVec.dot a ([] : DVec ℝ) = 0 := by simp [DVec.dot]
@[simp] theorem ddot_cons (x y : ℝ) (a b : DVec ℝ) : DVec.dot (x :: a) (y :: b) = x * y + DVec.dot a b := by
  simp [DVec.dot]

theorem ddot_comm (a b : DVec ℝ) : DVec.dot a b = DVec.dot b a := by
  induction a generalizing b with
  | nil => simp
  | cons x a ih => cases b with
    | nil => simp
    | cons y b => simp [ih b, mul_comm]

/-- `Σ_j f j * τ_j` as a dot with a mapped range -/
theorem ddot_map_add (τ : DVec ℝ) (l : List Nat) (f g : Nat → ℝ) :
    DVec.dot (l.map (fun j => f j + g j)) τ = DVec.dot (l.map f) τ + DVec.dot (l.map g) τ := by
  induction l generalizing τ with
  | nil => simp
  | cons j l ih => cases τ with
    | nil => simp
    | cons y τ => simp only [List.map_cons, ddot_cons, ih τ]; ring

theorem ddot_map_smul (τ : DVec ℝ) (l : List Nat) (c : ℝ) (f : Nat → ℝ) :
    DVec.dot (l.map (fun j => c * f j)) τ = c * DVec.dot (l.map f) τ := by
  induction l generalizing τ with
  | nil => simp
  | cons j l ih => cases τ with
    | nil => simp
    | cons y τ => simp only [List.map_cons, ddot_cons, ih τ]; ring

theorem ddot_replicate_zero (τ : DVec ℝ) (n : Nat) : DVec.dot (List.replicate n (0:ℝ)) τ = 0 := by
  induction n generalizing τ with
  | zero => simp
  | succ n ih => cases τ with
    | nil => simp
    | cons y τ => simp [List.replicate_succ, ih τ]

theorem map_getD_range (r : DVec ℝ) : (List.range r.length).map (fun j => r.getD j 0) = r := by
  apply List.ext_getElem
  · simp
  · intro i h1 h2; simp at h1 ⊢; simp [h1]

/-- `vecMul` with an explicit number of columns -/
noncomputable def vecMulN (m : Nat) (v : DVec ℝ) (a : DMat ℝ) : DVec ℝ := (List.range m).map (fun j => DVec.dot v (DMat.col a j))

theorem vecMul_eq (v : DVec ℝ) (a : DMat ℝ) : DMat.vecMul v a = vecMulN (DMat.ncols a) v a := by
  simp [DMat.vecMul, DMat.transpose, vecMulN, Function.comp_def]

theorem vecMulN_adjoint (m : Nat) (a : DMat ℝ) (hw : ∀ r ∈ a, r.length = m) (v τ : DVec ℝ) (hv : v.length = a.length) :
    DVec.dot (vecMulN m v a) τ = DVec.dot v (DMat.mulVec a τ) := by
  induction a generalizing v with
  | nil => simp [vecMulN, DMat.col, DMat.mulVec, ddot_replicate_zero]
  | cons r a ih =>
    cases v with
    | nil => simp at hv
    | cons x v =>
      have hr : r.length = m := hw r (by simp)
      have hw' : ∀ r ∈ a, r.length = m := fun r' h => hw r' (by simp [h])
      have hv' : v.length = a.length := by simpa using hv
      have := ih hw' v hv'
      simp only [vecMulN, DMat.col, List.map_cons, ddot_cons, DMat.mulVec] at this ⊢
      rw [ddot_map_add, ddot_map_smul, this]
      congr 1
      have e : (List.range m).map (fun j => r.getD j (k 0 : ℝ)) = r := by
        rw [← hr]; simpa using map_getD_range r
      rw [e]

theorem vecMul_adjoint (m : Nat) (a : DMat ℝ) (hne : a ≠ []) (hw : ∀ r ∈ a, r.length = m) (v τ : DVec ℝ)
    (hv : v.length = a.length) : DVec.dot (DMat.vecMul v a) τ = DVec.dot v (DMat.mulVec a τ) := by
  rw [vecMul_eq]
  have : DMat.ncols a = m := by
    cases a with
    | nil => exact absurd rfl hne
    | cons r a => simpa [DMat.ncols] using hw r (by simp)
  rw [this]; exact vecMulN_adjoint m a hw v τ hv
end PP.AD
#print axioms PP.AD.vecMul_adjoint
