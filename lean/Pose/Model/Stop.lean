import Pose.Scalar
/-!
# Model of the stopping controllers and their driver loops

* `pypose/optim/scheduler.py` : `_Scheduler`, `StopOnPlateau.step`, `StopOnPlateau.optimize`
* `pypose/utils/stepper.py`   : `_Stepper.reset/continual`, `ReduceToBason.step`
* `pypose/module/mpc.py`      : `MPC.__init__` (`stepper.max_steps -= 1`), `MPC.forward` loop
* `pypose/module/icp.py`      : `ICP.forward` loop

Two layers.

**Abstract layer** (`Obs`, `St`, `Cfg`, `sopStep`, `rtbStep`, `rtbReset`, `loop`): what a controller
step *observes* is three booleans — did this step fail to decrease the loss by the configured amount
(`nodec`), are all losses below `tol` (`below`, ReduceToBason only), did the optimizer's last step
involve a rejection (`rej`, StopOnPlateau only).  The controller state is `steps`, `patience_count`,
`_continual`.  The statements of the code are kept in the order of the code.

**Numeric layer** (`relNoDec`, `belowTol`, `absNoDec`, `rtbStepNum`, `sopObs`): how those booleans are
computed from the loss values, polymorphic in `[Scalar α]`; `last = none` is the `torch.tensor(inf)` that
`_Stepper.reset` installs.  A batched loss is the list of its elements (`torch.all` = `List.all`).

Things that are as in the code and not as one might expect:
* `_Stepper.reset` resets `last`, `steps`, `_continual` and `patience_count` (since the repair of defect D31;
  before it `patience_count` survived `reset`, see `Proofs/Lemmas/Stop.lean: rtbResetOld`).
* `StopOnPlateau` (`_Scheduler`) has **no** `reset`; nothing in the code re-arms a stopped scheduler.
* `StopOnPlateau.step` ignores its `loss` argument and reads `optimizer.last / .loss / .reject_count`;
  its test is on the *absolute* decrease `last - loss < decreasing`.
* `ReduceToBason.step` tests the decrease *relative to the new loss*, `(last - loss)/loss < decreasing`,
  in IEEE arithmetic: on the first step after `reset` the quotient is `+inf` for `loss ≥ 0` and `-inf`
  for `loss < 0`; `x/0` is `±inf` by the sign of `x`, `0/0` is NaN and every comparison with NaN is false.
* `patience_count` and `steps` keep counting after the controller has stopped.
-/
namespace PP.Stop

/-- What one controller step observes. -/
structure Obs where
  /-- this step failed to decrease the loss by the configured amount -/
  nodec : Bool
  /-- all losses are below `tol` (ReduceToBason) -/
  below : Bool
  /-- `optimizer.reject_count > 0` after the optimizer's last step (StopOnPlateau) -/
  rej : Bool
deriving DecidableEq, Repr, Inhabited

/-- Configuration: `max_steps` and `patience` (any integers; MPC may decrement `max_steps` to 0). -/
structure Cfg where
  maxSteps : Int
  patience : Int
deriving DecidableEq, Repr

/-- Controller state: `steps`, `patience_count`, `_continual`. -/
structure St where
  steps : Nat
  pc : Nat
  cont : Bool
deriving DecidableEq, Repr, Inhabited

/-- state installed by the constructors -/
def St.init : St := ⟨0, 0, true⟩

/-- `StopOnPlateau.step` (statement order of the code). -/
def sopStep (c : Cfg) (s : St) (o : Obs) : St :=
  let steps := s.steps + 1                                          -- self.steps = self.steps + 1
  let cont1 := if c.maxSteps ≤ (steps : Int) then false else s.cont  -- if self.steps >= self.max_steps
  let pc := if o.nodec then s.pc + 1 else 0                          -- if (last - loss) < decreasing … else 0
  let cont2 := if c.patience ≤ (pc : Int) then false else cont1      -- if self.patience_count >= self.patience
  let cont3 := if o.rej then false else cont2                        -- if optimizer.reject_count > 0
  ⟨steps, pc, cont3⟩

/-- `ReduceToBason.step` (statement order of the code). -/
def rtbStep (c : Cfg) (s : St) (o : Obs) : St :=
  let steps := s.steps + 1                                          -- self.steps = self.steps + 1
  let cont0 := if o.below then false else s.cont                     -- if torch.all(loss < self.tol)
  let cont1 := if c.maxSteps ≤ (steps : Int) then false else cont0   -- if self.steps >= self.max_steps
  let pc := if o.nodec then s.pc + 1 else 0                          -- if torch.all((last-loss)/loss < decreasing)
  let cont2 := if c.patience ≤ (pc : Int) then false else cont1      -- if self.patience_count >= self.patience
  ⟨steps, pc, cont2⟩

/-- `_Stepper.reset`: `self.steps, self._continual, self.patience_count = 0, True, 0` (and `last = inf`,
numeric layer). -/
def rtbReset (_ : St) : St := ⟨0, 0, true⟩

/-- the state after `n` steps fed with `obs 0 … obs (n-1)` -/
def run (stepf : St → Obs → St) (s : St) (obs : Nat → Obs) : Nat → St
  | 0 => s
  | n+1 => stepf (run stepf s obs n) (obs n)

/-- executable trace on a list of observations: the states after each step -/
def trace (stepf : St → Obs → St) : St → List Obs → List St
  | _, [] => []
  | s, o :: os => let s' := stepf s o; s' :: trace stepf s' os

/-! ### driver loops

`while ctl.continual(): o ← body(); ctl.step(o)` — `obs i` is what the body of the `i`-th iteration
produces (optimizer step / LQR solve / kNN+SVD).  `fuel` bounds the recursion; the theorems show
which fuel suffices.  Returns (number of iterations, final state). -/
def loop (stepf : St → Obs → St) (obs : Nat → Obs) : Nat → Nat → St → Nat × St
  | 0, i, s => (i, s)
  | fuel+1, i, s => if s.cont then loop stepf obs fuel (i+1) (stepf s (obs i)) else (i, s)

/-- fuel that always suffices for a controller whose current step count is `s.steps` -/
def fuelFor (c : Cfg) (s : St) : Nat := (c.maxSteps - (s.steps : Int)).toNat + 1

/-- `StopOnPlateau.optimize`: number of `optimizer.step` calls and the final state -/
def optimize (c : Cfg) (s : St) (obs : Nat → Obs) : Nat × St :=
  loop (sopStep c) obs (fuelFor c s) 0 s

/-- `ICP.forward`: `stepper.reset()`, the loop (one `svdtf` per iteration), one final `svdtf`.
Returns (controller steps, `svdtf` calls, final state). -/
def icpForward (c : Cfg) (s : St) (obs : Nat → Obs) : Nat × Nat × St :=
  let r := loop (rtbStep c) obs (fuelFor c (rtbReset s)) 0 (rtbReset s)
  (r.1, r.1 + 1, r.2)

/-- `MPC.__init__`: `self.stepper.max_steps -= 1` (on the stepper object that was passed in) -/
def mpcInit (c : Cfg) : Cfg := { c with maxSteps := c.maxSteps - 1 }

/-- `k` MPC objects constructed on the same stepper object -/
def mpcInitN : Nat → Cfg → Cfg
  | 0, c => c
  | k+1, c => mpcInit (mpcInitN k c)

/-- `MPC.forward` on an MPC whose stepper currently has configuration `c` (i.e. *after* `mpcInit`):
`reset`, the loop (one `lqr` per iteration), one final `lqr`.
Returns (controller steps, `lqr` calls, final state). -/
def mpcForward (c : Cfg) (s : St) (obs : Nat → Obs) : Nat × Nat × St :=
  let r := loop (rtbStep c) obs (fuelFor c (rtbReset s)) 0 (rtbReset s)
  (r.1, r.1 + 1, r.2)

/-! ### numeric layer -/
section numeric
variable {α : Type} [Scalar α]

/-- IEEE outcome of `(last - loss)/loss < d` for one element (finite `loss`, `d`; `+0.0` only).
`last = none` is `+inf`. -/
def relNoDec1 (d : α) (last : Option α) (loss : α) : Bool :=
  match last with
  | none => Scalar.lt loss (k 0)            -- (inf - x)/x = +inf for x ≥ 0 (also x = 0), -inf for x < 0
  | some l =>
    if Scalar.lt (k 0) loss || Scalar.lt loss (k 0) then Scalar.lt ((l - loss) / loss) d
    else Scalar.lt l (k 0)                  -- l/0 = +inf (l>0, not <d), -inf (l<0, <d), NaN (l=0, not <d)

/-- `torch.all((self.last - loss)/loss < self.decreasing)` — `last` is `inf` (0-dim, broadcast) or the
previous loss **of the same number of elements**.  `List.zip` truncates when the lengths differ, which is NOT what
torch does there (it broadcasts or raises): this flat model is only meaningful for histories whose batch size is
constant between resets — every theorem about it carries that hypothesis, the driver refuses other inputs, and the
shape-aware model `Pose/Model/StopX.lean` (`relNoDecT`) covers changing shapes. -/
def relNoDec (d : α) (last : Option (List α)) (loss : List α) : Bool :=
  match last with
  | none => loss.all (fun x => relNoDec1 d none x)
  | some ls => (List.zip ls loss).all (fun p => relNoDec1 d (some p.1) p.2)

/-- `torch.all(loss < self.tol)` -/
def belowTol (tol : α) (loss : List α) : Bool := loss.all (fun x => Scalar.lt x tol)

/-- numeric state of a `ReduceToBason` -/
structure RtbSt (α : Type) where
  st : St
  last : Option (List α)

def RtbSt.init : RtbSt α := ⟨St.init, none⟩

/-- observation computed by `ReduceToBason.step` from the loss -/
def rtbObs (d tol : α) (last : Option (List α)) (loss : List α) : Obs :=
  ⟨relNoDec d last loss, belowTol tol loss, false⟩

/-- `ReduceToBason.step(loss)` -/
def rtbStepNum (c : Cfg) (d tol : α) (s : RtbSt α) (loss : List α) : RtbSt α :=
  ⟨rtbStep c s.st (rtbObs d tol s.last loss), some loss⟩

/-- `_Stepper.reset()` -/
def rtbResetNum (s : RtbSt α) : RtbSt α := ⟨rtbReset s.st, none⟩

/-- a history of a stepper: `step(loss)` calls interleaved with `reset()` calls -/
inductive Ev (α : Type) where
  | step (loss : List α)
  | reset

def rtbEv (c : Cfg) (d tol : α) (s : RtbSt α) : Ev α → RtbSt α
  | .step loss => rtbStepNum c d tol s loss
  | .reset => rtbResetNum s

/-- state after `n` numeric steps fed with `loss 0 … loss (n-1)` -/
def rtbRunNum (c : Cfg) (d tol : α) (s : RtbSt α) (loss : Nat → List α) : Nat → RtbSt α
  | 0 => s
  | n+1 => rtbStepNum c d tol (rtbRunNum c d tol s loss n) (loss n)

/-- what `StopOnPlateau.step` reads from the optimizer: `last`, `loss`, and `reject_count` if the
optimizer has that attribute (LM has, GN has not) -/
structure OptObs (α : Type) where
  last : α
  loss : α
  rejectCount : Option Nat

/-- `(self.optimizer.last - self.optimizer.loss) < self.decreasing` -/
def absNoDec (d last loss : α) : Bool := Scalar.lt (last - loss) d

def sopObs (d : α) (o : OptObs α) : Obs :=
  ⟨absNoDec d o.last o.loss, false, match o.rejectCount with | some n => decide (0 < n) | none => false⟩

/-- `StopOnPlateau.step(loss)` (the argument is ignored by the code) -/
def sopStepNum (c : Cfg) (d : α) (s : St) (o : OptObs α) : St := sopStep c s (sopObs d o)

end numeric

/-! ### exhaustive enumeration helper (driver): states of every node of the trie of all words of
length ≤ `L` over `alphabet`, in depth-first pre-order (root excluded) -/
def trie (stepf : St → Obs → St) (alphabet : List Obs) : Nat → St → List St
  | 0, _ => []
  | L+1, s => alphabet.flatMap fun o => let s' := stepf s o; s' :: trie stepf alphabet L s'

end PP.Stop
