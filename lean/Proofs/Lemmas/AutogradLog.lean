import Proofs.Lemmas.Autograd
import Proofs.Lemmas.So3Exp
import Mathlib.Analysis.SpecialFunctions.Sqrt
import Mathlib.Analysis.SpecialFunctions.Trigonometric.ArctanDeriv
/-!
# C04 — `SO3_Log.backward` multiplies by the true derivative of `SO3_Log`

`SO3Log_tangent`: in regime 1 of the logarithm (`‖v‖ > eps`, `|w| > eps`, both hemispheres) a curve of unit quaternions
with left-perturbation tangent `τ` is mapped to a curve in `so3` with velocity `so3_Jl_inv(Log X)·τ`.
-/
set_option maxRecDepth 10000
set_option linter.unusedSimpArgs false
set_option linter.unusedVariables false
namespace PP.AD
open PP

/-- regime 1 of `SO3_Log` (`‖v‖ > eps`, `|w| > eps`) -/
theorem SO3Log_regime1 (eps : ℝ) (p : Quat ℝ) (h1 : eps < p.vec.norm) (h2 : eps < |p.w|) :
    SO3Log eps p = p.vec.smul (2 * Real.arctan (p.vec.norm / p.w) / p.vec.norm) := by
  unfold SO3Log so3LogFactor
  simp only [lt_real, h1, sabs_real, h2, decide_true, if_true, atan_real, k_real, Nat.cast_ofNat]

/-- half-angle cotangent term of `so3_Jl_inv` at `θ = 2|α|` when `tan α = n/w` -/
theorem halfcot (α n w : ℝ) (hn : n ≠ 0) (hw : w ≠ 0) (hα : α ≠ 0) (hc : Real.cos α ≠ 0)
    (hs : Real.sin α = n / w * Real.cos α) :
    (2 * |α|) * Real.cos (1 / 2 * (2 * |α|)) / (2 * Real.sin (1 / 2 * (2 * |α|))) = α * w / n := by
  have e : (1:ℝ) / 2 * (2 * |α|) = |α| := by ring
  rw [e, Real.cos_abs]
  rcases lt_or_gt_of_ne hα with h | h
  · rw [abs_of_neg h, Real.sin_neg, hs]; field_simp
  · rw [abs_of_pos h, hs]; field_simp

/-- **`SO3_Log.backward` multiplies by the true derivative** (regime 1: `eps < ‖v‖`, `eps < |w|`, closed-form branch of
`so3_Jl_inv`): if the unit quaternion `X(t)` moves with left-perturbation tangent `τ`, then `Log X(t)` moves with velocity
`so3_Jl_inv(Log X(0))·τ`. -/
theorem SO3Log_tangent (eps : ℝ) (heps : 0 ≤ eps) (X : ℝ → DVec ℝ) (a0 a1 a2 : ℝ)
    (hX : LCurve 4 X (liftG .SO3 (X 0) [a0, a1, a2])) (hu : (qt (X 0)).normSq = 1)
    (hv : eps < (qt (X 0)).vec.norm) (hw : eps < |(qt (X 0)).w|)
    (hφ : eps < (v3 (logF .SO3 eps (X 0))).norm) :
    LCurve 3 (fun t => logF .SO3 eps (X t))
      ((JlInvMat .SO3 eps (logF .SO3 eps (X 0))).mulVec [a0, a1, a2]) := by
  have h0 := hX 0 (by norm_num); have h1 := hX 1 (by norm_num); have h2 := hX 2 (by norm_num); have h3 := hX 3 (by norm_num)
  set x := nth (X 0) 0 with hx
  set y := nth (X 0) 1 with hy
  set z := nth (X 0) 2 with hz
  set w := nth (X 0) 3 with hw'
  simp only [liftG, liftQ, qt, v3, nth_cons_zero, nth_cons_succ, Quat.toList, Quat.mul, Quat.mk', Vec3.smul,
    ← hx, ← hy, ← hz, ← hw'] at h0 h1 h2 h3
  have hunit : x * x + y * y + z * z + w * w = 1 := by simpa [qt, Quat.normSq, ← hx, ← hy, ← hz, ← hw'] using hu
  -- ‖v‖ along the curve
  have hnorm0 : (qt (X 0)).vec.norm = Real.sqrt (x * x + y * y + z * z) := by
    simp [Vec3.norm, Vec3.normSq, Quat.vec, qt, ← hx, ← hy, ← hz]
  set n := Real.sqrt (x * x + y * y + z * z) with hn
  have hnpos : 0 < n := by rw [← hnorm0]; exact lt_of_le_of_lt heps hv
  have hn2 : n * n = x * x + y * y + z * z :=
    Real.mul_self_sqrt (by nlinarith [mul_self_nonneg x, mul_self_nonneg y, mul_self_nonneg z])
  have hNne : x * x + y * y + z * z ≠ 0 := by rw [← hn2]; exact ne_of_gt (mul_pos hnpos hnpos)
  have hwne : w ≠ 0 := by
    intro h; rw [show (qt (X 0)).w = w from rfl, h, abs_zero] at hw; exact absurd hw (not_lt.mpr heps)
  -- abbreviations for the component velocities
  set x' := 0 * x + 1 / 2 * a0 * w + (1 / 2 * a1 * z - 1 / 2 * a2 * y) with hx'
  set y' := 0 * y + 1 / 2 * a1 * w + (1 / 2 * a2 * x - 1 / 2 * a0 * z) with hy'
  set z' := 0 * z + 1 / 2 * a2 * w + (1 / 2 * a0 * y - 1 / 2 * a1 * x) with hz'
  set w' := 0 * w - (1 / 2 * a0 * x + 1 / 2 * a1 * y + 1 / 2 * a2 * z) with hw''
  have hN : HasDerivAt (fun t => nth (X t) 0 * nth (X t) 0 + nth (X t) 1 * nth (X t) 1 + nth (X t) 2 * nth (X t) 2)
      (2 * (x * x' + y * y' + z * z')) 0 := by
    have := ((h0.mul h0).add (h1.mul h1)).add (h2.mul h2)
    refine this.congr_deriv ?_
    simp only [← hx, ← hy, ← hz]; ring
  have hT : HasDerivAt (fun t => Real.sqrt (nth (X t) 0 * nth (X t) 0 + nth (X t) 1 * nth (X t) 1 + nth (X t) 2 * nth (X t) 2))
      ((x * x' + y * y' + z * z') / n) 0 := by
    have := hN.sqrt (by simpa [← hx, ← hy, ← hz] using hNne)
    refine this.congr_deriv ?_
    simp only [← hx, ← hy, ← hz, ← hn]; field_simp
  set n' := (x * x' + y * y' + z * z') / n with hn'
  have hU : HasDerivAt (fun t => Real.sqrt (nth (X t) 0 * nth (X t) 0 + nth (X t) 1 * nth (X t) 1 + nth (X t) 2 * nth (X t) 2) / nth (X t) 3)
      ((n' * w - n * w') / w ^ 2) 0 := by
    have := hT.fun_div h3 (by simpa [← hw'] using hwne)
    simpa [← hx, ← hy, ← hz, ← hw', ← hn] using this
  have hA : HasDerivAt (fun t => Real.arctan (Real.sqrt (nth (X t) 0 * nth (X t) 0 + nth (X t) 1 * nth (X t) 1 + nth (X t) 2 * nth (X t) 2) / nth (X t) 3))
      (1 / (1 + (n / w) ^ 2) * ((n' * w - n * w') / w ^ 2)) 0 := by
    have := hU.arctan
    simpa [← hx, ← hy, ← hz, ← hw', ← hn] using this
  set α := Real.arctan (n / w) with hα
  have hF : HasDerivAt (fun t => 2 * Real.arctan (Real.sqrt (nth (X t) 0 * nth (X t) 0 + nth (X t) 1 * nth (X t) 1 + nth (X t) 2 * nth (X t) 2) / nth (X t) 3)
        / Real.sqrt (nth (X t) 0 * nth (X t) 0 + nth (X t) 1 * nth (X t) 1 + nth (X t) 2 * nth (X t) 2))
      ((2 * (1 / (1 + (n / w) ^ 2) * ((n' * w - n * w') / w ^ 2)) * n - 2 * α * n') / n ^ 2) 0 := by
    have := (hA.const_mul (2:ℝ)).fun_div hT (by simpa [← hx, ← hy, ← hz, ← hn] using ne_of_gt hnpos)
    simpa [← hx, ← hy, ← hz, ← hw', ← hn, ← hα] using this
  -- eventually regime 1
  have hvt : ∀ t, (qt (X t)).vec.norm = Real.sqrt (nth (X t) 0 * nth (X t) 0 + nth (X t) 1 * nth (X t) 1 + nth (X t) 2 * nth (X t) 2) := by
    intro t; simp [Vec3.norm, Vec3.normSq, Quat.vec, qt]
  have hev : ∀ᶠ t in nhds (0:ℝ), eps < (qt (X t)).vec.norm ∧ eps < |(qt (X t)).w| := by
    have e1 : ∀ᶠ t in nhds (0:ℝ), eps < Real.sqrt (nth (X t) 0 * nth (X t) 0 + nth (X t) 1 * nth (X t) 1 + nth (X t) 2 * nth (X t) 2) := by
      apply hT.continuousAt.eventually (lt_mem_nhds _)
      simpa [← hx, ← hy, ← hz, ← hn, ← hnorm0] using hv
    have e2 : ∀ᶠ t in nhds (0:ℝ), eps < |nth (X t) 3| := by
      apply (h3.continuousAt.abs).eventually (lt_mem_nhds _)
      simpa [qt, ← hw'] using hw
    filter_upwards [e1, e2] with t ht1 ht2
    exact ⟨by rw [hvt t]; exact ht1, by simpa [qt] using ht2⟩
  have hval : ∀ t, eps < (qt (X t)).vec.norm → eps < |(qt (X t)).w| → logF .SO3 eps (X t) =
      [nth (X t) 0 * (2 * Real.arctan (Real.sqrt (nth (X t) 0 * nth (X t) 0 + nth (X t) 1 * nth (X t) 1 + nth (X t) 2 * nth (X t) 2) / nth (X t) 3)
          / Real.sqrt (nth (X t) 0 * nth (X t) 0 + nth (X t) 1 * nth (X t) 1 + nth (X t) 2 * nth (X t) 2)),
       nth (X t) 1 * (2 * Real.arctan (Real.sqrt (nth (X t) 0 * nth (X t) 0 + nth (X t) 1 * nth (X t) 1 + nth (X t) 2 * nth (X t) 2) / nth (X t) 3)
          / Real.sqrt (nth (X t) 0 * nth (X t) 0 + nth (X t) 1 * nth (X t) 1 + nth (X t) 2 * nth (X t) 2)),
       nth (X t) 2 * (2 * Real.arctan (Real.sqrt (nth (X t) 0 * nth (X t) 0 + nth (X t) 1 * nth (X t) 1 + nth (X t) 2 * nth (X t) 2) / nth (X t) 3)
          / Real.sqrt (nth (X t) 0 * nth (X t) 0 + nth (X t) 1 * nth (X t) 1 + nth (X t) 2 * nth (X t) 2))] := by
    intro t ht1 ht2
    simp only [logF, SO3Log_regime1 eps _ ht1 ht2, hvt t]
    simp [Vec3.smul, Vec3.toList, Quat.vec, qt, mul_comm]
  have hval0 : logF .SO3 eps (X 0) = [x * (2 * α / n), y * (2 * α / n), z * (2 * α / n)] := by
    rw [hval 0 hv hw]
  -- the angle of the logarithm is 2|α| and its half-angle cotangent term is α w / n
  have hαne : α ≠ 0 := by
    intro h
    have : (v3 (logF .SO3 eps (X 0))).norm = 0 := by
      rw [hval0, h]; simp [Vec3.norm, Vec3.normSq, v3]
    rw [this] at hφ; exact absurd hφ (not_lt.mpr heps)
  have hcos : Real.cos α ≠ 0 := ne_of_gt (Real.cos_arctan_pos _)
  have hsin : Real.sin α = n / w * Real.cos α := by
    have := Real.tan_arctan (n / w)
    rw [← hα, Real.tan_eq_sin_div_cos] at this
    field_simp at this ⊢; linarith
  have hθ : (v3 (logF .SO3 eps (X 0))).norm = 2 * |α| := by
    rw [hval0]
    simp only [Vec3.norm, Vec3.normSq, v3, nth_cons_zero, nth_cons_succ]
    have : x * (2 * α / n) * (x * (2 * α / n)) + y * (2 * α / n) * (y * (2 * α / n)) + z * (2 * α / n) * (z * (2 * α / n))
        = (2 * α) ^ 2 := by
      have hnn : n ≠ 0 := ne_of_gt hnpos
      field_simp
      rw [show n ^ 2 = n * n by ring, hn2]; ring
    rw [this, sqrt_real, Real.sqrt_sq_eq_abs, abs_mul]; simp
  have hcot := halfcot α n w (ne_of_gt hnpos) hwne hαne hcos hsin
  rw [hval0] at hθ hφ
  have hθ' : ({ x := x * (2 * α / n), y := y * (2 * α / n), z := z * (2 * α / n) } : Vec3 ℝ).norm = 2 * |α| := by
    simpa [v3] using hθ
  have hφ' : eps < 2 * |α| := by rw [← hθ]; exact hφ
  have habs : |α| * |α| = α * α := abs_mul_abs_self α
  have key : ∀ i, i < 3 → HasDerivAt (fun t => nth [nth (X t) 0 * (2 * Real.arctan (Real.sqrt (nth (X t) 0 * nth (X t) 0 + nth (X t) 1 * nth (X t) 1 + nth (X t) 2 * nth (X t) 2) / nth (X t) 3)
          / Real.sqrt (nth (X t) 0 * nth (X t) 0 + nth (X t) 1 * nth (X t) 1 + nth (X t) 2 * nth (X t) 2)),
       nth (X t) 1 * (2 * Real.arctan (Real.sqrt (nth (X t) 0 * nth (X t) 0 + nth (X t) 1 * nth (X t) 1 + nth (X t) 2 * nth (X t) 2) / nth (X t) 3)
          / Real.sqrt (nth (X t) 0 * nth (X t) 0 + nth (X t) 1 * nth (X t) 1 + nth (X t) 2 * nth (X t) 2)),
       nth (X t) 2 * (2 * Real.arctan (Real.sqrt (nth (X t) 0 * nth (X t) 0 + nth (X t) 1 * nth (X t) 1 + nth (X t) 2 * nth (X t) 2) / nth (X t) 3)
          / Real.sqrt (nth (X t) 0 * nth (X t) 0 + nth (X t) 1 * nth (X t) 1 + nth (X t) 2 * nth (X t) 2))] i)
      (nth ((JlInvMat .SO3 eps (logF .SO3 eps (X 0))).mulVec [a0, a1, a2]) i) 0 := by
    intro i hi
    rw [hval0]
    interval_cases i
    all_goals
      simp only [nth_cons_zero, nth_cons_succ]
      refine HasDerivAt.congr_deriv (by first | exact h0.mul hF | exact h1.mul hF | exact h2.mul hF) ?_
      simp only [JlInvMat, so3JlInv, so3JlInvCoef, polyK, v3, nth_cons_zero, nth_cons_succ, hθ', lt_real, hφ', decide_true,
        if_true, Mat3.toRows, Vec3.toList, DMat.mulVec, DVec.dot, DVec.sum, List.map, List.zipWith, List.foldl,
        cos_real, sin_real, q_real, k_real]
      lie_unfold
      simp only [nth_cons_zero, nth_cons_succ, ← hx, ← hy, ← hz, ← hw', ← hn, ← hα]
      have h4 : 2 * |α| * (2 * |α|) = 4 * (α * α) := by rw [← habs]; ring
      rw [hcot, h4]
      simp only [hx', hy', hz', hw'', hn']
      have hnn : n ≠ 0 := ne_of_gt hnpos
      have hn2' : n ^ 2 = x ^ 2 + y ^ 2 + z ^ 2 := by rw [pow_two, hn2]; ring
      have hunit' : x ^ 2 + y ^ 2 + z ^ 2 + w ^ 2 = 1 := by rw [← hunit]; ring
      have hwn : w ^ 2 + n ^ 2 = 1 := by rw [hn2']; linarith
      have hwn' : w ^ 2 + n ^ 2 ≠ 0 := by rw [hwn]; norm_num
      field_simp
      clear hcot hsin hcos hθ hθ' hφ hφ' hval hval0 hev hvt hF hA hU hT hN h0 h1 h2 h3 hX hu hv hw hnorm0 hn2 hunit hNne
      grind
  intro i hi
  refine (key i hi).congr_of_eventuallyEq ?_
  filter_upwards [hev] with t ht
  rw [hval t ht.1 ht.2]
end PP.AD
