import Pose.Wire
import Pose.Driver.Lie
import Pose.Model.ExpGlue
/-! Driver ops for C01: `Exp` of an algebra element followed by `tensor()` and `matrix()` in one reply
(storage of the group element, then the matrix row-major), so the transcendentals are evaluated once. -/
namespace PP.Driver
open PP Wire

/-- `c01.glue <ltype> <dtype> <rank> <shape…> <data…>`: the public path `pp.Exp(pp.LieTensor(data, ltype))` followed by
`.tensor()` and `.matrix()` with the model's own dispatch, shape handling and dtype-dependent eps.
reply `ok <ltype> <rank> <shape…> <n> <data…> <mrank> <mshape…> <m> <mdata…>` or `err lastDim|noExp|numel` -/
def glueHandler : Handler := fun ts =>
  match ts with
  | ltn :: dtn :: rk :: rest => do
    let lt ← (LType.ofName ltn).elim (.error "ltype") .ok
    let dt ← (DType.ofName dtn).elim (.error "dtype") .ok
    let r ← nat rk
    let (shp, dat) ← take r rest
    let shape ← nats shp
    let data ← nums dat
    match ppExp (α := B) lt dt shape data with
    | .error e => .error e.name
    | .ok X =>
      let (ms, md) := X.matrix dt
      .ok (" ".intercalate [X.ltype.name, toString X.shape.length, fmtNats X.shape, toString X.data.length, fmt X.data,
            toString ms.length, fmtNats ms, toString md.length, fmt md])
  | _ => .error "arity"

def opsC01 : List (String × Handler) := [
  ("c01.glue", glueHandler),
  ("c01.so3", withEps 3 fun e l => let X := so3Exp e (v3 l); X.toList ++ (SO3matrix X).toList),
  ("c01.se3", withEps 6 fun e l => let X := se3Exp e (tose3 l); X.toList ++ (SE3matrix X).flat),
  ("c01.rxso3", withEps 4 fun e l => let X := rxso3Exp e (torx l); X.toList ++ (RxSO3matrix X).flat),
  ("c01.sim3", withEps 7 fun e l => let X := sim3Exp e (tosim l); X.toList ++ (Sim3matrix X).flat),
  -- the coupling matrix alone and its coefficients (A, B, C), for diagnostics / replay
  ("c01.WsCoef", withEps 2 fun e l =>
      let c := rxso3WsCoef e (l.getD 0 default) (l.getD 1 default); [c.1, c.2.1, c.2.2])
]

end PP.Driver
