import Proofs.Props.C17
namespace PP.C17
open PP Vec3 Quat Mat3 Align

/-! ## `svdstf` (Umeyama) -/

/-- the matrix `svdstf` decomposes: `H = target_ᵀ source_ / N` -/
noncomputable def Hmat (ps : Pairs ℝ) : Mat3 ℝ := Mat3.smul (1 / (ps.length : ℝ)) (crossCov (centered ps))

/-- the scale `svdstf` computes: `(d₁ + d₂ + sign·d₃) / var_source` -/
noncomputable def umeyamaScale (d : SVD3 ℝ) (ps : Pairs ℝ) : ℝ :=
  (d.S.x + d.S.y + (d.U.mul d.Vh).det * d.S.z) / varSource ps

theorem frob_Hmat (R : Mat3 ℝ) (ps : Pairs ℝ) :
    Mat3.frob R (Hmat ps) = 1 / (ps.length : ℝ) * Mat3.frob R (crossCov (centered ps)) := by
  rw [Hmat, Mat3.frob_smul]

/-- what `svdstf` hands to `mat2Sim3`: same rotation `rotOf` as `svdtf`, Umeyama's scale, `t = c_t − s R c_s` -/
theorem svdstfMat_eq (svd : Mat3 ℝ → SVD3 ℝ) (detK : Mat3 ℝ → ℝ) (hdet : ∀ M, detK M = M.det) (ws : Bool)
    (ps : Pairs ℝ) (h : SVDOk (Hmat ps) (svd (Hmat ps))) :
    svdstfMat svd detK ws ps =
      (if ws then umeyamaScale (svd (Hmat ps)) ps else 1, rotOf (svd (Hmat ps)),
        (mean (tgts ps)).sub ((Mat3.smul (if ws then umeyamaScale (svd (Hmat ps)) ps else 1)
          (rotOf (svd (Hmat ps)))).mulVec (mean (srcs ps)))) := by
  obtain ⟨hrot, hsg⟩ := svdstf_rot_eq (svd (Hmat ps)) h.orthU h.orthV
  have hH : Mat3.smul (k 1 / k ps.length) (crossCov (centered ps)) = Hmat ps := by
    simp only [Hmat, k_real, Nat.cast_one]
  rw [hsg] at hrot
  simp only [svdstfMat, hH, hdet, hsg]
  simp only [k_real, Nat.cast_one, one_mul, hrot, umeyamaScale]

theorem varSource_eq (ps : Pairs ℝ) : varSource ps = energyS (centered ps) * (1 / (ps.length : ℝ)) := by
  simp only [varSource, energyS, k_real, Nat.cast_one]

/-- Umeyama's scale is `⟨R*, M⟩ / Σ‖s̃‖²` with `M = Σ t̃ s̃ᵀ` -/
theorem umeyamaScale_eq (ps : Pairs ℝ) (hN : ps ≠ []) (hA : energyS (centered ps) ≠ 0) (d : SVD3 ℝ)
    (h : SVDOk (Hmat ps) d) :
    umeyamaScale d ps * energyS (centered ps) = Mat3.frob (rotOf d) (crossCov (centered ps)) := by
  have hN' : (ps.length : ℝ) ≠ 0 := by
    have : 0 < ps.length := List.length_pos_of_ne_nil hN
    positivity
  have hf := frob_rotOf (Hmat ps) d h
  rw [frob_Hmat] at hf
  unfold umeyamaScale
  rw [← hf, varSource_eq]
  field_simp

/-- **`svdstf` returns an optimal similarity transform.**  For a non-empty list of correspondences whose sources are
not all equal, under the SVD contract at `H`, if Umeyama's scale exceeds `mat2Sim3`'s rank-test threshold `atol`
(default `1e-5`; true on the property's range of scales `0.1..10`): the call does not raise, returns a valid
`Sim3` element (unit quaternion, positive scale), and its sum of squared residuals is not larger than that of
**any** similarity transform (unit quaternion, scale `≥ 0`, any translation) — jointly in rotation, scale and
translation; any point count, planar / collinear / reflection-prone configurations included. -/
theorem svdstf_optimal (svd : Mat3 ℝ → SVD3 ℝ) (detK : Mat3 ℝ → ℝ) (hdet : ∀ M, detK M = M.det) (rtol atol : ℝ)
    (hr : 0 ≤ rtol) (ha0 : 0 ≤ atol) (ha1 : atol < 1) (ps : Pairs ℝ) (hN : ps ≠ [])
    (hA : 0 < energyS (centered ps)) (h : SVDOk (Hmat ps) (svd (Hmat ps)))
    (hbig : atol < umeyamaScale (svd (Hmat ps)) ps) :
    ∃ X : Sim3 ℝ, svdstf svd detK rtol atol true ps = .ok X ∧ X.q.normSq = 1 ∧ 0 < X.s ∧
      X.s = umeyamaScale (svd (Hmat ps)) ps ∧ SO3matrix X.q = rotOf (svd (Hmat ps)) ∧
      ∀ X' : Sim3 ℝ, X'.q.normSq = 1 → 0 ≤ X'.s → cost (Sim3Act X) ps ≤ cost (Sim3Act X') ps := by
  have hrot := rotOf_isRot _ h.orthU h.orthV
  have hmat := svdstfMat_eq svd detK hdet true ps h
  simp only [if_true] at hmat
  obtain ⟨X, hX, hXt, hXs, hXq, hXm⟩ := mat2Sim3_of_scaled_rotation detK hdet rtol atol hr ha0 ha1 _ hrot _ hbig
    ((mean (tgts ps)).sub ((Mat3.smul (umeyamaScale (svd (Hmat ps)) ps) (rotOf (svd (Hmat ps)))).mulVec
      (mean (srcs ps)))) Vec3.zero 0
  refine ⟨X, ?_, hXq, by rw [hXs]; linarith, hXs, hXm, ?_⟩
  · simp only [svdstf, hmat, k_real, Nat.cast_zero]; exact hX
  intro X' hq' hs'
  have hrot' := isRot_SO3matrix _ hq'
  have hN' : (0:ℝ) < (ps.length : ℝ) := by
    have : 0 < ps.length := List.length_pos_of_ne_nil hN
    positivity
  rw [Sim3Act_eq_affine X, Sim3Act_eq_affine X', cost_affine_centered, cost_affine_centered,
    cost_expand_scaled _ (by rw [hXm]; exact hrot.1), cost_expand_scaled _ hrot'.1, hXm, hXt, hXs]
  have h0 : ((((Mat3.smul (umeyamaScale (svd (Hmat ps)) ps) (rotOf (svd (Hmat ps)))).mulVec (mean (srcs ps))).add
      ((mean (tgts ps)).sub ((Mat3.smul (umeyamaScale (svd (Hmat ps)) ps) (rotOf (svd (Hmat ps)))).mulVec
        (mean (srcs ps))))).sub (mean (tgts ps))).normSq = 0 := by lie_unfold; ring
  rw [h0]
  have hle := frob_le_rotOf _ _ h _ hrot'
  rw [frob_Hmat, frob_Hmat] at hle
  have hle' : Mat3.frob (SO3matrix X'.q) (crossCov (centered ps)) ≤
      Mat3.frob (rotOf (svd (Hmat ps))) (crossCov (centered ps)) := by
    have hpos : (0:ℝ) < 1 / (ps.length : ℝ) := by positivity
    exact le_of_mul_le_mul_left hle hpos
  have hc := umeyamaScale_eq ps hN hA.ne' _ h
  have hd' : 0 ≤ (ps.length : ℝ) * (((Mat3.smul X'.s (SO3matrix X'.q)).mulVec (mean (srcs ps))).add X'.t |>.sub
      (mean (tgts ps))).normSq := mul_nonneg hN'.le (Align.normSq_nonneg _)
  generalize umeyamaScale (svd (Hmat ps)) ps = c at hc ⊢
  generalize Mat3.frob (rotOf (svd (Hmat ps))) (crossCov (centered ps)) = m at hc hle' ⊢
  generalize Mat3.frob (SO3matrix X'.q) (crossCov (centered ps)) = m' at hle' ⊢
  generalize energyS (centered ps) = A at hA hc ⊢
  generalize energyT (centered ps) = B
  have h1 : 0 ≤ A * (X'.s - c) ^ 2 := mul_nonneg hA.le (sq_nonneg _)
  have h2 : 0 ≤ X'.s * (m - m') := mul_nonneg hs' (sub_nonneg.mpr hle')
  subst hc
  nlinarith [h1, h2, hd']

/-- **Exact similarity correspondences are reproduced exactly** by `svdstf` (scale included). -/
theorem svdstf_exact (svd : Mat3 ℝ → SVD3 ℝ) (detK : Mat3 ℝ → ℝ) (hdet : ∀ M, detK M = M.det) (rtol atol : ℝ)
    (hr : 0 ≤ rtol) (ha0 : 0 ≤ atol) (ha1 : atol < 1) (ps : Pairs ℝ) (hN : ps ≠ [])
    (hA : 0 < energyS (centered ps)) (h : SVDOk (Hmat ps) (svd (Hmat ps)))
    (hbig : atol < umeyamaScale (svd (Hmat ps)) ps)
    (X₀ : Sim3 ℝ) (hq₀ : X₀.q.normSq = 1) (hs₀ : 0 ≤ X₀.s) (hex : ∀ p ∈ ps, Sim3Act X₀ p.1 = p.2) :
    ∃ X : Sim3 ℝ, svdstf svd detK rtol atol true ps = .ok X ∧ ∀ p ∈ ps, Sim3Act X p.1 = p.2 := by
  obtain ⟨X, hX, _, _, _, _, hopt⟩ := svdstf_optimal svd detK hdet rtol atol hr ha0 ha1 ps hN hA h hbig
  refine ⟨X, hX, ?_⟩
  have h0 : cost (Sim3Act X₀) ps = 0 := (cost_eq_zero_iff _ _).mpr hex
  have h1 := hopt X₀ hq₀ hs₀
  have h2 := cost_nonneg (Sim3Act X) ps
  exact (cost_eq_zero_iff _ _).mp (by linarith)

/-- **`svdstf(with_scale=False)`** returns scale exactly 1 and the rigid optimum: not worse than any rigid transform
(unit quaternion, scale 1, any translation). -/
theorem svdstf_noscale_optimal (svd : Mat3 ℝ → SVD3 ℝ) (detK : Mat3 ℝ → ℝ) (hdet : ∀ M, detK M = M.det)
    (rtol atol : ℝ) (hr : 0 ≤ rtol) (ha0 : 0 ≤ atol) (ha1 : atol < 1) (ps : Pairs ℝ)
    (h : SVDOk (Hmat ps) (svd (Hmat ps))) :
    ∃ X : Sim3 ℝ, svdstf svd detK rtol atol false ps = .ok X ∧ X.q.normSq = 1 ∧ X.s = 1 ∧
      ∀ X' : SE3 ℝ, X'.q.normSq = 1 → cost (Sim3Act X) ps ≤ cost (SE3Act X') ps := by
  have hrot := rotOf_isRot _ h.orthU h.orthV
  have hmat := svdstfMat_eq svd detK hdet false ps h
  simp only [Bool.false_eq_true, if_false] at hmat
  obtain ⟨X, hX, hXt, hXs, hXq, hXm⟩ := mat2Sim3_of_scaled_rotation detK hdet rtol atol hr ha0 ha1 _ hrot 1 ha1
    ((mean (tgts ps)).sub ((Mat3.smul 1 (rotOf (svd (Hmat ps)))).mulVec (mean (srcs ps)))) Vec3.zero 0
  refine ⟨X, ?_, hXq, hXs, ?_⟩
  · simp only [svdstf, hmat, k_real, Nat.cast_zero]; exact hX
  intro X' hq'
  have hrot' := isRot_SO3matrix _ hq'
  rw [Sim3Act_eq_affine X, SE3Act_eq_affine X', hXs, hXm, hXt, Mat3.one_smul', cost_affine_centered,
    cost_affine_centered, cost_expand _ hrot.1, cost_expand _ hrot'.1]
  have h0 : ((((rotOf (svd (Hmat ps))).mulVec (mean (srcs ps))).add
      ((mean (tgts ps)).sub ((rotOf (svd (Hmat ps))).mulVec (mean (srcs ps))))).sub
      (mean (tgts ps))).normSq = 0 := by lie_unfold; ring
  rw [h0]
  have hd' : 0 ≤ (ps.length : ℝ) * ((((SO3matrix X'.q).mulVec (mean (srcs ps))).add X'.t).sub
      (mean (tgts ps))).normSq := mul_nonneg (Nat.cast_nonneg _) (Align.normSq_nonneg _)
  have hle := frob_le_rotOf _ _ h _ hrot'
  rw [frob_Hmat, frob_Hmat] at hle
  by_cases hN : ps = []
  · subst hN; simp [energyS, energyT, centered, crossCov, Mat3.frob]; lie_unfold; norm_num
  · have hN' : (0:ℝ) < (ps.length : ℝ) := by
      have : 0 < ps.length := List.length_pos_of_ne_nil hN
      positivity
    have hpos : (0:ℝ) < 1 / (ps.length : ℝ) := by positivity
    have hle' := le_of_mul_le_mul_left hle hpos
    linarith

end PP.C17
