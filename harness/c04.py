"""C04 — autograd through LieTensor ops gives exact left-perturbation Jacobians.

Model: lean/Pose/Model/Autograd.lean (every hand-written backward as written + expression trees `Prog`, `eval`,
`backprop`, `grad`), forward passes from lean/Pose/Model/Lie.lean; theorems: lean/Proofs/Props/C04.lean.

Streams (every case is a random well-typed expression tree with shared leaves, evaluated on batched tensors)
  fwd   : value of the program on the real code            vs  model `eval` (192 bit)
  grad  : torch.autograd.grad / .backward() of <c, out>    vs  model `backprop` (the hand-written backward passes
          replayed in 192 bit) — tolerance 1e3·eps·scale (float64), 4·sqrt(eps)·scale (float32)
  routes: autograd.functional.jacobian (vectorize on/off), pp.optim.functional.modjac, pp.func.jacrev give the same
          c·J as autograd.grad
  local : every Function alone (depth-1 programs) on the full magnitude ladder incl. identity / zero vector
Oracle on the real code (the property's own statement): the gradient returned by autograd equals the derivative of
<c, chart(program(Exp(t·e_j) @ X))> at t = 0, computed by central differences of the model's forward pass in 192-bit
arithmetic (step 2^-120, Richardson-checked); last slot of every group gradient exactly 0; no NaN/Inf.
"""
from __future__ import annotations

import math
import os
import threading

import torch

from . import common, util_lie as U
from .common import Ctx

META = {
    "rule": "type-directed random expression trees over {Exp, Log, Inv, Mul(@), Act (3/4-vectors), Adj, AdjT, Retr, matrix(), Jinvp} "
            "for the four groups, depth 1..6, 1-5 leaves with sharing, root of any type; leaf values from the structured "
            "generators of DESIGN §4 (rotation angle ladder incl. 0 / eps-neighbourhood / beyond pi for algebra leaves, both "
            "quaternion hemispheres, translations 0..10, log-scales |s|<=1.5, points 0..10); batched tensors with per-item "
            "values and broadcast leaves; random / sparse / basis cotangents; float64 and float32. A `batch` stream hands whole "
            "batched calls (mixed-rank / expanded / scalar / incompatible batch shapes, fixed corner shapes + random) to the model's "
            "own broadcasting layer (c04.bcall). Pass 4: `large` (2^14+1 / 2^16+1 items and both sides of 25/26 ... 1024/1025 through "
            "forward and backward of every Function family: split-consistency, first / last / random item vs the single-item call, "
            "model on a sample incl. the last item), `ties` (exact coincidences: quarter turns |v| == |w| bit for bit, theta == 0.05, "
            "theta == eps, |sigma| == theta, Y == X, p == t), `fresh` (keys first used under inference_mode / no_grad, then backward), "
            "`subclass`, `defdtype` (default dtype x operand dtype: metadata), `signs` (signed / scaled / zero cotangents, alpha of "
            "either sign), `numpy` (operands over numpy buffers refilled in place). Pass 5: `poison` (forward+backward of every "
            "operation on single items / all-1 batches between identical batched probes), `huge` (2^17+37; thorough 2^18+1, 2^18+37, "
            "2^20+1; last n % 2^k items), `lowp` (float16 / bfloat16), `tiny` corpus (rotations 1e-5..1e-11, nearly equal operands, "
            "cotangents x 2^+-40) and `cotscale`, `defaults` (modjac / jacrev with options omitted on several modules), `callbacks` "
            "(functions returning their argument / a view / the same output twice), `subprops`, `subsets` (every subset of operands "
            "requiring grad), `layout` (24..64 items in 2-D / 3-D batch shapes with PERMUTED strides, one / a few / most items exactly "
            "degenerate in one block: against the contiguous copy, the item alone and the model). A `local` stream runs every "
            "single Function (all groups, both arguments) on the full ladder. Log / Jinvp inputs are kept away from the "
            "rotation angle pi (> 0.3 rad); Jinvp additionally away from the zero rotation (theta >= 1e-3 — the quantifier's "
            "domain). non-trivial = at least one non-identity leaf; distinct by (program shape, groups, dtype, regime tags)",
    "trusted": [
        "PyTorch autograd of built-in ops inside so3_Jl_inv / se3_Jl_inv / sim3_Jl_inv (Jinvp) and of expand/view/cat glue — "
        "contract parameter dJ of the model; the driver's stand-in (192-bit central differences with the branch of the base "
        "point) is Richardson-checked on every call (failure = exit 2)",
        "the finite-difference oracle differentiates the model's forward pass (tied to the code by the fwd stream and by C01-C03)",
    ],
    "assumptions": [
        "group leaves are valid elements (unit quaternion to 1 ulp, POSITIVE scale — `ScalePos` in the theorems)",
        "Log / Jinvp are evaluated at rotations with angle <= pi - 0.3; Jinvp gradient with respect to X at angle >= 1e-3",
        "a group-valued program output pairs its cotangent with the left-perturbation chart Log(out(t) out(0)^-1): "
        "the last storage slot of that cotangent is ignored by every backward pass",
    ],
    "partial": [
        "local Jacobians of the transcendental nodes (pass 3): proved in Lean wherever the code is the exact derivative of its own "
        "forward pass — closed-form branches of so3/se3/rxso3 Exp and of SO3/SE3/RxSO3 Log (regime 1; se3/SE3 with theta > 0.05 = "
        "closed form of calcQ), and for all four groups Exp at the zero vector (se3/rxso3: rotation part zero, any translation / "
        "scale) and Log at the identity (SE3/RxSO3: rotation part +-1, any translation / scale); `Regimes` collects these "
        "conditions and discharges `TransSpec` (gradient_exact_regimes_partial, leaf_gradient_exact_partial). NOT theorems, because "
        "the code is only approximately the derivative there (O(eps^2) / O(theta^6) / truncation): Taylor branches at 0 < theta <= eps, "
        "the series branch of calcQ at 0 < theta <= 0.05, regimes 2 (|w| <= eps) and 3 (0 < |v| <= eps) of SO3_Log, sim3 Exp / Sim3 "
        "Log away from zero / identity; these ride on the 192-bit finite-difference oracle. Jinvp: reduced to the kernel contract "
        "DJSpec on dJ (PyTorch autograd of built-in ops) + the Log node (Jinvp_node_of_contract). Every program over "
        "{Inv, @, Act, Act4, Adj, AdjT, matrix()} is covered unconditionally (gradient_exact_algebraic, leaf_gradient_exact_algebraic)",
        "sim3/Sim3 Exp and Log backward use the documented truncated series: oracle comparison only where "
        "30*|ad xi|^6/5040*e^|ad xi| <= 1e-2, otherwise correspondence with the (equally truncated) model only",
        "pass 10: on every SELECTED closed-form branch (so3_Jl, so3_Jl_inv, calcQ, rxso3_Ws, SO3_Log) the model's denominators are proved "
        "non-zero (selected_branch_well_defined_partial, SO3_Log_selected_branch_well_defined_partial); the Jinvp kernel contract has "
        "witnesses for SO3 and RxSO3 only (none for SE3 / Sim3)",
        "NO NaN / Inf (incl. identity / zero vector) is decided by the harness only: the code evaluates both branches and masks "
        "(idx * nan_to_num(closed form)), which the model's `if` does not represent; the Lean statements about these points say which "
        "linear maps the backward passes are (true for any coefficients) and that the model selects the Taylor branches",
        "statelessness across calls and aliasing = sharing of the REAL code are harness-only (reuse / stale / views / interleave / "
        "copies / fresh streams): the corresponding Lean facts are facts of a pure model (lemmas, not property theorems); likewise "
        "that broadcast_inputs / expand / autograd's reduction behave like the model's `bcontribs` rests on the `batch` stream",
        "group-valued roots ('.grad for the storage cotangent (c,0) = derivative of <c, Log(Y(t) Y(0)^-1)>') are theorems since pass 7 "
        "(group_root_gradient_exact_algebraic at full strength, group_root_gradient_exact_partial under Regimes); not covered by a "
        "theorem: the SE3 calcQ series branch eps < theta <= 0.05; "
        "sim3: distance of sim3_Jl / sim3_Jl_inv from the exact left-Jacobian series <= C |ad xi|^6 for |ad xi| <= 1 is proved "
        "(sim3_Jl_truncation_bound_partial), that this series is the derivative of the coded sim3_Exp is not; the calcQ threshold "
        "is the exact 5/100 in the model but float(0.05) in the code (float32: 0.0500000007): at theta == float(0.05) the two sit on "
        "different branches, which agree to 1e-13 — far below every tolerance that applies to a program with an SE3 node, so no "
        "either-branch retry is made for 0.05 (the threshold is hard-coded in the shared Lie.lean); the tie corpus contains "
        "theta == 0.05 exactly for both dtypes",
        "float64 tolerance of programs with SE3 nodes is graded: 1e4*eps unless an SE3 site has 0.05 < theta < 0.5 (closed forms of "
        "calcQ lose 60 eps/theta^4), where it is 600*eps/theta_min^4 (2e-8 at 0.05, 8e-11 at 0.2), capped by 4*sqrt(eps); both the "
        "model comparison and the finite-difference oracle use it",
        "float rounding of the backward passes is measured (tolerance 4*sqrt(eps)*scale; 1e4*eps for float64 programs outside the "
        "cancellation bands of (1-cos t)/t^2), not proved",
    ],
}

GROUPS = U.GROUPS
GD, AD_ = U.GDIM, U.ADIM
DEBUG = bool(os.environ.get("C04_DEBUG"))

# ----------------------------------------------------------------------------- types and programs
# type: ("G", g) | ("A", g) | ("E3",) | ("E4",) | ("M", g)
# node: ("L", i) | ("U", op, g, child) | ("B", op, g, a, b) | ("Retr", g, X, a) | ("Cast", to_type, child)


def tdim(ty):
    k = ty[0]
    if k == "G":
        return GD[ty[1]]
    if k == "A":
        return AD_[ty[1]]
    if k == "E3":
        return 3
    if k == "E4":
        return 4
    n = U.MATN[ty[1]]
    return n * n


def tangent_dim(ty):
    return AD_[ty[1]] if ty[0] == "G" else tdim(ty)


def gen_node(rng, ty, depth, L, maxleaves=5):
    """type-directed generation; L is the growing list of leaf types"""
    def leaf():
        same = [i for i, t in enumerate(L) if t == ty]
        if same and (rng.random() < 0.4 or len(L) >= maxleaves):
            return ("L", rng.choice(same))
        L.append(ty)
        return ("L", len(L) - 1)
    if ty[0] == "M":
        g = ty[1]
        if rng.random() < 0.5:
            return ("U", "Matrix", g, gen_node(rng, ("G", g), depth - 1, L))
        return ("U", "Matrix", g, ("U", "Exp", g, gen_node(rng, ("A", g), depth - 2, L)))
    if depth <= 0 or rng.random() < 0.1:
        return leaf()
    d = depth - 1
    if ty[0] == "G":
        g = ty[1]
        c = rng.choice(["Exp", "Inv", "Mul", "Mul*", "Retr"])
        if c == "Exp":
            return ("U", "Exp", g, gen_node(rng, ("A", g), d, L))
        if c == "Inv":
            return ("U", "Inv", g, gen_node(rng, ("G", g), d, L))
        if c in ("Mul", "Mul*"):
            return ("B", c, g, gen_node(rng, ("G", g), d, L), gen_node(rng, ("G", g), d, L))
        return ("Retr", g, gen_node(rng, ("G", g), d, L), gen_node(rng, ("A", g), d, L))
    if ty[0] == "A":
        g = ty[1]
        opts = ["Log", "Log", "Adj", "AdjT", "Jinvp"] + (["Cast"] if g == "SO3" else [])
        c = rng.choice(opts)
        if c == "Log":
            return ("U", "Log", g, gen_node(rng, ("G", g), d, L))
        if c == "Cast":
            return ("Cast", ty, gen_node(rng, ("E3",), d, L))
        return ("B", c, g, gen_node(rng, ("G", g), d, L), gen_node(rng, ("A", g), d, L))
    if ty[0] == "E3":
        if rng.random() < 0.15:
            return ("Cast", ty, gen_node(rng, ("A", "SO3"), d, L))
        g = rng.choice(GROUPS)
        return ("B", "Act", g, gen_node(rng, ("G", g), d, L), gen_node(rng, ("E3",), d, L))
    if ty[0] == "E4":
        g = rng.choice(GROUPS)
        return ("B", "Act4", g, gen_node(rng, ("G", g), d, L), gen_node(rng, ("E4",), d, L))
    raise AssertionError(ty)


def rand_type(rng):
    g = rng.choice(GROUPS)
    return rng.choice([("G", g), ("G", g), ("A", g), ("A", g), ("E3",), ("E4",), ("M", g)])


def prog_tokens(node):
    k = node[0]
    if k == "L":
        return [f"L{node[1]}"]
    if k == "U":
        return [f"U:{node[1]}:{node[2]}"] + prog_tokens(node[3])
    if k == "B":
        return [f"B:{node[1].rstrip('*')}:{node[2]}"] + prog_tokens(node[3]) + prog_tokens(node[4])
    if k == "Retr":   # a.Exp() * X
        g = node[1]
        return [f"B:Mul:{g}", f"U:Exp:{g}"] + prog_tokens(node[3]) + prog_tokens(node[2])
    if k == "Cast":
        return prog_tokens(node[2])
    raise AssertionError(node)


def prog_str(node):
    k = node[0]
    if k == "L":
        return f"x{node[1]}"
    if k == "U":
        return f"{node[1]}[{node[2]}]({prog_str(node[3])})"
    if k == "B":
        return f"{node[1]}[{node[2]}]({prog_str(node[3])},{prog_str(node[4])})"
    if k == "Retr":
        return f"Retr[{node[1]}]({prog_str(node[2])},{prog_str(node[3])})"
    return f"cast({prog_str(node[2])})"


def prog_ops(node, acc=None):
    acc = [] if acc is None else acc
    k = node[0]
    if k == "U":
        acc.append((node[1], node[2])); prog_ops(node[3], acc)
    elif k == "B":
        acc.append((node[1], node[2])); prog_ops(node[3], acc); prog_ops(node[4], acc)
    elif k == "Retr":
        acc.append(("Retr", node[1])); prog_ops(node[2], acc); prog_ops(node[3], acc)
    elif k == "Cast":
        prog_ops(node[2], acc)
    return acc


def prog_depth(node):
    k = node[0]
    if k == "L":
        return 0
    if k == "U":
        return 1 + prog_depth(node[3])
    if k == "B":
        return 1 + max(prog_depth(node[3]), prog_depth(node[4]))
    if k == "Retr":
        return 1 + max(prog_depth(node[2]), prog_depth(node[3]))
    return prog_depth(node[2])


def to_json(node):
    return list(node[:1]) + [to_json(x) if isinstance(x, tuple) and x and x[0] in ("L", "U", "B", "Retr", "Cast") else
                             (list(x) if isinstance(x, tuple) else x) for x in node[1:]]


def from_json(j):
    k = j[0]
    if k == "L":
        return ("L", j[1])
    if k == "U":
        return ("U", j[1], j[2], from_json(j[3]))
    if k == "B":
        return ("B", j[1], j[2], from_json(j[3]), from_json(j[4]))
    if k == "Retr":
        return ("Retr", j[1], from_json(j[2]), from_json(j[3]))
    return ("Cast", tuple(j[1]), from_json(j[2]))


# ----------------------------------------------------------------------------- running the real code

def wrap_leaf(P, ty, t):
    """leaf object handed to the program (LieTensor for group/algebra leaves); `t` requires grad"""
    if ty[0] == "G":
        return P.LieTensor(t, ltype=U.ltype(ty[1]))
    if ty[0] == "A":
        return P.LieTensor(t, ltype=U.ltype(U.ALG[ty[1]]))
    return t


def as_tensor(P, v):
    return v.tensor() if isinstance(v, P.LieTensor) else v


def quat_angle(q):
    """rotation angle in [0, pi] of (batched) quaternion tensor"""
    v = q[..., :3].double().norm(dim=-1)
    w = q[..., 3].double().abs()
    return 2 * torch.atan2(v, w)


def run_impl(P, node, leaves, rec):
    k = node[0]
    if k == "L":
        return leaves[node[1]]
    if k == "Cast":
        v = run_impl(P, node[2], leaves, rec)
        if node[1][0] == "A":
            return P.LieTensor(as_tensor(P, v), ltype=P.so3_type)
        return as_tensor(P, v)
    if k == "Retr":
        X = run_impl(P, node[2], leaves, rec)
        a = run_impl(P, node[3], leaves, rec)
        rec.append(("Exp", node[1], as_tensor(P, a).detach()))
        return X.Retr(a)
    if k == "U":
        op, g = node[1], node[2]
        x = run_impl(P, node[3], leaves, rec)
        if op == "Exp":
            rec.append(("Exp", g, as_tensor(P, x).detach()))
            return x.Exp()
        if op == "Log":
            rec.append(("Log", g, as_tensor(P, x).detach()))
            return x.Log()
        if op == "Inv":
            return x.Inv()
        if op == "Matrix":
            return x.matrix()
    op, g = node[1], node[2]
    x = run_impl(P, node[3], leaves, rec)
    y = run_impl(P, node[4], leaves, rec)
    if op == "Mul":
        return x @ y
    if op == "Mul*":
        return x * y
    if op in ("Act", "Act4"):
        return x.Act(y)
    if op == "Adj":
        return x.Adj(y)
    if op == "AdjT":
        return x.AdjT(y)
    if op == "Jinvp":
        rec.append(("Jinvp", g, as_tensor(P, x).detach()))
        return x.Jinvp(y)
    raise AssertionError(node)


def node_type(node, ltypes):
    k = node[0]
    if k == "L":
        return ltypes[node[1]]
    if k == "Cast":
        return node[1]
    if k == "Retr":
        return ("G", node[1])
    if k == "U":
        return {"Exp": ("G", node[2]), "Log": ("A", node[2]), "Inv": ("G", node[2]), "Matrix": ("M", node[2])}[node[1]]
    return {"Mul": ("G", node[2]), "Mul*": ("G", node[2]), "Act": ("E3",), "Act4": ("E4",), "Adj": ("A", node[2]), "AdjT": ("A", node[2]),
            "Jinvp": ("A", node[2])}[node[1]]


# ----------------------------------------------------------------------------- leaf values

def gen_leaf_value(rng, ty, eps, small_sim3=False, jinvp_x=False):
    """one item (list of floats, storage order) + regime tag"""
    k = ty[0]
    if k == "G":
        g = ty[1]
        v, tag = U.gen_group(rng, g, eps, thi=10.0, shi=1.5)
        return v, tag
    if k == "A":
        g = ty[1]
        if g == "Sim3" and (small_sim3 or rng.random() < 0.5):
            v, tag = U.gen_algebra(rng, g, eps, big=False, thi=0.2, shi=0.2)
            sc = rng.choice([1.0, 0.3, 0.05, 1e-3])
            n = math.sqrt(sum(x * x for x in v)) or 1.0
            if n > 0.4:
                v = [x * 0.4 / n for x in v]
            v = [x * sc for x in v]
            return v, "small/" + tag
        v, tag = U.gen_algebra(rng, g, eps, big=True, thi=10.0, shi=1.5)
        return v, tag
    if k == "E3":
        m = U.gen_mag(rng, eps, 10.0)
        return U.vec(rng, m), f"p{common.sig_mag(m)}"
    if k == "E4":
        m = U.gen_mag(rng, eps, 10.0)
        w = rng.choice([1.0, 1.0, 0.0, rng.uniform(-3, 3)])
        return U.vec(rng, m) + [w], f"p{common.sig_mag(m)}w{w:.1f}"
    raise AssertionError(ty)


def gen_cot(rng, n):
    c = rng.random()
    if c < 0.6:
        return [rng.gauss(0, 1) for _ in range(n)]
    if c < 0.75:
        v = [0.0] * n
        v[rng.randrange(n)] = rng.choice([-1.0, 1.0, 2.5])
        return v
    if c < 0.9:
        return [rng.gauss(0, 1) if rng.random() < 0.5 else 0.0 for _ in range(n)]
    return [rng.gauss(0, 1) * 10 ** rng.uniform(-3, 2) for _ in range(n)]


# ----------------------------------------------------------------------------- a case = program + batched leaf values

def make_case(rng, dtype, depth=None, root=None, maxleaves=5):
    ty = root or rand_type(rng)
    depth = depth if depth is not None else rng.choice([1, 2, 2, 3, 3, 4, 4, 5, 6])
    L = []
    for _ in range(20):
        L = []
        node = gen_node(rng, ty, depth, L, maxleaves)
        if node[0] != "L" and not (node[0] == "Cast" and node[2][0] == "L"):
            break
    shape = rng.choice([(), (), (1,), (2,), (3,), (2, 2), (1, 3)])
    lshapes = []
    for _ in L:
        r = rng.random()
        if shape and r < 0.2:
            lshapes.append(())
        elif len(shape) == 2 and r < 0.35:
            lshapes.append(shape[1:])
        elif shape and r < 0.45:
            lshapes.append(tuple(1 if i == 0 else e for i, e in enumerate(shape)))
        else:
            lshapes.append(shape)
    bshape = tuple(torch.broadcast_shapes(*lshapes)) if lshapes else shape
    return {"stream": "prog", "prog": to_json(node), "ltypes": [list(t) for t in L], "dtype": dtype,
            "lshapes": [list(s) for s in lshapes], "bshape": list(bshape), "root": list(ty)}


def fill_values(rng, case):
    """draw leaf values and the cotangent (kept in the case so that it replays exactly)"""
    eps = common.EPS[case["dtype"]]
    node = from_json(case["prog"])
    ltypes = [tuple(t) for t in case["ltypes"]]
    ops = prog_ops(node)
    has_sim3_explog = any(o in ("Exp", "Log", "Retr", "Jinvp") and g == "Sim3" for o, g in ops)
    vals, tags = [], []
    for ty, shp in zip(ltypes, case["lshapes"]):
        n = int(math.prod(shp))
        rows, tg = [], []
        for _ in range(n):
            v, t = gen_leaf_value(rng, ty, eps, small_sim3=has_sim3_explog and rng.random() < 0.5)
            rows.append(v)
            tg.append(t)
        t64 = U.to_dtype_exact(rows, case["dtype"])[1] if rows else torch.zeros(0, tdim(ty), dtype=torch.float64)
        vals.append(t64.reshape(tuple(shp) + (tdim(ty),)).tolist())
        tags.append(tg[0] if tg else "")
    out_ty = node_type(node, ltypes)
    nb = int(math.prod(case["bshape"]))
    od = tdim(out_ty)
    cots = [gen_cot(rng, od) for _ in range(nb)]
    c64 = U.to_dtype_exact(cots, case["dtype"])[1].reshape(tuple(case["bshape"]) + (od,))
    case["values"] = vals
    case["cot"] = c64.tolist()
    case["tags"] = tags
    return case


class ImplResult:
    pass


def run_case_impl(case, route="grad"):
    """run the real code; returns ImplResult(out, grads, logs)"""
    P = U.pp()
    D = U.dt(case["dtype"])
    node = from_json(case["prog"])
    ltypes = [tuple(t) for t in case["ltypes"]]
    ts = [torch.tensor(v, dtype=torch.float64).to(D).reshape(tuple(s) + (tdim(t),)).requires_grad_(True)
          for v, s, t in zip(case["values"], case["lshapes"], ltypes)]
    leaves = [wrap_leaf(P, t, x) for t, x in zip(ltypes, ts)]
    rec = []
    out = run_impl(P, node, leaves, rec)
    out_t = as_tensor(P, out)
    out_ty = node_type(node, ltypes)
    bshape = tuple(case["bshape"])
    c = torch.tensor(case["cot"], dtype=torch.float64).to(D)
    r = ImplResult()
    r.out_is_lie = isinstance(out, P.LieTensor)
    r.out_ltype = type(out.ltype).__name__ if r.out_is_lie else None
    if out_ty[0] == "M":
        n = U.MATN[out_ty[1]]
        r.out_shape_ok = tuple(out_t.shape) == bshape + (n, n)
        flat = out_t.reshape(bshape + (n * n,))
    else:
        r.out_shape_ok = tuple(out_t.shape) == bshape + (tdim(out_ty),)
        flat = out_t
    r.out = flat.detach().double()
    r.out_dtype = str(flat.dtype).replace("torch.", "")
    r.dtype = case["dtype"]
    r.rec = rec
    if route == "grad":
        gs = torch.autograd.grad(flat, ts, grad_outputs=c, allow_unused=True)
    else:  # .backward()
        flat.backward(c)
        gs = [t.grad for t in ts]
    r.grads = [None if g is None else g.detach().double() for g in gs]
    # purity: forward and backward must leave the caller's tensors bit-for-bit unchanged
    r.impure = [li for li, (t, v, s_, ty) in enumerate(zip(ts, case["values"], case["lshapes"], ltypes))
                if not torch.equal(t.detach(), torch.tensor(v, dtype=torch.float64).to(D).reshape(tuple(s_) + (tdim(ty),)))]
    r.grad_dtypes = [None if g is None else str(g.dtype).replace("torch.", "") for g in gs]
    r.leaf_tensors = ts
    return r


# ----------------------------------------------------------------------------- model side

def env_tokens(ltypes, item_vals):
    toks = [str(len(ltypes))]
    for ty, v in zip(ltypes, item_vals):
        toks.append(ty[1] if ty[0] == "G" else "V")
        toks.append(str(len(v)))
        toks.append(common.wire_list(v))
    return " ".join(toks)


def vec_tokens(v):
    return f"{len(v)} " + common.wire_list(v)


def item_index(bshape, lshape, flat_idx):
    """flat index into a leaf of lshape for flat index flat_idx of the broadcast shape"""
    if not bshape:
        return 0
    idx = []
    rem = flat_idx
    for e in reversed(bshape):
        idx.append(rem % e)
        rem //= e
    idx = list(reversed(idx))
    ls = list(lshape)
    off = len(bshape) - len(ls)
    fi = 0
    for d, e in enumerate(ls):
        i = idx[off + d] if e != 1 else 0
        fi = fi * e + i
    return fi


def model_lines(case, eps_used, want_fd=True):
    """driver lines for every batch item: eval, grad, fd per leaf; returns (lines, index)"""
    node = from_json(case["prog"])
    ltypes = [tuple(t) for t in case["ltypes"]]
    ptoks = prog_tokens(node)
    pstr = f"{len(ptoks)} " + " ".join(ptoks)
    bshape = tuple(case["bshape"])
    nb = int(math.prod(bshape))
    out_ty = node_type(node, ltypes)
    outkind = out_ty[1] if out_ty[0] == "G" else "V"
    flat_vals = [torch.tensor(v, dtype=torch.float64).reshape(-1, tdim(t)).tolist() for v, t in zip(case["values"], ltypes)]
    cot = torch.tensor(case["cot"], dtype=torch.float64).reshape(nb, -1).tolist()
    e = common.to_wire(eps_used)
    lines, index = [], []
    for b in range(nb):
        iv = [fv[item_index(bshape, tuple(ls), b)] for fv, ls in zip(flat_vals, case["lshapes"])]
        env = env_tokens(ltypes, iv)
        lines.append(f"c04.eval {e} {pstr} {env}")
        index.append(("eval", b, None))
        lines.append(f"c04.grad {e} {pstr} {env} {vec_tokens(cot[b])}")
        index.append(("grad", b, None))
        if want_fd:
            for li in range(len(ltypes)):
                lines.append(f"c04.fd {e} {pstr} {env} {vec_tokens(cot[b])} {outkind} {li}")
                index.append(("fd", b, li))
    return lines, index


def run_driver_parallel(ctx, lines, nthreads=12):
    """fan the lines out over several driver processes (each ctx.driver.run call is one process below 400 lines)"""
    if len(lines) < 40:
        return ctx.driver.run(lines)
    nt = min(nthreads, max(1, len(lines) // 20))
    chunks = [lines[i::nt] for i in range(nt)]
    outs = [None] * nt
    errs = []

    def work(i):
        try:
            sub = chunks[i]
            res = []
            for j in range(0, len(sub), 390):
                res += ctx.driver.run(sub[j:j + 390])
            outs[i] = res
        except Exception as ex:   # noqa
            errs.append(ex)
    ths = [threading.Thread(target=work, args=(i,)) for i in range(nt)]
    [t.start() for t in ths]
    [t.join() for t in ths]
    if errs:
        raise errs[0]
    res = [None] * len(lines)
    for i in range(nt):
        res[i::nt] = outs[i]
    return res


def collect_model(case, reps, index):
    """-> dict(eval[b], grad[b] (list per leaf), fd[b][leaf] or None)"""
    ltypes = [tuple(t) for t in case["ltypes"]]
    nb = int(math.prod(case["bshape"]))
    M = {"eval": [None] * nb, "grad": [None] * nb, "abs": [None] * nb, "cmax": [0.0] * nb, "jabs": None,
         "fd": [[None] * len(ltypes) for _ in range(nb)], "fdbar": [[None] * len(ltypes) for _ in range(nb)], "err": []}
    for rep, (kind, b, li) in zip(reps, index):
        st, toks = common.parse_reply(rep)
        if st != "ok":
            if kind == "fd" and str(toks).startswith("fd-unstable"):
                M["fd"][b][li] = "unstable"
                continue
            if "contract" in str(toks):
                raise common.InfraError(f"stand-in contract failed: {rep}")
            raise common.InfraError(f"model error reply: {rep} for {kind} of {prog_str(from_json(case['prog']))}")
        xs = [float(common.from_wire(t)) for t in toks]
        if kind == "eval":
            M["eval"][b] = xs
        elif kind == "grad":
            out, ab, o = [], [], 0
            tot = sum(tdim(t) for t in ltypes)
            for t in ltypes:
                out.append(xs[o:o + tdim(t)])
                ab.append(xs[tot + o:tot + o + tdim(t)])
                o += tdim(t)
            M["grad"][b] = out
            M["abs"][b] = ab
            M["cmax"][b] = xs[2 * tot]
        else:
            h = len(xs) // 2
            M["fd"][b][li] = xs[:h]
            M["fdbar"][b][li] = xs[h:]
    return M


# ----------------------------------------------------------------------------- comparison

def nmax(xs, default=0.0):
    """maximum that PROPAGATES NaN (Python's max drops a NaN that is not the first element): pass 7, NaN polarity"""
    m = default
    for x in xs:
        if x != x:
            return float("nan")
        if x > m:
            m = x
    return m


class NonFinite(ArithmeticError):
    """the real code returned NaN / Inf for a finite valid input"""


def tol_rel(dtype):
    return 1e3 * common.EPS["float64"] if dtype == "float64" else 4 * math.sqrt(common.EPS["float32"])


def sum_to_leaf(bshape, lshape, per_item):
    """sum per-item gradient rows (list over flat batch index) into the leaf's own shape (flat list of rows)"""
    n = int(math.prod(lshape))
    dim = len(per_item[0])
    acc = [[0.0] * dim for _ in range(n)]
    for b, row in enumerate(per_item):
        i = item_index(bshape, lshape, b)
        for k2, v in enumerate(row):
            acc[i][k2] += v
    return acc


def guards(case, r):
    """the quantifier's domain: Log / Jinvp inputs away from pi, Jinvp away from the zero rotation"""
    for kind, g, x in r.rec:
        if x.numel() == 0 or kind == "Exp":
            continue
        ang = quat_angle(x[..., U.QSL[g]])
        if float(ang.max()) > math.pi - 0.3:
            return "near-pi"
        if kind == "Jinvp" and float(ang.min()) < 1e-3:
            return "jinvp-zero"
    return None


SE3_BAND = 0.5


def site_info(case, r):
    """coefficient sites met by this case.
    band  : some Exp / Log / Jinvp / Retr node evaluates so3_Jl, rxso3_Ws or (SE3) calcQ / so3_Jl_inv coefficients where
            the closed forms lose accuracy by cancellation ((1-cos t)/t^2 etc.: eps < theta < 1e-3), or is an SE3 node with
            theta < 0.5 (calcQ closed forms above 0.05 lose 60 eps/theta^4) — the 4*sqrt(eps) allowance of the property applies;
    trunc : relative allowance for the documented truncation of sim3_Jl / sim3_Jl_inv (sum over the Sim3 sites)"""
    P = U.pp()
    eps = common.EPS[case["dtype"]]
    band, trunc = 0.0, 0.0
    for kind, g, x in r.rec:
        if x.numel() == 0:
            continue
        x = x.double()
        if kind == "Exp":
            th = x[..., U.PHISL[g]].norm(dim=-1)
            xi = x
        else:
            th = quat_angle(x[..., U.QSL[g]])
            xi = None
        # graded allowance (float64): Jinvp (autograd differentiates the closed form of so3_Jl_inv, which cancels like eps/theta^2) and
        # coefficient sites with eps < theta < 1e-3 get the property's 4*sqrt(eps); an SE3 site in the cancellation zone of the closed
        # forms of calcQ (0.05 < theta < 0.5: they lose 60 eps/theta^4 — 2e-9 at 0.05, 2e-13 at 0.5) gets 600 eps/theta_min^4
        if kind == "Jinvp" or bool(((th > eps) & (th < 1e-3)).any()):
            band = max(band, 4 * math.sqrt(common.EPS["float64"]))
        if g == "SE3":
            zone = th[(th > 0.05) & (th < SE3_BAND)]
            if zone.numel():
                band = max(band, 600 * common.EPS["float64"] / float(zone.min()) ** 4)
        if g == "Sim3":
            if xi is None:
                with torch.no_grad():
                    xi = P.LieTensor(x, ltype=P.Sim3_type).Log().tensor()
            tau, phi, sg = xi[..., :3].norm(dim=-1), xi[..., 3:6].norm(dim=-1), xi[..., 6].abs()
            a = float(torch.sqrt(4 * phi ** 2 + 3 * sg ** 2 + 3 * tau ** 2).max())
            if kind == "Exp":
                trunc += a ** 6 * math.exp(a) / 5040 if a < 40 else 1e9
            elif a < 5.5:
                trunc += 2 * a ** 6 / 30240 / (1 - (a / (2 * math.pi)) ** 2)
            else:
                trunc += 1e9
    return band, trunc


def tol_rel(dtype, band):
    """relative tolerance of gradient comparisons (coordinator's ruling, notes/C04.md): 4*sqrt(eps_dtype) in general —
    the allowance the property gives the translation block of Exp, because (1-cos t)/t^2 legitimately loses up to 5e-9
    near t = 1e-8 — and 1e4*eps for float64 programs that meet no coefficient site in a cancellation band"""
    if dtype == "float64":
        if not band:
            return 1e4 * common.EPS["float64"]
        b = 4 * math.sqrt(common.EPS["float64"]) if band is True else float(band)
        return max(1e4 * common.EPS["float64"], min(b, 4 * math.sqrt(common.EPS["float64"])))
    return 4 * math.sqrt(common.EPS[dtype])


def leaf_rows(case, M, li, key):
    """per-item rows of leaf li summed into the leaf's own (flat) shape"""
    bshape = tuple(case["bshape"])
    nb = int(math.prod(bshape))
    return sum_to_leaf(bshape, tuple(case["lshapes"][li]), [M[key][b][li] for b in range(nb)])


def leaf_cmax(case, M, li):
    bshape = tuple(case["bshape"])
    nb = int(math.prod(bshape))
    n = int(math.prod(case["lshapes"][li]))
    acc = [0.0] * n
    for b in range(nb):
        acc[item_index(bshape, tuple(case["lshapes"][li]), b)] += M["cmax"][b]
    return acc


def blocks(ty):
    """slot blocks of a gradient / tangent: translation, rotation, scale (group and algebra types), point / weight (E4)"""
    k = ty[0]
    if k in ("G", "A"):
        return {"SO3": [(0, 3)], "SE3": [(0, 3), (3, 6)], "RxSO3": [(0, 3), (3, 4)], "Sim3": [(0, 3), (3, 6), (6, 7)]}[ty[1]]
    if k == "E4":
        return [(0, 3), (3, 4)]
    return [(0, 3)]


def row_scales(case, M, li, i_rows, blockwise):
    """scale of every (row, block) of leaf li.  Deep programs: sum of |contributions| + largest cotangent met in the sweep
    (conditioning of the chain).  Single Functions (`blockwise`): per slot block, max over the block of sum_i |c_i||J_ij|
    when the driver was asked for it (`jabs`), else of |exact gradient| — no magnitude factor that could hide a wrong
    small block next to a large one."""
    ty = tuple(case["ltypes"][li])
    wabs = leaf_rows(case, M, li, "abs")
    if not blockwise:
        cm = leaf_cmax(case, M, li)
        return [[((0, tdim(ty)), max(ar, default=0.0) + cm[i])] for i, ar in enumerate(wabs)]
    src = leaf_rows(case, M, li, "jabs") if M.get("jabs") is not None else wabs
    out = []
    for ar in src:
        out.append([((lo, hi), max(ar[lo:hi], default=0.0)) for lo, hi in blocks(ty)])
    return out


TINY = {"float64": 2.2250738585072014e-308, "float32": 1.1754943508222875e-38}


def ulp_floor(r, li, nrows, dim):
    """round-off floor measured on the real code (single Functions only): 8 x the change of the gradient when every input
    entry moves to a neighbouring floating-point number.  No comparison can ask for more than the implementation's own
    sensitivity to 1-ulp input changes; unlike a magnitude factor it is specific to the entry."""
    tiny = 64 * TINY.get(getattr(r, "dtype", "float64"), 0.0)      # gradual underflow of the dtype
    fl = getattr(r, "floor", None)
    if fl is None or fl[li] is None:
        return [[tiny] * dim for _ in range(nrows)]
    return [[v + tiny for v in row] for row in fl[li].reshape(-1, dim).tolist()]


def measure_floor(case, r, n_jitter=2):
    """fills r.floor by re-running the real code on inputs jittered by +-1 ulp (deterministic pattern)"""
    eps = common.EPS[case["dtype"]]
    floors = [None if g is None else torch.zeros_like(g) for g in r.grads]
    for k in range(n_jitter):
        c2 = dict(case)
        vals = []
        for li, v in enumerate(case["values"]):
            t = torch.tensor(v, dtype=torch.float64)
            idx = torch.arange(t.numel(), dtype=torch.float64).reshape(t.shape)
            sign = torch.where(((idx * (3 + 2 * k) + li + k) % 3) < 1.5, 1.0, -1.0)
            t2 = U.to_dtype_exact((t * (1 + sign * eps)).tolist(), case["dtype"])[1] if t.numel() else t
            vals.append(t2.tolist())
        c2["values"] = vals
        try:
            r2 = run_case_impl(c2)
        except Exception:
            continue
        for li, (g, g2) in enumerate(zip(r.grads, r2.grads)):
            if g is None or g2 is None or g.shape != g2.shape:
                continue
            d = (g - g2).abs()
            d = torch.where(torch.isfinite(d), d, torch.zeros_like(d))
            floors[li] = torch.maximum(floors[li], 8 * d)
    r.floor = floors


def compare_grads(case, r, M, band):
    """-> list of (leaf, row, err, tol) where the real gradient and the model backprop differ beyond tolerance"""
    ltypes = [tuple(t) for t in case["ltypes"]]
    t = tol_rel(case["dtype"], band)
    bw = bool(case.get("blockwise"))
    bad = []
    worst = 0.0
    for li, ty in enumerate(ltypes):
        want = leaf_rows(case, M, li, "grad")
        got = r.grads[li]
        got = [[0.0] * tdim(ty) for _ in want] if got is None else got.reshape(-1, tdim(ty)).tolist()
        sc = row_scales(case, M, li, len(want), bw)
        fl = ulp_floor(r, li, len(want), tdim(ty))
        # Jinvp: the model's stand-in for PyTorch's autograd of *_Jl_inv (192-bit central differences, step 2^-64) is good to
        # 2^-60 of the largest entry of D only — a block far below the others cannot be resolved by it
        jv = 1e-15 if any(o == "Jinvp" for o, _ in prog_ops(from_json(case["prog"]))) else 0.0
        for i, (gr, wr) in enumerate(zip(got, want)):
            rowmax = max((s2 for _, s2 in sc[i]), default=0.0) if jv else 0.0
            for (lo, hi), s_ in sc[i]:
                err = nmax(abs(a - b) for a, b in zip(gr[lo:hi], wr[lo:hi]))
                f_ = max(fl[i][lo:hi], default=0.0) + jv * rowmax
                if s_ > 0:
                    worst = max(worst, err / (s_ * t + f_))
                if not (err <= t * s_ + f_):
                    bad.append((li, i, err, t * s_ + f_))
    return bad, worst


def compare_oracle(case, r, M, band, trunc):
    """the property's own statement: real gradient (manifold slots) == true left-perturbation derivative.
    -> (list of (leaf, row, err, tol), n_checked, n_skipped).  Every finite-difference entry comes with its own error bar
    (Richardson estimate in 192-bit arithmetic); the bar is added to the tolerance and entries whose bar exceeds the
    tolerance are not judged (counted as skipped)."""
    ltypes = [tuple(t) for t in case["ltypes"]]
    bshape = tuple(case["bshape"])
    nb = int(math.prod(bshape))
    t = tol_rel(case["dtype"], band) + 30 * trunc
    bw = bool(case.get("blockwise"))
    # largest operand magnitude per batch item (not per case: one extreme item must not loosen the others)
    flat_vals = [torch.tensor(v, dtype=torch.float64).reshape(-1, tdim(t_)).abs().amax(dim=-1).tolist() if torch.tensor(v).numel() else []
                 for v, t_ in zip(case["values"], ltypes)]
    vmax_item = [max((fv[item_index(bshape, tuple(ls), b)] for fv, ls in zip(flat_vals, case["lshapes"]) if fv), default=0.0) for b in range(nb)]
    bad, nchk, nskip = [], 0, 0
    for li, ty in enumerate(ltypes):
        rows = [M["fd"][b][li] for b in range(nb)]
        if any(not isinstance(x, list) for x in rows):
            nskip += 1
            continue
        m = tangent_dim(ty)
        lsh = tuple(case["lshapes"][li])
        want = sum_to_leaf(bshape, lsh, rows)
        bars = sum_to_leaf(bshape, lsh, [M["fdbar"][b][li] for b in range(nb)])
        got = r.grads[li]
        got = [[0.0] * tdim(ty) for _ in want] if got is None else got.reshape(-1, tdim(ty)).tolist()
        sc = row_scales(case, M, li, len(want), bw)
        fl = ulp_floor(r, li, len(want), tdim(ty))
        # artefacts of the difference quotient far below the precision of either dtype (1e-20 of cotangent x operand magnitude)
        # are not differences of Jacobians
        cm_ = leaf_cmax(case, M, li)
        vm_ = [0.0] * len(cm_)
        for b in range(nb):
            i_ = item_index(bshape, lsh, b)
            vm_[i_] = max(vm_[i_], vmax_item[b])
        fl = [[v + 1e-20 * cm_[i] * (1.0 + vm_[i]) for v in row] for i, row in enumerate(fl)]
        nchk += 1
        for i, (gr, wr, br) in enumerate(zip(got, want, bars)):
            for (lo, hi), s_ in sc[i]:
                hi = min(hi, m)
                s2 = max(s_, max((abs(v) for v in wr[lo:hi]), default=0.0))
                for j in range(lo, hi):
                    if not (br[j] <= t * s2):
                        nskip += 1          # the difference quotient itself is not accurate enough here
                        continue
                    err = abs(gr[j] - wr[j])
                    if not (err <= t * s2 + br[j] + fl[i][j]):
                        bad.append((li, i, err, t * s2 + br[j] + fl[i][j]))
    return bad, nchk, nskip


def structural_checks(ctx, case, r):
    """clauses that need no model: no NaN/Inf, last storage slot of every group gradient exactly zero, types/shapes"""
    ltypes = [tuple(t) for t in case["ltypes"]]
    node = from_json(case["prog"])
    ps = prog_str(node)[:160]
    out_ty = node_type(node, ltypes)
    ok = True
    if not r.out_shape_ok:
        ctx.fail(case, f"type: output shape wrong for {ps}")
        ok = False
    if r.impure:
        ctx.fail(case, f"purity: evaluating / differentiating {ps} changed the caller's leaf tensors {r.impure} ({case['dtype']})")
        ok = False
    if not bool(torch.isfinite(r.out).all()):
        ctx.fail(case, f"nan: value of {ps} contains NaN/Inf ({case['dtype']})")
        ok = False
    if r.out_dtype != case["dtype"]:
        ctx.fail(case, f"type: value of {ps} has dtype {r.out_dtype}, inputs are {case['dtype']}")
        ok = False
    want_lt = {"G": lambda g: g + "Type", "A": lambda g: U.ALG[g] + "Type"}.get(out_ty[0])
    if want_lt is not None and (not r.out_is_lie or r.out_ltype != want_lt(out_ty[1])):
        ctx.fail(case, f"type: output of {ps} is {r.out_ltype}, expected {want_lt(out_ty[1])}")
        ok = False
    for li, (ty, g) in enumerate(zip(ltypes, r.grads)):
        if g is None:
            continue
        if not bool(torch.isfinite(g).all()):
            ctx.fail(case, f"nan: gradient of leaf {li} ({ty}) of {ps} contains NaN/Inf ({case['dtype']})")
            ok = False
        if r.grad_dtypes[li] != case["dtype"]:
            ctx.fail(case, f"type: gradient of leaf {li} of {ps} has dtype {r.grad_dtypes[li]}, leaf is {case['dtype']}")
            ok = False
        if tuple(g.shape) != tuple(case["lshapes"][li]) + (tdim(ty),):
            ctx.fail(case, f"type: gradient shape {tuple(g.shape)} of leaf {li} of {ps}")
            ok = False
        elif ty[0] == "G" and g.numel() and float(g[..., -1].abs().max()) != 0.0:
            ctx.fail(case, f"slot: last storage slot of the {ty[1]} gradient is {float(g[..., -1].abs().max()):.3e}, not 0, in {ps}")
            ok = False
    return ok


def eps_variants(dtype):
    e = common.EPS[dtype]
    return [e, e * (1 + 2.0 ** -48), e * (1 - 2.0 ** -48)]


def fetch_jabs(ctx: Ctx, case, eps_used):
    """per item, per leaf: sum_i |c_i||J_ij| from the model (driver op c04.jabs)"""
    node = from_json(case["prog"])
    ltypes = [tuple(t) for t in case["ltypes"]]
    ptoks = prog_tokens(node)
    pstr = f"{len(ptoks)} " + " ".join(ptoks)
    bshape = tuple(case["bshape"])
    nb = int(math.prod(bshape))
    flat_vals = [torch.tensor(v, dtype=torch.float64).reshape(-1, tdim(t)).tolist() for v, t in zip(case["values"], ltypes)]
    cot = torch.tensor(case["cot"], dtype=torch.float64).reshape(nb, -1).tolist()
    e = common.to_wire(eps_used)
    lines = []
    for b in range(nb):
        iv = [fv[item_index(bshape, tuple(ls), b)] for fv, ls in zip(flat_vals, case["lshapes"])]
        lines.append(f"c04.jabs {e} {pstr} {env_tokens(ltypes, iv)} {vec_tokens(cot[b])}")
    out = []
    for rep in run_driver_parallel(ctx, lines):
        xs = [float(v) for v in common.reply_nums(rep)]
        rows, o = [], 0
        for t in ltypes:
            rows.append(xs[o:o + tdim(t)])
            o += tdim(t)
        out.append(rows)
    return out


def assess(case, r, M):
    """pure comparison of one case: forward value, gradient vs model reverse sweep, gradient vs finite-difference oracle"""
    band, trunc = r.band, r.trunc
    nb = int(math.prod(case["bshape"]))
    dtype = case["dtype"]
    tf = 4 * math.sqrt(common.EPS[dtype])
    out = r.out.reshape(nb, -1).tolist() if nb else []
    vmax = max((abs(x) for v in case["values"] for x in torch.tensor(v, dtype=torch.float64).flatten().tolist()), default=0.0)
    A = {"fbad": None, "gbad": [], "obad": [], "nchk": 0, "nskip": 0, "oracle_skipped": False, "worst": 0.0}
    for b in range(nb):
        sc = max(1.0, max((abs(v) for v in M["eval"][b]), default=0.0))   # sanity only: the forward laws are C01-C03's
        e = nmax(abs(a - c) for a, c in zip(out[b], M["eval"][b]))
        if not (e <= tf * sc) or len(out[b]) != len(M["eval"][b]):
            A["fbad"] = (b, e, tf * sc)
    A["gbad"], A["worst"] = compare_grads(case, r, M, band)
    if trunc * 30 > 1e-2:
        A["oracle_skipped"] = True
    else:
        A["obad"], A["nchk"], A["nskip"] = compare_oracle(case, r, M, band, trunc)
    return A


def record(ctx: Ctx, case, r, A):
    node = from_json(case["prog"])
    ps = prog_str(node)[:200]
    dtype = case["dtype"]
    if DEBUG:
        ctx.hist["dbg.worst_ratio_x1000"] = max(ctx.hist.get("dbg.worst_ratio_x1000", 0), int(A["worst"] * 1000))
    if A["fbad"]:
        fb = A["fbad"]
        ctx.disagree("fwd", case, f"value of {ps} ({dtype}): item {fb[0]} err {fb[1]:.3e} > {fb[2]:.3e}")
    if A["gbad"]:
        li, i, err, t = A["gbad"][0]
        ctx.disagree("grad", case, f"backward of {ps} ({dtype}): leaf {li} {case['ltypes'][li]} row {i}: |autograd - model backprop| "
                                   f"= {err:.3e} > {t:.3e} ({len(A['gbad'])} blocks)")
    if A["oracle_skipped"]:
        ctx.count("oracle.skipped.sim3-truncation")
    else:
        ctx.count("oracle.leaves-checked", A["nchk"])
        if A["nskip"]:
            ctx.count("oracle.entries-skipped.fd-inaccurate", A["nskip"])
        if A["obad"]:
            li, i, err, t = A["obad"][0]
            ops = sorted({f"{o}[{g}]" for o, g in prog_ops(node)})
            ctx.fail(case, f"jacobian: autograd gradient of leaf {li} {case['ltypes'][li]} differs from the true left-perturbation "
                           f"derivative by {err:.3e} > {t:.3e} in {ps} ({dtype}); ops {ops}")


def evaluate_cases(ctx: Ctx, cases, stream, want_fd=True):
    """cases: list of (case, ImplResult). Runs the model for all of them, compares, records."""
    all_lines, spans = [], []
    for case, r in cases:
        wfd = want_fd if not isinstance(want_fd, (list, tuple, set)) else True
        lines, index = model_lines(case, common.EPS[case["dtype"]], want_fd=wfd and case.get("fd", True))
        spans.append((len(all_lines), len(lines), index))
        all_lines += lines
    reps = run_driver_parallel(ctx, all_lines)
    for (case, r), (o, n, index) in zip(cases, spans):
        M = collect_model(case, reps[o:o + n], index)
        A = assess(case, r, M)
        if case.get("blockwise") and (A["gbad"] or A["obad"]):
            # a block may be small only through cancellation inside c @ J: ask the model for sum_i |c_i||J_ij|
            M["jabs"] = fetch_jabs(ctx, case, common.EPS[case["dtype"]])
            ctx.count("blockwise.jabs-fetched")
            A = assess(case, r, M)
        if A["fbad"] or A["gbad"]:
            # near a branch threshold the float code and the exact model may sit on different sides: evaluate the model
            # with eps(1±2^-48) too and accept either (DESIGN §2.2)
            for ev in eps_variants(case["dtype"])[1:]:
                lines, index = model_lines(case, ev, want_fd=False)
                M2 = collect_model(case, ctx.driver.run(lines), index)
                M2["fd"] = M["fd"]
                M2["fdbar"] = M["fdbar"]
                if M.get("jabs") is not None:
                    M2["jabs"] = M["jabs"]
                A2 = assess(case, r, M2)
                if not (A2["fbad"] or A2["gbad"]):
                    ctx.count("branch-neighbour-accepted")
                    A = A2
                    break
        record(ctx, case, r, A)


# ----------------------------------------------------------------------------- streams

def prepare(ctx: Ctx, case, rng, tries=8):
    """draw values until the case lies in the quantifier's domain; run the real code. -> ImplResult or None"""
    node = from_json(case["prog"])
    ps = prog_str(node)[:160]
    for _ in range(tries):
        fill_values(rng, case)
        try:
            r = run_case_impl(case, route="backward" if rng.random() < 0.3 else "grad")
        except Exception as e:
            ctx.fail(case, f"raises: autograd of {ps} raised {type(e).__name__}: {str(e)[:160]}")
            return None
        g = guards(case, r)
        if g is None:
            # pass 7 (38a): inside the quantifier's domain a NaN / Inf value or gradient is a failure by itself (outside it — Log / Jinvp
            # next to pi, Jinvp at the zero rotation — the property does not promise finiteness: the case is re-drawn)
            if not bool(torch.isfinite(r.out).all()) or any(x is not None and not bool(torch.isfinite(x).all()) for x in r.grads):
                ctx.fail(case, f"nan: non-finite result: value / gradient of {ps} contains NaN/Inf for finite valid operands ({case['dtype']})")
                return None
            r.band, r.trunc = site_info(case, r)
            if case.get("blockwise"):
                measure_floor(case, r)
            return r
        ctx.count("domain-redraw." + g)
    return None


def account(ctx: Ctx, case, stream):
    node = from_json(case["prog"])
    ops = prog_ops(node)
    for o, g in ops:
        ctx.count(f"op.{o}.{g}")
    ctx.count(f"{stream}.depth{prog_depth(node)}")
    ctx.count(f"{stream}.leaves{len(case['ltypes'])}")
    ctx.count(f"{stream}.{case['dtype']}")
    ctx.count(f"{stream}.root.{case['root'][0]}")
    nontrivial = any(any(abs(v) > 0 for v in torch.tensor(vals).flatten().tolist()[:64]) for vals in case["values"])
    sig = (stream, prog_str(node), case["dtype"], tuple(case["tags"]), tuple(case["bshape"]))
    ctx.note_case(sig, nontrivial)
    ctx.sample({"stream": stream, "program": prog_str(node)[:200], "dtype": case["dtype"], "batch": case["bshape"],
                "leaf_types": case["ltypes"], "regimes": case["tags"]}, cap=10)


def run_prog(ctx: Ctx, n_cases: int):
    rng = ctx.rng
    cases = []
    for ci in range(n_cases):
        dtype = "float32" if ci % 4 == 3 else "float64"
        case = make_case(rng, dtype)
        r = prepare(ctx, case, rng)
        if r is None:
            ctx.count("prog.dropped")
            continue
        if not structural_checks(ctx, case, r):
            continue
        account(ctx, case, "prog")
        cases.append((case, r))
    evaluate_cases(ctx, cases, "prog")


LOCAL_OPS = [("U", "Exp"), ("U", "Log"), ("U", "Inv"), ("U", "Matrix"), ("U", "MatrixA"), ("B", "Mul"), ("B", "Act"),
             ("B", "Act4"), ("B", "Adj"), ("B", "AdjT"), ("B", "Jinvp"), ("Retr", "Retr")]


def local_case(rng, op, g, dtype):
    """depth-1 program around one Function"""
    kind, name = op
    G, A = ("G", g), ("A", g)
    if name == "Exp":
        node, L = ("U", "Exp", g, ("L", 0)), [A]
    elif name == "Log":
        node, L = ("U", "Log", g, ("L", 0)), [G]
    elif name == "Inv":
        node, L = ("U", "Inv", g, ("L", 0)), [G]
    elif name == "Matrix":
        node, L = ("U", "Matrix", g, ("L", 0)), [G]
    elif name == "MatrixA":
        node, L = ("U", "Matrix", g, ("U", "Exp", g, ("L", 0))), [A]
    elif name == "Mul":
        node, L = ("B", rng.choice(["Mul", "Mul*"]), g, ("L", 0), ("L", 1)), [G, G]
    elif name == "Act":
        node, L = ("B", "Act", g, ("L", 0), ("L", 1)), [G, ("E3",)]
    elif name == "Act4":
        node, L = ("B", "Act4", g, ("L", 0), ("L", 1)), [G, ("E4",)]
    elif name in ("Adj", "AdjT", "Jinvp"):
        node, L = ("B", name, g, ("L", 0), ("L", 1)), [G, A]
    else:
        node, L = ("Retr", g, ("L", 0), ("L", 1)), [G, A]
    if rng.random() < 0.15 and len(L) == 2 and L[0] == L[1]:
        node = node[:3] + (("L", 0), ("L", 0))     # X @ X : shared leaf
        L = L[:1]
    shape = rng.choice([(), (2,), (3,), (2, 2)])
    lshapes = [shape if (not shape or rng.random() < 0.75) else () for _ in L]
    bshape = tuple(torch.broadcast_shapes(*lshapes))
    return {"stream": "local", "prog": to_json(node), "ltypes": [list(t) for t in L], "dtype": dtype, "blockwise": True,
            "lshapes": [list(s) for s in lshapes], "bshape": list(bshape), "root": list(node_type(node, L))}


def run_local(ctx: Ctx, reps: int):
    """every Function alone, every group, both dtypes, on the full ladder (identity, zero vector, eps-neighbourhood, …)"""
    rng = ctx.rng
    cases = []
    for rep in range(reps):
        for op in LOCAL_OPS:
            for g in GROUPS:
                dtype = "float32" if (rep + len(cases)) % 3 == 2 else "float64"
                case = local_case(rng, op, g, dtype)
                r = prepare(ctx, case, rng, tries=12)
                if r is None:
                    ctx.count("local.dropped")
                    continue
                if not structural_checks(ctx, case, r):
                    continue
                account(ctx, case, "local")
                cases.append((case, r))
    # the identity element / zero vector explicitly (finiteness + exactness there)
    for g in GROUPS:
        ident = {"SO3": [0, 0, 0, 1.], "SE3": [0, 0, 0, 0, 0, 0, 1.], "RxSO3": [0, 0, 0, 1., 1.], "Sim3": [0, 0, 0, 0, 0, 0, 1., 1.]}[g]
        for op in LOCAL_OPS:
            if op[1] == "Jinvp":
                continue          # Jinvp: "away from the zero rotation"
            for dtype in ("float64", "float32"):
                case = local_case(rng, op, g, dtype)
                case["lshapes"] = [[] for _ in case["ltypes"]]
                case["bshape"] = []
                fill_values(rng, case)
                for li, ty in enumerate(case["ltypes"]):
                    if ty[0] == "G":
                        case["values"][li] = list(map(float, ident))
                    elif ty[0] == "A":
                        case["values"][li] = [0.0] * AD_[g]
                case["tags"] = ["identity"] * len(case["ltypes"])
                try:
                    r = run_case_impl(case)
                except Exception as e:
                    ctx.fail(case, f"raises: autograd of {prog_str(from_json(case['prog']))} at the identity raised {type(e).__name__}: {str(e)[:120]}")
                    continue
                r.band, r.trunc = site_info(case, r)
                if not structural_checks(ctx, case, r):
                    continue
                measure_floor(case, r)
                account(ctx, case, "identity")
                cases.append((case, r))
    evaluate_cases(ctx, cases, "local")


def contract(c, J):
    return torch.tensordot(c, torch.Tensor.as_subclass(J, torch.Tensor), dims=c.dim()).double()


def contract_abs(c, J):
    return torch.tensordot(c.abs(), torch.Tensor.as_subclass(J, torch.Tensor).abs(), dims=c.dim()).double()


def route_grads(case, route):
    """c·J through one of the other public routes"""
    P = U.pp()
    D = U.dt(case["dtype"])
    node = from_json(case["prog"])
    ltypes = [tuple(t) for t in case["ltypes"]]
    bshape = tuple(case["bshape"])
    c = torch.tensor(case["cot"], dtype=torch.float64).to(D)

    def mk():
        return [torch.tensor(v, dtype=torch.float64).to(D).reshape(tuple(s) + (tdim(t),))
                for v, s, t in zip(case["values"], case["lshapes"], ltypes)]

    def f_t(*ts):
        leaves = [wrap_leaf(P, t, x) for t, x in zip(ltypes, ts)]
        return as_tensor(P, run_impl(P, node, leaves, [])).reshape(bshape + (-1,))

    def f_l(*ls):
        return as_tensor(P, run_impl(P, node, list(ls), [])).reshape(bshape + (-1,))
    if route in ("jacobian", "jacobian-vectorize"):
        J = torch.autograd.functional.jacobian(f_t, tuple(mk()), vectorize=(route != "jacobian"))
    elif route == "jacrev":
        leaves = [wrap_leaf(P, t, x) for t, x in zip(ltypes, mk())]
        J = P.func.jacrev(f_l, argnums=tuple(range(len(leaves))))(*leaves)
    elif route in ("modjac", "modjac-vectorize"):
        class Mod(torch.nn.Module):
            def __init__(s):
                super().__init__()
                for i, (t, x) in enumerate(zip(ltypes, mk())):
                    setattr(s, f"p{i}", P.Parameter(wrap_leaf(P, t, x)) if t[0] in "GA" else torch.nn.Parameter(x))

            def forward(s):
                return f_l(*[getattr(s, f"p{i}") for i in range(len(ltypes))])
        J = P.optim.functional.modjac(Mod(), vectorize=(route != "modjac"))
        J = J if isinstance(J, tuple) else (J,)
    else:
        raise AssertionError(route)
    return [contract(c, j) for j in J], [contract_abs(c, j) for j in J]


ROUTES = ["jacobian", "jacobian-vectorize", "jacrev", "modjac", "modjac-vectorize"]


def check_routes(ctx: Ctx, case, r) -> bool:
    """all public routes return the same c·J as autograd.grad (same backward passes, other batching machinery)"""
    node = from_json(case["prog"])
    ps = prog_str(node)[:160]
    ok = True
    # same backward passes through other batching machinery (per-row vjp, vmap): agreement up to re-association
    # round-off of the contraction, i.e. relative to sum |c_i| |J_ij|
    t = 1e-9 if case["dtype"] == "float64" else 4 * math.sqrt(common.EPS["float32"])
    for route in case.get("routes", ROUTES):
        ctx.count("routes." + route)
        try:
            gs, gabs = route_grads(case, route)
        except Exception as e:
            c2 = dict(case, route=route, exception=f"{type(e).__name__}: {str(e)[:200]}")
            ctx.fail(c2, f"raises: {route} of {ps} raised {type(e).__name__}: {str(e)[:100]}")
            ok = False
            continue
        for li, (a, b, ab) in enumerate(zip(gs, r.grads, gabs)):
            b = torch.zeros_like(a) if b is None else b
            if tuple(a.shape) != tuple(b.shape):
                ctx.fail(dict(case, route=route), f"route: {route} gradient shape {tuple(a.shape)} vs {tuple(b.shape)} for {ps}")
                ok = False
                continue
            sc = 1.0 + (float(b.abs().max()) + float(ab.max()) if b.numel() else 0.0)
            if r.cmax is not None:
                sc += r.cmax
            err = float((a - b).abs().max()) if b.numel() else 0.0
            if not (err <= t * sc):
                ctx.fail(dict(case, route=route), f"route: {route} disagrees with autograd.grad by {err:.3e} (> {t * sc:.3e}) on leaf {li} of {ps} ({case['dtype']})")
                ok = False
    return ok


def run_routes(ctx: Ctx, n_cases: int):
    rng = ctx.rng
    # every (op, group) at least through the vmapped routes once per run, then random programs
    todo = [local_case(rng, op, g, "float64") for op in LOCAL_OPS for g in GROUPS]
    for ci in range(n_cases):
        todo.append(make_case(rng, "float32" if ci % 5 == 4 else "float64", depth=rng.choice([1, 2, 3, 4]), maxleaves=3))
    for ci, case in enumerate(todo):
        case["stream"] = "routes"
        if ci < len(LOCAL_OPS) * len(GROUPS):
            case["routes"] = ["jacobian-vectorize", "jacrev"] if ci % 2 else ["modjac-vectorize", "jacobian"]
        r = prepare(ctx, case, rng)
        if r is None:
            continue
        r.cmax = float(torch.tensor(case["cot"]).abs().max()) * 10 if case["cot"] else 1.0
        account(ctx, case, "routes")
        check_routes(ctx, case, r)


# ----------------------------------------------------------------------------- deterministic corner corpus

def quat_of(angle, axis, neg=False):
    n = math.sqrt(sum(a * a for a in axis)) or 1.0
    s, w = math.sin(angle / 2), math.cos(angle / 2)
    q = [axis[0] / n * s, axis[1] / n * s, axis[2] / n * s, w]
    return [-v for v in q] if neg else q


CORPUS_AXES = [(1.0, 0.0, 0.0), (0.3, -0.5, 0.8), (0.0, 0.0, -1.0), (-0.6, 0.64, 0.48), (1e-9, 1.0, 0.5)]


def corpus_items(ty, dtype, kind, n):
    """n fixed items of type ty covering the regimes of every block; `kind` = op that consumes the rotation
    (Log / Jinvp keep away from pi, Jinvp from 0)"""
    eps = common.EPS[dtype]
    se = math.sqrt(eps)
    up, dn = (lambda v: math.nextafter(v, math.inf)), (lambda v: math.nextafter(v, -math.inf))
    if dtype == "float32":
        import numpy as _np
        up = lambda v: float(_np.nextafter(_np.float32(v), _np.float32(_np.inf)))
        dn = lambda v: float(_np.nextafter(_np.float32(v), _np.float32(-_np.inf)))
    # every regime and every threshold (eps for so3_Jl / so3_Jl_inv / SO3_Log / rxso3_Ws, 0.05 for calcQ) with neighbours of either
    # sign; the most different regimes come first so that a short batch already mixes them
    g_ang = [0.0, 1.0, eps * (1 + 2 ** -10), 1e-30, math.pi - 0.31, eps * (1 - 2 ** -10), 0.06, se, 0.04, 2.2, eps, 0.05, 2 * eps, 1e-4,
             eps / 2, 1e-12, up(eps), dn(0.05), up(0.05), dn(eps)]
    if kind == "Jinvp":
        g_ang = [2e-3, 1.0, 0.04, math.pi - 0.31, 0.06, 1e-2, 0.5, 2.2, 0.05, dn(0.05), up(0.05)]
    if kind not in ("Log", "Jinvp"):
        g_ang = g_ang[:9] + [math.pi, math.pi - 1e-6] + g_ang[9:]
    a_ang = [0.0, 1.0, eps * (1 + 2 ** -10), 3.5, 1e-30, eps * (1 - 2 ** -10), 0.06, 6.4, se, 0.04, 3.0, eps, 0.05, 2 * eps, 1e-4, eps / 2, 6.0,
             1e-12, up(eps), dn(0.05), up(0.05), dn(eps), 0.0500001]
    if dtype == "float32":          # the two dtypes walk through the lists from different starting points
        g_ang = g_ang[5:] + g_ang[:5]
        a_ang = a_ang[5:] + a_ang[:5]
    trans = [0.0, 1.0, 1e6, 1e-8, 1e3, 3.0, 0.25, 1e-30]
    lscale = [0.0, -40.0, 0.7, 40.0, -0.7, 1e-30, -12.0, -eps / 2, 12.0, eps * (1 + 2 ** -10), 1e-8, -1e-3]
    pts = [1.0, 0.0, 1e6, 1e-8, 2.5, 1e-30, 1e3]
    ws = [1.0, 0.0, -2.5, 1.0, 1e-8]
    out = []
    for i in range(n):
        ax = CORPUS_AXES[i % len(CORPUS_AXES)]
        tv = [trans[i % len(trans)] * c for c in CORPUS_AXES[(i + 2) % len(CORPUS_AXES)]]
        k = ty[0]
        if k == "G":
            g = ty[1]
            q = quat_of(g_ang[i % len(g_ang)], ax, neg=(i // len(g_ang)) % 2 == 1 or i % 3 == 2)
            v = []
            if g in ("SE3", "Sim3"):
                v += tv
            v += q
            if g in ("RxSO3", "Sim3"):
                ls = lscale[i % len(lscale)]
                if kind in ("Log", "Jinvp", "Exp") and g == "Sim3" and abs(ls) > 1:
                    ls = math.copysign(0.3, ls)
                v.append(math.exp(ls))
            out.append(v)
        elif k == "A":
            g = ty[1]
            th = a_ang[i % len(a_ang)]
            n_ = math.sqrt(sum(a * a for a in ax))
            phi = [th * a / n_ for a in ax]
            v = []
            if g in ("SE3", "Sim3"):
                v += tv
            v += phi
            if g in ("RxSO3", "Sim3"):
                v.append(lscale[i % len(lscale)])
            if g == "Sim3" and kind in ("Exp", "Retr"):
                # keep |ad xi| small enough for the documented truncation on every other item
                if i % 2 == 0:
                    v = [x * (0.2 / max(0.2, math.sqrt(sum(y * y for y in v)))) for x in v]
            out.append(v)
        elif k == "E3":
            m = pts[i % len(pts)]
            out.append([m * c for c in CORPUS_AXES[(i + 1) % len(CORPUS_AXES)]])
        else:
            m = pts[i % len(pts)]
            out.append([m * c for c in CORPUS_AXES[(i + 1) % len(CORPUS_AXES)]] + [ws[i % len(ws)]])
    return out


def corpus_cot(n_items, dim):
    cots = []
    for i in range(n_items):
        if i % 4 == 3:
            v = [0.0] * dim
            v[i % dim] = 1.0
        else:
            v = [((-1) ** (i + j)) * (0.3 + 0.37 * ((i * 7 + j * 3) % 5)) for j in range(dim)]
        cots.append(v)
    return cots


def corpus_cases(dtype, n_items, rows_fn=None, stream="corpus", cot_fn=None):
    """one mixed-regime batch per (op, group): item k of every leaf sits in another regime (zero / tiny / around eps / sqrt(eps) /
    0.05 / ordinary / large rotation, both hemispheres, translations 0..1e6, scales e^-40..e^40, points 0..1e6, w in {1,0,-2.5})"""
    import random as _r
    rng = _r.Random(4004)
    cases = []
    for op in LOCAL_OPS:
        for g in GROUPS:
            case = local_case(rng, op, g, dtype)
            node = from_json(case["prog"])
            ltypes = [tuple(t) for t in case["ltypes"]]
            if len(ltypes) == 1 and node[0] == "B":      # the shared-leaf variant is covered by the random streams
                continue
            kind = op[1] if op[1] != "MatrixA" else "Exp"
            case["stream"] = stream
            case["lshapes"] = [[n_items] for _ in ltypes]
            case["bshape"] = [n_items]
            vals = []
            tie = rows_fn(op, g, dtype, ltypes, n_items) if rows_fn is not None else None
            for li, ty in enumerate(ltypes):
                if tie is not None:
                    rows = tie[li]
                else:
                    rows = corpus_items(ty, dtype, kind, n_items)
                    if li == 1:           # second leaf: shift so that every regime meets several partners
                        rows = rows[3:] + rows[:3]
                vals.append(U.to_dtype_exact(rows, dtype)[1].tolist())
            case["values"] = vals
            od = tdim(node_type(node, ltypes))
            case["cot"] = U.to_dtype_exact((cot_fn or corpus_cot)(n_items, od), dtype)[1].tolist()
            case["tags"] = [stream] * len(ltypes)
            cases.append(case)
    return cases


def single_item_case(case, b):
    c = dict(case)
    c["lshapes"] = [[] for _ in case["ltypes"]]
    c["bshape"] = []
    c["values"] = [v[b] for v in case["values"]]
    c["cot"] = case["cot"][b]
    return c


def run_corpus(ctx: Ctx, n_items: int, dtypes, fd_every: int, rows_fn=None, stream="corpus", cot_fn=None):
    """(2) deterministic corner corpus, identical for every seed; (1) extreme-but-valid magnitudes; (3) per-block relative
    tolerances; (7) mixed-regime batches, additionally compared item by item with the same call on each item alone"""
    kept = []
    for dtype in dtypes:
        for case in corpus_cases(dtype, n_items, rows_fn, stream, cot_fn):
            node = from_json(case["prog"])
            ps = prog_str(node)
            case["fd"] = True
            try:
                r = run_case_impl(case)
            except Exception as e:
                ctx.fail(case, f"raises: autograd of {ps} on the corner corpus raised {type(e).__name__}: {str(e)[:160]}")
                continue
            try:
                r.band, r.trunc = site_info(case, r)
            except Exception as e:
                ctx.fail(case, f"raises: {ps} on the corner corpus: {type(e).__name__}: {str(e)[:160]}")
                continue
            account(ctx, case, stream)
            if not structural_checks(ctx, case, r):
                continue
            measure_floor(case, r)
            # item-wise = batched, on the real code (quick: the float32 tie corpus leaves this to its float64 twin)
            nb = case["bshape"][0]
            for b in range(nb if not (ctx.quick and stream != "corpus" and dtype == "float32") else 0):
                c1 = single_item_case(case, b)
                try:
                    r1 = run_case_impl(c1)
                except Exception as e:
                    ctx.fail(c1, f"raises: {ps} on a single corpus item raised {type(e).__name__}: {str(e)[:120]}")
                    continue
                t = 256 * common.EPS[dtype]
                for li, (gb, g1) in enumerate(zip(r.grads, r1.grads)):
                    if gb is None or g1 is None:
                        continue
                    ty = tuple(case["ltypes"][li])
                    rowb, row1 = gb[b].tolist(), g1.tolist()
                    for lo, hi in blocks(ty):
                        err = nmax(abs(x - y) for x, y in zip(rowb[lo:hi], row1[lo:hi]))
                        sc = max(abs(y) for y in row1[lo:hi])
                        if not (err <= t * sc) and not (sc == 0 and err <= 1e-300):
                            ctx.fail(dict(c1, batch_case={k: case[k] for k in ("prog", "ltypes", "dtype")}, item=b),
                                     f"batch: gradient of leaf {li} of {ps} for item {b} inside a mixed-regime batch differs from the "
                                     f"same call on that item alone by {err:.3e} (block scale {sc:.3e}, {dtype})")
                            break
                ob, o1 = r.out[b].flatten().tolist(), r1.out.flatten().tolist()
                err = nmax(abs(x - y) for x, y in zip(ob, o1))
                sc = max((abs(y) for y in o1), default=0.0)
                if not (err <= t * sc) and not (sc == 0 and err <= 1e-300):
                    ctx.fail(dict(c1, item=b), f"batch: value of {ps} for item {b} inside a mixed-regime batch differs from the single call by {err:.3e} ({dtype})")
                ctx.count(stream + ".items")
            kept.append((case, r))
    # model + oracle: finite differences on every fd_every-th case (all of them in the thorough tier)
    for i, (case, r) in enumerate(kept):
        case["fd"] = (i % fd_every == 0)
    evaluate_cases(ctx, kept, stream)


# ----------------------------------------------------------------------------- reuse / stale reads / views

REUSE_PROGS = [
    ("Log", lambda X, a, p: X.Log()),
    ("Exp", lambda X, a, p: a.Exp()),
    ("Inv", lambda X, a, p: X.Inv()),
    ("Adj", lambda X, a, p: X.Adj(a)),
    ("Retr", lambda X, a, p: X.Retr(a)),
    ("Act", lambda X, a, p: X.Act(p)),
    ("AdjT", lambda X, a, p: X.AdjT(a)),
    ("LogMul", lambda X, a, p: (a.Exp() @ X).Log()),
    ("Jinvp", lambda X, a, p: X.Jinvp(a)),
    ("matrix", lambda X, a, p: X.Inv().matrix()),
]


def fixed_inputs(P, g, dtype, n, salt):
    """deterministic valid inputs (X, a, p) of batch size n"""
    D = U.dt(dtype)
    X = torch.tensor(corpus_items(("G", g), dtype, "Jinvp", n + salt)[salt:], dtype=torch.float64).to(D)
    a = torch.tensor([[0.2 * math.sin(1.0 + i + 3 * j + salt) for j in range(AD_[g])] for i in range(n)], dtype=torch.float64).to(D)
    p = torch.tensor([[1.5 * math.cos(0.5 + i + 2 * j + salt) for j in range(3)] for i in range(n)], dtype=torch.float64).to(D)
    return X, a, p


def lie(P, g, X, a):
    return P.LieTensor(X, ltype=U.ltype(g)), P.LieTensor(a, ltype=U.ltype(U.ALG[g]))


def grads_of(P, fn, g, X, a, p, c=None):
    Xl = X.clone().requires_grad_(True)
    al = a.clone().requires_grad_(True)
    pl = p.clone().requires_grad_(True)
    XL, aL = lie(P, g, Xl, al)
    out = as_tensor(P, fn(XL, aL, pl))
    if c is None:
        c = torch.cos(torch.arange(out.numel(), dtype=torch.float64) * 0.7 + 0.3).reshape(out.shape).to(out.dtype)
    gs = torch.autograd.grad(out, [Xl, al, pl], grad_outputs=c, allow_unused=True)
    # pass 7 (38a): the operands of every stream that comes through here are finite valid elements inside the quantifier, so a NaN / Inf
    # value or gradient is a failure by itself — and `same` (NaN == NaN) / `err > tol` comparisons downstream would not notice it
    if not bool(torch.isfinite(out).all()) or any(x is not None and not bool(torch.isfinite(x).all()) for x in gs):
        bad = [t_ for t_ in [out] + [x for x in gs if x is not None] if not bool(torch.isfinite(t_).all())][0]
        row = int((~torch.isfinite(bad)).reshape(bad.shape[0], -1).any(-1).nonzero()[0]) if bad.dim() > 1 and X.dim() > 1 and bad.shape[0] == X.shape[0] else None
        ops = [(t_[row] if row is not None and t_.dim() > 1 and t_.shape[0] == X.shape[0] else t_).flatten()[:8].tolist() for t_ in (X, a, p)]
        raise NonFinite(f"non-finite value or gradient for the finite operands (item {row}) X={ops[0]} a={ops[1]} p={ops[2]}"[:420])
    return out.detach(), [None if x is None else x.detach() for x in gs]


def same(a, b):
    if a is None or b is None:
        return a is None and b is None
    return a.shape == b.shape and a.dtype == b.dtype and bool(torch.equal(torch.nan_to_num(a, nan=1234.5), torch.nan_to_num(b, nan=1234.5)))


def patched_functions():
    import torch._functorch.eager_transforms as et
    import torch._functorch.vmap as vm
    return (torch.autograd.forward_ad.make_dual, et._wrap_tensor_for_grad, vm._add_batch_dim)


def run_reuse(ctx: Ctx):
    """(4) object reuse: the objects of this property that live across calls are the `pp.func.jacrev` wrapper, an nn.Module
    handed to `modjac` several times, an autograd graph that is differentiated more than once, and the torch functions
    patched by `retain_ltype`.  Every per-call argument (group, dtype, batch size, input, cotangent, vectorize / flatten
    flags) varies between the calls of one history; each result must equal the result of a fresh object."""
    P = U.pp()
    before = patched_functions()
    for name, fn in REUSE_PROGS:
        case0 = {"stream": "reuse", "program": name}
        # --- one jacrev wrapper, many calls
        try:
            wrapper = P.func.jacrev(fn, argnums=(0, 1, 2))
            hist = [("SE3", "float64", 2), ("SO3", "float32", 1), ("Sim3", "float64", 3), ("SE3", "float64", 2), ("RxSO3", "float64", 1),
                    ("SO3", "float64", 4)]
            for k, (g, dtype, n) in enumerate(hist):
                case = dict(case0, call=k, type=g, dtype=dtype, batch=n, object="jacrev")
                X, a, p = fixed_inputs(P, g, dtype, n, k)
                XL, aL = lie(P, g, X, a)
                J = wrapper(XL, aL, p)
                Jf = P.func.jacrev(fn, argnums=(0, 1, 2))(*lie(P, g, X.clone(), a.clone()), p.clone())
                ctx.note_case(("reuse", "jacrev", name, k), True)
                ctx.count("reuse.jacrev")
                for j1, j2 in zip(J, Jf):
                    if not same(torch.Tensor.as_subclass(j1, torch.Tensor), torch.Tensor.as_subclass(j2, torch.Tensor)):
                        ctx.fail(case, f"reuse: call #{k} of one pp.func.jacrev wrapper ({name}, {g}, {dtype}, batch {n}) differs from a fresh wrapper")
                        break
                if patched_functions() != before:
                    ctx.fail(case, f"reuse: torch functions patched by retain_ltype are not restored after pp.func.jacrev ({name})")
                    break
        except Exception as e:
            ctx.fail(case0, f"raises: re-used pp.func.jacrev wrapper ({name}) raised {type(e).__name__}: {str(e)[:140]}")
        # --- one graph, several backward passes (saved tensors must survive a backward)
        for g, dtype in (("SE3", "float64"), ("Sim3", "float32"), ("SO3", "float64"), ("RxSO3", "float64")):
            case = dict(case0, type=g, dtype=dtype, object="graph")
            try:
                X, a, p = fixed_inputs(P, g, dtype, 3, 1)
                Xl, al, pl = X.clone().requires_grad_(True), a.clone().requires_grad_(True), p.clone().requires_grad_(True)
                XL, aL = lie(P, g, Xl, al)
                out = as_tensor(P, fn(XL, aL, pl))
                c1 = torch.sin(torch.arange(out.numel(), dtype=torch.float64) + 0.2).reshape(out.shape).to(out.dtype)
                c2 = torch.cos(torch.arange(out.numel(), dtype=torch.float64) * 1.3).reshape(out.shape).to(out.dtype)
                g1 = torch.autograd.grad(out, [Xl, al, pl], c1, retain_graph=True, allow_unused=True)
                g2 = torch.autograd.grad(out, [Xl, al, pl], c2, retain_graph=True, allow_unused=True)
                g3 = torch.autograd.grad(out, [Xl, al, pl], c1, retain_graph=True, allow_unused=True)
                ctx.note_case(("reuse", "graph", name, g, dtype), True)
                ctx.count("reuse.graph")
                if not all(same(x, y) for x, y in zip(g1, g3)):
                    ctx.fail(case, f"reuse: third backward through one graph of {name} ({g}, {dtype}) differs from the first with the same cotangent")
                out.backward(c1, retain_graph=True)
                out.backward(c2)
                for leaf, x1, x2 in zip((Xl, al, pl), g1, g2):
                    if x1 is None:
                        continue
                    acc = x1 + x2
                    err = float((leaf.grad - acc).abs().max())
                    if not (err <= 4 * common.EPS[dtype] * (1e-300 + float(acc.abs().max()))):
                        ctx.fail(case, f"reuse: .grad accumulated over two backward calls of {name} ({g}, {dtype}) is not the sum of the two gradients (err {err:.3e})")
                _, gf = grads_of(P, fn, g, X, a, p, c1)
                if not all(same(x, y) for x, y in zip(g1, gf)):
                    ctx.fail(case, f"reuse: gradient of {name} ({g}, {dtype}) depends on earlier calls (differs from a fresh evaluation)")
            except Exception as e:
                ctx.fail(case, f"raises: repeated backward of {name} ({g}) raised {type(e).__name__}: {str(e)[:140]}")
    # --- one Module handed to modjac several times with varied input and flags
    for g in GROUPS:
        case = {"stream": "reuse", "object": "modjac", "type": g}
        try:
            X, a, p = fixed_inputs(P, g, "float64", 2, 2)

            class Mod(torch.nn.Module):
                def __init__(s):
                    super().__init__()
                    s.X = P.Parameter(P.LieTensor(X.clone(), ltype=U.ltype(g)))
                    s.a = P.Parameter(P.LieTensor(a.clone(), ltype=U.ltype(U.ALG[g])))

                def forward(s, q):
                    return (s.a.Exp() @ s.X).Act(q)
            mod = Mod()
            snap = [x.detach().clone() for x in mod.parameters()]
            attrs = sorted(vars(mod).keys())
            hist = [(1, False, False), (3, True, False), (1, False, True), (2, True, True), (3, False, False), (1, False, False)]
            for k, (npts, vec, flat) in enumerate(hist):
                q = torch.tensor([[0.3 * (i + 1) * math.cos(j + k) for j in range(3)] for i in range(npts)], dtype=torch.float64).unsqueeze(1)
                J = P.optim.functional.modjac(mod, input=q, vectorize=vec, flatten=flat)
                Jf = P.optim.functional.modjac(Mod(), input=q.clone(), vectorize=vec, flatten=flat)
                J = J if isinstance(J, tuple) else (J,)
                Jf = Jf if isinstance(Jf, tuple) else (Jf,)
                ctx.note_case(("reuse", "modjac", g, k), True)
                ctx.count("reuse.modjac")
                tol = 0.0 if not vec else 64 * common.EPS["float64"]
                for j1, j2 in zip(J, Jf):
                    j1, j2 = torch.Tensor.as_subclass(j1, torch.Tensor), torch.Tensor.as_subclass(j2, torch.Tensor)
                    if j1.shape != j2.shape or not (float((j1 - j2).abs().max()) <= tol * (1 + float(j2.abs().max()))):
                        ctx.fail(dict(case, call=k, npts=npts, vectorize=vec, flatten=flat),
                                 f"reuse: call #{k} of modjac on one module ({g}, {npts} points, vectorize={vec}, flatten={flat}) differs from a fresh module")
                        break
                if not all(same(x.detach(), y) for x, y in zip(mod.parameters(), snap)) or any(x.grad is not None for x in mod.parameters()) \
                        or sorted(vars(mod).keys()) != attrs:
                    ctx.fail(dict(case, call=k), f"reuse: modjac changed the module it was given ({g}): parameters / .grad / attributes")
                    break
        except Exception as e:
            ctx.fail(case, f"raises: repeated modjac on one module ({g}) raised {type(e).__name__}: {str(e)[:140]}")
    if patched_functions() != before:
        ctx.fail({"stream": "reuse"}, "reuse: torch functions patched by retain_ltype are not restored at the end of the history")


def run_stale(ctx: Ctx):
    """(5) stale reads: the caller keeps its leaf tensors, updates them in place between calls (add_, copy_, item
    assignment, identity_) and differentiates again — value and gradient must describe the current state (bit for bit
    the result of fresh tensors holding the same data)."""
    P = U.pp()
    for g in GROUPS:
        for dtype in ("float64", "float32"):
            D = U.dt(dtype)
            X, a, p = fixed_inputs(P, g, dtype, 3, 0)
            Xl, al, pl = X.clone().requires_grad_(True), a.clone().requires_grad_(True), p.clone().requires_grad_(True)
            XL, aL = lie(P, g, Xl, al)
            case = {"stream": "stale", "type": g, "dtype": dtype}
            try:
                for name, fn in REUSE_PROGS:       # first reads: this is where a cache would be filled
                    fn(XL, aL, pl)
                for u in range(5):
                    kind = ["add_", "copy_", "setitem", "add_", "identity_"][u]
                    Xn, an, pn = fixed_inputs(P, g, dtype, 3, u + 1)
                    with torch.no_grad():
                        if kind == "add_":
                            XL.add_(0.3 * an)
                            aL.add_(0.5 * an)
                            pl.add_(pn)
                        elif kind == "copy_":
                            XL.copy_(P.LieTensor(Xn, ltype=U.ltype(g)))
                            aL.copy_(P.LieTensor(an, ltype=U.ltype(U.ALG[g])))
                            pl.copy_(pn)
                        elif kind == "setitem":
                            XL[1] = P.LieTensor(Xn, ltype=U.ltype(g))[0]
                            aL[2] = P.LieTensor(an, ltype=U.ltype(U.ALG[g]))[1]
                            pl[0] = pn[2]
                        else:
                            try:
                                XL.identity_()
                            except (NotImplementedError, AttributeError):
                                XL.copy_(P.LieTensor(Xn, ltype=U.ltype(g)))
                            aL.fill_(0.0)
                    for name, fn in REUSE_PROGS:
                        if name in ("Jinvp",) and kind == "identity_":
                            continue          # Jinvp: away from the zero rotation
                        out = as_tensor(P, fn(XL, aL, pl))
                        c = torch.cos(torch.arange(out.numel(), dtype=torch.float64) * 0.7 + 0.3).reshape(out.shape).to(out.dtype)
                        gs = torch.autograd.grad(out, [Xl, al, pl], grad_outputs=c, allow_unused=True)
                        of, gf = grads_of(P, fn, g, Xl.detach(), al.detach(), pl.detach(), c)
                        ctx.note_case(("stale", g, dtype, name, u), True)
                        ctx.count("stale.reads")
                        if not same(out.detach(), of):
                            ctx.fail(dict(case, update=kind, update_index=u, program=name),
                                     f"stale: value of {name} on {g} tensors updated in place (#{u}, {kind}) differs from fresh tensors with the same data ({dtype})")
                        elif not all(same(None if x is None else x.detach(), y) for x, y in zip(gs, gf)):
                            ctx.fail(dict(case, update=kind, update_index=u, program=name),
                                     f"stale: gradient of {name} on {g} tensors updated in place (#{u}, {kind}) differs from fresh tensors with the same data ({dtype})")
            except Exception as e:
                ctx.fail(case, f"raises: stale-read history on {g} ({dtype}) raised {type(e).__name__}: {str(e)[:140]}")


def run_views(ctx: Ctx):
    """(6) views and aliases: leaves that are slices of a larger buffer, transposed (non-contiguous) batches, expanded
    (stride 0) tensors, the same tensor passed as both arguments; the gradient must equal the one for contiguous copies,
    vanish outside the view, and the caller's buffers must be bit-for-bit unchanged by forward and backward."""
    P = U.pp()
    for g in GROUPS:
        for dtype in ("float64", "float32"):
            D = U.dt(dtype)
            gd, ad = GD[g], AD_[g]
            for name, fn in REUSE_PROGS:
                case = {"stream": "views", "type": g, "dtype": dtype, "program": name}
                try:
                    X, a, p = fixed_inputs(P, g, dtype, 4, 3)
                    # buffers: X in columns 2..2+gd of a wider buffer, a as every second row, p transposed storage
                    bufX = torch.full((4, gd + 5), 7.25, dtype=D)
                    bufX[:, 2:2 + gd] = X
                    bufa = torch.full((8, ad), -3.5, dtype=D)
                    bufa[::2] = a
                    bufp = torch.full((3, 4), 0.125, dtype=D)
                    bufp[:, :] = p.t()
                    for b_ in (bufX, bufa, bufp):
                        b_.requires_grad_(True)
                    snaps = [b_.detach().clone() for b_ in (bufX, bufa, bufp)]
                    Xv, av, pv = bufX[:, 2:2 + gd], bufa[::2], bufp.t()
                    XL, aL = lie(P, g, Xv, av)
                    out = as_tensor(P, fn(XL, aL, pv))
                    c = torch.cos(torch.arange(out.numel(), dtype=torch.float64) * 0.7 + 0.3).reshape(out.shape).to(out.dtype)
                    gs = torch.autograd.grad(out, [bufX, bufa, bufp], grad_outputs=c, allow_unused=True)
                    of, gf = grads_of(P, fn, g, X, a, p, c)
                    ctx.note_case(("views", g, dtype, name), True)
                    ctx.count("views.cases")
                    if not all(same(b_.detach(), s_) for b_, s_ in zip((bufX, bufa, bufp), snaps)):
                        ctx.fail(case, f"purity: {name} on {g} views ({dtype}) changed the caller's buffers")
                    if not same(out.detach(), of):
                        ctx.fail(case, f"views: value of {name} on non-contiguous {g} views differs from contiguous copies ({dtype})")
                    inside = [None if gs[0] is None else gs[0][:, 2:2 + gd], None if gs[1] is None else gs[1][::2],
                              None if gs[2] is None else gs[2].t()]
                    for k, (x, y) in enumerate(zip(inside, gf)):
                        if (x is None) != (y is None) or (x is not None and not same(x.contiguous(), y)):
                            ctx.fail(case, f"views: gradient #{k} of {name} on non-contiguous {g} views differs from contiguous copies ({dtype})")
                    if gs[0] is not None:
                        outside = torch.cat([gs[0][:, :2], gs[0][:, 2 + gd:]], dim=1)
                        if float(outside.abs().max()) != 0.0 or (gs[1] is not None and float(gs[1][1::2].abs().max()) != 0.0):
                            ctx.fail(case, f"views: gradient of {name} leaks outside the view of the caller's buffer ({g}, {dtype})")
                    # expanded (stride-0) group element acting on a batch
                    X1 = X[:1].clone().requires_grad_(True)
                    Xe = P.LieTensor(X1.expand(4, gd), ltype=U.ltype(g))
                    a2 = a.clone().requires_grad_(True)
                    p2 = p.clone().requires_grad_(True)
                    out = as_tensor(P, fn(Xe, P.LieTensor(a2, ltype=U.ltype(U.ALG[g])), p2))
                    ge, = torch.autograd.grad(out, [X1], grad_outputs=c, allow_unused=True)
                    Xr = X[:1].repeat(4, 1)
                    _, gr = grads_of(P, fn, g, Xr, a, p, c)
                    if ge is not None:
                        ref = gr[0].sum(0, keepdim=True)
                        err = float((ge - ref).abs().max())
                        if not (err <= 64 * common.EPS[dtype] * (1e-300 + float(gr[0].abs().sum(0).max()))):
                            ctx.fail(case, f"views: gradient of an expanded (stride-0) {g} element through {name} is not the sum over the batch (err {err:.3e}, {dtype})")
                except Exception as e:
                    ctx.fail(case, f"raises: {name} on {g} views ({dtype}) raised {type(e).__name__}: {str(e)[:140]}")
            # the same tensor as both arguments: X @ X, X.Adj(Log X)
            case = {"stream": "views", "type": g, "dtype": dtype, "program": "alias"}
            try:
                X, a, p = fixed_inputs(P, g, dtype, 3, 5)
                Xl = X.clone().requires_grad_(True)
                XL = P.LieTensor(Xl, ltype=U.ltype(g))
                out = (XL @ XL).tensor()
                c = torch.cos(torch.arange(out.numel(), dtype=torch.float64) * 0.7 + 0.3).reshape(out.shape).to(out.dtype)
                ga, = torch.autograd.grad(out, [Xl], c)
                X1, X2 = X.clone().requires_grad_(True), X.clone().requires_grad_(True)
                out2 = (P.LieTensor(X1, ltype=U.ltype(g)) @ P.LieTensor(X2, ltype=U.ltype(g))).tensor()
                g1, g2 = torch.autograd.grad(out2, [X1, X2], c)
                ctx.count("views.alias")
                err = float((ga - (g1 + g2)).abs().max())
                if not same(out.detach(), out2.detach()) or not (err <= 4 * common.EPS[dtype] * (1e-300 + float((g1.abs() + g2.abs()).max()))):
                    ctx.fail(case, f"views: X @ X with one tensor as both arguments ({g}, {dtype}) is not the sum of the two argument gradients (err {err:.3e})")
            except Exception as e:
                ctx.fail(case, f"raises: aliased arguments on {g} ({dtype}) raised {type(e).__name__}: {str(e)[:140]}")


def run(ctx: Ctx):
    torch.set_num_threads(max(1, min(4, int(os.environ.get("OMP_NUM_THREADS", "4")))))
    # deterministic part first: identical for every seed
    from . import util_autograd_h2 as H2, util_autograd_h4 as H4, util_autograd_h5 as H5
    H4.run_fresh_modes(ctx)    # pass 4 (23): keys fresh in the process are used FIRST under inference_mode / no_grad, then with backward
    H2.run_all(ctx)            # pass 2: interleavings, argument combinations, error paths, grad modes, duck types, copies, memory, sizes
    run_corpus(ctx, n_items=ctx.pick(10, 24), dtypes=("float64", "float32"), fd_every=ctx.pick(6, 1))
    # pass 4 (20): exact coincidences (quarter turns |v| == |w|, theta == 0.05 / eps, |sigma| == theta, Y == X, p == t, ...)
    run_corpus(ctx, n_items=12, dtypes=ctx.pick(("float64",), ("float64", "float32")), fd_every=ctx.pick(4, 1), rows_fn=H4.tie_values, stream="ties")
    # pass 5 (36): tiny-but-non-zero rotations, nearly equal operands, cotangents scaled by 2^+-40 (float64)
    run_corpus(ctx, n_items=12, dtypes=("float64",), fd_every=ctx.pick(4, 1), rows_fn=H5.tiny_values, stream="tiny", cot_fn=H5.tiny_cot)
    run_reuse(ctx)
    run_stale(ctx)
    run_views(ctx)
    H5.run_poison(ctx)         # (32) constants written in place by another operation on a degenerate shape
    H5.run_cotscale(ctx)       # (36)
    H5.run_lowp(ctx)           # (30) float16 / bfloat16
    H5.run_defaults(ctx)       # (29)
    H5.run_callbacks(ctx)      # (31)
    H5.run_subprops(ctx)       # (33)
    H5.run_subsets(ctx)        # (37) every subset of operands requiring grad
    H5.run_layout(ctx)         # (39), (41) permuted strides x degenerate minority x 20..64 items
    H5.run_cotlayout(ctx)      # (49) upstream cotangent in a transposed / permuted dense layout
    H5.run_huge(ctx)           # (34) > 2^17 items
    H4.run_subclasses(ctx)     # (21)
    H4.run_default_dtype(ctx)  # (25)
    H4.run_signs(ctx)          # (26)
    H4.run_numpy(ctx)          # (27)
    H4.run_large(ctx)          # (19), (28): 2^14+1 / 2^16+1 items, kernel switch-over sizes
    # seeded part
    run_local(ctx, ctx.pick(1, 8))
    run_prog(ctx, ctx.pick(24, 1600))
    run_routes(ctx, ctx.pick(8, 240))
    from . import util_autograd_batch as HB
    HB.run_batch(ctx, ctx.pick(24, 400))   # pass 3: the model's own batched / broadcasting layer (c04.bcall) against the code


def search(ctx: Ctx):
    """after a broken proof / correspondence: hunt for an input on which the property itself fails.  Every program whose
    correspondence broke is re-drawn many times with moderate magnitudes (so that the finite-difference oracle applies:
    small sim3 elements, no extreme scales), then the random streams run at a larger size."""
    import random as _r
    rng = _r.Random(777 + ctx.seed)
    seen = set()
    cases = []
    for d in ctx.disagreements:
        c = d["case"]
        if "prog" not in c:
            continue
        key = json_key(c["prog"]) + c["dtype"]
        if key in seen or len(seen) >= 12:
            continue
        seen.add(key)
        for k in range(24):
            c2 = {k2: c[k2] for k2 in ("prog", "ltypes", "dtype", "root") if k2 in c}
            c2["stream"] = "search"
            c2["lshapes"] = [[] for _ in c["ltypes"]]
            c2["bshape"] = []
            c2["blockwise"] = bool(c.get("blockwise"))
            r = prepare(ctx, c2, rng, tries=6)
            if r is not None and structural_checks(ctx, c2, r):
                cases.append((c2, r))
    evaluate_cases(ctx, cases, "search")
    if not ctx.failures:
        run_local(ctx, 4)
        run_prog(ctx, 400)


def json_key(j):
    import json as _j
    return _j.dumps(j, sort_keys=True)


def replay(ctx: Ctx, case) -> bool:
    c = case["case"]
    n0 = len(ctx.failures)
    if c.get("stream") == "batch":
        from . import util_autograd_batch as HB
        return HB.replay_case(ctx, c)
    from . import util_autograd_h4 as H4
    if c.get("stream") in H4.STREAMS and "prog" not in c:
        return H4.replay_case(ctx, c)
    from . import util_autograd_h5 as H5
    if c.get("stream") in H5.STREAMS and "prog" not in c:
        return H5.replay_case(ctx, c)
    try:
        r = run_case_impl(c)
    except Exception as e:
        print(f"  implementation raises {type(e).__name__}: {e}")
        return False
    r.band, r.trunc = site_info(c, r)
    r.cmax = None
    print("  program:", prog_str(from_json(c["prog"])), c["dtype"], "batch", c["bshape"])
    if c.get("route"):
        c2 = dict(c, routes=[c["route"]])
        ok = check_routes(ctx, c2, r)
    else:
        structural_checks(ctx, c, r)
        evaluate_cases(ctx, [(c, r)], c.get("stream", "prog"))
        ok = len(ctx.failures) == n0 and not ctx.disagreements
    for li, g in enumerate(r.grads):
        print(f"  autograd gradient of leaf {li} {c['ltypes'][li]}:", None if g is None else g.flatten().tolist()[:16])
    for f in ctx.failures[n0:]:
        print("  fails:", f["what"])
    for d in ctx.disagreements:
        print("  model disagrees:", d["detail"])
    return ok and len(ctx.failures) == n0
