import Proofs.Lemmas.AutogradExp
import Proofs.Lemmas.AutogradLog
import Mathlib.Analysis.SpecialFunctions.ExpDeriv
import Mathlib.Analysis.SpecialFunctions.Log.Deriv
/-!
# C04 — `rxso3_Exp.backward` / `RxSO3_Log.backward` multiply by the true derivatives (closed-form branch / regime 1)
-/
set_option maxRecDepth 10000
set_option linter.unusedSimpArgs false
set_option linter.unusedVariables false
namespace PP.AD
open PP

/-- **`rxso3_Exp.backward`** on the closed-form branch: tangent `rxso3_Jl(x)·d` (rotation block from `so3_Exp`, scale `e^σ`) -/
theorem rxso3Exp_tangent (eps : ℝ) (heps : 0 ≤ eps) (x : ℝ → DVec ℝ) (d0 d1 d2 d3 : ℝ)
    (hx : LCurve 4 x [d0, d1, d2, d3]) (hth : eps < (v3 (x 0)).norm) :
    LCurve 5 (fun t => expF .RxSO3 eps (x t))
      (liftG .RxSO3 (expF .RxSO3 eps (x 0)) ((JlMat .RxSO3 eps (x 0)).mulVec [d0, d1, d2, d3])) := by
  have hφ : LCurve 3 (fun t => [nth (x t) 0, nth (x t) 1, nth (x t) 2]) [d0, d1, d2] := by
    intro j hj
    interval_cases j
    · simpa using hx 0 (by norm_num)
    · simpa using hx 1 (by norm_num)
    · simpa using hx 2 (by norm_num)
  have hrot := so3Exp_tangent eps heps (fun t => [nth (x t) 0, nth (x t) 1, nth (x t) 2]) d0 d1 d2 hφ
    (by simpa [v3] using hth)
  have h3 := hx 3 (by norm_num)
  simp only [nth_cons_zero, nth_cons_succ] at h3
  intro i hi
  by_cases h4 : i < 4
  · have := hrot i h4
    have e1 : (fun t => nth (expF .RxSO3 eps (x t)) i) = fun t => nth (expF .SO3 eps [nth (x t) 0, nth (x t) 1, nth (x t) 2]) i := by
      funext t
      interval_cases i <;> simp [expF, rxso3Exp, RxSO3.toList, torx, Quat.toList, v3]
    have e2 : nth (liftG .RxSO3 (expF .RxSO3 eps (x 0)) ((JlMat .RxSO3 eps (x 0)).mulVec [d0, d1, d2, d3])) i
        = nth (liftG .SO3 (expF .SO3 eps ((fun t => [nth (x t) 0, nth (x t) 1, nth (x t) 2]) 0))
            ((JlMat .SO3 eps ((fun t => [nth (x t) 0, nth (x t) 1, nth (x t) 2]) 0)).mulVec [d0, d1, d2])) i := by
      interval_cases i <;>
        simp [liftG, liftQ, expF, rxso3Exp, JlMat, rxso3Jl, RxSO3.toList, torx, Vec3.toList, Quat.toList, v3, qt, DMat.block,
          DMat.hcat, DMat.vcat, DMat.zero, DVec.zero, Mat3.toRows, DMat.mulVec, ddot_cons]
    rw [e1, e2]; exact this
  · have hi4 : i = 4 := by omega
    subst hi4
    have e1 : (fun t => nth (expF .RxSO3 eps (x t)) 4) = fun t => Real.exp (nth (x t) 3) := by
      funext t; simp [expF, rxso3Exp, RxSO3.toList, torx, Quat.toList]
    rw [e1]
    refine h3.exp.congr_deriv ?_
    simp [liftG, expF, rxso3Exp, JlMat, rxso3Jl, RxSO3.toList, torx, Vec3.toList, Quat.toList, DMat.block,
      DMat.hcat, DMat.vcat, DMat.zero, DVec.zero, Mat3.toRows, DMat.mulVec, ddot_cons, mul_comm]

/-- **`RxSO3_Log.backward`** in regime 1: velocity `rxso3_Jl_inv(Log X)·τ` (rotation block from `SO3_Log`, scale `log s`) -/
theorem RxSO3Log_tangent (eps : ℝ) (heps : 0 ≤ eps) (X : ℝ → DVec ℝ) (a0 a1 a2 a3 : ℝ)
    (hX : LCurve 5 X (liftG .RxSO3 (X 0) [a0, a1, a2, a3])) (hu : (qt (X 0)).normSq = 1) (hs : 0 < nth (X 0) 4)
    (hv : eps < (qt (X 0)).vec.norm) (hw : eps < |(qt (X 0)).w|)
    (hφ : eps < (v3 (logF .SO3 eps [nth (X 0) 0, nth (X 0) 1, nth (X 0) 2, nth (X 0) 3])).norm) :
    LCurve 4 (fun t => logF .RxSO3 eps (X t))
      ((JlInvMat .RxSO3 eps (logF .RxSO3 eps (X 0))).mulVec [a0, a1, a2, a3]) := by
  have hQ : LCurve 4 (fun t => [nth (X t) 0, nth (X t) 1, nth (X t) 2, nth (X t) 3])
      (liftG .SO3 ((fun t => [nth (X t) 0, nth (X t) 1, nth (X t) 2, nth (X t) 3]) 0) [a0, a1, a2]) := by
    intro j hj
    have := hX j (by omega)
    interval_cases j <;>
      simpa [liftG, liftQ, qt, v3, Quat.toList] using this
  have hrot := SO3Log_tangent eps heps (fun t => [nth (X t) 0, nth (X t) 1, nth (X t) 2, nth (X t) 3]) a0 a1 a2 hQ
    (by simpa [qt] using hu) (by simpa [qt, Quat.vec] using hv) (by simpa [qt] using hw) (by simpa using hφ)
  have h4 := hX 4 (by norm_num)
  intro i hi
  by_cases h3 : i < 3
  · have := hrot i h3
    have e1 : (fun t => nth (logF .RxSO3 eps (X t)) i) = fun t => nth (logF .SO3 eps [nth (X t) 0, nth (X t) 1, nth (X t) 2, nth (X t) 3]) i := by
      funext t
      interval_cases i <;> simp [logF, RxSO3Log, rxso3.toList, toRx, Vec3.toList, qt]
    have e2 : nth ((JlInvMat .RxSO3 eps (logF .RxSO3 eps (X 0))).mulVec [a0, a1, a2, a3]) i
        = nth ((JlInvMat .SO3 eps (logF .SO3 eps ((fun t => [nth (X t) 0, nth (X t) 1, nth (X t) 2, nth (X t) 3]) 0))).mulVec [a0, a1, a2]) i := by
      interval_cases i <;>
        simp [logF, RxSO3Log, JlInvMat, rxso3JlInv, rxso3.toList, toRx, torx, Vec3.toList, v3, qt, DMat.block,
          DMat.hcat, DMat.vcat, DMat.zero, DVec.zero, Mat3.toRows, DMat.mulVec, ddot_cons]
    rw [e1, e2]; exact this
  · have hi3 : i = 3 := by omega
    subst hi3
    have e1 : (fun t => nth (logF .RxSO3 eps (X t)) 3) = fun t => Real.log (nth (X t) 4) := by
      funext t; simp [logF, RxSO3Log, rxso3.toList, toRx, Vec3.toList]
    rw [e1]
    have hs : nth (X 0) 4 ≠ 0 := ne_of_gt hs
    refine (h4.log hs).congr_deriv ?_
    simp [liftG, logF, RxSO3Log, JlInvMat, rxso3JlInv, rxso3.toList, toRx, torx, Vec3.toList, Quat.toList, DMat.block,
      DMat.hcat, DMat.vcat, DMat.zero, DVec.zero, Mat3.toRows, DMat.mulVec, ddot_cons]
    field_simp
end PP.AD
