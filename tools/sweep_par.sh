#!/bin/bash
# thorough (or quick) sweep in N parallel streams: tools/sweep_par.sh [tier] [seed] [streams]
cd "$(dirname "$0")/.."
tier=${1:-thorough}; seed=${2:-0}; n=${3:-3}
run() { for p in "$@"; do s=$(date +%s); out=$(VERIF_SEED=$seed timeout 7200 /venv/bin/python check.py --property $p --tier $tier 2>&1); rc=$?
  echo "seed=$seed $p rc=$rc wall=$(( $(date +%s)-s ))s $(echo "$out" | grep -c VIOLATION) viol | $(echo "$out" | grep "$p $tier" | tail -1)"; [ $rc -ne 0 ] && echo "$out" | grep -E "VIOLATION|disagreement|fails" | head -5; done; }
props=(C06 C05 C04 C07 C10 C20 C17 C08 C14 C01 C19 C15 C02 C16 C11 C18 C09 C03 C13 C12)
for ((i=0;i<n;i++)); do sub=(); for ((j=i;j<${#props[@]};j+=n)); do sub+=(${props[j]}); done; run "${sub[@]}" & done; wait
