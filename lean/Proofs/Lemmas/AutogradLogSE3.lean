/-
C04 (pass 3): `SE3_Log.backward` is the true left-perturbation derivative in the closed-form regime.  Proof by the implicit
equation `Exp(Log X) = X`: the translation part of `se3_Exp` has the proven derivative `se3Exp_tangent_trans`; `Jl·JlInv = 1`.
-/
import Proofs.Lemmas.AutogradExpSE3
import Proofs.Lemmas.AutogradLog
import Proofs.Lemmas.AutogradZero
set_option maxRecDepth 10000
set_option maxHeartbeats 1000000
set_option linter.unusedSimpArgs false
set_option linter.unusedVariables false
namespace PP.AD
open PP

theorem mulVec_mul3 (A B : Mat3 ℝ) (v : Vec3 ℝ) : (A.mul B).mulVec v = A.mulVec (B.mulVec v) := by
  apply Vec3.ext' <;> lie_unfold <;> ring
theorem one_mulVec3 (v : Vec3 ℝ) : (Mat3.one : Mat3 ℝ).mulVec v = v := by apply Vec3.ext' <;> lie_unfold <;> ring
theorem mulVec_add3 (A : Mat3 ℝ) (u v : Vec3 ℝ) : A.mulVec (u.add v) = (A.mulVec u).add (A.mulVec v) := by
  apply Vec3.ext' <;> lie_unfold <;> ring
theorem mulVec_sub3 (A : Mat3 ℝ) (u v : Vec3 ℝ) : A.mulVec (u.sub v) = (A.mulVec u).sub (A.mulVec v) := by
  apply Vec3.ext' <;> lie_unfold <;> ring
theorem neg_mulVec3 (A : Mat3 ℝ) (v : Vec3 ℝ) : A.neg.mulVec v = (A.mulVec v).neg := by
  apply Vec3.ext' <;> lie_unfold <;> ring

/-- polynomials in the same `hat x` commute -/
theorem polyK_comm (a b c a' b' c' : ℝ) (x : Vec3 ℝ) :
    (polyK a b c x).mul (polyK a' b' c' x) = (polyK a' b' c' x).mul (polyK a b c x) := by
  simp only [polyK]
  apply Mat3.ext' <;> apply Vec3.ext' <;> lie_unfold <;> ring

/-- `so3_Jl_inv · so3_Jl = 1` (closed-form branches) -/
theorem so3JlInv_mul_so3Jl (eps : ℝ) (x : Vec3 ℝ) (h : eps < x.norm) (h0 : 0 ≤ eps) (hs : Real.sin (1/2 * x.norm) ≠ 0) :
    (so3JlInv eps x).mul (so3Jl eps x) = Mat3.one := by
  rw [← so3Jl_mul_so3JlInv eps x h h0 hs]
  simp only [so3Jl, so3JlInv]
  exact polyK_comm _ _ _ _ _ _ x

/-- block form of a 6×6 upper-triangular matrix-vector product -/
theorem block_mulVec (A B D : Mat3 ℝ) (e0 e1 e2 f0 f1 f2 : ℝ) :
    (DMat.block A.toRows B.toRows (DMat.zero 3 3) D.toRows).mulVec [e0, e1, e2, f0, f1, f2]
      = ((A.mulVec ⟨e0, e1, e2⟩).add (B.mulVec ⟨f0, f1, f2⟩)).toList ++ (D.mulVec ⟨f0, f1, f2⟩).toList := by
  simp [Mat3.toRows, Vec3.toList, DMat.block, DMat.hcat, DMat.vcat, DMat.zero, DVec.zero, DMat.mulVec, ddot_cons]
  lie_unfold
  refine ⟨?_, ?_, ?_, ?_, ?_, ?_⟩ <;> ring

/-- closed form of `so3_Jl_inv` -/
theorem so3JlInv_closed (eps : ℝ) (y : Vec3 ℝ) (h : eps < y.norm) :
    so3JlInv eps y = polyK 1 (-(1/2)) ((1 - y.norm * Real.cos (1/2 * y.norm) / (2 * Real.sin (1/2 * y.norm))) / (y.norm * y.norm)) y := by
  unfold so3JlInv so3JlInvCoef
  simp only [lt_real, h, decide_true, if_true, q_real, k_real, Nat.cast_one, Nat.cast_ofNat, cos_real, sin_real]

/-- `t ↦ so3_Jl_inv(p(t))·x(t)` is differentiable at `0` (closed-form branch) -/
theorem jlinv_mulVec_differentiable (eps : ℝ) (heps : 0 ≤ eps) (p0 p1 p2 x0 x1 x2 : ℝ → ℝ)
    (dp0 : DifferentiableAt ℝ p0 0) (dp1 : DifferentiableAt ℝ p1 0) (dp2 : DifferentiableAt ℝ p2 0)
    (dx0 : DifferentiableAt ℝ x0 0) (dx1 : DifferentiableAt ℝ x1 0) (dx2 : DifferentiableAt ℝ x2 0)
    (hth : eps < (⟨p0 0, p1 0, p2 0⟩ : Vec3 ℝ).norm) (hs : Real.sin (1/2 * (⟨p0 0, p1 0, p2 0⟩ : Vec3 ℝ).norm) ≠ 0) :
    ∀ i, i < 3 → DifferentiableAt ℝ (fun t => nth ((so3JlInv eps ⟨p0 t, p1 t, p2 t⟩).mulVec ⟨x0 t, x1 t, x2 t⟩).toList i) 0 := by
  have hn : ∀ t, (⟨p0 t, p1 t, p2 t⟩ : Vec3 ℝ).norm = Real.sqrt (p0 t * p0 t + p1 t * p1 t + p2 t * p2 t) := by
    intro t; simp [Vec3.norm, Vec3.normSq]
  rw [hn] at hth hs
  have hpos : 0 < p0 0 * p0 0 + p1 0 * p1 0 + p2 0 * p2 0 := by
    by_contra hc
    have : Real.sqrt (p0 0 * p0 0 + p1 0 * p1 0 + p2 0 * p2 0) = 0 := Real.sqrt_eq_zero'.mpr (not_lt.mp hc)
    rw [this] at hth; exact absurd hth (not_lt.mpr heps)
  have hne : p0 0 * p0 0 + p1 0 * p1 0 + p2 0 * p2 0 ≠ 0 := ne_of_gt hpos
  have hsq : Real.sqrt (p0 0 * p0 0 + p1 0 * p1 0 + p2 0 * p2 0) ≠ 0 := by
    intro h; rw [h] at hth; exact absurd hth (not_lt.mpr heps)
  have hsq2 : Real.sqrt (p0 0 * p0 0 + p1 0 * p1 0 + p2 0 * p2 0) * Real.sqrt (p0 0 * p0 0 + p1 0 * p1 0 + p2 0 * p2 0) ≠ 0 :=
    mul_ne_zero hsq hsq
  have hs2 : 2 * Real.sin (1/2 * Real.sqrt (p0 0 * p0 0 + p1 0 * p1 0 + p2 0 * p2 0)) ≠ 0 := mul_ne_zero (by norm_num) hs
  have hNc : ContinuousAt (fun t => Real.sqrt (p0 t * p0 t + p1 t * p1 t + p2 t * p2 t)) 0 :=
    (((dp0.continuousAt.mul dp0.continuousAt).add (dp1.continuousAt.mul dp1.continuousAt)).add (dp2.continuousAt.mul dp2.continuousAt)).sqrt
  have hev : ∀ᶠ t in nhds (0:ℝ), eps < (⟨p0 t, p1 t, p2 t⟩ : Vec3 ℝ).norm := by
    have := hNc.eventually (lt_mem_nhds hth)
    filter_upwards [this] with t ht
    rw [hn]; exact ht
  intro i hi
  have hcl : (fun t => nth ((so3JlInv eps ⟨p0 t, p1 t, p2 t⟩).mulVec ⟨x0 t, x1 t, x2 t⟩).toList i) =ᶠ[nhds 0]
      (fun t => nth ((polyK 1 (-(1/2)) ((1 - Real.sqrt (p0 t * p0 t + p1 t * p1 t + p2 t * p2 t) *
        Real.cos (1/2 * Real.sqrt (p0 t * p0 t + p1 t * p1 t + p2 t * p2 t)) /
        (2 * Real.sin (1/2 * Real.sqrt (p0 t * p0 t + p1 t * p1 t + p2 t * p2 t)))) /
        (Real.sqrt (p0 t * p0 t + p1 t * p1 t + p2 t * p2 t) * Real.sqrt (p0 t * p0 t + p1 t * p1 t + p2 t * p2 t)))
        ⟨p0 t, p1 t, p2 t⟩).mulVec ⟨x0 t, x1 t, x2 t⟩).toList i) := by
    filter_upwards [hev] with t ht
    rw [so3JlInv_closed eps _ ht, hn]
  refine DifferentiableAt.congr_of_eventuallyEq ?_ hcl
  interval_cases i
  all_goals
    simp only [polyK, Vec3.toList, nth_cons_zero, nth_cons_succ]
    lie_unfold
    fun_prop (disch := assumption)

theorem toRows_mulVec (A : Mat3 ℝ) (a b c : ℝ) : DMat.mulVec A.toRows [a, b, c] = (A.mulVec ⟨a, b, c⟩).toList := by
  simp [Mat3.toRows, Vec3.toList, DMat.mulVec, ddot_cons, Mat3.mulVec, Vec3.dot]
  refine ⟨?_, ?_, ?_⟩ <;> ring

/-- **`SE3_Log.backward` is the true derivative** (closed-form regime: `SO3_Log` regime 1, `θ > eps`, `θ > 0.05` so that `calcQ` is
in closed form, `sin(θ/2) ≠ 0`), for every translation. -/
theorem SE3Log_tangent (eps : ℝ) (heps : 0 ≤ eps) (X : ℝ → DVec ℝ) (a0 a1 a2 a3 a4 a5 : ℝ)
    (hX : LCurve 7 X (liftG .SE3 (X 0) [a0, a1, a2, a3, a4, a5])) (hu : (qt (X 0) 3).normSq = 1)
    (hv : eps < (qt (X 0) 3).vec.norm) (hw : eps < |(qt (X 0) 3).w|)
    (hφ : eps < (v3 (logF .SE3 eps (X 0)) 3).norm) (hq : (5:ℝ)/100 < (v3 (logF .SE3 eps (X 0)) 3).norm)
    (hs : Real.sin (1/2 * (v3 (logF .SE3 eps (X 0)) 3).norm) ≠ 0) :
    LCurve 6 (fun t => logF .SE3 eps (X t))
      ((JlInvMat .SE3 eps (logF .SE3 eps (X 0))).mulVec [a0, a1, a2, a3, a4, a5]) := by
  -- rotation part
  let Qc : ℝ → DVec ℝ := fun t => [nth (X t) 3, nth (X t) 4, nth (X t) 5, nth (X t) 6]
  have hQ : LCurve 4 Qc (liftG .SO3 (Qc 0) [a3, a4, a5]) := by
    intro j hj
    have := hX (3 + j) (by omega)
    interval_cases j <;>
      simpa [Qc, liftG, liftQ, qt, v3, Quat.toList, Vec3.toList] using this
  have eq : ∀ t, qt (Qc t) = qt (X t) 3 := by intro t; simp [Qc, qt]
  let φ : ℝ → Vec3 ℝ := fun t => SO3Log eps (qt (X t) 3)
  have eφ : ∀ t, logF .SO3 eps (Qc t) = (φ t).toList := by intro t; simp only [logF, eq, φ]
  have hsplit : ∀ t, logF .SE3 eps (X t) = ((so3JlInv eps (φ t)).mulVec (v3 (X t))).toList ++ (φ t).toList := by
    intro t; simp [logF, SE3Log, toSE3, se3.toList, φ]
  have hφ0 : v3 (logF .SE3 eps (X 0)) 3 = φ 0 := by
    rw [hsplit 0]; simp [v3, Vec3.toList]
  rw [hφ0] at hφ hq hs
  have hrot := SO3Log_tangent eps heps Qc a3 a4 a5 hQ (by rw [eq]; exact hu) (by rw [eq]; exact hv) (by rw [eq]; exact hw)
    (by rw [eφ]; simpa [v3, Vec3.toList] using hφ)
  rw [eφ 0] at hrot
  simp only [JlInvMat, toRows_mulVec] at hrot
  have hv3 : v3 (φ 0).toList = φ 0 := by simp [v3, Vec3.toList]
  rw [hv3] at hrot
  set Ji := so3JlInv eps (φ 0) with hJi
  set J := so3Jl eps (φ 0) with hJ
  set ψ : Vec3 ℝ := ⟨a3, a4, a5⟩ with hψ
  set ρ : Vec3 ℝ := ⟨a0, a1, a2⟩ with hρ
  set f := Ji.mulVec ψ with hf
  have hJJi : J.mul Ji = Mat3.one := so3Jl_mul_so3JlInv eps (φ 0) hφ heps hs
  have hJiJ : Ji.mul J = Mat3.one := so3JlInv_mul_so3Jl eps (φ 0) hφ heps hs
  have p0 : HasDerivAt (fun t => (φ t).x) f.x 0 := by
    have := hrot 0 (by norm_num); simpa [eφ, Vec3.toList] using this
  have p1 : HasDerivAt (fun t => (φ t).y) f.y 0 := by
    have := hrot 1 (by norm_num); simpa [eφ, Vec3.toList] using this
  have p2 : HasDerivAt (fun t => (φ t).z) f.z 0 := by
    have := hrot 2 (by norm_num); simpa [eφ, Vec3.toList] using this
  have h0 := hX 0 (by norm_num); have h1 := hX 1 (by norm_num); have h2 := hX 2 (by norm_num)
  have hD := jlinv_mulVec_differentiable eps heps (fun t => (φ t).x) (fun t => (φ t).y) (fun t => (φ t).z)
    (fun t => nth (X t) 0) (fun t => nth (X t) 1) (fun t => nth (X t) 2)
    p0.differentiableAt p1.differentiableAt p2.differentiableAt h0.differentiableAt h1.differentiableAt h2.differentiableAt
    hφ hs
  have hτeq : ∀ t, (⟨(φ t).x, (φ t).y, (φ t).z⟩ : Vec3 ℝ) = φ t := fun t => rfl
  have hxeq : ∀ t, (⟨nth (X t) 0, nth (X t) 1, nth (X t) 2⟩ : Vec3 ℝ) = v3 (X t) := fun t => by simp [v3]
  simp only [hτeq, hxeq] at hD
  set e0 := deriv (fun t => nth ((so3JlInv eps (φ t)).mulVec (v3 (X t))).toList 0) 0 with he0
  set e1 := deriv (fun t => nth ((so3JlInv eps (φ t)).mulVec (v3 (X t))).toList 1) 0 with he1
  set e2 := deriv (fun t => nth ((so3JlInv eps (φ t)).mulVec (v3 (X t))).toList 2) 0 with he2
  have t0 := (hD 0 (by norm_num)).hasDerivAt
  have t1 := (hD 1 (by norm_num)).hasDerivAt
  have t2 := (hD 2 (by norm_num)).hasDerivAt
  rw [← he0] at t0; rw [← he1] at t1; rw [← he2] at t2
  have hy : LCurve 6 (fun t => logF .SE3 eps (X t)) [e0, e1, e2, f.x, f.y, f.z] := by
    intro i hi
    simp only [hsplit]
    interval_cases i
    · simpa [Vec3.toList] using t0
    · simpa [Vec3.toList] using t1
    · simpa [Vec3.toList] using t2
    · simpa [Vec3.toList] using p0
    · simpa [Vec3.toList] using p1
    · simpa [Vec3.toList] using p2
  have htr := se3Exp_tangent_trans eps heps (fun t => logF .SE3 eps (X t)) e0 e1 e2 f.x f.y f.z hy
    (by show eps < (v3 (logF .SE3 eps (X 0)) 3).norm; rw [hφ0]; exact hφ)
    (by show (5:ℝ)/100 < (v3 (logF .SE3 eps (X 0)) 3).norm; rw [hφ0]; exact hq)
  -- eventually `Exp (Log X)` has the translation of `X`
  have hn : ∀ t, (φ t).norm = Real.sqrt ((φ t).x * (φ t).x + (φ t).y * (φ t).y + (φ t).z * (φ t).z) := by
    intro t; simp [Vec3.norm, Vec3.normSq]
  have hNc : ContinuousAt (fun t => (φ t).norm) 0 := by
    simp only [hn]
    exact (((p0.continuousAt.mul p0.continuousAt).add (p1.continuousAt.mul p1.continuousAt)).add (p2.continuousAt.mul p2.continuousAt)).sqrt
  have hev : ∀ᶠ t in nhds (0:ℝ), eps < (φ t).norm ∧ Real.sin (1/2 * (φ t).norm) ≠ 0 := by
    have e1 := hNc.eventually (lt_mem_nhds hφ)
    have hc : ContinuousAt (fun t => Real.sin (1/2 * (φ t).norm)) 0 :=
      Real.continuous_sin.continuousAt.comp (continuousAt_const.mul hNc)
    have e2 := hc.eventually_ne hs
    filter_upwards [e1, e2] with t h1 h2
    exact ⟨h1, h2⟩
  have hexp : ∀ t, eps < (φ t).norm → Real.sin (1/2 * (φ t).norm) ≠ 0 → ∀ i, i < 3 →
      nth (expF .SE3 eps (logF .SE3 eps (X t))) i = nth (X t) i := by
    intro t h1 h2 i hi
    have hJJ := so3Jl_mul_so3JlInv eps (φ t) h1 heps h2
    have : (so3Jl eps (φ t)).mulVec ((so3JlInv eps (φ t)).mulVec (v3 (X t))) = v3 (X t) := by
      rw [← mulVec_mul3, hJJ, one_mulVec3]
    have e : expF .SE3 eps (logF .SE3 eps (X t)) = (v3 (X t)).toList ++ (so3Exp eps (φ t)).toList := by
      rw [hsplit t]
      simp only [expF, se3Exp, SE3.toList, tose3]
      have a1 : v3 (((so3JlInv eps (φ t)).mulVec (v3 (X t))).toList ++ (φ t).toList) = (so3JlInv eps (φ t)).mulVec (v3 (X t)) := by
        simp [v3, Vec3.toList]
      have a2 : v3 (((so3JlInv eps (φ t)).mulVec (v3 (X t))).toList ++ (φ t).toList) 3 = φ t := by
        simp [v3, Vec3.toList]
      rw [a1, a2, this]
    rw [e]
    interval_cases i <;> simp [v3, Vec3.toList]
  have huniq : ∀ i, i < 3 → nth (liftG .SE3 (X 0) [a0, a1, a2, a3, a4, a5]) i
      = nth (liftG .SE3 (expF .SE3 eps (logF .SE3 eps (X 0)))
          ((JlMat .SE3 eps (logF .SE3 eps (X 0))).mulVec [e0, e1, e2, f.x, f.y, f.z])) i := by
    intro i hi
    have ha := hX i (by omega)
    have hb := htr i hi
    have hb' : HasDerivAt (fun t => nth (X t) i) (nth (liftG .SE3 (expF .SE3 eps (logF .SE3 eps (X 0)))
          ((JlMat .SE3 eps (logF .SE3 eps (X 0))).mulVec [e0, e1, e2, f.x, f.y, f.z])) i) 0 := by
      refine hb.congr_of_eventuallyEq ?_
      filter_upwards [hev] with t ht
      exact (hexp t ht.1 ht.2 i hi).symm
    exact ha.unique hb'
  -- algebra: `ρ + ψ×t = J e + Q f + (J f)×t`, `J f = ψ`
  set Q := calcQ eps (tose3 (logF .SE3 eps (X 0))) with hQd
  have hph : (tose3 (logF .SE3 eps (X 0))).phi = φ 0 := by simp only [tose3]; exact hφ0
  have hm : (JlMat .SE3 eps (logF .SE3 eps (X 0))).mulVec [e0, e1, e2, f.x, f.y, f.z]
      = ((J.mulVec ⟨e0, e1, e2⟩).add (Q.mulVec f)).toList ++ (J.mulVec f).toList := by
    simp only [JlMat, se3Jl, hph, ← hJ, ← hQd]
    exact block_mulVec J Q J e0 e1 e2 f.x f.y f.z
  have hJf : J.mulVec f = ψ := by rw [hf, ← mulVec_mul3, hJJi, one_mulVec3]
  have hXt : v3 (expF .SE3 eps (logF .SE3 eps (X 0))) = v3 (X 0) := by
    simp only [v3, Nat.zero_add, hexp 0 hφ hs 0 (by norm_num), hexp 0 hφ hs 1 (by norm_num), hexp 0 hφ hs 2 (by norm_num)]
  have hhead : ∀ (Y τ : DVec ℝ) i, i < 3 → nth (liftG .SE3 Y τ) i = nth ((v3 τ).add ((v3 τ 3).cross (v3 Y))).toList i := by
    intro Y τ i hi
    interval_cases i <;> simp [liftG, Vec3.toList]
  have hE : J.mulVec ⟨e0, e1, e2⟩ = ρ.sub (Q.mulVec f) := by
    have k0 := huniq 0 (by norm_num); have k1 := huniq 1 (by norm_num); have k2 := huniq 2 (by norm_num)
    rw [hhead _ _ _ (by norm_num), hhead _ _ _ (by norm_num), hXt, hm] at k0 k1 k2
    have b1 : v3 (((J.mulVec ⟨e0, e1, e2⟩).add (Q.mulVec f)).toList ++ (J.mulVec f).toList) = (J.mulVec ⟨e0, e1, e2⟩).add (Q.mulVec f) := by
      simp [v3, Vec3.toList]
    have b2 : v3 (((J.mulVec ⟨e0, e1, e2⟩).add (Q.mulVec f)).toList ++ (J.mulVec f).toList) 3 = ψ := by
      rw [← hJf]; simp [v3, Vec3.toList]
    have c1 : v3 [a0, a1, a2, a3, a4, a5] = ρ := by simp [v3, hρ]
    have c2 : v3 [a0, a1, a2, a3, a4, a5] 3 = ψ := by simp [v3, hψ]
    rw [b1, b2, c1, c2] at k0 k1 k2
    simp only [Vec3.toList, Vec3.add, nth_cons_zero, nth_cons_succ] at k0 k1 k2
    apply Vec3.ext' <;> simp only [Vec3.sub] <;> linarith
  have hE2 : (⟨e0, e1, e2⟩ : Vec3 ℝ) = (Ji.mulVec ρ).add ((((Ji.mul Q).mul Ji).neg).mulVec ψ) := by
    have : (⟨e0, e1, e2⟩ : Vec3 ℝ) = Ji.mulVec (J.mulVec ⟨e0, e1, e2⟩) := by rw [← mulVec_mul3, hJiJ, one_mulVec3]
    rw [this, hE, mulVec_sub3, neg_mulVec3, mulVec_mul3, mulVec_mul3, ← hf]
    apply Vec3.ext' <;> simp only [Vec3.sub, Vec3.add, Vec3.neg] <;> ring
  have hfin : (JlInvMat .SE3 eps (logF .SE3 eps (X 0))).mulVec [a0, a1, a2, a3, a4, a5] = [e0, e1, e2, f.x, f.y, f.z] := by
    simp only [JlInvMat, se3JlInv, hph, ← hJi, ← hQd]
    rw [block_mulVec Ji (((Ji.mul Q).mul Ji).neg) Ji a0 a1 a2 a3 a4 a5, ← hρ, ← hψ, ← hE2, ← hf]
    simp [Vec3.toList]
  rw [hfin]
  exact hy

end PP.AD
