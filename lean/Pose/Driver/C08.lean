import Pose.Wire
/-! Driver ops for C08. -/
namespace PP.Driver
open PP Wire

def opsC08 : List (String × Handler) := []

end PP.Driver
