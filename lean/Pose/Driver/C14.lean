import Pose.Wire
import Pose.Model.Lqr
/-!
Driver ops for C14 (LQR / MPC).

The Cholesky solve of the code is a *contract parameter* of the model (`Lqr.Solver`).  The stand-in used here
(`cholSolver`: Cholesky factorisation + two triangular solves over `BigF`) is re-checked on every stage:
`Quu` must have a positive Cholesky diagonal and `Quu·K + Qux = 0`, `Quu·k + qu = 0` to 2⁻¹²⁰ relative;
otherwise the reply is `err contract:…` (the harness turns that into exit 2, never a verdict).
-/
namespace PP.Driver
open PP Wire Lqr

abbrev F := BigF

/-! ### stand-in solver -/

def aget (a : Array F) (i : Nat) : F := a.getD i BigF.zero
def aget2 (a : Array (Array F)) (i j : Nat) : F := aget (a.getD i #[]) j

/-- lower Cholesky factor, `none` when a pivot is not positive -/
def cholArr {n : Nat} (M : Mat F n n) : Option (Array (Array F)) := Id.run do
  let mut L : Array (Array F) := Array.replicate n (Array.replicate n BigF.zero)
  for hi : i in [0:n] do
    for hj : j in [0:i+1] do
      have hi' : i < n := hi.2.1
      have hj' : j < n := Nat.lt_of_lt_of_le hj.2.1 (Nat.succ_le_of_lt hi')
      let mut s := M[i][j]
      for l in [0:j] do
        s := BigF.sub s (BigF.mul (aget2 L i l) (aget2 L j l))
      if i == j then
        if s.m ≤ 0 then return none
        L := L.set! i ((L.getD i #[]).set! j (BigF.sqrt s))
      else
        L := L.set! i ((L.getD i #[]).set! j (BigF.div s (aget2 L j j)))
  return some L

/-- solve `L Lᵀ x = b` -/
def cholSolveArr (n : Nat) (L : Array (Array F)) (b : Array F) : Array F := Id.run do
  let mut y : Array F := Array.replicate n BigF.zero
  for i in [0:n] do
    let mut s := aget b i
    for l in [0:i] do
      s := BigF.sub s (BigF.mul (aget2 L i l) (aget y l))
    y := y.set! i (BigF.div s (aget2 L i i))
  let mut x : Array F := Array.replicate n BigF.zero
  for i' in [0:n] do
    let i := n - 1 - i'
    let mut s := aget y i
    for l in [i+1:n] do
      s := BigF.sub s (BigF.mul (aget2 L l i) (aget x l))
    x := x.set! i (BigF.div s (aget2 L i i))
  return x

def cholSolver (ns nc : Nat) : Solver F ns nc where
  accepts := fun M => (cholArr M).isSome
  solveV := fun M y =>
    match cholArr M with
    | none => vzero
    | some L => let x := cholSolveArr nc L y.toArray; vec fun i => aget x i.val
  solveM := fun M Y =>
    match cholArr M with
    | none => mzero
    | some L =>
      let cols : Array (Array F) := Array.ofFn fun (j : Fin ns) => cholSolveArr nc L (Array.ofFn fun (i : Fin nc) => Y[i][j])
      mat fun i j => aget (cols.getD j.val #[]) i.val

def maxAbs (xs : List F) : F := xs.foldl (fun a x => if BigF.lt a (BigF.abs x) then BigF.abs x else a) BigF.zero

def flatV {n : Nat} (v : Vec F n) : List F := v.toList
def flatM {m n : Nat} (M : Mat F m n) : List F := (M.toList.map fun r => r.toList).flatten

/-- re-check of the solver contract on one stage -/
def checkGain {ns nc : Nat} (g : Gain F ns nc) : Except String Unit := do
  match cholArr g.Quu with
  | none => throw "contract:not-pd"
  | some _ => pure ()
  -- `torch.linalg.cholesky` reads only the LOWER triangle: for a (nearly) non-symmetric `Quu` the kernel factorises the matrix
  -- mirrored from its lower triangle; the contract is re-checked against that matrix (identical for symmetric input)
  let Ms : Mat F nc nc := mat fun i j => if j.val ≤ i.val then g.Quu[i][j] else g.Quu[j][i]
  let r1 := flatM (madd (mmul Ms g.K) g.Qux)
  let r2 := flatV (vadd (mulVec Ms g.k) g.qu)
  let tiny : F := ⟨1, -120⟩
  let sc1 := BigF.add (maxAbs (flatM g.Qux)) (BigF.mul (BigF.ofNat (nc+1)) (BigF.mul (maxAbs (flatM g.Quu)) (maxAbs (flatM g.K))))
  let sc2 := BigF.add (maxAbs (flatV g.qu)) (BigF.mul (BigF.ofNat (nc+1)) (BigF.mul (maxAbs (flatM g.Quu)) (maxAbs (flatV g.k))))
  if BigF.lt (BigF.mul tiny sc1) (maxAbs r1) then throw "contract:solveM-residual"
  if BigF.lt (BigF.mul tiny sc2) (maxAbs r2) then throw "contract:solveV-residual"

/-! ### reading tensors off the wire -/

def vecAt (a : Array F) (off n : Nat) : Vec F n := vec fun i => aget a (off + i.val)
def matAt (a : Array F) (off m n : Nat) : Mat F m n := mat fun i j => aget a (off + i.val * n + j.val)

structure LinData (ns nc : Nat) where
  x0 : Vec F ns
  S : Sys F ns nc
  P : Prob F ns nc
  ubar : Option (List (Vec F nc))
  used : Nat

/-- layout: x0 | per system slot l<max(L,1): A B c | per t<T: Q p | (hasU) per t<T: ubar ; `L = 0`: time-invariant -/
def readLinear (ns nc T L hasU : Nat) (a : Array F) (off0 : Nat) : LinData ns nc :=
  let slots := if L == 0 then 1 else L
  let szS := ns*ns + ns*nc + ns
  let offS := off0 + ns
  let idx := fun (t : Nat) => if L == 0 then 0 else t
  -- a slot past the end reads zeros (the code would raise IndexError; a correct solve never gets there)
  let A := fun t => matAt a (if idx t < slots then offS + idx t * szS else a.size) ns ns
  let B := fun t => matAt a (if idx t < slots then offS + idx t * szS + ns*ns else a.size) ns nc
  let c := fun t => vecAt a (if idx t < slots then offS + idx t * szS + ns*ns + ns*nc else a.size) ns
  let n := ns + nc
  let offQ := offS + slots * szS
  let szQ := n*n + n
  let Q := fun t => matAt a (offQ + t * szQ) n n
  let p := fun t => vecAt a (offQ + t * szQ + n*n) n
  let offU := offQ + T * szQ
  let ub : Option (List (Vec F nc)) :=
    if hasU == 1 then some ((List.range T).map fun t => vecAt a (offU + t*nc) nc) else none
  ⟨vecAt a off0 ns, Sys.linear A B c, ⟨T, Q, p⟩, ub, offU + (if hasU == 1 then T*nc else 0)⟩

/-- the call as the user spells it: layout  x0 | per system slot l<max(L,1): A B [c if hasC] | Q once or T times |
p once or T times | (hasU) per t<T: ubar.  `Q`/`p` given once are tiled by the MODEL (`Prob.ofArgs`), a missing `c1` is the
`None` branch of `Sys.linearOpt`, a missing `u_traj` the `None` branch of `nomOf`. -/
def readLinearX (ns nc T L hasU qonce ponce hasC : Nat) (a : Array F) (off0 : Nat) : LinData ns nc :=
  let slots := if L == 0 then 1 else L
  let szS := ns*ns + ns*nc + (if hasC == 1 then ns else 0)
  let offS := off0 + ns
  let idx := fun (t : Nat) => if L == 0 then 0 else t
  let A := fun t => matAt a (if idx t < slots then offS + idx t * szS else a.size) ns ns
  let B := fun t => matAt a (if idx t < slots then offS + idx t * szS + ns*ns else a.size) ns nc
  let c : Option (Nat → Vec F ns) :=
    if hasC == 1 then some fun t => vecAt a (if idx t < slots then offS + idx t * szS + ns*ns + ns*nc else a.size) ns else none
  let n := ns + nc
  let offQ := offS + slots * szS
  let nQ := if qonce == 1 then 1 else T
  let Q : PerStep (Mat F n n) := if qonce == 1 then .once (matAt a offQ n n) else .each fun t => matAt a (offQ + t * (n*n)) n n
  let offP := offQ + nQ * (n*n)
  let nP := if ponce == 1 then 1 else T
  let p : PerStep (Vec F n) := if ponce == 1 then .once (vecAt a offP n) else .each fun t => vecAt a (offP + t * n) n
  let offU := offP + nP * n
  -- hasU: 0 = `u_traj=None`, 1 = a nominal of T steps, 2+m = a nominal of m steps (the wrong-length error branch)
  let nU := if hasU == 0 then 0 else if hasU == 1 then T else hasU - 2
  let ub : Option (List (Vec F nc)) :=
    if hasU == 0 then none else some ((List.range nU).map fun t => vecAt a (offU + t*nc) nc)
  ⟨vecAt a off0 ns, Sys.linearOpt A B c, Prob.ofArgs T Q p, ub, offU + nU*nc⟩

/-- layout: x0 | A B c a phi W R | per t<T: Q p | (hasU) per t<T: ubar -/
def readSin (ns nc T hasU : Nat) (a : Array F) (off0 : Nat) : LinData ns nc :=
  let o1 := off0 + ns
  let oB := o1 + ns*ns
  let oc := oB + ns*nc
  let oa := oc + ns
  let ophi := oa + ns
  let oW := ophi + ns
  let oR := oW + ns*ns
  let n := ns + nc
  let offQ := oR + ns*nc
  let szQ := n*n + n
  let Q := fun t => matAt a (offQ + t * szQ) n n
  let p := fun t => vecAt a (offQ + t * szQ + n*n) n
  let offU := offQ + T * szQ
  let ub : Option (List (Vec F nc)) :=
    if hasU == 1 then some ((List.range T).map fun t => vecAt a (offU + t*nc) nc) else none
  ⟨vecAt a off0 ns, Sys.sinSys (matAt a o1 ns ns) (matAt a oB ns nc) (vecAt a oc ns) (vecAt a oa ns) (vecAt a ophi ns)
      (matAt a oW ns ns) (matAt a oR ns nc), ⟨T, Q, p⟩, ub, offU + (if hasU == 1 then T*nc else 0)⟩

def fmtOut {ns nc : Nat} (o : Out F ns nc) (withGains : Bool) : Except String (List F) := do
  o.gains.forM checkGain
  let base := (o.x.map flatV).flatten ++ (o.u.map flatV).flatten ++ [o.cost]
  if withGains then
    return base ++ (o.gains.map fun g => flatM g.K).flatten ++ (o.gains.map fun g => flatV g.k).flatten
  else return base

def opsC14 : List (String × Handler) := [
  -- c14.lqr ns nc T dt L hasU nums…  → x (T+1)·ns | u T·nc | cost | K T·nc·ns | k T·nc
  ("c14.lqr", fun ts => do
      match ts with
      | ns :: nc :: T :: dt :: L :: hasU :: rest =>
        let ns ← nat ns; let nc ← nat nc; let T ← nat T; let dt ← nat dt; let L ← nat L; let hasU ← nat hasU
        let a := (← nums rest).toArray
        let d := readLinear ns nc T L hasU a 0
        if d.used ≠ a.size then throw s!"arity:{a.size}≠{d.used}"
        let o := lqr (cholSolver ns nc) d.S d.P dt d.x0 (nomOf d.ubar)
        return fmt (← fmtOut o true)
      | _ => throw "arity"),
  -- c14.lqrx ns nc T dt L hasU qonce ponce hasC nums…  → as c14.lqr, arguments as the user gives them (tiling, None branches in the model)
  ("c14.lqrx", fun ts => do
      match ts with
      | ns :: nc :: T :: dt :: L :: hasU :: qonce :: ponce :: hasC :: rest =>
        let ns ← nat ns; let nc ← nat nc; let T ← nat T; let dt ← nat dt; let L ← nat L; let hasU ← nat hasU
        let qonce ← nat qonce; let ponce ← nat ponce; let hasC ← nat hasC
        let a := (← nums rest).toArray
        let d := readLinearX ns nc T L hasU qonce ponce hasC a 0
        if d.used ≠ a.size then throw s!"arity:{a.size}≠{d.used}"
        match lqrChecked (cholSolver ns nc) d.S d.P dt d.x0 d.ubar with
        | .ok o => return fmt (← fmtOut o true)
        | .error .nominalLength => throw "raises:nominal-length"
        | .error .notPD => throw "raises:not-pd"
      | _ => throw "arity"),
  -- c14.mpcx kind ns nc T L hasU given steps patience pc0 qonce ponce hasC | decreasing tol | system nums…
  --   given = 0: `stepper=None` (the model's `Stepper.default`); `MPC.__init__` = the model's `mpcInit`
  ("c14.mpcx", fun ts => do
      match ts with
      | kind :: ns :: nc :: T :: L :: hasU :: given :: steps :: pat :: pc0 :: qonce :: ponce :: hasC :: rest =>
        let kind ← nat kind; let ns ← nat ns; let nc ← nat nc; let T ← nat T; let L ← nat L; let hasU ← nat hasU
        let given ← nat given; let steps ← int steps; let pat ← nat pat; let pc0 ← nat pc0
        let qonce ← nat qonce; let ponce ← nat ponce; let hasC ← nat hasC
        let a := (← nums rest).toArray
        let d := if kind == 0 then readLinearX ns nc T L hasU qonce ponce hasC a 2 else readSin ns nc T hasU a 2
        if d.used ≠ a.size then throw s!"arity:{a.size}≠{d.used}"
        let arg : Option (Stepper F) :=
          if given == 1 then some { (Stepper.new steps pat (aget a 0) (aget a 1) : Stepper F) with patienceCount := pc0 } else none
        let st := mpcInit arg
        let fuel := st.maxSteps.toNat + 2
        let r := mpc (cholSolver ns nc) d.S d.P 1 d.x0 fuel st d.ubar
        let body ← fmtOut r.1 false
        return s!"{r.2.2} {r.2.1.patienceCount} {r.2.1.maxSteps} " ++ fmt body
      | _ => throw "arity"),
  -- c14.nls ns nc T hasU nums…  (sin system) → same reply
  ("c14.nls", fun ts => do
      match ts with
      | ns :: nc :: T :: hasU :: rest =>
        let ns ← nat ns; let nc ← nat nc; let T ← nat T; let hasU ← nat hasU
        let a := (← nums rest).toArray
        let d := readSin ns nc T hasU a 0
        if d.used ≠ a.size then throw s!"arity:{a.size}≠{d.used}"
        let o := lqr (cholSolver ns nc) d.S d.P 1 d.x0 (nomOf d.ubar)
        return fmt (← fmtOut o true)
      | _ => throw "arity"),
  -- c14.mpc kind(0 linear,1 sin) ns nc T L hasU steps patience pc0 | decreasing tol | system nums…
  --   → "<iterations> <patience_count after>" then x | u | cost   (MPC.__init__ does max_steps -= 1)
  ("c14.mpc", fun ts => do
      match ts with
      | kind :: ns :: nc :: T :: L :: hasU :: steps :: pat :: pc0 :: rest =>
        let kind ← nat kind; let ns ← nat ns; let nc ← nat nc; let T ← nat T; let L ← nat L; let hasU ← nat hasU
        let steps ← int steps; let pat ← nat pat; let pc0 ← nat pc0
        let a := (← nums rest).toArray
        let d := if kind == 0 then readLinear ns nc T L hasU a 2 else readSin ns nc T hasU a 2
        if d.used ≠ a.size then throw s!"arity:{a.size}≠{d.used}"
        let st : Stepper F := ⟨steps - 1, pat, aget a 0, aget a 1, none, 0, pc0, true⟩
        let fuel := (steps - 1).toNat + 2
        let r := mpc (cholSolver ns nc) d.S d.P 1 d.x0 fuel st d.ubar
        let body ← fmtOut r.1 false
        return s!"{r.2.2} {r.2.1.patienceCount} " ++ fmt body
      | _ => throw "arity"),
  -- c14.stepper steps patience pc0 | decreasing tol loss…  (reset(), then patience_count := pc0) → continual flags after each step (0/1), final patience_count
  ("c14.stepper", fun ts => do
      match ts with
      | steps :: pat :: pc0 :: rest =>
        let steps ← int steps; let pat ← nat pat; let pc0 ← nat pc0
        let a ← nums rest
        match a with
        | dec :: tol :: losses =>
          let st0 : Stepper F := { (⟨steps, pat, dec, tol, none, 0, 0, false⟩ : Stepper F).reset with patienceCount := pc0 }
          let (st, flags) := losses.foldl (fun (acc : Stepper F × List Nat) l =>
            let s := acc.1.step l; (s, acc.2 ++ [if s.continual then 1 else 0])) (st0, [])
          return fmtNats (flags ++ [st.patienceCount])
        | _ => throw "arity"
      | _ => throw "arity")
]

end PP.Driver
