/-!
# Model of `pypose/basics/ops.py`: `cumops_`, `cumops`, `cummul(_)`, `cumprod(_)`

A length-`L` sequence is an index function `Nat → α` (only indices `< L` matter).

`step` is one round of the doubling scan: `index_select` of the *old* tensor at `j-i` and `j`
happens before `index_copy_`, so every position reads the previous round's values.
`strides L` is the schedule `1, 2, 4, … < L` of the `while i < L: …; i *= 2` loop.
-/
namespace PP.Scan
variable {α : Type} (op : α → α → α)

/-- one round with stride `i` -/
def step (L i : Nat) (v : Nat → α) : Nat → α :=
  fun j => if i ≤ j ∧ j < L then op (v (j - i)) (v j) else v j

/-- strides `p, 2p, 4p, …` while `< L` (fuel-bounded; `fuel = L` always suffices) -/
def stridesFrom (L : Nat) : Nat → Nat → List Nat
  | 0, _ => []
  | fuel+1, i => if i < L then i :: stridesFrom L fuel (2*i) else []

/-- the schedule of `cumops_` for length `L` -/
def strides (L : Nat) : List Nat := stridesFrom L L 1

/-- `cumops_(input, dim, ops)` on one fibre along `dim` -/
def cumops (L : Nat) (v : Nat → α) : Nat → α :=
  (strides L).foldl (fun w i => step op L i w) v

/-- `cummul(left=True)` / `cumprod(left=True)`: `ops = λ a b. b ∘ a` -/
def cumopsLeft (L : Nat) (v : Nat → α) : Nat → α := cumops (fun a b => op b a) L v

/-- ordered fold of the `n+1` items `v a ∘ … ∘ v (a+n)` (right order: `x₁ ∘ x₂ ∘ … ∘ xᵢ`) -/
def seg (v : Nat → α) (a : Nat) : Nat → α
  | 0 => v a
  | n+1 => op (seg v a n) (v (a+n+1))

/-- ordered fold in left order: `xᵢ ∘ … ∘ x₂ ∘ x₁` -/
def segLeft (v : Nat → α) : Nat → α
  | 0 => v 0
  | n+1 => op (v (n+1)) (segLeft v n)

/-! ### executable variant on arrays (what the driver runs; `cumopsArr_eq` ties it to `cumops`) -/

def stepArr [Inhabited α] (L i : Nat) (a : Array α) : Array α :=
  Array.ofFn (n := L) fun j =>
    if i ≤ j.val then op (a.getD (j.val - i) default) (a.getD j.val default) else a.getD j.val default

def cumopsArr [Inhabited α] (xs : Array α) : Array α :=
  (strides xs.size).foldl (fun a i => stepArr op xs.size i a) xs

def runList [Inhabited α] (xs : List α) (left : Bool) : List α :=
  let o := if left then (fun a b => op b a) else op
  (cumopsArr o xs.toArray).toList

/-- A tensor of shape `(outer, L, inner)` flattened row-major; scanning `dim = 1` treats every
`(o, ·, i)` fibre independently. -/
def cumopsDim [Inhabited α] (outer L inner : Nat) (v : Nat → α) : Nat → α :=
  fun p =>
    let i := p % inner
    let j := (p / inner) % L
    let o := p / (inner * L)
    cumops op L (fun j' => v ((o * L + j') * inner + i)) j

/-! ### the public wrappers (`cummul(_)`, `cumprod(_)`, `cumops(_)`, also behind `LieType.cum*` / `LieTensor.cum*`)

`mul` is `*` and `mm` is `@` of the element type (for LieTensors both are the group product; for plain tensors
`*` is element-wise and `@` is the matrix product). `left` defaults to `True` in both wrappers. -/
inductive Api where
  | cummul | cumprod
deriving DecidableEq, Repr

/-- the `ops` lambda a wrapper hands to `cumops_` -/
def wrapperOp (mul mm : α → α → α) : Api → Bool → (α → α → α)
  | .cummul, true => fun a b => mul b a
  | .cummul, false => fun a b => mul a b
  | .cumprod, true => fun a b => mm b a
  | .cumprod, false => fun a b => mm a b

/-- `left=None` in the model = argument omitted = the documented default `True` -/
def resolveLeft : Option Bool → Bool
  | none => true
  | some b => b

/-- a wrapper call on one fibre -/
def wrapper (mul mm : α → α → α) (api : Api) (left : Option Bool) (L : Nat) (v : Nat → α) : Nat → α :=
  cumops (wrapperOp mul mm api (resolveLeft left)) L v

/-- executable: what the driver runs for a wrapper call on a list -/
def runApi [Inhabited α] (mul mm : α → α → α) (api : Api) (left : Option Bool) (xs : List α) : List α :=
  (cumopsArr (wrapperOp mul mm api (resolveLeft left)) xs.toArray).toList

end PP.Scan
