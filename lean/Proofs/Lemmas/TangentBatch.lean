import Proofs.Lemmas.Tangent
import Proofs.Lemmas.Batch
/-! C05: the batched dispatch `lieAdd` — the operand the spellings see and the item-level meaning of `retr` for the four groups. -/
set_option linter.unusedSimpArgs false
set_option linter.unusedVariables false
namespace PP.Batch
/-! The four statements below are C06's `broadcast_nil`, `broadcast_itemwise`, `add_itemwise`, `add_raises` (same proofs, from the Gen-free lemma
file `Proofs/Lemmas/Batch.lean`): `Proofs/Props/C06.lean` imports files regenerated from `/repo` on every C06 run, and C05 must not break when
they change. -/
namespace C05
/-- The broadcast of two scalar batches only: a scalar result forces both operands to be scalar batches
(this is when the code substitutes `shape = (1,)`). -/
theorem broadcast_nil {a b : Shape} (h : broadcastShapes a b = some []) : a = [] ∧ b = [] := by
  unfold broadcastShapes at h
  simp only at h
  have hl := bzip_length h
  rw [padTo_length (Nat.le_max_left _ _)] at hl
  have ha : a.length = 0 := by have := Nat.le_max_left a.length b.length; simp at hl; omega
  have hb : b.length = 0 := by have := Nat.le_max_right a.length b.length; simp at hl; omega
  exact ⟨List.eq_nil_of_length_eq_zero ha, List.eq_nil_of_length_eq_zero hb⟩

/-- **Broadcast = item by item.** For every pair of broadcastable lshapes (any rank including none, any
extents including 0), every item-level kernel `f` and every output multi-index `i`:
the op site returns lshape `broadcastShapes …`, and `out[i] = f (x[π₁ i]) (y[π₂ i])` with `π` the torch
broadcasting projections; the last extent is the kernel's `dOut` (the declared fall-back `dDecl` only when
the batch is empty). -/
theorem broadcast_itemwise {α β γ : Type} (f : α → β → γ) (dOut dDecl : Nat) (hd : 0 < dOut)
    (x : T α) (y : T β) (out : Shape) (h : broadcastShapes x.shape y.shape = some out) :
    ∃ r, binop f dOut dDecl x y = some r ∧ r.shape = out ∧
      r.last = (if numel out = 0 then dDecl else dOut) ∧
      ∀ i, inb out i → r.get i = f (x.get (proj x.shape i)) (y.get (proj y.shape i)) := by
  have hn : numel (if out = [] then [1] else out) = numel out := by
    by_cases ho : out = []
    · subst ho; simp [numel]
    · simp [ho]
  unfold binop broadcastInputs
  simp only [h, hn]
  by_cases h0 : numel out = 0
  · -- empty batch: `dim = dDecl`, `view(out_shape + (dDecl,))` of 0 scalars
    simp only [h0, Nat.zero_mul, ne_eq, not_true_eq_false, if_false, viewLast, if_true]
    refine ⟨_, rfl, rfl, rfl, ?_⟩
    intro i hi
    have := numel_pos_of_inb hi
    omega
  · have hne : numel out * dOut ≠ 0 := Nat.mul_ne_zero h0 (by omega)
    simp only [hne, ne_eq, not_false_eq_true, if_true, viewLast, h0, if_false, Nat.mul_mod_right]
    have hdiv : numel out * dOut / numel out = dOut := Nat.mul_div_cancel_left _ (by omega)
    refine ⟨_, rfl, rfl, by simp [hdiv], ?_⟩
    intro i hi
    simp only [Out.get, flatExpand]
    by_cases ho : out = []
    · subst ho
      obtain ⟨ha, hb⟩ := broadcast_nil h
      cases i with
      | nil => simp [ha, hb, proj, projEq, unravel, ravel]
      | cons _ _ => simp [inb] at hi
    · simp only [ho, if_false]
      rw [unravel_ravel' hi]

/-- `X.add(a)` / `X + a` for a group type equals the retraction applied item by item under broadcasting of
the two lshapes, and returns the broadcast lshape — for every broadcastable pair. -/
theorem add_itemwise {α β : Type} (retr : β → α → α) (d : Nat) (hd : 0 < d) (x : T α) (a : T β) (out : Shape)
    (h : broadcastShapes x.shape a.shape = some out) :
    ∃ r, addOp retr d x a = some r ∧ r.shape = out ∧ r.last = d ∧
      ∀ i, inb out i → r.get i = retr (a.get (proj a.shape i)) (x.get (proj x.shape i)) := by
  have h2 : broadcastShapes a.shape (expandClone x out).shape = some out := broadcastShapes_absorb h
  obtain ⟨r, hr, hs, hl, hv⟩ := broadcast_itemwise retr d d hd a (expandClone x out) out h2
  have hl' : r.last = d := by rw [hl]; split <;> rfl
  refine ⟨r, ?_, hs, hl', ?_⟩
  · unfold addOp
    simp only [h, hr, hs, hl', and_self, if_true]
  · intro i hi
    rw [hv i hi]
    congr 1
    show (expandClone x out).data (ravel out (proj out i)) = _
    rw [proj_self hi]
    simp only [expandClone, flatExpand]
    rw [unravel_ravel' hi]

theorem add_raises {α β : Type} (retr : β → α → α) (d : Nat) (x : T α) (a : T β)
    (h : broadcastShapes x.shape a.shape = none) : addOp retr d x a = none := by
  unfold addOp; simp [h]

end C05
end PP.Batch

namespace PP
open Batch Batch.C05

/-- the tangent operand as the dispatch sees it: `alpha * other` for the `add` family, the algebra element itself for `Retr` -/
noncomputable def addOperand (sp : AddSpelling) (alpha : ℝ) (row : List ℝ) : List ℝ := if sp.isRetr then row else scaleList alpha row

/-! ### the item-level meaning for the four groups: `Exp(alpha·a)·X`, extra components ignored -/
open Vec3 Quat Mat3

theorem SO3retrItem_eq (eps α : ℝ) (sp : AddSpelling) (a : Vec3 ℝ) (ex : List ℝ) (X : Quat ℝ) :
    SO3retrItem eps (addOperand sp α (a.toList ++ ex)) X = (so3Exp eps (a.smul (if sp.isRetr then 1 else α))).mul X := by
  unfold addOperand SO3retrItem SO3Retr
  cases a
  by_cases h : sp.isRetr = true <;> simp [h, scaleList, so3.ofList, vec3At, Vec3.toList, Vec3.smul]
theorem SE3retrItem_eq (eps α : ℝ) (sp : AddSpelling) (a : se3 ℝ) (ex : List ℝ) (X : SE3 ℝ) :
    SE3retrItem eps (addOperand sp α (a.toList ++ ex)) X
      = SE3Mul (se3Exp eps ⟨a.tau.smul (if sp.isRetr then 1 else α), a.phi.smul (if sp.isRetr then 1 else α)⟩) X := by
  unfold addOperand SE3retrItem SE3Retr
  obtain ⟨⟨a1, a2, a3⟩, ⟨a4, a5, a6⟩⟩ := a
  by_cases h : sp.isRetr = true <;> simp [h, scaleList, se3.ofList, se3.toList, vec3At, Vec3.toList, Vec3.smul]
theorem RxSO3retrItem_eq (eps α : ℝ) (sp : AddSpelling) (a : rxso3 ℝ) (ex : List ℝ) (X : RxSO3 ℝ) :
    RxSO3retrItem eps (addOperand sp α (a.toList ++ ex)) X
      = RxSO3Mul (rxso3Exp eps ⟨a.phi.smul (if sp.isRetr then 1 else α), (if sp.isRetr then 1 else α) * a.sigma⟩) X := by
  unfold addOperand RxSO3retrItem RxSO3Retr
  obtain ⟨⟨a1, a2, a3⟩, a4⟩ := a
  by_cases h : sp.isRetr = true <;> simp [h, scaleList, rxso3.ofList, rxso3.toList, vec3At, Vec3.toList, Vec3.smul]
theorem Sim3retrItem_eq (eps α : ℝ) (sp : AddSpelling) (a : sim3 ℝ) (ex : List ℝ) (X : Sim3 ℝ) :
    Sim3retrItem eps (addOperand sp α (a.toList ++ ex)) X
      = Sim3Mul (sim3Exp eps ⟨a.tau.smul (if sp.isRetr then 1 else α), a.phi.smul (if sp.isRetr then 1 else α),
          (if sp.isRetr then 1 else α) * a.sigma⟩) X := by
  unfold addOperand Sim3retrItem Sim3Retr
  obtain ⟨⟨a1, a2, a3⟩, ⟨a4, a5, a6⟩, a7⟩ := a
  by_cases h : sp.isRetr = true <;> simp [h, scaleList, sim3.ofList, sim3.toList, vec3At, Vec3.toList, Vec3.smul]


end PP
