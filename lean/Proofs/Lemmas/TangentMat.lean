import Proofs.Lemmas.Tangent
import Mathlib.Analysis.Normed.Algebra.MatrixExponential
import Mathlib.Tactic.FinCases
/-!
# C05, matrix level: the model's `matrix()` and the algebra generators as Mathlib matrices, and
`matrix(X)·â = (Adj X a)^·matrix(X)` entry by entry (used with `SemiconjBy.exp_right` in `Props/C05.lean`).
-/
set_option linter.unusedSimpArgs false
set_option linter.unusedTactic false
set_option linter.unreachableTactic false
set_option linter.unnecessarySeqFocus false
namespace PP
open Vec3 Quat Mat3

/-- the model's 3×3 / list matrices as Mathlib matrices -/
def Mat3.toMatrix (m : Mat3 ℝ) : Matrix (Fin 3) (Fin 3) ℝ :=
  !![m.r0.x, m.r0.y, m.r0.z; m.r1.x, m.r1.y, m.r1.z; m.r2.x, m.r2.y, m.r2.z]
def DMat.toMatrix4 (A : DMat ℝ) : Matrix (Fin 4) (Fin 4) ℝ :=
  Matrix.of fun i j => (A.getD i.val []).getD j.val 0

/-- `hat(R(q)·φ)·R(q) = R(q)·hat(φ)` for unit `q` -/
theorem hat_act_mul (q : Quat ℝ) (h : q.normSq = 1) (x : Vec3 ℝ) :
    (Mat3.hat (q.act x)).mul (SO3matrix q) = (SO3matrix q).mul (Mat3.hat x) := by
  apply Mat3.ext_mulVec
  intro p
  rw [Mat3.mul_mulVec, Mat3.mul_mulVec, hat_mulVec, hat_mulVec, SO3_matrix_mulVec, SO3_matrix_mulVec,
    Quat.act_cross q h]

theorem Mat3.toMatrix_mul (A B : Mat3 ℝ) : (A.mul B).toMatrix = A.toMatrix * B.toMatrix := by
  ext i j
  fin_cases i <;> fin_cases j <;>
    simp [Mat3.toMatrix, Matrix.mul_apply, Fin.sum_univ_three, Mat3.mul, Vec3.dot, Mat3.c0, Mat3.c1, Mat3.c2]

/-- generator of so3 as a Mathlib matrix -/
noncomputable def so3hat (x : Vec3 ℝ) : Matrix (Fin 3) (Fin 3) ℝ := (Mat3.hat x).toMatrix

theorem hat_mulVec_mul (q : Quat ℝ) (h : q.normSq = 1) (x : Vec3 ℝ) :
    (Mat3.hat ((SO3matrix q).mulVec x)).mul (SO3matrix q) = (SO3matrix q).mul (Mat3.hat x) := by
  rw [SO3_matrix_mulVec]; exact hat_act_mul q h x

/-- generators of se3 / rxso3 / sim3 as 4×4 Mathlib matrices: `[[σ·1 + φ^, τ],[0,0]]` -/
noncomputable def sim3hat (a : sim3 ℝ) : Matrix (Fin 4) (Fin 4) ℝ :=
  !![a.sigma, -a.phi.z, a.phi.y, a.tau.x; a.phi.z, a.sigma, -a.phi.x, a.tau.y;
     -a.phi.y, a.phi.x, a.sigma, a.tau.z; 0, 0, 0, 0]
noncomputable def se3hat (a : se3 ℝ) : Matrix (Fin 4) (Fin 4) ℝ := sim3hat ⟨a.tau, a.phi, 0⟩
noncomputable def rxso3hat (a : rxso3 ℝ) : Matrix (Fin 4) (Fin 4) ℝ := sim3hat ⟨Vec3.zero, a.phi, a.sigma⟩

/-- the nine entries of `hat(Rφ)·R = R·hat φ` -/
theorem hat_entries (R : Mat3 ℝ) (x : Vec3 ℝ) (h : (Mat3.hat (R.mulVec x)).mul R = R.mul (Mat3.hat x)) :
    ((Mat3.hat (R.mulVec x)).mul R).r0.x = (R.mul (Mat3.hat x)).r0.x ∧
    ((Mat3.hat (R.mulVec x)).mul R).r0.y = (R.mul (Mat3.hat x)).r0.y ∧
    ((Mat3.hat (R.mulVec x)).mul R).r0.z = (R.mul (Mat3.hat x)).r0.z ∧
    ((Mat3.hat (R.mulVec x)).mul R).r1.x = (R.mul (Mat3.hat x)).r1.x ∧
    ((Mat3.hat (R.mulVec x)).mul R).r1.y = (R.mul (Mat3.hat x)).r1.y ∧
    ((Mat3.hat (R.mulVec x)).mul R).r1.z = (R.mul (Mat3.hat x)).r1.z ∧
    ((Mat3.hat (R.mulVec x)).mul R).r2.x = (R.mul (Mat3.hat x)).r2.x ∧
    ((Mat3.hat (R.mulVec x)).mul R).r2.y = (R.mul (Mat3.hat x)).r2.y ∧
    ((Mat3.hat (R.mulVec x)).mul R).r2.z = (R.mul (Mat3.hat x)).r2.z := by
  rw [h]; simp

theorem Sim3_hat_Adj_aux (X : Sim3 ℝ) (hX : Sim3.Valid X) (a : sim3 ℝ) :
    (Sim3matrix X).toMatrix4 * sim3hat a = sim3hat (sim3.ofList (Sim3AdjXa X a)) * (Sim3matrix X).toMatrix4 := by
  have hq : X.q.normSq = 1 := hX.1
  rw [Sim3AdjXa_eq, sim3.ofList_toList, Sim3_matrix_blocks]
  unfold Sim3AdjV
  simp only []
  rw [← SO3matrix_eq_SO3Mat X.q hq]
  obtain ⟨h00, h01, h02, h10, h11, h12, h20, h21, h22⟩ := hat_entries _ _ (hat_mulVec_mul X.q hq a.phi)
  generalize SO3matrix X.q = R at *
  simp only [Mat3.mul, Mat3.hat, Mat3.mulVec, Vec3.dot, Mat3.c0, Mat3.c1, Mat3.c2, k_real, Nat.cast_zero]
    at h00 h01 h02 h10 h11 h12 h20 h21 h22
  ext i j
  fin_cases i <;> fin_cases j <;>
    simp [DMat.toMatrix4, sim3hat, Matrix.mul_apply, Fin.sum_univ_four, Vec3.toList] <;> lie_unfold <;>
    first
      | ring1
      | linear_combination X.s * h00 | linear_combination X.s * h01 | linear_combination X.s * h02
      | linear_combination X.s * h10 | linear_combination X.s * h11 | linear_combination X.s * h12
      | linear_combination X.s * h20 | linear_combination X.s * h21 | linear_combination X.s * h22
      | linear_combination (-X.s) * h00 | linear_combination (-X.s) * h01 | linear_combination (-X.s) * h02
      | linear_combination (-X.s) * h10 | linear_combination (-X.s) * h11 | linear_combination (-X.s) * h12
      | linear_combination (-X.s) * h20 | linear_combination (-X.s) * h21 | linear_combination (-X.s) * h22

theorem SE3_hat_Adj_aux (X : SE3 ℝ) (hX : SE3.Valid X) (a : se3 ℝ) :
    (SE3matrix X).toMatrix4 * se3hat a = se3hat (se3.ofList (SE3AdjXa X a)) * (SE3matrix X).toMatrix4 := by
  have hq : X.q.normSq = 1 := hX
  rw [SE3AdjXa_eq, se3.ofList_toList, SE3_matrix_blocks]
  unfold SE3AdjV
  simp only []
  rw [← SO3matrix_eq_SO3Mat X.q hq]
  obtain ⟨h00, h01, h02, h10, h11, h12, h20, h21, h22⟩ := hat_entries _ _ (hat_mulVec_mul X.q hq a.phi)
  generalize SO3matrix X.q = R at *
  simp only [Mat3.mul, Mat3.hat, Mat3.mulVec, Vec3.dot, Mat3.c0, Mat3.c1, Mat3.c2, k_real, Nat.cast_zero]
    at h00 h01 h02 h10 h11 h12 h20 h21 h22
  ext i j
  fin_cases i <;> fin_cases j <;>
    simp [DMat.toMatrix4, se3hat, sim3hat, Matrix.mul_apply, Fin.sum_univ_four, Vec3.toList] <;> lie_unfold <;>
    first
      | ring1
      | linear_combination h00 | linear_combination h01 | linear_combination h02
      | linear_combination h10 | linear_combination h11 | linear_combination h12
      | linear_combination h20 | linear_combination h21 | linear_combination h22
      | linear_combination (-1 : ℝ) * h00 | linear_combination (-1 : ℝ) * h01 | linear_combination (-1 : ℝ) * h02
      | linear_combination (-1 : ℝ) * h10 | linear_combination (-1 : ℝ) * h11 | linear_combination (-1 : ℝ) * h12
      | linear_combination (-1 : ℝ) * h20 | linear_combination (-1 : ℝ) * h21 | linear_combination (-1 : ℝ) * h22

-- `RxSO3_matrix_blocks` (blocks of the RxSO3 `matrix()`) is C03's theorem of that name

theorem RxSO3_hat_Adj_aux (X : RxSO3 ℝ) (hX : RxSO3.Valid X) (a : rxso3 ℝ) :
    (RxSO3matrix X).toMatrix4 * rxso3hat a = rxso3hat (rxso3.ofList (RxSO3AdjXa X a)) * (RxSO3matrix X).toMatrix4 := by
  have hq : X.q.normSq = 1 := hX.1
  rw [RxSO3AdjXa_eq, rxso3.ofList_toList, RxSO3_matrix_blocks]
  unfold RxSO3AdjV
  rw [← SO3matrix_eq_SO3Mat X.q hq]
  obtain ⟨h00, h01, h02, h10, h11, h12, h20, h21, h22⟩ := hat_entries _ _ (hat_mulVec_mul X.q hq a.phi)
  generalize SO3matrix X.q = R at *
  simp only [Mat3.mul, Mat3.hat, Mat3.mulVec, Vec3.dot, Mat3.c0, Mat3.c1, Mat3.c2, k_real, Nat.cast_zero]
    at h00 h01 h02 h10 h11 h12 h20 h21 h22
  ext i j
  fin_cases i <;> fin_cases j <;>
    simp [DMat.toMatrix4, rxso3hat, sim3hat, Matrix.mul_apply, Fin.sum_univ_four, Vec3.toList] <;> lie_unfold <;>
    first
      | ring1
      | linear_combination X.s * h00 | linear_combination X.s * h01 | linear_combination X.s * h02
      | linear_combination X.s * h10 | linear_combination X.s * h11 | linear_combination X.s * h12
      | linear_combination X.s * h20 | linear_combination X.s * h21 | linear_combination X.s * h22
      | linear_combination (-X.s) * h00 | linear_combination (-X.s) * h01 | linear_combination (-X.s) * h02
      | linear_combination (-X.s) * h10 | linear_combination (-X.s) * h11 | linear_combination (-X.s) * h12
      | linear_combination (-X.s) * h20 | linear_combination (-X.s) * h21 | linear_combination (-X.s) * h22


end PP
