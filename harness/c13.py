"""C13 — EKF / UKF equal the Kalman filter on linear-Gaussian systems; covariances valid; PF skeleton.

Model: lean/Pose/Model/Filter.lean; theorems: lean/Proofs/Props/C13.lean.

Streams (implementation = the real pypose.module.EKF / UKF / PF objects, reused over a whole run)
  run        : runs of T consecutive filter calls (T up to 50), the posterior of one call being the prior of the
               next, on one filter object.  Every call is compared
                 (a) with the Lean model run in 192-bit arithmetic on the same prior  -> ctx.disagree
                 (b) for affine systems with the exact Kalman posterior at 50 digits (mpmath), for EKF on
                     non-linear systems with the documented linearised recursion            -> ctx.fail
                 (c) symmetric / positive semidefinite covariance (EKF always, UKF when k >= 0) -> ctx.fail
  pf-corr    : PF with its random draws recorded (particles through generate_particles, uniforms by wrapping
               torch.rand during the call): weights, resampled set, mean, covariance against the model.
  pf-stat    : PF with 1e3..1e6 particles on affine systems: estimate inside a 6.5-sigma band around the exact
               posterior mean of the documented particle model; PSD covariance; also on non-linear systems against
               an independent self-normalised importance-sampling estimate.
"""
from __future__ import annotations

import math
import random

import mpmath as mp
import numpy as np
import torch

from . import common
from . import util_filter as uf
from .common import Ctx, to_wire

META = {
    "rule": "runs: (filter, n, m, p in 1..6, dtype, affine|non-linear family member, SPD P/Q/R = U diag(lambda) U^T with "
            "scale 1e-3..1e3 and condition 1..1e6, non-diagonal unless drawn diagonal, k from {None, 0, 1, 2, 0.5, 10, 100, "
            "1e3, 3-n, -n+0.5, -n+0.01, ...}, Q/R given per call | at construction | both, t None|tensor, clock reset) x "
            "T consecutive calls with fresh u, y (and sometimes Q, R) per call, user-supplied symmetric msqrt on a quarter of the "
            "affine UKF runs, one non-linear UKF run per k value; PF: recorded draws (N = 1..250) and "
            "statistical runs N = 1e3..1e6; a case (one call) is non-trivial when the innovation and the gain are non-zero "
            "and distinct by (filter, dims, dtype, kind, k, step index bucket, magnitude buckets)",
    "trusted": ["torch.linalg.pinv / cholesky, torch.autograd.functional.jacobian, MultivariateNormal.sample/log_prob, "
                "torch.rand, cumsum, searchsorted (external kernels; contracts are hypotheses of the theorems and are "
                "re-checked by the driver's stand-ins on every call)",
                "mpmath (50 digits) for the reference Kalman recursion"],
    "assumptions": ["Q, P symmetric positive semidefinite, R symmetric positive definite (hypotheses of the PSD / "
                    "invertibility theorems)", "k > -n", "pinv S = S^-1 for invertible S; msqrt M (msqrt M)^T = M",
                    "the system's f, g are differentiable and NLS.A / NLS.C return their Jacobians at the prior mean"],
    "decided_by_streams": [
        "statelessness / atomicity / argument resolution of the REAL filter objects (object reuse, copies, failing calls, per-call "
        "sources of Q, R, k, t) is decided by the history streams (run, pf-corr); the Lean lemmas run_append, run_last_call, "
        "call_resolution_independent, failed_call_is_no_call, runEKFobj_eq, runUKFobj_eq hold by construction of the model and only "
        "say what the model means by those words",
        "independence of filter OBJECTS built from the same caller tensors (stream `shared`: two or three EKF / UKF / PF objects "
        "constructed from one Q0, R0, one re-tuned with set_uncertainty, the others then judged by the 50-digit Kalman posterior "
        "for the noise model THEY were given; the caller's tensors must be bit-unchanged) is decided by the real code only; the "
        "model has no object identity"],
    "partial": ["PF Monte-Carlo convergence rate: no theorem (probabilistic limit); decided statistically by the pf-stat "
                "stream (6.5-sigma band, N = 1e3..1e6, verdict only when the effective sample size N/E[w~^2] >= 200). The "
                "deterministic skeleton (weights, resampling intervals and their Lebesgue measure, moments, PSD) is proved, "
                "as are the exact finite-N statements around the limit: the weights on a linear-Gaussian observation are "
                "the self-normalised Kalman-posterior/proposal density ratios (pf_weights_target_kalman) and multinomial "
                "resampling is unbiased with variance <= E_w[x^2]/N (pf_resample_mean_var), with the explicit concentration "
                "bound P(|estimate - weighted mean| >= eps) <= E_w[x^2]/(N eps^2) (pf_resample_concentration; hence -> 0 as N -> inf, pf_resample_tendsto, with N >= E_w[x^2]/(delta eps^2) "
                "sufficient for probability <= delta, pf_resample_converges), and for the whole "
                "call E[output] = self-normalised importance-sampling estimate of the Kalman-posterior expectation "
                "(pf_call_mean_targets_kalman). What is not proved is the law "
                "of large numbers for the self-normalised estimator over a continuous proposal.",
                "floating-point rounding is not modelled: equality with the Kalman posterior is a theorem over the reals "
                "plus measured agreement within a conditioning-aware tolerance"],
}

CTOL = 64.0


def dt_of(name):
    return getattr(torch, name)


# ----------------------------------------------------------------------------- one run of EKF / UKF

K_CHOICES = ["none", 0, 1, 2, 3, 0.5, 10, 100, 1000.0, "3-n", "-n+0.5", "-n+0.01", "-n+1.5", -0.5]


def k_value(kspec, n):
    if kspec == "none" or kspec == "3-n":
        return 3 - n
    if isinstance(kspec, str) and kspec.startswith("-n+"):
        return -n + float(kspec[3:])
    return kspec


def store_of(c):
    """which of Q, R the filter object holds from its constructor: none / Q / R / both (stored values always differ from
    the per-call values)"""
    if "store" in c:
        return c["store"]
    return {"call": "none", "ctor": "both", "both": "both", "partial": "both"}[c["qr_mode"]]


def plan_pass(c, rng, j):
    """(pass Q?, pass R?) for call j — decided INDEPENDENTLY for Q and for R (all four combinations occur; exactly one of the
    two given is the interesting one); an argument that is not stored must be passed"""
    stv = store_of(c)
    if c.get("pass_seq"):
        pq, pr = c["pass_seq"][j % len(c["pass_seq"])]
        pq, pr = bool(pq), bool(pr)
    else:
        never = c.get("qr_mode") == "ctor"
        pq = (rng.random() < 0.5) and not never
        pr = (rng.random() < 0.5) and not never
    if stv in ("none", "R"):
        pq = True
    if stv in ("none", "Q"):
        pr = True
    return pq, pr


PASS_SEQ = [(1, 0), (0, 1), (1, 1), (0, 0), (0, 1), (1, 0)]
GRADS = ["plain", "plain", "no_grad", "requires_grad"]


def gen_run(rng: random.Random, quick: bool, force=None):
    """a run description (JSON-serialisable, regenerates all data from `seed`)"""
    force = force or {}
    c = {"kind": "run", "seed": force.get("seed", rng.randrange(1 << 40))}
    c["filter"] = force.get("filter", rng.choice(["ekf", "ukf"]))
    c["n"] = force.get("n", rng.choice([1, 2, 3, 4, 5, 6, 2, 3]))
    c["m"] = force.get("m", rng.choice([1, 2, 3, 4, 5, 6, 1, 2]))
    c["p"] = force.get("p", rng.choice([1, 2, 3, 4, 5, 6, 1, 2]))
    c["dtype"] = force.get("dtype", rng.choice(["float64", "float64", "float64", "float32"]))
    c["nonlinear"] = force.get("nonlinear", rng.random() < 0.3)
    c["T"] = force.get("T", rng.choice([1, 1, 2, 3, 5, 8] + ([20] if quick else [20, 50, 50])))
    c["k"] = force.get("k", rng.choice(K_CHOICES))
    if c["filter"] == "ukf" and c["k"] == 0 and c["n"] == 3 and "n" not in force:
        c["n"] = rng.choice([1, 2, 4, 5, 6])        # k = 0 coincides with the default 3 - n only for n = 3
    if "qr_mode" in force or "store" in force:
        c["qr_mode"] = force.get("qr_mode", {"none": "call", "both": "both"}.get(force.get("store"), "partial"))
        if "store" in force:
            c["store"] = force["store"]
    else:
        c["store"] = rng.choice(["none", "none", "both", "both", "both", "Q", "R"])
        c["qr_mode"] = {"none": "call", "both": "both"}.get(c["store"], "partial")
    if "pass_seq" in force:
        c["pass_seq"] = force["pass_seq"]
    c["t_mode"] = force.get("t_mode", rng.choice(["none", "none", "tensor", "reset", "mixed"]))
    c["timevar"] = c["t_mode"] != "none" or rng.random() < 0.3
    c["vary_qr"] = force.get("vary_qr", rng.random() < 0.3 and c["qr_mode"] != "ctor")
    # everything the API takes per call varies between the calls of one run on ONE filter object: k (None <-> explicit
    # values), Q/R (given per call <-> taken from the constructor), t (None <-> tensor), u, y
    c["vary_k"] = force.get("vary_k", c["filter"] == "ukf" and c["T"] >= 2 and rng.random() < 0.6)
    if "k_seq" in force:
        c["k_seq"] = force["k_seq"]
    f32 = c["dtype"] == "float32"
    c["cond"] = rng.choice([1.0, 10.0, 100.0] if f32 else [1.0, 10.0, 1e2, 1e4, 1e6])
    c["scales"] = [10 ** rng.uniform(-3, 3) for _ in range(3)] if not f32 else [10 ** rng.uniform(-1.5, 1.5) for _ in range(3)]
    c["diag"] = rng.random() < 0.15
    # a user-supplied matrix square root (symmetric, eigen-decomposition): only on affine systems, where the
    # result must not depend on the choice of the root (theorem ukf_linear_eq_kf); the model uses Cholesky
    c["msqrt"] = "sym" if (c["filter"] == "ukf" and not c["nonlinear"] and rng.random() < 0.25) else "default"
    c["xmag"] = rng.choice([0.0, 1e-3, 1.0, 1.0, 10.0, 1e3])
    # how the caller hands tensors over (fresh / one buffer overwritten in place between calls / non-contiguous views into
    # larger buffers, optionally the same tensor as two arguments) and one class of extreme-but-valid input
    c["arg_mode"] = force.get("arg_mode", rng.choice(["fresh", "fresh", "inplace", "views"]))
    c["alias"] = force.get("alias", c["arg_mode"] == "views" and rng.random() < 0.5)
    c["extreme"] = force.get("extreme", rng.choice(["-"] * 5 + EXTREMES))
    # hardening pass 2: grad modes, keyword/positional passing and k types per call, a failing call in the middle of the
    # history, a copy of the filter object taking over for two calls, outputs scribbled over after every call
    # pass 4: a user's subclass of the system and of the filter class; a large system clock (above 2^24, a UNIX epoch) with a
    # system that uses the time through an exact remainder; the process default dtype flipped around some calls
    # pass 5: user callbacks that return their argument / a view of it / a stored buffer
    c["alias_sys"] = force.get("alias_sys", rng.choice([None, None, None, ["affine", "state"], ["affine", "state-view"],
                                                         ["state", "state-view"], ["input", "state"], ["buffer", "state-view"],
                                                         ["state", "affine"]]))
    if c["alias_sys"]:
        fm, gm = c["alias_sys"]
        c["nonlinear"] = False
        if gm == "state":
            c["p"] = c["n"]
        elif gm == "state-view":
            c["p"] = min(c["p"], c["n"])
        if fm == "input":
            c["m"] = c["n"]
        force = dict(force, subclass=False, clock=None)
        c["timevar"] = False
        if c["extreme"] in ("A-zero", "C-zero") if "extreme" in c else False:
            c["extreme"] = "-"
    c["subclass"] = force.get("subclass", rng.random() < 0.3)
    # a user's subclass that overrides PROPERTIES: the filter's Q / R as properties (the constructor receives None), the
    # system's A / C as properties with analytic Jacobians
    c["prop_store"] = force.get("prop_store", rng.random() < 0.3)
    c["prop_jac"] = force.get("prop_jac", (not c["subclass"]) and (not c.get("alias_sys")) and rng.random() < 0.3)
    c["clock"] = force.get("clock", rng.choice([None, None, None, 2 ** 24 + 1, 2 ** 24 + 3, 1_700_000_003]))
    if c["clock"] is not None:
        c["timevar"] = True
    c["flip_default"] = force.get("flip_default", rng.random() < 0.3)
    c["grad"] = force.get("grad", "mixed")
    c["fail_at"] = force.get("fail_at", rng.choice([None, None, 0, 1, 2]))
    c["fail_kind"] = force.get("fail_kind", rng.choice(["callback-f", "callback-g"]))
    if "fail_skip" in force:
        c["fail_skip"] = force["fail_skip"]
    c["fork_at"] = force.get("fork_at", rng.choice([None, None, 1, 2]))
    c["fork_kind"] = force.get("fork_kind", rng.choice(["deepcopy", "state_dict"]))
    c.update({kx: force[kx] for kx in ("cond", "scales", "xmag", "diag", "msqrt", "ydev0", "jac_bias") if kx in force})
    if c["extreme"] == "tiny-scale":
        c["scales"] = [1e-6, 1e-7, 1e5] if c["dtype"] == "float64" else [1e-3, 1e-4, 1e2]
    if c["extreme"] == "S-illcond":
        # innovation covariance dominated by a badly conditioned (but SPD) R: kappa(S) ~ 1e10 (1e4 in float32)
        c["scales"] = [1e-7, 1e-8, 1.0] if c["dtype"] == "float64" else [1e-4, 1e-5, 1.0]
        c["cond"] = 1e10 if c["dtype"] == "float64" else 1e4
        c["diag"] = False
    if c["extreme"] == "near-sym" and (c["filter"] == "ukf" or c["dtype"] != "float64"):
        c["extreme"] = "-"          # nearly symmetric P, Q, R (relative asymmetry 1e-6 … 1e-9): EKF formulas need no symmetry
    if c["extreme"] == "Q-zero" and c["filter"] == "ukf":
        c["extreme"] = "-"          # Q = 0 is positive semidefinite: fine for EKF; the UKF's Cholesky needs P- > 0
    if c["extreme"] == "Q-zero":
        c["T"] = min(c["T"], 8)
    if c["extreme"] == "x-huge":
        c["xmag"] = 1e6 if c["dtype"] == "float64" else 1e4
    return c


EXTREMES = ["y-far", "x-huge", "u-huge", "k-edge", "A-zero", "C-zero", "tiny-scale", "S-illcond", "Q-zero", "near-sym"]
K_EDGE = [1e6, "-n+0.0001", 1e-9, -1e-9]


K_SEQ = ["none", 1.5, 0, -1.0, 4, "none"]
NICE = {"cond": 10.0, "scales": [2.0, 0.5, 1.0], "xmag": 1.0, "diag": False}


def corpus_runs(quick: bool):
    """Deterministic runs executed for EVERY seed: one filter object, every per-call argument changing between
    consecutive calls (k: None <-> explicit values of both signs, Q/R: per call <-> constructor, t: None <-> tensor)."""
    specs = [
        dict(NICE, filter="ukf", n=3, m=2, p=2, dtype="float64", nonlinear=False, T=6, k_seq=K_SEQ, qr_mode="both",
             t_mode="mixed", vary_qr=True),
        dict(NICE, filter="ukf", n=3, m=1, p=3, dtype="float64", nonlinear=True, T=6, k_seq=K_SEQ, qr_mode="call",
             t_mode="mixed", vary_qr=False),
        dict(NICE, filter="ukf", n=2, m=2, p=1, dtype="float32", nonlinear=False, T=5, k_seq=["none", 2, "-n+0.5", "none", 10],
             qr_mode="ctor", t_mode="none", vary_qr=False),
        dict(NICE, filter="ukf", n=5, m=1, p=2, dtype="float64", nonlinear=False, T=4, k_seq=[1, "none", 100, 0.5],
             qr_mode="both", t_mode="tensor", vary_qr=True, msqrt="sym"),
        dict(NICE, filter="ukf", n=1, m=1, p=1, dtype="float64", nonlinear=False, T=4, k_seq=[0, 2, "none", -0.5],
             qr_mode="call", t_mode="none", vary_qr=True),
        dict(NICE, filter="ekf", n=3, m=2, p=2, dtype="float64", nonlinear=False, T=6, qr_mode="both", t_mode="mixed",
             vary_qr=True),
        dict(NICE, filter="ekf", n=2, m=1, p=2, dtype="float64", nonlinear=True, T=5, qr_mode="both", t_mode="mixed",
             vary_qr=True),
    ]
    # corner corpus: stale reads (one buffer per argument overwritten in place, constructor Q/R and the system's own
    # parameters updated in place between calls), views / aliases, extremes of every kind
    for flt in ("ekf", "ukf"):
        specs.append(dict(NICE, filter=flt, n=2, m=2, p=2, dtype="float64", nonlinear=False, T=5, qr_mode="both",
                          t_mode="mixed", vary_qr=True, arg_mode="inplace", k_seq=[1, "none", 0.5, 2, "none"]))
        specs.append(dict(NICE, filter=flt, n=3, m=3, p=3, dtype="float64", nonlinear=(flt == "ekf"), T=4, qr_mode="call",
                          t_mode="none", vary_qr=True, arg_mode="views", alias=True, k_seq=[2, "none", 2, 0.5]))
        specs.append(dict(NICE, filter=flt, n=2, m=1, p=1, dtype="float32", nonlinear=False, T=3, qr_mode="ctor",
                          t_mode="tensor", vary_qr=False, arg_mode="inplace", k_seq=["none", 3, "none"]))
        for ex in EXTREMES:
            specs.append(dict(NICE, filter=flt, n=3, m=2, p=2, dtype="float64", nonlinear=False, T=2, qr_mode="call",
                              t_mode="none", vary_qr=False, extreme=ex, arg_mode="fresh"))
    for flt in ("ekf", "ukf"):
        specs.append(dict(NICE, filter=flt, n=2, m=1, p=2, dtype="float64", nonlinear=True, T=4, qr_mode="call",
                          t_mode="none", vary_qr=True, arg_mode="inplace", k_seq=[1, 2, "none", 0.5]))
    specs.append(dict(NICE, filter="ukf", n=2, m=2, p=2, dtype="float64", nonlinear=True, T=4, qr_mode="call", t_mode="none",
                      vary_qr=False, k_seq=[0, 1, 0, "none"]))
    specs.append(dict(NICE, filter="ukf", n=2, m=1, p=2, dtype="float64", nonlinear=True, T=4, qr_mode="call", t_mode="none",
                      vary_qr=False, extreme="k-edge", k_seq=[1e6, "-n+0.0001", 1e-9, -1e-9]))
    for flt in ("ekf", "ukf"):
        specs.append(dict(NICE, filter=flt, n=4, m=1, p=3, dtype="float64", nonlinear=False, T=2, qr_mode="call", t_mode="none",
                          vary_qr=False, cond=1e8, k_seq=[1, 1]))
    # pass 2 corner corpus: the source of Q and of R chosen independently per call (all four combinations, exactly one of
    # the two given included), objects storing only one of them, grad modes, positional passing, a user callback that
    # raises in the middle of the history, a copy of the object taking over
    for flt in ("ekf", "ukf"):
        specs.append(dict(NICE, filter=flt, n=3, m=2, p=2, dtype="float64", nonlinear=False, T=6, store="both",
                          pass_seq=PASS_SEQ, t_mode="none", vary_qr=True, k_seq=[1, "none", 2, 1, "none", 0.5]))
        specs.append(dict(NICE, filter=flt, n=2, m=1, p=3, dtype="float64", nonlinear=True, T=4, store="both",
                          pass_seq=PASS_SEQ, t_mode="mixed", vary_qr=False, k_seq=[1, 1, "none", 2]))
        specs.append(dict(NICE, filter=flt, n=2, m=2, p=2, dtype="float32", nonlinear=False, T=3, store="Q",
                          pass_seq=[(1, 1), (0, 1), (1, 1)], t_mode="none", vary_qr=False, k_seq=["none", 2, "none"]))
        specs.append(dict(NICE, filter=flt, n=3, m=1, p=1, dtype="float64", nonlinear=False, T=3, store="R",
                          pass_seq=[(1, 0), (1, 1), (1, 0)], t_mode="none", vary_qr=False, k_seq=[0.5, "none", 0.5]))
        for gm in ("no_grad", "requires_grad"):
            specs.append(dict(NICE, filter=flt, n=2, m=2, p=2, dtype="float64", nonlinear=True, T=2, store="none",
                              t_mode="none", vary_qr=False, grad=gm, k_seq=[1, "none"]))
        specs.append(dict(NICE, filter=flt, n=2, m=1, p=2, dtype="float64", nonlinear=True, T=4, store="both",
                          pass_seq=PASS_SEQ, t_mode="none", vary_qr=False, fail_at=1, fail_kind="callback-g", fail_skip=2,
                          fork_at=2, fork_kind="deepcopy", k_seq=[1, 2, "none", 1]))
        specs.append(dict(NICE, filter=flt, n=3, m=2, p=2, dtype="float64", nonlinear=False, T=4, store="both",
                          pass_seq=PASS_SEQ, t_mode="none", vary_qr=False, fail_at=2, fail_kind="callback-f", fail_skip=3,
                          fork_at=1, fork_kind="state_dict", k_seq=["none", 1.5, 0, "none"]))
    # pass 4 corpus: clocks above 2^24 / a UNIX epoch with float32 data and a system using t % 7; a user's subclass of system and
    # filter; the process default dtype flipped; exact coincidences (k = 0 exactly, P = s*I with equal eigenvalues, y exactly
    # the predicted observation)
    for flt in ("ekf", "ukf"):
        for clk, dtn in ((2 ** 24 + 1, "float32"), (1_700_000_003, "float32"), (2 ** 24 + 3, "float64")):
            specs.append(dict(NICE, filter=flt, n=2, m=1, p=2, dtype=dtn, nonlinear=False, T=3, store="none", t_mode="none",
                              vary_qr=False, clock=clk, subclass=False, flip_default=False, k_seq=[1, "none", 1]))
        specs.append(dict(NICE, filter=flt, n=2, m=2, p=2, dtype="float64", nonlinear=True, T=3, store="both", pass_seq=PASS_SEQ,
                          t_mode="mixed", vary_qr=False, subclass=True, clock=None, flip_default=False, k_seq=[1, 0.5, "none"]))
        for dtn in ("float32", "float64"):
            specs.append(dict(NICE, filter=flt, n=3, m=1, p=2, dtype=dtn, nonlinear=False, T=2, store="none", t_mode="none",
                              vary_qr=False, subclass=False, clock=None, flip_default=True, grad="plain", k_seq=[1, "none"]))
        specs.append(dict(NICE, filter=flt, n=4, m=1, p=2, dtype="float64", nonlinear=(flt == "ukf"), T=2, store="none",
                          t_mode="none", vary_qr=False, cond=1.0, diag=True, ydev0=True, subclass=False, clock=None,
                          flip_default=False, k_seq=[0, 0]))
    # pass 5 corpus: user callbacks returning their argument / a view / a stored buffer (non-zero state, two calls)
    for flt in ("ekf", "ukf"):
        for al, (nn, mm, pp_) in ((["affine", "state"], (3, 2, 3)), (["affine", "state-view"], (3, 1, 2)),
                                  (["state", "state-view"], (2, 1, 1)), (["input", "state"], (2, 2, 2)),
                                  (["buffer", "state-view"], (3, 1, 2)), (["state", "affine"], (2, 1, 2))):
            specs.append(dict(NICE, filter=flt, n=nn, m=mm, p=pp_, dtype="float64", T=2, store="none", t_mode="none",
                              vary_qr=False, alias_sys=al, xmag=10.0, k_seq=[1, "none"], arg_mode="fresh", extreme="-"))
    # user subclasses overriding PROPERTIES: the filter's Q / R (stored -> property), the system's A / C (analytic Jacobians)
    for flt in ("ekf", "ukf"):
        specs.append(dict(NICE, filter=flt, n=2, m=1, p=2, dtype="float64", nonlinear=False, T=6, store="both", pass_seq=PASS_SEQ,
                          t_mode="none", vary_qr=False, prop_store=True, k_seq=[1, "none", 2, 1, "none", 0.5]))
        specs.append(dict(NICE, filter=flt, n=3, m=1, p=2, dtype="float64", nonlinear=False, T=3, store="Q",
                          pass_seq=[(0, 1), (1, 1), (0, 1)], t_mode="none", vary_qr=False, prop_store=True, k_seq=[1, 1, "none"]))
        specs.append(dict(NICE, filter=flt, n=2, m=2, p=2, dtype="float64", nonlinear=True, T=3, store="none", t_mode="mixed",
                          vary_qr=False, prop_jac=True, jac_bias=True, subclass=False, k_seq=[1, "none", 2]))
    # special sizes: p = 2n+1 (number of sigma points), n = m = p = 3, n = 1 with p = 3, all ones
    for flt in ("ekf", "ukf"):
        for (nn, mm, pp_) in ((2, 2, 5), (3, 3, 3), (1, 3, 3), (1, 1, 1), (6, 6, 6)):
            specs.append(dict(NICE, filter=flt, n=nn, m=mm, p=pp_, dtype="float64", nonlinear=(nn == 3), T=2, store="none",
                              t_mode="none", vary_qr=False, k_seq=[1, "none"]))
    for sp in specs:
        sp.setdefault("prop_store", False)
        sp.setdefault("prop_jac", False)
        sp.setdefault("alias_sys", None)
        sp.setdefault("subclass", False)
        sp.setdefault("clock", None)
        sp.setdefault("flip_default", False)
        sp.setdefault("fail_at", None)
        sp.setdefault("fork_at", None)
        sp.setdefault("arg_mode", "fresh")
        sp.setdefault("extreme", "-")
        sp.setdefault("alias", False)
    out = []
    for i, sp in enumerate(specs):
        c = gen_run(random.Random(130100 + i), quick, dict(sp, seed=130100 + i))
        c["corpus"] = i
        out.append(c)
    return out


def corpus_pf():
    out = []
    table = [(2, 17, False, "inplace", "none", None, None), (3, 8, True, "views", "both", None, None),
             (1, 1, False, "fresh", "none", None, None), (2, 40, False, "views", "both", None, None),
             (2, 17, False, "fresh", "both", None, None), (3, 5, True, "fresh", "Q", None, None),
             (2, 8, False, "fresh", "R", None, None), (2, 17, True, "fresh", "both", 1, 2),
             (3, 3, False, "fresh", "none", None, None), (2, 2, False, "fresh", "none", None, None),   # N = n
             (2, 17, False, "fresh", "none", None, None), (2, 40, True, "fresh", "both", None, None)]
    for i, (n, N, nl, am, stv, fail_at, fork_at) in enumerate(table):
        late = i >= 10
        c = gen_pf(random.Random(130200 + i), False, True, {"dtype": "float32" if i == 10 else "float64", "nonlinear": nl, "N": N,
                                                            "store": stv, "fail_at": fail_at, "fork_at": fork_at,
                                                            "subclass": i == 11, "clock": (2 ** 24 + 1) if i == 10 else None,
                                                            "craft": late or i % 2 == 0, "pass_t": late or i % 3 == 0})
        c.update(seed=130200 + i, n=n, m=1, p=2, T=4 if i >= 4 else 3, corpus=i, arg_mode=am, qr_scales=[1.0, 2.0, 0.5, 1.0],
                 pass_seq=PASS_SEQ, timevar=True, alias_sys=None)
        out.append(c)
    for i, al in enumerate((["affine", "state-view"], ["state", "state"], ["buffer", "state-view"])):
        c = gen_pf(random.Random(130250 + i), False, True, {"dtype": "float64", "nonlinear": False, "N": 17, "store": "none",
                                                            "fail_at": None, "fork_at": None, "subclass": False, "clock": None,
                                                            "craft": True, "pass_t": False, "alias_sys": al})
        c.update(seed=130250 + i, n=2, m=1, p=2 if al[1] == "state" else 1, T=2, corpus=50 + i, arg_mode="fresh",
                 timevar=False, nonlinear=False)
        out.append(c)
    return out


def alias_params(prm, alias_sys, n, m, p):
    """parameters of the affine maps that the alias-returning callbacks implement"""
    if not alias_sys:
        return prm
    fm, gm = alias_sys
    eye = lambda r, cc: [[1.0 if i == j else 0.0 for j in range(cc)] for i in range(r)]
    zer = lambda r, cc: [[0.0] * cc for _ in range(r)]
    prm = dict(prm)
    if fm != "affine":
        prm["tf"], prm["af"] = [0.0] * n, [0.0] * n
        prm["A0"] = eye(n, n) if fm == "state" else zer(n, n)
        prm["B0"] = eye(n, m) if fm == "input" else zer(n, m)
        if fm != "buffer":
            prm["c1"] = [0.0] * n
    if gm != "affine":
        prm["tg"], prm["ag"] = [0.0] * p, [0.0] * p
        prm["C0"], prm["D0"], prm["c2"] = eye(p, n), zer(p, m), [0.0] * p
    return prm


def materialise_run(c):
    """all numeric data of the run, from its seed"""
    rng = random.Random(c["seed"])
    n, m, p, dt = c["n"], c["m"], c["p"], dt_of(c["dtype"])
    prm = uf.gen_family(rng, n, m, p, dt, c["nonlinear"], c["timevar"], stable=c["T"] > 5)
    prm = alias_params(prm, c.get("alias_sys"), n, m, p)
    sP, sQ, sR = c["scales"]

    def mk(nn, s):
        return uf.sym_round(uf.spd(rng, nn, s, c["cond"], c["diag"]), dt)

    d = {"prm": prm, "P0": mk(n, sP), "x0": uf.round_dt(uf.vec_mag(rng, n, [c["xmag"]]), dt),
         "Qc": mk(n, sQ), "Rc": mk(p, sR), "steps": []}
    d["Qdecoy"], d["Rdecoy"] = mk(n, sQ * 7), mk(p, sR * 0.3)
    ext = c.get("extreme", "-")
    if ext == "A-zero":
        prm["A0"] = [[0.0] * n for _ in range(n)]
    if ext == "C-zero":
        prm["C0"] = [[0.0] * n for _ in range(p)]
    for j in range(c["T"]):
        st = {"u": uf.round_dt(uf.vec_mag(rng, m, [1e5] if ext == "u-huge" else [0.0, 0.1, 1.0, 1.0, 30.0]), dt),
              "ydev": [rng.gauss(0, 1) * rng.choice([1e4, 1e6] if ext == "y-far" else [0.0, 0.3, 1.0, 1.0, 3.0, 30.0])
                       for _ in range(p)]}
        if c.get("ydev0"):
            st["ydev"] = [0.0] * p
        st["drift"] = {"qr_scale": rng.choice([1.0, 2.0, 0.5]), "A_scale": rng.choice([1.0, 1.0, 0.5, -1.0]),
                       "c1_delta": uf.round_dt(uf.vec_mag(rng, n, [0.0, 0.5, 2.0]), dt)}
        if c["vary_qr"]:
            st["Q"], st["R"] = mk(n, sQ * 10 ** rng.uniform(-1, 1)), mk(p, sR * 10 ** rng.uniform(-1, 1))
        if c["t_mode"] == "tensor" or (c["t_mode"] == "mixed" and rng.random() < 0.5):
            st["t"] = float(rng.choice([0.0, 0.5, 2.0, -1.0, float(j)]))
        if c.get("k_seq"):
            st["k"] = c["k_seq"][j % len(c["k_seq"])]
        elif ext == "k-edge":
            st["k"] = rng.choice(K_EDGE)
        elif c.get("vary_k"):
            st["k"] = rng.choice(K_CHOICES)
        else:
            st["k"] = c["k"]
        st["pass_q"], st["pass_r"] = plan_pass(c, rng, j)
        st["positional"] = rng.random() < 0.3
        st["flip_default"] = bool(c.get("flip_default")) and rng.random() < 0.6
        st["k_type"] = rng.choice(["python", "python", "tensor"])
        st["grad"] = (rng.choice(GRADS) if c.get("grad", "mixed") == "mixed" else c["grad"])
        if st["grad"] == "requires_grad" and (c.get("fork_kind") == "deepcopy" or c.get("prop_store")) \
                and c.get("fork_at") is not None \
                and j < c["fork_at"]:
            # observation on the unchanged tree: after a call with requires_grad operands the NLS system keeps non-leaf
            # reference tensors (_ref_f, _ref_g) and copy.deepcopy of the filter raises; only copies that work are used
            st["grad"] = "no_grad"
        d["steps"].append(st)
    if ext == "near-sym":
        def skew(Mx, rel):
            k_ = len(Mx)
            sc = max(abs(v) for row in Mx for v in row) * rel
            out = [list(row) for row in Mx]
            for i in range(k_):
                for j2 in range(i + 1, k_):
                    e_ = sc * rng.uniform(0.3, 1.0) * rng.choice([-1, 1])
                    out[i][j2] += e_
                    out[j2][i] -= e_
            return out
        rel = rng.choice([1e-6, 1e-7, 1e-9])
        # only the PRIOR covariance: in a real history it is the filter's own previous output, which is symmetric only up to
        # rounding; Q and R are the user's and stay exactly symmetric (the property's domain)
        d["P0"] = skew(d["P0"], rel)
    d["t_reset"] = rng.choice([1, 3, 7]) if c["t_mode"] == "reset" else 0
    d["delta"] = uf.round_dt(uf.vec_mag(rng, p, [0.5, 2.0]), dt)
    if ext == "Q-zero":
        zq = [[0.0] * n for _ in range(n)]
        d["Qc"], d["Qdecoy"] = zq, zq
        for st in d["steps"]:
            if "Q" in st:
                st["Q"] = zq
    return d


def tol_pair(info, eps, extra=1.0):
    """(tolx, tolP): entry-wise tensors when the reference supplies entry-wise pre-cancellation magnitudes (EKF / Kalman
    reference), numbers otherwise (UKF bound)"""
    kap = max(info["kappa"], 1.0)
    f = CTOL * eps * kap * extra
    # absolute floor at the underflow threshold of the dtype (smallest normal number): below it the format has no relative
    # accuracy at all (a covariance that decays towards 0 over a long run with Q = 0 gets there in float32)
    tiny = CTOL * (1.1754944e-38 if eps > 1e-10 else 2.2250738585072014e-308)
    if "scalex_entries" in info:
        sx = torch.tensor(info["scalex_entries"], dtype=torch.float64)
        sP = torch.tensor(info["scaleP_entries"], dtype=torch.float64)
        # an entry whose own magnitude bound is tiny still inherits a (much smaller) share of the largest one through
        # the shared factors (gain, inverse): floor at 2^-20 of the maximum
        # The recursion is covariant under a rescaling of the state coordinates (x -> D x, P -> D P D), so the natural
        # entry-wise tolerance of P is d_i d_j with d_i^2 the magnitude bound of the i-th diagonal entry (a block of small
        # states is judged on its own scale, not on the largest state's); floors at 2^-20 of the largest scale cover the
        # coupling through shared factors.
        if sx.numel():
            dg = torch.sqrt(torch.diagonal(sP).clamp_min(0))
            dg = torch.maximum(dg, dg.max() * 2.0 ** -20)
            sP = torch.maximum(sP, dg.unsqueeze(-1) * dg.unsqueeze(-2))
            sx = torch.maximum(sx, sx.max() * 2.0 ** -20)
        return f * sx + tiny, f * sP + tiny
    return f * info["scalex"] + tiny, f * info["scaleP"] + tiny


def tmax(t) -> float:
    return float(t.max()) if isinstance(t, torch.Tensor) else float(t)


def sym_defect(P: torch.Tensor):
    """(asymmetry, most negative eigenvalue of the symmetric part)"""
    Pd = P.double()
    if not bool(torch.isfinite(Pd).all()):
        return float("inf"), float("-inf")
    asym = float((Pd - Pd.mT).abs().max()) if Pd.numel() else 0.0
    ev = torch.linalg.eigvalsh((Pd + Pd.mT) / 2)
    lam = float(ev.min()) if ev.numel() else 0.0
    return asym, lam


def psd_check(P: torch.Tensor, tolP: float, carry: float = 0.0):
    """symmetric positive semidefinite within the rounding tolerance of this call; `carry` is the first-order
    image of the prior's own (rounding-size) asymmetry / indefiniteness, which the recursion propagates"""
    asym, lam = sym_defect(P)
    n = P.shape[-1]
    return asym, lam, (asym <= 2 * tolP + carry and lam >= -(2 * n * tolP + n * carry))


def sym_sqrt(Mx: torch.Tensor) -> torch.Tensor:
    """symmetric square root L = V diag(sqrt(lambda)) V^T (L L^T = M), an admissible `msqrt` for UKF"""
    lam, Vv = torch.linalg.eigh((Mx + Mx.mT) / 2)
    return (Vv * lam.clamp_min(0).sqrt().unsqueeze(-2)) @ Vv.mT


def bad_output(out, n, dt):
    """None when `out` is a pair (x of shape (n,), P of shape (n,n)) of finite tensors of dtype dt, else what is wrong"""
    if not (isinstance(out, (tuple, list)) and len(out) == 2):
        return f"returned {type(out).__name__} instead of a pair (x, P)"
    x2, P2 = out
    if not (isinstance(x2, torch.Tensor) and isinstance(P2, torch.Tensor)):
        return f"returned ({type(x2).__name__}, {type(P2).__name__})"
    if tuple(x2.shape) != (n,) or tuple(P2.shape) != (n, n):
        return f"returned shapes {tuple(x2.shape)}, {tuple(P2.shape)} for state dimension {n}"
    if x2.dtype != dt or P2.dtype != dt:
        return f"returned dtypes {x2.dtype}, {P2.dtype} for inputs of {dt}"
    if not bool(torch.isfinite(x2).all() and torch.isfinite(P2).all()):
        return "returned non-finite values"
    return None


class Feeder:
    """How the caller hands tensors to the filter.
      fresh   : a new tensor per call;
      inplace : ONE tensor per argument for the whole run, overwritten in place (copy_) between calls — a result must
                describe the current content (stale reads);
      views   : every argument is a non-contiguous view into a larger buffer filled with sentinels; after the call the
                whole buffer must be bit-identical (purity, nothing written outside or inside the view)."""

    def __init__(self, mode, dt):
        self.mode, self.dt, self.buf, self.snap = mode, dt, {}, {}

    def give(self, name, vals):
        t = torch.tensor(vals, dtype=self.dt)
        if self.mode == "fresh":
            return t
        if self.mode == "inplace":
            if name not in self.buf:
                self.buf[name] = t.clone()
            else:
                self.buf[name].copy_(t)
            return self.buf[name]
        # views
        if t.dim() == 1:
            big = torch.arange(2 * t.shape[0] + 3, dtype=self.dt) * 0.37 - 1.3
            view = big[1:1 + 2 * t.shape[0]:2]
        else:
            r, cc = t.shape
            big = (torch.arange((r + 2) * (2 * cc + 3), dtype=self.dt) * 0.11 - 2.9).reshape(r + 2, 2 * cc + 3)
            view = big[1:1 + r, 1:1 + 2 * cc:2]
        view.copy_(t)
        self.buf[name], self.snap[name] = big, big.clone()
        return view

    def touched(self):
        """names of view buffers whose storage changed during the call"""
        return [nm for nm, big in self.buf.items() if nm in self.snap and not torch.equal(big, self.snap[nm])]


def run_one(ctx: Ctx, c, lines, metas, verbose=False):
    """execute one run on the real code; append driver lines + what to compare them with"""
    for _ in run_gen(ctx, c, lines, metas, verbose):
        pass


def interleave(gens, width=3):
    """round-robin over groups of `width` runs: calls on different objects / filter types / dtypes alternate in one process
    (module-level state written through one object and read through another would show)"""
    for i in range(0, len(gens), width):
        live = list(gens[i:i + width])
        while live:
            for g in list(live):
                try:
                    next(g)
                except StopIteration:
                    live.remove(g)


def guarded_call(filt, mon, name, args, kw, st, is_ukf):
    """one call of the filter object in the call style / grad mode of this step; returns (out, err)"""
    x, y, u, P = args
    kw = dict(kw)
    gm = st.get("grad", "plain")
    if gm == "requires_grad":       # same storage, but leaves of an autograd graph: VALUES must not depend on it
        x, y, u, P = (a.detach().requires_grad_(True) for a in (x, y, u, P))
        kw = {kx: (v.detach().requires_grad_(True) if kx in ("Q", "R") else v) for kx, v in kw.items()}
    pos = [x, y, u, P]
    if st.get("positional") and "Q" in kw and "R" in kw:      # forward(x, y, u, P, Q, R, t[, k]) positionally
        pos += [kw.pop("Q"), kw.pop("R")]
        if "t" in kw or (is_ukf and "k" in kw):
            pos.append(kw.pop("t", None))
            if is_ukf and "k" in kw:
                pos.append(kw.pop("k"))
    old_default = torch.get_default_dtype()
    try:
        if st.get("flip_default"):       # the process-wide default dtype is the OTHER one than the operands'
            torch.set_default_dtype(torch.float64 if x.dtype == torch.float32 else torch.float32)
        if gm == "no_grad":
            with torch.no_grad():
                out = mon.call(name, filt, *pos, **kw)
        else:
            out = mon.call(name, filt, *pos, **kw)
        return out, None
    except Exception as e:  # noqa: BLE001
        return None, f"{type(e).__name__}: {str(e)[:100]}"
    finally:
        torch.set_default_dtype(old_default)


def stv_early(c):
    return store_of(c)


def make_filter(P_, c, model, Qs, Rs):
    base = P_.module.UKF if c["filter"] == "ukf" else P_.module.EKF
    cls = type("User" + base.__name__, (base,), {}) if c.get("subclass") else base      # a user's subclass of the filter
    sym = c["filter"] == "ukf" and c.get("msqrt") == "sym"
    if c.get("prop_store") and (Qs is not None or Rs is not None):
        # the user's subclass provides Q / R as PROPERTIES (the constructor gets nothing to store)
        attrs = {}
        if Qs is not None:
            attrs["Q"] = property(lambda self: self.vfh13_userQ)
        if Rs is not None:
            attrs["R"] = property(lambda self: self.vfh13_userR)
        pcls = type("Prop" + base.__name__, (cls,), attrs)
        filt = pcls(model, msqrt=sym_sqrt) if sym else pcls(model)
        filt.vfh13_userQ, filt.vfh13_userR = Qs, Rs
        return filt
    if Qs is None and Rs is None:
        # every optional argument OMITTED (not passed as None): the documented defaults
        return cls(model, msqrt=sym_sqrt) if sym else cls(model)
    if sym:
        return cls(model, Q=Qs, R=Rs, msqrt=sym_sqrt)
    return cls(model, Q=Qs, R=Rs)


def run_gen(ctx: Ctx, c, lines, metas, verbose=False):
    """generator version of a run: yields after every call so that runs can be interleaved"""
    import copy
    P_ = uf.pp()
    d = materialise_run(c)
    n, m, p, dt = c["n"], c["m"], c["p"], dt_of(c["dtype"])
    eps = common.EPS[c["dtype"]]
    T = lambda v: torch.tensor(v, dtype=dt)
    mode = c.get("arg_mode", "fresh")
    prm = {kx: v for kx, v in d["prm"].items()}          # current system parameters (drift in place in `inplace` mode)
    sub = bool(c.get("subclass")) and not c.get("alias_sys")
    jac_bias = None
    if c.get("alias_sys"):
        model = uf.fam_class().vfh13_Alias(prm, dt)
        model.vfh13_f_mode, model.vfh13_g_mode = c["alias_sys"]
        ctx.count(f"run.callbacks-return(f={model.vfh13_f_mode},g={model.vfh13_g_mode})")
    elif c.get("prop_jac") and not sub:
        model = uf.fam_class().vfh13_PropJac(prm, dt)
        ctx.count("run.user-Jacobian-properties")
        if c["filter"] == "ekf" and c.get("jac_bias", c["seed"] % 2 == 0):
            # the user's C property deliberately differs from the autograd Jacobian: the documented recursion uses model.C.
            # (not expressible in the driver's family: these calls are judged by the 50-digit oracle only)
            jac_bias = [[0.25 * ((i + 2 * j2) % 3 - 1) for j2 in range(n)] for i in range(p)]
            model.vfh13_dC = T(jac_bias)
            ctx.count("run.user-C-property-with-offset")
    else:
        model = (uf.fam_class().vfh13_Sub if sub else uf.fam_class())(prm, dt)
    if sub:
        model.vfh13_delta = T(d["delta"])
        ctx.count("run.user-subclass")
    if c.get("prop_store") and stv_early(c) != "none":
        ctx.count("run.user-QR-properties")
    tmod = 7 if c.get("clock") is not None else 0
    if tmod:
        model.vfh13_tmod = tmod
        model.reset(c["clock"])
        ctx.count(f"run.clock={c['clock']}")
    elif d["t_reset"]:
        model.reset(d["t_reset"])

    def eff(pm):
        """the system the calls see: the subclass adds `delta` to the observation"""
        if not sub:
            return pm
        pe = dict(pm)
        pe["c2"] = [a + b2 for a, b2 in zip(pm["c2"], d["delta"])]
        return pe
    stv = store_of(c)
    ctorQl = d["Qdecoy"] if stv in ("Q", "both") else None       # stored values always differ from the per-call ones
    ctorRl = d["Rdecoy"] if stv in ("R", "both") else None
    ctorQ = None if ctorQl is None else T(ctorQl)
    ctorR = None if ctorRl is None else T(ctorRl)
    is_ukf = c["filter"] == "ukf"
    filt = make_filter(P_, c, model, ctorQ, ctorR)
    if is_ukf and c.get("msqrt") == "sym":
        ctx.count("ukf.msqrt=sym")
    ctx.count(f"run.store={stv}")
    original = None          # (filter, model, ctorQ, ctorR) while a copy of the object is taking the calls
    fork_left = 0
    held = None              # a result the caller keeps across the next call
    feed = Feeder(mode, dt)
    ctx.count(f"run.args={mode}")
    xl, Pl = d["x0"], d["P0"]
    mon = common.PurityMonitor()
    prev_tolP = 0.0
    in_asym = in_lam = 0.0
    for j, st in enumerate(d["steps"]):
        kspec = st["k"]
        kval = k_value(kspec, n)
        # ---- the caller changes, IN PLACE, tensors the objects hold: constructor Q/R and the system's parameters
        if mode == "inplace" and j > 0:
            dr = st["drift"]
            if dr["qr_scale"] != 1.0 and (ctorQ is not None or ctorR is not None):
                if ctorQ is not None:
                    ctorQ.mul_(dr["qr_scale"])
                    ctorQl = [[v * dr["qr_scale"] for v in row] for row in ctorQl]
                if ctorR is not None:
                    ctorR.mul_(dr["qr_scale"])
                    ctorRl = [[v * dr["qr_scale"] for v in row] for row in ctorRl]
                ctx.count("run.ctor-QR-updated-in-place")
            fm_alias = (c.get("alias_sys") or ["affine"])[0]
            if fm_alias in ("state", "input"):
                dr = dict(dr, A_scale=1.0, c1_delta=[0.0] * n)       # these callbacks do not read the system's parameters
            if dr["A_scale"] != 1.0 or any(dr["c1_delta"]):
                prm = dict(prm)
                prm["A0"] = [[v * dr["A_scale"] for v in row] for row in prm["A0"]]
                prm["c1"] = uf.round_dt([a + b2 for a, b2 in zip(prm["c1"], dr["c1_delta"])], dt)
                model.vfh13_p_A0.mul_(dr["A_scale"])
                model.vfh13_p_c1.copy_(T(prm["c1"]))
                ctx.count("run.system-updated-in-place")
        # ---- a copy of the filter object (deepcopy / fresh object + load_state_dict) takes over for two calls, then the
        # original continues: each must follow its own law (kind 14). Not in `inplace` mode (the system drifts per object).
        if original is not None and fork_left == 0:
            filt, model, ctorQ, ctorR = original
            original = None
            ctx.count("run.fork.back-to-original")
        if c.get("fork_at") == j and mode != "inplace" and original is None and j > 0:
            original = (filt, model, ctorQ, ctorR)
            try:
                if c["fork_kind"] == "deepcopy" or (c.get("prop_store") and stv != "none"):
                    filt = copy.deepcopy(filt)
                    model = filt.model
                    ctorQ = filt.Q if ctorQ is not None else None
                    ctorR = filt.R if ctorR is not None else None
                else:
                    f2 = make_filter(P_, c, model, None if ctorQ is None else torch.zeros_like(ctorQ),
                                     None if ctorR is None else torch.zeros_like(ctorR))
                    f2.load_state_dict(filt.state_dict())
                    filt = f2
                    ctorQ = filt._Q if ctorQ is not None else None
                    ctorR = filt._R if ctorR is not None else None
                fork_left = 2
                ctx.count(f"run.fork.{c['fork_kind']}")
            except Exception as e:  # noqa: BLE001
                ctx.fail(dict(c, step=j), f"copy: {c['fork_kind']} of the {c['filter']} object raised {type(e).__name__}: {str(e)[:80]}")
                filt, model, ctorQ, ctorR = original
                original = None
        if fork_left:
            fork_left -= 1
        # the source of Q and of R is decided independently: passed for this call, or the value the object stores
        Ql = st.get("Q", d["Qc"]) if st["pass_q"] else ctorQl
        Rl = st.get("R", d["Rc"]) if st["pass_r"] else ctorRl
        ctx.count(f"run.pass(Q,R)=({int(st['pass_q'])},{int(st['pass_r'])}).store={stv}")
        ul = st["u"]
        alias_ux = bool(c.get("alias")) and m == n and j % 2 == 1            # the same tensor as state and as input
        alias_qr = bool(c.get("alias")) and n == p and st["pass_q"] and st["pass_r"] and j % 2 == 0   # same tensor as Q and R
        if alias_ux:
            ul = xl
        if alias_qr:
            Rl = Ql
        tval = st.get("t")
        t_arg = None if tval is None else torch.tensor(tval, dtype=dt)
        t_eff = float(model.systime) if tval is None else tval
        if tmod:
            t_eff = float(int(model.systime) % tmod) if tval is None else float(tval % tmod)
        prmE = eff(prm)
        fam = uf.MpFam(prmE, t_eff)
        fam.dC = jac_bias
        # measurement: predicted observation (50 digits) + deviation scaled by the innovation spread
        try:
            ref0 = uf.mp_kalman_predict(fam, ul, Ql, Rl, xl, Pl)
            sd = [math.sqrt(abs(float(ref0["S"][i, i]))) for i in range(p)]
            yl = uf.round_dt([float(ref0["gx"][i]) + st["ydev"][i] * sd[i] for i in range(p)], dt)
        except (ZeroDivisionError, ValueError):
            break
        if not all(math.isfinite(v) for v in yl):
            break
        x, P, y = feed.give("x", xl), feed.give("P", Pl), feed.give("y", yl)
        u = x if alias_ux else feed.give("u", ul)
        stepcase = dict(c, step=j, k_call=kspec)
        kw = {}
        if st["pass_q"]:
            kw["Q"] = feed.give("Q", Ql)
        if st["pass_r"]:
            kw["R"] = kw["Q"] if alias_qr else feed.give("R", Rl)
        if t_arg is not None:
            kw["t"] = t_arg
        if is_ukf and kspec != "none":
            kw["k"] = torch.tensor(float(kval), dtype=torch.float64) if st.get("k_type") == "tensor" else kval
        if alias_ux or alias_qr:
            ctx.count("run.same-tensor-as-two-arguments")
        stc = dict(st)
        if stc.get("grad") == "requires_grad" and mode == "views" and c.get("alias"):
            stc["grad"] = "plain"
        ctx.count(f"run.grad={stc.get('grad', 'plain')}")
        clock0 = float(model.systime)
        # ---- the documented argument check: a covariance that is neither passed nor stored -> NotImplementedError; the
        # model's glue says `none` (driver: err no-covariance); nothing may change
        if c.get("fail_at") == j and stv != "both":
            miss = "Q" if stv in ("none", "R") else "R"
            kwm = {kx: v for kx, v in kw.items() if kx != miss}
            _, merr = guarded_call(filt, mon, f"{c['filter']}.forward", [x, y, u, P], kwm, dict(stc, positional=False), is_ukf)
            ctx.count(f"run.missing-covariance.{'raised' if merr else 'returned'}")
            if merr is None or not merr.startswith("NotImplementedError"):
                ctx.fail(stepcase, f"missing-covariance: {c['filter']} call without {miss} on an object that does not store it "
                                   f"{'returned a value' if merr is None else 'raised ' + merr[:60]} (documented: NotImplementedError)")
            lines.append(call_line(c, prmE, kspec, kval, t_eff, ul, yl, ctorQl, ctorRl,
                                   Ql if (st["pass_q"] and miss != "Q") else None, Rl if (st["pass_r"] and miss != "R") else None,
                                   xl, Pl))
            metas.append({"case": stepcase, "expect_model_err": "no-covariance"})
        # ---- a failing call in the middle of the history (kind 11): it must leave the objects as they were
        if c.get("fail_at") == j:
            fk = c.get("fail_kind", "callback-g")          # a valid use: the user's system function raises once
            # at which of its evaluations the callback raises: early (reference point), in the middle (Jacobians), late
            model.vfh13_fail_next, model.vfh13_fail_skip = fk[-1], c.get("fail_skip", (c["seed"] + j) % 4)
            _, ferr = guarded_call(filt, mon, f"{c['filter']}.forward", [x, y, u, P], kw, dict(stc, positional=False), is_ukf)
            model.vfh13_fail_next, model.vfh13_fail_skip = "", 0
            ctx.count(f"run.failing-call.{fk}.{'raised' if ferr else 'returned'}")
            if ctorQ is not None and not torch.equal(filt.Q, T(ctorQl)) or ctorR is not None and not torch.equal(filt.R, T(ctorRl)):
                ctx.fail(stepcase, f"atomic: a failing {c['filter']} call ({fk}) changed the filter's stored Q/R")
            if not all(torch.equal(getattr(model, "vfh13_p_" + kx), T(prm[kx])) for kx in uf.FAM_KEYS):
                ctx.fail(stepcase, f"atomic: a failing {c['filter']} call ({fk}) changed the system's parameters")
            if float(model.systime) != clock0:
                ctx.fail(stepcase, f"atomic: a failing {c['filter']} call ({fk}) moved the system clock")
        # ---- the real code
        out, err = guarded_call(filt, mon, f"{c['filter']}.forward", [x, y, u, P], kw, stc, is_ukf)
        # ---- references
        lin = not c["nonlinear"]
        ref = uf.mp_kalman_update(ref0, yl)
        uinfo = None
        if is_ukf:
            try:
                uinfo = uf.np_ukf(uf.NpFam(prmE, t_eff), kval, ul, yl, Ql, Rl, xl, Pl)
                if not all(math.isfinite(v) for v in uinfo.values()):
                    uinfo = None
            except (np.linalg.LinAlgError, ZeroDivisionError, FloatingPointError):
                uinfo = None
        centre_ok = (not is_ukf) or kval >= 0
        sig = (c["filter"], n, m, p, c["dtype"], lin, str(kspec) if is_ukf else "-", min(j, 3), stv, st["pass_q"], st["pass_r"],
               stc.get("grad"),
               c["t_mode"], bool(c.get("vary_k") or c.get("k_seq")), mode, c.get("extreme", "-"),
               common.sig_mag(c["scales"][0]) // 2, common.sig_mag(c["scales"][2]) // 2, c["cond"])
        ctx.note_case(sig, True)
        ctx.count(f"run.{c['filter']}.{'lin' if lin else 'nonlin'}.{c['dtype']}")
        ctx.count(f"dims.n{n}")
        if is_ukf:
            ctx.count(f"ukf.k={kspec}")
            if j > 0 and k_value(d["steps"][j - 1]["k"], n) != kval:
                ctx.count("ukf.k-changed-between-calls")
        if j > 0 and (d["steps"][j - 1]["pass_q"], d["steps"][j - 1]["pass_r"]) != (st["pass_q"], st["pass_r"]):
            ctx.count("run.qr-source-changed-between-calls")
        if err is not None:
            # a prior / predicted covariance that is singular at rounding level (its smallest eigenvalue is below
            # the tolerance of the call that produced it) has no Cholesky factor in floating point: not a verdict
            excused = is_ukf and "holesky" in err and (
                (j > 0 and in_lam <= 4 * n * prev_tolP) or
                (uinfo is not None and uinfo["lamPm"] <= CTOL * eps * uinfo["dPm"])
                or (uinfo is None and j > 0))
            if excused:
                ctx.count("run.stopped.rounding-singular-prior")
                break
            # property: for k > -n and SPD inputs a linear UKF/EKF step must return the posterior
            if lin or not is_ukf or centre_ok:
                ctx.fail(stepcase, f"raises: {c['filter']} raised at call {j} of the run (arguments: {mode}): {err}")
            else:
                # non-linear UKF with negative centre weight: P^- may be indefinite; the model must fail too
                lines.append(call_line(c, prmE, kspec, kval, t_eff, ul, yl, ctorQl, ctorRl, Ql if st["pass_q"] else None,
                                       Rl if st["pass_r"] else None, xl, Pl))
                metas.append({"case": stepcase, "expect_err": err})
            break
        bad = bad_output(out, n, dt)
        if bad is not None:
            ctx.fail(stepcase, f"output: {c['filter']} call {j} {bad}")
            break
        x2, P2 = (o.detach() for o in out)
        # ---- outputs own their memory (kind 15): no internal overlap, and overwriting them must not reach the arguments,
        # the filter, the system or a later call
        if any(sz > 1 and sd == 0 for sz, sd in zip(P2.shape, P2.stride())) or any(sz > 1 and sd == 0 for sz, sd in zip(x2.shape, x2.stride())):
            ctx.fail(stepcase, f"output: {c['filter']} call {j} returned an expanded (stride-0) tensor")
        x2, P2 = x2.clone(), P2.clone()
        if held is not None and not (torch.equal(held[0].detach(), held[2]) and torch.equal(held[1].detach(), held[3])):
            ctx.fail(stepcase, f"output-alias: the result the caller still holds from {c['filter']} call {j - 1} changed during call {j}")
        held = None
        if j % 2 == 0:       # the caller overwrites the result in place ...
            out[0].detach().mul_(-3.0).add_(7.0)
            out[1].detach().zero_()
            for nm, arg, vals in (("x", x, xl), ("P", P, Pl), ("y", y, yl), ("u", u, ul)):
                if not torch.equal(arg.detach(), T(vals)):
                    ctx.fail(stepcase, f"output-alias: overwriting the result of {c['filter']} call {j} changed the caller's `{nm}`")
        else:                # ... or keeps it untouched across the next call
            held = (out[0], out[1], x2.clone(), P2.clone())
        # ---- object / argument hygiene: nothing the caller holds may change, public state of the objects stays as set
        for nm in feed.touched():
            ctx.fail(stepcase, f"mutation: {c['filter']} call {j} wrote into the caller's buffer behind argument `{nm}` (a view)")
        if (ctorQ is not None and not torch.equal(filt.Q, T(ctorQl))) or (ctorR is not None and not torch.equal(filt.R, T(ctorRl))):
            ctx.fail(stepcase, f"state: {c['filter']} call {j} changed the filter's constructor Q/R")
        if not all(torch.equal(getattr(model, "vfh13_p_" + kx), T(prm[kx])) for kx in uf.FAM_KEYS):
            ctx.fail(stepcase, f"state: {c['filter']} call {j} changed the system's parameters")
        if float(model.systime) != clock0:
            ctx.fail(stepcase, f"state: {c['filter']} call {j} moved the system clock from {clock0} to {float(model.systime)}")
        # ---- tolerance
        if is_ukf and uinfo is None:
            # the float64 shadow of the UKF finds no Cholesky factor of the prior / predicted covariance (it is singular at
            # rounding level; only a user-supplied symmetric root still returns something): no error bound, no verdict
            ctx.count("run.stopped.rounding-singular-prior")
            break
        if is_ukf and uinfo is not None:
            extra = 1.0 if lin else max(1.0, uinfo["kappaPm"])
            tolx, tolP = tol_pair(uinfo, eps, extra)
        else:
            tolx, tolP = tol_pair(ref, eps)
        tolPs = tmax(tolP)
        # ---- oracle (b): Kalman posterior / documented recursion
        oracle = None
        if lin or not is_ukf:
            oracle, what = ref, ("kf-equality" if lin else "ekf-linearised")
        elif uinfo is not None:
            try:
                oracle, what = uf.mp_ukf_documented(fam, kval, ul, yl, Ql, Rl, xl, Pl), "ukf-documented"
            except (ValueError, ZeroDivisionError):
                oracle = None
        if oracle is not None:
            rx, rP = uf.ratio(x2, oracle["x"], tolx), uf.ratio(P2, oracle["P"], tolP)
            ctx.count("oracle." + what)
            ctx.hist["oracle.maxratio"] = max(ctx.hist.get("oracle.maxratio", 0.0), rx, rP)
            if not (rx <= 1 and rP <= 1):
                dx, dP = uf.maxdiff(x2, oracle["x"]), uf.maxdiff(P2, oracle["P"])
                ctx.fail(stepcase, f"{what}: {c['filter']} call {j}: |x-x_ref|={dx:.3e} ({rx:.2e} x tol) "
                                   f"|P-P_ref|={dP:.3e} ({rP:.2e} x tol) n,m,p={n},{m},{p} k={kspec} dtype={c['dtype']} "
                                   f"args={mode}")
        # ---- oracle (c): covariance validity
        if centre_ok and c.get("extreme") != "near-sym":
            carry = ref["gain2"] * (in_asym + max(0.0, -in_lam)) if j > 0 else 0.0
            asym, lam, ok = psd_check(P2, tolPs, carry)
            ctx.count("oracle.psd")
            if not ok:
                ctx.fail(stepcase, f"psd: {c['filter']} call {j}: covariance asymmetry {asym:.3e}, min eigenvalue {lam:.3e} "
                                   f"(tol {tolPs:.3e})")
        # ---- model line (a)
        if jac_bias is not None:
            xl, Pl = x2.detach().double().tolist(), P2.detach().double().tolist()
            in_asym, in_lam = sym_defect(P2.detach())
            prev_tolP = tolPs
            yield j
            continue
        lines.append(call_line(c, prmE, kspec, kval, t_eff, ul, yl, ctorQl, ctorRl, Ql if st["pass_q"] else None,
                               Rl if st["pass_r"] else None, xl, Pl))
        # a prior / predicted covariance that is singular at rounding level: the exact model may find no Cholesky
        # factor where the float code (or a user-supplied symmetric root) still returns one — not a verdict
        soft_pd = is_ukf and ((j > 0 and in_lam <= 4 * n * prev_tolP) or uinfo is None
                              or uinfo["lamPm"] <= CTOL * eps * uinfo["dPm"])
        metas.append({"case": stepcase, "x": x2.detach().clone(), "P": P2.detach().clone(), "tolx": tolx, "tolP": tolP,
                      "soft_pd": soft_pd})
        if verbose:
            print(f"  call {j}: implementation x={x2.tolist()}\n           reference      x={uf.mp_to_list(ref['x'])}")
        if j == 0:
            ctx.sample({k2: v for k2, v in c.items()}, cap=8)
        xl, Pl = x2.detach().double().tolist(), P2.detach().double().tolist()
        in_asym, in_lam = sym_defect(P2.detach())
        prev_tolP = tolPs
        yield j
    for mu in mon.mutations:
        ctx.fail(dict(c), f"mutation: {mu['function']} changed its argument {mu['argument']}")


def call_line(c, prm, kspec, kval, t_eff, u, y, stQ, stR, pQ, pR, x, P):
    """one call on a filter OBJECT for the model: what the object stores, what the call passes, whether k is given —
    the resolution of Q, R and k (None -> 3 - n) is done by the model's glue (ekfCall / ukfCall / resolveK)"""
    is_ukf = c["filter"] == "ukf"
    hk = 1 if (is_ukf and kspec != "none") else 0
    head = (f"c13.call {c['filter']} {c['n']} {c['m']} {c['p']} {int(stQ is not None)} {int(stR is not None)} "
            f"{int(pQ is not None)} {int(pR is not None)} {hk} {to_wire(float(kval) if hk else 0.0)}")
    parts = [head, to_wire(t_eff), uf.fam_tokens(prm)]
    for v in (u, y, stQ, stR, pQ, pR, x, P):
        if v is not None:
            fv = uf.flat(v)
            if fv:
                parts.append(common.wire_list(fv))
    return " ".join(parts)


def ukf_line(c, prm, kval, t_eff, u, y, Q, R, x, P):
    return f"c13.ukf {c['n']} {c['m']} {c['p']} {to_wire(float(kval))} " + uf.step_tokens(prm, t_eff, u, y, Q, R, x, P)


def compare_runs(ctx: Ctx, lines, metas, verbose=False, reps=None):
    reps = ctx.driver.run(lines) if reps is None else reps
    for rep, me in zip(reps, metas):
        st, toks = common.parse_reply(rep)
        case = me["case"]
        n = case["n"]
        if "expect_model_err" in me:
            if st == "ok" or not toks.startswith(me["expect_model_err"]):
                ctx.disagree("run", case, f"model should report {me['expect_model_err']} for a call without a covariance, got {rep[:60]}")
            continue
        if "expect_err" in me:
            if st == "ok":
                ctx.disagree("run", case, f"implementation raised ({me['expect_err']}) but the model returns a value")
            continue
        if st != "ok":
            if toks.startswith("contract") or toks.startswith("arity") or toks.startswith("bad") or toks.startswith("unknown"):
                raise common.InfraError(f"driver: {rep} for {case}")
            if toks.startswith("not-pd") and me.get("soft_pd"):
                ctx.count("run.model-not-pd.rounding-singular-prior")
                continue
            ctx.disagree("run", case, f"model fails ({toks}) but the implementation returned a value")
            continue
        vals = [common.from_wire(t) for t in toks]
        rx = uf.ratio(me["x"], vals[:n], me["tolx"])
        rP = uf.ratio(me["P"], vals[n:], me["tolP"])
        ctx.hist["model.maxratio"] = max(ctx.hist.get("model.maxratio", 0.0), rx, rP)
        if verbose:
            print(f"  call {case['step']}: model x={[float(v) for v in vals[:n]]}")
        if not (rx <= 1 and rP <= 1):
            dx, dP = uf.maxdiff(me["x"], vals[:n]), uf.maxdiff(me["P"], vals[n:])
            ctx.disagree("run", case, f"{case['filter']} call {case['step']}: implementation vs model |dx|={dx:.3e} "
                                      f"({rx:.2e} x tol) |dP|={dP:.3e} ({rP:.2e} x tol) k={case.get('k_call', case['k'])} "
                                      f"n,m,p={n},{case['m']},{case['p']} dtype={case['dtype']}")


# ----------------------------------------------------------------------------- PF with recorded draws

class RandRecorder:
    """wraps torch.rand for the duration of one PF call (pf.py looks `torch.rand` up at call time)"""

    def __init__(self, craft=None):
        self.draws = []
        self.craft = craft        # optional: overwrite some of the draws in place (draws at / next to decision boundaries)

    def __enter__(self):
        self.orig = torch.rand
        rec = self

        def rand(*a, **k):
            out = rec.orig(*a, **k)
            if rec.craft is not None:
                rec.craft(out)
            rec.draws.append(out.detach().clone())
            return out

        torch.rand = rand
        return self

    def __exit__(self, *exc):
        torch.rand = self.orig
        return False


_REC_PF = None


def rec_pf_class():
    global _REC_PF
    if _REC_PF is None:
        PF = uf.pp().module.PF

        class RecPF(PF):
            """records what flows between the anchored methods; every method body is the real one"""

            def generate_particles(self, x, P):
                out = super().generate_particles(x, P)
                self.vfh13_rec["xp"] = out.detach().clone()
                self.vfh13_rec["gen_args"] = (x.detach().clone(), P.detach().clone())
                return out

            def relative_likelihood(self, y, ye, R):
                out = super().relative_likelihood(y, ye, R)
                self.vfh13_rec["q"] = out.detach().clone()
                self.vfh13_rec["lik_args"] = (y.detach().clone(), ye.detach().clone(), R.detach().clone())
                return out

            def resample_particles(self, q, x):
                out = super().resample_particles(q, x)
                self.vfh13_rec["xs"] = x.detach().clone()
                self.vfh13_rec["xr"] = out.detach().clone()
                return out

        _REC_PF = RecPF
    return _REC_PF


def gen_pf(rng: random.Random, stat: bool, quick: bool, force=None):
    force = force or {}
    c = {"kind": "pf-stat" if stat else "pf-corr", "seed": rng.randrange(1 << 40)}
    c["n"] = rng.choice([1, 2, 3, 4, 5, 6, 2, 1])
    c["m"] = rng.choice([1, 2, 3, 6])
    c["p"] = rng.choice([1, 2, 3, 4, 5, 6, 1, 2]) if not stat else rng.choice([1, 2, 3, 1, 2, 6])
    c["dtype"] = force.get("dtype", rng.choice(["float64", "float64", "float32"]))
    c["nonlinear"] = force.get("nonlinear", rng.random() < (0.25 if stat else 0.4))
    if stat:
        c["N"] = force.get("N", rng.choice([1000, 1000, 3000, 10000, 30000] + ([] if quick else [100000, 300000, 1000000])))
        c["T"] = force.get("T", rng.choice([1, 2] if quick else [1, 2, 3]))
        if c["nonlinear"]:
            c["N"] = min(c["N"], 30000)
    else:
        c["N"] = force.get("N", rng.choice([1, 2, 3, 5, 8, 17, 40, 100] + ([] if quick else [250])))
        if c["nonlinear"]:
            c["N"] = min(c["N"], 40)
        c["T"] = rng.choice([1, 2, 3])
    c["timevar"] = rng.random() < 0.5
    c["store"] = force.get("store", rng.choice(["none", "both", "both", "Q", "R"]))
    c["qr_mode"] = {"none": "call", "both": "both"}.get(c["store"], "partial")
    c["fail_at"] = force.get("fail_at", rng.choice([None, None, 0, 1]))
    c["fork_at"] = force.get("fork_at", rng.choice([None, None, 1]))
    f32 = c["dtype"] == "float32"
    c["cond"] = rng.choice([1.0, 10.0, 100.0])
    c["scales"] = [10 ** rng.uniform(-2, 2) for _ in range(3)] if not f32 else [10 ** rng.uniform(-1, 1) for _ in range(3)]
    c["xmag"] = rng.choice([0.0, 1.0, 10.0])
    c["arg_mode"] = force.get("arg_mode", rng.choice(["fresh", "inplace", "views"]))
    c["subclass"] = force.get("subclass", rng.random() < 0.3)
    c["clock"] = force.get("clock", rng.choice([None, None, 2 ** 24 + 1, 1_700_000_003]))
    if c["clock"] is not None:
        c["timevar"] = True
    c["alias_sys"] = force.get("alias_sys", rng.choice([None, None, ["affine", "state-view"], ["state", "state"], ["buffer", "state-view"]]))
    if c["alias_sys"]:
        c["nonlinear"], c["subclass"], c["clock"], c["timevar"] = False, False, None, False
        c["p"] = c["n"] if c["alias_sys"][1] == "state" else min(c["p"], c["n"])
    c["craft"] = force.get("craft", rng.random() < 0.5)
    c["pass_t"] = force.get("pass_t", rng.random() < 0.4)
    return c


def materialise_pf(c):
    rng = random.Random(c["seed"])
    n, m, p, dt = c["n"], c["m"], c["p"], dt_of(c["dtype"])
    prm = uf.gen_family(rng, n, m, p, dt, c["nonlinear"], c["timevar"], stable=True)
    prm = alias_params(prm, c.get("alias_sys"), n, m, p)
    sP, sQ, _ = c["scales"]

    def mk(nn, s):
        return uf.sym_round(uf.spd(rng, nn, s, c["cond"], False), dt)

    d = {"prm": prm, "P0": mk(n, sP), "x0": uf.round_dt(uf.vec_mag(rng, n, [c["xmag"]]), dt), "Qc": mk(n, sQ * 0.1)}
    # R comparable to the spread of the predicted observation, so that the likelihood is informative but the
    # effective sample size stays a sizeable fraction of N
    C0 = np.array(prm["C0"])
    Sobs = C0 @ (n * np.array(d["P0"])) @ C0.T
    base = float(np.trace(Sobs)) / p if p else 1.0
    if c["nonlinear"]:
        # spread of the observation over the prior N(x, nP), measured on a sample (the sine terms count)
        g0 = np.random.default_rng(c["seed"] & 0xFFFFFFFF)
        S0 = n * np.array(d["P0"])
        Xs = np.array(d["x0"])[None, :] + g0.standard_normal((2000, n)) @ np.linalg.cholesky((S0 + S0.T) / 2).T
        gv = uf.NpFam(prm, 0.0).g(Xs, np.zeros(m))
        base = float(gv.var(axis=0).mean())
    base = base if base > 1e-12 else 1.0
    d["Rc"] = mk(p, base * rng.choice([1.0, 3.0] if c["nonlinear"] else [0.5, 1.0, 3.0]))
    d["Qdecoy"], d["Rdecoy"] = mk(n, sQ * 3), mk(p, base * 4)
    d["delta"] = uf.round_dt(uf.vec_mag(rng, p, [0.5, 2.0]), dt)
    d["steps"] = [{"u": uf.round_dt(uf.vec_mag(rng, m, [0.0, 0.1, 1.0]), dt),
                   "ydev": [rng.gauss(0, 1) * rng.choice([0.3, 1.0, 1.5]) for _ in range(p)],
                   "torch_seed": rng.randrange(1 << 31)} for _ in range(c["T"])]
    for j, st in enumerate(d["steps"]):
        st["pass_q"], st["pass_r"] = plan_pass(c, rng, j)
        st["pass_qr"] = st["pass_q"] and st["pass_r"]
        st["qr_scale"] = rng.choice([1.0, 2.0, 0.5])       # the per-call Q, R differ from call to call
        st["grad"] = rng.choice(GRADS)
        if st["grad"] == "requires_grad" and c.get("fork_at") is not None and j < c["fork_at"]:
            st["grad"] = "no_grad"          # see materialise_run: deepcopy works only before any requires_grad call
        st["positional"] = rng.random() < 0.3
    for j, st in enumerate(d["steps"]):
        if c.get("qr_scales"):
            st["qr_scale"] = c["qr_scales"][j % len(c["qr_scales"])]
    return d


def pf_qr(c, d, st, T):
    """(Q, R) in force for this call — the source of each decided independently (passed for this call / stored in the
    filter object) — and the values to pass"""
    f = st.get("qr_scale", 1.0)
    stv = store_of(c)
    passed = {}
    if st["pass_q"]:
        Ql = [[v * f for v in row] for row in d["Qc"]]
        passed["Q"] = Ql
    else:
        Ql = d["Qdecoy"]
    if st["pass_r"]:
        Rl = [[v * f for v in row] for row in d["Rc"]]
        passed["R"] = Rl
    else:
        Rl = d["Rdecoy"]
    return Ql, Rl, passed


def pf_setup(c, d):
    P_ = uf.pp()
    dt = dt_of(c["dtype"])
    T = lambda v: torch.tensor(v, dtype=dt)
    sub = bool(c.get("subclass")) and not c.get("alias_sys")
    if c.get("alias_sys"):
        model = uf.fam_class().vfh13_Alias(d["prm"], dt)
        model.vfh13_f_mode, model.vfh13_g_mode = c["alias_sys"]
    else:
        model = (uf.fam_class().vfh13_Sub if sub else uf.fam_class())(d["prm"], dt)
    d["prmE"] = d["prm"]
    if sub:
        model.vfh13_delta = T(d["delta"])
        d["prmE"] = dict(d["prm"], c2=[a + b2 for a, b2 in zip(d["prm"]["c2"], d["delta"])])
    if c.get("clock") is not None:
        model.vfh13_tmod = 7
        model.reset(c["clock"])
    stv = store_of(c)
    ctorQ = T(d["Qdecoy"]) if stv in ("Q", "both") else None
    ctorR = T(d["Rdecoy"]) if stv in ("R", "both") else None
    if c.get("default_particles"):       # every optional argument omitted: documented default 1000 particles
        pf = rec_pf_class()(model)
    else:
        pf = rec_pf_class()(model, Q=ctorQ, R=ctorR, particles=c["N"])
    pf.vfh13_rec = {}
    return model, pf, T


def pf_measurement(fam, st, n, p, xl, Pl, Rl):
    """y = predicted observation of the particle model (at the prior mean) + deviation scaled by its spread"""
    xv, uv = uf.V(xl), uf.V(st["u"])
    C = fam.jg(xv, uv)
    S = C * (n * uf.M(Pl)) * C.T + uf.M(Rl)
    g0 = fam.g(xv, uv)
    return [float(g0[i]) + st["ydev"][i] * math.sqrt(abs(float(S[i, i]))) for i in range(p)]


def fpre_early(d, t_eff, rec, st):
    return float(uf.NpFam(d.get("prmE", d["prm"]), t_eff).fpre(rec["xp"].double().numpy(), np.array(st["u"])).max())


def run_pf_corr(ctx: Ctx, c, lines, metas):
    d = materialise_pf(c)
    n, m, p, N, dt = c["n"], c["m"], c["p"], c["N"], dt_of(c["dtype"])
    eps = common.EPS[c["dtype"]]
    model, pf, T = pf_setup(c, d)
    mode = c.get("arg_mode", "fresh")
    feed = Feeder(mode, dt)
    ctx.count(f"pf-corr.args={mode}")
    xl, Pl = d["x0"], d["P0"]
    mon = common.PurityMonitor()
    import copy
    stv = store_of(c)
    ctx.count(f"pf-corr.store={stv}")
    original = None
    held = None
    for j, st in enumerate(d["steps"]):
        if original is not None:            # the copy took one call; the original object continues
            if float(original[1].systime) != original[2]:
                ctx.fail(dict(c, step=j), "copy: a call on the deep copy of the PF object moved the ORIGINAL system's clock")
            pf, model = original[0], original[1]
            original = None
        if c.get("fork_at") == j and j > 0:
            original = (pf, model, float(model.systime))
            try:
                pf = copy.deepcopy(pf)
                model = pf.model
                ctx.count("pf-corr.fork.deepcopy")
            except Exception as e:  # noqa: BLE001
                ctx.fail(dict(c, step=j), f"copy: deepcopy of the PF object raised {type(e).__name__}: {str(e)[:80]}")
                pf, model = original[0], original[1]
                original = None
        clock_before = int(model.systime)
        t_eff = float(clock_before % 7) if c.get("clock") is not None else float(clock_before)
        fam = uf.MpFam(d["prmE"], t_eff)
        Ql, Rl, passed = pf_qr(c, d, st, T)
        ctx.count(f"pf-corr.pass(Q,R)=({int(st['pass_q'])},{int(st['pass_r'])}).store={stv}")
        yl = uf.round_dt(pf_measurement(fam, st, n, p, xl, Pl, Rl), dt)
        x, P, y, u = feed.give("x", xl), feed.give("P", Pl), feed.give("y", yl), feed.give("u", st["u"])
        kw = {kx: feed.give(kx, v) for kx, v in passed.items()}
        if c.get("pass_t") and j % 2 == 0:
            # PF documents `t` as "set system timestamp"; on the unchanged tree it only reaches set_refpoint, the particles
            # are propagated at the system clock — a `t` different from the clock must therefore not change the result
            kw["t"] = torch.tensor(float(clock_before) + 5.5, dtype=dt)
            ctx.count("pf-corr.t-passed")
        stepcase = dict(c, step=j)

        def craft(out):
            """draws at the ends of [0,1) and one ulp on either side of a cumulative-weight boundary (and above the last
            cumulative weight when rounding leaves it below 1: the clamp)"""
            if not c.get("craft") or out.shape != (N,) or N < 6 or "q" not in pf.vfh13_rec:
                return
            cs = torch.cumsum(pf.vfh13_rec["q"], dim=-1)
            i = N // 2
            one, zero = torch.ones((), dtype=out.dtype), torch.zeros((), dtype=out.dtype)
            out[0] = 0.0
            out[1] = torch.nextafter(one, zero)
            if float(cs[i]) < 1.0:
                out[2] = torch.nextafter(cs[i].to(out.dtype), one)
            if float(cs[i]) > 0.0:
                out[3] = torch.nextafter(cs[i].to(out.dtype), zero)
            if float(cs[-1]) < float(torch.nextafter(one, zero)):
                out[4] = torch.nextafter(cs[-1].to(out.dtype), one)
            if N >= 7:
                out[5] = cs[N // 3].to(out.dtype)          # an EXACT tie: either neighbour is admissible, nothing else
            ctx.count("pf-corr.crafted-draws")

        gm = st.get("grad", "plain")
        ctx.count(f"pf-corr.grad={gm}")
        # ---- a failing call (measurement of the wrong length) must leave the objects — incl. the system clock — as they were
        if c.get("fail_at") == j:
            clock0 = float(model.systime)
            model.vfh13_fail_next = "g" if j % 2 else "f"       # a valid use: the user's system function raises once
            model.vfh13_fail_skip = (c["seed"] + j) % 2          # at the reference point or inside model(xp, u)
            _, ferr = guarded_call(pf, mon, "pf.forward", [x, y, u, P], kw, {"grad": "plain"}, False)
            model.vfh13_fail_next, model.vfh13_fail_skip = "", 0
            ctx.count(f"pf-corr.failing-call.{'raised' if ferr else 'returned'}")
            if float(model.systime) != clock0:
                ctx.fail(stepcase, f"atomic: a PF call in which the user's system function raised moved the system clock from "
                                   f"{clock0} to {float(model.systime)}")
            if pf.particles != N or (stv in ("Q", "both") and not torch.equal(pf.Q, T(d["Qdecoy"]))) or \
                    (stv in ("R", "both") and not torch.equal(pf.R, T(d["Rdecoy"]))):
                ctx.fail(stepcase, "atomic: a failing PF call changed the filter's stored Q/R or particle count")
        torch.manual_seed(st["torch_seed"])
        pf.vfh13_rec = {}
        with RandRecorder(craft) as rr:
            out, err = guarded_call(pf, mon, "pf.forward", [x, y, u, P], kw, st, False)
        if err is not None:
            ctx.fail(stepcase, f"raises: PF raised at call {j} (arguments: {mode}, grad mode: {gm}): {err}")
            break
        bad = bad_output(out, n, dt)
        if bad is not None:
            ctx.fail(stepcase, f"output: PF call {j} {bad}")
            break
        x2, P2 = (o.detach().clone() for o in out)
        if held is not None and not (torch.equal(held[0].detach(), held[2]) and torch.equal(held[1].detach(), held[3])):
            ctx.fail(stepcase, f"output-alias: the result the caller still holds from PF call {j - 1} changed during call {j}")
        held = (out[0], out[1], x2.clone(), P2.clone()) if j % 2 else None
        if j % 2 == 0:          # overwriting the result must not reach the arguments or a later call (kind 15)
            out[0].detach().mul_(-3.0).add_(7.0)
            out[1].detach().zero_()
            for nm, arg, vals in (("x", x, xl), ("P", P, Pl), ("y", y, yl), ("u", u, st["u"])):
                if not torch.equal(arg.detach(), T(vals)):
                    ctx.fail(stepcase, f"output-alias: overwriting the result of PF call {j} changed the caller's `{nm}`")
        for nm in feed.touched():
            ctx.fail(stepcase, f"mutation: PF call {j} wrote into the caller's buffer behind argument `{nm}` (a view)")
        if pf.particles != N:
            ctx.fail(stepcase, f"state: PF call {j} changed its particle count to {pf.particles}")
        if (stv in ("Q", "both") and not torch.equal(pf.Q, T(d["Qdecoy"]))) or \
                (stv in ("R", "both") and not torch.equal(pf.R, T(d["Rdecoy"]))):
            ctx.fail(stepcase, f"state: PF call {j} changed the filter's stored Q/R")
        if not all(torch.equal(getattr(model, "vfh13_p_" + kx), T(d["prm"][kx])) for kx in uf.FAM_KEYS):
            ctx.fail(stepcase, f"state: PF call {j} changed the system's parameters")
        ctx.note_case(("pf-corr", n, m, p, N, c["dtype"], c["nonlinear"], j, c["qr_mode"]), N >= 2)
        ctx.count(f"pf-corr.{'nonlin' if c['nonlinear'] else 'lin'}.{c['dtype']}")
        rec = pf.vfh13_rec
        draws = [r for r in rr.draws if r.shape == (N,)]
        if not all(kx in rec for kx in ("xp", "q", "xs", "xr")) or len(draws) != 1:
            ctx.disagree("pf-corr", stepcase, f"could not observe the draws: recorded {sorted(rec)}, torch.rand calls "
                                              f"{[tuple(r.shape) for r in rr.draws]}")
            break
        r = draws[0]
        nonfin = [kx for kx in ("xp", "q", "xs", "xr") if not bool(torch.isfinite(rec[kx]).all())]
        if "lik_args" in rec and not bool(torch.isfinite(rec["lik_args"][1]).all()):
            nonfin.append("ye")
        if nonfin:
            # for finite valid inputs every intermediate of the documented particle model is finite
            ctx.fail(stepcase, f"non-finite: PF call {j} produced non-finite {', '.join(nonfin)} (N={N}, {c['dtype']}, args={mode})")
            break
        if int(model.systime) != clock_before + 1:
            ctx.disagree("pf-corr", stepcase, f"system clock after the call is {int(model.systime)}, model says {clock_before + 1}")
        # documented particle model: prior N(x, n P)
        gx, gP = rec["gen_args"]
        if not (torch.equal(gx, x) and float((gP.double() - n * P.double()).abs().max()) <= 4 * eps * float((n * P.double()).abs().max())):
            ctx.fail(stepcase, "pf-prior: generate_particles was not called with (x, n*P)")
        # PSD of the returned covariance, always
        scaleP = float(P2.double().abs().max()) + float(torch.tensor(Ql).abs().max()) + float(rec["xr"].double().abs().max()) ** 2
        asym, lam, ok = psd_check(P2, CTOL * eps * scaleP)
        if not ok:
            ctx.fail(stepcase, f"psd: PF covariance asymmetry {asym:.3e} min eigenvalue {lam:.3e}")
        # resampling picks existing particles
        xs, xr = rec["xs"], rec["xr"]
        laws_only = bool(c.get("laws_only"))
        # the selection rule on the code's own cumulative weights (torch.cumsum is the trusted kernel; the rule itself —
        # first cumulative weight >= draw, clamped to the last particle — evaluated by numpy): exact, for every draw
        cs_t = torch.cumsum(rec["q"], dim=-1)
        idx_ref = torch.from_numpy(np.minimum(np.searchsorted(cs_t.numpy(), r.numpy(), side="left"), N - 1))
        # at an exact tie (a draw equal to a cumulative weight — probability zero for a continuous draw) either neighbour is a
        # valid sampler: the right-continuous rule is accepted there
        idx_alt = torch.from_numpy(np.minimum(np.searchsorted(cs_t.numpy(), r.numpy(), side="right"), N - 1))
        badsel = (xs[idx_ref] != xr).any(dim=-1) & (xs[idx_alt] != xr).any(dim=-1)
        if bool(badsel.any()):
            jb = int(badsel.nonzero()[0])
            ctx.fail(stepcase, f"pf-resample: draw {jb} (r={float(r[jb])!r}) selected another particle than index {int(idx_ref[jb])} = "
                               f"min(first i with cumsum(q)[i] >= r, N-1) (N={N}, last index selected: {bool((idx_ref == N - 1).any())})")
        ctx.count("pf-corr.selected-last-particle" if bool((idx_ref == N - 1).any()) else "pf-corr.last-particle-not-selected")
        # margin of the discrete decision
        cs = torch.cumsum(rec["q"].double(), dim=-1)
        margin = float((cs.unsqueeze(0) - r.double().unsqueeze(1)).abs().min()) if N <= 2048 else 0.0
        if not laws_only:
            lines.append(f"c13.pf {n} {m} {p} {N} 0:0 " + uf.step_tokens(d["prmE"], t_eff, st["u"], yl, Ql, Rl, xl, Pl)
                         + " " + common.wire_list(uf.flat(rec["xp"].double().tolist())) + " " + common.wire_list(r.double().tolist()))
        ly, lye, lR = (a.double() for a in rec["lik_args"])
        le = ly - lye
        lRi = torch.linalg.inv(lR)
        maha = torch.einsum("ij,jk,ik->i", le, lRi, le)
        # absolute error of a logit: conditioning of the quadratic form + cancellation in e = y - g(xp)
        gpre = torch.tensor(uf.NpFam(d["prmE"], t_eff).gpre(rec["xp"].double().numpy(), np.array(st["u"])), dtype=torch.float64)
        epre = gpre.amax(dim=-1) + float(ly.abs().max())
        fpre = float(uf.NpFam(d["prmE"], t_eff).fpre(rec["xp"].double().numpy(), np.array(st["u"])).max())
        dlogit = (le @ lRi).abs().sum(dim=-1) * epre
        # ---- the documented particle model, evaluated directly on what the real code handed between its own stages
        # (float64 numpy/torch, independent of the Lean model): weights = Gaussian likelihood of y, normalised;
        # resampling = first cumulative weight >= draw; estimate = mean, covariance = Q + mean of outer products
        nfam = uf.NpFam(d["prmE"], t_eff)
        xpn, un = rec["xp"].double().numpy(), np.array(st["u"])
        fref, gref = torch.from_numpy(nfam.f(xpn, un)), torch.from_numpy(nfam.g(xpn, un))
        ftol = CTOL * eps * torch.from_numpy(nfam.fpre(xpn, un)) + 1e-300
        gtol = CTOL * eps * gpre + 1e-300
        if not (bool(((rec["xs"].double() - fref).abs() <= ftol).all()) and bool(((lye - gref).abs() <= gtol).all())):
            ctx.fail(stepcase, f"pf-propagate: the particles are not propagated / observed through the system at its clock "
                               f"(t={t_eff}): max |xs - f(xp,u,t)| = {float((rec['xs'].double() - fref).abs().max()):.3e}, "
                               f"max |ye - g(xp,u,t)| = {float((lye - gref).abs().max()):.3e} (N={N})")
        wref = torch.softmax(-maha / 2, dim=-1)
        dl0 = float(torch.linalg.cond(lR)) * (1.0 + maha / 2) + dlogit
        tolw0 = wref * (CTOL * eps * (dl0 + float(dl0[int(wref.argmax())]))) + 16 * eps * float(wref.max())
        if not bool(((rec["q"].double() - wref).abs() <= tolw0).all()):       # NaN-safe: a NaN weight is a failure
            i0 = int(((rec["q"].double() - wref).abs() / tolw0).argmax())
            ctx.fail(stepcase, f"pf-weights: importance weight {i0} is {float(rec['q'][i0]):.6e}, the Gaussian likelihood of y "
                               f"gives {float(wref[i0]):.6e} (N={N}, args={mode})")
        sx0 = max(float(xr.double().abs().max()), fpre_early(d, t_eff, rec, st)) + 1e-300
        mx0 = xr.double().mean(dim=0)
        ex0 = xr.double() - mx0
        P0ref = torch.tensor(Ql, dtype=torch.float64) + (ex0.unsqueeze(-1) * ex0.unsqueeze(-2)).mean(dim=0)
        if not (float((x2.double() - mx0).abs().max()) <= CTOL * eps * sx0 and
                float((P2.double() - P0ref).abs().max()) <= CTOL * eps * (scaleP + sx0 ** 2)):
            ctx.fail(stepcase, f"pf-moments: returned (x, P) is not (mean, Q + covariance) of the resampled particles: "
                               f"|dx|={float((x2.double() - mx0).abs().max()):.3e} |dP|={float((P2.double() - P0ref).abs().max()):.3e} "
                               f"(N={N})")
        if not laws_only:
            metas.append({"case": stepcase, "x": x2.detach().clone(), "P": P2.detach().clone(), "q": rec["q"], "xs": xs, "xr": xr,
                          "margin": margin, "eps": eps, "scaleP": scaleP + fpre ** 2, "maha": maha, "dlogit": dlogit, "fpre": fpre,
                          "kappaR": float(torch.linalg.cond(lR))})
        if j == 0:
            ctx.sample(dict(c), cap=10)
        xl, Pl = x2.detach().double().tolist(), P2.detach().double().tolist()
    for mu in mon.mutations:
        ctx.fail(dict(c), f"mutation: {mu['function']} changed its argument {mu['argument']}")


def compare_pf(ctx: Ctx, lines, metas, verbose=False, reps=None):
    reps = ctx.driver.run(lines) if reps is None else reps
    for rep, me in zip(reps, metas):
        st, toks = common.parse_reply(rep)
        case = me["case"]
        n, N = case["n"], case["N"]
        if st != "ok":
            if toks.startswith("contract") or toks.startswith("arity") or toks.startswith("bad") or toks.startswith("unknown"):
                raise common.InfraError(f"driver: {rep} for {case}")
            ctx.disagree("pf-corr", case, f"model fails ({toks}) but the implementation returned a value")
            continue
        vals = [common.from_wire(t) for t in toks]
        mx, mP = vals[:n], vals[n:n + n * n]
        idx = [int(v) for v in vals[n + n * n:n + n * n + N]]
        w = vals[n + n * n + N:]
        eps = me["eps"]
        # weights: relative error of w_i is the absolute error of its logit (Mahalanobis form, conditioning of R)
        wt = torch.tensor([float(v) for v in w], dtype=torch.float64)
        dl = me["kappaR"] * (1.0 + me["maha"] / 2) + me["dlogit"]
        delta = CTOL * eps * (dl + float(dl[int(wt.argmax())]))
        tolw = wt * delta + 16 * eps * float(wt.max())
        dwv = (me["q"].double() - wt).abs()
        ctx.hist["pf-corr.weights.maxratio"] = max(ctx.hist.get("pf-corr.weights.maxratio", 0.0), float((dwv / tolw).max()))
        if not bool((dwv <= tolw).all()):
            i = int((dwv / tolw).argmax())
            ctx.disagree("pf-corr", case, f"importance weight {i} differs from the model: {float(me['q'][i]):.6e} vs "
                                          f"{float(wt[i]):.6e} (tol {float(tolw[i]):.3e})")
            continue
        if me["margin"] <= float(tolw.sum()) + 4 * eps:
            ctx.count("pf-corr.boundary-skip")
            continue
        want_xr = me["xs"][torch.tensor(idx, dtype=torch.long)]
        if not torch.equal(want_xr, me["xr"]):
            bad = int((want_xr != me["xr"]).any(dim=-1).nonzero()[0])
            ctx.disagree("pf-corr", case, f"resampled set differs from the model's choice at draw {bad} (model index {idx[bad]})")
            continue
        sx = max(float(me["xr"].double().abs().max()), me["fpre"]) + 1e-300   # pre-cancellation size of f at the particles
        tolx, tolP = CTOL * eps * sx, CTOL * eps * me["scaleP"]
        dx, dP = uf.maxdiff(me["x"], mx), uf.maxdiff(me["P"], mP)
        if verbose:
            print(f"  call {case['step']}: implementation x={me['x'].tolist()} model x={[float(v) for v in mx]}")
        if not (dx <= tolx and dP <= tolP):
            ctx.disagree("pf-corr", case, f"PF moments: |dx|={dx:.3e} (tol {tolx:.3e}) |dP|={dP:.3e} (tol {tolP:.3e})")


# ----------------------------------------------------------------------------- PF statistics

def lin_posterior(d, t_eff, st, y, n, xl, Pl, Rl):
    """exact posterior mean (and the per-sample variances of the estimator) of the documented particle model on an
    affine system: X ~ N(x, nP), y = g(X) + v, v ~ N(0, R), estimate E[f(X) | y]"""
    fam = uf.MpFam(d.get("prmE", d["prm"]), t_eff)
    xv, uv = uf.V(xl), uf.V(st["u"])
    A, C = fam.jf(xv, uv), fam.jg(xv, uv)
    S0 = n * uf.M(Pl)
    R = uf.M(Rl)
    S = C * S0 * C.T + R
    K = S0 * C.T * mp.inverse(S)
    mu = xv + K * (uf.V(y) - fam.g(xv, uv))
    Sp = S0 - K * C * S0
    mean_f = fam.f(mu, uv)
    cov_f = A * Sp * A.T
    # importance-sampling part: E_prior[w~^2 (h - hbar)^2], w~ = L / E[L]; prior * L^2 is Gaussian N(mu2, S2) * c
    Ri = mp.inverse(R)
    S0i = mp.inverse(S0)
    S2 = mp.inverse(S0i + 2 * C.T * Ri * C)
    e0 = uf.V(y) - fam.g(xv, uv)
    mu2 = xv + S2 * (2 * C.T * Ri * e0)
    # constant c = int prior L^2 / (int prior L)^2
    p = len(y)
    # int prior*L = N(e0; 0, S);  int prior*L^2 = (2pi)^(-p) |R|^-1 * sqrt(|S2|/|S0|) * exp(-1/2 (2 e0'Ri e0 - b' S2 b)), b = 2 C'Ri e0
    b = 2 * C.T * Ri * e0
    quad2 = 2 * (e0.T * Ri * e0)[0] - (b.T * S2 * b)[0]
    logI2 = -p * mp.log(2 * mp.pi) - mp.log(mp.det(R)) + (mp.log(mp.det(S2)) - mp.log(mp.det(S0))) / 2 - quad2 / 2
    logI1 = -(p * mp.log(2 * mp.pi) + mp.log(mp.det(S))) / 2 - (e0.T * mp.inverse(S) * e0)[0] / 2
    cfac = mp.exp(logI2 - 2 * logI1)          # = E[w~^2] = N / ESS
    dm = A * (mu2 - mu)
    var_is = [cfac * ((A * S2 * A.T)[i, i] + dm[i] ** 2) for i in range(n)]
    var_rs = [cov_f[i, i] for i in range(n)]
    return mean_f, [float(var_is[i] + var_rs[i]) for i in range(n)], float(cfac), cov_f


def run_pf_stat(ctx: Ctx, c, verbose=False):
    d = materialise_pf(c)
    n, m, p, N, dt = c["n"], c["m"], c["p"], c["N"], dt_of(c["dtype"])
    eps = common.EPS[c["dtype"]]
    model, pf, T = pf_setup(c, d)
    x, P = T(d["x0"]), T(d["P0"])
    for j, st in enumerate(d["steps"]):
        t_eff = float(int(model.systime) % 7) if c.get("clock") is not None else float(model.systime)
        fam = uf.MpFam(d.get("prmE", d["prm"]), t_eff)
        xl, Pl = x.double().tolist(), P.double().tolist()
        Ql, Rl, passed = pf_qr(c, d, st, T)
        kw = {kx: T(v) for kx, v in passed.items()}
        yl = uf.round_dt(pf_measurement(fam, st, n, p, xl, Pl, Rl), dt)
        y, u = T(yl), T(st["u"])
        stepcase = dict(c, step=j)
        torch.manual_seed(st["torch_seed"])
        pf.vfh13_rec = {}
        try:
            out = pf(x, y, u, P, **kw)
        except Exception as e:  # noqa: BLE001
            ctx.fail(stepcase, f"raises: PF raised at call {j} (N={N}, {c['dtype']}): {type(e).__name__}: {str(e)[:100]}")
            break
        bad = bad_output(out, n, dt)
        if bad is not None:
            ctx.fail(stepcase, f"output: PF call {j} (N={N}) {bad}")
            break
        x2, P2 = out
        ctx.note_case(("pf-stat", n, m, p, N, c["dtype"], c["nonlinear"], j), True)
        ctx.count(f"pf-stat.N={N}")
        ctx.count(f"pf-stat.{'nonlin' if c['nonlinear'] else 'lin'}.{c['dtype']}")
        if not c["nonlinear"]:
            mean_f, var1, cfac, cov_f = lin_posterior(d, t_eff, st, yl, n, xl, Pl, Rl)
            ref = [float(v) for v in mean_f]
            refcov = None
        else:
            ref, var1, cfac, refvar = is_reference(c, d, fam, st, yl, xl, Pl, N, Rl)
            if cfac > 200:      # the reference itself has collapsed onto a few samples: no verdict from this case
                ctx.count("pf-stat.skipped-low-ess")
                x, P = x2.detach(), P2.detach()
                continue
        ctx.hist["pf-stat.maxN/ESS"] = max(ctx.hist.get("pf-stat.maxN/ESS", 0.0), cfac)
        sdev = math.sqrt(n * float(torch.tensor(Pl).abs().max()))
        fpre0 = float(uf.NpFam(d.get("prmE", d["prm"]), t_eff).fpre(np.abs(np.array(xl))[None, :] + 4 * sdev, np.array(st["u"])).max())
        worst = 0.0
        # the band is a central-limit statement: it needs a sizeable effective sample (N/ESS = E[w~^2])
        verdict = N / max(cfac, 1.0) >= 200
        ctx.count("pf-stat.verdicts" if verdict else "pf-stat.low-ess-no-verdict")
        for i in (range(n) if verdict else []):
            sigma = math.sqrt(max(var1[i], 0.0) / N)
            floor = 64 * eps * math.log2(N) * (abs(ref[i]) + float(x2.double().abs().max()) + fpre0)
            z = abs(float(x2[i]) - ref[i]) / (sigma + 1e-300)
            worst = max(worst, (abs(float(x2[i]) - ref[i]) - floor) / (sigma + 1e-300))
            if not (abs(float(x2[i]) - ref[i]) <= 6.5 * sigma + floor):
                ctx.fail(stepcase, f"pf-mean: component {i}: estimate {float(x2[i]):.6g} vs posterior mean {ref[i]:.6g} of the "
                                   f"documented particle model: {z:.1f} sigma (sigma={sigma:.3e}, N={N}, N/ESS={cfac:.1f}, "
                                   f"n,p={n},{p}, {c['dtype']})")
                break
        ctx.hist["pf-stat.max_z"] = max(ctx.hist.get("pf-stat.max_z", 0.0), worst)
        if verbose:
            print(f"  call {j}: PF estimate {x2.tolist()}\n           posterior mean {ref}  (max z {worst:.2f})")
        # covariance: PSD always; on affine systems also consistent with Q + A Sp A^T (looser: 4th moments)
        scaleP = float(P2.double().abs().max()) + float(x2.double().abs().max()) ** 2 + 1e-300
        asym, lam, ok = psd_check(P2, CTOL * eps * scaleP * math.log2(N))
        if not ok:
            ctx.fail(stepcase, f"psd: PF covariance asymmetry {asym:.3e} min eigenvalue {lam:.3e} (N={N})")
        if not c["nonlinear"] and verdict:
            want = cov_f + uf.M(Ql)
            for i in range(n):
                wv = float(want[i, i])
                sd = wv * math.sqrt((2.0 + 3.0 * cfac) / N) * 3.0
                if not (abs(float(P2[i, i]) - wv) <= 6.5 * sd + 256 * eps * wv * math.sqrt(N)):
                    ctx.fail(stepcase, f"pf-cov: diagonal {i}: {float(P2[i, i]):.6g} vs Q + posterior covariance {wv:.6g} "
                                       f"(band {6.5 * sd:.3g}, N={N}, N/ESS={cfac:.1f})")
                    break
        if j == 0:
            ctx.sample(dict(c), cap=12)
        x, P = x2.detach(), P2.detach()
        if not bool(torch.isfinite(x).all() and torch.isfinite(P).all()):
            ctx.fail(stepcase, f"raises: PF returned non-finite values at call {j}")
            break


def is_reference(c, d, fam, st, yl, xl, Pl, N, Rl):
    """independent self-normalised importance-sampling estimate of E[f(X)|y] for a non-linear family member
    (float64 numpy, own draws); returns (mean, per-sample variance incl. the reference's own error, N/ESS)"""
    n, p = c["n"], c["p"]
    g = np.random.default_rng(st["torch_seed"] ^ 0x5EED)
    Mref = 200000
    S0 = n * np.array(Pl)
    Lc = np.linalg.cholesky((S0 + S0.T) / 2)
    X = np.array(xl)[None, :] + g.standard_normal((Mref, n)) @ Lc.T
    nf = uf.NpFam(d.get("prmE", d["prm"]), float(fam.t))
    u = np.array(st["u"])
    fx, gx = nf.f(X, u), nf.g(X, u)
    Ri = np.linalg.inv(np.array(Rl))
    e = np.array(yl)[None, :] - gx
    ll = -0.5 * np.einsum("ij,jk,ik->i", e, Ri, e)
    w = np.exp(ll - ll.max())
    w = w / w.sum()
    mean = (w[:, None] * fx).sum(0)
    dev2 = (fx - mean[None, :]) ** 2
    cfac = float(Mref * (w ** 2).sum())
    v_is = Mref * ((w ** 2)[:, None] * dev2).sum(0)
    v_rs = (w[:, None] * dev2).sum(0)
    # variance of the PF estimate per sample (x2 for the uncertainty of this very estimate of it) + the reference's
    # own variance expressed per PF sample
    var1 = [float((v_is[i] + v_rs[i]) * 2.0 + v_is[i] * N / Mref * 2.0) for i in range(n)]
    return [float(v) for v in mean], var1, cfac, v_rs


# ----------------------------------------------------------------------------- drivers of the streams

def run(ctx: Ctx):
    import time
    rng = ctx.rng
    t0 = time.time()
    torch.set_num_threads(1)      # tiny matrices: thread hand-off costs more than the work
    lines, metas = [], []
    n_runs = ctx.pick(70, 400)
    forced = [{"filter": "ekf", "nonlinear": False}, {"filter": "ukf", "nonlinear": False},
              {"filter": "ekf", "nonlinear": True}, {"filter": "ukf", "nonlinear": True},
              {"filter": "ukf", "nonlinear": False, "k": "none"}, {"filter": "ukf", "nonlinear": False, "k": "-n+0.5"},
              {"filter": "ekf", "nonlinear": False, "T": 20 if ctx.quick else 50},
              {"filter": "ukf", "nonlinear": False, "T": 20 if ctx.quick else 50}]
    # on affine systems the UKF result does not depend on k (theorem), so the handling of k is only visible on
    # non-linear members: one short non-linear run per k choice
    forced += [{"filter": "ukf", "nonlinear": True, "k": kc, "T": 2, "dtype": "float64", "vary_k": False, "extreme": "-"}
               for kc in K_CHOICES]
    gens = []
    for c in corpus_runs(ctx.quick):
        ctx.count("corpus.run")
        gens.append(run_gen(ctx, c, lines, metas))
    for i in range(n_runs):
        c = gen_run(rng, ctx.quick, forced[i] if i < len(forced) else None)
        gens.append(run_gen(ctx, c, lines, metas))
    # calls on different objects (EKF / UKF, different dimensions and dtypes) alternate in one process (kind 17)
    interleave(gens, 3)
    shared_stream(ctx)
    t1 = time.time()
    # PF with recorded draws
    plines, pmetas = [], []
    for c in corpus_pf():
        ctx.count("corpus.pf")
        run_pf_corr(ctx, c, plines, pmetas)
    for i in range(ctx.pick(24, 120)):
        run_pf_corr(ctx, gen_pf(rng, False, ctx.quick), plines, pmetas)
    t2 = time.time()
    # one batch through the model (fans out over processes), heavy PF lines first
    reps = ctx.driver.run(plines + lines)
    compare_pf(ctx, plines, pmetas, reps=reps[:len(plines)])
    compare_runs(ctx, lines, metas, reps=reps[len(plines):])
    t3 = time.time()
    # PF statistics
    torch.set_num_threads(4)
    forced = [{"N": 1000, "nonlinear": False}, {"N": 10000, "nonlinear": False}, {"N": 100000, "nonlinear": False, "T": 1},
              {"N": 3000, "nonlinear": True}, {"N": 1000000, "dtype": "float64", "nonlinear": False, "T": 1}]
    for i in range(ctx.pick(12, 40)):
        run_pf_stat(ctx, gen_pf(rng, True, ctx.quick, forced[i] if i < len(forced) else None))
    f32_large(ctx)
    pf_large_laws(ctx)
    pf_defaults(ctx)
    witness_stream(ctx)
    t4 = time.time()
    ctx.notes.append(f"wall: runs {t1 - t0:.1f}s, pf-corr {t2 - t1:.1f}s, model driver {t3 - t2:.1f}s, pf-stat {t4 - t3:.1f}s")


# ----------------------------------------------------------------------------- shared argument tensors (class 43)

SHARED_CORPUS = [
    {"filters": ["ekf", "ukf"], "retune": 0, "retune_what": "both", "late": "ekf", "dtype": "float64", "n": 2, "m": 1, "p": 1},
    {"filters": ["ukf", "ekf", "pf"], "retune": 1, "retune_what": "both", "late": None, "dtype": "float64", "n": 3, "m": 2, "p": 2},
    {"filters": ["pf", "ekf"], "retune": 0, "retune_what": "both", "late": "ukf", "dtype": "float64", "n": 2, "m": 1, "p": 2},
    {"filters": ["ekf", "ekf"], "retune": 1, "retune_what": "Q", "late": None, "dtype": "float32", "n": 1, "m": 1, "p": 1},
    {"filters": ["ukf", "ukf", "ekf"], "retune": 0, "retune_what": "R", "late": "ekf", "dtype": "float64", "n": 4, "m": 1, "p": 3},
    {"filters": ["ekf", "pf"], "retune": 1, "retune_what": "both", "late": None, "dtype": "float32", "n": 2, "m": 2, "p": 1},
]


def gen_shared(rng: random.Random, force=None):
    """a history on two or three filters (EKF / UKF / PF mixed) constructed from the SAME caller tensors Q0, R0 (and called
    with the same P0 / x0 tensor objects); one of them is re-tuned with `set_uncertainty` (same shapes, other values)"""
    c = {"kind": "shared", "seed": rng.randrange(1 << 40)}
    c["n"], c["m"], c["p"] = rng.choice([1, 2, 3, 4]), rng.choice([1, 2]), rng.choice([1, 2, 3])
    c["dtype"] = rng.choice(["float64", "float64", "float32"])
    c["filters"] = rng.choice([["ekf", "ukf"], ["ukf", "ekf"], ["ekf", "ekf"], ["ukf", "ukf"], ["ekf", "ukf", "pf"],
                               ["pf", "ekf"], ["ukf", "pf", "ekf"], ["pf", "pf"], ["ukf", "pf"]])
    c["retune"] = rng.randrange(len(c["filters"]))
    c["retune_what"] = rng.choice(["both", "both", "Q", "R"])
    c["retune_twice"] = rng.random() < 0.4
    c["late"] = rng.choice([None, "ekf", "ukf", "pf"])
    c["N"] = rng.choice([40, 200])
    c.update(force or {})
    return c


def run_shared(ctx: Ctx, c, verbose=False):
    P_ = uf.pp()
    rng = random.Random(c["seed"])
    n, m, p, dt = c["n"], c["m"], c["p"], dt_of(c["dtype"])
    eps = common.EPS[c["dtype"]]
    T = lambda v: torch.tensor(v, dtype=dt)
    torch.manual_seed(c["seed"] % (1 << 31))
    prm = uf.gen_family(rng, n, m, p, dt, False, False, stable=True)
    mk = lambda nn, s: uf.sym_round(uf.spd(rng, nn, s, 10.0, False), dt)
    Ql = [mk(n, 0.3), mk(n, 3.0), mk(n, 0.05)]          # Q0 (constructor), Q1, Q2 (re-tuning): same shape, other values
    Rl = [mk(p, 1.0), mk(p, 0.1), mk(p, 7.0)]
    P0l, x0l = mk(n, 1.0), uf.round_dt(uf.vec_mag(rng, n, [1.0]), dt)
    # the caller's tensor objects: ONE Q0, ONE R0 feed every constructor, ONE x0 / P0 feed every first call
    Qt, Rt = [T(v) for v in Ql], [T(v) for v in Rl]
    P0, x0 = T(P0l), T(x0l)
    held = [("Q0", Qt[0], Ql[0]), ("R0", Rt[0], Rl[0]), ("Q1", Qt[1], Ql[1]), ("R1", Rt[1], Rl[1]), ("Q2", Qt[2], Ql[2]),
            ("R2", Rt[2], Rl[2]), ("P0", P0, P0l), ("x0", x0, x0l)]
    N = c.get("N", 200)
    hist = []                                              # the concrete history, for the failure message

    def build(kind):
        model = uf.fam_class()(prm, dt)
        if kind == "pf":
            f = rec_pf_class()(model, Q=Qt[0], R=Rt[0], particles=N)
            f.vfh13_rec = {}
        else:
            f = (P_.module.UKF if kind == "ukf" else P_.module.EKF)(model, Q=Qt[0], R=Rt[0])
        return {"kind": kind, "f": f, "model": model, "Q": 0, "R": 0, "x": x0, "P": P0, "xl": x0l, "Pl": P0l}

    reported = set()

    def hygiene(tag):
        """reports every changed caller tensor / stored covariance ONCE; the history goes on (the calls that follow show
        what the change does to the other filters' results)"""
        ok = True
        for nm, tens, vals in held:
            if nm in reported:
                continue
            if not torch.equal(tens, T(vals)):
                reported.add(nm)
                ctx.fail(dict(c, step=tag), f"mutation: after [{'; '.join(hist)}] the caller's tensor `{nm}` has changed "
                                            f"(max |d| = {float((tens.double() - T(vals).double()).abs().max()):.3e})")
                ok = False
        for i, o in enumerate(objs):
            for nm, idx, lst in (("Q", o["Q"], Ql), ("R", o["R"], Rl)):
                try:
                    cur = getattr(o["f"], nm)
                except Exception as e:       # noqa: BLE001
                    ctx.fail(dict(c, step=tag), f"raises: reading `{nm}` of filter {i} ({o['kind']}) after [{'; '.join(hist)}]: "
                                                f"{type(e).__name__}: {str(e)[:80]}")
                    ok = False
                    continue
                if (i, nm) in reported:
                    continue
                if not (isinstance(cur, torch.Tensor) and cur.shape == T(lst[idx]).shape and torch.equal(cur, T(lst[idx]))):
                    reported.add((i, nm))
                    ctx.fail(dict(c, step=tag), f"state: after [{'; '.join(hist)}] the stored `{nm}` of filter {i} ({o['kind']}) "
                                                f"is no longer the {nm}{idx} it was given")
                    ok = False
        return ok

    def use(i, tag):
        """one call on filter i that relies on ITS stored Q / R; judged by the Kalman posterior for the noise model it was given"""
        o = objs[i]
        ul = uf.round_dt(uf.vec_mag(rng, m, [0.0, 0.1, 1.0]), dt)
        fam = uf.MpFam(prm, 0.0)
        Qe, Re = Ql[o["Q"]], Rl[o["R"]]
        ref0 = uf.mp_kalman_predict(fam, ul, Qe, Re, o["xl"], o["Pl"])
        yl = uf.round_dt([float(ref0["gx"][q_]) + rng.gauss(0, 1) * rng.choice([0.3, 1.0, 3.0]) for q_ in range(p)], dt)
        ref = uf.mp_kalman_update(ref0, yl)
        hist.append(f"filter {i} ({o['kind']}) called with its stored Q{o['Q']}, R{o['R']}")
        case = dict(c, step=tag)
        ctx.note_case(("shared", tuple(c["filters"]), c["retune"], c["retune_what"], tag, n, m, p, c["dtype"]), True)
        ctx.count(f"shared.call.{o['kind']}")
        u, y = T(ul), T(yl)
        if o["kind"] == "pf":
            o["f"].vfh13_rec = {}
        if o["kind"] == "ukf" and o.get("tolP", 0.0) > 0 and sym_defect(o["P"])[1] <= 4 * n * o["tolP"]:
            # this filter's own previous posterior is singular at rounding level (its smallest eigenvalue is below the
            # tolerance of the call that produced it): no Cholesky factor in floating point — not a verdict, history ends
            ctx.count("shared.stopped.rounding-singular-prior")
            hist.pop()
            return False
        try:
            out = o["f"](o["x"], y, u, o["P"])
        except Exception as e:       # noqa: BLE001
            ctx.fail(case, f"raises: [{'; '.join(hist)}]: {type(e).__name__}: {str(e)[:100]}")
            return False
        bad = bad_output(out, n, dt)
        if bad:
            ctx.fail(case, f"output: [{'; '.join(hist)}]: {bad}")
            return False
        x2, P2 = out[0].detach(), out[1].detach()
        if o["kind"] == "pf":
            rec = o["f"].vfh13_rec
            if "lik_args" in rec and "xr" in rec:
                if not torch.equal(rec["lik_args"][2], T(Re)):
                    ctx.fail(case, f"shared-pf-noise: [{'; '.join(hist)}]: the likelihood used another R than the R{o['R']} this "
                                   f"filter was given (max |d| = {float((rec['lik_args'][2].double() - T(Re).double()).abs().max()):.3e})")
                xr = rec["xr"].double()
                ex = xr - xr.mean(dim=0)
                Pref = torch.tensor(Qe, dtype=torch.float64) + (ex.unsqueeze(-1) * ex.unsqueeze(-2)).mean(dim=0)
                sc = float(Pref.abs().max()) + float(xr.abs().max()) ** 2
                if not (float((P2.double() - Pref).abs().max()) <= CTOL * eps * sc):
                    ctx.fail(case, f"shared-pf-noise: [{'; '.join(hist)}]: returned P is not Q{o['Q']} + covariance of the resampled "
                                   f"particles (|dP| = {float((P2.double() - Pref).abs().max()):.3e})")
            else:
                ctx.disagree("shared", case, f"could not observe the PF stages: recorded {sorted(rec)}")
        else:
            tol = None
            if o["kind"] == "ukf":
                try:
                    uinfo = uf.np_ukf(uf.NpFam(prm, 0.0), 3 - n, ul, yl, Qe, Re, o["xl"], o["Pl"])
                    if all(math.isfinite(v) for v in uinfo.values()):
                        tol = tol_pair(uinfo, eps, 1.0)
                except (np.linalg.LinAlgError, ZeroDivisionError, FloatingPointError):
                    tol = None
            else:
                tol = tol_pair(ref, eps)
            if tol is not None:
                rx, rP = uf.ratio(x2, ref["x"], tol[0]), uf.ratio(P2, ref["P"], tol[1])
                ctx.count("oracle.shared-kf-equality")
                if verbose:
                    print(f"  {hist[-1]}: x={x2.tolist()} reference x={uf.mp_to_list(ref['x'])}")
                if not (rx <= 1 and rP <= 1):
                    ctx.fail(case, f"shared-kf-equality: [{'; '.join(hist)}]: the result is not the Kalman posterior for (Q{o['Q']}, "
                                   f"R{o['R']}): |x-x_KF|={uf.maxdiff(x2, ref['x']):.3e} ({rx:.2e} x tol) "
                                   f"|P-P_KF|={uf.maxdiff(P2, ref['P']):.3e} ({rP:.2e} x tol) n,m,p={n},{m},{p} {c['dtype']}")
        o["x"], o["P"] = x2.clone(), P2.clone()
        o["xl"], o["Pl"] = x2.double().tolist(), P2.double().tolist()
        o["tolP"] = 0.0 if o["kind"] == "pf" else (float("inf") if tol is None else tmax(tol[1]))
        hygiene(tag)
        return True

    def retune(i, ver, what):
        o = objs[i]
        kw = {}
        if what in ("both", "Q"):
            kw["Q"], o["Q"] = Qt[ver], ver
        if what in ("both", "R"):
            kw["R"], o["R"] = Rt[ver], ver
        hist.append(f"filter {i} ({o['kind']}).set_uncertainty({', '.join(f'{k_}={k_}{ver}' for k_ in kw)})")
        ctx.count("shared.set_uncertainty")
        try:
            o["f"].set_uncertainty(**kw)
        except Exception as e:       # noqa: BLE001
            ctx.fail(dict(c, step="retune"), f"raises: [{'; '.join(hist)}]: {type(e).__name__}: {str(e)[:100]}")
            return False
        hygiene(f"retune{ver}")
        return True

    objs = [build(k_) for k_ in c["filters"]]
    hist.append(f"{len(objs)} filters ({', '.join(c['filters'])}) constructed from the same Q0, R0 ({c['dtype']}, n,m,p={n},{m},{p})")
    r = c["retune"]
    others = [i for i in range(len(objs)) if i != r]
    if c.get("use_before", True):
        for i in range(len(objs)):
            if not use(i, f"before{i}"):
                return
    if not retune(r, 1, c["retune_what"]):
        return
    for i in others + [r]:
        if not use(i, f"after{i}"):
            return
    if c.get("retune_twice"):
        # a second re-tuning, of the same filter (its buffers now hold the caller's Q1 / R1 objects) or of another one
        r2 = r if rng.random() < 0.5 else others[0]
        if not retune(r2, 2, "both"):
            return
        for i in range(len(objs)):
            if not use(i, f"again{i}"):
                return
    if c.get("late"):
        objs.append(build(c["late"]))
        hist.append(f"filter {len(objs) - 1} ({c['late']}) constructed from the same Q0, R0 afterwards")
        use(len(objs) - 1, "late")


def shared_stream(ctx: Ctx):
    rng = random.Random(ctx.seed * 104729 + 43)
    for i, force in enumerate(SHARED_CORPUS):
        ctx.count("corpus.shared")
        run_shared(ctx, gen_shared(random.Random(4300 + i), dict(force, seed=4300 + i, corpus=300 + i, retune_twice=bool(i % 2), N=60)))
    for _ in range(ctx.pick(10, 60)):
        run_shared(ctx, gen_shared(rng))


_QUAD = None


def quad_class():
    """the witness system of theorem ukf_negative_centre_not_psd: f(x,u) = x, g(x,u) = x^2 + x"""
    global _QUAD
    if _QUAD is None:
        NLS = uf.pp().module.NLS

        class QuadNLS(NLS):
            def state_transition(self, state, input, t=None):
                return state

            def observation(self, state, input, t=None):
                return state * state + state

        _QUAD = QuadNLS
    return _QUAD


def witness_stream(ctx: Ctx):
    """Replay of the Lean witness on the implementation: k = -1/2 (centre weight -1), P = 1/2, Q = 3/2, R = 1, x = y = u = 0.
    Theorem ukf_negative_centre_witness_value: every admissible pinv / msqrt gives x = -4, P = -2 (not PSD) — the guard
    `whenever its centre weight is non-negative` of the property is sharp. The real code must return exactly that (all data
    and intermediate values are dyadic), and the model run in BigF agrees."""
    rep = ctx.driver.run(["c13.witness"])[0]
    stt, toks = common.parse_reply(rep)
    if stt != "ok":
        raise common.InfraError(f"driver: {rep}")
    mv = [float(common.from_wire(t)) for t in toks]
    for dname in ("float64", "float32"):
        dt = dt_of(dname)
        case = {"kind": "witness", "dtype": dname}
        ukf = uf.pp().module.UKF(quad_class()())
        T = lambda v: torch.tensor(v, dtype=dt)
        try:
            out = ukf(T([0.0]), T([0.0]), T([0.0]), T([[0.5]]), T([[1.5]]), T([[1.0]]), k=-0.5)
        except Exception as e:  # noqa: BLE001
            ctx.fail(case, f"ukf-documented: the necessity witness raises {type(e).__name__}: {str(e)[:80]}")
            continue
        bad = bad_output(out, 1, dt)
        if bad is not None:
            ctx.fail(case, f"output: UKF on the necessity witness {bad}")
            continue
        xv, Pv = float(out[0][0]), float(out[1][0, 0])
        tol = CTOL * common.EPS[dname] * 16.0
        ctx.note_case(("witness", dname), True)
        ctx.count("witness.ukf-negative-centre")
        if not (abs(xv - (-4.0)) <= tol and abs(Pv - (-2.0)) <= tol):
            ctx.fail(case, f"ukf-documented: necessity witness (k=-1/2): implementation returns x={xv!r}, P={Pv!r}; the documented "
                           f"recursion gives x=-4, P=-2")
        if not (abs(mv[0] - xv) <= tol and abs(mv[1] - Pv) <= tol):
            ctx.disagree("witness", case, f"model gives x={mv[0]!r}, P={mv[1]!r}, implementation x={xv!r}, P={Pv!r}")


def pf_large_laws(ctx: Ctx):
    """particle counts around internal block sizes (2^14, 2^14+1, 2^16+1, ...): the deterministic laws of the documented particle
    model (weights, selection rule incl. the LAST particle, moments) on what the real code hands between its stages — no model
    run needed on 10^5 items"""
    sizes = [16385, 65537, 131073] if ctx.quick else [16384, 16385, 32769, 65536, 65537, 131073, 2 ** 18 + 1, 2 ** 18 + 37, 2 ** 20 + 1]
    for i, N in enumerate(sizes):
        c = gen_pf(random.Random(130300 + i), False, True, {"dtype": "float64" if i % 2 == 0 else "float32", "nonlinear": False,
                                                            "N": N, "store": "none", "fail_at": None, "fork_at": None,
                                                            "arg_mode": "fresh", "craft": True, "subclass": False, "clock": None})
        c.update(seed=130300 + i, n=2, m=1, p=2, T=1, laws_only=True, corpus=100 + i)
        ctx.count(f"pf-large.N={N}")
        run_pf_corr(ctx, c, [], [])


def pf_defaults(ctx: Ctx):
    """several PF objects constructed with every optional argument omitted (documented default: 1000 particles, nothing stored),
    different systems, used one after the other in one process; laws of the particle model on each"""
    for i in range(2):
        c = gen_pf(random.Random(130400 + i), False, True, {"dtype": "float64", "nonlinear": bool(i), "N": 1000, "store": "none",
                                                            "fail_at": None, "fork_at": None, "arg_mode": "fresh", "craft": False,
                                                            "subclass": False, "clock": None, "alias_sys": None, "pass_t": False})
        c.update(seed=130400 + i, n=2 + i, m=1, p=2, T=2, N=1000, laws_only=True, default_particles=True, corpus=200 + i)
        ctx.count("pf-defaults")
        run_pf_corr(ctx, c, [], [])


def f32_large(ctx: Ctx):
    """float32, one-dimensional, 1e6 particles, several calls on one object: the cumulative weights end below 1 by
    rounding, so a draw above the last entry must still select a particle (D19)."""
    c = {"kind": "pf-stat", "seed": 19 + ctx.seed, "n": 1, "m": 1, "p": 1, "dtype": "float32", "nonlinear": False, "N": 1000000,
         "T": 2 if ctx.quick else 6, "timevar": False, "qr_mode": "call", "cond": 1.0, "scales": [1.0, 0.1, 1.0], "xmag": 0.0}
    run_pf_stat(ctx, c)


def search(ctx: Ctx):
    """failing-input search on the real code after a broken proof / correspondence: many short, well-conditioned
    affine runs of every dimension triple against the 50-digit Kalman posterior, then PF statistics."""
    rng = random.Random(ctx.seed * 7919 + 13)
    lines, metas = [], []
    for filt in ("ekf", "ukf"):
        for n in range(1, 7):
            for rep in range(6):
                c = gen_run(rng, True, {"filter": filt, "nonlinear": rep == 5, "dtype": "float64", "T": 3})
                c["n"], c["cond"] = n, 10.0
                run_one(ctx, c, lines, metas)
                if ctx.failures:
                    return
    for i in range(30):
        run_pf_corr(ctx, gen_pf(rng, False, True), [], [])
        run_pf_stat(ctx, gen_pf(rng, True, True))
        if ctx.failures:
            return


def replay(ctx: Ctx, case) -> bool:
    if "case" not in case:      # a `no-failing-input-found` file: replay the first broken correspondence case
        bc = case.get("broken_correspondence") or []
        if not bc:
            print("  nothing to replay (proof/audit failure only):", case.get("unchecked_theorems_or_build"))
            return False
        case = {"case": bc[0]["case"]}
    c = dict(case["case"])
    c.pop("step", None)
    c.pop("k_call", None)
    kind = c.get("kind")
    n0 = len(ctx.failures)
    if kind == "run":
        lines, metas = [], []
        run_one(ctx, c, lines, metas, verbose=True)
        compare_runs(ctx, lines, metas, verbose=True)
    elif kind == "pf-corr":
        lines, metas = [], []
        run_pf_corr(ctx, c, lines, metas)
        compare_pf(ctx, lines, metas, verbose=True)
    elif kind == "pf-stat":
        run_pf_stat(ctx, c, verbose=True)
    elif kind == "witness":
        witness_stream(ctx)
    elif kind == "shared":
        run_shared(ctx, c, verbose=True)
    for f in ctx.failures[n0:]:
        print("  fails:", f["what"])
    for dd in ctx.disagreements:
        print("  model/implementation disagreement:", dd["detail"])
    return len(ctx.failures) == n0 and not ctx.disagreements
