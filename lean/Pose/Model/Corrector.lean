import Pose.Model.Kernel
/-!
# Model of `pypose/optim/corrector.py` and of the kernel / corrector plumbing in `optimizer.py`

Item-level model: a residual tensor of shape `(…, d)` is a family of `N` items `R i : Nat → α`
(components `a < d`), the Jacobian of shape `(N·d, p)` is `J i a l` (`l < p`).  Batching over the
leading dimensions is element-wise in the code (`keepdim` sums, boolean-mask assignment, einsum with
`...`), so the model is stated per item and the batch-level quantities are plain sums over `i`.

`ρ'` and `ρ''` (obtained in the code from autograd of the kernel — an external contract) are
*parameters*: `fast`/`triggs` take the numbers `g1 = ρ'(x)`, `g2 = ρ''(x)`; `fastOf`/`triggsOf` take the
functions.
-/
namespace PP.Corrector
variable {α : Type} [Scalar α]

/-- `Σ_{i<n} f i`, summed in index order -/
def sumN : Nat → (Nat → α) → α
  | 0, _ => k 0
  | n+1, f => sumN n f + f n

/-- `x = R.square().sum(-1, keepdim=True)` for one item -/
def normSq (d : Nat) (R : Nat → α) : α := sumN d fun a => R a * R a

/-- corrected residual / Jacobian of one item -/
structure Out (α : Type) where
  R : Nat → α
  J : Nat → Nat → α

/-- `FastTriggs.forward` for one item: `s = sqrt(ρ')`, `(s·R, s·J)` -/
def fast (g1 : α) (R : Nat → α) (J : Nat → Nat → α) : Out α :=
  let s := Scalar.sqrt g1
  ⟨fun a => s * R a, fun a l => s * J a l⟩

/-- `x == 0` -/
def isZero (x : α) : Bool := Scalar.le x (k 0) && Scalar.le (k 0) x

/-- `M = ~((x==0)|(g2 <=0))` -/
def mask (x g2 : α) : Bool := !(isZero x || Scalar.le g2 (k 0))

/-- `alpha = 1 - (1 + 2*x*g2/g1).clamp(min=0).sqrt()` -/
def alpha (x g1 g2 : α) : α := k 1 - Scalar.sqrt (smax (k 0) (k 1 + k 2 * x * g2 / g1))

/-- `Triggs.forward` for one item, given `x = ‖R‖²`, `g1 = ρ'(x)`, `g2 = ρ''(x)`:
`sR = se·R`, `sJ = se·J`; on the mask `sR ← sR/(1-α)`, `sJ ← sJ − (α/x)·(R Rᵀ sJ)`. -/
def triggs (d : Nat) (x g1 g2 : α) (R : Nat → α) (J : Nat → Nat → α) : Out α :=
  let se := Scalar.sqrt g1
  let sR := fun a => se * R a
  let sJ := fun a l => se * J a l
  if mask x g2 then
    let al := alpha x g1 g2
    ⟨fun a => sR a / (k 1 - al),
     fun a l => sJ a l - (al / x) * sumN d (fun b => R a * R b * sJ b l)⟩
  else ⟨sR, sJ⟩

/-- the masked branch of `Triggs.forward` with the number `al` in the place of `alpha` (pass 3: the identities are proved
for *every* such `al`, the gradient one even without `al` being a root — see `Proofs/Props/C09.lean`) -/
def triggsAlpha (d : Nat) (x g1 al : α) (R : Nat → α) (J : Nat → Nat → α) : Out α :=
  let se := Scalar.sqrt g1
  ⟨fun a => se * R a / (k 1 - al),
   fun a l => se * J a l - (al / x) * sumN d (fun b => R a * R b * (se * J b l))⟩

/-- `FastTriggs(kernel)(R, J)` on one item, `ρ1 = ρ'` -/
def fastOf (ρ1 : α → α) (d : Nat) (R : Nat → α) (J : Nat → Nat → α) : Out α :=
  fast (ρ1 (normSq d R)) R J

/-- `Triggs(kernel)(R, J)` on one item, `ρ1 = ρ'`, `ρ2 = ρ''` -/
def triggsOf (ρ1 ρ2 : α → α) (d : Nat) (R : Nat → α) (J : Nat → Nat → α) : Out α :=
  let x := normSq d R
  triggs d x (ρ1 x) (ρ2 x) R J

/-- component `l` of `J'ᵀ R'` over a batch of `N` items -/
def JtR (N d : Nat) (out : Nat → Out α) (l : Nat) : α :=
  sumN N fun i => sumN d fun a => (out i).J a l * (out i).R a

/-- entry `(l, m)` of `J'ᵀ J'` over a batch of `N` items -/
def JtJ (N d : Nat) (out : Nat → Out α) (l m : Nat) : α :=
  sumN N fun i => sumN d fun a => (out i).J a l * (out i).J a m

/-- component `l` of `J'ᵀ W R'` with a per-item weight matrix `W i a b` (the `weight=` branch of the optimisers, which lies
outside C09's quantifier: LM forms `J_T = J.T @ weight`, `b = -J_T @ R`; GN hands `(W J', -W R')` to the solver, whose
normal equations carry `WᵀW` in the place of `W`). `RobustModel.loss` ignores the weight. -/
def JtWR (N d : Nat) (W : Nat → Nat → Nat → α) (out : Nat → Out α) (l : Nat) : α :=
  sumN N fun i => sumN d fun a => sumN d fun b => (out i).J a l * W i a b * (out i).R b

/-- `kernel(r.square().sum(-1)).sum()` for one residual tensor of `N` items -/
def lossOne (ρ : α → α) (N d : Nat) (R : Nat → Nat → α) : α :=
  sumN N fun i => ρ (normSq d (R i))

/-! ## Flat memory layout of the real call (pass 3)

The code receives `R` of shape `(…, d)` (row-major: item `i`, component `a` at flat position `i*d + a`) and `J` of shape
`(N*d, p)` (row `i*d + a`); `sj = s.expand_as(R).reshape(-1, 1)` scales row `r` of `J` by the factor of item `r / d`. -/

/-- item / component of flat position `r` -/
def itemOf (d r : Nat) : Nat := r / d
def compOf (d r : Nat) : Nat := r % d

/-- the items of a flat residual / Jacobian -/
def unflatR (d : Nat) (Rf : Nat → α) : Nat → Nat → α := fun i a => Rf (i * d + a)
def unflatJ (d : Nat) (Jf : Nat → Nat → α) : Nat → Nat → Nat → α := fun i a l => Jf (i * d + a) l

/-- `FastTriggs` / `Triggs` on the flat tensors: flat residual `(N*d)` and flat Jacobian rows `(N*d) × p` -/
def fastFlat (ρ1 : α → α) (d : Nat) (Rf : Nat → α) (Jf : Nat → Nat → α) : (Nat → α) × (Nat → Nat → α) :=
  (fun r => (fastOf ρ1 d (unflatR d Rf (itemOf d r)) (unflatJ d Jf (itemOf d r))).R (compOf d r),
   fun r l => (fastOf ρ1 d (unflatR d Rf (itemOf d r)) (unflatJ d Jf (itemOf d r))).J (compOf d r) l)

def triggsFlat (ρ1 ρ2 : α → α) (d : Nat) (Rf : Nat → α) (Jf : Nat → Nat → α) : (Nat → α) × (Nat → Nat → α) :=
  (fun r => (triggsOf ρ1 ρ2 d (unflatR d Rf (itemOf d r)) (unflatJ d Jf (itemOf d r))).R (compOf d r),
   fun r l => (triggsOf ρ1 ρ2 d (unflatR d Rf (itemOf d r)) (unflatJ d Jf (itemOf d r))).J (compOf d r) l)

/-- `(J'ᵀ R')_l` computed on the flat outputs, as the linear solver sees them: a plain sum over the `N*d` rows -/
def flatJtR (rows : Nat) (out : (Nat → α) × (Nat → Nat → α)) (l : Nat) : α :=
  sumN rows fun r => out.2 r l * out.1 r

/-! ## Kernel / corrector plumbing of `GaussNewton.__init__`, `LevenbergMarquardt.__init__`,
`RobustModel.__init__`, `RobustModel.loss` and the corrector call in `step`

`κ` = kernel objects, `γ` = user-supplied corrector objects. -/

/-- the `kernel=` / `corrector=` argument: `None`, one module, or a list/tuple with optional `None`s -/
inductive Arg (β : Type)
  | none
  | one (b : β)
  | many (bs : List (Option β))

/-- entry of `RobustModel.kernel` -/
inductive KSel (κ : Type)
  | trivial
  | ker (c : κ)
deriving DecidableEq, Repr

/-- entry of `optimizer.corrector` -/
inductive CSel (κ γ : Type)
  | trivial
  | auto (c : KSel κ)      -- `FastTriggs(k)` created by the optimiser (k may be `Trivial()`)
  | user (c : γ)
deriving DecidableEq, Repr

section plumbing
variable {κ γ : Type}

/-- `kernel = [kernel] if not list else kernel; [k if k is not None else Trivial() …]` (only when
`kernel is not None`) -/
def kernelList : Arg κ → Option (List (KSel κ))
  | .none => Option.none
  | .one c => some [KSel.ker c]
  | .many cs => some (cs.map fun o => match o with | some c => KSel.ker c | Option.none => KSel.trivial)

/-- `RobustModel.kernel`: `[Trivial()] if kernel is None else kernel` -/
def robustKernels (ka : Arg κ) : List (KSel κ) :=
  match kernelList ka with
  | Option.none => [KSel.trivial]
  | some l => l

/-- user correctors normalised: wrap a single module in a list, `None` entries become `Trivial()` -/
def userCorrectors : Arg γ → Option (List (CSel κ γ))
  | .none => Option.none
  | .one c => some [CSel.user c]
  | .many cs => some (cs.map fun o => match o with | some c => CSel.user c | Option.none => CSel.trivial)

/-- `optimizer.corrector` after `__init__` (identical code in GN and LM) -/
def correctors (ka : Arg κ) (ca : Arg γ) : List (CSel κ γ) :=
  match userCorrectors ca with
  | some l => l
  | Option.none =>
    match kernelList ka with
    | Option.none => [CSel.trivial]
    | some ks => ks.map CSel.auto

/-- corrector applied to residual `i` in `step`: `corrector[0] if len == 1 else corrector[i]`
(`none` = `IndexError`) -/
def stepCorrector (cs : List (CSel κ γ)) (i : Nat) : Option (CSel κ γ) :=
  if cs.length = 1 then cs[0]? else cs[i]?

/-- kernel applied to residual `i` (of `nres`) in `RobustModel.loss`:
`zip(kernel, residuals)` if `len(kernel) > 1` else `kernel[0]`.
`none` = the residual does not enter the loss (dropped by `zip`) or `IndexError` for an empty list. -/
def lossKernel (ks : List (KSel κ)) (nres i : Nat) : Option (KSel κ) :=
  if i < nres then (if ks.length > 1 then ks[i]? else ks[0]?) else Option.none

end plumbing

/-- `RobustModel.loss` / `step` raise `IndexError` for an empty kernel list (`kernel=[]`: `self.kernel[0]`, `self.corrector[i]`);
`lossTotal` below is only meaningful when this is `false` -/
def emptyKernelList {κ : Type} (ks : List (KSel κ)) : Bool := ks.isEmpty

/-- `RobustModel.loss`: sum over the residual tensors that enter it, each with its selected kernel.
`ρ` interprets a selection as a function, `res j = (N, d, R)`. -/
def lossTotal {κ : Type} (ρ : KSel κ → α → α) (ks : List (KSel κ)) (nres : Nat)
    (res : Nat → Nat × Nat × (Nat → Nat → α)) : α :=
  sumN nres fun j =>
    match lossKernel ks nres j with
    | some c => lossOne (ρ c) (res j).1 (res j).2.1 (res j).2.2
    | none => k 0

/-! ## The system one optimiser step hands to the solver (pass 3)

`step` corrects residual tensor `j` with `stepCorrector cs j` and stacks the results (`normalize_RWJ`: `torch.cat`).
`corr c` interprets a selected corrector as `(ρ', ρ'')` of its kernel together with its kind (`true` = Triggs). -/

/-- interpretation of a selected corrector: `none` = `Trivial` (identity), `some (triggs?, ρ', ρ'')` -/
abbrev CorrSem (α : Type) := Option (Bool × (α → α) × (α → α))

def applyCorr (c : CorrSem α) (d : Nat) (R : Nat → α) (J : Nat → Nat → α) : Out α :=
  match c with
  | none => ⟨R, J⟩
  | some (false, ρ1, _) => fastOf ρ1 d R J
  | some (true, ρ1, ρ2) => triggsOf ρ1 ρ2 d R J

/-- semantics of the correctors an optimiser creates itself: `FastTriggs` of the interpreted kernel (`ρ1 c = ρ'`,
`ρ2 c = ρ''` of the selected kernel `c`) -/
def autoSem {κ γ : Type} (ρ1 ρ2 : KSel κ → α → α) : CSel κ γ → CorrSem α
  | .auto c => some (false, ρ1 c, ρ2 c)
  | _ => none

/-- `(J'ᵀ R')_l` of the stacked system over `nres` residual tensors `res j = (N_j, d_j, R_j, J_j)`; a residual whose
corrector index is out of range (`IndexError` in the code) contributes nothing here — see `short_kernel_list_fails` -/
def stepJtR {κ γ : Type} (sem : CSel κ γ → CorrSem α) (cs : List (CSel κ γ)) (nres : Nat)
    (res : Nat → Nat × Nat × (Nat → Nat → α) × (Nat → Nat → Nat → α)) (l : Nat) : α :=
  sumN nres fun j =>
    match stepCorrector cs j with
    | some c => JtR (res j).1 (res j).2.1 (fun i => applyCorr (sem c) (res j).2.1 ((res j).2.2.1 i) ((res j).2.2.2 i)) l
    | none => k 0

/-- entry `(l, m)` of `J'ᵀ J'` of the stacked system (the matrix LM builds as `J.T @ J` before clamping / damping, and the normal
matrix of the system GN hands to its solver); same conventions as `stepJtR` (pass 10) -/
def stepJtJ {κ γ : Type} (sem : CSel κ γ → CorrSem α) (cs : List (CSel κ γ)) (nres : Nat)
    (res : Nat → Nat × Nat × (Nat → Nat → α) × (Nat → Nat → Nat → α)) (l m : Nat) : α :=
  sumN nres fun j =>
    match stepCorrector cs j with
    | some c => JtJ (res j).1 (res j).2.1 (fun i => applyCorr (sem c) (res j).2.1 ((res j).2.2.1 i) ((res j).2.2.2 i)) l m
    | none => k 0

end PP.Corrector
