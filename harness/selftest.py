"""BigF arithmetic against mpmath (50+ digits). Part of the trusted-base validation (DESIGN §3.3)."""
import math, random, sys
from fractions import Fraction
from . import common

def main() -> int:
    import mpmath
    mpmath.mp.prec = 400
    rng = random.Random(7)
    d = common.Driver("C12")
    fns = {"sqrt": mpmath.sqrt, "exp": mpmath.exp, "log": mpmath.log, "sin": mpmath.sin, "cos": mpmath.cos,
           "atan": mpmath.atan}
    lines, expect = [], []
    def mp(x): return mpmath.mpf(x.numerator) / mpmath.mpf(x.denominator)
    xs = [0.0, 1.0, -1.0, 0.5, 1e-30, 1e-300, 3.0, math.pi, -math.pi, 2 * math.pi, 100.0, 710.0, -700.0, 1e5, 22.0 / 7,
          math.pi / 2, math.pi / 4, 1e-8, 2.0 ** -52, 0.7071, 1.4142, 0.99999999, 1.00000001]
    xs += [rng.uniform(-10, 10) for _ in range(200)] + [rng.uniform(-1, 1) * 10 ** rng.uniform(-20, 4) for _ in range(200)]
    for x in xs:
        for name, f in fns.items():
            if name in ("sqrt", "log") and x <= 0: continue
            if name == "exp" and abs(x) > 700: continue
            lines.append(f"bf.{name} {common.to_wire(x)}")
            expect.append((name, x, f(mp(Fraction(x)))))
    for _ in range(300):
        y, x = rng.gauss(0, 1) * 10 ** rng.uniform(-10, 3), rng.gauss(0, 1) * 10 ** rng.uniform(-10, 3)
        lines.append(f"bf.atan2 {common.to_wire(y)} {common.to_wire(x)}")
        expect.append(("atan2", (y, x), mpmath.atan2(mp(Fraction(y)), mp(Fraction(x)))))
        lines.append(f"bf.div {common.to_wire(y)} {common.to_wire(x)}")
        expect.append(("div", (y, x), mp(Fraction(y)) / mp(Fraction(x))))
    out = d.run(lines)
    worst, bad = 0.0, 0
    for rep, (name, x, want) in zip(out, expect):
        got = mp(common.reply_nums(rep)[0])
        # sin/cos near their zeros: absolute error relative to 1 ulp of the argument reduction
        scale = abs(want) if name not in ("sin", "cos") else max(abs(want), mpmath.mpf(2) ** -60)
        err = abs(got - want) / scale if scale != 0 else abs(got - want)
        worst = max(worst, float(err))
        if err > mpmath.mpf(2) ** -140:
            bad += 1
            print("BAD", name, x, float(err))
    print(f"selftest: {len(lines)} evaluations, worst relative error {worst:.3e}, bad={bad}")
    return 0 if bad == 0 else 2
