"""C20 — stopping controllers stop exactly on their documented conditions, within budget.

Model: lean/Pose/Model/Stop.lean; theorems: lean/Proofs/Props/C20.lean.

Correspondence streams (real code vs model, exact equality of (steps, patience_count, continual)):
  graph.sop / graph.rtb : every (reachable controller state x letter) transition to depth 10 quick / 16 thorough,
                          reached by restoring the full __dict__ of the real object (state merging), all
                          (steps 1..6 x patience 1..4) + out-of-range configurations, incl. reset() for rtb;
  trie.sop / trie.rtb   : literally every sequence over the 6-letter alphabet up to length L (5..8), every node
                          of the prefix tree compared with the model's trie and with the property's statement;
  num.rtb / num.sop     : long random real-valued / batched / int / python-float loss histories (with resets and
                          steps after stopping), numeric layer of the model in 192-bit arithmetic;
  drv.optimize / drv.mpc / drv.icp : the real driver loops (scripted and genuine optimizers / LQR / kNN),
                          call counts of optimizer.step / lqr / svdtf, repeated calls on the same object.
Oracles on the real code: the property's own statement computed from the raw history (first documented
cause), absorbing, reset == initial state, loop bound, counters.
"""
from __future__ import annotations

import itertools
import math
from fractions import Fraction

import torch

from . import common
from .common import Ctx, to_wire
from . import util_stop as U

META = {
    "rule": "graph: BFS over all reachable controller states (full __dict__ restored) x 6 letters (+reset) to depth "
            "10 (quick) / 16 (thorough) for every configuration in (steps 1..6 x patience 1..4) plus steps in {0,-1,7,12,13,50} / patience in "
            "{0,5,6,12,13}; trie: all 6^L literal sequences for the 24 core configurations (quick: L=4..5 sop / 3..4 rtb for all; thorough: L=6..7 sop / 5 rtb for all, L=8 / 6 for a subset); "
            "num: random walks over magnitude ladders with exact-boundary moves (ratio == decreasing, loss == tol, 0, "
            "negative), dtypes f32/f64/int/python float, batch shapes up to rank 2, resets and post-stop steps; "
            "drv: scripted + genuine optimizers/LQR/kNN, 1..4 calls per object with every per-call argument varied; "
            "hardening: deterministic corpus first (hand-written corners + every stream with a fixed generator), extreme "
            "magnitudes/budgets and long histories, per-segment kind/dtype/shape after reset, loss layouts fresh/slice/"
            "strided/expanded/in-place-reused buffer, purity + attribute oracles, interleaved live controllers, "
            "item-wise oracle for mixed-regime batches. A case is non-trivial when it has >= 2 "
            "steps; distinct by (stream, configuration, letter word / value-kind, dtype, shape).",
    "trusted": ["torch comparison/promotion semantics (python scalar thresholds are cast to the tensor dtype)",
                "python object state of a controller is its __dict__ (state merging in the graph stream relies on it)"],
    "assumptions": ["num.* streams (192-bit comparison of rounded float decisions): losses finite, not -0.0, shape constant "
                    "between resets; the numx.* streams drop all three (NaN, +-inf, -0.0, shapes changing by broadcasting)",
                    "float decisions that flip under rounding (exact (last-loss)/loss vs threshold differs from the "
                    "float evaluation) are regenerated, not compared"],
    "partial": ["StopOnPlateau/_Scheduler has no reset() in /repo: for it the 'until reset' part of the clause has no "
                "implementation; 'once false it stays false' is proved and checked unconditionally for it",
                "IEEE rounding of (last-loss)/loss is not modelled: theorems over R, float code compared on inputs "
                "whose decision does not flip under rounding (others regenerated, counted in input_distribution)",
                "graph stream: exhaustive to length 10 (quick) / 16 (thorough) through state merging (every reachable (steps, patience_count, "
                "continual[, last=inf?]) state x every letter); literal enumeration of all words only to length 4..8"],
}

def pp():
    import pypose
    return pypose


_FAKE = None


def FakeOpt(has_reject):
    global _FAKE
    if _FAKE is None:
        _FAKE = U.make_fake_optimizer_class()
    return _FAKE(has_reject)


class _Null:
    """stdout sink for verbose=True runs"""

    def write(self, s):
        return len(s)

    def flush(self):
        pass


def quiet():
    import contextlib
    return contextlib.redirect_stdout(_Null())


RTB_DEFAULTS = {"patience": 5, "d": 1e-3, "tol": 1e-5, "verbose": False}


def _ctor_args(cfg, names):
    """constructor arguments in the calling style of the case: 'kw' all by keyword, 'pos' positionally as far as the
    signature allows, 'omit' leaves out every optional argument whose value is the documented default"""
    style = cfg.get("style", "kw")
    vals = [(n, cfg.get(k, RTB_DEFAULTS.get(k))) for n, k in names]
    if style == "pos":
        return [v for _, v in vals], {}
    if style == "omit":
        keys = dict((n, k) for n, k in names)
        return [], {n: v for n, v in vals if n == "steps" or v != RTB_DEFAULTS.get(keys[n])}
    return [], dict(vals)


def new_sop(cfg, opt):
    a, k = _ctor_args(cfg, [("steps", "steps"), ("patience", "patience"), ("decreasing", "d"), ("verbose", "verbose")])
    return U.controller_class("sop", cfg.get("klass"))(opt, *a, **k)


def new_rtb(cfg):
    a, k = _ctor_args(cfg, [("steps", "steps"), ("patience", "patience"), ("decreasing", "d"), ("tol", "tol"),
                            ("verbose", "verbose")])
    return U.controller_class("rtb", cfg.get("klass"))(*a, **k)


def draw_style(rng, p_verbose=0.3):
    """(verbose, style): non-default values of the rarely used keyword and the three calling styles
    (printing tensors is slow, so the exhaustive abstract streams use verbose in ~30 % of the configurations;
    the numeric / driver / corpus streams in 50 %)"""
    return rng.random() < p_verbose, rng.choice(["kw", "kw", "pos", "omit"])


def key_of(ctl, kind):
    items = []
    for k, v in ctl.__dict__.items():
        if k in ("optimizer", "continual"):
            continue
        if k == "last":
            v = bool(torch.isinf(v).all()) if torch.is_tensor(v) else v
        items.append((k, repr(v)))
    return tuple(sorted(items))


# ============================================================================= abstract letters

SOP_LETTERS = ["decGE", "decLT", "equal", "increase", "rejKeep", "rejAccept"]
RTB_LETTERS = ["decGE", "decLT", "equal", "increase", "belowDec", "belowNoDec"]


def sop_alphabet(has_reject):
    return [0, 1, 1, 1, 5, 4] if has_reject else [0, 1, 1, 1, 1, 0]


def sop_apply(sch, opt, letter, d, v, variant, as_tensor):
    """feed the fake optimizer with a realisation of `letter` at current loss v; returns (obs tuple, new v)"""
    big = [1, 1, 2, 37][variant % 4]          # variant 0,1: exactly the threshold
    if letter == 0:
        nv, rc = v - d * big, 0
    elif letter == 1:
        nv, rc = v - d * [0.5, 0.25, 0.75, 0.5][variant % 4], 0
    elif letter == 2:
        nv, rc = v, 0
    elif letter == 3:
        nv, rc = v + d * [1, 0.25, 5, 1][variant % 4], 0
    elif letter == 4:
        nv, rc = v, 1 + variant % 3
    else:
        nv, rc = v - d * (1 + big), 1 + variant % 2
    has = hasattr(opt, "reject_count")
    last, loss = (torch.tensor(v, dtype=torch.float64), torch.tensor(nv, dtype=torch.float64)) if as_tensor else (v, nv)
    opt.feed(last, loss, rc if has else None)
    sch.step(loss)
    nodec = (Fraction(v) - Fraction(nv)) < Fraction(d)
    return (nodec, False, has and rc > 0), nv


RTB_B_HI, RTB_B_LO = 1.0, 1.0 - 2.0 ** -10


def rtb_apply(st, letter, a, variant, dtype, shape):
    """ReduceToBason with d = 1, tol = 1: batch [a, b]; `a` carries the decrease, `b` carries below-tol.
    returns (obs tuple, new a)"""
    if letter == 0:
        na, b = a / 2, RTB_B_HI
    elif letter == 1:
        na, b = a * 0.75, [RTB_B_HI, 1.0 + 2.0 ** -10][variant % 2]
    elif letter == 2:
        na, b = a, RTB_B_HI
    elif letter == 3:
        na, b = a * 2, RTB_B_HI
    elif letter == 4:
        na, b = a / [4, 2][variant % 2], RTB_B_LO
    else:
        na, b = a, RTB_B_LO
    first = bool(torch.isinf(st.last).all())
    loss = torch.tensor([na, b], dtype=U.TD[dtype]).reshape(shape)
    st.step(loss)
    nodec = (not first) and ((Fraction(a) - Fraction(na)) / Fraction(na) < 1)
    return (nodec, b < 1.0, False), na


# ============================================================================= graph stream

def core_configs():
    return [(s, p) for s in range(1, 7) for p in range(1, 5)]


def extra_configs(rng, n):
    S = [0, -1, 7, 12, 13, 50]
    P = [0, 5, 6, 12, 13]
    allc = [(s, p) for s in S for p in range(1, 5)] + [(s, p) for s in range(1, 7) for p in P] + \
           [(s, p) for s in S for p in P]
    rng.shuffle(allc)
    return allc[:n]


def run_graph(ctx: Ctx, kind: str, cfgs, depth: int):
    rng = ctx.rng
    lines, metas = [], []
    for (steps, patience) in cfgs:
        has_reject = rng.random() < 0.7
        as_tensor = rng.random() < 0.3
        dtype = rng.choice(["float64", "float32"])
        shape = rng.choice([(2,), (1, 2), (2, 1)])
        verbose, style = draw_style(rng)
        klass = rng.choice(KLASSES)
        offset = rng.choice([0, 0, 0, 2 ** 24, 2 ** 24 + 1, 2 ** 53 + 1, 1700000000])
        if kind == "sop":
            d = rng.choice([0.125, 1.0, 2.0 ** -10])
            cfg = {"steps": steps, "patience": patience, "d": d, "verbose": verbose, "style": style, "klass": klass, "offset": offset}
            opt = FakeOpt(has_reject)
            ctl = guarded(ctx, dict(cfg, kind="graph", ctl="sop"), new_sop, cfg, opt)
            nlet = 6
        else:
            cfg = {"steps": steps, "patience": patience, "d": 1.0, "tol": 1.0, "verbose": verbose, "style": style, "klass": klass, "offset": offset}
            ctl = guarded(ctx, dict(cfg, kind="graph", ctl="rtb"), new_rtb, cfg)
            nlet = 7  # + reset
        if ctl is None:
            continue
        if cfg.get("offset"):
            # counters beyond 2^24 / 2^53 (exact in python ints, not in float32 / float64): start the exploration from an
            # injected state whose counters sit just below a budget / patience of that magnitude
            ctl.steps, ctl.patience_count = cfg["offset"], cfg["offset"] - 1
            ctl.max_steps, ctl.patience = cfg["offset"] + steps, cfg["offset"] - 1 + patience
        init_key = key_of(ctl, kind)
        frontier = {init_key: U.snap(ctl)}
        seen = {init_key}
        pairs, info = [], []
        for t in range(min(depth, 7) if cfg.get("offset") else depth):
            new = {}
            for k0, sv in frontier.items():
                for letter in range(nlet):
                    U.restore(ctl, sv)
                    before = U.ctl_code(ctl)
                    variant = rng.randrange(12)
                    case = {"kind": "graph", "ctl": kind, "steps": steps, "patience": patience, "before": before,
                            "letter": letter, "variant": variant, "has_reject": has_reject, "as_tensor": as_tensor,
                            "dtype": dtype, "shape": list(shape), "d": cfg["d"], "verbose": verbose, "style": style, "klass": klass, "offset": offset,
                            "last_inf": kind == "rtb" and bool(torch.isinf(ctl.last).all())}
                    if not graph_transition(ctx, ctl, case, pairs, info, opt if kind == "sop" else None):
                        continue
                    kk = key_of(ctl, kind)
                    if kk not in seen:
                        seen.add(kk)
                        new[kk] = U.snap(ctl)
            frontier = new
            if not frontier:
                break
        ctx.count(f"graph.{kind}.states", len(seen))
        ctx.count(f"graph.{kind}.transitions", len(info))
        ctx.note_case(("graph", kind, steps, patience), True)
        if pairs:
            eff = (offset + steps, offset - 1 + patience) if offset else (steps, patience)
            lines.append(f"c20.steps {kind} {eff[0]} {eff[1]} " + " ".join(f"{b} {o}" for b, o in pairs))
            metas.append([i for i in info if i[0] == "step"])
        for i in info:
            if i[0] == "reset":
                eff = (offset + steps, offset - 1 + patience) if offset else (steps, patience)
                lines.append(f"c20.trace rtb {eff[0]} {eff[1]} {i[1]['before']} R")
                metas.append([i])
    reps = ctx.driver.run(lines)
    for rep, ms in zip(reps, metas):
        st, toks = common.parse_reply(rep)
        want = [int(t) for t in toks] if st == "ok" else []
        if len(want) != len(ms):
            raise common.InfraError(f"graph reply length {len(want)} != {len(ms)}: {rep[:100]}")
        for w, (_, case, after) in zip(want, ms):
            if w != after:
                ctx.disagree(f"graph.{kind}", case, f"{kind} steps={case['steps']} patience={case['patience']} from "
                             f"{U.st_decode(case['before'])} letter {case['letter']}: implementation "
                             f"{U.st_decode(after)} model {U.st_decode(w)}")
    if cfgs:
        ctx.sample({"stream": f"graph.{kind}", "config": list(cfgs[0]), "depth": depth})


def ctx_last(ctl):
    try:
        return U.flat(ctl.last)[:4]
    except Exception:
        return repr(getattr(ctl, "last", None))


def graph_transition(ctx, ctl, case, pairs, info, opt) -> bool:
    """perform one real transition described by `case` on the (already restored) controller; record it.
    returns False when the real code raised"""
    kind, letter, before = case["ctl"], case["letter"], case["before"]
    bs, bpc, bcont = U.st_decode(before)
    try:
        if kind == "sop":
            obs, _ = sop_apply(ctl, opt, letter, case["d"], 1000.0 * case["d"], case["variant"], case["as_tensor"])
        elif letter == 6:
            obs = None
            ctl.reset()
        else:
            if not case["last_inf"]:
                ctl.last = torch.tensor([2.0 ** -20, RTB_B_HI if case["variant"] % 3 else RTB_B_LO],
                                        dtype=U.TD[case["dtype"]]).reshape(case["shape"])
            obs, _ = rtb_apply(ctl, letter, 2.0 ** -20, case["variant"], case["dtype"], tuple(case["shape"]))
        after = U.ctl_code(ctl)
    except Exception as e:
        ctx.fail(case, f"raises: {kind}.step raised {type(e).__name__}: {str(e)[:120]}")
        return False
    a_s, a_pc, a_cont = U.st_decode(after)
    if obs is None:  # reset
        info.append(("reset", case, after))
        last_ok = torch.is_tensor(ctl.last) and bool(torch.isinf(ctl.last).all()) and bool((ctl.last > 0).all())
        if a_s != 0 or a_pc != 0 or not a_cont or not last_ok:
            ctx.fail(case, f"reset-state: after reset() from {(bs, bpc, bcont)}: steps={a_s} patience_count={a_pc} "
                           f"continual={a_cont} last={ctx_last(ctl)} (initial state: 0, 0, True, inf)")
        return True
    pairs.append((before, U.obs_code(*obs)))
    info.append(("step", case, after))
    # oracles that need no history: absorbing, counters
    if not bcont and a_cont:
        ctx.fail(case, f"absorbing: {kind} re-armed: continual() went False -> True on letter {letter} "
                       f"from {(bs, bpc, bcont)}")
    if a_s != bs + 1:
        ctx.fail(case, f"counter-steps: steps {bs} -> {a_s}")
    if a_pc != (bpc + 1 if obs[0] else 0):
        ctx.fail(case, f"counter-patience: patience_count {bpc} -> {a_pc} on nodec={obs[0]}")
    # the documented causes for this one step: budget reached, patience reached, rejection / below tol
    budget = (case.get("offset") or 0) + case["steps"] if case.get("offset") else case["steps"]
    pat = (case["offset"] - 1 + case["patience"]) if case.get("offset") else case["patience"]
    want = bcont and not (bs + 1 >= budget or (bpc + 1 if obs[0] else 0) >= pat or (obs[2] if kind == "sop" else obs[1]))
    if a_cont != want:
        ctx.fail(case, f"continual: {kind}(steps={budget}, patience={pat}) from (steps, patience_count, continual)={(bs, bpc, bcont)} on "
                       f"(nodec, below, rej)={obs}: continual()={a_cont}, the documented causes give {want}")
    return True


# ============================================================================= trie stream

def run_trie(ctx: Ctx, kind: str, cfgs, L: int):
    rng = ctx.rng
    plans = []
    for (steps, patience) in cfgs:
        plan = {"kind": "trie", "ctl": kind, "steps": steps, "patience": patience, "L": L,
                "has_reject": rng.random() < 0.75, "as_tensor": False, "d": rng.choice([0.125, 1.0, 2.0 ** -10]),
                "dtype": rng.choice(["float64", "float32"]), "shape": list(rng.choice([(2,), (1, 2), (2, 1)])),
                "vseed": rng.randrange(1 << 30)}
        plan["verbose"], plan["style"] = draw_style(rng)
        plan["klass"] = rng.choice(KLASSES)
        plans.append(plan)
    lines = []
    for p in plans:
        if kind == "sop":
            al = sop_alphabet(p["has_reject"])
            lines.append(f"c20.trie sop {p['steps']} {p['patience']} {L} {len(al)} " + " ".join(map(str, al + al)))
        else:
            lines.append(f"c20.trie rtb {p['steps']} {p['patience']} {L} 6 0 0 0 0 2 2 0 1 1 1 2 3")
    reps = ctx.driver.run(lines)
    for p, rep in zip(plans, reps):
        st, toks = common.parse_reply(rep)
        if st != "ok":
            raise common.InfraError(f"trie reply: {rep[:100]}")
        model = [int(t) for t in toks]
        guarded(ctx, p, walk_trie, ctx, p, model)
        ctx.note_case(("trie", kind, p["steps"], p["patience"], L), True)
    if plans:
        ctx.sample({"stream": f"trie.{kind}", **plans[0]})


def walk_trie(ctx: Ctx, p, model, only_word=None):
    """DFS over all words of length <= L on the real controller; node index in pre-order matches the model."""
    kind, L = p["ctl"], p["L"]
    steps, patience = p["steps"], p["patience"]
    import random
    vr = random.Random(p["vseed"])
    if kind == "sop":
        opt = FakeOpt(p["has_reject"])
        ctl = new_sop({"steps": steps, "patience": patience, "d": p["d"], "verbose": p.get("verbose", False),
                       "style": p.get("style", "kw"), "klass": p.get("klass")}, opt)
    else:
        opt = None
        ctl = new_rtb({"steps": steps, "patience": patience, "d": 1.0, "tol": 1.0, "verbose": p.get("verbose", False),
                       "style": p.get("style", "kw"), "klass": p.get("klass")})
    idx = [0]
    nodes = [0]
    bad = [0]
    word, hist = [], []

    def rec(depth, v, ok_so_far):
        sv = U.snap(ctl)
        for letter in (range(6) if only_word is None else [only_word[depth]]):
            U.restore(ctl, sv)
            variant = vr.randrange(12)
            try:
                if kind == "sop":
                    obs, nv = sop_apply(ctl, opt, letter, p["d"], v, variant, False)
                else:
                    obs, nv = rtb_apply(ctl, letter, v, variant, p["dtype"], tuple(p["shape"]))
                code = U.ctl_code(ctl)
            except Exception as e:
                ctx.fail(dict(p, word=word + [letter]), f"raises: {kind}.step raised {type(e).__name__}: {str(e)[:120]}")
                return
            word.append(letter)
            hist.append(obs)
            nodes[0] += 1
            n = len(hist)
            # the property's statement, from the raw history
            want_cont = ok_so_far and not U.spec_causes(kind, steps, patience, hist, n - 1)
            s_, pc_, cont_ = U.st_decode(code)
            if bad[0] < 3:
                if cont_ != want_cont:
                    bad[0] += 1
                    causes = [U.spec_causes(kind, steps, patience, hist, i) for i in range(n)]
                    ctx.fail(dict(p, word=list(word)), f"continual: {kind}(steps={steps}, patience={patience}) after word "
                             f"{[(SOP_LETTERS if kind == 'sop' else RTB_LETTERS)[w] for w in word]}: continual()={cont_}, "
                             f"documented causes per step {causes} => expected {want_cont}")
                elif s_ != n or pc_ != U.spec_trailing(hist, n):
                    bad[0] += 1
                    ctx.fail(dict(p, word=list(word)), f"counters: after word {word}: steps={s_} patience_count={pc_}, "
                             f"expected {n} and {U.spec_trailing(hist, n)}")
                if model is not None and only_word is None and (idx[0] >= len(model) or model[idx[0]] != code):
                    bad[0] += 1
                    mv = U.st_decode(model[idx[0]]) if idx[0] < len(model) else None
                    ctx.disagree(f"trie.{kind}", dict(p, word=list(word)),
                                 f"{kind}(steps={steps}, patience={patience}) word {word}: implementation {(s_, pc_, cont_)} model {mv}")
            idx[0] += 1
            if depth + 1 < (L if only_word is None else len(only_word)):
                rec(depth + 1, nv, want_cont)
            word.pop()
            hist.pop()

    rec(0, 1000.0 * p["d"] if kind == "sop" else 2.0 ** -20, True)
    if model is not None and only_word is None and idx[0] != len(model):
        ctx.disagree(f"trie.{kind}", p, f"node count {idx[0]} vs model {len(model)}")
    ctx.count(f"trie.{kind}.nodes", nodes[0])


# ============================================================================= numeric streams

D_CHOICES = [1e-3, 1e-3, 0.5, 1.0, 0.25, 0.0, -0.5, 1e-6, 2.0 ** -10, 3.0]
TOL_CHOICES = [1e-5, 1e-5, 0.0, -1.0, 2.0 ** -10, 1.0, 1e3, -1e9]
EXTREME = {"float64": [5e-324, 1e-310, 1e-300, 1e-150, 1e150, 1e300, 1.7e308],
           "float32": [1.4e-45, 1e-40, 1e-38, 1e-20, 1e20, 1e38, 3.4e38]}
LADDER = [1e-30, 1e-12, 1e-7, 1e-5, 2.0 ** -10, 1e-3, 0.1, 0.5, 1.0, 2.0, 3.0, 10.0, 1e3, 1e6, 1e12]


def representable(fr: Fraction, dtype: str):
    try:
        x = float(fr)
    except OverflowError:
        return None
    x = U.rnd(x, dtype)
    return x if (math.isfinite(x) and Fraction(x) == fr) else None


def gen_value(rng, l, D, TOL, dtype, is_int, extreme=False):
    """one loss element given the previous value l (None = +inf)"""
    if is_int:
        if l is None or l == 0 or rng.random() < 0.25:
            return float(rng.choice([0, 1, 2, 3, 5, 8, 100, 1000, -1, -4, 96]))
        m = rng.random()
        if m < 0.3:
            return float(int(l) // 2)
        if m < 0.5:
            return float(int(l))
        if m < 0.65:
            return float(int(l) * 2)
        if m < 0.8:
            return float(int(l) - 1)
        return float(int(l) - int(l) // 3)
    if l is None or l == 0 or not math.isfinite(l):
        m = 0.9 if rng.random() < 0.8 else 0.99
    else:
        m = rng.random()
    if m < 0.22:
        x = l * rng.choice([0.5, 0.25, 0.9, 0.99, 0.999, 0.75, 0.1])
    elif m < 0.36:
        fr = Fraction(l) / (1 + Fraction(D)) if Fraction(D) != -1 else Fraction(l)
        x = representable(fr, dtype)
        if x is None or rng.random() < 0.4:
            try:
                x = float(fr) * (1 + rng.choice([-1, 1]) * 2.0 ** -rng.choice([8, 16, 20, 24, 30]))
            except OverflowError:
                x = l
    elif m < 0.50:
        x = l
    elif m < 0.60:
        x = l * rng.choice([1.5, 2.0, 10.0, 1 + 2.0 ** -20])
    elif m < 0.70:
        x = TOL * rng.choice([1.0, 1.0, 1 - 2.0 ** -10, 1 + 2.0 ** -10, 1 - 2.0 ** -20, 1 + 2.0 ** -20, 1 + 2.0 ** -30, 0.5, 2.0]) \
            if TOL != 0 else rng.choice([0.0, 1e-9, -1e-9, 1e-12, 1e-7])
    elif m < 0.75:
        x = 0.0
    elif m < 0.82:
        x = -abs(l) * rng.choice([0.5, 1.0, 2.0, 0.999])
    else:
        x = rng.choice(EXTREME[dtype] if (extreme and rng.random() < 0.5) else LADDER) * rng.choice([1.0, 1.0, 1.0, 1.7, 0.3]) * (-1 if rng.random() < 0.15 else 1)
    x = U.rnd(x, dtype)
    if not math.isfinite(x):
        x = 1.0
    return x + 0.0 if x != 0 else 0.0   # no -0.0


SHAPES = [[1], [2], [3], [4], [2, 2], [1, 3], [3, 1], [2, 1, 2], [5], [3, 2], [7], [3, 3], [1, 1], [2, 3], [3, 1, 1], [0], [11]]
LAYOUTS = ["fresh", "fresh", "fresh", "slice", "strided", "expanded"]
STATE_KEYS = {"steps", "patience_count", "_continual", "last", "seen", "seen_losses"}     # "seen": counter of the user subclass
KLASSES = ["lib", "lib", "sub", "sub_step", "sub_prop"]
KLASSES_DRV = KLASSES + ["falsy_len", "falsy_bool", "falsy_len", "falsy_bool"]   # steppers handed to a driver (ICP / MPC)


def exhaust_if_bool(st, case):
    """a `falsy_bool` stepper is handed over AFTER an earlier run exhausted it (its truth value is then False)"""
    if case.get("klass") == "falsy_bool":
        for _ in range(max(int(case["steps"]), 1) + 2):
            st.step(1.0)
        assert not st.continual()


GRADS = ["plain", "plain", "requires_grad", "no_grad", "inference"]


def draw_segcfg(rng, allow_int=True, dd=None):
    """kind of object handed to step(): python float / int, numpy float64 (a float subclass), 0-d tensor, batched
    tensor, nn.Parameter (a Tensor subclass); and the autograd mode the call is made in"""
    vkind = rng.choice(["pyfloat", "np64", "t0d", "t0d", "batch", "batch", "batch", "param", "np1d", "np0d", "pylist"]
                       + (["pyint"] if allow_int else []))
    # python numbers / lists are converted with the process-wide default dtype
    dtype = (dd or "float32") if vkind in ("pyfloat", "pyint", "pylist") else ("float64" if vkind == "np64" else rng.choice(["float64", "float32"]))
    shape = rng.choice(SHAPES) if vkind in ("batch", "param") else ([rng.choice([1, 2, 3, 5])] if vkind in ("np1d", "pylist") else [])
    if vkind == "param" and rng.random() < 0.3:
        shape = []
    return {"vkind": vkind, "dtype": dtype, "shape": shape, "grad": rng.choice(GRADS) if vkind in ("t0d", "batch") else "plain"}


def grad_ctx(mode):
    import contextlib
    return {"no_grad": torch.no_grad, "inference": torch.inference_mode}.get(mode, contextlib.nullcontext)()


def gen_rtb_case(ctx: Ctx, n_max, force=None, long=False):
    rng = ctx.rng
    varying = rng.random() < 0.35 and not force          # per-segment (after reset) kind / dtype / shape
    dd = "float64" if rng.random() < 0.25 else None       # torch.set_default_dtype(float64) around the whole history
    seg = draw_segcfg(rng, allow_int=not varying, dd=dd)
    if force:
        seg["vkind"] = force
    d = rng.choice(D_CHOICES)
    tol = rng.choice(TOL_CHOICES)
    if varying:
        d, tol = U.rnd(d, "float32"), U.rnd(tol, "float32")   # the same effective threshold in every dtype
    style = rng.choice(["kw", "kw", "pos", "omit"])
    force_default = {k: style == "omit" and rng.random() < 0.6 for k in ("d", "tol", "patience")}
    if force_default["d"]:
        d = RTB_DEFAULTS["d"]
    if force_default["tol"]:
        tol = RTB_DEFAULTS["tol"]
    D, TOL = U.rnd(d, seg["dtype"]), U.rnd(tol, seg["dtype"])
    if seg["vkind"] == "pyint":
        D, TOL = U.rnd(rng.choice([0.5, 1.0, 0.25, 1e-3, 0.0]), seg["dtype"]), U.rnd(rng.choice([1e-5, 1.0, 3.0, -1.0]), seg["dtype"])
        d, tol = D, TOL
    steps = rng.choice([1, 2, 3, 4, 5, 6, 8, 10, 15, 30, 200, 0, -3, 10 ** 9, 2 ** 40])
    patience = rng.choice([1, 2, 2, 3, 3, 4, 5, 5, 6, 0, -1, 10 ** 6])
    if force_default["patience"]:
        patience = RTB_DEFAULTS["patience"]
    if long:
        steps, patience = rng.choice([10 ** 9, 2 ** 40, n_max - 3]), rng.choice([10 ** 6, 130, 257, n_max // 2])
    n = rng.randint(n_max // 2, n_max) if long else rng.randint(1, n_max)
    p_reset = 0.004 if long else (rng.choice([0.05, 0.12, 0.2]) if varying else rng.choice([0.0, 0.04, 0.12]))
    # losses delivered through ONE in-place updated buffer (a tensor, a from_numpy tensor, a numpy array, a list)
    reuse = rng.choice(["reuse", "reuse_np"]) if (rng.random() < (0.5 if seg["vkind"] in ("np1d", "np0d", "pylist") else 0.15)
                                                  and not long) else None
    itemwise = rng.random() < 0.2 and not long
    extreme = rng.random() < 0.15
    events, last, skipped = [], None, 0
    coordinated = rng.random() < 0.5
    first_seg = dict(seg)
    B = int(math.prod(seg["shape"])) if seg["vkind"] in ("batch", "param", "np1d", "pylist") and seg["shape"] else 1
    if seg["shape"] == [0]:
        B = 0
    for _ in range(n):
        if events and rng.random() < p_reset:
            if varying and rng.random() < 0.7:
                seg = draw_segcfg(rng, allow_int=False, dd=dd)
                B = int(math.prod(seg["shape"])) if seg["shape"] else 1
                if reuse and seg["vkind"] in ("t0d", "batch", "np1d", "np0d", "pylist"):
                    reuse = rng.choice(["reuse", "reuse_np"])
                if seg["shape"] == [0]:
                    B = 0
                events.append(["R", dict(seg)])
            else:
                events.append(["R"])
            last = None
            continue
        dtype = seg["dtype"]
        for attempt in range(6):
            if attempt == 5:
                vals = list(last) if last is not None else [1.0] * B
            elif long and last is not None and rng.random() < 0.9:
                # long plateaus / slow decreases so that counters really grow
                f = rng.choice([1.0, 1.0, 1.0, 0.5, 0.999])
                vals = [float(int(x * f)) if seg["vkind"] == "pyint" else U.rnd(x * f, dtype) for x in last]
                vals = [0.0 if v == 0 else v for v in vals]   # no -0.0 (underflow)
            elif coordinated and B > 1 and rng.random() < 0.6:
                s_ = rng.randrange(1 << 30)
                import random as _r
                vals = [gen_value(_r.Random(s_), None if last is None else last[i], D, TOL, dtype, seg["vkind"] == "pyint", extreme)
                        for i in range(B)]
            else:
                vals = [gen_value(rng, None if last is None else last[i], D, TOL, dtype, seg["vkind"] == "pyint", extreme)
                        for i in range(B)]
            if B >= 3 and attempt < 5 and not long and rng.random() < 0.25:
                # all elements move together except ONE at a random position (first, middle, last) that does its own thing
                import random as _r
                s2 = rng.randrange(1 << 30)
                vals = [gen_value(_r.Random(s2), None if last is None else last[i], D, TOL, dtype, False, extreme) for i in range(B)]
                j = rng.choice([0, B - 1, B - 1, rng.randrange(B)])
                vals[j] = gen_value(rng, None if last is None else last[j], D, TOL, dtype, False, extreme)
            _, _, amb = U.rtb_obs_exact(last, vals, D, TOL, dtype)
            if not amb:
                break
            skipped += 1
        if reuse and seg["vkind"] in ("t0d", "batch") and seg.get("grad") in (None, "plain", "no_grad"):
            layout = reuse
        elif reuse and seg["vkind"] in ("np1d", "np0d", "pylist"):
            layout = "reuse"
        else:
            layout = rng.choice(LAYOUTS)
        events.append(["S", vals, layout])
        last = vals
    ctx.count("num.rtb.regenerated_near_threshold", skipped)
    return {"kind": "num.rtb", "steps": steps, "patience": patience, "d": d, "tol": tol, "D": D, "TOL": TOL,
            "vkind": first_seg["vkind"], "dtype": first_seg["dtype"], "shape": first_seg["shape"],
            "grad": first_seg.get("grad", "plain"), "itemwise": itemwise,
            "verbose": rng.random() < 0.5, "style": style, "klass": rng.choice(KLASSES), "default_dtype": dd,
            "events": events}


class LossFeeder:
    """builds the object handed to stepper.step for one segment: python number, fresh tensor, slice of a larger
    buffer, non-contiguous view, expanded tensor, or ONE buffer updated in place; remembers what it handed out so
    that purity (bit-for-bit, and the storage around a view) can be checked later."""

    def __init__(self, seg):
        self.seg, self.buf, self.kept = seg, None, []

    def make(self, vals, layout):
        vk, dt, shape = self.seg["vkind"], U.TD[self.seg["dtype"]], tuple(self.seg["shape"])
        if vk == "pyfloat":
            return float(vals[0])
        if vk == "np64":
            import numpy as np
            return np.float64(vals[0])
        if vk == "pyint":
            return int(vals[0])
        if vk in ("np1d", "np0d", "pylist"):
            # non-torch containers that share memory with the caller: a numpy array (1-d / 0-d) or a python list, either a
            # fresh object per step or ONE object refilled in place between the steps
            import numpy as np
            npd = U.NP[self.seg["dtype"]]
            if layout in ("reuse", "reuse_np") and self.buf is not None:
                if vk == "pylist":
                    self.buf[:] = [float(v) for v in vals]
                elif vk == "np0d":
                    self.buf[()] = vals[0]
                else:
                    self.buf[...] = np.array(vals, dtype=npd)
                return self.buf
            obj = [float(v) for v in vals] if vk == "pylist" else (np.array(vals[0], dtype=npd) if vk == "np0d"
                                                                  else np.array(vals, dtype=npd))
            if layout in ("reuse", "reuse_np"):
                self.buf = obj
            else:
                self.kept.append((obj, list(obj) if vk == "pylist" else obj.copy(), None))
            return obj
        t = torch.tensor(vals, dtype=dt).reshape(shape if vk in ("batch", "param") else ())
        if layout == "reuse_np" and vk in ("t0d", "batch"):
            # a tensor created by torch.from_numpy on a numpy buffer the caller refills in place
            import numpy as np
            if self.buf is None:
                self.buf = np.zeros(t.shape, dtype=U.NP[self.seg["dtype"]])
            self.buf[...] = t.numpy()
            return torch.from_numpy(self.buf) if self.buf.ndim else torch.from_numpy(self.buf.reshape(1)).reshape(())
        if vk == "param":
            return torch.nn.Parameter(t)
        if self.seg.get("grad") == "requires_grad" and layout != "reuse":
            leaf = t.clone().requires_grad_(True)
            v = leaf * 1.0          # a non-leaf inside an autograd graph
            self.kept.append((v, t.clone(), None))
            return v
        if layout == "reuse":
            if self.buf is None:
                self.buf = t.clone()
            else:
                self.buf.copy_(t)
            return self.buf
        guard = None
        if layout == "slice":
            big = torch.full((t.numel() + 5,), 7.25, dtype=dt)
            big[2:2 + t.numel()] = t.flatten()
            v = big[2:2 + t.numel()].view(t.shape)
            guard = (big, big.clone())
        elif layout == "strided":
            if t.dim() >= 2:
                perm = list(range(t.dim()))[::-1]
                v = t.permute(perm).contiguous().permute(perm)
            else:
                big = torch.full((2 * t.numel() + 3,), -3.5, dtype=dt)
                big[1:1 + 2 * t.numel():2] = t.flatten()
                v = big[1:1 + 2 * t.numel():2].view(t.shape) if t.dim() == 1 else big[1]
                guard = (big, big.clone())
        elif layout == "expanded" and len(set(vals)) == 1:
            v = torch.tensor(vals[0], dtype=dt).expand(t.shape)
        else:
            v = t
        self.kept.append((v, t.clone(), guard))
        return v

    def impure(self):
        """first tensor handed out earlier that no longer holds its values (or whose surrounding storage changed)"""
        for i, (v, want, guard) in enumerate(self.kept):
            if not torch.is_tensor(v):
                import numpy as np
                if (v != want) if isinstance(v, list) else not np.array_equal(v, want, equal_nan=True):
                    return f"loss object #{i} ({type(v).__name__}) handed to step() was modified"
                continue
            if v.shape != want.shape or not torch.equal(v, want):
                return f"loss tensor #{i} handed to step() was modified: {U.flat(v)[:4]} != {U.flat(want)[:4]}"
            if guard is not None and not torch.equal(guard[0], guard[1]):
                return f"storage around the loss view #{i} was modified"
        return None


def loss_object(case, vals):   # kept for replay files written before the hardening pass
    return LossFeeder({"vkind": case["vkind"], "dtype": case["dtype"], "shape": case["shape"]}).make(vals, "fresh")


def fingerprint(ctl):
    return {k: repr(v) for k, v in ctl.__dict__.items() if k not in STATE_KEYS and k not in ("optimizer", "continual")}


def spec_trace_segment(kind, steps, patience, obs, pc0=0):
    """(continual, patience_count) after each step of a segment, per the property when pc0 = 0; with pc0 > 0 the
    same statement with a patience counter that starts at pc0 (what a stale count would do)"""
    out, cont, pc = [], True, pc0
    for i, o in enumerate(obs):
        pc = pc + 1 if o[0] else 0
        causes = (i + 1 >= steps) or (pc >= patience) or (o[1] if kind == "rtb" else o[2])
        cont = cont and not causes
        out.append((cont, pc))
    return out


def check_rtb_num(ctx: Ctx, case, model_reply=None) -> bool:
    """run one numeric ReduceToBason history on the real code (under the case's process-wide default dtype)"""
    old = torch.get_default_dtype()
    try:
        if case.get("default_dtype"):
            torch.set_default_dtype(U.TD[case["default_dtype"]])
        return _check_rtb_num(ctx, case, model_reply)
    finally:
        torch.set_default_dtype(old)


def _check_rtb_num(ctx: Ctx, case, model_reply=None) -> bool:
    ok = True
    try:
        st = new_rtb(case)
        fp0 = fingerprint(st)
    except Exception as e:
        ctx.fail(case, f"raises: constructor {type(e).__name__}: {e}")
        return False
    seg = {"vkind": case["vkind"], "dtype": case["dtype"], "shape": case["shape"], "grad": case.get("grad", "plain")}
    feeder = LossFeeder(seg)
    real, obs_all = [], []
    segs = [{"obs": [], "alias_obs": [], "codes": [], "reused": 0, "cfg": dict(seg)}]
    last, prev_layout, singles = None, None, None
    model_ok = True
    for ei, ev in enumerate(case["events"]):
        D, TOL, dtype = U.rnd(case["d"], seg["dtype"]), U.rnd(case["tol"], seg["dtype"]), seg["dtype"]
        if seg["vkind"] == "pyint":
            D, TOL = case["D"], case["TOL"]
        if (D, TOL) != (case["D"], case["TOL"]):
            model_ok = False   # effective thresholds differ between dtypes: the single-threshold model line does not apply
        try:
            if ev[0] == "R":
                pc_before = st.patience_count
                with grad_ctx((ev[1] if len(ev) > 1 and ev[1] else seg).get("grad")):   # reset() in the mode of the next run
                    st.reset()
                code = U.ctl_code(st)
                s_, pc_, c_ = U.st_decode(code)
                last_ok = torch.is_tensor(st.last) and bool(torch.isinf(st.last).all()) and bool((st.last > 0).all())
                if s_ != 0 or pc_ != 0 or not c_ or not last_ok:
                    ctx.fail(dict(case, event=ei), f"reset-state: after reset() steps={s_} patience_count={pc_} (was "
                                                   f"{pc_before}) continual={c_} last={ctx_last(st)} (initial state: 0, 0, True, inf)")
                    ok = False
                if len(ev) > 1 and ev[1]:
                    seg = dict(ev[1])
                bad = feeder.impure()
                if bad:
                    ctx.fail(dict(case, event=ei), "purity: " + bad)
                    ok = False
                feeder = LossFeeder(seg)
                segs.append({"obs": [], "alias_obs": [], "codes": [], "reused": 0, "cfg": dict(seg)})
                last, prev_layout, singles = None, None, None
                obs_all.append(None)
            else:
                layout = ev[2] if len(ev) > 2 else "fresh"
                pc_prev = st.patience_count
                with grad_ctx(seg.get("grad")):
                    if case.get("style") == "pos":
                        st.step(feeder.make(ev[1], layout))
                    else:
                        st.step(loss=feeder.make(ev[1], layout))
                code = U.ctl_code(st)
                nd, bl, _ = U.rtb_obs_exact(last, ev[1], D, TOL, dtype)
                aliased = layout in ("reuse", "reuse_np") and prev_layout in ("reuse", "reuse_np")
                and_, _, _ = U.rtb_obs_exact(ev[1] if aliased else last, ev[1], D, TOL, dtype)
                segs[-1]["obs"].append((nd, bl, False))
                segs[-1]["alias_obs"].append((and_, bl, False))
                segs[-1]["reused"] += int(aliased)
                segs[-1]["codes"].append(code)
                obs_all.append((nd, bl))
                got_last = U.flat(st.last)
                if got_last != [float(v) for v in ev[1]]:
                    ctx.fail(dict(case, event=ei), f"last: after step(loss) stepper.last={got_last[:4]} loss={ev[1][:4]}")
                    ok = False
                want_dt = torch.int64 if seg["vkind"] == "pyint" else U.TD[seg["dtype"]]
                want_sh = tuple(seg["shape"]) if seg["vkind"] in ("batch", "param", "np1d", "pylist") else ()
                if st.last.dtype != want_dt or tuple(st.last.shape) != want_sh:
                    ctx.fail(dict(case, event=ei), f"metadata: stepper.last is {st.last.dtype} {tuple(st.last.shape)} after a "
                                                   f"{seg['vkind']} loss of {want_dt} {want_sh} (default dtype {torch.get_default_dtype()})")
                    ok = False
                if case.get("itemwise") and seg["vkind"] == "batch" and seg["shape"] != [0]:
                    ok = itemwise_oracle(ctx, dict(case, event=ei), seg, ev[1], last, (nd, bl), singles,
                                         st.patience_count == pc_prev + 1 and not aliased, aliased) and ok
                    singles = singles or []
                last, prev_layout = ev[1], layout
            real.append(code)
            if fingerprint(st) != fp0:
                ctx.fail(dict(case, event=ei), f"attributes: {ev[0]} changed non-state attributes of the stepper: "
                                               f"{fp0} -> {fingerprint(st)}")
                ok = False
                fp0 = fingerprint(st)
        except Exception as e:
            ctx.fail(dict(case, event=ei), f"raises: event {ev[0]} ({seg['vkind']} {seg['dtype']} {seg['shape']}, layout "
                                           f"{ev[2] if len(ev) > 2 else '-'}) raised {type(e).__name__}: {str(e)[:120]}")
            return False
    bad = feeder.impure()
    if bad:
        ctx.fail(case, "purity: " + bad)
        ok = False
    # the property's statement per segment
    for si, sg in enumerate(segs):
        fresh = spec_trace_segment("rtb", case["steps"], case["patience"], sg["obs"], 0)
        fs = U.spec_first_stop("rtb", case["steps"], case["patience"], sg["obs"])
        ctx.count("num.rtb.first_cause." + ("none" if fs is None else "+".join(
            U.spec_causes("rtb", case["steps"], case["patience"], sg["obs"], fs - 1))))
        got = [(U.st_decode(c)[2], U.st_decode(c)[1]) for c in sg["codes"]]
        steps_ok = all(U.st_decode(c)[0] == i + 1 for i, c in enumerate(sg["codes"]))
        if got == fresh and steps_ok:
            continue
        ok = False
        j = next((i for i, (a, b) in enumerate(zip(got, fresh)) if a != b), 0)
        what = (f"segment {si} (after {'reset' if si else 'construction'}; {sg['cfg']['vkind']} {sg['cfg']['dtype']} "
                f"{sg['cfg']['shape']}), step {j + 1}: (continual, patience_count)={got[j] if got else None}, a fresh "
                f"controller per the documented causes gives {fresh[j] if fresh else None}")
        alias = spec_trace_segment("rtb", case["steps"], case["patience"], sg["alias_obs"], 0)
        if sg["reused"] > 0 and got == alias and steps_ok:
            ctx.fail(dict(case, segment=si), "alias: the losses were delivered through one tensor updated in place and the "
                     "stepper behaves as if stepper.last were that same tensor ((last - loss) always 0); " + what)
        else:
            ctx.fail(dict(case, segment=si), ("reset-behaviour: " if si else "continual: ") + what)
    if model_reply is not None and model_ok:
        st_, toks = common.parse_reply(model_reply)
        want = [int(t) for t in toks] if st_ == "ok" else []
        if len(want) != 3 * len(real):
            ctx.disagree("num.rtb", case, f"model reply {model_reply[:80]}")
            return False
        for ei, code in enumerate(real):
            w, wnd, wbl = want[3 * ei:3 * ei + 3]
            if w != code:
                ctx.disagree("num.rtb", dict(case, event=ei), f"event {ei} ({case['events'][ei][0]}): implementation "
                             f"{U.st_decode(code)} model {U.st_decode(w)}")
                ok = False
                break
            if obs_all[ei] is not None and (bool(wnd), bool(wbl)) != obs_all[ei]:
                ctx.disagree("num.rtb.obs", dict(case, event=ei), f"event {ei}: model (nodec, below)={(wnd, wbl)} exact "
                             f"oracle {obs_all[ei]}")
                ok = False
                break
    return ok


_SINGLES = {}


def itemwise_oracle(ctx, case, seg, vals, last, batch_obs, singles, batch_pc_inc, aliased) -> bool:
    """mixed-regime law on the real code: the batched decision is the conjunction of the decisions the same class
    takes on each element alone (fresh single-element steppers fed the element's own previous value)."""
    dt = U.TD[seg["dtype"]]
    nds, bls = [], []
    for i, x in enumerate(vals):
        one = pp().utils.ReduceToBason(steps=10 ** 9, patience=10 ** 9, decreasing=case["d"], tol=case["tol"])
        if last is not None:
            one.step(torch.tensor([last[i]], dtype=dt))
        pc0 = one.patience_count
        one.step(torch.tensor([x], dtype=dt))
        nds.append(one.patience_count == pc0 + 1)
        two = pp().utils.ReduceToBason(steps=10 ** 9, patience=10 ** 9, decreasing=case["d"], tol=case["tol"])
        two.step(torch.tensor([x], dtype=dt))
        bls.append(not two.continual())
    ok = True
    if (all(nds), all(bls)) != tuple(batch_obs):
        ctx.fail(case, f"itemwise: element-wise decisions of single steppers (nodec, below)={list(zip(nds, bls))} do not give "
                       f"the documented batch decision {batch_obs} for losses {vals[:6]} after {None if last is None else last[:6]}")
        ok = False
    if not aliased and batch_pc_inc != all(nds):
        ctx.fail(case, f"itemwise: batched step counted a non-decrease={batch_pc_inc} but the per-element steppers say "
                       f"{nds} (losses {vals[:6]} after {None if last is None else last[:6]})")
        ok = False
    return ok


def rtb_num_line(case):
    toks = []
    for ev in case["events"]:
        toks.append("R" if ev[0] == "R" else f"S {len(ev[1])} " + common.wire_list(ev[1]))
    return (f"c20.rtb.num {case['steps']} {case['patience']} {to_wire(case['D'])} {to_wire(case['TOL'])} "
            + " ".join(toks))


def run_num_rtb(ctx: Ctx, n_cases, n_max, long=False):
    cases = [gen_rtb_case(ctx, n_max, long=long) for _ in range(n_cases)]
    reps = ctx.driver.run([rtb_num_line(c) for c in cases])
    for c, rep in zip(cases, reps):
        guarded(ctx, c, check_rtb_num, ctx, c, rep)
        nsteps = sum(1 for e in c["events"] if e[0] == "S")
        ctx.note_case(("num.rtb", c["steps"], c["patience"], c["D"], c["TOL"], c["vkind"], c["dtype"], tuple(c["shape"]),
                       nsteps, sum(1 for e in c["events"] if e[0] == "R")), nsteps >= 2)
        ctx.count(f"num.rtb.{c['vkind']}.{c['dtype']}")
        ctx.count("num.rtb.steps", nsteps)
        ctx.count("num.rtb.resets", len(c["events"]) - nsteps)
        ctx.sample({"stream": "num.rtb", **{k: v for k, v in c.items() if k != "events"}, "events_head": c["events"][:4]}, cap=9)


# ----------------------------------------------------------------------------- StopOnPlateau numeric

def gen_sop_case(ctx: Ctx, n_max):
    rng = ctx.rng
    vkind = rng.choice(["pyfloat", "t0d", "t0d"])
    dtype = "float64" if vkind == "pyfloat" else rng.choice(["float64", "float32"])
    d = rng.choice([1e-3, 1e-3, 0.0, -0.5, 1.0, 0.125, 1e-6, 1e-2])
    style = rng.choice(["kw", "kw", "pos", "omit"])
    if style == "omit" and rng.random() < 0.6:
        d = RTB_DEFAULTS["d"]
    D = U.rnd(d, dtype)
    has_reject = rng.random() < 0.7
    steps = rng.choice([1, 2, 3, 4, 5, 6, 8, 10, 15, 30, 100, 0, -3, 10 ** 9])
    patience = rng.choice([1, 2, 2, 3, 3, 4, 5, 6, 0, -1, 10 ** 6])
    if style == "omit" and rng.random() < 0.6:
        patience = RTB_DEFAULTS["patience"]
    n = rng.randint(1, n_max)
    extreme = rng.random() < 0.15
    script, loss, skipped = [], U.rnd(rng.choice(LADDER) * 10, dtype), 0
    for _ in range(n):
        last = loss if rng.random() < 0.9 else U.rnd(rng.choice(LADDER), dtype)
        for attempt in range(6):
            m = rng.random() if attempt < 5 else 0.5
            if m < 0.25:
                x = last * rng.choice([0.5, 0.9, 0.99, 0.1, 0.999999])
            elif m < 0.4:
                x = representable(Fraction(last) - Fraction(D), dtype)
                if x is None or rng.random() < 0.4:
                    x = (last - D) * (1 + rng.choice([-1, 1]) * 2.0 ** -rng.choice([8, 20, 24, 40]))
            elif m < 0.6:
                x = last
            elif m < 0.7:
                x = last - D * rng.choice([0.5, 0.999, 1.001, 2.0, -1.0])
            elif m < 0.8:
                x = last * rng.choice([1.5, 2.0, 1 + 2.0 ** -20]) + rng.choice([0.0, 1e-9])
            else:
                x = rng.choice(EXTREME[dtype] if (extreme and rng.random() < 0.5) else LADDER) * rng.choice([1.0, 1.7, -1.0])
            x = U.rnd(x, dtype)
            if not math.isfinite(x) or not math.isfinite(U.rnd(last - x, dtype)):
                x = last
            ex, fl = U.abs_nodec(last, x, D, dtype)
            if ex == fl:
                break
            skipped += 1
        rc = rng.choice([0, 0, 0, 0, 0, 0, 1, 1, 2, 5])
        if rc and rng.random() < 0.6:
            x = last  # LM: a finally rejected step keeps the loss
        script.append([last, x, rc if has_reject else None])
        loss = x
    ctx.count("num.sop.regenerated_near_threshold", skipped)
    return {"kind": "num.sop", "steps": steps, "patience": patience, "d": d, "D": D, "vkind": vkind, "dtype": dtype,
            "has_reject": has_reject, "layout": rng.choice(["fresh", "fresh", "slice", "reuse", "param"]),
            "probe_at": rng.choice([None, None, 0, rng.randrange(n)]),
            # verbose printing divides python floats ((last-loss)/(last+1e-31)): real optimizers hand tensors, so the
            # verbose flag is exercised with tensor readings only
            "verbose": vkind != "pyfloat" and rng.random() < 0.6, "style": style, "klass": rng.choice(KLASSES),
            "script": script}


def check_sop_num(ctx: Ctx, case, model_reply=None) -> bool:
    ok = True
    opt = FakeOpt(case["has_reject"])
    sch = new_sop(case, opt)
    layout = case.get("layout", "fresh") if case["vkind"] != "pyfloat" else "fresh"
    if layout == "param" and case.get("verbose"):
        layout = "fresh"    # observation: the verbose print formats optimizer.loss with '{:.6e}', which nn.Parameter rejects
    dt = U.TD[case["dtype"]]
    big = torch.full((5,), 9.75, dtype=dt)   # reuse: the optimizer updates its own last/loss tensors in place
    obs, codes = [], []
    probe_entry = None
    fp0 = fingerprint(sch)
    for i, (last, loss, rc) in enumerate(case["script"]):
        try:
            if case.get("probe_at") == i:
                # (11) the documented argument check (step() before optimizer.step(): optimizer.loss is None) fires:
                # the scheduler must be exactly as before and the history continues as if the call had not been made
                before, keep_loss = (U.ctl_code(sch), fingerprint(sch)), opt.loss
                opt.loss = None
                try:
                    sch.step(None)
                    opt.loss = keep_loss
                    ctx.fail(dict(case, step=i), "assert-missing: scheduler.step() called while optimizer.loss is None did not raise "
                                                 "(documented: 'scheduler.step() should be called after optimizer.step()')")
                    return False
                except AssertionError:
                    opt.loss = keep_loss
                    probe_entry = (U.ctl_code(sch), 3, 3)
                    if (U.ctl_code(sch), fingerprint(sch)) != before:
                        ctx.fail(dict(case, step=i), f"atomic: step() raised its documented check (optimizer.loss is None) but "
                                                     f"changed the scheduler: {U.st_decode(before[0])} -> {U.st_decode(U.ctl_code(sch))}")
                        ok = False
            if case["vkind"] == "pyfloat":
                a, b = last, loss
            elif layout == "fresh":
                a, b = torch.tensor(last, dtype=dt), torch.tensor(loss, dtype=dt)
            elif layout == "param":      # the optimizer's loss IS a model parameter
                a, b = torch.tensor(last, dtype=dt), torch.nn.Parameter(torch.tensor(loss, dtype=dt))
            else:
                if layout == "slice":
                    big = torch.full((5,), 9.75, dtype=dt)
                big[1], big[3] = last, loss
                a, b = big[1], big[3]
            opt.feed(a, b, rc)
            if case.get("style") == "pos":
                sch.step(opt.loss)
            else:
                sch.step(loss=opt.loss)
            codes.append(U.ctl_code(sch))
            if case["vkind"] != "pyfloat" and (float(a.detach()) != last or float(b.detach()) != loss or (layout in ("slice", "reuse") and big.tolist() !=
                                                [9.75, last, 9.75, loss, 9.75])):
                ctx.fail(dict(case, step=i), f"purity: StopOnPlateau.step modified optimizer.last/.loss ({float(a)}, {float(b)}) "
                                             f"!= ({last}, {loss})")
                ok = False
            if fingerprint(sch) != fp0:
                ctx.fail(dict(case, step=i), f"attributes: step changed non-state attributes of the scheduler: {fp0} -> {fingerprint(sch)}")
                ok = False
                fp0 = fingerprint(sch)
        except Exception as e:
            ctx.fail(dict(case, step=i), f"raises: StopOnPlateau.step raised {type(e).__name__}: {str(e)[:120]}")
            return False
        ex, _ = U.abs_nodec(last, loss, case["D"], case["dtype"])
        obs.append((ex, False, rc is not None and rc > 0))
    want = spec_trace_segment("sop", case["steps"], case["patience"], obs, 0)
    fs = U.spec_first_stop("sop", case["steps"], case["patience"], obs)
    ctx.count("num.sop.first_cause." + ("none" if fs is None else "+".join(
        U.spec_causes("sop", case["steps"], case["patience"], obs, fs - 1))))
    got = [(U.st_decode(c)[2], U.st_decode(c)[1]) for c in codes]
    if got != want or any(U.st_decode(c)[0] != i + 1 for i, c in enumerate(codes)):
        j = next((i for i, (a, b) in enumerate(zip(got, want)) if a != b), 0)
        ctx.fail(case, f"continual: StopOnPlateau(steps={case['steps']}, patience={case['patience']}, decreasing={case['d']}) "
                       f"step {j + 1}: (continual, patience_count)={got[j]}, documented causes give {want[j]} "
                       f"(last, loss, reject_count)={case['script'][j]}")
        ok = False
    if model_reply is not None:
        st_, toks = common.parse_reply(model_reply)
        w = [int(t) for t in toks] if st_ == "ok" else []
        want = []
        for i, c in enumerate(codes):
            if probe_entry is not None and case.get("probe_at") == i:
                want += list(probe_entry)
            want += [c, int(obs[i][0]), int(obs[i][2])]
        if w != want:
            j = next((i for i, (a, b) in enumerate(zip(w, want)) if a != b), min(len(w), len(want))) // 3
            ctx.disagree("num.sop", dict(case, step=j), f"entry {j} (steps and the failing-assert probe in order): implementation "
                         f"{want[3 * j:3 * j + 3]} model {w[3 * j:3 * j + 3]} [{case['vkind']} {case['dtype']}]")
            ok = False
    return ok


def sop_num_line(case):
    toks = []
    for i, (last, loss, rc) in enumerate(case["script"]):
        if case.get("probe_at") == i:
            toks.append("none")          # a step() call while optimizer.loss is None: the documented assert fires
        toks.append(f"{to_wire(last)} {to_wire(loss)} {-1 if rc is None else rc}")
    return f"c20.sop.num {case['steps']} {case['patience']} {to_wire(case['D'])} " + " ".join(toks)


def run_num_sop(ctx: Ctx, n_cases, n_max):
    cases = [gen_sop_case(ctx, n_max) for _ in range(n_cases)]
    reps = ctx.driver.run([sop_num_line(c) for c in cases])
    for c, rep in zip(cases, reps):
        guarded(ctx, c, check_sop_num, ctx, c, rep)
        ctx.note_case(("num.sop", c["steps"], c["patience"], c["D"], c["vkind"], c["dtype"], c["has_reject"],
                       len(c["script"])), len(c["script"]) >= 2)
        ctx.count(f"num.sop.{c['vkind']}.{c['dtype']}")
        ctx.count("num.sop.steps", len(c["script"]))
        ctx.sample({"stream": "num.sop", **{k: v for k, v in c.items() if k != "script"}, "script_head": c["script"][:3]}, cap=12)


# ----------------------------------------------------------------------------- extended model: IEEE specials, shapes

XVALS = [0.0, 1.0, -1.0, 2.0, 0.5, 3.0, 4.0, 8.0, -2.0, 0.25, 1.0, 2.0, 4.0, -0.0, float("inf"), float("-inf"), float("nan")]
XSHAPES = [[], [1], [3], [1, 3], [3, 1], [2, 3], [3, 3], [2, 1, 3], [1, 1], [0], [2], [2, 2]]


def xtok(v: float) -> str:
    if v != v:
        return "nan"
    if v in (float("inf"), float("-inf")):
        return "inf" if v > 0 else "-inf"
    if v == 0 and math.copysign(1.0, v) < 0:
        return "-0"
    return to_wire(v)


def gen_rtbx_case(ctx: Ctx, n_max=14):
    rng = ctx.rng
    special = rng.random() < 0.7            # NaN / inf / -0.0 among the losses
    reshape = rng.choice(["const", "const", "compatible", "any"])   # how the loss shape evolves along the run
    vals = XVALS if special else XVALS[:13]
    shape = rng.choice(XSHAPES)
    events = []
    for _ in range(rng.randint(1, n_max)):
        if events and rng.random() < 0.08:
            events.append(["R"])
            continue
        if reshape != "const" and rng.random() < 0.4:
            shape = rng.choice(XSHAPES if reshape == "any" else [[], [1], [3], [1, 3], [3, 1], [3, 3], [2, 1, 3], [2, 3]])
        n = int(math.prod(shape)) if shape else 1
        if rng.random() < 0.3:
            v = [rng.choice(vals)] * n
        else:
            v = [rng.choice(vals) for _ in range(n)]
        events.append(["S", list(shape), v])
    thr = [0.5, 1.0, 0.25, 0.0, -0.5, 0.5, 1.0] + ([float("inf"), float("-inf"), float("nan")] if special else [])
    verbose, style = draw_style(rng, 0.3)
    return {"kind": "numx.rtb", "steps": rng.choice([1, 2, 3, 5, 8, 30]), "patience": rng.choice([1, 2, 2, 3, 5]),
            "d": rng.choice(thr), "tol": rng.choice([1.0, 0.5, -1.0, 0.0, 2.0] + thr[7:]), "dtype": rng.choice(["float64", "float32"]),
            "verbose": verbose, "style": style, "events": events}


def rtbx_line(case):
    toks = []
    for ev in case["events"]:
        if ev[0] == "R":
            toks.append("R")
        else:
            toks.append(f"S {len(ev[1])} " + " ".join(map(str, ev[1])) + (" " if ev[1] else "") + f"{len(ev[2])} "
                        + " ".join(xtok(v) for v in ev[2]))
    return f"c20.rtbx {case['steps']} {case['patience']} {xtok(case['d'])} {xtok(case['tol'])} " + " ".join(toks)


def check_rtbx(ctx: Ctx, case, model_reply=None) -> bool:
    """losses with NaN / +-inf / -0.0 and shapes that change along the run (torch broadcasting of `last` against
    `loss`): real code vs the property evaluated with numpy's IEEE arithmetic and broadcasting, vs the extended model"""
    import numpy as np
    ok = True
    try:
        st = new_rtb(case)
    except Exception as e:
        ctx.fail(case, f"raises: constructor {type(e).__name__}: {e}")
        return False
    npd = U.NP[case["dtype"]]
    d, tol = npd(case["d"]), npd(case["tol"])
    last = np.array(np.inf, dtype=np.float32)
    real, raised_at, segs = [], None, [[]]
    for ei, ev in enumerate(case["events"]):
        if ev[0] == "R":
            st.reset()
            real.append((U.ctl_code(st), 2, 2))
            last = np.array(np.inf, dtype=np.float32)
            segs.append([])
            continue
        arr = np.array(ev[2], dtype=npd).reshape(ev[1])
        with np.errstate(all="ignore"):
            try:
                nd = bool(np.all((last - arr) / arr < d))
                raises = False
            except ValueError:
                nd, raises = None, True
            bl = bool(np.all(arr < tol))
        try:
            st.step(torch.tensor(ev[2], dtype=U.TD[case["dtype"]]).reshape(ev[1]))
            did_raise = False
        except RuntimeError:
            did_raise = True
        except Exception as e:
            ctx.fail(dict(case, event=ei), f"raises: step raised {type(e).__name__}: {str(e)[:100]}")
            return False
        if did_raise != raises:
            ctx.fail(dict(case, event=ei), f"broadcast: step(loss of shape {ev[1]}) after last of shape {list(last.shape)} "
                                           f"{'raised' if did_raise else 'did not raise'}; torch.broadcast_shapes says "
                                           f"{'incompatible' if raises else 'compatible'}")
            return False
        if did_raise:
            raised_at = ei       # what the stepper holds after a call that failed on the caller's shapes is out of scope
            break
        segs[-1].append((nd, bl, False))
        real.append((U.ctl_code(st), int(nd), int(bl)))
        last = arr
        want = spec_trace_segment("rtb", case["steps"], case["patience"], segs[-1], 0)[-1]
        s_, pc_, c_ = U.st_decode(real[-1][0])
        if (c_, pc_) != want or s_ != len(segs[-1]):
            ctx.fail(dict(case, event=ei), f"continual: event {ei} loss {ev[2][:6]} shape {ev[1]}: (steps, continual, patience_count)="
                                           f"{(s_, c_, pc_)}; the documented causes with IEEE comparisons give "
                                           f"{(len(segs[-1]), want[0], want[1])} (nodec={nd}, below={bl})")
            ok = False
            break
    if model_reply is not None:
        st_, toks = common.parse_reply(model_reply)
        w = [int(t) for t in toks] if st_ == "ok" else []
        want = [x for r in real for x in (r[0], r[1], r[2])] + ([9, 9, 9] if raised_at is not None else [])
        if w[:len(want)] != want or (ok and raised_at is None and len(w) != len(want)):
            j = next((i for i, (a, b) in enumerate(zip(w, want)) if a != b), min(len(w), len(want))) // 3
            ctx.disagree("numx.rtb", dict(case, event=j), f"event {j} {case['events'][j] if j < len(case['events']) else ''}: "
                         f"implementation {want[3 * j:3 * j + 3]} model {w[3 * j:3 * j + 3]} (9 = raises)")
            ok = False
    return ok


def run_numx_rtb(ctx: Ctx, n_cases):
    cases = [gen_rtbx_case(ctx) for _ in range(n_cases)]
    reps = ctx.driver.run([rtbx_line(c) for c in cases])
    for c, rep in zip(cases, reps):
        guarded(ctx, c, check_rtbx, ctx, c, rep)
        ctx.note_case(("numx.rtb", c["steps"], c["patience"], xtok(c["d"]), xtok(c["tol"]), c["dtype"],
                       tuple(tuple(e[1]) if e[0] == "S" else "R" for e in c["events"])), len(c["events"]) >= 2)
        ctx.count("numx.rtb.cases")
        ctx.count("numx.rtb.special_values", sum(1 for e in c["events"] if e[0] == "S" for v in e[2] if v != v or abs(v) == float("inf")
                                                 or (v == 0 and math.copysign(1, v) < 0)))
    if cases:
        ctx.sample({"stream": "numx.rtb", **{k: v for k, v in cases[0].items() if k != "events"},
                    "events_head": [[e[0]] + ([e[1], [xtok(v) for v in e[2]]] if e[0] == "S" else []) for e in cases[0]["events"][:3]]})


def gen_sopx_case(ctx: Ctx, n_max=14):
    rng = ctx.rng
    vk = rng.choice(["pyfloat", "t0d", "t0d"])
    verbose, style = draw_style(rng, 0.0)
    return {"kind": "numx.sop", "steps": rng.choice([1, 2, 3, 5, 8, 30]), "patience": rng.choice([1, 2, 2, 3, 5]),
            "d": rng.choice([0.5, 1.0, 0.25, 0.0, -0.5, float("inf"), float("nan")]), "vkind": vk,
            "dtype": "float64" if vk == "pyfloat" else rng.choice(["float64", "float32"]), "has_reject": rng.random() < 0.7,
            "verbose": False, "style": style,
            "script": [[rng.choice(XVALS), rng.choice(XVALS), rng.choice([0, 0, 0, 1, 2])] for _ in range(rng.randint(1, n_max))]}


def check_sopx(ctx: Ctx, case, model_reply=None) -> bool:
    import numpy as np
    opt = FakeOpt(case["has_reject"])
    sch = new_sop(case, opt)
    npd = U.NP[case["dtype"]]
    conv = (lambda v: v) if case["vkind"] == "pyfloat" else (lambda v: torch.tensor(v, dtype=U.TD[case["dtype"]]))
    obs, real, ok = [], [], True
    for i, (last, loss, rc) in enumerate(case["script"]):
        rc_ = rc if case["has_reject"] else None
        try:
            opt.feed(conv(last), conv(loss), rc_)
            sch.step(opt.loss)
        except Exception as e:
            ctx.fail(dict(case, step=i), f"raises: StopOnPlateau.step raised {type(e).__name__}: {str(e)[:100]}")
            return False
        with np.errstate(all="ignore"):
            nd = bool(npd(last) - npd(loss) < npd(case["d"]))
        obs.append((nd, False, rc_ is not None and rc_ > 0))
        real.append((U.ctl_code(sch), int(nd), int(obs[-1][2])))
        want = spec_trace_segment("sop", case["steps"], case["patience"], obs, 0)[-1]
        s_, pc_, c_ = U.st_decode(real[-1][0])
        if (c_, pc_) != want or s_ != i + 1:
            ctx.fail(dict(case, step=i), f"continual: step {i + 1} (last, loss, rc)={(xtok(last), xtok(loss), rc_)}: "
                                         f"(continual, patience_count)={(c_, pc_)}, documented causes with IEEE comparisons give {want}")
            return False
    if model_reply is not None:
        st_, toks = common.parse_reply(model_reply)
        w = [int(t) for t in toks] if st_ == "ok" else []
        want = [x for r in real for x in r]
        if w != want:
            j = next((i for i, (a, b) in enumerate(zip(w, want)) if a != b), 0) // 3
            ctx.disagree("numx.sop", dict(case, step=j), f"step {j} {[xtok(v) for v in case['script'][j][:2]]}: implementation "
                                                         f"{want[3 * j:3 * j + 3]} model {w[3 * j:3 * j + 3]}")
            ok = False
    return ok


def sopx_line(case):
    return (f"c20.sopx {case['steps']} {case['patience']} {xtok(case['d'])} "
            + " ".join(f"{xtok(a)} {xtok(b)} {rc if case['has_reject'] else -1}" for a, b, rc in case["script"]))


def run_numx_sop(ctx: Ctx, n_cases):
    cases = [gen_sopx_case(ctx) for _ in range(n_cases)]
    reps = ctx.driver.run([sopx_line(c) for c in cases])
    for c, rep in zip(cases, reps):
        guarded(ctx, c, check_sopx, ctx, c, rep)
        ctx.note_case(("numx.sop", c["steps"], c["patience"], xtok(c["d"]), c["vkind"], c["dtype"], len(c["script"])), True)
        ctx.count("numx.sop.cases")


# ----------------------------------------------------------------------------- argument defaulting (model: rtbOfArgs …)

def run_defaults(ctx: Ctx, n_cases):
    """what the constructors install when optional arguments are omitted, vs the model's `rtbOfArgs/icpStepper/mpcStepper`"""
    rng = ctx.rng
    P = pp()
    lines, reals, cases = [], [], []
    for _ in range(n_cases):
        kind = rng.choice(["rtb", "rtb", "icp", "mpc", "sop"])
        given = kind in ("rtb", "sop") or rng.random() < 0.6
        args = None
        if given:
            args = {"steps": rng.choice([1, 2, 7, 10, 200, 0]), "patience": rng.choice([None, None, 3, 5, 0]),
                    "decreasing": rng.choice([None, None, 0.5, 1e-3, 0.0]), "tol": rng.choice([None, None, 0.25, 1e-5, -1.0])}
        case = {"kind": "defaults", "ctl": kind, "args": args}
        try:
            st = None
            if kind == "sop":
                args["tol"] = None
                st = P.optim.scheduler.StopOnPlateau(FakeOpt(True), args["steps"],
                                                     **{k: v for k, v in args.items() if k not in ("steps", "tol") and v is not None})
                st.tol = 0.0
            elif args is not None:
                st = P.utils.ReduceToBason(args["steps"], **{k: v for k, v in args.items() if k != "steps" and v is not None})
            # the optional argument really OMITTED (not passed, not None) in half of the default constructions
            kw = {} if (st is None and rng.random() < 0.5) else {"stepper": st}
            case["stepper_argument"] = "omitted" if not kw else ("None" if st is None else "given")
            if kind == "icp":
                st = P.module.ICP(**kw).stepper
            elif kind == "mpc":
                sysm, Q, p_, T, x0, ns, nc = mpc_parts()
                st = P.module.MPC(sysm, Q, p_, T, **kw).stepper
        except Exception as e:
            ctx.fail(case, f"raises: constructor raised {type(e).__name__}: {str(e)[:100]}")
            continue
        opt = lambda v: "-" if v is None else (str(v) if isinstance(v, int) else to_wire(v))
        lines.append(f"c20.defaults {kind} " + ("-" if args is None else
                     f"{args['steps']} {opt(args['patience'])} {opt(args['decreasing'])}" + ("" if kind == "sop" else f" {opt(args['tol'])}")))
        reals.append((st.max_steps, st.patience, float(st.decreasing), float(st.tol)))
        cases.append(case)
        ctx.note_case(("defaults", kind, json_key(args)), True)
        ctx.count(f"defaults.{kind}.{'given' if given else 'none'}")
    for case, rep, real in zip(cases, ctx.driver.run(lines), reals):
        st_, toks = common.parse_reply(rep)
        if st_ != "ok":
            raise common.InfraError(f"defaults reply {rep}")
        w = (int(toks[0]), int(toks[1]), float(common.from_wire(toks[2])), float(common.from_wire(toks[3])))
        if w[:2] != real[:2] or any(not (abs(a - b) <= 2.0 ** -50 * abs(b)) for a, b in zip(w[2:], real[2:])):   # NaN fails
            ctx.disagree("defaults", case, f"{case['ctl']}({case['args']}): implementation installs (max_steps, patience, decreasing, "
                                           f"tol)={real}, model {w}")
            # the documented defaults themselves are the oracle
            a = case["args"] or {"steps": 200 if case["ctl"] == "icp" else 10, "patience": None, "decreasing": None, "tol": None}
            doc = (a["steps"] - (1 if case["ctl"] == "mpc" else 0), 5 if a["patience"] is None else a["patience"],
                   1e-3 if a["decreasing"] is None else a["decreasing"],
                   0.0 if case["ctl"] == "sop" else (1e-5 if a["tol"] is None else a["tol"]))
            if tuple(real) != doc:
                ctx.fail(case, f"defaults: {case['ctl']} with arguments {case['args']} installs {real}, documented {doc}")


def doc_default_stop(values, budget, dtype="float64"):
    """number of controller steps the DOCUMENTED default stepper (patience 5, decreasing 1e-3, tol 1e-5, the given
    budget) allows on the scalar losses `values` — from the property's text, nothing read from any object"""
    obs, last = [], None
    for v in values:
        nd, bl, _ = U.rtb_obs_exact(last, [v], U.rnd(1e-3, dtype), U.rnd(1e-5, dtype), dtype)
        obs.append((nd, bl, False))
        last = [v]
        if U.spec_causes("rtb", budget, 5, obs, len(obs) - 1):
            return len(obs)
    return None


def check_shared_defaults(ctx: Ctx, case) -> bool:
    """SEVERAL objects built in one process with every optional argument OMITTED, used interleaved: each must behave
    with the DOCUMENTED defaults (MPC: ReduceToBason(steps=10) minus one = 9 controller steps + 1 final LQR; ICP: 200
    steps; patience 5, decreasing 1e-3, tol 1e-5) — the oracle never reads a value back from the objects"""
    import random
    import pypose.module.icp as icpmod
    P = pp()
    r = random.Random(case["seed"])
    sysm, Q, p_, T, x0, ns, nc = mpc_parts()
    ok = True
    try:
        objs = []
        for kind in case["kinds"]:
            if kind == "mpc":
                objs.append(("mpc", P.module.MPC(sysm, Q, p_, T)))
            elif kind == "icp":
                objs.append(("icp", P.module.ICP()))
            elif kind == "rtb":
                objs.append(("rtb", P.utils.ReduceToBason(case["steps"])))
            else:
                objs.append(("sop", P.optim.scheduler.StopOnPlateau(FakeOpt(True), case["steps"])))
        g = torch.Generator().manual_seed(case["seed"])
        src = torch.randn(4, 3, generator=g)
        tgt = src + 0.1
        oknn = icpmod.knn
        for _ in range(case["rounds"]):
            order = list(range(len(objs)))
            r.shuffle(order)
            for idx in order:
                kind, o = objs[idx]
                mode = r.choice(["dec", "plateau"])
                if kind == "mpc":
                    stub = StubLQR(T, ns, nc)
                    stub.costs = [100.0 * 0.5 ** i if (mode == "dec" or i < 2) else 100.0 * 0.25 for i in range(16)]
                    o.lqr = stub
                    o(1, x0)
                    want = doc_default_stop(stub.costs, 9)      # documented: ReduceToBason(steps=10), one taken off
                    if stub.n != want + 1:
                        ctx.fail(dict(case, object=idx), f"shared-default: default MPC #{idx} of {len(objs)} objects made {stub.n} "
                                 f"LQR calls ({mode} costs); documented default stepper (10 steps, patience 5): {want} + 1")
                        ok = False
                elif kind == "icp":
                    it = [0]

                    def sknn(*a, **k):
                        d, i = oknn(*a, **k)
                        v = 0.99 ** it[0] if (mode == "dec" or it[0] < 3) else 0.99 ** 3
                        it[0] += 1
                        if it[0] > 210:
                            raise IndexError("runaway")
                        return torch.full_like(d, v), i
                    icpmod.knn = sknn
                    try:
                        o(src, tgt)
                    finally:
                        icpmod.knn = oknn
                    want = doc_default_stop([U.rnd(0.99 ** i if (mode == "dec" or i < 3) else 0.99 ** 3, "float32") for i in range(205)],
                                            200, "float32")
                    if it[0] != want:
                        ctx.fail(dict(case, object=idx), f"shared-default: default ICP #{idx} made {it[0]} iterations ({mode}); "
                                                         f"documented default stepper (200 steps, patience 5): {want}")
                        ok = False
                elif kind == "rtb":
                    o.reset()
                    n = 0
                    while o.continual() and n < case["steps"] + 10:
                        o.step(8.0 * 0.5 ** n if (mode == "dec" or n < 1) else 4.0)
                        n += 1
                    want = doc_default_stop([U.rnd(8.0 * 0.5 ** i if (mode == "dec" or i < 1) else 4.0, "float32") for i in range(50)],
                                            case["steps"], "float32")
                    if n != want:
                        ctx.fail(dict(case, object=idx), f"shared-default: ReduceToBason({case['steps']}) #{idx} with defaults "
                                                         f"stopped after {n} steps ({mode}); documented defaults give {want}")
                        ok = False
        # the objects must still hold the documented budgets after all the interleaved use of the others
        for idx, (kind, o) in enumerate(objs):
            doc = {"mpc": 9, "icp": 200}.get(kind)
            if doc is not None and o.stepper.max_steps != doc:
                ctx.fail(dict(case, object=idx), f"shared-default: default {kind.upper()} #{idx} ends with stepper.max_steps="
                                                 f"{o.stepper.max_steps}, documented {doc}")
                ok = False
    except IndexError:
        ctx.fail(case, "bound: a default-constructed driver ran away")
        return False
    except Exception as e:
        ctx.fail(case, f"raises: default-constructed objects raised {type(e).__name__}: {str(e)[:120]}")
        return False
    return ok


def run_shared_defaults(ctx: Ctx, n_cases):
    rng = ctx.rng
    for _ in range(n_cases):
        c = {"kind": "shared_defaults", "kinds": [rng.choice(["mpc", "mpc", "icp", "rtb", "sop"]) for _ in range(rng.randint(2, 5))],
             "steps": rng.choice([3, 8, 30]), "rounds": rng.choice([1, 2]), "seed": rng.randrange(1 << 30)}
        guarded(ctx, c, check_shared_defaults, ctx, c)
        ctx.note_case(("shared_defaults", tuple(c["kinds"]), c["steps"], c["rounds"]), True)
        ctx.count("shared_defaults.objects", len(c["kinds"]))


def json_key(o):
    import json
    return json.dumps(o, sort_keys=True)


# ----------------------------------------------------------------------------- large batches (class 19)

def check_big(ctx: Ctx, case) -> bool:
    nthreads = torch.get_num_threads()
    torch.set_num_threads(1)   # intra-op threads on a loaded machine make 10^5-element ops 100x slower
    try:
        return _check_big(ctx, case)
    finally:
        torch.set_num_threads(nthreads)


def _check_big(ctx: Ctx, case) -> bool:
    """batches of 2^k, 2^k +- 1 elements (up to > 2^16): the batched decision must be the conjunction of the decisions on
    the two halves of every split and on single items (first / last / random), and follow the documented causes; all
    values are dyadic so numpy's float arithmetic is exact. One element (first / last / random position) differs."""
    import numpy as np
    N, shape, dtype, j = case["N"], case["shape"], case["dtype"], case["special"]
    npd, dt = U.NP[dtype], U.TD[dtype]
    d, tol = 0.5, 2.0 ** -12
    cfgs = dict(steps=case["steps"], patience=case["patience"], d=d, tol=tol, verbose=False, style="kw", klass=case.get("klass"))
    rows, x = [], np.ldexp(1.0, -(np.arange(N) % 5)).astype(npd)
    for t, mode in enumerate(case["modes"]):
        y = x / 4                                   # every element decreases by 3x its new value ...
        if mode == "plateau_one":
            y[j] = x[j]                             # ... except ONE that does not move
        elif mode == "plateau_all":
            y = x.copy()
        elif mode == "plateau_all_but_one":
            y = x.copy()
            y[j] = x[j] / 4
        elif mode == "below_all_but_one":
            y = np.full(N, tol / 2, dtype=npd)
            y[j] = 1.0
        elif mode == "below_all":
            y = np.full(N, tol / 2, dtype=npd)
        rows.append(y.astype(npd))
        x = rows[-1]
    big = new_rtb(cfgs)
    cuts = [1, N // 2, N - 1]
    halves = [(new_rtb(dict(cfgs, steps=10 ** 9, patience=10 ** 9)), new_rtb(dict(cfgs, steps=10 ** 9, patience=10 ** 9)), a) for a in cuts]
    items = [(new_rtb(dict(cfgs, steps=10 ** 9, patience=10 ** 9)), i) for i in sorted({0, N - 1, j, case["probe"]})]
    obs, last, ok = [], None, True
    for t, y in enumerate(rows):
        with np.errstate(all="ignore"):
            nd = bool(np.all((last - y) / y < npd(d))) if last is not None else bool(np.all(y < 0))
            bl = bool(np.all(y < npd(tol)))
        obs.append((nd, bl, False))
        pc0 = big.patience_count
        try:
            big.step(torch.from_numpy(y.copy()).reshape(shape))
            parts = []
            for ha, hb, a in halves:
                pa, pb = ha.patience_count, hb.patience_count
                ha.step(torch.from_numpy(y[:a].copy()))
                hb.step(torch.from_numpy(y[a:].copy()))
                parts.append((ha.patience_count == pa + 1 and hb.patience_count == pb + 1, a))
            singles = []
            for it, i in items:
                pi = it.patience_count
                it.step(torch.from_numpy(y[i:i + 1].copy()))
                singles.append((it.patience_count == pi + 1, i))
        except Exception as e:
            ctx.fail(dict(case, step=t), f"raises: step on a batch of {N} elements raised {type(e).__name__}: {str(e)[:100]}")
            return False
        inc = big.patience_count == pc0 + 1
        want = spec_trace_segment("rtb", case["steps"], case["patience"], obs, 0)[-1]
        if (big.continual(), big.patience_count) != want or big.steps != t + 1:
            ctx.fail(dict(case, step=t), f"continual: batch of {N} ({shape}), step {t + 1} ({case['modes'][t]}, special element {j}): "
                                         f"(continual, patience_count)={(big.continual(), big.patience_count)}, documented causes "
                                         f"give {want}")
            ok = False
            break
        for both, a in parts:
            if inc != both:
                ctx.fail(dict(case, step=t), f"split: batch of {N}: counted a non-decrease={inc}, but the halves [:{a}] and [{a}:] "
                                             f"fed separately say {both} (step {t + 1}, {case['modes'][t]}, special element {j})")
                ok = False
        if inc and not all(sg for sg, _ in singles):
            ctx.fail(dict(case, step=t), f"split: batch of {N} counted a non-decrease although single items "
                                         f"{[i for sg, i in singles if not sg]} fed alone did not")
            ok = False
        last = y
    return ok


def gen_big_case(ctx: Ctx, N=None):
    rng = ctx.rng
    N = N or rng.choice([2 ** k + e for k in (10, 12, 14, 15, 16) for e in (-1, 0, 1)])
    shapes = [[N]] + [[a, N // a] for a in (2, 3, 5, 7, 113, 257) if N % a == 0] + [[1, N], [N, 1]]
    modes = ["dec", "plateau_one", "plateau_all", "plateau_all_but_one", "below_all_but_one", "below_all"]
    return {"kind": "big", "N": N, "shape": rng.choice(shapes), "dtype": rng.choice(["float64", "float32"]),
            # the special element: first, last, or inside the remainder n % 2^k of some block size
            "special": rng.choice([0, N - 1, N - 1, rng.randrange(N), N - 1 - (N - 1) % 4096 + rng.randrange(max((N - 1) % 4096, 1)),
                                   max(N - 37, 0), N - 2]), "probe": rng.randrange(N),
            "steps": rng.choice([4, 9]), "patience": rng.choice([1, 2]), "klass": rng.choice(KLASSES),
            "modes": [rng.choice(modes) for _ in range(5)]}


def run_big(ctx: Ctx, sizes):
    for N in sizes:
        c = gen_big_case(ctx, N)
        guarded(ctx, c, check_big, ctx, c)
        ctx.note_case(("big", c["N"], tuple(c["shape"]), c["dtype"], c["special"], tuple(c["modes"])), True)
        ctx.count("big.cases")
        ctx.count("big.elements", c["N"])


# ----------------------------------------------------------------------------- every loss dtype torch accepts (class 30)

NARROW = {"float16": torch.float16, "bfloat16": torch.bfloat16, "int32": torch.int32, "int16": torch.int16, "int8": torch.int8,
          "int64": torch.int64}


def gen_narrow_case(ctx: Ctx, n_max=12):
    rng = ctx.rng
    dt = rng.choice(list(NARROW))
    isint = dt.startswith("int")
    vals = [96, 64, 48, 32, 24, 16, 12, 8, 6, 4, 3, 2, 1, 0, -1, -2, -4] if isint else \
        [8.0, 6.0, 4.0, 3.0, 2.0, 1.5, 1.0, 0.75, 0.5, 0.375, 0.25, 0.125, 0.0, -0.5, -1.0, -2.0]
    shape = rng.choice([[], [], [2], [3], [2, 2], [5]])
    B = int(math.prod(shape)) if shape else 1
    events = []
    for _ in range(rng.randint(1, n_max)):
        if events and rng.random() < 0.08:
            events.append(["R"])
            continue
        v = [float(rng.choice(vals))] * B if rng.random() < 0.4 else [float(rng.choice(vals)) for _ in range(B)]
        events.append(["S", v])
    verbose, style = draw_style(rng, 0.3)
    return {"kind": "narrow", "steps": rng.choice([2, 3, 5, 8, 30]), "patience": rng.choice([1, 2, 2, 3]),
            "d": rng.choice([0.5, 1.0, 0.25, 0.0, -0.5, 2.0]), "tol": rng.choice([1.0, 0.5, 0.25, 0.0625, 0.0, -1.0, 3.0]),
            "ndtype": dt, "shape": shape, "verbose": verbose, "style": style, "klass": rng.choice(KLASSES), "events": events}


def check_narrow(ctx: Ctx, case, model_reply=None) -> bool:
    """losses in float16 / bfloat16 / int8 / int16 / int32 / int64 tensors: values and thresholds are small dyadic numbers,
    exactly representable in every one of these dtypes, so the documented decisions do not depend on the dtype"""
    dt = NARROW[case["ndtype"]]
    st = new_rtb(case)
    segs, real, last, ok = [[]], [], None, True
    for ei, ev in enumerate(case["events"]):
        try:
            if ev[0] == "R":
                st.reset()
                real.append((U.ctl_code(st), 2, 2))
                segs.append([])
                last = None
                continue
            x = torch.tensor(ev[1], dtype=torch.float64).to(dt).reshape(case["shape"])
            st.step(x)
        except Exception as e:
            ctx.fail(dict(case, event=ei), f"raises: step on a {case['ndtype']} loss raised {type(e).__name__}: {str(e)[:100]}")
            return False
        nd, bl, _ = U.rtb_obs_exact(last, ev[1], case["d"], case["tol"], "float64")
        segs[-1].append((nd, bl, False))
        real.append((U.ctl_code(st), int(nd), int(bl)))
        last = ev[1]
        want = spec_trace_segment("rtb", case["steps"], case["patience"], segs[-1], 0)[-1]
        s_, pc_, c_ = U.st_decode(real[-1][0])
        if (c_, pc_) != want or s_ != len(segs[-1]):
            ctx.fail(dict(case, event=ei), f"continual: {case['ndtype']} loss {ev[1][:5]} (shape {case['shape']}): (steps, continual, "
                                           f"patience_count)={(s_, c_, pc_)}; documented causes give {(len(segs[-1]), want[0], want[1])}")
            ok = False
            break
        if st.last.dtype != dt or U.flat(st.last) != [float(v) for v in ev[1]]:
            ctx.fail(dict(case, event=ei), f"metadata: stepper.last is {st.last.dtype} {U.flat(st.last)[:4]} after a {case['ndtype']} "
                                           f"loss {ev[1][:4]}")
            ok = False
    if model_reply is not None:
        st_, toks = common.parse_reply(model_reply)
        w = [int(t) for t in toks] if st_ == "ok" else []
        want = [x for r in real for x in r]
        if w[:len(want)] != want:
            j = next((i for i, (a, b) in enumerate(zip(w, want)) if a != b), 0) // 3
            ctx.disagree("narrow", dict(case, event=j), f"event {j}: implementation {want[3 * j:3 * j + 3]} model {w[3 * j:3 * j + 3]} "
                                                        f"[{case['ndtype']}]")
            ok = False
    return ok


def run_narrow(ctx: Ctx, n_cases):
    cases = [gen_narrow_case(ctx) for _ in range(n_cases)]
    lines = [rtb_num_line(dict(c, D=c["d"], TOL=c["tol"], events=[e if e[0] == "R" else ["S", e[1], "fresh"] for e in c["events"]]))
             for c in cases]
    for c, rep in zip(cases, ctx.driver.run(lines)):
        guarded(ctx, c, check_narrow, ctx, c, rep)
        ctx.note_case(("narrow", c["ndtype"], tuple(c["shape"]), c["steps"], c["patience"], c["d"], c["tol"], len(c["events"])), True)
        ctx.count(f"narrow.{c['ndtype']}")


# ----------------------------------------------------------------------------- several controllers alive at once

class RtbPlayer:
    def __init__(self, case):
        self.case = case
        self.st = new_rtb(case)
        self.seg = {"vkind": case["vkind"], "dtype": case["dtype"], "shape": case["shape"], "grad": case.get("grad", "plain")}
        self.feeder, self.i, self.codes = LossFeeder(self.seg), 0, []

    def done(self):
        return self.i >= len(self.case["events"])

    def play(self):
        ev = self.case["events"][self.i]
        self.i += 1
        if ev[0] == "R":
            self.st.reset()
            if len(ev) > 1 and ev[1]:
                self.seg = dict(ev[1])
            self.feeder = LossFeeder(self.seg)
        else:
            with grad_ctx(self.seg.get("grad")):
                self.st.step(self.feeder.make(ev[1], ev[2] if len(ev) > 2 else "fresh"))
        self.codes.append(U.ctl_code(self.st))


class SopPlayer:
    def __init__(self, case, opt=None):
        self.case, self.opt = case, opt or FakeOpt(case["has_reject"])
        self.sch, self.i, self.codes = new_sop(case, self.opt), 0, []

    def done(self):
        return self.i >= len(self.case["script"])

    def play(self):
        last, loss, rc = self.case["script"][self.i]
        self.i += 1
        dt = U.TD[self.case["dtype"]]
        conv = (lambda v: v) if self.case["vkind"] == "pyfloat" else (lambda v: torch.tensor(v, dtype=dt))
        self.opt.feed(conv(last), conv(loss), rc if hasattr(self.opt, "reject_count") else None)
        self.sch.step(self.opt.loss)
        self.codes.append(U.ctl_code(self.sch))


def check_interleave(ctx: Ctx, case) -> bool:
    """several controllers of both classes alive at once and stepped in an interleaved order behave exactly as each
    one alone (no state outside the object: class attributes, module globals, shared tensors)"""
    import random
    subs = case["subs"]

    def players(shared):
        out, opt = [], None
        for c in subs:
            if c["kind"] == "num.rtb":
                out.append(RtbPlayer(c))
            else:
                if shared and case["share_optimizer"]:
                    opt = opt or FakeOpt(True)
                    out.append(SopPlayer(c, opt))
                else:
                    out.append(SopPlayer(c))
        return out
    try:
        alone = players(False)
        for pl in alone:
            while not pl.done():
                pl.play()
        together = players(True)
        r = random.Random(case["order_seed"])
        live = list(together)
        while live:
            pl = r.choice(live)
            pl.play()
            if pl.done():
                live.remove(pl)
    except Exception as e:
        ctx.fail(case, f"raises: interleaved controllers raised {type(e).__name__}: {str(e)[:120]}")
        return False
    ok = True
    for k, (a, b) in enumerate(zip(alone, together)):
        if a.codes != b.codes:
            j = next(i for i, (x, y) in enumerate(zip(a.codes, b.codes)) if x != y)
            ctx.fail(case, f"interleave: controller {k} ({subs[k]['kind']}) at its event {j}: alone {U.st_decode(a.codes[j])}, "
                           f"interleaved with {len(subs) - 1} other live controllers {U.st_decode(b.codes[j])}")
            ok = False
    return ok


def gen_interleave_case(ctx: Ctx, n_max=14):
    rng = ctx.rng
    subs = []
    for _ in range(rng.choice([2, 3, 4])):
        if rng.random() < 0.6:
            c = gen_rtb_case(ctx, n_max)
        else:
            c = gen_sop_case(ctx, n_max)
            c["has_reject"] = True
            c["script"] = [[a, b, 0 if rc is None else rc] for a, b, rc in c["script"]]
        subs.append(c)
    return {"kind": "interleave", "subs": subs, "share_optimizer": rng.random() < 0.5, "order_seed": rng.randrange(1 << 30)}


def run_interleave(ctx: Ctx, n_cases):
    for _ in range(n_cases):
        c = gen_interleave_case(ctx)
        guarded(ctx, c, check_interleave, ctx, c)
        ctx.note_case(("interleave", tuple(x["kind"] for x in c["subs"]), c["order_seed"]), True)
        ctx.count("interleave.cases")
        ctx.count("interleave.controllers", len(c["subs"]))


# ----------------------------------------------------------------------------- copies of controllers

COPY_METHODS = ["deepcopy", "copy", "pickle", "state_dict"]


def copy_controller(player, method):
    """a second player whose controller is a copy of player's, made with one of the supported copy operations"""
    import copy
    import pickle
    twin = copy.copy(player)                       # the harness-side bookkeeping (shallow), then the controller itself
    twin.codes = list(player.codes)
    if isinstance(player, RtbPlayer):
        twin.feeder = LossFeeder(player.seg)
        if method == "state_dict":
            method = "deepcopy"                    # a stepper has no state_dict
        twin.st = {"deepcopy": copy.deepcopy, "copy": copy.copy,
                   "pickle": lambda o: pickle.loads(pickle.dumps(o))}[method](player.st)
    else:
        if method == "state_dict":
            twin.opt = FakeOpt(True)
            twin.sch = new_sop(player.case, twin.opt)
            twin.sch.load_state_dict(player.sch.state_dict())
        else:
            twin.sch = {"deepcopy": copy.deepcopy, "copy": copy.copy,
                        "pickle": lambda o: pickle.loads(pickle.dumps(o))}[method](player.sch)
            twin.opt = twin.sch.optimizer
    return twin


def check_copies(ctx: Ctx, case) -> bool:
    """copy a controller in the middle of a history (deepcopy / copy / pickle / state_dict), then drive original and
    copy with DIFFERENT continuations, interleaved: each must behave as a single controller fed its own history"""
    import random
    base, alt, k, method = case["base"], case["alt"], case["at"], case["method"]
    mk = (lambda c: RtbPlayer(c)) if base["kind"] == "num.rtb" else (lambda c: SopPlayer(c))
    key = "events" if base["kind"] == "num.rtb" else "script"
    hist_b = dict(alt, **{key: base[key][:k] + alt[key]})       # history of the copy: common prefix + its own tail
    try:
        ref_a, ref_b = mk(base), mk(hist_b)
        for pl in (ref_a, ref_b):
            while not pl.done():
                pl.play()
        is_sop = base["kind"] == "num.sop"
        ops, reads = [], []        # for the model's heap of schedulers: ops and the public continual() readings after each

        def note(tok, a_, b_):
            ops.append(tok)
            reads.append([int(bool(a_.sch.continual())), 2 if b_ is None else int(bool(b_.sch.continual())), 2, 2])

        def sop_tok(pl, idx):
            last, loss, rc = pl.case["script"][pl.i - 1]
            nd = U.abs_nodec(last, loss, pl.case["D"], pl.case["dtype"])[0]
            return f"S {idx} {pl.case['steps']} {pl.case['patience']} {U.obs_code(nd, False, rc is not None and rc > 0)}"
        a = mk(base)
        if is_sop:
            note("N 0", a, None)
        for _ in range(k):
            a.play()
            if is_sop:
                note(sop_tok(a, 0), a, None)
        b = copy_controller(a, method)
        b.case, b.i = hist_b, k
        if is_sop:
            if method == "state_dict":
                ops.append("N 1")
                reads.append([int(bool(a.sch.continual())), 1, 2, 2])      # a new scheduler is continual
                note("L 1 0", a, b)
            else:
                note("C 1 0", a, b)
        r = random.Random(case["order_seed"])
        live = [a, b]
        while live:
            pl = r.choice(live)
            if pl.done():
                live.remove(pl)
                continue
            pl.play()
            if is_sop:
                note(sop_tok(pl, 0 if pl is a else 1), a, b)
    except Exception as e:
        ctx.fail(case, f"raises: copy ({method}) of a controller / its use raised {type(e).__name__}: {str(e)[:120]}")
        return False
    ok = True
    if is_sop and ops:
        rep = ctx.driver.run(["c20.sched " + " ".join(ops)])[0]
        st_, toks = common.parse_reply(rep)
        w = [int(t) for t in toks] if st_ == "ok" else []
        want = [x for rd in reads for x in rd]
        if w != want:
            j = next((i for i, (x, y) in enumerate(zip(w, want)) if x != y), 0) // 4
            ctx.disagree("copies.continual", case, f"after op {j} ({ops[j] if j < len(ops) else ''}; copy by {method}): continual() of "
                         f"(original, copy) = {want[4 * j:4 * j + 2]}, model of the bound wrappers {w[4 * j:4 * j + 2]}")
            ok = False
    for name, ref, got in (("original", ref_a, a), ("copy", ref_b, b)):
        if ref.codes != got.codes:
            j = next((i for i, (x, y) in enumerate(zip(ref.codes, got.codes)) if x != y), min(len(ref.codes), len(got.codes)))
            ctx.fail(case, f"copies: after {method} at event {k} the {name} deviates at its event {j}: "
                           f"{U.st_decode(got.codes[j]) if j < len(got.codes) else None} instead of "
                           f"{U.st_decode(ref.codes[j]) if j < len(ref.codes) else None} (a controller fed the same history alone)")
            ok = False
    return ok


def gen_copies_case(ctx: Ctx, n_max=12):
    rng = ctx.rng
    if rng.random() < 0.4:
        base = gen_rtb_case(ctx, n_max)
        while base["vkind"] == "param" or base.get("grad") in ("requires_grad", "inference"):
            base = gen_rtb_case(ctx, n_max)   # a stepper holding an autograd non-leaf cannot be deep-copied (torch)
        alt = gen_rtb_case(ctx, n_max)
        for c in (base, alt):        # one kind/dtype/shape for both continuations (the copy shares `last`)
            cut = next((i for i, e in enumerate(c["events"]) if e[0] == "R"), len(c["events"]))
            c["events"] = [e for e in c["events"][:cut] if e[2] not in ("reuse", "reuse_np")]
        alt = dict(alt, **{k: base[k] for k in ("steps", "patience", "d", "tol", "D", "TOL", "vkind", "dtype", "shape", "grad",
                                               "verbose", "style")})
        B = int(math.prod(base["shape"])) if base["vkind"] == "batch" else 1
        alt["events"] = [["S", [U.rnd(abs(v) + 0.0, base["dtype"]) for v in ((e[1] or [1.0]) * B)[:B]], "fresh"] for e in alt["events"]] \
            if base["vkind"] != "pyint" else [["S", [float(min(int(abs(v)), 10 ** 6)) for v in ((e[1] or [1.0]) * B)[:B]], "fresh"] for e in alt["events"]]
        n = len(base["events"])
    else:
        base, alt = gen_sop_case(ctx, n_max), gen_sop_case(ctx, n_max)
        for c in (base, alt):
            c["has_reject"] = True
            c["script"] = [[a, b, 0 if rc is None else rc] for a, b, rc in c["script"]]
        alt = dict(alt, **{k: base[k] for k in ("steps", "patience", "d", "D", "vkind", "dtype", "verbose", "style")})
        fin = lambda v: v if math.isfinite(v) else 1.0        # rounding a float64 extreme to float32 may overflow
        alt["script"] = [[fin(U.rnd(a, base["dtype"])), fin(U.rnd(b, base["dtype"])), rc] for a, b, rc in alt["script"]]
        n = len(base["script"])
    return {"kind": "copies", "base": base, "alt": alt, "at": rng.randint(0, n),
            "method": rng.choice(COPY_METHODS + (["copy", "state_dict"] if base["kind"] == "num.sop" else [])),
            "order_seed": rng.randrange(1 << 30)}


def run_copies(ctx: Ctx, n_cases):
    for _ in range(n_cases):
        c = gen_copies_case(ctx)
        guarded(ctx, c, check_copies, ctx, c)
        ctx.note_case(("copies", c["base"]["kind"], c["method"], c["at"], c["order_seed"]), True)
        ctx.count(f"copies.{c['base']['kind'][4:]}.{c['method']}")


# ============================================================================= driver loops

def fwd_line(steps, patience, k, D, TOL, code0, rec):
    """the numeric driver loop of the model (`forwardNum`) on the losses the real loop body produced"""
    return (f"c20.fwd {steps} {patience} {k} {to_wire(D)} {to_wire(TOL)} {code0} "
            + " ".join(f"{len(v)} " + common.wire_list(v) if v else "0" for v in rec))


def loop_line(kind, steps, patience, k, code0, obs_codes):
    return f"c20.loop {kind} {steps} {patience} {k} {code0} " + " ".join(map(str, obs_codes))


def check_loop_reply(ctx, stream, case, rep, iters, calls, final_code):
    st_, toks = common.parse_reply(rep)
    if st_ != "ok":
        ctx.disagree(stream, case, f"model: {rep} (implementation did {iters} iterations)")
        return
    w = [int(t) for t in toks]
    if w != [iters, calls, final_code]:
        ctx.disagree(stream, case, f"implementation iterations={iters} calls={calls} final={U.st_decode(final_code)}; "
                                   f"model iterations={w[0]} calls={w[1]} final={U.st_decode(w[2])}")


# ----------------------------------------------------------------------------- scheduler.optimize, scripted

def gen_opt_case(ctx: Ctx):
    rng = ctx.rng
    c = gen_sop_case(ctx, 1)
    c["kind"] = "drv.optimize"
    c["steps"] = rng.choice([1, 1, 2, 3, 4, 5, 6, 8, 12, 0])
    c["pre"] = rng.choice([0, 0, 0, 1, 2, 3])
    c["raise_at"] = rng.choice([None, None, 0, 1, 2, 3])   # iteration of optimize() in which optimizer.step raises
    c["returns"] = rng.choice(["fresh", "fresh", "view", "parameter"])   # what optimizer.step hands back: a view of its own buffer …
    n = max(c["steps"], 1) + c["pre"] + 3
    mode = rng.choice(["dec", "mixed", "mixed", "plateau"])
    D = c["D"]
    script, loss = [], 1e3
    for i in range(n):
        last = loss
        m = rng.random()
        if mode == "dec" or (mode == "mixed" and m < 0.55):
            x = last - abs(D) * 2 - 1.0
        elif mode == "plateau" and i >= rng.randint(0, 3):
            x = last
        else:
            x = last - D * rng.choice([0.5, 1.0, 0.0, -1.0])
        x = U.rnd(x, c["dtype"])
        ex, fl = U.abs_nodec(last, x, D, c["dtype"])
        if ex != fl:
            x = last
        rc = rng.choice([0] * 9 + [1, 2]) if c["has_reject"] else None
        script.append([last, x, rc])
        loss = x
    c["script"] = script
    return c


def check_opt_scripted(ctx: Ctx, case, want_model=True):
    opt = FakeOpt(case["has_reject"])
    sch = new_sop(case, opt)
    conv = (lambda v: v) if case["vkind"] == "pyfloat" else (lambda v: torch.tensor(v, dtype=U.TD[case["dtype"]]))
    opt.script = [(conv(a), conv(b), rc) for a, b, rc in case["script"]]
    returns = case.get("returns")
    if returns == "parameter" and case.get("verbose"):
        returns = "view"     # observation: the verbose print cannot format an nn.Parameter ('{:.6e}')
    if returns in ("view", "parameter") and case["vkind"] != "pyfloat":
        opt.own_buffer = torch.zeros(2, dtype=U.TD[case["dtype"]])
        opt.as_parameter = returns == "parameter"
        opt.script = [(a, b, rc) for a, b, rc in case["script"]]
    obs = [(U.abs_nodec(a, b, case["D"], case["dtype"])[0], False, rc is not None and rc > 0) for a, b, rc in case["script"]]
    for _ in range(case["pre"]):
        loss = opt.step()
        sch.step(loss)
    code0, pre = U.ctl_code(sch), case["pre"]
    tok = (object(), object(), object())
    fp0 = fingerprint(sch)
    opt.raise_at = None if case.get("raise_at") is None else pre + case["raise_at"]
    try:
        try:
            sch.optimize(tok[0], tok[1], tok[2])
        except U.SolverFailed:
            # (11) the optimizer raised inside the loop: the scheduler must be exactly where the completed steps left it,
            # and calling optimize again must continue as if the failing call had not happened
            want_code = code0 if case["raise_at"] == 0 else None
            done = opt.calls - pre
            spec = spec_trace_segment("sop", case["steps"], case["patience"], obs[:pre + done], 0)
            exp = (spec[-1][0], spec[-1][1]) if spec else (True, 0)
            got = (sch.continual(), sch.patience_count)
            if sch.steps != pre + done or got != exp or (want_code is not None and U.ctl_code(sch) != want_code):
                ctx.fail(case, f"atomic: optimizer.step raised in iteration {done}; scheduler is at steps={sch.steps} "
                               f"(continual, patience_count)={got}, the {pre + done} completed steps give {exp}")
            sch.optimize(tok[0], tok[1], tok[2])
    except IndexError:
        ctx.fail(case, f"bound: scheduler.optimize still looping after {opt.calls - pre} optimizer steps "
                       f"(steps={case['steps']}, {pre} manual steps before)")
        return None
    except Exception as e:
        ctx.fail(case, f"raises: optimize raised {type(e).__name__}: {str(e)[:100]}")
        return None
    iters, final = opt.calls - pre, U.ctl_code(sch)
    if iters > 0 and any(a is not b for a, b in zip(getattr(opt, "args", ()), tok)):
        ctx.fail(case, "arguments: scheduler.optimize did not hand (input, target, weight) through to optimizer.step")
    if fingerprint(sch) != fp0:
        ctx.fail(case, f"attributes: optimize changed non-state attributes of the scheduler: {fp0} -> {fingerprint(sch)}")
    # the property: the loop runs until the first documented cause of the whole history, never beyond the budget
    first = U.spec_first_stop("sop", case["steps"], case["patience"], obs)
    want = 0 if (first is not None and first <= pre) else (first - pre)
    if iters != want:
        ctx.fail(case, f"loop-count: scheduler.optimize did {iters} optimizer steps after {pre} manual ones; the first "
                       f"documented cause is at step {first} => expected {want}")
    if pre == 0 and case["steps"] >= 1 and iters > case["steps"]:
        ctx.fail(case, f"bound: {iters} optimizer steps > steps={case['steps']}")
    if sch.continual():
        ctx.fail(case, "loop-exit: optimize returned with continual() still True")
    n0 = opt.calls
    try:
        sch.optimize(input=None)
    except IndexError:
        pass
    if opt.calls != n0 or sch.continual():
        ctx.fail(case, f"absorbing: a second optimize() on the stopped scheduler performed {opt.calls - n0} more steps")
    return (loop_line("opt", case["steps"], case["patience"], 0, code0, [U.obs_code(*o) for o in obs[pre:]]),
            iters, iters, final)


def run_drv_optimize(ctx: Ctx, n_cases):
    cases = [gen_opt_case(ctx) for _ in range(n_cases)]
    res = [guarded(ctx, c, check_opt_scripted, ctx, c) for c in cases]
    reps = ctx.driver.run([r[0] for r in res if r])
    for (c, r), rep in zip([(c, r) for c, r in zip(cases, res) if r], reps):
        check_loop_reply(ctx, "drv.optimize", c, rep, r[1], r[2], r[3])
    for c in cases:
        ctx.note_case(("drv.optimize", c["steps"], c["patience"], c["pre"], c["has_reject"], c["vkind"], c["dtype"], c["D"]), True)
        ctx.count("drv.optimize.scripted")
    if cases:
        ctx.sample({"stream": "drv.optimize", **{k: v for k, v in cases[0].items() if k != "script"}})


# ----------------------------------------------------------------------------- scheduler.optimize, genuine optimizers

def real_problem(case):
    P = pp()
    g = torch.Generator().manual_seed(case["data_seed"])
    dt = U.TD[case["dtype"]]
    if case["problem"] == "rosenbrock":
        class Rosen(torch.nn.Module):
            def __init__(self):
                super().__init__()
                self.x = torch.nn.Parameter(torch.tensor(case["x0"], dtype=dt))

            def forward(self, inp):
                return torch.stack([10 * (self.x[1] - self.x[0] ** 2), 1 - self.x[0]]) * inp
        return Rosen(), torch.tensor(1.0, dtype=dt)

    class PoseInv(torch.nn.Module):
        def __init__(self):
            super().__init__()
            self.pose = P.Parameter(P.se3(torch.randn(2, 6, generator=g, dtype=dt)).Exp())

        def forward(self, inp):
            return (self.pose @ inp).Log().tensor()
    return PoseInv(), P.se3(torch.randn(2, 6, generator=g, dtype=dt)).Exp()


def make_real_opt(case, net):
    P = pp()
    GN, LM = P.optim.GN, P.optim.LM
    if case.get("klass", "lib") != "lib":        # user subclasses of the shipped optimizers
        GN, LM = type("UserGN", (GN,), {}), type("UserLM", (LM,), {})
    if case["opt"] == "GN":
        return GN(net)
    strat = {"constant": lambda: P.optim.strategy.Constant(damping=case["damping"]),
             "adaptive": lambda: P.optim.strategy.Adaptive(damping=case["damping"]),
             "trust": lambda: P.optim.strategy.TrustRegion(radius=case["damping"] * 1e3 + 1e-3)}[case["strategy"]]()
    return LM(net, strategy=strat, reject=case["reject"])


def check_opt_real(ctx: Ctx, case):
    net, inp = real_problem(case)
    opt = make_real_opt(case, net)
    sch = new_sop(case, opt)
    rec, codes = [], []
    ostep, sstep = opt.step, sch.step

    def cstep(*a, **k):
        r = ostep(*a, **k)
        rec.append([float(opt.last), float(opt.loss), int(opt.reject_count) if hasattr(opt, "reject_count") else None])
        if len(rec) > max(case["steps"], 1) + 2:
            raise IndexError("runaway")
        return r

    def sstep2(loss):
        sstep(loss)
        codes.append(U.ctl_code(sch))
    opt.step, sch.step = cstep, sstep2
    try:
        sch.optimize(input=inp)
    except IndexError:
        ctx.fail(case, f"bound: scheduler.optimize still looping after {len(rec)} optimizer steps (steps={case['steps']})")
        return None
    except Exception as e:
        if "/pypose/optim/scheduler" in "".join(__import__("traceback").format_exc()):
            ctx.fail(case, f"raises: optimize raised {type(e).__name__}: {str(e)[:100]}")
        else:
            ctx.count("drv.optimize.real.optimizer_raised")
        return None
    D = U.rnd(case["d"], case["dtype"])
    obs, amb = [], False
    nonfinite = not all(U.finite_all(r[:2]) for r in rec)
    if nonfinite:
        # a genuine optimizer may diverge (inf / NaN loss): that is the optimizer's behaviour (C08), the scheduler's decisions
        # on such readings are still specified (IEEE comparisons: NaN never counts as a non-decrease) and are checked
        ctx.count("drv.optimize.real.nonfinite_readings")
    for last, loss, rc in rec:
        ex, fl = (U.abs_nodec_ieee if nonfinite else U.abs_nodec)(last, loss, D, case["dtype"])
        amb = amb or ex != fl
        obs.append((ex, False, rc is not None and rc > 0))
    if amb:
        ctx.count("drv.optimize.real.skipped_ambiguous")
        return None
    first = U.spec_first_stop("sop", case["steps"], case["patience"], obs)
    if first != len(rec):
        ctx.fail(dict(case, recorded=rec), f"loop-count: optimize({case['opt']}) did {len(rec)} optimizer steps; first documented "
                                           f"cause at step {first}; readings (last, loss, reject_count)={rec}")
    if case["steps"] >= 1 and len(rec) > case["steps"]:
        ctx.fail(dict(case, recorded=rec), f"bound: {len(rec)} optimizer steps > steps={case['steps']}")
    if first:
        ctx.count("drv.optimize.real.cause." + "+".join(U.spec_causes("sop", case["steps"], case["patience"], obs, first - 1)))
    if nonfinite:
        return None      # the 192-bit model line carries finite values only; the IEEE oracle above has checked the run
    c2 = dict(case, kind="num.sop", D=D, vkind="t0d", has_reject=rec[0][2] is not None if rec else False, script=rec)
    return c2, codes


def gen_opt_real_case(ctx: Ctx):
    rng = ctx.rng
    prob = rng.choice(["rosenbrock", "rosenbrock", "poseinv"])
    return {"kind": "drv.optimize.real", "problem": prob, "opt": rng.choice(["LM", "LM", "LM", "GN"]),
            "strategy": rng.choice(["constant", "constant", "adaptive", "trust"]),
            "damping": rng.choice([1e-6, 1e-4, 1e-2, 1.0, 1e2]), "reject": rng.choice([1, 2, 4, 16]),
            "steps": rng.choice([1, 2, 3, 4, 6, 9]), "patience": rng.choice([1, 2, 3]),
            "d": rng.choice([1e-3, 1.0, 0.0, 1e-8]), "dtype": "float64" if prob == "rosenbrock" else rng.choice(["float64", "float32"]),
            "x0": [rng.choice([-1.2, 0.5, 2.0, -3.0]), rng.choice([1.0, -1.0, 4.0])], "data_seed": rng.randrange(1 << 30),
            "verbose": rng.random() < 0.5, "style": rng.choice(["kw", "pos", "omit"]), "klass": rng.choice(KLASSES)}


def run_drv_optimize_real(ctx: Ctx, n_cases):
    out = []
    for _ in range(n_cases):
        c = gen_opt_real_case(ctx)
        r = guarded(ctx, c, check_opt_real, ctx, c)
        ctx.note_case(("drv.optimize.real", c["problem"], c["opt"], c["strategy"], c["damping"], c["reject"], c["steps"],
                       c["patience"], c["d"]), True)
        ctx.count(f"drv.optimize.real.{c['opt']}")
        if r:
            out.append(r)
    reps = ctx.driver.run([sop_num_line(c2) for c2, _ in out])
    for (c2, codes), rep in zip(out, reps):
        st_, toks = common.parse_reply(rep)
        w = [int(t) for t in toks][0::3] if st_ == "ok" else []
        if w != codes:
            ctx.disagree("drv.optimize.real", c2, f"scheduler states {[U.st_decode(c) for c in codes]} model "
                                                  f"{[U.st_decode(c) for c in w]} readings {c2['script']}")
    if out:
        ctx.sample({"stream": "drv.optimize.real", **{k: v for k, v in out[0][0].items()}})


# ----------------------------------------------------------------------------- MPC

_MPC_SYS = {}


def mpc_parts(seed=1):
    if seed not in _MPC_SYS:
        P = pp()
        g = torch.Generator().manual_seed(seed)
        ns, nc, T = 2, 1, 3
        A = torch.eye(ns) + 0.1 * torch.randn(ns, ns, generator=g)
        B = torch.randn(ns, nc, generator=g)
        sysm = P.module.LTI(A, B, torch.eye(ns), torch.zeros(ns, nc))
        Q = torch.tile(torch.eye(ns + nc), (1, T, 1, 1))
        p = torch.randn(1, T, ns + nc, generator=g)
        x0 = torch.randn(1, ns, generator=g)
        _MPC_SYS[seed] = (sysm, Q, p, T, x0, ns, nc)
    return _MPC_SYS[seed]


class StubLQR(torch.nn.Module):
    """replays scripted costs; stands for the LQR solve inside MPC.forward"""

    def __init__(self, T, ns, nc):
        super().__init__()
        self.costs, self.n, self.T, self.ns, self.nc = [], 0, T, ns, nc

    def forward(self, x_init, dt=1, u_traj=None, **kw):
        if getattr(self, "raise_at", None) == self.n:
            raise U.SolverFailed("LQR failed (injected)")
        c = self.costs[self.n]   # IndexError = runaway loop
        self.n += 1
        if getattr(self, "own_buffer", None) is not None:      # the solver hands back a view of a buffer it updates in place
            self.own_buffer[1] = c
            cost = self.own_buffer[1:2]
        else:
            cost = torch.tensor([c], dtype=torch.float64)
        return torch.zeros(1, self.T + 1, self.ns), torch.zeros(1, self.T, self.nc), cost


def gen_costs(rng, n, D, TOL, mode):
    vals, last = [], None
    for i in range(n):
        for attempt in range(6):
            if attempt == 5:
                x = last if last is not None else 1.0
            elif mode == "dec":
                x = 100.0 if last is None else last * rng.choice([0.5, 0.25])
            elif mode == "neg":
                x = -1.0 if last is None else last * rng.choice([1.0, 2.0, 1.5, 0.5])
            elif mode == "plateau":
                x = 8.0 if last is None else (last if i >= 2 else last * 0.5)
            else:
                x = gen_value(rng, last, D, TOL, "float64", False)
            ex, fl = U.rel_nodec_elem(U.INF if last is None else last, x, D, "float64")
            if ex == fl:
                break
        vals.append(x)
        last = x
    return vals


def gen_mpc_case(ctx: Ctx):
    rng = ctx.rng
    steps = rng.choice([1, 2, 2, 3, 4, 5, 6, 8, 10])
    return {"kind": "drv.mpc", "steps": steps, "patience": rng.choice([1, 2, 2, 3, 5]),
            "d": rng.choice([1e-3, 0.5, 1.0, 0.0]), "tol": rng.choice([1e-5, -1e9, -1e9, 1.0]),
            "k_inits": rng.choice([1, 1, 1, 2, 3]), "real_lqr": False, "verbose": rng.random() < 0.5, "klass": rng.choice(KLASSES_DRV),
            "style": rng.choice(["kw", "pos", "omit"]),
            "calls": mpc_calls(rng)}


def mpc_calls(rng):
    calls = [{"mode": rng.choice(["dec", "neg", "plateau", "walk", "walk"]), "seed": rng.randrange(1 << 30)}
             for _ in range(rng.choice([1, 2, 2, 3]))]
    if rng.random() < 0.3:      # a forward() whose LQR raises in iteration j, followed by an ordinary one
        calls.insert(rng.randrange(len(calls)), {"mode": "walk", "seed": rng.randrange(1 << 30), "raise_at": rng.choice([0, 1, 2])})
    return calls


def check_mpc(ctx: Ctx, case):
    """returns list of (loop_line, iters, calls, final_code) for the model, or None"""
    import random
    P = pp()
    sysm, Q, p, T, x0, ns, nc = mpc_parts()
    try:
        st = new_rtb(case)
        exhaust_if_bool(st, case)
        mpcs = [P.module.MPC(sysm, Q, p, T, stepper=st) for _ in range(case["k_inits"])]
        if any(m.stepper is not st for m in mpcs):
            ctx.fail(case, f"given-stepper: MPC(stepper=<{type(st).__name__}, truth value {bool(st)}>) does not use the GIVEN stepper "
                           f"object (it holds a {type(mpcs[0].stepper).__name__} with max_steps={mpcs[0].stepper.max_steps})")
            return None
    except Exception as e:
        ctx.fail(case, f"raises: MPC constructor {type(e).__name__}: {str(e)[:100]}")
        return None
    eff = case["steps"] - case["k_inits"]
    if st.max_steps != eff:
        ctx.fail(case, f"mpc-init: stepper.max_steps={st.max_steps} after {case['k_inits']} MPC constructions on steps={case['steps']}")
    mpc = mpcs[-1]
    out = []
    D, TOL = case["d"], case["tol"]
    for ci, call in enumerate(case["calls"]):
        code0, pc0 = U.ctl_code(st), st.patience_count
        rec, codes, expect = [], [], []
        sstep = st.step

        def rstep(loss, _s=sstep):
            rec.append(U.flat(loss))
            _s(loss)
            codes.append(U.ctl_code(st))
        st.step = rstep
        if case["real_lqr"]:
            n_lqr = [0]
            of = mpc.lqr.forward

            def cf(*a, _of=of, **k):
                n_lqr[0] += 1
                if n_lqr[0] > max(case["steps"], 1) + 3:
                    raise IndexError("runaway")
                r = _of(*a, **k)
                expect.append(U.flat(r[2]))
                return r
            mpc.lqr.forward = cf
        else:
            stub = StubLQR(T, ns, nc)
            stub.costs = gen_costs(random.Random(call["seed"]), max(case["steps"], 1) + 4, D, TOL, call["mode"])
            stub.raise_at = call.get("raise_at")
            if call["seed"] % 4 == 1:
                stub.own_buffer = torch.zeros(3, dtype=torch.float64)
            mpc.lqr = stub
        try:
            gcall = torch.Generator().manual_seed(call["seed"])
            xin = x0 + (0.3 * torch.randn(x0.shape, generator=gcall) if ci else 0)
            uin = torch.randn(1, T, nc, generator=gcall) if (call["seed"] % 3 == 0) else None
            keep = [(xin, xin.clone())] + ([(uin, uin.clone())] if uin is not None else [])
            fp_call = fingerprint(st)
            kw = {}
            if not case["real_lqr"] and call["seed"] % 5 < 2:     # exactly one of the two related bounds given
                kw["u_lower" if call["seed"] % 5 == 0 else "u_upper"] = torch.zeros(1, T, nc)
            mpc([1, 2, 0.5][call["seed"] % 3] if not case["real_lqr"] else 1, xin, u_init=uin, **kw)
            if any(not torch.equal(a, b) for a, b in keep):
                ctx.fail(dict(case, call=ci), "purity: MPC.forward modified x_init / u_init")
            if mpc.stepper is not st or fingerprint(st) != fp_call:
                ctx.fail(dict(case, call=ci), f"attributes: MPC.forward changed the stepper's configuration: {fp_call} -> {fingerprint(st)}")
        except U.SolverFailed:
            ctx.count("drv.mpc.kernel_raised")
            continue     # (11) the next forward() on the same objects must behave like a fresh one (checked below)
        except IndexError:
            ctx.fail(dict(case, call=ci), f"bound: MPC.forward still looping after {len(rec)} controller steps (steps={case['steps']})")
            return None
        except Exception as e:
            ctx.fail(dict(case, call=ci), f"raises: MPC.forward raised {type(e).__name__}: {str(e)[:100]}")
            return None
        finally:
            st.__dict__.pop("step", None)
            if case["real_lqr"]:
                mpc.lqr.__dict__.pop("forward", None)
        lqr_calls = n_lqr[0] if case["real_lqr"] else mpc.lqr.n
        iters = len(rec)
        if not case["real_lqr"]:
            expect = [[float(c)] for c in mpc.lqr.costs]
        if not passed_ok(ctx, dict(case, call=ci), "MPC.forward", rec, expect[:len(rec)], "float64" if not case["real_lqr"] else "float32"):
            return None
        obs, last, amb = [], None, False
        nonfinite = not all(U.finite_all(v) for v in rec)
        if nonfinite:
            # a NaN / inf cost reached the stepper: its decisions are still specified (IEEE comparisons) and are checked;
            # the non-finite cost itself is reported — for a finite valid input the LQR must not produce one
            ctx.fail(dict(case, call=ci), f"non-finite result: MPC.forward handed a non-finite cost to the stepper: {rec}")
        for v in rec:
            nd, bl, a = (U.rtb_obs_ieee if nonfinite else U.rtb_obs_exact)(last, v, D, TOL, "float64" if not case["real_lqr"] else "float32")
            amb = amb or a
            obs.append((nd, bl, False))
            last = v
        if amb:
            ctx.count("drv.mpc.skipped_ambiguous")
            return None
        check_rtb_loop_oracles(ctx, dict(case, call=ci), "MPC.forward", "lqr", eff, case["patience"], case["steps"], obs,
                               iters, lqr_calls, pc0, st, codes)
        out.append((loop_line("mpc", case["steps"], case["patience"], case["k_inits"], code0, [U.obs_code(*o) for o in obs]),
                    iters, lqr_calls, U.ctl_code(st)))
        dtm = "float64" if not case["real_lqr"] else "float32"
        if not nonfinite:
            out.append((fwd_line(case["steps"], case["patience"], case["k_inits"], U.rnd(D, dtm), U.rnd(TOL, dtm), code0, rec),
                        iters, lqr_calls, U.ctl_code(st)))
    return out


def passed_ok(ctx, case, name, rec, expect, dtype) -> bool:
    """the losses handed to stepper.step are the per-batch-element losses the driver computed"""
    tol = 64 * common.EPS[dtype]
    for i, (r, e) in enumerate(zip(rec, expect)):
        if len(r) != len(e) or any(not (abs(a - b) <= tol * max(abs(a), abs(b), 1e-30)) for a, b in zip(r, e)):   # NaN fails
            ctx.fail(case, f"loss-passed: {name} iteration {i}: stepper.step received {r[:4]} but the driver's per-element "
                           f"losses are {e[:4]}")
            return False
    return True


def check_rtb_loop_oracles(ctx, case, name, kernel, eff_steps, patience, nominal_steps, obs, iters, calls, pc0, st, codes):
    """the property for a reset-then-loop driver: behaves like a fresh controller with budget eff_steps"""
    fresh = U.spec_first_stop("rtb", eff_steps, patience, obs)
    if calls != iters + 1:
        ctx.fail(case, f"calls: {name} called {kernel} {calls} times for {iters} controller steps (expected {iters + 1})")
    if st.continual():
        ctx.fail(case, f"loop-exit: {name} returned with continual() still True")
    if nominal_steps >= 1 and iters > nominal_steps:
        ctx.fail(case, f"bound: {name} performed {iters} controller steps > steps={nominal_steps}")
    if any(U.st_decode(c)[0] != i + 1 for i, c in enumerate(codes)):
        ctx.fail(case, f"reset-state: {name} did not restart the step count: steps after each step "
                       f"{[U.st_decode(c)[0] for c in codes]}")
        return
    if fresh == iters:
        return
    ctx.fail(case, f"loop-count: {name} stopped after {iters} controller steps; a fresh controller stops at the first "
                   f"documented cause, step {fresh} (budget {eff_steps}, patience {patience}, patience_count before the call "
                   f"{pc0}, observations (nodec, below)={[(o[0], o[1]) for o in obs]})")


def run_drv_mpc(ctx: Ctx, n_cases, n_real):
    res = []
    for i in range(n_cases + n_real):
        c = gen_mpc_case(ctx)
        if i >= n_cases:
            c["real_lqr"] = True
            c["tol"] = ctx.rng.choice([1e-5, -1e9])
        r = guarded(ctx, c, check_mpc, ctx, c)
        ctx.note_case(("drv.mpc", c["steps"], c["patience"], c["d"], c["tol"], c["k_inits"], c["real_lqr"],
                       tuple(x["mode"] for x in c["calls"])), True)
        ctx.count("drv.mpc.real_lqr" if c["real_lqr"] else "drv.mpc.scripted")
        ctx.count("drv.mpc.forward_calls", len(c["calls"]))
        if r:
            res += [(c, x) for x in r]
    reps = ctx.driver.run([x[0] for _, x in res])
    for (c, x), rep in zip(res, reps):
        check_loop_reply(ctx, "drv.mpc", c, rep, x[1], x[2], x[3])
    if res:
        ctx.sample({"stream": "drv.mpc", **res[0][0]})


# ----------------------------------------------------------------------------- ICP

def gen_icp_case(ctx: Ctx):
    c = _gen_icp_case(ctx)
    if c["module_init"]:          # the module-level init has one dtype: keep the calls in it
        for call in c["calls"]:
            if "dtype" in call:
                call["dtype"] = c["dtype"]
    return c


def _gen_icp_case(ctx: Ctx):
    rng = ctx.rng
    vary = rng.random() < 0.6      # every per-call argument varied between the calls on one ICP object

    def call():
        c = {"mode": rng.choice(["dec", "plateau", "walk", "walk", "below"]), "seed": rng.randrange(1 << 30)}
        if vary:
            c.update({"batch": rng.choice([[], [1], [2], [3], [2, 2]]), "dtype": rng.choice(["float32", "float64"]),
                      "npts": rng.choice([3, 4, 5, 8]), "init": rng.choice([None, None, "given"]), "ord": rng.choice([2, 2, 1]),
                      "layout": rng.choice(["fresh", "strided", "slice"])})
        return c
    return {"kind": "drv.icp", "steps": rng.choice([1, 2, 3, 4, 5, 6, 8]), "patience": rng.choice([1, 2, 2, 3, 4]),
            "d": U.rnd(rng.choice([1e-3, 0.5, 1.0]), "float32"), "tol": U.rnd(rng.choice([1e-5, 1e-5, 2.0 ** -10, -1.0]), "float32"),
            "batch": rng.choice([[], [1], [2], [3]]), "dtype": rng.choice(["float32", "float64"]),
            "module_init": rng.random() < 0.4, "verbose": rng.random() < 0.5, "klass": rng.choice(KLASSES_DRV),
            "style": rng.choice(["kw", "pos", "omit"]),
            "scripted": rng.random() < 0.75, "data_seed": rng.randrange(1 << 30),
            "calls": icp_calls(rng, call)}


def icp_calls(rng, call):
    calls = [call() for _ in range(rng.choice([1, 2, 2, 3, 4]))]
    if rng.random() < 0.3:
        calls.insert(rng.randrange(len(calls)), dict(call(), raise_at=rng.choice([0, 1, 2])))
    return calls


def as_layout(t, layout):
    """the same values as a non-contiguous view / a slice of a larger buffer"""
    if layout == "strided" and t.dim() >= 2:
        return t.transpose(-1, -2).contiguous().transpose(-1, -2)
    if layout == "slice":
        big = torch.full((t.numel() + 6,), 0.5, dtype=t.dtype)
        big[3:3 + t.numel()] = t.flatten()
        return big[3:3 + t.numel()].view(t.shape)
    return t


def check_icp(ctx: Ctx, case):
    import random
    import pypose.module.icp as icpmod
    P = pp()
    g = torch.Generator().manual_seed(case["data_seed"])
    st = new_rtb(case)
    exhaust_if_bool(st, case)
    minit = P.se3(0.1 * torch.randn(6, generator=g, dtype=U.TD[case["dtype"]])).Exp() if case.get("module_init") else None
    icp = P.module.ICP(init=minit, stepper=st)
    if icp.stepper is not st:
        ctx.fail(case, f"given-stepper: ICP(stepper=<{type(st).__name__}, truth value {bool(st)}>) does not use the GIVEN stepper "
                       f"object (it holds a {type(icp.stepper).__name__} with max_steps={icp.stepper.max_steps}): budget "
                       f"{case['steps']}, patience {case['patience']}, tol {case['tol']} are ignored")
        # keep going: the loop oracles below show the consequence (iterations, the given stepper is never stepped)
    minit_before = None if minit is None else minit.tensor().clone()
    fp0 = fingerprint(st)
    oknn, osvd = icpmod.knn, icpmod.svdtf
    out = []
    try:
        for ci, call in enumerate(case["calls"]):
            dtype = call.get("dtype", case["dtype"])
            dt = U.TD[dtype]
            bshape = tuple(call.get("batch", case["batch"]))
            npts = call.get("npts", 4)
            src = as_layout(torch.randn(bshape + (npts, 3), generator=g, dtype=dt), call.get("layout", "fresh"))
            tf = P.se3(0.3 * torch.randn(bshape + (6,), generator=g, dtype=dt)).Exp()
            tgt = as_layout(tf.unsqueeze(-2).Act(src).clone(), call.get("layout", "fresh"))
            init = P.se3(0.1 * torch.randn(bshape + (6,), generator=g, dtype=dt)).Exp() if call.get("init") else None
            keep = [(x, x.clone()) for x in (src, tgt)] + ([(init.tensor(), init.tensor().clone())] if init is not None else [])
            B = int(math.prod(bshape)) if bshape else 1
            D, TOL = U.rnd(case["d"], dtype), U.rnd(case["tol"], dtype)
            case = dict(case, dtype=dtype)   # dtype of this call for the oracles below
            code0, pc0 = U.ctl_code(st), st.patience_count
            n_svd, rec, codes, expect = [0], [], [], []
            script = None
            if case["scripted"]:
                r = random.Random(call["seed"])
                mode = call["mode"]
                cols = []
                for b in range(B):
                    if mode == "below":
                        cols.append([1.0, 0.5] + [abs(TOL) / 2 if TOL > 0 else 0.25] * (case["steps"] + 4))
                    else:
                        cols.append([abs(v) + 0.0 for v in gen_costs(r, max(case["steps"], 1) + 4, D, abs(TOL), mode)])
                script = [[U.rnd(cols[b][i], case["dtype"]) for b in range(B)] for i in range(len(cols[0]))]
            it = [0]

            def sknn(*a, **k):
                if call.get("raise_at") == it[0]:
                    raise U.SolverFailed("kNN failed (injected)")
                d, i = oknn(*a, **k)
                if script is not None:
                    row = script[it[0]]   # IndexError = runaway
                    it[0] += 1
                    d = torch.tensor(row, dtype=d.dtype).reshape(bshape + (1, 1)).expand(d.shape).clone()
                elif it[0] > max(case["steps"], 1) + 3:
                    raise IndexError("runaway")
                else:
                    it[0] += 1
                expect.append(U.flat(d.squeeze(-1).mean(dim=-1)))
                return d, i

            def csvd(*a, **k):
                n_svd[0] += 1
                return osvd(*a, **k)
            sstep = st.step

            def rstep(loss, _s=sstep):
                rec.append(U.flat(loss))
                _s(loss)
                codes.append(U.ctl_code(st))
            icpmod.knn, icpmod.svdtf, st.step = sknn, csvd, rstep
            try:
                kw = {"ord": call["ord"]} if "ord" in call else {}
                if init is not None:
                    kw["init"] = init
                icp(src, tgt, **kw)
            except U.SolverFailed:
                ctx.count("drv.icp.kernel_raised")
                continue
            except IndexError:
                ctx.fail(dict(case, call=ci), f"bound: ICP.forward still looping after {len(rec)} controller steps (steps={case['steps']})")
                return None
            except Exception as e:
                ctx.fail(dict(case, call=ci), f"raises: ICP.forward raised {type(e).__name__}: {str(e)[:100]}")
                return None
            finally:
                st.__dict__.pop("step", None)
            for x, x0 in keep:
                if not torch.equal(x, x0):
                    ctx.fail(dict(case, call=ci), "purity: ICP.forward modified one of its arguments (source / target / init)")
            if icp.stepper is not st or fingerprint(st) != fp0 or (icp.init is not minit) or \
                    (minit is not None and not torch.equal(minit.tensor(), minit_before)):
                ctx.fail(dict(case, call=ci), f"attributes: ICP.forward changed public attributes: stepper config {fp0} -> "
                                              f"{fingerprint(st)}, init kept={icp.init is minit}")
                fp0 = fingerprint(st)
            if not passed_ok(ctx, dict(case, call=ci), "ICP.forward", rec, expect[:len(rec)], case["dtype"]):
                return None
            obs, last, amb = [], None, False
            nonfinite = not all(U.finite_all(v) for v in rec)
            if nonfinite:
                ctx.fail(dict(case, call=ci), f"non-finite result: ICP.forward handed a non-finite error to the stepper: {rec[:6]}")
            for v in rec:
                nd, bl, a = (U.rtb_obs_ieee if nonfinite else U.rtb_obs_exact)(last, v, D, TOL, case["dtype"])
                amb = amb or a
                obs.append((nd, bl, False))
                last = v
            if amb:
                ctx.count("drv.icp.skipped_ambiguous")
                return None
            check_rtb_loop_oracles(ctx, dict(case, call=ci), "ICP.forward", "svdtf", case["steps"], case["patience"],
                                   case["steps"], obs, len(rec), n_svd[0], pc0, st, codes)
            out.append((loop_line("icp", case["steps"], case["patience"], 0, code0, [U.obs_code(*o) for o in obs]),
                        len(rec), n_svd[0], U.ctl_code(st)))
            if not nonfinite:
                out.append((fwd_line(case["steps"], case["patience"], 0, D, TOL, code0, rec), len(rec), n_svd[0], U.ctl_code(st)))
    finally:
        icpmod.knn, icpmod.svdtf = oknn, osvd
    return out


def run_drv_icp(ctx: Ctx, n_cases):
    res = []
    for _ in range(n_cases):
        c = gen_icp_case(ctx)
        r = guarded(ctx, c, check_icp, ctx, c)
        ctx.note_case(("drv.icp", c["steps"], c["patience"], c["d"], c["tol"], tuple(c["batch"]), c["dtype"], c["scripted"],
                       tuple(x["mode"] for x in c["calls"])), True)
        ctx.count("drv.icp.scripted" if c["scripted"] else "drv.icp.genuine")
        ctx.count("drv.icp.forward_calls", len(c["calls"]))
        if r:
            res += [(c, x) for x in r]
    reps = ctx.driver.run([x[0] for _, x in res])
    for (c, x), rep in zip(res, reps):
        check_loop_reply(ctx, "drv.icp", c, rep, x[1], x[2], x[3])
    if res:
        ctx.sample({"stream": "drv.icp", **res[0][0]})


# ============================================================================= entry points

def _rtb(steps, patience, d, tol, vkind, dtype, shape, events, itemwise=False):
    cur = dtype
    for ev in events:   # values as the dtype of their segment holds them
        if ev[0] == "R" and len(ev) > 1:
            cur = ev[1]["dtype"]
        elif ev[0] == "S":
            ev[1] = [U.rnd(v, cur) for v in ev[1]]
    return {"kind": "num.rtb", "steps": steps, "patience": patience, "d": d, "tol": tol, "D": U.rnd(d, dtype),
            "TOL": U.rnd(tol, dtype), "vkind": vkind, "dtype": dtype, "shape": shape, "itemwise": itemwise, "events": events}


def corpus_cases():
    """deterministic corner corpus (seed independent), one entry per class of corner"""
    S = lambda v, lay="fresh": ["S", v, lay]
    halving = [S([2.0 ** -k], "reuse") for k in range(8)]
    plateau = [S([1.0]) for _ in range(300)]
    return [
        # D31 (repaired): stops on patience, reset, negative first loss
        _rtb(10, 2, 1e-3, -100.0, "t0d", "float64", [], [S([1.0]), S([1.0]), S([1.0]), ["R"], S([-1.0]), S([-2.0])]),
        # D34 (repaired): halving losses delivered through ONE buffer updated in place
        _rtb(20, 2, 1e-3, 1e-9, "t0d", "float32", [], halving),
        _rtb(20, 2, 1e-3, 1e-9, "batch", "float64", [2], [S([2.0 ** -k, 3.0 * 2.0 ** -k], "reuse") for k in range(8)]),
        # the same through non-torch containers that share memory with the caller: numpy 1-d / 0-d buffers refilled in place,
        # a python list mutated in place, tensors made by torch.from_numpy on a refilled buffer
        _rtb(20, 2, 1e-3, 1e-9, "np1d", "float64", [2], [S([2.0 ** -k, 3.0 * 2.0 ** -k], "reuse") for k in range(8)]),
        _rtb(20, 2, 1e-3, 1e-9, "np1d", "float32", [1], [S([2.0 ** -k], "reuse") for k in range(8)]),
        _rtb(20, 2, 1e-3, 1e-9, "np0d", "float64", [], [S([2.0 ** -k], "reuse") for k in range(8)]),
        _rtb(20, 2, 1e-3, 1e-9, "pylist", "float32", [3], [S([2.0 ** -k, 3.0 * 2.0 ** -k, 1.0], "reuse") for k in range(8)]),
        _rtb(20, 2, 1e-3, 1e-9, "batch", "float64", [2], [S([2.0 ** -k, 3.0 * 2.0 ** -k], "reuse_np") for k in range(8)]),
        _rtb(20, 2, 1e-3, 1e-9, "t0d", "float32", [], [S([2.0 ** -k], "reuse_np") for k in range(8)]),
        _rtb(20, 2, 1e-3, 1e-9, "np1d", "float64", [2], [S([2.0 ** -k, 3.0 * 2.0 ** -k], "fresh") for k in range(8)]),
        # boundaries: ratio == decreasing exactly, loss == tol exactly, zero loss, one element decides
        _rtb(9, 2, 1.0, 0.5, "batch", "float32", [2], [S([8.0, 8.0]), S([4.0, 8.0]), S([2.0, 4.0], "slice"), S([1.5, 3.0], "strided"),
                                                      S([0.5, 0.25]), S([0.25, 0.25], "expanded"), S([0.0, 0.25]), S([0.0, 0.0])], True),
        # mixed regimes in one batch: zero, negative, exact threshold, huge, tiny — item by item
        _rtb(50, 3, 0.5, 1.0, "batch", "float64", [5], [S([0.0, -1.0, 3.0, 1e300, 1e-300]), S([0.0, -2.0, 2.0, 1e299, 1e-300]),
                                                       S([0.0, -1.0, 2.0, 1e299, 5e-324]), S([0.5, -0.5, 0.5, 0.5, 0.5]),
                                                       S([0.25, 0.25, 0.25, 0.25, 1.0]), S([0.25, 0.25, 0.25, 0.25, 0.999])], True),
        _rtb(50, 2, 1e-3, 1e-5, "batch", "float32", [3], [S([1e38, 1e-40, 1.0]), S([3e38, 1.4e-45, 1.0]), S([1e38, 0.0, 1.0]),
                                                          S([1e-6, 1e-6, 1e-6]), S([9e-6, 1e-6, 1e-6])], True),
        # object re-use: kind / dtype / shape change after every reset, python numbers, ints
        _rtb(6, 2, 0.5, 0.25, "pyfloat", "float32", [], [S([8.0]), S([4.0]), ["R", {"vkind": "batch", "dtype": "float64", "shape": [2, 2]}],
                                                         S([8.0, 8.0, 8.0, 8.0]), S([8.0, 8.0, 8.0, 2.0], "strided"), S([8.0, 8.0, 8.0, 2.0]),
                                                         ["R", {"vkind": "t0d", "dtype": "float32", "shape": []}], S([1.0], "slice"), S([0.125]),
                                                         ["R", {"vkind": "batch", "dtype": "float32", "shape": [3]}], S([1.0, 2.0, 3.0]),
                                                         S([1.0, 2.0, 3.0]), S([1.0, 2.0, 3.0]), S([0.1, 0.1, 0.1])]),
        _rtb(7, 3, 1.0, 3.0, "pyint", "float32", [], [S([96.0]), S([48.0]), S([47.0]), S([47.0]), S([3.0]), S([2.0]), S([0.0]), S([-4.0])]),
        # degenerate / huge configurations
        _rtb(0, 1, 1e-3, 1e-5, "t0d", "float64", [], [S([3.0]), S([1.0]), ["R"], S([1.0])]),
        _rtb(-1, 0, 1e-3, 1e-5, "t0d", "float64", [], [S([3.0]), S([1.0])]),
        _rtb(10 ** 9, 10 ** 6, 0.0, -1e9, "t0d", "float64", [], [S([1.0]), S([1.0]), S([0.5]), S([0.5])]),
        # every optional argument left at its documented default (patience 5, decreasing 1e-3, tol 1e-5)
        dict(_rtb(40, 5, 1e-3, 1e-5, "t0d", "float64", [], [S([1002.0]), S([1000.0]), S([999.5]), S([999.5]), S([999.5]), S([999.5]),
                                                         S([999.5]), S([5e-6]), ["R"], S([2e-6]), ["R"], S([1.0]), S([9.999e-6])]), style="omit"),
        # sizes: 11 / 9 / 7 elements where only the LAST (or only one middle) element decides
        _rtb(30, 2, 0.5, 1.0, "batch", "float32", [11], [S([0.5] * 10 + [4.0]), S([0.5] * 10 + [2.0]), S([0.5] * 10 + [1.0]),
                                                        S([0.5] * 10 + [0.75]), S([0.5] * 11)], True),
        _rtb(30, 2, 0.5, -1.0, "batch", "float64", [3, 3], [S([8.0] * 9), S([8.0] * 8 + [4.0]), S([8.0] * 8 + [2.0]),
                                                           S([8.0] * 9), S([8.0] * 4 + [1.0] + [8.0] * 4), S([8.0] * 9)], True),
        _rtb(30, 2, 0.5, 1.0, "batch", "float64", [7], [S([0.25] * 3 + [2.0] + [0.25] * 3), S([0.25] * 7), S([0.25] * 7)], True),
        # exact ties of two data-dependent quantities: relative decrease EXACTLY equal to `decreasing` (not a non-decrease:
        # the test is strict), loss EXACTLY equal to tol (not below), equal consecutive losses with decreasing = 0
        _rtb(40, 2, 0.25, 0.5, "t0d", "float64", [], [S([2.44140625]), S([1.953125]), S([1.5625]), S([1.25]), S([1.0]), S([1.0]),
                                                     S([0.5]), S([0.5]), S([0.4])]),
        _rtb(40, 2, 3.0, 1.0, "batch", "float32", [2], [S([64.0, 64.0]), S([16.0, 16.0]), S([4.0, 4.0]), S([1.0, 4.0]), S([1.0, 1.0]),
                                                       S([1.0, 1.0])]),
        _rtb(40, 2, 0.0, -1.0, "pyfloat", "float32", [], [S([4.0]), S([4.0]), S([4.0]), S([4.5]), S([5.0])]),
        _rtb(40, 2, -0.5, -1.0, "t0d", "float64", [], [S([1.0]), S([2.0]), S([4.0]), S([8.0]), S([17.0]), S([35.0])]),
        # the band between round-off and an `isclose`-style tolerance (1e-5 relative, 1e-8 absolute): loss just above / just
        # below tol, relative decrease just above / below `decreasing`, tiny losses of either sign against tol = 0
        _rtb(40, 3, 0.5, 0.25, "t0d", "float64", [], [S([8.0]), S([0.25 * (1 + 2.0 ** -20)]), S([0.25 * (1 + 2.0 ** -20)]),
                                                     ["R"], S([0.25 * (1 - 2.0 ** -20)]), ["R"], S([4.0]),
                                                     S([4.0 / (1 + 0.5 * (1 + 2.0 ** -20))]), ["R"], S([4.0]),
                                                     S([4.0 / (1 + 0.5 * (1 - 2.0 ** -20))]), S([1.0])]),
        _rtb(40, 3, 1e-3, 0.0, "batch", "float64", [2], [S([1e-9, 1e-9]), S([1e-9, -1e-9]), S([-1e-9, -1e-12]), S([0.0, -1e-12]),
                                                        S([1e-12, 1e-12])]),
        # long history: counters beyond 256, patience 257 reached exactly at step 258, budget 290
        _rtb(290, 257, 1e-3, 1e-9, "t0d", "float32", [], plateau),
    ]


CORPUS = corpus_cases()


def corpus_sop_cases():
    """StopOnPlateau ties: last - loss EXACTLY equal to `decreasing` (strict test: a decrease), equal losses with
    decreasing 0, negative `decreasing`, patience / budget reached exactly, single and repeated rejections"""
    out = []
    for vk, dt in (("pyfloat", "float64"), ("t0d", "float64"), ("t0d", "float32")):
        for d, script in ((0.125, [[8.0, 7.875, 0], [7.875, 7.75, 0], [7.75, 7.6875, 0], [7.6875, 7.6875, 0], [7.6875, 7.5625, 0],
                                   [7.5625, 7.5, 0], [7.5, 7.5, 0], [7.5, 7.5, 0]]),
                          (0.0, [[4.0, 4.0, 0], [4.0, 4.0, 0], [4.0, 4.5, 0], [4.5, 5.0, 0], [5.0, 5.0, 0]]),
                          (-0.5, [[4.0, 4.5, 0], [4.5, 5.0, 0], [5.0, 6.0, 0], [6.0, 7.0, 0], [7.0, 7.0, 0]]),
                          (1.0, [[9.0, 8.0, 1], [8.0, 8.0, 0]]), (1.0, [[9.0, 8.0, 0], [8.0, 7.0, 2], [7.0, 6.0, 0]])):
            for steps, pat in ((30, 2), (5, 3), (3, 1)):
                out.append({"kind": "num.sop", "steps": steps, "patience": pat, "d": d, "D": U.rnd(d, dt), "vkind": vk, "dtype": dt,
                            "has_reject": True, "layout": "fresh", "verbose": False, "style": "kw", "klass": "lib",
                            "script": [list(r) for r in script]})
    return out


def corpus_drivers():
    mk = lambda mode, seed: {"mode": mode, "seed": seed}
    mpcs = [{"kind": "drv.mpc", "steps": s, "patience": p, "d": 1e-3, "tol": -1e9, "k_inits": k, "real_lqr": False,
             "calls": [mk("plateau", 3), mk("neg", 4), mk("dec", 6)]}
            for s, p, k in ((1, 2, 1), (2, 2, 1), (2, 1, 2), (5, 2, 1), (10, 5, 3))]
    icps = [{"kind": "drv.icp", "steps": s, "patience": p, "d": 1e-3, "tol": 9.765625e-4, "batch": b, "dtype": "float32",
             "scripted": True, "module_init": False, "data_seed": 11,
             "calls": [dict(mk("plateau", 5), batch=b, dtype="float32", npts=4, init=None, ord=2, layout="fresh"),
                       dict(mk("below", 6), batch=[3], dtype="float64", npts=5, init="given", ord=2, layout="strided"),
                       dict(mk("dec", 7), batch=[], dtype="float32", npts=3, init=None, ord=1, layout="slice")]}
            for s, p, b in ((1, 1, []), (4, 2, [2]), (6, 3, [2, 2]))]
    return mpcs, icps


def run_corpus(ctx: Ctx):
    """runs first and does not depend on VERIF_SEED: hand-written corners + every stream with a fixed generator"""
    import random
    cases = [dict(c, verbose=v, style=st, klass=kl) for c in CORPUS for v, st, kl in ((False, "kw", "lib"), (True, "pos", "sub_step"))]
    reps = ctx.driver.run([rtb_num_line(c) for c in cases])
    for i, (c, rep) in enumerate(zip(cases, reps)):
        guarded(ctx, c, check_rtb_num, ctx, c, rep)
        ctx.note_case(("corpus", i), True)
    scases = corpus_sop_cases()
    for c, rep in zip(scases, ctx.driver.run([sop_num_line(c) for c in scases])):
        guarded(ctx, c, check_sop_num, ctx, c, rep)
    mpcs, icps = corpus_drivers()
    mpcs = [dict(c, verbose=v, klass=k) for c in mpcs for v, k in ((False, "lib"), (True, "falsy_len"), (False, "falsy_bool"))]
    icps = [dict(c, verbose=v, klass=k) for c in icps for v, k in ((False, "lib"), (True, "falsy_len"), (False, "falsy_bool"))]
    res = []
    for c in mpcs:
        res += [("drv.mpc", c, x) for x in (guarded(ctx, c, check_mpc, ctx, c) or [])]
    for c in icps:
        res += [("drv.icp", c, x) for x in (guarded(ctx, c, check_icp, ctx, c) or [])]
    reps = ctx.driver.run([x[0] for _, _, x in res])
    for (stream, c, x), rep in zip(res, reps):
        check_loop_reply(ctx, stream, c, rep, x[1], x[2], x[3])
    NAN, INF = float("nan"), float("inf")
    xc = lambda steps, pat, d, tol, ev, dt="float64": {"kind": "numx.rtb", "steps": steps, "patience": pat, "d": d, "tol": tol,
                                                       "dtype": dt, "verbose": False, "style": "kw", "events": ev}
    xcases = [
        # a NaN element: never below tol, never a non-decrease (resets the count), also as the stored `last`
        xc(9, 2, 0.5, 1.0, [["S", [2], [4.0, 4.0]], ["S", [2], [4.0, 4.0]], ["S", [2], [4.0, NAN]], ["S", [2], [4.0, 4.0]],
                             ["S", [2], [4.0, 4.0]], ["S", [2], [0.5, NAN]], ["S", [2], [0.5, 0.5]]]),
        # +0.0 vs -0.0 losses (opposite infinities), 0/0, infinite losses and an infinite `last`
        xc(20, 3, 0.5, -1.0, [["S", [], [1.0]], ["S", [], [0.0]], ["S", [], [0.0]], ["S", [], [-0.0]], ["S", [], [1.0]], ["S", [], [-0.0]],
                               ["S", [], [-1.0]], ["S", [], [0.0]], ["S", [], [INF]], ["S", [], [2.0]], ["S", [], [-INF]], ["S", [], [2.0]],
                               ["S", [], [-2.0]]], "float32"),
        # NaN / infinite thresholds
        xc(9, 2, NAN, INF, [["S", [2], [1.0, 2.0]], ["S", [2], [1.0, 2.0]], ["S", [2], [INF, 2.0]]]),
        xc(9, 2, INF, NAN, [["S", [2], [1.0, 2.0]], ["S", [2], [1.0, 2.0]], ["S", [2], [1.0, 2.0]]]),
        # the loss changes its shape along the run: 0-dim -> [3] -> [1,3] -> [3,1] -> [3,3] -> reset -> [2,1,3]; then a pair that
        # does not broadcast ([2] after [3]) raises
        xc(30, 2, 0.5, 0.25, [["S", [], [8.0]], ["S", [3], [4.0, 8.0, 2.0]], ["S", [1, 3], [4.0, 4.0, 2.0]], ["S", [3, 1], [4.0, 3.0, 2.0]],
                               ["S", [3, 3], [2.0] * 9], ["S", [3, 3], [2.0] * 8 + [1.0]], ["R"], ["S", [2, 1, 3], [1.0] * 6],
                               ["S", [3], [1.0, 1.0, 0.5]], ["S", [2], [1.0, 1.0]]]),
        xc(5, 1, 1.0, 1.0, [["S", [0], []], ["S", [0], []]]),
    ]
    reps = ctx.driver.run([rtbx_line(c) for c in xcases])
    for i, (c, rep) in enumerate(zip(xcases, reps)):
        guarded(ctx, c, check_rtbx, ctx, c, rep)
        ctx.note_case(("corpus.x", i), True)
    ctx.count("corpus.handwritten", len(cases) + len(mpcs) + len(icps) + len(xcases))
    saved = ctx.rng
    ctx.rng = random.Random(0xC20)
    try:
        run_graph(ctx, "sop", core_configs()[::2] + [(3, 2), (2, 1), (5, 3), (1, 1)] * 2, 6)
        run_graph(ctx, "rtb", core_configs()[1::4] + [(3, 2), (2, 1), (5, 3), (1, 1)] * 2, 5)
        run_trie(ctx, "sop", core_configs()[::2] + core_configs()[1::6], 4)
        run_trie(ctx, "rtb", core_configs()[::3], 3)
        run_num_rtb(ctx, 120, 40)
        run_num_rtb(ctx, 2, 420, long=True)
        run_num_sop(ctx, 90, 40)
        run_big(ctx, [16385, 65537, 16384, 1025, 2 ** 17 + 1])
        for N in (16385, 65537, 2 ** 18 + 37):        # the LAST / FIRST element alone decides
            for sp in (N - 1, 0):
                c = {"kind": "big", "N": N, "shape": [N], "dtype": "float64", "special": sp, "probe": N // 3, "steps": 9, "patience": 2,
                     "klass": "lib", "modes": ["dec", "below_all_but_one", "plateau_all_but_one", "plateau_one", "plateau_all", "below_all"]}
                guarded(ctx, c, check_big, ctx, c)
                ctx.note_case(("big.corpus", N, sp), True)
        run_narrow(ctx, 80)
        run_numx_rtb(ctx, 160)
        run_numx_sop(ctx, 100)
        run_defaults(ctx, 40)
        for kinds in (["mpc", "mpc", "mpc"], ["icp", "mpc", "icp", "mpc"], ["rtb", "rtb", "sop", "sop"]):
            c = {"kind": "shared_defaults", "kinds": kinds, "steps": 8, "rounds": 2, "seed": 5}
            guarded(ctx, c, check_shared_defaults, ctx, c)
        run_interleave(ctx, 30)
        run_copies(ctx, 40)
        run_drv_optimize(ctx, 120)
        run_drv_mpc(ctx, 60, 2)
        run_drv_icp(ctx, 25)
    finally:
        ctx.rng = saved


def guarded(ctx: Ctx, case, fn, *args):
    """a misbehaving implementation (exception outside the places the checks already wrap) is a failing input of
    the property, never a crash of the harness"""
    import traceback
    try:
        return fn(*args)
    except common.InfraError:
        raise
    except U.NonFinite as e:
        ctx.fail(case, str(e))
        return None
    except Exception as e:
        tb = traceback.format_exc()
        if "/pypose/" not in tb:
            raise
        ctx.fail(case, f"raises: implementation raised {type(e).__name__}: {str(e)[:150]} | {tb.strip().splitlines()[-3][:120]}")
        return None


def run(ctx: Ctx):
    with quiet():     # verbose=True controllers print every step
        _run(ctx)


def _run(ctx: Ctx):
    rng = ctx.rng
    q = ctx.quick
    run_corpus(ctx)
    core = core_configs()
    extra = extra_configs(rng, 8 if q else 80)
    depth = 10 if q else 16
    run_graph(ctx, "sop", core + extra, depth)
    run_graph(ctx, "rtb", core + extra, depth)
    if q:
        sh = list(core)
        rng.shuffle(sh)
        run_trie(ctx, "sop", sh[:6], 5)
        run_trie(ctx, "sop", sh[6:], 4)
        run_trie(ctx, "rtb", sh[:4], 4)
        run_trie(ctx, "rtb", sh[4:], 3)
    else:
        sh = list(core)
        rng.shuffle(sh)
        run_trie(ctx, "sop", sh[:12], 7)
        run_trie(ctx, "sop", sh[12:], 6)
        run_trie(ctx, "sop", rng.sample(core, 1), 8)
        run_trie(ctx, "rtb", core, 5)
        run_trie(ctx, "rtb", sh[:8], 6)
    run_num_rtb(ctx, ctx.pick(180, 2500), 40 if q else 150)
    run_num_rtb(ctx, ctx.pick(2, 12), 420 if q else 1500, long=True)
    run_num_sop(ctx, ctx.pick(350, 2500), 40 if q else 150)
    run_big(ctx, [16385, 65537, 131073] if q else [2 ** k + e for k in (10, 12, 13, 14, 15, 16, 17) for e in (-1, 0, 1)]
            + [2 ** 18 + 1, 2 ** 18 + 37, 2 ** 20 + 1])
    run_narrow(ctx, ctx.pick(150, 1500))
    run_numx_rtb(ctx, ctx.pick(300, 4000))
    run_numx_sop(ctx, ctx.pick(250, 2500))
    run_defaults(ctx, ctx.pick(40, 200))
    run_shared_defaults(ctx, ctx.pick(6, 60))
    run_interleave(ctx, ctx.pick(40, 400))
    run_copies(ctx, ctx.pick(60, 800))
    run_drv_optimize(ctx, ctx.pick(300, 4000))
    run_drv_optimize_real(ctx, ctx.pick(8, 200))
    run_drv_mpc(ctx, ctx.pick(150, 2000), ctx.pick(8, 100))
    run_drv_icp(ctx, ctx.pick(35, 500))


def search(ctx: Ctx):
    """harder hunt on the real code with the property's own oracles (no model involved)"""
    with quiet():
        _search(ctx)


def _search(ctx: Ctx):
    n0 = len(ctx.failures)
    for L, kind in ((6, "sop"), (5, "rtb")):
        for cfg in core_configs():
            p = {"kind": "trie", "ctl": kind, "steps": cfg[0], "patience": cfg[1], "L": L, "has_reject": True,
                 "as_tensor": False, "d": 0.125, "dtype": "float64", "shape": [2], "vseed": 7}
            walk_trie(ctx, p, None)
            if len(ctx.failures) > n0:
                return
    for _ in range(3000):
        check_rtb_num(ctx, gen_rtb_case(ctx, 80))
        check_sop_num(ctx, gen_sop_case(ctx, 80))
        if len(ctx.failures) > n0:
            return
    for _ in range(300):
        check_opt_scripted(ctx, gen_opt_case(ctx))
        check_mpc(ctx, gen_mpc_case(ctx))
        check_icp(ctx, gen_icp_case(ctx))
        if len(ctx.failures) > n0:
            return


def _replay_case(ctx: Ctx, c, kind) -> bool:
    if kind == "graph":
        ck = c["ctl"]
        if ck == "sop":
            opt = FakeOpt(c["has_reject"])
            ctl = new_sop(dict(c), opt)
        else:
            opt = None
            ctl = new_rtb(dict(c, d=1.0, tol=1.0))
        s_, pc_, cont_ = U.st_decode(c["before"])
        ctl.steps, ctl.patience_count, ctl._continual = s_, pc_, cont_
        if c.get("offset"):
            ctl.max_steps, ctl.patience = c["offset"] + c["steps"], c["offset"] - 1 + c["patience"]
        pairs, info = [], []
        graph_transition(ctx, ctl, c, pairs, info, opt)
        if pairs:
            eff = (c["offset"] + c["steps"], c["offset"] - 1 + c["patience"]) if c.get("offset") else (c["steps"], c["patience"])
            rep = ctx.driver.run([f"c20.steps {ck} {eff[0]} {eff[1]} {pairs[0][0]} {pairs[0][1]}"])[0]
            w = int(common.parse_reply(rep)[1][0])
            if w != info[0][2]:
                ctx.disagree("graph", c, "model != implementation")
    elif kind == "trie":
        walk_trie(ctx, c, None, only_word=c["word"])
    elif kind == "num.rtb":
        check_rtb_num(ctx, c, ctx.driver.run([rtb_num_line(c)])[0])
    elif kind == "num.sop":
        check_sop_num(ctx, c, ctx.driver.run([sop_num_line(c)])[0])
    elif kind == "numx.rtb":
        check_rtbx(ctx, c, ctx.driver.run([rtbx_line(c)])[0])
    elif kind == "numx.sop":
        check_sopx(ctx, c, ctx.driver.run([sopx_line(c)])[0])
    elif kind == "defaults":
        pass
    elif kind == "shared_defaults":
        check_shared_defaults(ctx, c)
    elif kind == "narrow":
        check_narrow(ctx, c)
    elif kind == "big":
        check_big(ctx, c)
    elif kind == "interleave":
        check_interleave(ctx, c)
    elif kind == "copies":
        check_copies(ctx, c)
    elif kind == "drv.optimize":
        r = check_opt_scripted(ctx, c)
        if r:
            check_loop_reply(ctx, "drv.optimize", c, ctx.driver.run([r[0]])[0], r[1], r[2], r[3])
    elif kind == "drv.optimize.real":
        check_opt_real(ctx, c)
    elif kind in ("drv.mpc", "drv.icp"):
        r = (check_mpc if kind == "drv.mpc" else check_icp)(ctx, c)
        for x in r or []:
            check_loop_reply(ctx, kind, c, ctx.driver.run([x[0]])[0], x[1], x[2], x[3])
    else:
        return False
    return True


def replay(ctx: Ctx, case) -> bool:
    c = dict(case["case"])
    for k in ("event", "segment", "call", "recorded", "step"):
        c.pop(k, None)
    kind = c.get("kind")
    n0 = len(ctx.failures)
    with quiet():
        known = _replay_case(ctx, c, kind)
    if not known:
        print("  unknown case kind", kind)
        return False
    for f in ctx.failures[n0:]:
        print("  fails:", f["what"][:500])
    for kh in ctx.known_hits:
        print("  known finding", kh["finding"], ":", kh["what"][:300])
    for d in ctx.disagreements:
        print("  model/implementation disagreement:", d["detail"][:300])
    return len(ctx.failures) == n0 and not ctx.disagreements and not ctx.known_hits
