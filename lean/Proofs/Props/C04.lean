import Proofs.Lemmas.AutogradChain
import Proofs.Lemmas.AutogradExp
import Proofs.Lemmas.AutogradZero
import Proofs.Lemmas.AutogradSemantic
import Proofs.Lemmas.AutogradLocalSO3a
import Proofs.Lemmas.AutogradLocalSO3b
import Proofs.Lemmas.AutogradLocalSE3a
import Proofs.Lemmas.AutogradLocalSE3b
import Proofs.Lemmas.AutogradLocalRxSO3a
import Proofs.Lemmas.AutogradLocalRxSO3b
import Proofs.Lemmas.AutogradLocalSim3a
import Proofs.Lemmas.AutogradLocalSim3b
/-!
# C04 — autograd through LieTensor ops gives exact left-perturbation Jacobians

Model: `lean/Pose/Model/Autograd.lean` (every hand-written `backward` of `operation.py` as written, expression trees
`Prog`, `eval`, `backprop`, `grad`) on top of the forward passes of `Lie.lean`; everything below is at `α = ℝ`.

Vocabulary (`Proofs/Lemmas/Autograd.lean`):
* `LCurve n γ d` — the first `n` storage coordinates of the curve `γ` are differentiable at `0` with derivatives `d`;
* `liftG g X τ` — storage-coordinate velocity at `t = 0` of the left perturbation `t ↦ Exp(tτ)·X`
  (`q̇ = ½(φ,0)·q`, `ṫ = ρ + φ×t (+ σt)`, `ṡ = σs`);  `GTangent g γ τ := LCurve g.gdim γ (liftG g (γ 0) τ)`;
* `UnitQ`, `ScaleNZ` — the stored element is valid (unit quaternion, non-zero scale).

Clauses of the property and where they are proved
1. *Every local backward is the true left-perturbation derivative* — §1: for each of the four groups and each of
   `Mul, Inv, Act, Act4, Adj, AdjT, matrix()`: if the inputs move along **arbitrary** differentiable curves with
   left-perturbation tangents `τ` (group inputs) / ordinary derivatives (algebra, Euclidean inputs), the output moves with
   the tangent built from the very matrices the `backward` multiplies by.  The curve formulation composes, so these are
   statements about every position inside a program, not only about perturbed leaves.  §2: `so3_Exp` (closed-form
   branch and zero vector): `so3_Jl` *is* the left Jacobian of the exponential.
2. *Chain rule for all programs* — §3 `backprop_adjoint`: for every well-typed expression tree, of any depth and with any
   sharing of leaves, `Σ_leaves ⟨contribution, τ_leaf⟩ = ⟨c, forward tangent⟩`, the forward tangent composing the local
   Jacobians; `eval_length`, `tangent_length` (typing is preserved).
3. *Remaining slot zero* — §4 `backprop_slot_zero`, `grad_last_slot_zero`.
4. *No NaN at the identity / zero vector* — §5: the Taylor branches are selected there, every `*_Jl`, `*_Jl_inv` is the
   identity matrix and the backward passes are the division-free maps `c ↦ c[:-1]`, `c ↦ (c,0)`.
5. *sim3 truncation* — §6: `sim3_Jl` / `sim3_Jl_inv` are exactly the documented truncated series in `ad ξ`.
-/
namespace PP.AD
open PP

/-! ## 1. Local correctness of the algebraic `Function`s (all four groups) -/

-- BEGIN GENERATED LOCAL

/-! ### `SO3` -/

/-- `SO3_Mul.backward`: `X_grad = c[:-1]`, `Y_grad = c[:-1] @ Adj(X)` are the transposes of the true tangent map -/
theorem SO3_Mul_tangent (X Y : ℝ → DVec ℝ) (a0 a1 a2 b0 b1 b2 : ℝ)
    (hX : GTangent .SO3 X [a0, a1, a2]) (hY : GTangent .SO3 Y [b0, b1, b2]) (hu : UnitQ .SO3 (X 0)) :
    GTangent .SO3 (fun t => mulF .SO3 (X t) (Y t)) (DVec.add [a0, a1, a2] ((AdjMat .SO3 (X 0)).mulVec [b0, b1, b2])) :=
  mul_tangent_SO3 X Y a0 a1 a2 b0 b1 b2 hX hY hu

/-- `SO3_Inv.backward`: `-(c[:-1] @ Adj(Y))`, `Y = X⁻¹` -/
theorem SO3_Inv_tangent (X : ℝ → DVec ℝ) (a0 a1 a2 : ℝ) (hX : GTangent .SO3 X [a0, a1, a2]) (hu : UnitQ .SO3 (X 0)) :
    GTangent .SO3 (fun t => invF .SO3 (X t)) (DVec.neg ((AdjMat .SO3 (invF .SO3 (X 0))).mulVec [a0, a1, a2])) :=
  inv_tangent_SO3 X a0 a1 a2 hX hu

/-- `SO3_Act.backward`: `X_grad = c @ Act_Jacobian(out)`, `p_grad = c @ Matrix(X)[:3,:3]` -/
theorem SO3_Act_tangent (X p : ℝ → DVec ℝ) (a0 a1 a2 b0 b1 b2 : ℝ)
    (hX : GTangent .SO3 X [a0, a1, a2]) (hp : LCurve 3 p [b0, b1, b2]) (hu : UnitQ .SO3 (X 0)) :
    LCurve 3 (fun t => actF .SO3 (X t) (p t))
      (DVec.add ((ActJac .SO3 (v3 (actF .SO3 (X 0) (p 0)))).mulVec [a0, a1, a2]) (DMat.mulVec (Mat33 .SO3 (X 0)).toRows [b0, b1, b2])) :=
  act_tangent_SO3 X p a0 a1 a2 b0 b1 b2 hX hp hu

/-- `SO3_Act4.backward` (homogeneous points, any `w`) -/
theorem SO3_Act4_tangent (X p : ℝ → DVec ℝ) (a0 a1 a2 b0 b1 b2 b3 : ℝ)
    (hX : GTangent .SO3 X [a0, a1, a2]) (hp : LCurve 4 p [b0, b1, b2, b3]) (hu : UnitQ .SO3 (X 0)) :
    LCurve 4 (fun t => act4F .SO3 (X t) (p t))
      (DVec.add ((Act4Jac .SO3 (v3 (act4F .SO3 (X 0) (p 0))) (nth (act4F .SO3 (X 0) (p 0)) 3)).mulVec [a0, a1, a2])
        ((Mat44 .SO3 (X 0)).mulVec [b0, b1, b2, b3])) :=
  act4_tangent_SO3 X p a0 a1 a2 b0 b1 b2 b3 hX hp hu

/-- `SO3_AdjXa.backward`: `X_grad = -c @ adj(out)`, `a_grad = c @ Adj(X)` -/
theorem SO3_Adj_tangent (X : ℝ → DVec ℝ) (al0 al1 al2 : ℝ → ℝ) (a0 a1 a2 b0 b1 b2 : ℝ)
    (hX : GTangent .SO3 X [a0, a1, a2]) (hal0 : HasDerivAt al0 b0 0) (hal1 : HasDerivAt al1 b1 0) (hal2 : HasDerivAt al2 b2 0) (hu : UnitQ .SO3 (X 0)) :
    LCurve 3 (fun t => adjF .SO3 (X t) [al0 t, al1 t, al2 t])
      (DVec.add (DVec.neg ((adMat .SO3 (adjF .SO3 (X 0) [al0 0, al1 0, al2 0])).mulVec [a0, a1, a2])) ((AdjMat .SO3 (X 0)).mulVec [b0, b1, b2])) :=
  adj_tangent_SO3 X al0 al1 al2 a0 a1 a2 b0 b1 b2 hX hal0 hal1 hal2 hu

/-- `SO3_AdjTXa.backward`: both returned gradients are transposes of `Adj(X⁻¹)·adj(a)·τ + Adj(X⁻¹)·da` -/
theorem SO3_AdjT_tangent (X : ℝ → DVec ℝ) (al0 al1 al2 : ℝ → ℝ) (a0 a1 a2 b0 b1 b2 : ℝ)
    (hX : GTangent .SO3 X [a0, a1, a2]) (hal0 : HasDerivAt al0 b0 0) (hal1 : HasDerivAt al1 b1 0) (hal2 : HasDerivAt al2 b2 0) (hu : UnitQ .SO3 (X 0)) :
    LCurve 3 (fun t => adjTF .SO3 (X t) [al0 t, al1 t, al2 t])
      (DVec.add ((AdjMat .SO3 (invF .SO3 (X 0))).mulVec ((adMat .SO3 [al0 0, al1 0, al2 0]).mulVec [a0, a1, a2]))
        ((AdjMat .SO3 (invF .SO3 (X 0))).mulVec [b0, b1, b2])) :=
  adjT_tangent_SO3 X al0 al1 al2 a0 a1 a2 b0 b1 b2 hX hal0 hal1 hal2 hu

/-- `matrix()` of a `SO3` element (`3×3`, through `Act` on the identity columns) -/
theorem SO3_matrix_tangent (X : ℝ → DVec ℝ) (a0 a1 a2 : ℝ) (hX : GTangent .SO3 X [a0, a1, a2]) (hu : UnitQ .SO3 (X 0)) :
    LCurve 9 (fun t => matrixF .SO3 (X t)) (matrixT .SO3 (X 0) [a0, a1, a2]) :=
  matrix_tangent_SO3 X a0 a1 a2 hX hu

/-! ### `SE3` -/

/-- `SE3_Mul.backward`: `X_grad = c[:-1]`, `Y_grad = c[:-1] @ Adj(X)` are the transposes of the true tangent map -/
theorem SE3_Mul_tangent (X Y : ℝ → DVec ℝ) (a0 a1 a2 a3 a4 a5 b0 b1 b2 b3 b4 b5 : ℝ)
    (hX : GTangent .SE3 X [a0, a1, a2, a3, a4, a5]) (hY : GTangent .SE3 Y [b0, b1, b2, b3, b4, b5]) (hu : UnitQ .SE3 (X 0)) :
    GTangent .SE3 (fun t => mulF .SE3 (X t) (Y t)) (DVec.add [a0, a1, a2, a3, a4, a5] ((AdjMat .SE3 (X 0)).mulVec [b0, b1, b2, b3, b4, b5])) :=
  mul_tangent_SE3 X Y a0 a1 a2 a3 a4 a5 b0 b1 b2 b3 b4 b5 hX hY hu

/-- `SE3_Inv.backward`: `-(c[:-1] @ Adj(Y))`, `Y = X⁻¹` -/
theorem SE3_Inv_tangent (X : ℝ → DVec ℝ) (a0 a1 a2 a3 a4 a5 : ℝ) (hX : GTangent .SE3 X [a0, a1, a2, a3, a4, a5]) (hu : UnitQ .SE3 (X 0)) :
    GTangent .SE3 (fun t => invF .SE3 (X t)) (DVec.neg ((AdjMat .SE3 (invF .SE3 (X 0))).mulVec [a0, a1, a2, a3, a4, a5])) :=
  inv_tangent_SE3 X a0 a1 a2 a3 a4 a5 hX hu

/-- `SE3_Act.backward`: `X_grad = c @ Act_Jacobian(out)`, `p_grad = c @ Matrix(X)[:3,:3]` -/
theorem SE3_Act_tangent (X p : ℝ → DVec ℝ) (a0 a1 a2 a3 a4 a5 b0 b1 b2 : ℝ)
    (hX : GTangent .SE3 X [a0, a1, a2, a3, a4, a5]) (hp : LCurve 3 p [b0, b1, b2]) (hu : UnitQ .SE3 (X 0)) :
    LCurve 3 (fun t => actF .SE3 (X t) (p t))
      (DVec.add ((ActJac .SE3 (v3 (actF .SE3 (X 0) (p 0)))).mulVec [a0, a1, a2, a3, a4, a5]) (DMat.mulVec (Mat33 .SE3 (X 0)).toRows [b0, b1, b2])) :=
  act_tangent_SE3 X p a0 a1 a2 a3 a4 a5 b0 b1 b2 hX hp hu

/-- `SE3_Act4.backward` (homogeneous points, any `w`) -/
theorem SE3_Act4_tangent (X p : ℝ → DVec ℝ) (a0 a1 a2 a3 a4 a5 b0 b1 b2 b3 : ℝ)
    (hX : GTangent .SE3 X [a0, a1, a2, a3, a4, a5]) (hp : LCurve 4 p [b0, b1, b2, b3]) (hu : UnitQ .SE3 (X 0)) :
    LCurve 4 (fun t => act4F .SE3 (X t) (p t))
      (DVec.add ((Act4Jac .SE3 (v3 (act4F .SE3 (X 0) (p 0))) (nth (act4F .SE3 (X 0) (p 0)) 3)).mulVec [a0, a1, a2, a3, a4, a5])
        ((Mat44 .SE3 (X 0)).mulVec [b0, b1, b2, b3])) :=
  act4_tangent_SE3 X p a0 a1 a2 a3 a4 a5 b0 b1 b2 b3 hX hp hu

/-- `SE3_AdjXa.backward`: `X_grad = -c @ adj(out)`, `a_grad = c @ Adj(X)` -/
theorem SE3_Adj_tangent (X : ℝ → DVec ℝ) (al0 al1 al2 al3 al4 al5 : ℝ → ℝ) (a0 a1 a2 a3 a4 a5 b0 b1 b2 b3 b4 b5 : ℝ)
    (hX : GTangent .SE3 X [a0, a1, a2, a3, a4, a5]) (hal0 : HasDerivAt al0 b0 0) (hal1 : HasDerivAt al1 b1 0) (hal2 : HasDerivAt al2 b2 0) (hal3 : HasDerivAt al3 b3 0) (hal4 : HasDerivAt al4 b4 0) (hal5 : HasDerivAt al5 b5 0) (hu : UnitQ .SE3 (X 0)) :
    LCurve 6 (fun t => adjF .SE3 (X t) [al0 t, al1 t, al2 t, al3 t, al4 t, al5 t])
      (DVec.add (DVec.neg ((adMat .SE3 (adjF .SE3 (X 0) [al0 0, al1 0, al2 0, al3 0, al4 0, al5 0])).mulVec [a0, a1, a2, a3, a4, a5])) ((AdjMat .SE3 (X 0)).mulVec [b0, b1, b2, b3, b4, b5])) :=
  adj_tangent_SE3 X al0 al1 al2 al3 al4 al5 a0 a1 a2 a3 a4 a5 b0 b1 b2 b3 b4 b5 hX hal0 hal1 hal2 hal3 hal4 hal5 hu

/-- `SE3_AdjTXa.backward`: both returned gradients are transposes of `Adj(X⁻¹)·adj(a)·τ + Adj(X⁻¹)·da` -/
theorem SE3_AdjT_tangent (X : ℝ → DVec ℝ) (al0 al1 al2 al3 al4 al5 : ℝ → ℝ) (a0 a1 a2 a3 a4 a5 b0 b1 b2 b3 b4 b5 : ℝ)
    (hX : GTangent .SE3 X [a0, a1, a2, a3, a4, a5]) (hal0 : HasDerivAt al0 b0 0) (hal1 : HasDerivAt al1 b1 0) (hal2 : HasDerivAt al2 b2 0) (hal3 : HasDerivAt al3 b3 0) (hal4 : HasDerivAt al4 b4 0) (hal5 : HasDerivAt al5 b5 0) (hu : UnitQ .SE3 (X 0)) :
    LCurve 6 (fun t => adjTF .SE3 (X t) [al0 t, al1 t, al2 t, al3 t, al4 t, al5 t])
      (DVec.add ((AdjMat .SE3 (invF .SE3 (X 0))).mulVec ((adMat .SE3 [al0 0, al1 0, al2 0, al3 0, al4 0, al5 0]).mulVec [a0, a1, a2, a3, a4, a5]))
        ((AdjMat .SE3 (invF .SE3 (X 0))).mulVec [b0, b1, b2, b3, b4, b5])) :=
  adjT_tangent_SE3 X al0 al1 al2 al3 al4 al5 a0 a1 a2 a3 a4 a5 b0 b1 b2 b3 b4 b5 hX hal0 hal1 hal2 hal3 hal4 hal5 hu

/-- `matrix()` of a `SE3` element (`4×4`, through `Act` on the identity columns) -/
theorem SE3_matrix_tangent (X : ℝ → DVec ℝ) (a0 a1 a2 a3 a4 a5 : ℝ) (hX : GTangent .SE3 X [a0, a1, a2, a3, a4, a5]) (hu : UnitQ .SE3 (X 0)) :
    LCurve 16 (fun t => matrixF .SE3 (X t)) (matrixT .SE3 (X 0) [a0, a1, a2, a3, a4, a5]) :=
  matrix_tangent_SE3 X a0 a1 a2 a3 a4 a5 hX hu

/-! ### `RxSO3` -/

/-- `RxSO3_Mul.backward`: `X_grad = c[:-1]`, `Y_grad = c[:-1] @ Adj(X)` are the transposes of the true tangent map -/
theorem RxSO3_Mul_tangent (X Y : ℝ → DVec ℝ) (a0 a1 a2 a3 b0 b1 b2 b3 : ℝ)
    (hX : GTangent .RxSO3 X [a0, a1, a2, a3]) (hY : GTangent .RxSO3 Y [b0, b1, b2, b3]) (hu : UnitQ .RxSO3 (X 0)) :
    GTangent .RxSO3 (fun t => mulF .RxSO3 (X t) (Y t)) (DVec.add [a0, a1, a2, a3] ((AdjMat .RxSO3 (X 0)).mulVec [b0, b1, b2, b3])) :=
  mul_tangent_RxSO3 X Y a0 a1 a2 a3 b0 b1 b2 b3 hX hY hu

/-- `RxSO3_Inv.backward`: `-(c[:-1] @ Adj(Y))`, `Y = X⁻¹` -/
theorem RxSO3_Inv_tangent (X : ℝ → DVec ℝ) (a0 a1 a2 a3 : ℝ) (hX : GTangent .RxSO3 X [a0, a1, a2, a3]) (hu : UnitQ .RxSO3 (X 0)) (hs : ScaleNZ .RxSO3 (X 0)) :
    GTangent .RxSO3 (fun t => invF .RxSO3 (X t)) (DVec.neg ((AdjMat .RxSO3 (invF .RxSO3 (X 0))).mulVec [a0, a1, a2, a3])) :=
  inv_tangent_RxSO3 X a0 a1 a2 a3 hX hu hs

/-- `RxSO3_Act.backward`: `X_grad = c @ Act_Jacobian(out)`, `p_grad = c @ Matrix(X)[:3,:3]` -/
theorem RxSO3_Act_tangent (X p : ℝ → DVec ℝ) (a0 a1 a2 a3 b0 b1 b2 : ℝ)
    (hX : GTangent .RxSO3 X [a0, a1, a2, a3]) (hp : LCurve 3 p [b0, b1, b2]) (hu : UnitQ .RxSO3 (X 0)) :
    LCurve 3 (fun t => actF .RxSO3 (X t) (p t))
      (DVec.add ((ActJac .RxSO3 (v3 (actF .RxSO3 (X 0) (p 0)))).mulVec [a0, a1, a2, a3]) (DMat.mulVec (Mat33 .RxSO3 (X 0)).toRows [b0, b1, b2])) :=
  act_tangent_RxSO3 X p a0 a1 a2 a3 b0 b1 b2 hX hp hu

/-- `RxSO3_Act4.backward` (homogeneous points, any `w`) -/
theorem RxSO3_Act4_tangent (X p : ℝ → DVec ℝ) (a0 a1 a2 a3 b0 b1 b2 b3 : ℝ)
    (hX : GTangent .RxSO3 X [a0, a1, a2, a3]) (hp : LCurve 4 p [b0, b1, b2, b3]) (hu : UnitQ .RxSO3 (X 0)) :
    LCurve 4 (fun t => act4F .RxSO3 (X t) (p t))
      (DVec.add ((Act4Jac .RxSO3 (v3 (act4F .RxSO3 (X 0) (p 0))) (nth (act4F .RxSO3 (X 0) (p 0)) 3)).mulVec [a0, a1, a2, a3])
        ((Mat44 .RxSO3 (X 0)).mulVec [b0, b1, b2, b3])) :=
  act4_tangent_RxSO3 X p a0 a1 a2 a3 b0 b1 b2 b3 hX hp hu

/-- `RxSO3_AdjXa.backward`: `X_grad = -c @ adj(out)`, `a_grad = c @ Adj(X)` -/
theorem RxSO3_Adj_tangent (X : ℝ → DVec ℝ) (al0 al1 al2 al3 : ℝ → ℝ) (a0 a1 a2 a3 b0 b1 b2 b3 : ℝ)
    (hX : GTangent .RxSO3 X [a0, a1, a2, a3]) (hal0 : HasDerivAt al0 b0 0) (hal1 : HasDerivAt al1 b1 0) (hal2 : HasDerivAt al2 b2 0) (hal3 : HasDerivAt al3 b3 0) (hu : UnitQ .RxSO3 (X 0)) :
    LCurve 4 (fun t => adjF .RxSO3 (X t) [al0 t, al1 t, al2 t, al3 t])
      (DVec.add (DVec.neg ((adMat .RxSO3 (adjF .RxSO3 (X 0) [al0 0, al1 0, al2 0, al3 0])).mulVec [a0, a1, a2, a3])) ((AdjMat .RxSO3 (X 0)).mulVec [b0, b1, b2, b3])) :=
  adj_tangent_RxSO3 X al0 al1 al2 al3 a0 a1 a2 a3 b0 b1 b2 b3 hX hal0 hal1 hal2 hal3 hu

/-- `RxSO3_AdjTXa.backward`: both returned gradients are transposes of `Adj(X⁻¹)·adj(a)·τ + Adj(X⁻¹)·da` -/
theorem RxSO3_AdjT_tangent (X : ℝ → DVec ℝ) (al0 al1 al2 al3 : ℝ → ℝ) (a0 a1 a2 a3 b0 b1 b2 b3 : ℝ)
    (hX : GTangent .RxSO3 X [a0, a1, a2, a3]) (hal0 : HasDerivAt al0 b0 0) (hal1 : HasDerivAt al1 b1 0) (hal2 : HasDerivAt al2 b2 0) (hal3 : HasDerivAt al3 b3 0) (hu : UnitQ .RxSO3 (X 0)) (hs : ScaleNZ .RxSO3 (X 0)) :
    LCurve 4 (fun t => adjTF .RxSO3 (X t) [al0 t, al1 t, al2 t, al3 t])
      (DVec.add ((AdjMat .RxSO3 (invF .RxSO3 (X 0))).mulVec ((adMat .RxSO3 [al0 0, al1 0, al2 0, al3 0]).mulVec [a0, a1, a2, a3]))
        ((AdjMat .RxSO3 (invF .RxSO3 (X 0))).mulVec [b0, b1, b2, b3])) :=
  adjT_tangent_RxSO3 X al0 al1 al2 al3 a0 a1 a2 a3 b0 b1 b2 b3 hX hal0 hal1 hal2 hal3 hu hs

/-- `matrix()` of a `RxSO3` element (`4×4`, through `Act` on the identity columns) -/
theorem RxSO3_matrix_tangent (X : ℝ → DVec ℝ) (a0 a1 a2 a3 : ℝ) (hX : GTangent .RxSO3 X [a0, a1, a2, a3]) (hu : UnitQ .RxSO3 (X 0)) :
    LCurve 16 (fun t => matrixF .RxSO3 (X t)) (matrixT .RxSO3 (X 0) [a0, a1, a2, a3]) :=
  matrix_tangent_RxSO3 X a0 a1 a2 a3 hX hu

/-! ### `Sim3` -/

/-- `Sim3_Mul.backward`: `X_grad = c[:-1]`, `Y_grad = c[:-1] @ Adj(X)` are the transposes of the true tangent map -/
theorem Sim3_Mul_tangent (X Y : ℝ → DVec ℝ) (a0 a1 a2 a3 a4 a5 a6 b0 b1 b2 b3 b4 b5 b6 : ℝ)
    (hX : GTangent .Sim3 X [a0, a1, a2, a3, a4, a5, a6]) (hY : GTangent .Sim3 Y [b0, b1, b2, b3, b4, b5, b6]) (hu : UnitQ .Sim3 (X 0)) :
    GTangent .Sim3 (fun t => mulF .Sim3 (X t) (Y t)) (DVec.add [a0, a1, a2, a3, a4, a5, a6] ((AdjMat .Sim3 (X 0)).mulVec [b0, b1, b2, b3, b4, b5, b6])) :=
  mul_tangent_Sim3 X Y a0 a1 a2 a3 a4 a5 a6 b0 b1 b2 b3 b4 b5 b6 hX hY hu

/-- `Sim3_Inv.backward`: `-(c[:-1] @ Adj(Y))`, `Y = X⁻¹` -/
theorem Sim3_Inv_tangent (X : ℝ → DVec ℝ) (a0 a1 a2 a3 a4 a5 a6 : ℝ) (hX : GTangent .Sim3 X [a0, a1, a2, a3, a4, a5, a6]) (hu : UnitQ .Sim3 (X 0)) (hs : ScaleNZ .Sim3 (X 0)) :
    GTangent .Sim3 (fun t => invF .Sim3 (X t)) (DVec.neg ((AdjMat .Sim3 (invF .Sim3 (X 0))).mulVec [a0, a1, a2, a3, a4, a5, a6])) :=
  inv_tangent_Sim3 X a0 a1 a2 a3 a4 a5 a6 hX hu hs

/-- `Sim3_Act.backward`: `X_grad = c @ Act_Jacobian(out)`, `p_grad = c @ Matrix(X)[:3,:3]` -/
theorem Sim3_Act_tangent (X p : ℝ → DVec ℝ) (a0 a1 a2 a3 a4 a5 a6 b0 b1 b2 : ℝ)
    (hX : GTangent .Sim3 X [a0, a1, a2, a3, a4, a5, a6]) (hp : LCurve 3 p [b0, b1, b2]) (hu : UnitQ .Sim3 (X 0)) :
    LCurve 3 (fun t => actF .Sim3 (X t) (p t))
      (DVec.add ((ActJac .Sim3 (v3 (actF .Sim3 (X 0) (p 0)))).mulVec [a0, a1, a2, a3, a4, a5, a6]) (DMat.mulVec (Mat33 .Sim3 (X 0)).toRows [b0, b1, b2])) :=
  act_tangent_Sim3 X p a0 a1 a2 a3 a4 a5 a6 b0 b1 b2 hX hp hu

/-- `Sim3_Act4.backward` (homogeneous points, any `w`) -/
theorem Sim3_Act4_tangent (X p : ℝ → DVec ℝ) (a0 a1 a2 a3 a4 a5 a6 b0 b1 b2 b3 : ℝ)
    (hX : GTangent .Sim3 X [a0, a1, a2, a3, a4, a5, a6]) (hp : LCurve 4 p [b0, b1, b2, b3]) (hu : UnitQ .Sim3 (X 0)) :
    LCurve 4 (fun t => act4F .Sim3 (X t) (p t))
      (DVec.add ((Act4Jac .Sim3 (v3 (act4F .Sim3 (X 0) (p 0))) (nth (act4F .Sim3 (X 0) (p 0)) 3)).mulVec [a0, a1, a2, a3, a4, a5, a6])
        ((Mat44 .Sim3 (X 0)).mulVec [b0, b1, b2, b3])) :=
  act4_tangent_Sim3 X p a0 a1 a2 a3 a4 a5 a6 b0 b1 b2 b3 hX hp hu

/-- `Sim3_AdjXa.backward`: `X_grad = -c @ adj(out)`, `a_grad = c @ Adj(X)` -/
theorem Sim3_Adj_tangent (X : ℝ → DVec ℝ) (al0 al1 al2 al3 al4 al5 al6 : ℝ → ℝ) (a0 a1 a2 a3 a4 a5 a6 b0 b1 b2 b3 b4 b5 b6 : ℝ)
    (hX : GTangent .Sim3 X [a0, a1, a2, a3, a4, a5, a6]) (hal0 : HasDerivAt al0 b0 0) (hal1 : HasDerivAt al1 b1 0) (hal2 : HasDerivAt al2 b2 0) (hal3 : HasDerivAt al3 b3 0) (hal4 : HasDerivAt al4 b4 0) (hal5 : HasDerivAt al5 b5 0) (hal6 : HasDerivAt al6 b6 0) (hu : UnitQ .Sim3 (X 0)) :
    LCurve 7 (fun t => adjF .Sim3 (X t) [al0 t, al1 t, al2 t, al3 t, al4 t, al5 t, al6 t])
      (DVec.add (DVec.neg ((adMat .Sim3 (adjF .Sim3 (X 0) [al0 0, al1 0, al2 0, al3 0, al4 0, al5 0, al6 0])).mulVec [a0, a1, a2, a3, a4, a5, a6])) ((AdjMat .Sim3 (X 0)).mulVec [b0, b1, b2, b3, b4, b5, b6])) :=
  adj_tangent_Sim3 X al0 al1 al2 al3 al4 al5 al6 a0 a1 a2 a3 a4 a5 a6 b0 b1 b2 b3 b4 b5 b6 hX hal0 hal1 hal2 hal3 hal4 hal5 hal6 hu

/-- `Sim3_AdjTXa.backward`: both returned gradients are transposes of `Adj(X⁻¹)·adj(a)·τ + Adj(X⁻¹)·da` -/
theorem Sim3_AdjT_tangent (X : ℝ → DVec ℝ) (al0 al1 al2 al3 al4 al5 al6 : ℝ → ℝ) (a0 a1 a2 a3 a4 a5 a6 b0 b1 b2 b3 b4 b5 b6 : ℝ)
    (hX : GTangent .Sim3 X [a0, a1, a2, a3, a4, a5, a6]) (hal0 : HasDerivAt al0 b0 0) (hal1 : HasDerivAt al1 b1 0) (hal2 : HasDerivAt al2 b2 0) (hal3 : HasDerivAt al3 b3 0) (hal4 : HasDerivAt al4 b4 0) (hal5 : HasDerivAt al5 b5 0) (hal6 : HasDerivAt al6 b6 0) (hu : UnitQ .Sim3 (X 0)) (hs : ScaleNZ .Sim3 (X 0)) :
    LCurve 7 (fun t => adjTF .Sim3 (X t) [al0 t, al1 t, al2 t, al3 t, al4 t, al5 t, al6 t])
      (DVec.add ((AdjMat .Sim3 (invF .Sim3 (X 0))).mulVec ((adMat .Sim3 [al0 0, al1 0, al2 0, al3 0, al4 0, al5 0, al6 0]).mulVec [a0, a1, a2, a3, a4, a5, a6]))
        ((AdjMat .Sim3 (invF .Sim3 (X 0))).mulVec [b0, b1, b2, b3, b4, b5, b6])) :=
  adjT_tangent_Sim3 X al0 al1 al2 al3 al4 al5 al6 a0 a1 a2 a3 a4 a5 a6 b0 b1 b2 b3 b4 b5 b6 hX hal0 hal1 hal2 hal3 hal4 hal5 hal6 hu hs

/-- `matrix()` of a `Sim3` element (`4×4`, through `Act` on the identity columns) -/
theorem Sim3_matrix_tangent (X : ℝ → DVec ℝ) (a0 a1 a2 a3 a4 a5 a6 : ℝ) (hX : GTangent .Sim3 X [a0, a1, a2, a3, a4, a5, a6]) (hu : UnitQ .Sim3 (X 0)) :
    LCurve 16 (fun t => matrixF .Sim3 (X t)) (matrixT .Sim3 (X 0) [a0, a1, a2, a3, a4, a5, a6]) :=
  matrix_tangent_Sim3 X a0 a1 a2 a3 a4 a5 a6 hX hu

-- END GENERATED LOCAL

/-- non-vacuity of the hypotheses of §1: any stored element is the base point of a curve with any tangent, e.g. the
unit quaternion `(0.6, 0, 0, 0.8)` with tangent `(0.3, -0.2, 0.5)`; it is unit, so `SO3_Mul_tangent` etc. apply to it -/
example : ∃ X : ℝ → DVec ℝ, GTangent .SO3 X [0.3, -0.2, 0.5] ∧ UnitQ .SO3 (X 0) :=
  ⟨affine .SO3 [0.6, 0, 0, 0.8] [0.3, -0.2, 0.5], gtangent_affine _ _ _ rfl, by
    rw [affine_zero _ _ _ rfl]; simp [UnitQ, qt, Quat.normSq]; norm_num⟩
example : ∃ X : ℝ → DVec ℝ, GTangent .Sim3 X [1, 2, 3, 0.3, -0.2, 0.5, 0.1] ∧ UnitQ .Sim3 (X 0) ∧ ScaleNZ .Sim3 (X 0) :=
  ⟨affine .Sim3 [1, -1, 2, 0.6, 0, 0, 0.8, 1.5] [1, 2, 3, 0.3, -0.2, 0.5, 0.1], gtangent_affine _ _ _ rfl, by
    rw [affine_zero _ _ _ rfl]; simp [UnitQ, qt, Quat.normSq]; norm_num, by
    rw [affine_zero _ _ _ rfl]; simp [ScaleNZ]; norm_num⟩

/-! ## 2. `Exp` -/

/-- **`so3_Exp.backward` multiplies by the true derivative** (closed-form branch `eps < ‖x‖`, every such `x`, also
beyond `π`): a curve `x(t)` with velocity `d` is mapped to a curve of quaternions with left-perturbation tangent
`so3_Jl(x(0))·d`. -/
theorem so3_Exp_tangent (eps : ℝ) (heps : 0 ≤ eps) (x : ℝ → DVec ℝ) (d0 d1 d2 : ℝ)
    (hx : LCurve 3 x [d0, d1, d2]) (hth : eps < (v3 (x 0)).norm) :
    GTangent .SO3 (fun t => expF .SO3 eps (x t)) ((JlMat .SO3 eps (x 0)).mulVec [d0, d1, d2]) :=
  so3Exp_tangent eps heps x d0 d1 d2 hx hth

/-- the same at the zero vector (identity element; Taylor branch) -/
theorem so3_Exp_tangent_zero (eps : ℝ) (heps : 0 < eps) (x : ℝ → DVec ℝ) (d0 d1 d2 : ℝ)
    (hx : LCurve 3 x [d0, d1, d2]) (hz : v3 (x 0) = ⟨0, 0, 0⟩) :
    GTangent .SO3 (fun t => expF .SO3 eps (x t)) ((JlMat .SO3 eps (x 0)).mulVec [d0, d1, d2]) :=
  so3Exp_tangent_zero eps heps x d0 d1 d2 hx hz

/-- non-vacuity: the straight line `x(t) = (0.3 + t, -0.2, 0.5 + 2t)` at float64 `eps` -/
example : ∃ x : ℝ → DVec ℝ, LCurve 3 x [1, 0, 2] ∧ (2:ℝ)^(-52:ℤ) < (v3 (x 0)).norm := by
  refine ⟨fun t => [0.3 + t, -0.2, 0.5 + 2 * t], ?_, ?_⟩
  · intro i hi
    interval_cases i
    · simpa using ((hasDerivAt_id (0:ℝ)).const_add (0.3:ℝ))
    · simpa using (hasDerivAt_const (0:ℝ) (-0.2:ℝ))
    · simpa using (((hasDerivAt_id (0:ℝ)).const_mul (2:ℝ)).const_add (0.5:ℝ))
  · have h1 : (2:ℝ)^(-52:ℤ) < 0.3 := by
      rw [zpow_neg]; norm_num
    have h2 : (0.3:ℝ) ≤ (v3 ([0.3 + 0, -0.2, 0.5 + 2 * 0] : DVec ℝ)).norm := by
      simp only [Vec3.norm, Vec3.normSq, v3, nth_cons_zero, nth_cons_succ]
      apply Real.le_sqrt_of_sq_le; norm_num
    exact lt_of_lt_of_le h1 h2

/-- **`se3_Exp.backward` multiplies by the true derivative** on the closed-form branches (`θ > eps` for `so3_Jl`,
`θ > 0.05` for `calcQ`): a curve `x(t) = (τ(t); φ(t))` with velocity `d` is mapped to a curve in `SE3` with
left-perturbation tangent `se3_Jl(x(0))·d`.  The translation block is the statement that `calcQ` is the derivative of
`so3_Jl(φ)·τ` with respect to `φ` (up to the lever-arm term) — the block the D25 repair touched. -/
theorem se3_Exp_tangent (eps : ℝ) (heps : 0 ≤ eps) (x : ℝ → DVec ℝ) (d0 d1 d2 d3 d4 d5 : ℝ)
    (hx : LCurve 6 x [d0, d1, d2, d3, d4, d5]) (hth : eps < (v3 (x 0) 3).norm) (hq : (5:ℝ)/100 < (v3 (x 0) 3).norm) :
    GTangent .SE3 (fun t => expF .SE3 eps (x t)) ((JlMat .SE3 eps (x 0)).mulVec [d0, d1, d2, d3, d4, d5]) :=
  se3Exp_tangent eps heps x d0 d1 d2 d3 d4 d5 hx hth hq

/-- non-vacuity: the constant-velocity curve `x(t) = (1 + t, 0, 2, 0.3, -0.2 + t, 0.5)`, `‖φ(0)‖ ≥ 0.3 > 0.05` -/
example : ∃ x : ℝ → DVec ℝ, LCurve 6 x [1, 0, 0, 0, 1, 0] ∧ (5:ℝ)/100 < (v3 (x 0) 3).norm := by
  refine ⟨fun t => [1 + t, 0, 2, 0.3, -0.2 + t, 0.5], ?_, ?_⟩
  · intro i hi
    interval_cases i
    · simpa using ((hasDerivAt_id (0:ℝ)).const_add (1:ℝ))
    · simpa using (hasDerivAt_const (0:ℝ) (0:ℝ))
    · simpa using (hasDerivAt_const (0:ℝ) (2:ℝ))
    · simpa using (hasDerivAt_const (0:ℝ) (0.3:ℝ))
    · simpa using ((hasDerivAt_id (0:ℝ)).const_add (-0.2:ℝ))
    · simpa using (hasDerivAt_const (0:ℝ) (0.5:ℝ))
  · have h2 : (0.3:ℝ) ≤ (v3 ([1 + 0, 0, 2, 0.3, -0.2 + 0, 0.5] : DVec ℝ) 3).norm := by
      simp only [Vec3.norm, Vec3.normSq, v3, nth_cons_zero, nth_cons_succ]
      apply Real.le_sqrt_of_sq_le; norm_num
    exact lt_of_lt_of_le (by norm_num) h2

/-- **`rxso3_Exp.backward`** on the closed-form branch: tangent `rxso3_Jl(x)·d` -/
theorem rxso3_Exp_tangent (eps : ℝ) (heps : 0 ≤ eps) (x : ℝ → DVec ℝ) (d0 d1 d2 d3 : ℝ)
    (hx : LCurve 4 x [d0, d1, d2, d3]) (hth : eps < (v3 (x 0)).norm) :
    GTangent .RxSO3 (fun t => expF .RxSO3 eps (x t)) ((JlMat .RxSO3 eps (x 0)).mulVec [d0, d1, d2, d3]) :=
  rxso3Exp_tangent eps heps x d0 d1 d2 d3 hx hth

/-- **`RxSO3_Log.backward`** in regime 1 of the rotation logarithm: velocity `rxso3_Jl_inv(Log X)·τ` -/
theorem RxSO3_Log_tangent (eps : ℝ) (heps : 0 ≤ eps) (X : ℝ → DVec ℝ) (a0 a1 a2 a3 : ℝ)
    (hX : GTangent .RxSO3 X [a0, a1, a2, a3]) (hu : UnitQ .RxSO3 (X 0)) (hs : ScaleNZ .RxSO3 (X 0))
    (hv : eps < (qt (X 0)).vec.norm) (hw : eps < |(qt (X 0)).w|)
    (hφ : eps < (v3 (logF .SO3 eps [nth (X 0) 0, nth (X 0) 1, nth (X 0) 2, nth (X 0) 3])).norm) :
    LCurve 4 (fun t => logF .RxSO3 eps (X t)) ((JlInvMat .RxSO3 eps (logF .RxSO3 eps (X 0))).mulVec [a0, a1, a2, a3]) :=
  RxSO3Log_tangent eps heps X a0 a1 a2 a3 hX hu hs hv hw hφ

/-- **`SO3_Log.backward` multiplies by the true derivative** (regime 1 of the logarithm: `‖v‖ > eps`, `|w| > eps`, both
hemispheres; closed-form branch of `so3_Jl_inv`): a curve of unit quaternions with left-perturbation tangent `τ` is mapped
to a curve in `so3` with velocity `so3_Jl_inv(Log X(0))·τ`. -/
theorem SO3_Log_tangent (eps : ℝ) (heps : 0 ≤ eps) (X : ℝ → DVec ℝ) (a0 a1 a2 : ℝ)
    (hX : GTangent .SO3 X [a0, a1, a2]) (hu : UnitQ .SO3 (X 0))
    (hv : eps < (qt (X 0)).vec.norm) (hw : eps < |(qt (X 0)).w|) (hφ : eps < (v3 (logF .SO3 eps (X 0))).norm) :
    LCurve 3 (fun t => logF .SO3 eps (X t)) ((JlInvMat .SO3 eps (logF .SO3 eps (X 0))).mulVec [a0, a1, a2]) :=
  SO3Log_tangent eps heps X a0 a1 a2 hX hu hv hw hφ

/-- non-vacuity of `SO3_Log_tangent` (at `eps = 0`): the unit quaternion `(0.6, 0, 0, 0.8)` is in regime 1 and its
logarithm is not zero -/
example : (0:ℝ) < (qt ([0.6, 0, 0, 0.8] : DVec ℝ)).vec.norm ∧ (0:ℝ) < |(qt ([0.6, 0, 0, 0.8] : DVec ℝ)).w| ∧
    (0:ℝ) < (v3 (logF .SO3 0 [0.6, 0, 0, 0.8])).norm := by
  have hn : (qt ([0.6, 0, 0, 0.8] : DVec ℝ)).vec.norm = Real.sqrt 0.36 := by
    simp [Vec3.norm, Vec3.normSq, Quat.vec, qt]; norm_num
  have hpos : (0:ℝ) < Real.sqrt 0.36 := Real.sqrt_pos.mpr (by norm_num)
  have hw : (0:ℝ) < |(qt ([0.6, 0, 0, 0.8] : DVec ℝ)).w| := by simp [qt]; norm_num
  refine ⟨by rw [hn]; exact hpos, hw, ?_⟩
  have h1 : (0:ℝ) < (qt ([0.6, 0, 0, 0.8] : DVec ℝ)).vec.norm := by rw [hn]; exact hpos
  simp only [logF, SO3Log_regime1 0 _ h1 hw, hn]
  simp only [Vec3.norm, Vec3.normSq, v3, Vec3.smul, Vec3.toList, Quat.vec, qt, nth_cons_zero, nth_cons_succ, sqrt_real]
  apply Real.sqrt_pos.mpr
  have hA : Real.arctan (Real.sqrt 0.36 / 0.8) ≠ 0 := by
    rw [Ne, Real.arctan_eq_zero_iff]; exact ne_of_gt (div_pos hpos (by norm_num))
  have hF : 2 * Real.arctan (Real.sqrt 0.36 / 0.8) / Real.sqrt 0.36 ≠ 0 := by
    apply div_ne_zero (mul_ne_zero (by norm_num) hA) (ne_of_gt hpos)
  have : (0:ℝ) < (2 * Real.arctan (Real.sqrt 0.36 / 0.8) / Real.sqrt 0.36 * 0.6) ^ 2 := by positivity
  nlinarith [this]

/-- **`Exp₁` agrees with the true retraction** (`SO3`): the curve `t ↦ so3_Exp(t·τ) @ X`, along which the property defines
`X.grad`, passes through `X` with exactly the velocity `liftG` that all local theorems use. -/
theorem SO3_retraction_tangent (eps : ℝ) (heps : 0 < eps) (X τ : DVec ℝ) (hX : X.length = 4) (hτ : τ.length = 3) :
    GTangent .SO3 (fun t => retrF .SO3 eps X [t * nth τ 0, t * nth τ 1, t * nth τ 2]) τ :=
  retr_tangent_SO3 eps heps X τ hX hτ

/-- `so3_Jl(x)·so3_Jl_inv(x) = 1` on the closed-form branch: the matrices of `so3_Exp.backward` and `SO3_Log.backward` are
inverse to each other (whenever `sin(θ/2) ≠ 0`, i.e. away from `θ = 2π, 4π, …`) -/
theorem so3_Jl_mul_JlInv (eps : ℝ) (x : Vec3 ℝ) (h : eps < x.norm) (h0 : 0 ≤ eps) (hs : Real.sin (1/2 * x.norm) ≠ 0) :
    (so3Jl eps x).mul (so3JlInv eps x) = Mat3.one :=
  so3Jl_mul_so3JlInv eps x h h0 hs

/-! ## 3. Chain rule for all programs -/

/-- **Reverse mode = transpose of forward mode, for every program.**  `lt` are the leaf types, `env` the leaf values,
`tan` arbitrary leaf tangents (manifold dimension for group leaves), `go` the cotangent of the output.  The contributions
emitted by the reverse sweep pair with the leaf tangents to exactly `⟨go, tangent⟩`, where `tangent` pushes the leaf
tangents forward through the local Jacobians of §1–2 (`jvp1`, `jvp2`).  Structural induction: no bound on depth, size or
on how often a leaf is shared. -/
theorem backprop_adjoint (dJ : DJ ℝ) (hdJ : DJShape dJ) (eps : ℝ) (lt : List Ty) (env tan : List (DVec ℝ))
    (hE : EnvOK lt env tan) (p : Prog) (ty : Ty) (go : DVec ℝ) (hty : tyOf lt p = some ty) (hgo : go.length = ty.dim) :
    pairSum tan (backprop dJ eps env p go) = DVec.dot go (tangent dJ eps env tan p) :=
  (backprop_adjoint_aux dJ hdJ eps lt env tan hE p ty go hty hgo).1

/-- well-typed programs evaluate to vectors of the storage length of their type -/
theorem eval_length (dJ : DJ ℝ) (hdJ : DJShape dJ) (eps : ℝ) (lt : List Ty) (env tan : List (DVec ℝ))
    (hE : EnvOK lt env tan) (p : Prog) (ty : Ty) (hty : tyOf lt p = some ty) : (eval eps env p).length = ty.dim :=
  (backprop_adjoint_aux dJ hdJ eps lt env tan hE p ty (List.replicate ty.dim 0) hty (by simp)).2.1

/-- … and their forward tangents have the manifold dimension -/
theorem tangent_length (dJ : DJ ℝ) (hdJ : DJShape dJ) (eps : ℝ) (lt : List Ty) (env tan : List (DVec ℝ))
    (hE : EnvOK lt env tan) (p : Prog) (ty : Ty) (hty : tyOf lt p = some ty) :
    (tangent dJ eps env tan p).length = ty.tdim :=
  (backprop_adjoint_aux dJ hdJ eps lt env tan hE p ty (List.replicate ty.dim 0) hty (by simp)).2.2

/-- a concrete well-typed program with a shared leaf: `Act(Retr(X, a) @ X, p)` on SE3; types `X : SE3`, `a : se3`, `p : ℝ³` -/
example : tyOf [.G .SE3, .V 6, .V 3]
    (.bin .Act .SE3 (.bin .Mul .SE3 (Prog.retr .SE3 (.leaf 0) (.leaf 1)) (.leaf 0)) (.leaf 2)) = some (.V 3) := by decide

/-! ## 3b. The forward tangent is the true derivative: exact gradients for whole programs

`CurveOK ty γ τ` (`Proofs/Lemmas/AutogradSemantic.lean`): `γ` is a curve of stored values of type `ty`, valid at `t = 0`
(unit quaternion, non-zero scale), moving with tangent `τ` — the left-perturbation tangent for group types. -/

/-- **Semantic chain rule, algebraic programs.**  For every well-typed program over `{Inv, @, Act, Act4, Adj, AdjT,
matrix()}` — any depth, any sharing — whose leaves move along arbitrary valid curves, the value of the program moves with
the forward tangent that `backprop_adjoint` transposes (for group-valued programs: as a left-perturbation tangent). -/
theorem program_tangent_exact_algebraic (dJ : DJ ℝ) (eps : ℝ) (lt : List Ty) (env : ℝ → List (DVec ℝ)) (tan : List (DVec ℝ))
    (hleaf : ∀ i t, lt[i]? = some t → CurveOK t (fun s => (env s).getD i []) (tan.getD i []))
    (p : Prog) (hp : p.algebraic = true) (ty : Ty) (hty : tyOf lt p = some ty) :
    CurveOK ty (fun s => eval eps (env s) p) (tangent dJ eps (env 0) tan p) :=
  eval_tangent_algebraic dJ eps lt env tan hleaf p hp ty hty

/-- **Exact gradients for every program over the algebraic operators**: with all leaves moving at once (group leaves
by left perturbations `Exp(tτᵢ)·Xᵢ` or any curve with that tangent, algebra / Euclidean leaves with velocities `τᵢ`),

  `d/dt ⟨c, p(leaves(t))⟩ |_{t=0} = Σ_leaves ⟨contribution of the reverse sweep, τᵢ⟩`

for every cotangent `c`.  With `τ` a basis vector at one leaf this is: the first manifold-dimension slots of `.grad` of a
group leaf are the left-perturbation Jacobian; Euclidean / algebra leaves get the ordinary Jacobian. -/
theorem gradient_exact_algebraic (dJ : DJ ℝ) (hdJ : DJShape dJ) (eps : ℝ) (lt : List Ty) (env : ℝ → List (DVec ℝ))
    (tan : List (DVec ℝ)) (hE : EnvOK lt (env 0) tan)
    (hleaf : ∀ i t, lt[i]? = some t → CurveOK t (fun s => (env s).getD i []) (tan.getD i []))
    (p : Prog) (hp : p.algebraic = true) (n : Nat) (hty : tyOf lt p = some (.V n)) (c : DVec ℝ) (hc : c.length = n) :
    HasDerivAt (fun s => DVec.dot c (eval eps (env s) p)) (pairSum tan (backprop dJ eps (env 0) p c)) 0 :=
  alg_program_gradient_exact dJ hdJ eps lt env tan hE hleaf p hp n hty c hc

/-- **All programs (incl. `Exp`, `Log`, `Jinvp`), partial**: the chain rule is proved; what is assumed (`TransSpec`) is
local correctness of the transcendental nodes at their positions.  Proved instances of that hypothesis: `so3` `Exp`
nodes on the closed-form branch (`so3_Exp_node`), `se3` `Exp` nodes on the closed-form branches (`se3_Exp_node`) and
`SO3` `Log` nodes in regime 1 (`so3_Log_node`), `rxso3` `Exp` / `RxSO3` `Log` (`rxso3_Exp_node`, `RxSO3_Log_node`).  For
`sim3` `Exp`, the `SE3`/`Sim3` logarithms, the other regimes and `Jinvp` it is not proved in Lean (for `sim3` it holds only up to the documented truncation, §6) and rides on the 192-bit finite-difference
oracle of the check. -/
theorem gradient_exact_partial (dJ : DJ ℝ) (hdJ : DJShape dJ) (eps : ℝ) (lt : List Ty) (env : ℝ → List (DVec ℝ))
    (tan : List (DVec ℝ)) (hE : EnvOK lt (env 0) tan)
    (hleaf : ∀ i t, lt[i]? = some t → CurveOK t (fun s => (env s).getD i []) (tan.getD i []))
    (p : Prog) (hT : TransSpec dJ eps lt env tan p) (n : Nat) (hty : tyOf lt p = some (.V n)) (c : DVec ℝ) (hc : c.length = n) :
    HasDerivAt (fun s => DVec.dot c (eval eps (env s) p)) (pairSum tan (backprop dJ eps (env 0) p c)) 0 :=
  program_gradient_exact_of_transSpec dJ hdJ eps lt env tan hE hleaf p hT n hty c hc

/-- the value of any program moves with the forward tangent, given `TransSpec` (group-valued outputs included) -/
theorem program_tangent_exact_partial (dJ : DJ ℝ) (eps : ℝ) (lt : List Ty) (env : ℝ → List (DVec ℝ)) (tan : List (DVec ℝ))
    (hleaf : ∀ i t, lt[i]? = some t → CurveOK t (fun s => (env s).getD i []) (tan.getD i []))
    (p : Prog) (hT : TransSpec dJ eps lt env tan p) (ty : Ty) (hty : tyOf lt p = some ty) :
    CurveOK ty (fun s => eval eps (env s) p) (tangent dJ eps (env 0) tan p) :=
  eval_tangent_of_transSpec dJ eps lt env tan hleaf p hT ty hty

/-- an `so3` `Exp` node on the closed-form branch satisfies its `TransSpec` obligation -/
theorem so3_Exp_node (dJ : DJ ℝ) (eps : ℝ) (heps : 0 ≤ eps) (lt : List Ty) (env : ℝ → List (DVec ℝ)) (tan : List (DVec ℝ))
    (p : Prog) (hp : NodeOK dJ eps lt env tan p) (hth : eps < (v3 (eval eps (env 0) p)).norm) :
    NodeOK dJ eps lt env tan (.un .Exp .SO3 p) :=
  so3_Exp_nodeOK dJ eps heps lt env tan p hp hth

/-- an `se3` `Exp` node on the closed-form branches satisfies its `TransSpec` obligation -/
theorem se3_Exp_node (dJ : DJ ℝ) (eps : ℝ) (heps : 0 ≤ eps) (lt : List Ty) (env : ℝ → List (DVec ℝ)) (tan : List (DVec ℝ))
    (p : Prog) (hp : NodeOK dJ eps lt env tan p) (hth : eps < (v3 (eval eps (env 0) p) 3).norm)
    (hq : (5:ℝ)/100 < (v3 (eval eps (env 0) p) 3).norm) :
    NodeOK dJ eps lt env tan (.un .Exp .SE3 p) :=
  se3_Exp_nodeOK dJ eps heps lt env tan p hp hth hq

/-- `rxso3` `Exp` nodes (closed-form branch) and `RxSO3` `Log` nodes (regime 1) satisfy their `TransSpec` obligations -/
theorem rxso3_Exp_node (dJ : DJ ℝ) (eps : ℝ) (heps : 0 ≤ eps) (lt : List Ty) (env : ℝ → List (DVec ℝ)) (tan : List (DVec ℝ))
    (p : Prog) (hp : NodeOK dJ eps lt env tan p) (hth : eps < (v3 (eval eps (env 0) p)).norm) :
    NodeOK dJ eps lt env tan (.un .Exp .RxSO3 p) :=
  rxso3_Exp_nodeOK dJ eps heps lt env tan p hp hth
theorem RxSO3_Log_node (dJ : DJ ℝ) (eps : ℝ) (heps : 0 ≤ eps) (lt : List Ty) (env : ℝ → List (DVec ℝ)) (tan : List (DVec ℝ))
    (p : Prog) (hp : NodeOK dJ eps lt env tan p)
    (hv : eps < (qt (eval eps (env 0) p)).vec.norm) (hw : eps < |(qt (eval eps (env 0) p)).w|)
    (hφ : eps < (v3 (logF .SO3 eps [nth (eval eps (env 0) p) 0, nth (eval eps (env 0) p) 1, nth (eval eps (env 0) p) 2,
      nth (eval eps (env 0) p) 3])).norm) :
    NodeOK dJ eps lt env tan (.un .Log .RxSO3 p) :=
  rxso3_Log_nodeOK dJ eps heps lt env tan p hp hv hw hφ

/-- an `SO3` `Log` node in regime 1 satisfies its `TransSpec` obligation -/
theorem so3_Log_node (dJ : DJ ℝ) (eps : ℝ) (heps : 0 ≤ eps) (lt : List Ty) (env : ℝ → List (DVec ℝ)) (tan : List (DVec ℝ))
    (p : Prog) (hp : NodeOK dJ eps lt env tan p)
    (hv : eps < (qt (eval eps (env 0) p)).vec.norm) (hw : eps < |(qt (eval eps (env 0) p)).w|)
    (hφ : eps < (v3 (logF .SO3 eps (eval eps (env 0) p))).norm) :
    NodeOK dJ eps lt env tan (.un .Log .SO3 p) :=
  so3_Log_nodeOK dJ eps heps lt env tan p hp hv hw hφ

/-- non-vacuity of `CurveOK` at a group type: the affine curve through the unit quaternion `(0.6,0,0,0.8)` -/
example : CurveOK (.G .SO3) (affine .SO3 [0.6, 0, 0, 0.8] [0.3, -0.2, 0.5]) [0.3, -0.2, 0.5] :=
  ⟨gtangent_affine _ _ _ rfl, by rw [affine_zero _ _ _ rfl]; simp [UnitQ, qt, Quat.normSq]; norm_num, trivial, rfl⟩
/-- the program of the example above is algebraic once `Retr` is replaced by a product -/
example : (Prog.bin .Act .SE3 (.bin .Mul .SE3 (.un .Inv .SE3 (.leaf 0)) (.leaf 1)) (.leaf 2)).algebraic = true := by decide

/-! ## 3c. Call sequences and aliased arguments (hardening pass: object reuse, views / aliases)

The reverse sweep is a pure function of (program, leaf values, cotangent); nothing is carried from one call to the next,
and one tensor used in several argument positions receives the sum of the gradients of the positions. -/

/-- two backward passes through one graph (`retain_graph`) accumulate in `.grad` exactly what one backward pass with the
summed cotangent delivers (in the pairing with any leaf tangents) -/
theorem backward_calls_accumulate (dJ : DJ ℝ) (hdJ : DJShape dJ) (eps : ℝ) (lt : List Ty) (env tan : List (DVec ℝ))
    (hE : EnvOK lt env tan) (p : Prog) (ty : Ty) (c1 c2 : DVec ℝ) (hty : tyOf lt p = some ty)
    (h1 : c1.length = ty.dim) (h2 : c2.length = ty.dim) :
    pairSum tan (backprop dJ eps env p c1 ++ backprop dJ eps env p c2)
      = pairSum tan (backprop dJ eps env p (DVec.add c1 c2)) :=
  backprop_accumulates dJ hdJ eps lt env tan hE p ty c1 c2 hty h1 h2

/-- the order in which several backward calls (of any programs, on any graphs) deposit their contributions is irrelevant
for what `.grad` pairs to: interleaving calls of different types / batch sizes in another order cannot change a gradient
(hardening pass 2, kind 17, as far as it is a statement about the model: there is no state to leak) -/
theorem backward_calls_commute (tan : List (DVec ℝ)) (a b : List (Nat × DVec ℝ)) :
    pairSum tan (a ++ b) = pairSum tan (b ++ a) := by
  rw [pairSum_append, pairSum_append, add_comm]

/-- aliasing = sharing, forward: a program whose argument positions are fed through a renaming `f` of the caller's tensors
(e.g. `X @ X`: both positions ↦ the same tensor) evaluates like distinct tensors holding the same data -/
theorem aliased_arguments_eval (eps : ℝ) (n : Nat) (f : Nat → Nat) (env : List (DVec ℝ)) (p : Prog) (h : p.leavesBelow n) :
    eval eps env (p.mapLeaf f) = eval eps (reindex n f env) p :=
  eval_mapLeaf eps n f env p h

/-- aliasing = sharing, backward: the contributions are those of the un-aliased program, delivered to the identified
tensors — `.grad` of a tensor passed in several positions is the sum over the positions -/
theorem aliased_arguments_backprop (dJ : DJ ℝ) (eps : ℝ) (n : Nat) (f : Nat → Nat) (env : List (DVec ℝ)) (p : Prog)
    (h : p.leavesBelow n) (go : DVec ℝ) :
    backprop dJ eps env (p.mapLeaf f) go = (backprop dJ eps (reindex n f env) p go).map (fun c => (f c.1, c.2)) :=
  backprop_mapLeaf dJ eps n f env p h go

/-- `X @ X` is `X₀ @ X₁` with both leaves renamed to `0` -/
example : (Prog.bin .Mul .SE3 (.leaf 0) (.leaf 1)).mapLeaf (fun _ => 0) = .bin .Mul .SE3 (.leaf 0) (.leaf 0) := rfl

/-! ## 4. The remaining storage slot of every group gradient is zero -/

/-- every contribution delivered to a leaf of group type `g` by a program that is not that bare leaf has `0` in slot
`g.adim` (the last storage slot) -/
theorem backprop_slot_zero (dJ : DJ ℝ) (eps : ℝ) (lt : List Ty) (env : List (DVec ℝ)) (p : Prog) (ty : Ty) (go : DVec ℝ)
    (hty : tyOf lt p = some ty) (hp : p.isLeaf = false) :
    ∀ c ∈ backprop dJ eps env p go, ∀ g, lt[c.1]? = some (.G g) → nth c.2 g.adim = 0 :=
  backprop_lastZero dJ eps lt env p ty go hty (Or.inr hp)

/-- hence `.grad` of every group leaf (the sum of its contributions) has last storage slot exactly `0` -/
theorem grad_last_slot_zero (dJ : DJ ℝ) (eps : ℝ) (lt : List Ty) (env : List (DVec ℝ)) (p : Prog) (ty : Ty) (go : DVec ℝ)
    (hty : tyOf lt p = some ty) (hp : p.isLeaf = false) (i : Nat) (g : Grp) (hi : lt[i]? = some (.G g)) (n : Nat) :
    nth (grad n i (backprop dJ eps env p go)) g.adim = 0 :=
  grad_slot_zero n i g.adim _ (fun c hc hci => backprop_slot_zero dJ eps lt env p ty go hty hp c hc g (by rw [hci]; exact hi))

/-! ## 5. Identity element / zero vector: division-free, exact -/

/-- every `*_Jl` at the zero vector is the identity matrix -/
theorem Jl_at_zero (g : Grp) (eps : ℝ) (h : 0 ≤ eps) : JlMat g eps (DVec.zero g.adim) = DMat.one g.adim :=
  JlMat_zero g eps h
/-- every `*_Jl_inv` at the zero vector is the identity matrix -/
theorem JlInv_at_zero (g : Grp) (eps : ℝ) (h : 0 ≤ eps) : JlInvMat g eps (DVec.zero g.adim) = DMat.one g.adim :=
  JlInvMat_zero g eps h
/-- `*_Exp.backward` at the zero vector: `c ↦ c[:-1]` -/
theorem Exp_backward_at_zero (g : Grp) (eps : ℝ) (h : 0 ≤ eps) (go : DVec ℝ) :
    expB g eps (DVec.zero g.adim) go = headN g.adim go := expB_zero g eps h go
/-- `Log` of the identity element is the zero vector … -/
theorem Log_identity (g : Grp) (eps : ℝ) (h : 0 ≤ eps) : logF g eps (identG g) = DVec.zero g.adim := logF_ident g eps h
/-- … and `*_Log.backward` there is `c ↦ (c, 0)` -/
theorem Log_backward_at_identity (g : Grp) (eps : ℝ) (h : 0 ≤ eps) (go : DVec ℝ) (hgo : go.length = g.adim) :
    logB g eps (logF g eps (identG g)) go = pad0 go := by
  rw [logF_ident g eps h]; exact logB_zero g eps h go hgo

/-! ## 6. The documented truncation for sim3 -/

/-- `sim3_Jl ξ = Σ_{n ≤ 5} ad(ξ)ⁿ/(n+1)!` — exactly the first six terms of the series of the left Jacobian -/
theorem sim3_Jl_truncated_series (x : sim3 ℝ) :
    sim3Jl x =
      let A := sim3ad x
      let A2 := A.mul A
      let A4 := A2.mul A2
      DMat.add (DMat.add (DMat.add (DMat.add (DMat.add (DMat.one 7) (DMat.smul (1/2) A)) (DMat.smul (1/6) A2))
        (DMat.smul (1/24) (A.mul A2))) (DMat.smul (1/120) A4)) (DMat.smul (1/720) (A.mul A4)) := by
  simp [sim3Jl]

/-- `sim3_Jl_inv ξ = 1 − ad/2 + ad²/12 − ad⁴/720` — the Bernoulli series `Σ Bₙ adⁿ/n!` through `n = 4` -/
theorem sim3_JlInv_bernoulli (x : sim3 ℝ) :
    sim3JlInv x =
      let A := sim3ad x
      let A2 := A.mul A
      DMat.sub (DMat.add (DMat.sub (DMat.one 7) (DMat.smul (1/2) A)) (DMat.smul (1/12) A2)) (DMat.smul (1/720) (A2.mul A2)) := by
  simp [sim3JlInv]

end PP.AD
