import Pose.Scalar
import Mathlib.Analysis.SpecialFunctions.Trigonometric.Arctan
import Mathlib.Analysis.SpecialFunctions.Complex.Arg
import Mathlib.Analysis.SpecialFunctions.Log.Basic
/-!
# The real-number instance of `Scalar`

All theorems are about the model instantiated here.  The instance is assembled from Mathlib's own
`Add ℝ`, … so that `ring`, `field_simp`, `linear_combination`, `nlinarith` work unchanged.
`atan2 y x` is `Complex.arg (x + y·i)` (range `(-π, π]`, `atan2 0 0 = 0`).
-/
open PP

noncomputable instance instScalarReal : Scalar ℝ where
  toAdd := inferInstance
  toSub := inferInstance
  toMul := inferInstance
  toNeg := inferInstance
  toDiv := inferInstance
  ofNat n := (n : ℝ)
  sqrt := Real.sqrt
  sin := Real.sin
  cos := Real.cos
  atan := Real.arctan
  atan2 y x := Complex.arg ⟨x, y⟩
  exp := Real.exp
  log := Real.log
  pi := Real.pi
  lt a b := decide (a < b)
  le a b := decide (a ≤ b)

namespace PP
@[simp] theorem k_real (n : Nat) : (k n : ℝ) = (n : ℝ) := rfl
@[simp] theorem q_real (a b : Nat) : (q a b : ℝ) = (a : ℝ) / (b : ℝ) := rfl
@[simp] theorem lt_real (a b : ℝ) : Scalar.lt a b = decide (a < b) := rfl
@[simp] theorem le_real (a b : ℝ) : Scalar.le a b = decide (a ≤ b) := rfl
@[simp] theorem sqrt_real (a : ℝ) : Scalar.sqrt a = Real.sqrt a := rfl
@[simp] theorem sin_real (a : ℝ) : Scalar.sin a = Real.sin a := rfl
@[simp] theorem cos_real (a : ℝ) : Scalar.cos a = Real.cos a := rfl
@[simp] theorem atan_real (a : ℝ) : Scalar.atan a = Real.arctan a := rfl
@[simp] theorem exp_real (a : ℝ) : Scalar.exp a = Real.exp a := rfl
@[simp] theorem log_real (a : ℝ) : Scalar.log a = Real.log a := rfl
@[simp] theorem pi_real : (Scalar.pi : ℝ) = Real.pi := rfl
theorem sabs_real (a : ℝ) : sabs a = |a| := by
  unfold sabs; simp only [lt_real, k_real, Nat.cast_zero]
  by_cases h : a < 0 <;> simp [h, abs_of_neg, abs_of_nonneg, le_of_not_gt]
end PP
