import Proofs.Lemmas.Quat
import Mathlib.Tactic.Positivity
import Mathlib.Tactic.NormNum
import Mathlib.Tactic.Linarith
/-! Norm of the quaternion returned by `so3Exp` (shared by C01, C03, C16, C19). -/
namespace PP
open Vec3 Quat

theorem Vec3.normSq_nonneg (x : Vec3 ℝ) : 0 ≤ x.normSq := by
  unfold Vec3.normSq; nlinarith [mul_self_nonneg x.x, mul_self_nonneg x.y, mul_self_nonneg x.z]
theorem Vec3.norm_sq (x : Vec3 ℝ) : x.norm * x.norm = x.normSq := by
  unfold Vec3.norm; exact Real.mul_self_sqrt (Vec3.normSq_nonneg x)
theorem Vec3.norm_nonneg (x : Vec3 ℝ) : 0 ≤ x.norm := Real.sqrt_nonneg _

theorem Quat.normSq_mk' (v : Vec3 ℝ) (w : ℝ) : (Quat.mk' v w).normSq = v.normSq + w * w := by
  lie_unfold
theorem Vec3.normSq_smul (c : ℝ) (v : Vec3 ℝ) : (v.smul c).normSq = c * c * v.normSq := by
  lie_unfold; ring

/-- closed-form branch: exactly a unit quaternion -/
theorem so3Exp_normSq_closed (eps : ℝ) (x : Vec3 ℝ) (h0 : 0 ≤ eps) (h : eps < x.norm) :
    (so3Exp eps x).normSq = 1 := by
  have hpos : 0 < x.norm := lt_of_le_of_lt h0 h
  have hne : x.norm ≠ 0 := ne_of_gt hpos
  unfold so3Exp
  simp only [lt_real, h, decide_true, if_true, sin_real, cos_real, q_real, Nat.cast_one, Nat.cast_ofNat]
  rw [Quat.normSq_mk', Vec3.normSq_smul, ← Vec3.norm_sq]
  have hsc := Real.sin_sq_add_cos_sq (1 / 2 * x.norm)
  have e : Real.sin (1 / 2 * x.norm) / x.norm * (Real.sin (1 / 2 * x.norm) / x.norm) * (x.norm * x.norm)
      = Real.sin (1 / 2 * x.norm) ^ 2 := by field_simp
  rw [e]; linear_combination hsc

/-- Taylor branch: `‖q‖² − 1 = t³/23040 − t⁴/245760 + t⁵/14745600`, `t = θ²` — exactly. -/
theorem so3Exp_normSq_taylor (eps : ℝ) (x : Vec3 ℝ) (h : ¬ eps < x.norm) :
    (so3Exp eps x).normSq - 1 =
      x.normSq ^ 3 / 23040 - x.normSq ^ 4 / 245760 + x.normSq ^ 5 / 14745600 := by
  unfold so3Exp
  simp only [lt_real, h, decide_false, q_real, k_real, Nat.cast_one, Nat.cast_ofNat, Bool.false_eq_true, if_false]
  rw [Quat.normSq_mk', Vec3.normSq_smul]
  simp only [Vec3.norm_sq]
  ring

/-- for every input (both branches) the norm defect is at most `eps⁶` when `0 ≤ eps ≤ 1` -/
theorem so3Exp_normSq_near (eps : ℝ) (x : Vec3 ℝ) (h0 : 0 ≤ eps) (h1 : eps ≤ 1) :
    |(so3Exp eps x).normSq - 1| ≤ eps ^ 6 := by
  by_cases h : eps < x.norm
  · rw [so3Exp_normSq_closed eps x h0 h]; simp; positivity
  · rw [so3Exp_normSq_taylor eps x h]
    have hle : x.norm ≤ eps := not_lt.mp h
    have hn := Vec3.norm_nonneg x
    have ht : x.normSq ≤ eps ^ 2 := by rw [← Vec3.norm_sq]; nlinarith
    have ht0 := Vec3.normSq_nonneg x
    set t := x.normSq
    have he2 : eps ^ 2 ≤ 1 := by nlinarith
    have ht1 : t ≤ 1 := le_trans ht he2
    have h3 : t ^ 3 ≤ (eps ^ 2) ^ 3 := pow_le_pow_left₀ ht0 ht 3
    have e6 : (eps ^ 2) ^ 3 = eps ^ 6 := by ring
    have t3 : 0 ≤ t ^ 3 := by positivity
    have t4 : t ^ 4 ≤ t ^ 3 := by nlinarith [mul_nonneg t3 ht0]
    have t5 : t ^ 5 ≤ t ^ 3 := by nlinarith [mul_nonneg t3 ht0, mul_nonneg (mul_nonneg t3 ht0) ht0]
    have t4' : 0 ≤ t ^ 4 := by positivity
    have t5' : 0 ≤ t ^ 5 := by positivity
    rw [abs_le]; constructor <;> nlinarith

end PP
