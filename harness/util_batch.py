"""Helpers of the C06 check: shapes, pools of distinct group elements, tagged tensors, model requests."""
from __future__ import annotations

import itertools
import math

import torch

from . import common

GROUPS = ["SO3", "SE3", "RxSO3", "Sim3"]
ALGEBRA = {"SO3": "so3", "SE3": "se3", "RxSO3": "rxso3", "Sim3": "sim3"}
DIM = {"SO3": 4, "SE3": 7, "RxSO3": 5, "Sim3": 8, "so3": 3, "se3": 6, "rxso3": 4, "sim3": 7}
MANIFOLD = {"SO3": 3, "SE3": 6, "RxSO3": 4, "Sim3": 7, "so3": 3, "se3": 6, "rxso3": 4, "sim3": 7}
LTYPES = ["SO3", "so3", "SE3", "se3", "RxSO3", "rxso3", "Sim3", "sim3"]
DT = {"float64": torch.float64, "float32": torch.float32}


def pp():
    import pypose
    return pypose


def ltype_of(name):
    return getattr(pp(), name + "_type")


def ltype_name(lt):
    for n in LTYPES:
        if lt is ltype_of(n):
            return n
    return repr(lt)


def all_shapes(max_rank=3, extents=(0, 1, 2, 3)):
    out = [()]
    for r in range(1, max_rank + 1):
        out += list(itertools.product(extents, repeat=r))
    return out


def py_broadcast(a, b):
    """independent reference of torch.broadcast_shapes (trailing alignment); None when not broadcastable"""
    n = max(len(a), len(b))
    pa = (1,) * (n - len(a)) + tuple(a)
    pb = (1,) * (n - len(b)) + tuple(b)
    out = []
    for x, y in zip(pa, pb):
        if x == y or y == 1:
            out.append(x)
        elif x == 1:
            out.append(y)
        else:
            return None
    return tuple(out)


def numel(s):
    return int(math.prod(s))


def wl(xs):
    """list on the wire: `n x1 … xn`"""
    xs = list(xs)
    return f"{len(xs)}" + "".join(f" {int(x)}" for x in xs)


def parse_out(rep):
    """reply `S r d… [L last] N n v…` -> dict(shape, last, vals) | None when the model says `raise`"""
    st, toks = common.parse_reply(rep)
    if st != "ok":
        if toks == "raise" or toks == "indexerror":
            return None
        raise common.InfraError(f"model error reply: {rep}")
    assert toks[0] == "S"
    r = int(toks[1])
    shape = tuple(int(t) for t in toks[2:2 + r])
    p = 2 + r
    last = None
    if p < len(toks) and toks[p] == "L":
        last = int(toks[p + 1])
        p += 2
    vals = []
    if p < len(toks) and toks[p] == "N":
        vals = [int(t) for t in toks[p + 2:]]
    return {"shape": shape, "last": last, "vals": vals}


# ----------------------------------------------------------------------------- pools of distinct items

class Pools:
    """Per dtype: K distinct, well separated items of every ltype plus point pools; built from a fixed seed
    with the real `Exp` (valid group elements)."""
    K = 13

    def __init__(self, seed=12345):
        self.cache = {}
        self.seed = seed

    def get(self, kind, dtype):
        key = (kind, dtype)
        if key in self.cache:
            return self.cache[key]
        P = pp()
        g = torch.Generator().manual_seed(self.seed + sum(map(ord, kind)))
        K = self.K
        if kind in ("p3", "p4"):
            t = torch.randn(K, 3 if kind == "p3" else 4, generator=g, dtype=torch.float64) * 2
        else:
            alg = ALGEBRA.get(kind, kind)
            m = DIM[alg]
            a = torch.randn(K, m, generator=g, dtype=torch.float64) * 0.6
            if alg in ("rxso3", "sim3"):
                a[:, -1] *= 0.3
            # spread the rotation angles: distinct items differ at O(0.1)
            if kind in GROUPS:
                t = getattr(P, alg)(a).Exp().tensor()
            else:
                t = a
        t = t.to(DT[dtype]).contiguous()
        self.cache[key] = t
        return t


def make_tagged(pool, shape, offset):
    """tensor of lshape `shape` whose flat item k is pool[(offset + k) % K]; returns (tensor, tags)"""
    n = numel(shape)
    K = pool.shape[0]
    tags = (torch.arange(n) + offset) % K
    return pool[tags].reshape(tuple(shape) + (pool.shape[1],)).clone(), tags


TAGMOD = None


def elem_tagged(shape, d, inp, dtype=torch.float64):
    """element-tagged tensor: value = inp * 100000 + flat element index"""
    n = numel(shape) * d
    if TAGMOD is not None:         # narrow dtypes (int8, bool, half, …): small exactly representable tags, distinct within 97 elements
        v = (torch.arange(n, dtype=torch.float64) * 5 + inp * 37) % TAGMOD
        v = (v % 3 == 0) if dtype == torch.bool else v
        return v.reshape(tuple(shape) + (d,)).to(dtype)
    return (torch.arange(n, dtype=torch.float64) + inp * 100000).reshape(tuple(shape) + (d,)).to(dtype)


def decode_items(t, d):
    """element-tagged output -> (ok, list of (inp, item) per output item); ok False when an output row is
    not one whole input item"""
    flat = t.detach().to(torch.float64).reshape(-1, d) if t.numel() else torch.zeros(0, d, dtype=torch.float64)
    if flat.shape[0] == 0:
        return True, []
    inp = torch.div(flat, 100000, rounding_mode="floor")
    e = flat - inp * 100000
    item = torch.div(e[:, 0], d, rounding_mode="floor")
    want = item[:, None] * d + torch.arange(d, dtype=torch.float64)[None, :]
    ok = bool(torch.equal(e, want)) and bool((inp == inp[:, :1]).all())
    return ok, list(zip(inp[:, 0].long().tolist(), item.long().tolist()))


def same_values(a, b):
    """exact equality of two tensors in which NaN equals only NaN (NaN is not 0, inf is not the largest float — `nan_to_num` on both
    sides would accept a result that turned NaN where it was 0): same shape, same NaN positions, equal everywhere else"""
    if a.shape != b.shape:
        return False
    na, nb = torch.isnan(a), torch.isnan(b)
    if not torch.equal(na, nb):
        return False
    return bool(torch.equal(a[~na], b[~nb]))
