import Pose.Scalar
/-!
# Model of `pypose/module/ekf.py`, `ukf.py`, `pf.py` (one filter step, and runs of steps)

Generic dimensions: a vector is `Fin n → α`, a matrix `Fin m → Fin n → α` (row, column).
Everything is polymorphic in `[Scalar α]`; the theorems instantiate `α = ℝ`, the driver `α = BigF`.

External kernels are **parameters** (their contracts are hypotheses of the theorems and are re-checked
by the driver on every call):

* `pinv`   — `torch.linalg.pinv` (contract used: `pinv S = S⁻¹` for invertible `S`);
* `msqrt`  — `UKF.msqrt`, default `torch.linalg.cholesky` (contract: `L Lᵀ = M`);
* the user's system: `f` (`state_transition`), `g` (`observation`) and the autograd Jacobians
  `jf = ∂f/∂x`, `jg = ∂g/∂x` at the reference point (`NLS.A`, `NLS.C`);
* for PF the random draws (`particles`, `uniforms`) and the normalising constant of
  `MultivariateNormal.log_prob` (`lz`; it cancels in the softmax — theorem `softmax_shift`).

`memoV/memoM` followed by `.fn/.mfn` are the identity (`MemoV.fn_of`, `MemoM.mfn_of` in
`Proofs/Lemmas/Filter.lean`); they only force evaluation into an array so that the executable instance
does not recompute closures.
-/
namespace PP.Filter
variable {α : Type} [Scalar α]

abbrev Vec (α : Type) (n : Nat) := Fin n → α
abbrev Mat (α : Type) (m n : Nat) := Fin m → Fin n → α

/-- `Σ_{i<n} f i` (left to right) -/
def fsum : {n : Nat} → (Fin n → α) → α
  | 0, _ => k 0
  | _+1, f => f 0 + fsum (fun i => f i.succ)

/-- number of indices with `p i` -/
def fcount : {n : Nat} → (Fin n → Bool) → Nat
  | 0, _ => 0
  | _+1, p => (if p 0 then 1 else 0) + fcount (fun i => p i.succ)

/-! ### evaluation forcing

`memoV v` / `memoM A` evaluate a vector / matrix into an array *once*; `.fn` / `.mfn` read it back
(`MemoV.fn_of`, `MemoM.mfn_of`: reading back gives the original function, so for the theorems these
are identities). A plain function-valued `memo` would be eta-expanded by the compiler and recompute
on every access. -/

structure MemoV (β : Type) (n : Nat) where
  a : Array β
  h : a.size = n

def memoV {β : Type} {n : Nat} (v : Fin n → β) : MemoV β n := ⟨Array.ofFn v, by simp⟩

def MemoV.fn {β : Type} {n : Nat} (s : MemoV β n) : Fin n → β :=
  fun i => s.a[i.val]'(by have := s.h; omega)

abbrev MemoM (β : Type) (m n : Nat) := MemoV (MemoV β n) m

def memoM {β : Type} {m n : Nat} (A : Fin m → Fin n → β) : MemoM β m n :=
  memoV (fun i => memoV (A i))

def MemoV.mfn {β : Type} {m n : Nat} (s : MemoM β m n) : Fin m → Fin n → β :=
  fun i j => (s.fn i).fn j

/-! ### dense algebra -/

def vadd {n} (a b : Vec α n) : Vec α n := fun i => a i + b i
def vsub {n} (a b : Vec α n) : Vec α n := fun i => a i - b i
def vsmul {n} (c : α) (a : Vec α n) : Vec α n := fun i => c * a i
def dot {n} (a b : Vec α n) : α := fsum fun i => a i * b i
def mulVec {m n} (A : Mat α m n) (v : Vec α n) : Vec α m := fun i => fsum fun j => A i j * v j
def mmul {l m n} (A : Mat α l m) (B : Mat α m n) : Mat α l n := fun i j => fsum fun t => A i t * B t j
def transpose {m n} (A : Mat α m n) : Mat α n m := fun i j => A j i
def madd {m n} (A B : Mat α m n) : Mat α m n := fun i j => A i j + B i j
def msub {m n} (A B : Mat α m n) : Mat α m n := fun i j => A i j - B i j
def msmul {m n} (c : α) (A : Mat α m n) : Mat α m n := fun i j => c * A i j
def eye {n} : Mat α n n := fun i j => if i.val = j.val then k 1 else k 0
/-- `bvv(a, b) = a bᵀ` -/
def outer {m n} (a : Vec α m) (b : Vec α n) : Mat α m n := fun i j => a i * b j

/-- state estimate returned by a filter step: `(x, P)` -/
structure Post (α : Type) (n : Nat) where
  x : Vec α n
  P : Mat α n n

/-- The user's system as the filters see it. `jf`, `jg` are what `NLS.A`, `NLS.C` return at the
reference point `(x, u)` (autograd contract: the Jacobians of `f`, `g` with respect to the state). -/
structure Sys (α : Type) (n m p : Nat) where
  f : Vec α n → Vec α m → Vec α n
  g : Vec α n → Vec α m → Vec α p
  jf : Vec α n → Vec α m → Mat α n n
  jg : Vec α n → Vec α m → Mat α p n

/-- the affine system `x' = A x + B u + c1`, `y = C x + D u + c2` (its Jacobians are `A`, `C` everywhere) -/
def affSys {n m p : Nat} (A : Mat α n n) (B : Mat α n m) (C : Mat α p n) (D : Mat α p m)
    (c1 : Vec α n) (c2 : Vec α p) : Sys α n m p where
  f x u := vadd (vadd (mulVec A x) (mulVec B u)) c1
  g x u := vadd (vadd (mulVec C x) (mulVec D u)) c2
  jf _ _ := A
  jg _ _ := C

/-- everything one call `filter(x, y, u, P, Q, R)` receives besides the prior -/
structure Step (α : Type) (n m p : Nat) where
  sys : Sys α n m p
  u : Vec α m
  y : Vec α p
  Q : Mat α n n
  R : Mat α p p

/-! ## EKF  (`EKF.forward`) -/

/-- One EKF step, line by line:
`xm = f(x,u)`; `P = A P Aᵀ + Q`; `K = P Cᵀ pinv(C P Cᵀ + R)`; `e = y − g(xm,u)`;
`xp = xm + K e`; `P = (I − K C) P`.  `A, C` are the Jacobians at the *prior* mean. -/
def ekf {n m p : Nat} (pinv : Mat α p p → Mat α p p) (s : Step α n m p) (pr : Post α n) : Post α n :=
  let A := memoM (s.sys.jf pr.x s.u)
  let C := memoM (s.sys.jg pr.x s.u)
  let xm := memoV (s.sys.f pr.x s.u)
  let Pm := memoM (madd (mmul (mmul A.mfn pr.P) (transpose A.mfn)) s.Q)
  let S := memoM (madd (mmul (mmul C.mfn Pm.mfn) (transpose C.mfn)) s.R)
  let Si := memoM (pinv S.mfn)
  let K := memoM (mmul (mmul Pm.mfn (transpose C.mfn)) Si.mfn)
  let e := memoV (vsub s.y (s.sys.g xm.fn s.u))
  let xp := memoV (vadd xm.fn (mulVec K.mfn e.fn))
  let Pp := memoM (mmul (msub eye (mmul K.mfn C.mfn)) Pm.mfn)
  ⟨xp.fn, Pp.mfn⟩

/-- a run: the posterior of one call is the prior of the next -/
def runEKF {n m p : Nat} (pinv : Mat α p p → Mat α p p) (steps : List (Step α n m p)) (pr : Post α n) :
    Post α n :=
  steps.foldl (fun st s => ekf pinv s st) pr

/-! ### how a call obtains `Q` and `R`, and what a failing call leaves behind

`Q = Q if Q is not None else self.Q`, `R = R if R is not None else self.R`: each covariance is resolved **on its own** —
the value passed for this call if there is one, otherwise the value stored in the filter object (`none` = the
`NotImplementedError` of the property when nothing is stored either). -/

def resolve {β : Type} (passed stored : Option β) : Option β :=
  match passed with
  | some v => some v
  | none => stored

/-- one `EKF.__call__` on an object holding `stQ`, `stR`, with per-call `pQ`, `pR` (`none` = the call raises) -/
def ekfCall {n m p : Nat} (pinv : Mat α p p → Mat α p p) (stQ : Option (Mat α n n)) (stR : Option (Mat α p p))
    (sys : Sys α n m p) (u : Vec α m) (y : Vec α p) (pQ : Option (Mat α n n)) (pR : Option (Mat α p p))
    (pr : Post α n) : Option (Post α n) :=
  match resolve pQ stQ, resolve pR stR with
  | some Q, some R => some (ekf pinv ⟨sys, u, y, Q, R⟩ pr)
  | _, _ => none

/-- a history in which some calls raise (`none`, e.g. the user's system function raised): the caller catches the
exception and continues with the estimate it had — a failing call is no call -/
def runEKFopt {n m p : Nat} (pinv : Mat α p p → Mat α p p) (calls : List (Option (Step α n m p))) (pr : Post α n) :
    Post α n :=
  calls.foldl (fun st c => match c with | some s => ekf pinv s st | none => st) pr

/-! ## UKF  (`UKF.forward`, `sigma_weight_points`, `compute_cov`) -/

/-- the `2n+1` sigma points / values attached to them, in the order of
`torch.cat((xe, xe + xr, xe − xr))`: centre, `plus i`, `minus i` -/
structure Sigma (α : Type) (n q : Nat) where
  c : Vec α q
  plus : Fin n → Vec α q
  minus : Fin n → Vec α q

/-- force all `2n+1` vectors (identity: `Sigma.memo_eq`) -/
def Sigma.memo {n q} (s : Sigma α n q) : Sigma α n q :=
  let c := memoV s.c
  let pl := memoM s.plus
  let mi := memoM s.minus
  ⟨c.fn, pl.mfn, mi.mfn⟩

/-- centre weight `k/(n+k)` and the common weight `1/(2(n+k))` of the other `2n` points -/
def w0 (n : Nat) (kk : α) : α := kk / (k n + kk)
def wr (n : Nat) (kk : α) : α := k 1 / (k 2 * (k n + kk))

/-- `sigma_weight_points`: `xr = msqrt((n+k) P).mT`, row `i` of `xr` is column `i` of the factor. -/
def sigmaPoints {n} (msqrt : Mat α n n → Mat α n n) (x : Vec α n) (P : Mat α n n) (kk : α) : Sigma α n n :=
  let L := memoM (msqrt (msmul (k n + kk) P))
  Sigma.memo ⟨x, fun i => vadd x (fun a => L.mfn a i), fun i => vsub x (fun a => L.mfn a i)⟩

/-- push every sigma point through a function -/
def Sigma.map {n q r} (F : Vec α q → Vec α r) (s : Sigma α n q) : Sigma α n r :=
  Sigma.memo ⟨F s.c, fun i => F (s.plus i), fun i => F (s.minus i)⟩

/-- `(w * xs).sum(dim=-2)` -/
def Sigma.wsum {n q} (a b : α) (s : Sigma α n q) : Vec α q :=
  fun j => a * s.c j + fsum (fun i => b * s.plus i j) + fsum (fun i => b * s.minus i j)

/-- `xe − xs` -/
def Sigma.dev {n q} (xe : Vec α q) (s : Sigma α n q) : Sigma α n q :=
  Sigma.memo ⟨vsub xe s.c, fun i => vsub xe (s.plus i), fun i => vsub xe (s.minus i)⟩

/-- `compute_cov(a, b, w)` without the additive term: `Σ_l w_l a_l b_lᵀ` -/
def Sigma.cov {n q r} (a b : α) (s : Sigma α n q) (t : Sigma α n r) : Mat α q r :=
  fun i j => a * s.c i * t.c j + fsum (fun l => b * s.plus l i * t.plus l j)
    + fsum (fun l => b * s.minus l i * t.minus l j)

/-- One UKF step, line by line (`kk` is the sigma-point parameter `k`). -/
def ukf {n m p : Nat} (pinv : Mat α p p → Mat α p p) (msqrt : Mat α n n → Mat α n n) (kk : α)
    (s : Step α n m p) (pr : Post α n) : Post α n :=
  let a := w0 n kk
  let b := wr n kk
  let xs := (sigmaPoints msqrt pr.x pr.P kk).map (fun pt => s.sys.f pt s.u)
  let xe := memoV (xs.wsum a b)
  let ex := xs.dev xe.fn
  let Pm := memoM (madd s.Q (ex.cov a b ex))
  let s2 := sigmaPoints msqrt xe.fn Pm.mfn kk
  let ex2 := s2.dev xe.fn
  let ys := s2.map (fun pt => s.sys.g pt s.u)
  let ye := memoV (ys.wsum a b)
  let ey := ys.dev ye.fn
  let Py := memoM (madd s.R (ey.cov a b ey))
  let Pxy := memoM (ex2.cov a b ey)
  let Pyi := memoM (pinv Py.mfn)
  let K := memoM (mmul Pxy.mfn Pyi.mfn)
  let x := memoV (vadd xe.fn (mulVec K.mfn (vsub s.y ye.fn)))
  let P := memoM (msub Pm.mfn (mmul (mmul K.mfn Py.mfn) (transpose K.mfn)))
  ⟨x.fn, P.mfn⟩

/-- the predicted covariance `P⁻` inside `ukf` (the matrix whose square root the second sigma set needs) -/
def ukfPredCov {n m p : Nat} (msqrt : Mat α n n → Mat α n n) (kk : α) (s : Step α n m p) (pr : Post α n) : Mat α n n :=
  let a := w0 n kk
  let b := wr n kk
  let xs := (sigmaPoints msqrt pr.x pr.P kk).map (fun pt => s.sys.f pt s.u)
  let xe := memoV (xs.wsum a b)
  let ex := xs.dev xe.fn
  (memoM (madd s.Q (ex.cov a b ex))).mfn

/-- the total function behind a root that can fail (its value where the root fails is never used by `ukfO`) -/
def rootOr0 {n : Nat} (chol : Mat α n n → Option (Mat α n n)) : Mat α n n → Mat α n n :=
  fun M => match chol M with
    | some L => L
    | none => fun _ _ => k 0

/-- UKF with a square root that can FAIL (`torch.linalg.cholesky` raises `LinAlgError` on a matrix that is not positive
definite): `none` when one of the two factorisations the call makes does not exist -/
def ukfO {n m p : Nat} (pinv : Mat α p p → Mat α p p) (chol : Mat α n n → Option (Mat α n n)) (kk : α)
    (s : Step α n m p) (pr : Post α n) : Option (Post α n) :=
  match chol (msmul (k n + kk) pr.P), chol (msmul (k n + kk) (ukfPredCov (rootOr0 chol) kk s pr)) with
  | some _, some _ => some (ukf pinv (rootOr0 chol) kk s pr)
  | _, _ => none

/-- a run on one filter object: every call carries its own sigma-point parameter `k` (the API takes `k` per
call; `None` is `3 − n`) besides its own system, `u`, `y`, `Q`, `R` -/
def runUKF {n m p : Nat} (pinv : Mat α p p → Mat α p p) (msqrt : Mat α n n → Mat α n n)
    (calls : List (α × Step α n m p)) (pr : Post α n) : Post α n :=
  calls.foldl (fun st c => ukf pinv msqrt c.1 c.2 st) pr

def ukfCall {n m p : Nat} (pinv : Mat α p p → Mat α p p) (msqrt : Mat α n n → Mat α n n) (kk : α)
    (stQ : Option (Mat α n n)) (stR : Option (Mat α p p))
    (sys : Sys α n m p) (u : Vec α m) (y : Vec α p) (pQ : Option (Mat α n n)) (pR : Option (Mat α p p))
    (pr : Post α n) : Option (Post α n) :=
  match resolve pQ stQ, resolve pR stR with
  | some Q, some R => some (ukf pinv msqrt kk ⟨sys, u, y, Q, R⟩ pr)
  | _, _ => none

/-! ### a filter object used over a history: stored covariances, per-call sources, default `k`, raising calls -/

/-- `k = 3 - x.size(-1) if k is None else k` -/
def resolveK (n : Nat) (kk : Option α) : α :=
  match kk with
  | some v => v
  | none => k 3 - k n

/-- what one `filter(x, y, u, P, Q=…, R=…, k=…)` call passes (besides the prior): `none` = argument not given -/
structure Call (α : Type) (n m p : Nat) where
  sys : Sys α n m p
  u : Vec α m
  y : Vec α p
  pQ : Option (Mat α n n)
  pR : Option (Mat α p p)
  kk : Option α

/-- the `Step` this call amounts to on an object storing `stQ`, `stR` (`none`: `NotImplementedError`, nothing to use) -/
def Call.toStep {n m p : Nat} (stQ : Option (Mat α n n)) (stR : Option (Mat α p p)) (c : Call α n m p) :
    Option (Step α n m p) :=
  match resolve c.pQ stQ, resolve c.pR stR with
  | some Q, some R => some ⟨c.sys, c.u, c.y, Q, R⟩
  | _, _ => none

/-- a history on ONE EKF object: every call resolves its own `Q`, `R`; a call that raises leaves the estimate the caller
holds (and the object) as it was -/
def runEKFobj {n m p : Nat} (pinv : Mat α p p → Mat α p p) (stQ : Option (Mat α n n)) (stR : Option (Mat α p p))
    (calls : List (Call α n m p)) (pr : Post α n) : Post α n :=
  calls.foldl (fun st c => match ekfCall pinv stQ stR c.sys c.u c.y c.pQ c.pR st with
    | some po => po
    | none => st) pr

/-- the same for one UKF object; `k` is resolved per call (`None` ↦ `3 − n`) -/
def runUKFobj {n m p : Nat} (pinv : Mat α p p → Mat α p p) (msqrt : Mat α n n → Mat α n n)
    (stQ : Option (Mat α n n)) (stR : Option (Mat α p p)) (calls : List (Call α n m p)) (pr : Post α n) : Post α n :=
  calls.foldl (fun st c => match ukfCall pinv msqrt (resolveK n c.kk) stQ stR c.sys c.u c.y c.pQ c.pR st with
    | some po => po
    | none => st) pr

/-! ## PF  (`PF.forward`, `relative_likelihood`, `resample_particles`, `compute_cov`)

The random draws are inputs: `xp i` are the particles returned by `generate_particles(x, n·P)` and
`r j` the uniforms drawn in `resample_particles`. -/

/-- `MultivariateNormal(ye, R).log_prob(y) = −½ (y−ye)ᵀ R⁻¹ (y−ye) − lz` -/
def logLik {p} (Rinv : Mat α p p) (lz : α) (y ye : Vec α p) : α :=
  let e := vsub y ye;
  -(q 1 2 * dot e (mulVec Rinv e)) - lz

/-- running maximum (`softmax` subtracts it before exponentiating) -/
def fmax : {n : Nat} → (Fin n → α) → α → α
  | 0, _, d => d
  | _+1, f, d => fmax (fun i => f i.succ) (if Scalar.lt d (f 0) then f 0 else d)

/-- `max_i l i` (`k 0` for the empty vector) -/
def vmax : {N : Nat} → Vec α N → α
  | 0, _ => k 0
  | _+1, l => fmax (fun i => l i.succ) (l 0)

/-- `F.softmax(l, dim=-1)`: `exp(l_i − max l) / Σ_j exp(l_j − max l)` -/
def softmax {N} (l : Vec α N) : MemoV α N :=
  let c := vmax l
  let e := memoV (fun i => Scalar.exp (l i - c))
  let z := fsum e.fn
  memoV (fun i => e.fn i / z)

/-- `torch.cumsum(q, dim=-1)` -/
def cumsum {N} (w : Vec α N) : Vec α N :=
  fun i => fsum (n := i.val + 1) (fun j => w ⟨j.val, by omega⟩)

/-- `torch.searchsorted(cs, r)` (`right=False`) on a non-decreasing `cs`: the number of entries `< r`,
which is the first index `i` with `r ≤ cs i` (or `N` when there is none). -/
def searchsorted {N} (cs : Vec α N) (r : α) : Nat := fcount (fun i => Scalar.lt (cs i) r)

/-- the importance weights of the propagated particles -/
def pfWeights {n m p N : Nat} (Rinv : Mat α p p) (lz : α) (s : Step α n m p) (xp : Fin N → Vec α n) :
    MemoV α N :=
  let l := memoV (fun i => logLik Rinv lz s.y (s.sys.g (xp i) s.u))
  softmax l.fn

/-- indices chosen by `resample_particles` from the cumulative weights `cs = cumsum q`:
`searchsorted(cs, r).clamp_(max = N − 1)` (the clamp only matters when rounding leaves the last
cumulative weight below a draw) -/
def pfIndices {N} (cs : Vec α N) (r : Vec α N) : Fin N → Nat :=
  fun j => min (searchsorted cs (r j)) (N - 1)

/-- mean and covariance of the resampled set: `x = mean(xr)`, `P = Q + mean((xr−x)(xr−x)ᵀ)` -/
def pfMoments {n N : Nat} (Q : Mat α n n) (xr : Fin N → Vec α n) : Post α n :=
  let x := memoV (fun a => fsum (fun j => xr j a) / k N)
  let ex := memoM (fun j => vsub (xr j) x.fn)
  let P := memoM (fun a b => Q a b + fsum (fun j => ex.mfn j a * ex.mfn j b) / k N)
  ⟨x.fn, P.mfn⟩

/-- One PF step. `xs, ye = model(xp, u)`: both the transition and the observation are evaluated at
the *prior* particles. -/
def pf {n m p N : Nat} (hN : 0 < N) (pinv : Mat α p p → Mat α p p) (lz : α) (s : Step α n m p)
    (xp : Fin N → Vec α n) (r : Vec α N) : Post α n :=
  let xs := memoM (fun i => s.sys.f (xp i) s.u)
  let Ri := memoM (pinv s.R)
  let w := pfWeights Ri.mfn lz s xp
  let cs := memoV (cumsum w.fn)
  let idx := memoV (pfIndices cs.fn r)
  let xr := memoM (fun j => xs.mfn ⟨min (idx.fn j) (N - 1), by omega⟩)
  pfMoments s.Q xr.mfn

end PP.Filter
